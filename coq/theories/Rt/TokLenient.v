(* Parser half of "lenient layouts converge" (property C03) for the core2 fragment of Rt/TokRound2.v.

   A LAYOUT chooses, independently at every site of a core2 document,
     (1) the INDENT count of every line (header lines and comment lines), or no INDENT token at all (column 0);
     (2) the number (>= 0) of blank lines = extra NEWLINE tokens AFTER every line (envelope line, grammar line, `META:`, META
         fields, `---`, every comment line, every node line), and at the very start of the token list;
     (3) (nothing to choose: the lexer emits INDENT only on lines with content, so a blank line is exactly one NEWLINE token);
     (4) whether the closing ENVELOPE_END token is present (otherwise the shape ends with the EOF token);
     (5) inside the brackets of a list value: ARBITRARY runs of NEWLINE / INDENT / COMMENT tokens before the first item, after every
         comma, and before the closing bracket.
   `doc2_sh_len lay idnum d` is the token shape of d under the layout `lay`; `layout_ok lay d` is the class of layouts proved to be
   read as the SAME tree:
     - the first line of every body (children of a block / section) carries an INDENT whose count ci is greater than the count of
       the header line of the body's owner;
     - every further line directly in that body carries an INDENT with count >= ci, or -- comment lines only -- no INDENT at all;
     - the line that follows a nested block / section inside a body (or at the top level) carries an INDENT with a count smaller
       than the child indent of that nested body (a top-level HEADER line may also sit at column 0); in particular a column-0
       comment never directly follows a nested body (comment-dedent class, wf clause 14 / top_ok);
     - top-level lines are otherwise unconstrained (doc_loop skips INDENT tokens);
     - META fields: first field INDENT count il > 0, further fields >= il; the line after the META block (if it carries an INDENT
       at all) has a count < il and is not the separator.
   The class is SUFFICIENT, not necessary: two accepted layouts outside it are shown in Rt/TokLenientEx.v (children indented less than
   their header when nothing follows; a column-0 comment directly after a SECTION header).  Layouts outside the class that change the
   tree are refuted there.  Main results: parse_core2_doc_len, lenient_layouts_converge, lenient_layouts_same_canonical,
   parse_core2_doc_canonical (= TokRound2.parse_core2_doc, without its `tail <> []`), doc2_sh_len_canonical, layout_ok_canonical.  The canonical layout (counts 2*depth, no blank
   line, END present, lists laid out by `ml`) is an instance: doc2_sh_len (canonical_lay ml d) = doc2_sh ml. *)
From OV Require Import Base.Strs Lex.Lexer Syn.Ast Syn.Parser Rt.TokRound Rt.TokRound2.
From Coq Require Import Lia.
Require Coq.Strings.String.
Import Coq.Strings.String.StringSyntax.
Open Scope N_scope.

(* ---- layouts ------------------------------------------------------------------------------------------------------------------ *)
Record lline := mkLL { l_ind : option N;      (* the INDENT token of the line; None: the line starts at column 0 *)
                       l_blank : nat }.       (* blank lines after the line *)
Inductive vlay := VLay (p2 pl p : list sh).   (* inside brackets: after each comma / before the closing bracket / before the first item *)
Inductive nlay := NLay (leads : list lline)   (* one line per leading comment *)
                       (hdr : lline)          (* the node's own (header) line *)
                       (vl : vlay)            (* assignments with a list value *)
                       (ch : list nlay).      (* blocks / sections: the children *)
Definition n_leads (l : nlay) := match l with NLay a _ _ _ => a end.
Definition n_hdr (l : nlay) := match l with NLay _ a _ _ => a end.
Definition n_vl (l : nlay) := match l with NLay _ _ a _ => a end.
Definition n_ch (l : nlay) := match l with NLay _ _ _ a => a end.

Record dlay := mkDL {
  dl_start : nat;                    (* NEWLINE tokens before the first line *)
  dl_gram : nat;                     (* blank lines after the grammar line *)
  dl_env : nat;                      (* ... after the envelope line *)
  dl_mhdr : nat;                     (* ... after `META:` *)
  dl_meta : list (lline * vlay);     (* one line per META field *)
  dl_sep : nat;                      (* ... after `---` *)
  dl_nodes : list nlay;
  dl_trail : list lline;             (* one line per trailing document comment *)
  dl_end : bool }.                   (* the ENVELOPE_END token is present *)

(* ---- shapes ------------------------------------------------------------------------------------------------------------------- *)
Definition ind_sh (i : option N) : list sh := match i with Some n => [(INDENT, Some (TVCount n))] | None => [] end.
Definition nls (k : nat) : list sh := repeat (NEWLINE, None) k.
Definition eol (l : lline) : list sh := (NEWLINE, None) :: nls (l_blank l).
Fixpoint lead_len (ls : list lline) (cs : list str) : list sh :=
  match ls, cs with
  | l :: lr, c :: cr => ind_sh (l_ind l) ++ (COMMENT, Some (TVText c)) :: eol l ++ lead_len lr cr
  | _, _ => []
  end.
Definition val_len (vl : vlay) (v : value) : list sh :=
  match v, vl with
  | VList items, VLay p2 pl p => (LIST_START, None) :: body_sh p2 pl p items
  | _, _ => [vsh v]
  end.

Section Shapes.
Variable idnum : str -> bool.

Fixpoint main_len (n : node) (l : nlay) {struct n} : list sh :=
  match n with
  | NAssign k v _ t => [(IDENTIFIER, Some (TVText k)); (ASSIGN, None)] ++ val_len (n_vl l) v ++ trail_sh t ++ eol (n_hdr l)
  | NBlock k _ ch _ =>
      [(IDENTIFIER, Some (TVText k)); (BLOCK, None)] ++ eol (n_hdr l) ++
      (fix go (ch : list node) (ls : list nlay) : list sh :=
         match ch, ls with
         | c :: r, lc :: lr => (lead_len (n_leads lc) (lead_of c) ++ ind_sh (l_ind (n_hdr lc)) ++ main_len c lc) ++ go r lr
         | _, _ => []
         end) ch (n_ch l)
  | NSection i k a ch _ =>
      [(SECTION, None); id_sh idnum i; (ASSIGN, None); (IDENTIFIER, Some (TVText k))] ++ annot_sh a ++ eol (n_hdr l) ++
      (fix go (ch : list node) (ls : list nlay) : list sh :=
         match ch, ls with
         | c :: r, lc :: lr => (lead_len (n_leads lc) (lead_of c) ++ ind_sh (l_ind (n_hdr lc)) ++ main_len c lc) ++ go r lr
         | _, _ => []
         end) ch (n_ch l)
  | NComment _ => []
  end.
Definition node_len (c : node) (lc : nlay) : list sh :=
  lead_len (n_leads lc) (lead_of c) ++ ind_sh (l_ind (n_hdr lc)) ++ main_len c lc.
Fixpoint nodes_len (ch : list node) (ls : list nlay) : list sh :=
  match ch, ls with
  | c :: r, lc :: lr => node_len c lc ++ nodes_len r lr
  | _, _ => []
  end.
Lemma main_len_block k t ch ld l :
  main_len (NBlock k t ch ld) l = [(IDENTIFIER, Some (TVText k)); (BLOCK, None)] ++ eol (n_hdr l) ++ nodes_len ch (n_ch l).
Proof. reflexivity. Qed.
Lemma main_len_section i k a ch ld l :
  main_len (NSection i k a ch ld) l =
  [(SECTION, None); id_sh idnum i; (ASSIGN, None); (IDENTIFIER, Some (TVText k))] ++ annot_sh a ++ eol (n_hdr l) ++ nodes_len ch (n_ch l).
Proof. reflexivity. Qed.

Fixpoint meta_len (m : list (str * metaval)) (ls : list (lline * vlay)) : list sh :=
  match m, ls with
  | kv :: mr, (l, vl) :: lr =>
      ind_sh (l_ind l) ++ [(IDENTIFIER, Some (TVText (fst kv))); (ASSIGN, None)] ++
      (match snd kv with MV v => val_len vl v | MD _ => [] end) ++ eol l ++ meta_len mr lr
  | _, _ => []
  end.

Definition sep_len (b : bool) (k : nat) : list sh := if b then (SEPARATOR, None) :: (NEWLINE, None) :: nls k else [].
Definition meta_part (meta : list (str * metaval)) (k : nat) (mls : list (lline * vlay)) : list sh :=
  match meta with
  | [] => []
  | m => (IDENTIFIER, Some (TVText (lit "META"))) :: (BLOCK, None) :: (NEWLINE, None) :: nls k ++ meta_len m mls
  end.

Definition doc2_sh_len (lay : dlay) (d : doc) : list sh :=
  nls (dl_start lay) ++
  (match dgrammar d with Some g => (GRAMMAR_SENTINEL, Some (TVText g)) :: (NEWLINE, None) :: nls (dl_gram lay) | None => [] end) ++
  (ENVELOPE_START, Some (TVText (dname d))) :: ((NEWLINE, None) :: nls (dl_env lay)) ++
  meta_part (dmeta d) (dl_mhdr lay) (dl_meta lay) ++
  sep_len (dsep d) (dl_sep lay) ++
  nodes_len (dsections d) (dl_nodes lay) ++ lead_len (dl_trail lay) (dtrailing d) ++
  [if dl_end lay then (ENVELOPE_END, None) else (EOF, None)].
End Shapes.

(* ---- the class of layouts ------------------------------------------------------------------------------------------------------ *)
Definition icount (i : option N) : N := match i with Some n => n | None => 0 end.
Definition first_ind (lc : nlay) : option N := match n_leads lc with l :: _ => l_ind l | [] => l_ind (n_hdr lc) end.
(* the child indent of a block / section = the INDENT count of the first line of its body *)
Definition body_ci (l : nlay) : N := match n_ch l with lc :: _ => icount (first_ind lc) | [] => 0 end.

Definition vlay_ok (vl : vlay) : bool := match vl with VLay p2 pl p => skip_sh p2 && skip_sh pl && skip_sh p end.

(* one line inside a body with child indent ci; bound = Some b: the line follows a nested body with child indent b;
   col0: the line may start at column 0 *)
Definition line_ok (ci : N) (bound : option N) (col0 : bool) (i : option N) : bool :=
  match i with
  | Some n => (ci <=? n) && match bound with Some b => n <? b | None => true end
  | None => col0 && match bound with None => true | Some _ => false end
  end.
Definition child_lines_ok (ci : N) (bound : option N) (first_in_body : bool) (lc : nlay) : bool :=
  match n_leads lc with
  | [] => line_ok ci bound false (l_ind (n_hdr lc))
  | l :: lr => line_ok ci bound (negb first_in_body) (l_ind l) && forallb (fun l => line_ok ci None true (l_ind l)) lr &&
               line_ok ci None false (l_ind (n_hdr lc))
  end.

Fixpoint lay_ok (n : node) (l : nlay) {struct n} : bool :=
  Nat.eqb (length (n_leads l)) (length (lead_of n)) &&
  match n with
  | NAssign _ _ _ _ => vlay_ok (n_vl l)
  | NBlock _ _ ch _ =>
      (icount (l_ind (n_hdr l)) <? body_ci l) &&
      (fix go (ch : list node) (ls : list nlay) (bound : option N) (first : bool) : bool :=
         match ch, ls with
         | [], [] => true
         | c :: r, lc :: lr =>
             child_lines_ok (body_ci l) bound first lc && lay_ok c lc &&
             go r lr (if is_container c then Some (body_ci lc) else None) false
         | _, _ => false
         end) ch (n_ch l) None true
  | NSection _ _ _ ch _ =>
      (icount (l_ind (n_hdr l)) <? body_ci l) &&
      (fix go (ch : list node) (ls : list nlay) (bound : option N) (first : bool) : bool :=
         match ch, ls with
         | [], [] => true
         | c :: r, lc :: lr =>
             child_lines_ok (body_ci l) bound first lc && lay_ok c lc &&
             go r lr (if is_container c then Some (body_ci lc) else None) false
         | _, _ => false
         end) ch (n_ch l) None true
  | NComment _ => true
  end.
Definition body_ok (ci : N) : list node -> list nlay -> option N -> bool -> bool :=
  fix go (ch : list node) (ls : list nlay) (bound : option N) (first : bool) : bool :=
    match ch, ls with
    | [], [] => true
    | c :: r, lc :: lr =>
        child_lines_ok ci bound first lc && lay_ok c lc &&
        go r lr (if is_container c then Some (body_ci lc) else None) false
    | _, _ => false
    end.
Lemma body_ok_cons ci c r lc lr bound first :
  body_ok ci (c :: r) (lc :: lr) bound first =
  child_lines_ok ci bound first lc && lay_ok c lc && body_ok ci r lr (if is_container c then Some (body_ci lc) else None) false.
Proof. reflexivity. Qed.
Lemma lay_ok_block k t ch ld l :
  lay_ok (NBlock k t ch ld) l =
  Nat.eqb (length (n_leads l)) (length ld) && ((icount (l_ind (n_hdr l)) <? body_ci l) && body_ok (body_ci l) ch (n_ch l) None true).
Proof. reflexivity. Qed.
Lemma lay_ok_section i k a ch ld l :
  lay_ok (NSection i k a ch ld) l =
  Nat.eqb (length (n_leads l)) (length ld) && ((icount (l_ind (n_hdr l)) <? body_ci l) && body_ok (body_ci l) ch (n_ch l) None true).
Proof. reflexivity. Qed.

(* the first line after a nested body at the top level: an INDENT below the bound, or a header at column 0 *)
Definition top_first_ok (bound : option N) (i : option N) (is_hdr : bool) : bool :=
  match bound, i with
  | None, _ => true
  | Some b, Some n => n <? b
  | Some _, None => is_hdr
  end.
Definition top_child_ok (bound : option N) (lc : nlay) : bool :=
  match n_leads lc with
  | [] => top_first_ok bound (l_ind (n_hdr lc)) true
  | l :: _ => top_first_ok bound (l_ind l) false
  end.
Fixpoint top_lay_ok (ns : list node) (ls : list nlay) (trl : list lline) (bound : option N) : bool :=
  match ns, ls with
  | [], [] => match trl with l :: _ => top_first_ok bound (l_ind l) false | [] => true end
  | c :: r, lc :: lr =>
      top_child_ok bound lc && lay_ok c lc && top_lay_ok r lr trl (if is_container c then Some (body_ci lc) else None)
  | _, _ => false
  end.

(* META fields: INDENT count il > 0 on the first, >= il on the others *)
Definition meta_il (ls : list (lline * vlay)) : N := match ls with (l, _) :: _ => icount (l_ind l) | [] => 0 end.
Definition meta_lay_ok (m : list (str * metaval)) (ls : list (lline * vlay)) : bool :=
  Nat.eqb (length ls) (length m) &&
  forallb (fun lv => match l_ind (fst lv) with Some n => (0 <? meta_il ls) && (meta_il ls <=? n) | None => false end && vlay_ok (snd lv)) ls.
(* the first line after the META block: at column 0, or (no separator) an INDENT below the field indent *)
Definition first_top_ind (ls : list nlay) (trl : list lline) : option N :=
  match ls with lc :: _ => first_ind lc | [] => match trl with l :: _ => l_ind l | [] => None end end.
Definition after_meta_ok (d : doc) (lay : dlay) : bool :=
  match dmeta d with
  | [] => true
  | _ => dsep d || match first_top_ind (dl_nodes lay) (dl_trail lay) with Some n => n <? meta_il (dl_meta lay) | None => true end
  end.

Definition layout_ok (lay : dlay) (d : doc) : bool :=
  meta_lay_ok (dmeta d) (dl_meta lay) && after_meta_ok d lay &&
  Nat.eqb (length (dl_trail lay)) (length (dtrailing d)) &&
  top_lay_ok (dsections d) (dl_nodes lay) (dl_trail lay) None.

(* ---- the canonical layout ------------------------------------------------------------------------------------------------------ *)
Section Canonical.
Variable ml : list value -> bool.
Definition cline (D : nat) : lline := mkLL (match D with O => None | S _ => Some (ind_count D) end) 0.
Definition cvlay (D : nat) (v : value) : vlay :=
  match v with
  | VList ((_ :: _) as items) =>
      if ml items then VLay (nl_sh ++ indent_sh (S D)) (nl_sh ++ indent_sh D) (nl_sh ++ indent_sh (S D)) else VLay [] [] []
  | _ => VLay [] [] []
  end.
Fixpoint cnlay (D : nat) (n : node) {struct n} : nlay :=
  match n with
  | NAssign _ v ld _ => NLay (map (fun _ => cline D) ld) (cline D) (cvlay D v) []
  | NBlock _ _ ch ld => NLay (map (fun _ => cline D) ld) (cline D) (VLay [] [] []) (map (cnlay (S D)) ch)
  | NSection _ _ _ ch ld => NLay (map (fun _ => cline D) ld) (cline D) (VLay [] [] []) (map (cnlay (S D)) ch)
  | NComment _ => NLay [] (cline D) (VLay [] [] []) []
  end.
Definition canonical_lay (d : doc) : dlay :=
  mkDL 0 0 0 0 (map (fun kv => (cline 1, match snd kv with MV v => cvlay 1 v | MD _ => VLay [] [] [] end)) (dmeta d)) 0
       (map (cnlay 0) (dsections d)) (map (fun _ => cline 0) (dtrailing d)) true.
End Canonical.

(* the fragment: core2_doc without top_ok (the comment-dedent condition is a condition on the LAYOUT here: top_lay_ok) *)
Definition core2_doc_l (d : doc) : bool :=
  match dfront d with
  | None =>
      forallb core2_node (dsections d) &&
      forallb meta_field_ok (dmeta d) && nodupb (map fst (dmeta d)) &&
      (negb (is_nil (dmeta d)) || dsep d || first_key_not_meta2 (dsections d))
  | Some _ => false
  end.
Lemma core2_doc_l_of d : core2_doc d = true -> core2_doc_l d = true.
Proof.
  unfold core2_doc, core2_doc_l. destruct (dfront d); [discriminate|]. intros H.
  apply andb_prop in H. destruct H as [H H4]. apply andb_prop in H. destruct H as [H H3]. apply andb_prop in H. destruct H as [H H2].
  apply andb_prop in H. destruct H as [H1 _]. rewrite H1, H2, H3, H4. reflexivity.
Qed.

Section Len.
Variable numcanon : str -> option (bool * str).
Variable holo_ok : str -> bool.
Variable strict : bool.
Variable sp alpha : N -> bool.
Variable idnum : str -> bool.

Notation pv := (parse_value numcanon holo_ok strict sp).
Notation plist := (parse_list numcanon holo_ok strict sp).
Notation plloop := (parse_list_loop numcanon holo_ok strict sp).
Notation psec := (parse_section numcanon holo_ok strict sp alpha).
Notation bloop := (block_loop numcanon holo_ok strict sp alpha).
Notation sloop := (section_loop numcanon holo_ok strict sp alpha).
Notation pmark := (parse_section_marker numcanon holo_ok strict sp alpha).
Notation dloop := (doc_loop numcanon holo_ok strict sp alpha).
Notation mloop := (meta_loop numcanon holo_ok strict sp).
Notation pmeta := (parse_meta_block numcanon holo_ok strict sp).
Notation num_ok_v := (num_ok_v numcanon).
Notation num_ok_val := (num_ok_val numcanon).

Ltac is_step H Hk :=
  repeat rewrite (is_hd _ _ _ _ H); rewrite ?Hk;
  cbn [tkind_eqb tkind_code N.eqb Pos.eqb orb andb negb kin existsb].
Ltac sadv := repeat first [apply sext_refl | apply sext_adv | (eapply sext_trans; [|apply sext_adv])].

(* ---- values under an arbitrary bracket layout ------------------------------------------------------------------------------------ *)
Lemma pv_cval_len v vl f st ts nt r :
  cval v = true -> num_ok_val v -> vlay_ok vl = true -> (length ts + 3 <= f)%nat ->
  Forall2 tmatch ts (val_len vl v) -> ptoks st = ts ++ nt :: r -> after_val (tk nt) = true -> pbdepth st = 0 ->
  exists st', pv f st = POk v st' /\ ptoks st' = nt :: r /\ moved (length ts) st st'.
Proof.
  intros Hc Hnum Hvl Hf Hts Hst Hnt Hdep.
  assert (Hnt' : after_scalar (tk nt) = true) by (destruct (tk nt); try discriminate Hnt; reflexivity).
  assert (Hscal : forall sv, sval_of v = Some sv -> val_len vl v = [vsh v] -> num_ok_v v ->
                  exists st', pv f st = POk v st' /\ ptoks st' = nt :: r /\ moved (length ts) st st').
  { intros sv Esv Esh Hn. rewrite Esh, (vsh_sval _ _ Esv) in Hts. inversion Hts as [|t ? ? ? Ht Hnil]; subst. inversion Hnil; subst.
    cbn [app] in Hst. destruct f as [|f]; [cbn in Hf; lia|].
    unfold TokRound.num_ok_v in Hn. rewrite Esv in Hn.
    rewrite (pv_scalar2 _ _ _ _ _ _ _ _ _ sv Hst Ht Hnt' Hn), (sval_of_val _ _ Esv).
    exists (adv st). split; [reflexivity|]. split; [exact (adv_toks _ _ _ _ Hst)|exact (moved_adv _ _ _ _ Hst)]. }
  destruct v as [|b|isf c|s|items| | | |]; cbn [cval is_scalar sval_of] in Hc; try discriminate Hc;
    try (eapply Hscal; [reflexivity|destruct vl; reflexivity|exact Hnum]).
  clear Hscal. cbn [TokRound2.num_ok_val] in Hnum.
  destruct vl as [p2 pl p]. cbn [vlay_ok] in Hvl. apply andb_prop in Hvl. destruct Hvl as [Hvl Hp]. apply andb_prop in Hvl. destruct Hvl as [Hp2 Hpl].
  cbn [val_len] in Hts.
  inversion Hts as [|tL ? tsb ? [HLk _] Hb]; subst. cbn [fst] in HLk. rewrite <- app_comm_cons in Hst.
  pose proof (F2_length _ _ _ Hb) as Hlen. pose proof (body_len p2 pl items p) as Hbl.
  cbn [length] in Hf. destruct f as [|[|f]]; try lia.
  rewrite pv_list_eq; [|unfold ck; rewrite (cur_hd _ _ _ Hst); exact HLk].
  rewrite plist_eq. cbv zeta. unfold expect. is_step Hst HLk. cbn [bind].
  assert (Hne : exists t1 r1, tsb ++ nt :: r = t1 :: r1) by (destruct tsb; cbn [app]; eauto).
  destruct Hne as (t1 & r1 & E1). rewrite E1 in Hst. pose proof (adv_toks _ _ _ _ Hst) as H1. rewrite <- E1 in H1.
  rewrite adv_depth, Hdep.
  change (max_nesting <=? 0 + 1) with false. change (nesting_threshold <=? 0 + 1) with false. cbv iota. cbn [andb].
  destruct (plloop_body numcanon holo_ok strict sp p2 pl Hp2 Hpl items p f [] (set_depth (0 + 1) (adv st)) tsb (nt :: r) Hp Hc Hnum) as (st4 & tE & ts0 & Hl & Ets & HEk & Hp4 & Hm4);
    [unfold sh in *; lia|exact Hb|discriminate|rewrite set_depth_toks; exact H1|].
  rewrite Hl. cbn [bind rev app]. is_step Hp4 HEk. cbn [bind].
  pose proof (adv_toks _ _ _ _ Hp4) as H5.
  destruct Hm4 as (Hw4 & Hd4 & Hpos4). cbn [set_depth pwarns pbdepth ppos] in Hw4, Hd4, Hpos4.
  pose proof (moved_adv _ _ _ _ Hst) as (Hw1 & Hd1 & Hpos1).
  pose proof (moved_adv _ _ _ _ Hp4) as (Hw5 & Hd5 & Hpos5).
  assert (Hslice : firstn (N.to_nat (ppos (set_depth (pbdepth st4 - 1) (adv st4)) - ppos st)) (ptoks st) = tL :: tsb).
  { rewrite Hst. cbn [set_depth ppos]. rewrite Hpos5, Hpos4, Hpos1.
    replace (N.to_nat (ppos st + N.of_nat 1 + N.of_nat (length ts0) + N.of_nat 1 - ppos st)) with (length (tL :: tsb)) by (subst tsb; cbn [length]; rewrite app_length; cbn [length]; lia).
    rewrite <- E1. rewrite app_comm_cons. rewrite firstn_app, Nat.sub_diag, firstn_all. cbn [firstn]. apply app_nil_r. }
  rewrite Hslice.
  assert (Hnc : try_holographic holo_ok (tL :: tsb) = None).
  { unfold try_holographic. rewrite (no_constraint (tL :: tsb) ((LIST_START, None) :: body_sh p2 pl p items)); [reflexivity|exact Hts|].
    cbn [nc_sh forallb]. apply (body_nc p2 pl Hp2 Hpl items p Hp). }
  rewrite Hnc.
  eexists. split; [reflexivity|]. split; [rewrite set_depth_toks; exact H5|].
  unfold moved. cbn [set_depth pwarns pbdepth ppos]. rewrite Hw5, Hw4, Hw1. split; [reflexivity|].
  rewrite Hd4, Hdep. split; [reflexivity|]. rewrite Hpos5, Hpos4, Hpos1. subst tsb. cbn [length]. rewrite app_length. cbn [length]. lia.
Qed.

(* ---- runs of NEWLINE tokens and comment lines inside the three loops ------------------------------------------------------------ *)
Lemma nls_kinds tn k : Forall2 tmatch tn (nls k) -> Forall (fun t => tk t = NEWLINE) tn.
Proof.
  revert tn. induction k as [|k IH]; intros tn H; cbn [nls repeat] in H; inversion H as [|t s tr sr [Hk _] Hr]; subst; constructor; [exact Hk|apply IH; exact Hr].
Qed.
Lemma eol_kinds tn l : Forall2 tmatch tn (eol l) -> exists t0 tr, tn = t0 :: tr /\ tk t0 = NEWLINE /\ Forall (fun t => tk t = NEWLINE) tr.
Proof. unfold eol. intros H. inversion H as [|t s tr sr [Hk _] Hr]; subst. exists t, tr. split; [reflexivity|]. split; [exact Hk|exact (nls_kinds _ _ Hr)]. Qed.

Lemma bloop_nl_run ci tn : Forall (fun t => tk t = NEWLINE) tn ->
  forall cli f pending acc dups st rest, ptoks st = tn ++ rest -> rest <> [] -> tn <> [] ->
  exists st', bloop (length tn + f) ci cli pending acc dups st = bloop f ci 0 pending acc dups st' /\ ptoks st' = rest /\ sext st st'.
Proof.
  induction 1 as [|t tr Hk _ IH]; intros cli f pending acc dups st rest Hst Hr Hne; [congruence|].
  cbn [app] in Hst. assert (E : exists t1 r1, tr ++ rest = t1 :: r1) by (destruct rest; [congruence|]; destruct tr; cbn [app]; eauto).
  destruct E as (t1 & r1 & E). rewrite E in Hst. cbn [length Nat.add]. rewrite bloop_eq. cbv zeta. is_step Hst Hk.
  pose proof (adv_toks _ _ _ _ Hst) as H1. rewrite <- E in H1.
  destruct tr as [|t2 tr'].
  - cbn [app length Nat.add] in *. exists (adv st). split; [reflexivity|]. split; [exact H1|apply sext_adv].
  - destruct (IH 0 f pending acc dups (adv st) rest H1 Hr) as (st' & He & Hp & W); [discriminate|].
    exists st'. split; [exact He|]. split; [exact Hp|]. eapply sext_trans; [apply sext_adv|exact W].
Qed.
Lemma sloop_nl_run ci tn : Forall (fun t => tk t = NEWLINE) tn ->
  forall cli f pending acc dups st rest, ptoks st = tn ++ rest -> rest <> [] -> tn <> [] ->
  exists st', sloop (length tn + f) ci cli pending acc dups st = sloop f ci 0 pending acc dups st' /\ ptoks st' = rest /\ sext st st'.
Proof.
  induction 1 as [|t tr Hk _ IH]; intros cli f pending acc dups st rest Hst Hr Hne; [congruence|].
  cbn [app] in Hst. assert (E : exists t1 r1, tr ++ rest = t1 :: r1) by (destruct rest; [congruence|]; destruct tr; cbn [app]; eauto).
  destruct E as (t1 & r1 & E). rewrite E in Hst. cbn [length Nat.add]. rewrite sloop_eq. cbv zeta. is_step Hst Hk.
  pose proof (adv_toks _ _ _ _ Hst) as H1. rewrite <- E in H1.
  destruct tr as [|t2 tr'].
  - cbn [app length Nat.add] in *. exists (adv st). split; [reflexivity|]. split; [exact H1|apply sext_adv].
  - destruct (IH 0 f pending acc dups (adv st) rest H1 Hr) as (st' & He & Hp & W); [discriminate|].
    exists st'. split; [exact He|]. split; [exact Hp|]. eapply sext_trans; [apply sext_adv|exact W].
Qed.
Lemma dloop_nl_run tn : Forall (fun t => tk t = NEWLINE) tn ->
  forall f pending acc dups st rest, ptoks st = tn ++ rest -> rest <> [] ->
  exists st', dloop (length tn + f) pending acc dups st = dloop f pending acc dups st' /\ ptoks st' = rest /\ sext st st'.
Proof.
  induction 1 as [|t tr Hk _ IH]; intros f pending acc dups st rest Hst Hr.
  - cbn [app length Nat.add] in *. exists st. split; [reflexivity|]. split; [exact Hst|apply sext_refl].
  - cbn [app] in Hst. assert (E : exists t1 r1, tr ++ rest = t1 :: r1) by (destruct rest; [congruence|]; destruct tr; cbn [app]; eauto).
    destruct E as (t1 & r1 & E). rewrite E in Hst. cbn [length Nat.add]. rewrite dloop_eq. is_step Hst Hk.
    pose proof (adv_toks _ _ _ _ Hst) as H1. rewrite <- E in H1.
    destruct (IH f pending acc dups (adv st) rest H1 Hr) as (st' & He & Hp & W).
    exists st'. split; [exact He|]. split; [exact Hp|]. eapply sext_trans; [apply sext_adv|exact W].
Qed.

Definition ind_ge (ci : N) (l : lline) : Prop := match l_ind l with Some n => ci <= n | None => True end.

Lemma bloop_lead_len ci ls : forall cs pending cli f acc dups st ts rest,
  length ls = length cs -> Forall (ind_ge ci) ls ->
  Forall2 tmatch ts (lead_len ls cs) -> ptoks st = ts ++ rest -> rest <> [] ->
  exists st' cli', bloop (length ts + f) ci cli pending acc dups st = bloop f ci cli' (pending ++ cs) acc dups st' /\
                   ptoks st' = rest /\ sext st st'.
Proof.
  induction ls as [|l lr IH]; intros cs pending cli f acc dups st ts rest Hlen Hge Hts Hst Hr.
  - destruct cs; [|discriminate]. inversion Hts; subst. cbn [app length Nat.add] in *. exists st, cli. rewrite app_nil_r.
    split; [reflexivity|]. split; [exact Hst|apply sext_refl].
  - destruct cs as [|c cr]; [discriminate|]. cbn [length] in Hlen. injection Hlen as Hlen.
    inversion Hge as [|? ? Hg Hger]; subst.
    cbn [lead_len] in Hts. apply Forall2_app_inv_r in Hts. destruct Hts as (ti & ts1 & Hti & Hts1 & ->).
    inversion Hts1 as [|tC ? ts2 ? [HCk HCv] Hts2]; subst. cbn [fst snd] in HCk, HCv.
    change ((NEWLINE, None) :: nls (l_blank l) ++ lead_len lr cr) with (eol l ++ lead_len lr cr) in Hts2.
    apply Forall2_app_inv_r in Hts2. destruct Hts2 as (te & ts3 & Hte & Hts3 & ->).
    destruct (eol_kinds _ _ Hte) as (t0 & ter & -> & Hk0 & Hker).
    assert (Hc : text_of tC = c) by (unfold text_of; rewrite HCv; reflexivity).
    (* after the optional INDENT *)
    assert (Hind : exists sta clia, bloop (length (ti ++ tC :: (t0 :: ter) ++ ts3) + f) ci cli pending acc dups st =
                                    bloop (length (tC :: (t0 :: ter) ++ ts3) + f) ci clia pending acc dups sta /\
                                    ptoks sta = tC :: ((t0 :: ter) ++ ts3) ++ rest /\ sext st sta).
    { unfold ind_ge in Hg. destruct (l_ind l) as [n|]; cbn [ind_sh] in Hti.
      - inversion Hti as [|tI ? ? ? [HIk HIv] Hnil]; subst. inversion Hnil; subst. cbn [fst snd] in HIk, HIv.
        rewrite <- !app_assoc in Hst. cbn [app] in Hst. cbn [app length Nat.add].
        rewrite bloop_eq. cbv zeta. is_step Hst HIk. rewrite (cur_hd _ _ _ Hst).
        assert (HIc : count_of tI = n) by (unfold count_of; rewrite HIv; reflexivity). rewrite !HIc.
        assert (Hlt : (n <? ci) = false) by (apply N.ltb_ge; exact Hg). rewrite Hlt.
        exists (adv st), n. split; [reflexivity|]. split; [exact (adv_toks _ _ _ _ Hst)|apply sext_adv].
      - inversion Hti; subst. cbn [app] in *. exists st, cli. split; [reflexivity|]. split; [rewrite Hst, <- app_assoc; reflexivity|apply sext_refl]. }
    destruct Hind as (sta & clia & Ea & Hpa & Wa). rewrite Ea. clear Ea.
    (* COMMENT *)
    cbn [length Nat.add]. rewrite bloop_eq. cbv zeta. rewrite <- app_assoc in Hpa. rewrite <- app_comm_cons in Hpa.
    is_step Hpa HCk. rewrite (cur_hd _ _ _ Hpa), Hc.
    pose proof (adv_toks _ _ _ _ Hpa) as H1.
    (* NEWLINE run *)
    rewrite app_length, <- Nat.add_assoc.
    assert (Hr3 : ts3 ++ rest <> []) by (destruct rest; [congruence|]; destruct ts3; discriminate).
    destruct (bloop_nl_run ci (t0 :: ter) (Forall_cons _ Hk0 Hker) clia (length ts3 + f)%nat (pending ++ [c]) acc dups (adv sta) (ts3 ++ rest) H1 Hr3)
      as (stb & Eb & Hpb & Wb); [discriminate|].
    rewrite Eb. clear Eb.
    destruct (IH cr (pending ++ [c]) 0 f acc dups stb ts3 rest Hlen Hger Hts3 Hpb Hr) as (st' & cli' & He & Hp & W).
    exists st', cli'. rewrite He, <- app_assoc. split; [reflexivity|]. split; [exact Hp|].
    eapply sext_trans; [exact Wa|]. eapply sext_trans; [apply sext_adv|]. eapply sext_trans; [exact Wb|exact W].
Qed.

Lemma sloop_lead_len ci ls : forall cs pending cli f acc dups st ts rest,
  length ls = length cs -> Forall (ind_ge ci) ls ->
  Forall2 tmatch ts (lead_len ls cs) -> ptoks st = ts ++ rest -> rest <> [] ->
  exists st' cli', sloop (length ts + f) ci cli pending acc dups st = sloop f ci cli' (pending ++ cs) acc dups st' /\
                   ptoks st' = rest /\ sext st st'.
Proof.
  induction ls as [|l lr IH]; intros cs pending cli f acc dups st ts rest Hlen Hge Hts Hst Hr.
  - destruct cs; [|discriminate]. inversion Hts; subst. cbn [app length Nat.add] in *. exists st, cli. rewrite app_nil_r.
    split; [reflexivity|]. split; [exact Hst|apply sext_refl].
  - destruct cs as [|c cr]; [discriminate|]. cbn [length] in Hlen. injection Hlen as Hlen.
    inversion Hge as [|? ? Hg Hger]; subst.
    cbn [lead_len] in Hts. apply Forall2_app_inv_r in Hts. destruct Hts as (ti & ts1 & Hti & Hts1 & ->).
    inversion Hts1 as [|tC ? ts2 ? [HCk HCv] Hts2]; subst. cbn [fst snd] in HCk, HCv.
    change ((NEWLINE, None) :: nls (l_blank l) ++ lead_len lr cr) with (eol l ++ lead_len lr cr) in Hts2.
    apply Forall2_app_inv_r in Hts2. destruct Hts2 as (te & ts3 & Hte & Hts3 & ->).
    destruct (eol_kinds _ _ Hte) as (t0 & ter & -> & Hk0 & Hker).
    assert (Hc : text_of tC = c) by (unfold text_of; rewrite HCv; reflexivity).
    (* after the optional INDENT *)
    assert (Hind : exists sta clia, sloop (length (ti ++ tC :: (t0 :: ter) ++ ts3) + f) ci cli pending acc dups st =
                                    sloop (length (tC :: (t0 :: ter) ++ ts3) + f) ci clia pending acc dups sta /\
                                    ptoks sta = tC :: ((t0 :: ter) ++ ts3) ++ rest /\ sext st sta).
    { unfold ind_ge in Hg. destruct (l_ind l) as [n|]; cbn [ind_sh] in Hti.
      - inversion Hti as [|tI ? ? ? [HIk HIv] Hnil]; subst. inversion Hnil; subst. cbn [fst snd] in HIk, HIv.
        rewrite <- !app_assoc in Hst. cbn [app] in Hst. cbn [app length Nat.add].
        rewrite sloop_eq. cbv zeta. is_step Hst HIk. rewrite (cur_hd _ _ _ Hst).
        assert (HIc : count_of tI = n) by (unfold count_of; rewrite HIv; reflexivity). rewrite !HIc.
        assert (Hlt : (n <? ci) = false) by (apply N.ltb_ge; exact Hg). rewrite Hlt.
        exists (adv st), n. split; [reflexivity|]. split; [exact (adv_toks _ _ _ _ Hst)|apply sext_adv].
      - inversion Hti; subst. cbn [app] in *. exists st, cli. split; [reflexivity|]. split; [rewrite Hst, <- app_assoc; reflexivity|apply sext_refl]. }
    destruct Hind as (sta & clia & Ea & Hpa & Wa). rewrite Ea. clear Ea.
    (* COMMENT *)
    cbn [length Nat.add]. rewrite sloop_eq. cbv zeta. rewrite <- app_assoc in Hpa. rewrite <- app_comm_cons in Hpa.
    is_step Hpa HCk. rewrite (cur_hd _ _ _ Hpa), Hc.
    pose proof (adv_toks _ _ _ _ Hpa) as H1.
    (* NEWLINE run *)
    rewrite app_length, <- Nat.add_assoc.
    assert (Hr3 : ts3 ++ rest <> []) by (destruct rest; [congruence|]; destruct ts3; discriminate).
    destruct (sloop_nl_run ci (t0 :: ter) (Forall_cons _ Hk0 Hker) clia (length ts3 + f)%nat (pending ++ [c]) acc dups (adv sta) (ts3 ++ rest) H1 Hr3)
      as (stb & Eb & Hpb & Wb); [discriminate|].
    rewrite Eb. clear Eb.
    destruct (IH cr (pending ++ [c]) 0 f acc dups stb ts3 rest Hlen Hger Hts3 Hpb Hr) as (st' & cli' & He & Hp & W).
    exists st', cli'. rewrite He, <- app_assoc. split; [reflexivity|]. split; [exact Hp|].
    eapply sext_trans; [exact Wa|]. eapply sext_trans; [apply sext_adv|]. eapply sext_trans; [exact Wb|exact W].
Qed.

Lemma dloop_lead_len ls : forall cs pending f acc dups st ts rest,
  length ls = length cs ->
  Forall2 tmatch ts (lead_len ls cs) -> ptoks st = ts ++ rest -> rest <> [] ->
  exists st', dloop (length ts + f) pending acc dups st = dloop f (pending ++ cs) acc dups st' /\
              ptoks st' = rest /\ sext st st'.
Proof.
  induction ls as [|l lr IH]; intros cs pending f acc dups st ts rest Hlen Hts Hst Hr.
  - destruct cs; [|discriminate]. inversion Hts; subst. cbn [app length Nat.add] in *. exists st. rewrite app_nil_r.
    split; [reflexivity|]. split; [exact Hst|apply sext_refl].
  - destruct cs as [|c cr]; [discriminate|]. cbn [length] in Hlen. injection Hlen as Hlen.
    cbn [lead_len] in Hts. apply Forall2_app_inv_r in Hts. destruct Hts as (ti & ts1 & Hti & Hts1 & ->).
    inversion Hts1 as [|tC ? ts2 ? [HCk HCv] Hts2]; subst. cbn [fst snd] in HCk, HCv.
    change ((NEWLINE, None) :: nls (l_blank l) ++ lead_len lr cr) with (eol l ++ lead_len lr cr) in Hts2.
    apply Forall2_app_inv_r in Hts2. destruct Hts2 as (te & ts3 & Hte & Hts3 & ->).
    destruct (eol_kinds _ _ Hte) as (t0 & ter & -> & Hk0 & Hker).
    assert (Hc : text_of tC = c) by (unfold text_of; rewrite HCv; reflexivity).
    assert (Hind : exists sta, dloop (length (ti ++ tC :: (t0 :: ter) ++ ts3) + f) pending acc dups st =
                               dloop (length (tC :: (t0 :: ter) ++ ts3) + f) pending acc dups sta /\
                               ptoks sta = tC :: ((t0 :: ter) ++ ts3) ++ rest /\ sext st sta).
    { destruct (l_ind l) as [n|]; cbn [ind_sh] in Hti.
      - inversion Hti as [|tI ? ? ? [HIk HIv] Hnil]; subst. inversion Hnil; subst. cbn [fst snd] in HIk, HIv.
        rewrite <- !app_assoc in Hst. cbn [app] in Hst. cbn [app length Nat.add].
        rewrite dloop_eq. is_step Hst HIk.
        exists (adv st). split; [reflexivity|]. split; [exact (adv_toks _ _ _ _ Hst)|apply sext_adv].
      - inversion Hti; subst. cbn [app] in *. exists st. split; [reflexivity|]. split; [rewrite Hst, <- app_assoc; reflexivity|apply sext_refl]. }
    destruct Hind as (sta & Ea & Hpa & Wa). rewrite Ea. clear Ea.
    cbn [length Nat.add]. rewrite dloop_eq. rewrite <- app_assoc in Hpa. rewrite <- app_comm_cons in Hpa.
    is_step Hpa HCk. rewrite (cur_hd _ _ _ Hpa), Hc.
    pose proof (adv_toks _ _ _ _ Hpa) as H1.
    rewrite app_length, <- Nat.add_assoc.
    assert (Hr3 : ts3 ++ rest <> []) by (destruct rest; [congruence|]; destruct ts3; discriminate).
    destruct (dloop_nl_run (t0 :: ter) (Forall_cons _ Hk0 Hker) (length ts3 + f)%nat (pending ++ [c]) acc dups (adv sta) (ts3 ++ rest) H1 Hr3)
      as (stb & Eb & Hpb & Wb).
    rewrite Eb. clear Eb.
    destruct (IH cr (pending ++ [c]) f acc dups stb ts3 rest Hlen Hts3 Hpb Hr) as (st' & He & Hp & W).
    exists st'. rewrite He, <- app_assoc. split; [reflexivity|]. split; [exact Hp|].
    eapply sext_trans; [exact Wa|]. eapply sext_trans; [apply sext_adv|]. eapply sext_trans; [exact Wb|exact W].
Qed.

(* ---- assignments ------------------------------------------------------------------------------------------------------------------- *)
Lemma psec_assign_len f leading st ts tn rest k v trl vl :
  cval v = true -> num_ok_val v -> vlay_ok vl = true ->
  Forall2 tmatch ts ([(IDENTIFIER, Some (TVText k)); (ASSIGN, None)] ++ val_len vl v ++ trail_sh trl) ->
  ptoks st = ts ++ tn :: rest -> tk tn = NEWLINE -> rest <> [] -> pbdepth st = 0 ->
  exists st', psec (S f) leading st = POk (Some (NAssign k v leading trl)) st' /\ ptoks st' = tn :: rest /\ sext st st'.
Proof.
  intros Hc Hnum Hvl Hts Hst Hnk Hrest Hdep.
  cbn [app] in Hts.
  inversion Hts as [|ti ? ? ? [Hik Hiv] Hts1]; subst. inversion Hts1 as [|ta ? ts2 ? [Hak _] Hts2]; subst.
  cbn [fst snd] in Hik, Hiv, Hak.
  apply Forall2_app_inv_r in Hts2. destruct Hts2 as (tsv & tst & Htsv & Htst & ->).
  rewrite <- !app_comm_cons in Hst. rewrite <- !app_assoc in Hst.
  assert (Hne : exists t1 r1, tsv ++ tst ++ tn :: rest = t1 :: r1) by (destruct tsv; [destruct tst|]; cbn [app]; eauto).
  destruct Hne as (t1 & r1 & E1). rewrite E1 in Hst.
  pose proof (adv_toks _ _ _ _ Hst) as H1. pose proof (adv_toks _ _ _ _ H1) as H2. rewrite <- E1 in H2.
  rewrite psec_assign_eq.
  2:{ rewrite (is_hd _ _ _ _ Hst), Hik. reflexivity. }
  2:{ rewrite (is_hd _ _ _ _ Hst), Hik. reflexivity. }
  2:{ rewrite (is_hd _ _ _ _ H1), Hak. reflexivity. }
  2:{ rewrite (is_hd _ _ _ _ H1), Hak. reflexivity. }
  2:{ rewrite (is_hd _ _ _ _ H1), Hak. reflexivity. }
  cbv zeta. rewrite (cur_hd _ _ _ Hst).
  assert (Hk : text_of ti = k) by (unfold text_of; rewrite Hiv; reflexivity). rewrite !Hk.
  assert (Hd2 : pbdepth (adv (adv st)) = 0) by (rewrite !adv_depth; exact Hdep).
  assert (W2 : sext st (adv (adv st))) by sadv.
  assert (Hnt : exists nt r2, tst ++ tn :: rest = nt :: r2 /\ after_val (tk nt) = true).
  { destruct trl as [c|]; cbn [trail_sh] in Htst.
    - inversion Htst as [|tc ? ? ? [Hck _] Hnil']; subst. inversion Hnil'; subst. exists tc, (tn :: rest). split; [reflexivity|]. rewrite Hck. reflexivity.
    - inversion Htst; subst. exists tn, rest. split; [reflexivity|]. rewrite Hnk. reflexivity. }
  destruct Hnt as (nt & r2 & E2 & Hnt). rewrite E2 in H2.
  destruct (pv_cval_len v vl (fuel_of (adv (adv st)) + fuel_of (adv (adv st)) + fuel_of (adv (adv st)))%nat (adv (adv st)) tsv nt r2 Hc Hnum Hvl)
    as (st5 & Hv & Hp5 & Hm5); [rewrite (fuel_of_toks _ _ H2), app_length; lia|exact Htsv|exact H2|exact Hnt|exact Hd2|].
  rewrite Hv. cbn [bind].
  set (st6 := match is_vstr v with Some s => _ | None => _ end).
  assert (H6 : ptoks st6 = nt :: r2).
  { subst st6. destruct (is_vstr v); [destruct (_ && _)|]; [rewrite warn_toks| |]; exact Hp5. }
  assert (W6 : sext st st6).
  { eapply sext_trans; [exact W2|]. eapply sext_trans; [exact (moved_sext _ _ _ Hm5)|].
    subst st6. destruct (is_vstr v); [destruct (_ && _)|]; try apply sext_refl. apply sext_warn; right; reflexivity. }
  clearbody st6.
  destruct trl as [c|]; cbn [trail_sh] in Htst.
  - inversion Htst as [|tc ? ? ? [Hck Hcv] Hnil']; subst. inversion Hnil'; subst. cbn [fst snd] in Hck, Hcv.
    cbn [app] in E2. inversion E2; subst nt r2.
    is_step H6 Hck. rewrite (cur_hd _ _ _ H6).
    assert (Hc' : text_of tc = c) by (unfold text_of; rewrite Hcv; reflexivity). rewrite Hc'.
    exists (adv st6). split; [reflexivity|]. split; [exact (adv_toks _ _ _ _ H6)|].
    eapply sext_trans; [exact W6|apply sext_adv].
  - inversion Htst; subst. cbn [app] in E2. inversion E2; subst nt r2.
    is_step H6 Hnk.
    exists st6. split; [reflexivity|]. split; [exact H6|exact W6].
Qed.

(* ---- the per-node statement ----------------------------------------------------------------------------------------------------------- *)
Definition tail_len (n : node) (l : nlay) (tail : list token) : Prop :=
  match n with
  | NAssign _ _ _ _ => Forall2 tmatch tail (eol (n_hdr l))
  | _ => tail = []
  end.

Definition P_node_len (n : node) : Prop :=
  core2_node n = true -> nums_ok2 numcanon idnum n ->
  forall l f leading st ts rest,
    lay_ok n l = true ->
    (length ts <= f)%nat ->
    Forall2 tmatch ts (main_len idnum n l) ->
    ptoks st = ts ++ rest -> pbdepth st = 0 -> rest <> [] ->
    (is_container n = true -> ends_block (body_ci l) rest) ->
    exists st' tail, psec f leading st = POk (Some (set_lead n leading)) st' /\ ptoks st' = tail ++ rest /\
                     tail_len n l tail /\ sext st st'.

Lemma P_assign_len k v ld t : P_node_len (NAssign k v ld t).
Proof.
  unfold P_node_len. intros Hcore Hnum l f leading st ts rest Hlay Hf Hts Hst Hdep Hrest _.
  cbn [core2_node] in Hcore. apply andb_prop in Hcore. destruct Hcore as [Hc Ht]. cbn [nums_ok2] in Hnum.
  cbn [lay_ok] in Hlay. apply andb_prop in Hlay. destruct Hlay as [_ Hvl].
  cbn [main_len] in Hts. rewrite !app_assoc in Hts. apply Forall2_app_inv_r in Hts. destruct Hts as (ts1 & te & Hts1 & Hte & ->).
  rewrite <- !app_assoc in Hts1.
  destruct (eol_kinds _ _ Hte) as (t0 & ter & -> & Hk0 & Hker).
  assert (Hf' : exists f', f = S f') by (destruct f; [inversion Hts1; subst; cbn in Hf; lia|eauto]). destruct Hf' as (f' & ->).
  rewrite <- app_assoc in Hst. rewrite <- app_comm_cons in Hst.
  destruct (psec_assign_len f' leading st ts1 t0 (ter ++ rest) k v t (n_vl l) Hc Hnum Hvl Hts1 Hst Hk0) as (st' & Hp & Hp' & W);
    [destruct rest; [congruence|]; destruct ter; discriminate|exact Hdep|].
  exists st', (t0 :: ter). split; [exact Hp|]. split; [exact Hp'|]. split; [exact Hte|exact W].
Qed.

Lemma main_first_len n l : core2_node n = true ->
  exists s body, main_len idnum n l = s :: body /\ (fst s = IDENTIFIER \/ fst s = SECTION).
Proof.
  destruct n; cbn [core2_node]; try discriminate; intros _; cbn [main_len app]; eexists; eexists; (split; [reflexivity|]); cbn [fst]; auto.
Qed.

Lemma lay_ok_leads n l : lay_ok n l = true -> length (n_leads l) = length (lead_of n).
Proof. destruct n; cbn [lay_ok lead_of]; intros H; apply andb_prop in H; destruct H as [H _]; apply Nat.eqb_eq in H; exact H. Qed.

Lemma line_ok_ge ci bound col0 i : line_ok ci bound col0 i = true -> match i with Some n => ci <= n | None => True end.
Proof. destruct i as [n|]; [|trivial]. cbn [line_ok]. intros H. apply andb_prop in H. destruct H as [H _]. apply N.leb_le. exact H. Qed.

(* what child_lines_ok says about the lines of one child *)
Lemma child_lines_facts ci bound first lc : child_lines_ok ci bound first lc = true ->
  Forall (ind_ge ci) (n_leads lc) /\ exists n, l_ind (n_hdr lc) = Some n /\ ci <= n.
Proof.
  unfold child_lines_ok. destruct (n_leads lc) as [|l lr].
  - intros H. split; [constructor|]. destruct (l_ind (n_hdr lc)) as [n|]; [|discriminate H]. exists n. split; [reflexivity|]. exact (line_ok_ge _ _ _ _ H).
  - intros H. apply andb_prop in H. destruct H as [H H3]. apply andb_prop in H. destruct H as [H1 H2]. split.
    + constructor; [exact (line_ok_ge _ _ _ _ H1)|]. rewrite forallb_forall in H2. apply Forall_forall. intros x Hx. exact (line_ok_ge _ _ _ _ (H2 x Hx)).
    + destruct (l_ind (n_hdr lc)) as [n|]; [|discriminate H3]. exists n. split; [reflexivity|]. exact (line_ok_ge _ _ _ _ H3).
Qed.

(* the first line of a child whose first line may not start at column 0 *)
Lemma child_first_some ci bound lc : child_lines_ok ci bound true lc = true \/ (child_lines_ok ci bound false lc = true /\ bound <> None) ->
  exists n, first_ind lc = Some n /\ match bound with Some b => n < b | None => True end.
Proof.
  unfold child_lines_ok, first_ind. intros H.
  assert (K : forall col0 i, line_ok ci bound col0 i = true -> (col0 = false \/ bound <> None) ->
              exists n, i = Some n /\ match bound with Some b => n < b | None => True end).
  { intros col0 [n|] Hl Hc; cbn [line_ok] in Hl.
    - exists n. split; [reflexivity|]. apply andb_prop in Hl. destruct Hl as [_ Hl]. destruct bound; [apply N.ltb_lt; exact Hl|exact I].
    - apply andb_prop in Hl. destruct Hl as [Hl1 Hl2]. destruct Hc as [->|Hc]; [discriminate Hl1|]. destruct bound; [discriminate Hl2|congruence]. }
  destruct (n_leads lc) as [|l lr].
  - destruct H as [H|[H Hb]]; apply (K _ _ H); auto.
  - destruct H as [H|[H Hb]]; apply andb_prop in H; destruct H as [H _]; apply andb_prop in H; destruct H as [H _]; apply (K _ _ H); auto.
Qed.

Lemma node_len_first c lc n : length (n_leads lc) = length (lead_of c) -> first_ind lc = Some n ->
  exists body, node_len idnum c lc = (INDENT, Some (TVCount n)) :: body.
Proof.
  unfold node_len, first_ind. intros Hlen Hf. destruct (n_leads lc) as [|l lr].
  - cbn [lead_len]. rewrite Hf. cbn [ind_sh app]. eexists. reflexivity.
  - destruct (lead_of c) as [|x xs]; [discriminate Hlen|]. cbn [lead_len]. rewrite Hf. cbn [ind_sh app]. eexists. reflexivity.
Qed.

(* what follows a container child inside a body (or at the top level) ends the child's body *)
Lemma ends_after_child_len ci c lc cs lr bound first ts2 rest :
  is_container c = true -> lay_ok c lc = true -> child_lines_ok ci bound first lc = true ->
  body_ok ci cs lr (Some (body_ci lc)) false = true ->
  Forall2 tmatch ts2 (nodes_len idnum cs lr) -> ends_block ci rest ->
  ends_block (body_ci lc) (ts2 ++ rest).
Proof.
  intros Hcont Hlay Hlines Hbody Hts2 Hend.
  destruct cs as [|c2 cs']; destruct lr as [|lc2 lr']; try discriminate Hbody.
  - inversion Hts2; subst. cbn [app]. eapply (ends_block_mono sp alpha); [|exact Hend].
    destruct (child_lines_facts _ _ _ _ Hlines) as (_ & n & Hn & Hge).
    assert (Hlt : icount (l_ind (n_hdr lc)) < body_ci lc).
    { destruct c; try discriminate Hcont; [rewrite lay_ok_block in Hlay|rewrite lay_ok_section in Hlay];
        apply andb_prop in Hlay; destruct Hlay as [_ Hlay]; apply andb_prop in Hlay; destruct Hlay as [Hlay _]; apply N.ltb_lt; exact Hlay. }
    rewrite Hn in Hlt. cbn [icount] in Hlt. lia.
  - rewrite body_ok_cons in Hbody. apply andb_prop in Hbody. destruct Hbody as [Hbody _]. apply andb_prop in Hbody. destruct Hbody as [Hl2 Hlay2].
    destruct (child_first_some ci (Some (body_ci lc)) lc2) as (n2 & Hf2 & Hlt2); [right; split; [exact Hl2|discriminate]|].
    destruct (node_len_first c2 lc2 n2 (lay_ok_leads _ _ Hlay2) Hf2) as (body2 & Esh).
    cbn [nodes_len] in Hts2. rewrite Esh in Hts2. cbn [app] in Hts2.
    inversion Hts2 as [|tJ ? ? ? [HJk HJv] _]; subst. cbn [fst snd] in HJk, HJv.
    cbn [app ends_block]. unfold ends_blockb. rewrite HJk. unfold count_of. rewrite HJv.
    cbn [tkind_eqb tkind_code N.eqb Pos.eqb orb andb]. apply N.ltb_lt in Hlt2. rewrite Hlt2. reflexivity.
Qed.

Notation nums_ok2_l := (nums_ok2_l numcanon idnum).

Lemma bloop_children_len ch :
  Forall P_node_len ch -> forallb core2_node ch = true -> nums_ok2_l ch ->
  forall ls ci bound first f cli acc dups st ts rest,
    body_ok ci ch ls bound first = true ->
    (length ts + 1 <= f)%nat ->
    Forall2 tmatch ts (nodes_len idnum ch ls) ->
    ptoks st = ts ++ rest -> pbdepth st = 0 ->
    ends_block ci rest -> 0 < ci ->
    (ch = [] -> cli = 0) ->
    exists st', bloop f ci cli [] acc dups st = POk (rev acc ++ ch) st' /\ ptoks st' = rest /\ sext st st'.
Proof.
  induction ch as [|c cs IHl]; intros HP Hcore Hnum ls ci bound first f cli acc dups st ts rest Hbody Hf Hts Hst Hdep Hend Hci Hcli.
  - destruct ls; [|discriminate Hbody]. inversion Hts; subst ts. cbn [app] in Hst. destruct rest as [|t r]; [destruct Hend|].
    destruct f as [|f]; [cbn in Hf; lia|]. rewrite (Hcli eq_refl).
    rewrite bloop_eq. cbv zeta. cbn [ends_block] in Hend. unfold ends_blockb in Hend.
    repeat rewrite (is_hd _ _ _ _ Hst). rewrite (cur_hd _ _ _ Hst).
    assert (H0 : (0 <? ci) = true) by (apply N.ltb_lt; exact Hci).
    rewrite H0.
    destruct (tk t); cbn in Hend |- *; rewrite ?app_nil_r; try discriminate Hend;
      rewrite ?Bool.orb_false_r in Hend; rewrite ?Hend; eexists; (split; [reflexivity|split; [exact Hst|apply sext_refl]]).
  - destruct ls as [|lc lr]; [discriminate Hbody|].
    rewrite body_ok_cons in Hbody. apply andb_prop in Hbody. destruct Hbody as [Hbody Hbody']. apply andb_prop in Hbody. destruct Hbody as [Hlines Hlay].
    inversion HP as [|? ? HPc HPcs]; subst.
    cbn [forallb] in Hcore. apply andb_prop in Hcore. destruct Hcore as [Hcc Hccs].
    destruct Hnum as [Hnc Hncs].
    destruct (child_lines_facts _ _ _ _ Hlines) as (Hge & n & Hn & Hnge).
    pose proof (lay_ok_leads _ _ Hlay) as Hll.
    cbn [nodes_len] in Hts. apply Forall2_app_inv_r in Hts. destruct Hts as (ts1 & ts2 & Hts1 & Hts2 & ->).
    unfold node_len in Hts1. rewrite Hn in Hts1. apply Forall2_app_inv_r in Hts1. destruct Hts1 as (tl & ts1' & Htl & Hts1' & ->).
    cbn [ind_sh app] in Hts1'. inversion Hts1' as [|tI ? tm ? [HIk HIv] Htm]; subst. cbn [fst snd] in HIk, HIv.
    destruct (main_first_len c lc Hcc) as (s0 & body & Emain & Hs0). pose proof Htm as Htm'. rewrite Emain in Htm'.
    inversion Htm' as [|tb ? tm' ? [Hbk _] _]; subst. clear Htm'.
    rewrite !app_length in Hf. cbn [length] in Hf.
    replace f with (length tl + (f - length tl))%nat by lia.
    remember (f - length tl)%nat as f1 eqn:Ef1.
    assert (Hf1 : (3 + length tm' + length ts2 <= f1)%nat) by lia. clear Ef1 Hf.
    rewrite <- !app_assoc in Hst. rewrite <- app_comm_cons in Hst.
    destruct (bloop_lead_len ci (n_leads lc) (lead_of c) [] cli f1 acc dups st tl (tI :: (tb :: tm') ++ ts2 ++ rest) Hll Hge Htl Hst) as (sta & cla & Ea & Hpa & Wa);
      [discriminate|].
    rewrite Ea. cbn [app] in Hpa |- *. clear Ea.
    pose proof (sext_depth0 _ _ Wa Hdep) as Hda.
    (* the INDENT of the header line *)
    destruct f1 as [|f1]; [lia|]. rewrite bloop_eq. cbv zeta.
    is_step Hpa HIk. rewrite (cur_hd _ _ _ Hpa).
    assert (HIc : count_of tI = n) by (unfold count_of; rewrite HIv; reflexivity). rewrite !HIc.
    assert (Hlt : (n <? ci) = false) by (apply N.ltb_ge; exact Hnge). rewrite Hlt.
    pose proof (adv_toks _ _ _ _ Hpa) as H1.
    (* the child *)
    destruct f1 as [|f1]; [lia|].
    assert (Hd1 : pbdepth (adv sta) = 0) by (rewrite adv_depth; exact Hda).
    assert (Hrne : ts2 ++ rest <> []) by (destruct rest; [destruct Hend|]; destruct ts2; discriminate).
    destruct (HPc Hcc Hnc lc f1 (lead_of c) (adv sta) (tb :: tm') (ts2 ++ rest)) as (st1 & tail & Hp & Hst1 & Htail & W1);
      [exact Hlay|cbn [length]; lia|exact Htm|rewrite <- app_comm_cons; exact H1|exact Hd1|exact Hrne| |].
    { intros Hcont. assert (Hb' : body_ok ci cs lr (Some (body_ci lc)) false = true) by (rewrite Hcont in Hbody'; exact Hbody').
      exact (ends_after_child_len ci c lc cs lr bound first ts2 rest Hcont Hlay Hlines Hb' Hts2 Hend). }
    rewrite set_lead_id in Hp.
    rewrite bloop_eq. cbv zeta.
    assert (HK : tkind_eqb (tk tb) EOF = false /\ tkind_eqb (tk tb) ENVELOPE_END = false /\ tkind_eqb (tk tb) INDENT = false /\
                 tkind_eqb (tk tb) COMMENT = false /\ tkind_eqb (tk tb) NEWLINE = false /\ tkind_eqb (tk tb) FENCE_OPEN = false).
    { cbn [fst] in Hbk. destruct Hs0 as [E|E]; rewrite E in Hbk; rewrite Hbk; repeat split. }
    repeat rewrite (is_hd _ _ _ _ H1). destruct HK as (-> & -> & -> & -> & -> & ->). cbn [orb].
    rewrite Hlt. rewrite Hp. cbn [bind].
    (* after the child *)
    set (dl := match node_key_line c (tline (cur (adv sta))) with Some (k, l) => track_dup k l dups st1 | None => (dups, st1) end).
    assert (Hdl : ptoks (snd dl) = tail ++ ts2 ++ rest).
    { subst dl. destruct (node_key_line c _) as [[k l]|]; [rewrite track_dup_toks|]; exact Hst1. }
    assert (Wdl : sext st (snd dl)).
    { eapply sext_trans; [exact Wa|]. eapply sext_trans; [apply sext_adv|]. eapply sext_trans; [exact W1|].
      subst dl. destruct (node_key_line c _) as [[k l]|]; [apply sext_track_dup|apply sext_refl]. }
    destruct dl as [dups' st2] eqn:Edl. cbn [snd] in Hdl, Wdl.
    pose proof (sext_depth0 _ _ Wdl Hdep) as Hd2.
    destruct c as [k v lead tr|k tg chn lead|i k a chn lead|]; cbn [core2_node] in Hcc; try discriminate Hcc.
    + (* assignment: the NEWLINE run that ends its line *)
      cbn [tail_len] in Htail. destruct (eol_kinds _ _ Htail) as (t0 & ter & -> & Hk0 & Hker).
      assert (Hmlen : (length (t0 :: ter) + 3 <= length (tb :: tm'))%nat).
      { pose proof (F2_length _ _ _ Htm) as HL. rewrite HL. cbn [main_len]. rewrite !app_length.
        rewrite (F2_length _ _ _ Htail). cbn [length]. destruct (n_vl lc), v; cbn [val_len length]; lia. }
      replace f1 with (length (t0 :: ter) + (f1 - length (t0 :: ter)))%nat by (cbn [length] in *; lia).
      destruct (bloop_nl_run ci (t0 :: ter) (Forall_cons _ Hk0 Hker) 0 (f1 - length (t0 :: ter))%nat [] (NAssign k v lead tr :: acc) dups' st2 (ts2 ++ rest) Hdl Hrne)
        as (stb & Eb & Hpb & Wb); [discriminate|].
      rewrite Eb. clear Eb.
      destruct (IHl HPcs Hccs Hncs lr ci None false (f1 - length (t0 :: ter))%nat 0 (NAssign k v lead tr :: acc) dups' stb ts2 rest) as (st' & Hl & Hst' & W');
        [exact Hbody'|cbn [length] in *; lia|exact Hts2|exact Hpb|exact (sext_depth0 _ _ Wb Hd2)|exact Hend|exact Hci|reflexivity|].
      exists st'. split; [|split; [exact Hst'|eapply sext_trans; [exact Wdl|eapply sext_trans; [exact Wb|exact W']]]].
      rewrite Hl. cbn [rev]. rewrite <- app_assoc. reflexivity.
    + cbn [tail_len] in Htail. subst tail. cbn [app] in Hdl.
      destruct (IHl HPcs Hccs Hncs lr ci (Some (body_ci lc)) false f1 0 (NBlock k tg chn lead :: acc) dups' st2 ts2 rest) as (st' & Hl & Hst' & W');
        [exact Hbody'|cbn [length] in *; lia|exact Hts2|exact Hdl|exact Hd2|exact Hend|exact Hci|reflexivity|].
      exists st'. split; [|split; [exact Hst'|eapply sext_trans; [exact Wdl|exact W']]].
      rewrite Hl. cbn [rev]. rewrite <- app_assoc. reflexivity.
    + cbn [tail_len] in Htail. subst tail. cbn [app] in Hdl.
      destruct (IHl HPcs Hccs Hncs lr ci (Some (body_ci lc)) false f1 0 (NSection i k a chn lead :: acc) dups' st2 ts2 rest) as (st' & Hl & Hst' & W');
        [exact Hbody'|cbn [length] in *; lia|exact Hts2|exact Hdl|exact Hd2|exact Hend|exact Hci|reflexivity|].
      exists st'. split; [|split; [exact Hst'|eapply sext_trans; [exact Wdl|exact W']]].
      rewrite Hl. cbn [rev]. rewrite <- app_assoc. reflexivity.
Qed.

Lemma sloop_children_len ch :
  Forall P_node_len ch -> forallb core2_node ch = true -> nums_ok2_l ch ->
  forall ls ci bound first f cli acc dups st ts rest,
    body_ok ci ch ls bound first = true ->
    (length ts + 1 <= f)%nat ->
    Forall2 tmatch ts (nodes_len idnum ch ls) ->
    ptoks st = ts ++ rest -> pbdepth st = 0 ->
    ends_block ci rest -> 0 < ci ->
    (ch = [] -> cli = 0) ->
    exists st', sloop f ci cli [] acc dups st = POk (rev acc ++ ch) st' /\ ptoks st' = rest /\ sext st st'.
Proof.
  induction ch as [|c cs IHl]; intros HP Hcore Hnum ls ci bound first f cli acc dups st ts rest Hbody Hf Hts Hst Hdep Hend Hci Hcli.
  - destruct ls; [|discriminate Hbody]. inversion Hts; subst ts. cbn [app] in Hst. destruct rest as [|t r]; [destruct Hend|].
    destruct f as [|f]; [cbn in Hf; lia|]. rewrite (Hcli eq_refl).
    rewrite sloop_eq. cbv zeta. cbn [ends_block] in Hend. unfold ends_blockb in Hend.
    repeat rewrite (is_hd _ _ _ _ Hst). rewrite (cur_hd _ _ _ Hst).
    assert (H0 : (0 <? ci) = true) by (apply N.ltb_lt; exact Hci).
    rewrite H0.
    destruct (tk t); cbn in Hend |- *; rewrite ?app_nil_r; try discriminate Hend;
      rewrite ?Bool.orb_false_r in Hend; rewrite ?Hend; eexists; (split; [reflexivity|split; [exact Hst|apply sext_refl]]).
  - destruct ls as [|lc lr]; [discriminate Hbody|].
    rewrite body_ok_cons in Hbody. apply andb_prop in Hbody. destruct Hbody as [Hbody Hbody']. apply andb_prop in Hbody. destruct Hbody as [Hlines Hlay].
    inversion HP as [|? ? HPc HPcs]; subst.
    cbn [forallb] in Hcore. apply andb_prop in Hcore. destruct Hcore as [Hcc Hccs].
    destruct Hnum as [Hnc Hncs].
    destruct (child_lines_facts _ _ _ _ Hlines) as (Hge & n & Hn & Hnge).
    pose proof (lay_ok_leads _ _ Hlay) as Hll.
    cbn [nodes_len] in Hts. apply Forall2_app_inv_r in Hts. destruct Hts as (ts1 & ts2 & Hts1 & Hts2 & ->).
    unfold node_len in Hts1. rewrite Hn in Hts1. apply Forall2_app_inv_r in Hts1. destruct Hts1 as (tl & ts1' & Htl & Hts1' & ->).
    cbn [ind_sh app] in Hts1'. inversion Hts1' as [|tI ? tm ? [HIk HIv] Htm]; subst. cbn [fst snd] in HIk, HIv.
    destruct (main_first_len c lc Hcc) as (s0 & body & Emain & Hs0). pose proof Htm as Htm'. rewrite Emain in Htm'.
    inversion Htm' as [|tb ? tm' ? [Hbk _] _]; subst. clear Htm'.
    rewrite !app_length in Hf. cbn [length] in Hf.
    replace f with (length tl + (f - length tl))%nat by lia.
    remember (f - length tl)%nat as f1 eqn:Ef1.
    assert (Hf1 : (3 + length tm' + length ts2 <= f1)%nat) by lia. clear Ef1 Hf.
    rewrite <- !app_assoc in Hst. rewrite <- app_comm_cons in Hst.
    destruct (sloop_lead_len ci (n_leads lc) (lead_of c) [] cli f1 acc dups st tl (tI :: (tb :: tm') ++ ts2 ++ rest) Hll Hge Htl Hst) as (sta & cla & Ea & Hpa & Wa);
      [discriminate|].
    rewrite Ea. cbn [app] in Hpa |- *. clear Ea.
    pose proof (sext_depth0 _ _ Wa Hdep) as Hda.
    (* the INDENT of the header line *)
    destruct f1 as [|f1]; [lia|]. rewrite sloop_eq. cbv zeta.
    is_step Hpa HIk. rewrite (cur_hd _ _ _ Hpa).
    assert (HIc : count_of tI = n) by (unfold count_of; rewrite HIv; reflexivity). rewrite !HIc.
    assert (Hlt : (n <? ci) = false) by (apply N.ltb_ge; exact Hnge). rewrite Hlt.
    pose proof (adv_toks _ _ _ _ Hpa) as H1.
    (* the child *)
    destruct f1 as [|f1]; [lia|].
    assert (Hd1 : pbdepth (adv sta) = 0) by (rewrite adv_depth; exact Hda).
    assert (Hrne : ts2 ++ rest <> []) by (destruct rest; [destruct Hend|]; destruct ts2; discriminate).
    destruct (HPc Hcc Hnc lc f1 (lead_of c) (adv sta) (tb :: tm') (ts2 ++ rest)) as (st1 & tail & Hp & Hst1 & Htail & W1);
      [exact Hlay|cbn [length]; lia|exact Htm|rewrite <- app_comm_cons; exact H1|exact Hd1|exact Hrne| |].
    { intros Hcont. assert (Hb' : body_ok ci cs lr (Some (body_ci lc)) false = true) by (rewrite Hcont in Hbody'; exact Hbody').
      exact (ends_after_child_len ci c lc cs lr bound first ts2 rest Hcont Hlay Hlines Hb' Hts2 Hend). }
    rewrite set_lead_id in Hp.
    rewrite sloop_eq. cbv zeta.
    assert (HK : tkind_eqb (tk tb) EOF = false /\ tkind_eqb (tk tb) ENVELOPE_END = false /\ tkind_eqb (tk tb) INDENT = false /\
                 tkind_eqb (tk tb) COMMENT = false /\ tkind_eqb (tk tb) NEWLINE = false).
    { cbn [fst] in Hbk. destruct Hs0 as [E|E]; rewrite E in Hbk; rewrite Hbk; repeat split. }
    repeat rewrite (is_hd _ _ _ _ H1). rewrite Hlt, Bool.andb_false_r. destruct HK as (-> & -> & -> & -> & ->). cbn [orb].
    rewrite Hp. cbn [bind].
    (* after the child *)
    set (dl := match node_key_line c (tline (cur (adv sta))) with Some (k, l) => track_dup k l dups st1 | None => (dups, st1) end).
    assert (Hdl : ptoks (snd dl) = tail ++ ts2 ++ rest).
    { subst dl. destruct (node_key_line c _) as [[k l]|]; [rewrite track_dup_toks|]; exact Hst1. }
    assert (Wdl : sext st (snd dl)).
    { eapply sext_trans; [exact Wa|]. eapply sext_trans; [apply sext_adv|]. eapply sext_trans; [exact W1|].
      subst dl. destruct (node_key_line c _) as [[k l]|]; [apply sext_track_dup|apply sext_refl]. }
    destruct dl as [dups' st2] eqn:Edl. cbn [snd] in Hdl, Wdl.
    pose proof (sext_depth0 _ _ Wdl Hdep) as Hd2.
    destruct c as [k v lead tr|k tg chn lead|i k a chn lead|]; cbn [core2_node] in Hcc; try discriminate Hcc.
    + (* assignment: the NEWLINE run that ends its line *)
      cbn [tail_len] in Htail. destruct (eol_kinds _ _ Htail) as (t0 & ter & -> & Hk0 & Hker).
      assert (Hmlen : (length (t0 :: ter) + 3 <= length (tb :: tm'))%nat).
      { pose proof (F2_length _ _ _ Htm) as HL. rewrite HL. cbn [main_len]. rewrite !app_length.
        rewrite (F2_length _ _ _ Htail). cbn [length]. destruct (n_vl lc), v; cbn [val_len length]; lia. }
      replace f1 with (length (t0 :: ter) + (f1 - length (t0 :: ter)))%nat by (cbn [length] in *; lia).
      destruct (sloop_nl_run ci (t0 :: ter) (Forall_cons _ Hk0 Hker) 0 (f1 - length (t0 :: ter))%nat [] (NAssign k v lead tr :: acc) dups' st2 (ts2 ++ rest) Hdl Hrne)
        as (stb & Eb & Hpb & Wb); [discriminate|].
      rewrite Eb. clear Eb.
      destruct (IHl HPcs Hccs Hncs lr ci None false (f1 - length (t0 :: ter))%nat 0 (NAssign k v lead tr :: acc) dups' stb ts2 rest) as (st' & Hl & Hst' & W');
        [exact Hbody'|cbn [length] in *; lia|exact Hts2|exact Hpb|exact (sext_depth0 _ _ Wb Hd2)|exact Hend|exact Hci|reflexivity|].
      exists st'. split; [|split; [exact Hst'|eapply sext_trans; [exact Wdl|eapply sext_trans; [exact Wb|exact W']]]].
      rewrite Hl. cbn [rev]. rewrite <- app_assoc. reflexivity.
    + cbn [tail_len] in Htail. subst tail. cbn [app] in Hdl.
      destruct (IHl HPcs Hccs Hncs lr ci (Some (body_ci lc)) false f1 0 (NBlock k tg chn lead :: acc) dups' st2 ts2 rest) as (st' & Hl & Hst' & W');
        [exact Hbody'|cbn [length] in *; lia|exact Hts2|exact Hdl|exact Hd2|exact Hend|exact Hci|reflexivity|].
      exists st'. split; [|split; [exact Hst'|eapply sext_trans; [exact Wdl|exact W']]].
      rewrite Hl. cbn [rev]. rewrite <- app_assoc. reflexivity.
    + cbn [tail_len] in Htail. subst tail. cbn [app] in Hdl.
      destruct (IHl HPcs Hccs Hncs lr ci (Some (body_ci lc)) false f1 0 (NSection i k a chn lead :: acc) dups' st2 ts2 rest) as (st' & Hl & Hst' & W');
        [exact Hbody'|cbn [length] in *; lia|exact Hts2|exact Hdl|exact Hd2|exact Hend|exact Hci|reflexivity|].
      exists st'. split; [|split; [exact Hst'|eapply sext_trans; [exact Wdl|exact W']]].
      rewrite Hl. cbn [rev]. rewrite <- app_assoc. reflexivity.
Qed.

Lemma nl_skippable ks tn : kin NEWLINE ks = true -> Forall (fun t => tk t = NEWLINE) tn ->
  Forall (fun x => kin (tk x) ks = true /\ tk x <> EOF) tn.
Proof. intros Hk H. induction H as [|t tr Ht _ IH]; constructor; [rewrite Ht; split; [exact Hk|discriminate]|exact IH]. Qed.

(* the first token of a non-empty body is the INDENT that fixes the child indent *)
Lemma body_first_indent ci c cs ls tsc :
  body_ok ci (c :: cs) ls None true = true -> ci = match ls with lc :: _ => icount (first_ind lc) | [] => 0 end ->
  Forall2 tmatch tsc (nodes_len idnum (c :: cs) ls) ->
  exists tI r0, tsc = tI :: r0 /\ tk tI = INDENT /\ count_of tI = ci.
Proof.
  intros Hbody Eci Hts. destruct ls as [|lc lr]; [discriminate Hbody|].
  rewrite body_ok_cons in Hbody. apply andb_prop in Hbody. destruct Hbody as [Hbody _]. apply andb_prop in Hbody. destruct Hbody as [Hl Hlay].
  destruct (child_first_some ci None lc) as (n & Hf & _); [left; exact Hl|].
  destruct (node_len_first c lc n (lay_ok_leads _ _ Hlay) Hf) as (body & Esh).
  cbn [nodes_len] in Hts. rewrite Esh in Hts. cbn [app] in Hts.
  inversion Hts as [|tI ? r1 ? [HIk HIv] _]; subst tsc. cbn [fst snd] in HIk, HIv.
  exists tI, r1. split; [reflexivity|]. split; [exact HIk|]. unfold count_of. rewrite HIv, Eci, Hf. reflexivity.
Qed.

Lemma P_block_len k tg ch ld : Forall P_node_len ch -> P_node_len (NBlock k tg ch ld).
Proof.
  unfold P_node_len at 2. intros IH Hcore Hnum l f leading st ts rest Hlay Hf Hts Hst Hdep Hrest Hend. specialize (Hend eq_refl).
  cbn [core2_node] in Hcore. destruct tg; [discriminate|].
  apply andb_prop in Hcore. destruct Hcore as [Hne Hcc].
  rewrite nums_ok2_block in Hnum.
  rewrite lay_ok_block in Hlay. apply andb_prop in Hlay. destruct Hlay as [_ Hlay]. apply andb_prop in Hlay. destruct Hlay as [Hlt Hbody].
  apply N.ltb_lt in Hlt.
  rewrite main_len_block in Hts. cbn [app] in Hts.
  inversion Hts as [|ti ? ? ? [Hik Hiv] Hb1]; subst. inversion Hb1 as [|tb ? ts2 ? [Hbk _] Hb2]; subst.
  cbn [fst snd] in Hik, Hiv, Hbk.
  change ((NEWLINE, None) :: nls (l_blank (n_hdr l)) ++ nodes_len idnum ch (n_ch l)) with (eol (n_hdr l) ++ nodes_len idnum ch (n_ch l)) in Hb2.
  apply Forall2_app_inv_r in Hb2. destruct Hb2 as (te & tsc & Hte & Hb3 & ->).
  destruct (eol_kinds _ _ Hte) as (t0 & ter & -> & Hk0 & Hker).
  destruct ch as [|c cs]; [discriminate Hne|].
  destruct (body_first_indent (body_ci l) c cs (n_ch l) tsc Hbody eq_refl Hb3) as (tI & r0 & Etsc & HIk & HIc).
  rewrite <- !app_comm_cons in Hst. rewrite <- app_assoc in Hst. cbn [app] in Hst.
  pose proof (adv_toks _ _ _ _ Hst) as H1. pose proof (adv_toks _ _ _ _ H1) as H2.
  cbn [length] in Hf. rewrite !app_length in Hf. cbn [length] in Hf.
  destruct f as [|f]; [lia|].
  rewrite psec_block_eq.
  2:{ rewrite (is_hd _ _ _ _ Hst), Hik. reflexivity. }
  2:{ rewrite (is_hd _ _ _ _ Hst), Hik. reflexivity. }
  2:{ rewrite (is_hd _ _ _ _ H1), Hbk. reflexivity. }
  2:{ rewrite (is_hd _ _ _ _ H1), Hbk. reflexivity. }
  2:{ rewrite (is_hd _ _ _ _ H1), Hbk. reflexivity. }
  2:{ rewrite (is_hd _ _ _ _ H1), Hbk. reflexivity. }
  cbv zeta. is_step H2 Hk0.
  rewrite (cur_hd _ _ _ Hst). assert (Hk : text_of ti = k) by (unfold text_of; rewrite Hiv; reflexivity). rewrite Hk.
  (* skip the NEWLINE run, stop on the INDENT *)
  assert (H2' : ptoks (adv (adv st)) = (t0 :: ter) ++ tI :: r0 ++ rest) by (rewrite H2, Etsc; reflexivity).
  destruct (skip_many [NEWLINE; COMMENT] (t0 :: ter) (adv (adv st)) tI (r0 ++ rest) (fuel_of (adv (adv st))) H2'
              (nl_skippable [NEWLINE; COMMENT] _ eq_refl (Forall_cons _ Hk0 Hker))) as (st4 & Hs4 & Hp4 & Hm4);
    [rewrite HIk; reflexivity|exact (fuel_of_ge _ _ _ H2')|].
  rewrite Hs4. clear Hs4.
  is_step Hp4 HIk. rewrite (cur_hd _ _ _ Hp4), HIc.
  assert (Hfold : bloop f (body_ci l) (body_ci l) [] [] [] (adv st4) = bloop (S f) (body_ci l) (body_ci l) [] [] [] st4).
  { rewrite bloop_eq. cbv zeta. is_step Hp4 HIk. rewrite (cur_hd _ _ _ Hp4), HIc, N.ltb_irrefl. reflexivity. }
  rewrite Hfold.
  assert (W4 : sext st st4) by (eapply sext_trans; [|exact (moved_sext _ _ _ Hm4)]; sadv).
  destruct (bloop_children_len (c :: cs) IH Hcc Hnum (n_ch l) (body_ci l) None true (S f) (body_ci l) [] [] st4 tsc rest Hbody)
    as (st' & Hl & Hst' & W'); [rewrite Etsc in *; cbn [length] in *; lia|exact Hb3|rewrite Hp4, Etsc; reflexivity|exact (sext_depth0 _ _ W4 Hdep)|exact Hend|lia|discriminate|].
  rewrite Hl. cbn [bind rev app set_lead].
  exists st', []. split; [reflexivity|]. split; [exact Hst'|]. split; [reflexivity|].
  eapply sext_trans; [exact W4|exact W'].
Qed.

Lemma P_section_len i k a ch ld : Forall P_node_len ch -> P_node_len (NSection i k a ch ld).
Proof.
  unfold P_node_len at 2. intros IH Hcore Hnum l f leading st ts rest Hlay Hf Hts Hst Hdep Hrest Hend. specialize (Hend eq_refl).
  cbn [core2_node] in Hcore. apply andb_prop in Hcore. destruct Hcore as [Han Hcore].
  apply andb_prop in Hcore. destruct Hcore as [Hne Hcc].
  rewrite nums_ok2_section in Hnum. destruct Hnum as [Hid Hnum].
  rewrite lay_ok_section in Hlay. apply andb_prop in Hlay. destruct Hlay as [_ Hlay]. apply andb_prop in Hlay. destruct Hlay as [Hlt Hbody].
  apply N.ltb_lt in Hlt.
  rewrite main_len_section in Hts. cbn [app] in Hts.
  inversion Hts as [|tS ? ? ? [HSk _] Hb1]; subst. inversion Hb1 as [|tid ? ? ? Hidm Hb2]; subst.
  inversion Hb2 as [|ta ? ? ? [Hak _] Hb3]; subst. inversion Hb3 as [|tkey ? ts4 ? [Hkk Hkv] Hb4]; subst.
  cbn [fst snd] in HSk, Hak, Hkk, Hkv.
  apply Forall2_app_inv_r in Hb4. destruct Hb4 as (tsa & ts5 & Htsa & Hb5 & ->).
  change ((NEWLINE, None) :: nls (l_blank (n_hdr l)) ++ nodes_len idnum ch (n_ch l)) with (eol (n_hdr l) ++ nodes_len idnum ch (n_ch l)) in Hb5.
  apply Forall2_app_inv_r in Hb5. destruct Hb5 as (te & tsc & Hte & Hb6 & ->).
  destruct (eol_kinds _ _ Hte) as (t0 & ter & -> & Hk0 & Hker).
  destruct ch as [|c cs]; [discriminate Hne|].
  destruct (body_first_indent (body_ci l) c cs (n_ch l) tsc Hbody eq_refl Hb6) as (tI & r0 & Etsc & HIk & HIc).
  assert (Hst' : ptoks st = tS :: tid :: ta :: tkey :: tsa ++ t0 :: ter ++ tI :: r0 ++ rest).
  { rewrite Hst, Etsc. cbn [app]. rewrite <- !app_assoc. cbn [app]. rewrite <- !app_assoc. reflexivity. }
  cbn [length] in Hf. rewrite !app_length in Hf. cbn [length] in Hf. rewrite ?app_length in Hf. cbn [length] in Hf.
  clear Hst. rename Hst' into Hst.
  assert (Hne4 : exists t4 r4, tsa ++ t0 :: ter ++ tI :: r0 ++ rest = t4 :: r4) by (destruct tsa; cbn [app]; eauto).
  destruct Hne4 as (t4 & r4 & E4). rewrite E4 in Hst.
  pose proof (adv_toks _ _ _ _ Hst) as H1. pose proof (adv_toks _ _ _ _ H1) as H2. pose proof (adv_toks _ _ _ _ H2) as H3.
  pose proof (adv_toks _ _ _ _ H3) as H4. rewrite <- E4 in H4.
  destruct f as [|[|f]]; try lia.
  rewrite psec_section_eq; [|rewrite (is_hd _ _ _ _ Hst), HSk; reflexivity].
  rewrite pmark_eq. cbv zeta.
  rewrite (sid_read numcanon alpha idnum i (adv st) tid ta _ H1 Hidm Hak Hid). cbn [bind].
  is_step H2 Hak. is_step H3 Hkk. rewrite (cur_hd _ _ _ H3).
  assert (Hk : text_of tkey = k) by (unfold text_of; rewrite Hkv; reflexivity). rewrite Hk. cbn [bind].
  destruct (annot_read a (adv (adv (adv (adv st)))) tsa t0 (ter ++ tI :: r0 ++ rest) Htsa H4 Hk0) as (st5 & Han5 & Hp5 & W5);
    [destruct ter; discriminate|].
  rewrite Han5. cbn [bind].
  assert (Hp5' : ptoks st5 = (t0 :: ter) ++ tI :: r0 ++ rest) by (rewrite Hp5; reflexivity).
  destruct (skip_many [NEWLINE] (t0 :: ter) st5 tI (r0 ++ rest) (fuel_of st5) Hp5'
              (nl_skippable [NEWLINE] _ eq_refl (Forall_cons _ Hk0 Hker))) as (st6 & Hs6 & Hp6 & Hm6);
    [rewrite HIk; reflexivity|exact (fuel_of_ge _ _ _ Hp5')|].
  rewrite Hs6. clear Hs6.
  rewrite (fuel_of_toks _ _ Hp6). cbn [length collect_pre]. is_step Hp6 HIk. cbn [rev].
  is_step Hp6 HIk. rewrite (cur_hd _ _ _ Hp6), HIc.
  assert (Hfold : sloop f (body_ci l) (body_ci l) [] [] [] (adv st6) = sloop (S f) (body_ci l) (body_ci l) [] [] [] st6).
  { rewrite sloop_eq. cbv zeta. is_step Hp6 HIk. rewrite (cur_hd _ _ _ Hp6), HIc, N.ltb_irrefl. reflexivity. }
  rewrite Hfold.
  assert (W6 : sext st st6).
  { eapply sext_trans; [|exact (moved_sext _ _ _ Hm6)]. eapply sext_trans; [|exact W5]. sadv. }
  destruct (sloop_children_len (c :: cs) IH Hcc Hnum (n_ch l) (body_ci l) None true (S f) (body_ci l) [] [] st6 tsc rest Hbody)
    as (st' & Hl & Hst' & W'); [rewrite Etsc in *; cbn [length] in *; lia|exact Hb6|rewrite Hp6, Etsc; reflexivity|exact (sext_depth0 _ _ W6 Hdep)|exact Hend|lia|discriminate|].
  rewrite Hl. cbn [bind rev app set_lead].
  exists st', []. split; [destruct leading; reflexivity|]. split; [exact Hst'|]. split; [reflexivity|].
  eapply sext_trans; [exact W6|exact W'].
Qed.

Theorem all_P_node_len : forall n, P_node_len n.
Proof.
  apply node_ind2.
  - apply P_assign_len.
  - apply P_block_len.
  - apply P_section_len.
  - intros t Hcore; discriminate Hcore.
Qed.

(* ---- document level ------------------------------------------------------------------------------------------------------------------ *)
Definition is_end (t : token) : Prop := tk t = ENVELOPE_END \/ tk t = EOF.

Lemma lead_len_first l lr c cr n : l_ind l = Some n -> exists body, lead_len (l :: lr) (c :: cr) = (INDENT, Some (TVCount n)) :: body.
Proof. intros H. cbn [lead_len]. rewrite H. cbn [ind_sh app]. eexists. reflexivity. Qed.

Lemma ends_after_top_len b cs lr tls trl ts2 tE tail :
  top_lay_ok cs lr tls (Some b) = true -> forallb core2_node cs = true -> length tls = length trl ->
  Forall2 tmatch ts2 (nodes_len idnum cs lr ++ lead_len tls trl) -> is_end tE ->
  ends_block b (ts2 ++ tE :: tail).
Proof.
  intros Htop Hcc Hlen Hts2 HE.
  assert (Hind : forall n body, n < b -> Forall2 tmatch ts2 ((INDENT, Some (TVCount n)) :: body) -> ends_block b (ts2 ++ tE :: tail)).
  { intros n body Hlt H. inversion H as [|tJ ? ? ? [HJk HJv] _]; subst. cbn [fst snd] in HJk, HJv.
    cbn [app ends_block]. unfold ends_blockb. rewrite HJk. unfold count_of. rewrite HJv.
    cbn [tkind_eqb tkind_code N.eqb Pos.eqb orb andb]. apply N.ltb_lt in Hlt. rewrite Hlt. reflexivity. }
  destruct cs as [|c2 cs']; destruct lr as [|lc2 lr']; try discriminate Htop.
  - cbn [top_lay_ok] in Htop. cbn [nodes_len app] in Hts2. destruct tls as [|l tlr].
    + cbn [lead_len] in Hts2. inversion Hts2; subst. cbn [app ends_block]. unfold ends_blockb. destruct HE as [E|E]; rewrite E; reflexivity.
    + destruct trl as [|x xr]; [discriminate Hlen|]. cbn [top_first_ok] in Htop. destruct (l_ind l) as [n|] eqn:El; [|discriminate Htop].
      destruct (lead_len_first l tlr x xr n El) as (body & Esh). rewrite Esh in Hts2. apply N.ltb_lt in Htop. exact (Hind n body Htop Hts2).
  - cbn [top_lay_ok] in Htop. apply andb_prop in Htop. destruct Htop as [Htop _]. apply andb_prop in Htop. destruct Htop as [Hc2 Hlay2].
    cbn [forallb] in Hcc. apply andb_prop in Hcc. destruct Hcc as [Hcc2 _].
    pose proof (lay_ok_leads _ _ Hlay2) as Hll.
    cbn [nodes_len] in Hts2. rewrite <- app_assoc in Hts2. unfold node_len in Hts2. unfold top_child_ok in Hc2.
    destruct (n_leads lc2) as [|l llr].
    + cbn [lead_len app] in Hts2. cbn [top_first_ok] in Hc2. destruct (l_ind (n_hdr lc2)) as [n|].
      * cbn [ind_sh app] in Hts2. apply N.ltb_lt in Hc2. exact (Hind n _ Hc2 Hts2).
      * cbn [ind_sh app] in Hts2. destruct (main_first_len c2 lc2 Hcc2) as (s0 & body & Emain & Hs0). rewrite Emain in Hts2.
        rewrite <- app_comm_cons in Hts2. inversion Hts2 as [|tJ ? ? ? [HJk _] _]; subst. cbn [app ends_block]. unfold ends_blockb.
        destruct Hs0 as [E|E]; rewrite E in HJk; rewrite HJk; reflexivity.
    + destruct (lead_of c2) as [|x xr]; [discriminate Hll|]. cbn [top_first_ok] in Hc2. destruct (l_ind l) as [n|] eqn:El; [|discriminate Hc2].
      destruct (lead_len_first l llr x xr n El) as (body & Esh). rewrite Esh in Hts2. rewrite <- !app_comm_cons in Hts2.
      apply N.ltb_lt in Hc2. exact (Hind n _ Hc2 Hts2).
Qed.

Lemma main_len_pos n l : core2_node n = true -> (3 <= length (main_len idnum n l))%nat.
Proof.
  destruct n; cbn [core2_node]; try discriminate; intros _; cbn [main_len]; rewrite !app_length; unfold eol; cbn [length]; lia.
Qed.

Lemma dloop_nodes_len trl tls ns :
  forallb core2_node ns = true -> nums_ok2_l ns -> length tls = length trl ->
  forall ls bound f acc dups st ts tE tail,
    top_lay_ok ns ls tls bound = true ->
    (length ts + 1 <= f)%nat ->
    Forall2 tmatch ts (nodes_len idnum ns ls ++ lead_len tls trl) ->
    ptoks st = ts ++ tE :: tail -> is_end tE -> pbdepth st = 0 ->
    exists st', dloop f [] acc dups st = POk (rev acc ++ ns, trl) st' /\ ptoks st' = tE :: tail /\ sext st st'.
Proof.
  induction ns as [|c cs IH]; intros Hcore Hnum Hlen ls bound f acc dups st ts tE tail Htop Hf Hts Hst HE Hdep.
  - destruct ls; [|discriminate Htop]. cbn [nodes_len app] in Hts.
    replace f with (length ts + (f - length ts))%nat by lia.
    destruct (dloop_lead_len tls trl [] (f - length ts)%nat acc dups st ts (tE :: tail) Hlen Hts Hst) as (sta & Ea & Hpa & Wa); [discriminate|].
    rewrite Ea. cbn [app]. destruct (f - length ts)%nat as [|f1] eqn:Ef; [lia|].
    rewrite dloop_eq. repeat rewrite (is_hd _ _ _ _ Hpa).
    assert (Hfin : tkind_eqb (tk tE) ENVELOPE_END || tkind_eqb (tk tE) EOF = true) by (destruct HE as [E|E]; rewrite E; reflexivity).
    rewrite Hfin, app_nil_r. exists sta. split; [reflexivity|]. split; [exact Hpa|exact Wa].
  - destruct ls as [|lc lr]; [discriminate Htop|].
    cbn [top_lay_ok] in Htop. apply andb_prop in Htop. destruct Htop as [Htop Htop']. apply andb_prop in Htop. destruct Htop as [_ Hlay].
    cbn [forallb] in Hcore. apply andb_prop in Hcore. destruct Hcore as [Hcc Hccs]. destruct Hnum as [Hnc Hncs].
    pose proof (lay_ok_leads _ _ Hlay) as Hll.
    cbn [nodes_len] in Hts. rewrite <- app_assoc in Hts. apply Forall2_app_inv_r in Hts. destruct Hts as (ts1 & ts2 & Hts1 & Hts2 & ->).
    unfold node_len in Hts1. apply Forall2_app_inv_r in Hts1. destruct Hts1 as (tl & ts1' & Htl & Hts1' & ->).
    apply Forall2_app_inv_r in Hts1'. destruct Hts1' as (tih & tm & Htih & Htm & ->).
    destruct (main_first_len c lc Hcc) as (s0 & body & Emain & Hs0). pose proof Htm as Htm'. rewrite Emain in Htm'.
    inversion Htm' as [|tb ? tm' ? [Hbk _] _]; subst. clear Htm'. cbn [fst] in Hbk.
    rewrite !app_length in Hf. cbn [length] in Hf.
    replace f with (length tl + (f - length tl))%nat by lia.
    remember (f - length tl)%nat as f1 eqn:Ef1.
    assert (Hf1 : (length tih + 2 + length tm' + length ts2 <= f1)%nat) by lia. clear Ef1 Hf.
    rewrite <- !app_assoc in Hst.
    destruct (dloop_lead_len (n_leads lc) (lead_of c) [] f1 acc dups st tl (tih ++ (tb :: tm') ++ ts2 ++ tE :: tail) Hll Htl Hst) as (sta & Ea & Hpa & Wa);
      [destruct tih; discriminate|].
    rewrite Ea. cbn [app] in Hpa |- *. clear Ea.
    (* the optional INDENT of the header line is skipped *)
    assert (Hind : exists stb f2, dloop f1 (lead_of c) acc dups sta = dloop (S f2) (lead_of c) acc dups stb /\
                                  ptoks stb = tb :: tm' ++ ts2 ++ tE :: tail /\ sext sta stb /\ (1 + length tm' + length ts2 <= f2)%nat).
    { destruct (l_ind (n_hdr lc)) as [n|]; cbn [ind_sh] in Htih.
      - inversion Htih as [|tI ? ? ? [HIk _] Hnil]; subst. inversion Hnil; subst. cbn [fst] in HIk. cbn [app length] in Hpa, Hf1.
        destruct f1 as [|[|f2]]; try lia. rewrite dloop_eq. is_step Hpa HIk.
        exists (adv sta), f2. split; [reflexivity|]. split; [exact (adv_toks _ _ _ _ Hpa)|]. split; [apply sext_adv|lia].
      - inversion Htih; subst. cbn [app length] in Hpa, Hf1. destruct f1 as [|f2]; [lia|].
        exists sta, f2. split; [reflexivity|]. split; [exact Hpa|]. split; [apply sext_refl|lia]. }
    destruct Hind as (stb & f2 & Eb & Hpb & Wb & Hf2). rewrite Eb. clear Eb.
    assert (Wab : sext st stb) by (eapply sext_trans; [exact Wa|exact Wb]).
    pose proof (sext_depth0 _ _ Wab Hdep) as Hdb.
    rewrite dloop_eq.
    assert (HK : tkind_eqb (tk tb) EOF = false /\ tkind_eqb (tk tb) ENVELOPE_END = false /\ tkind_eqb (tk tb) INDENT = false /\
                 tkind_eqb (tk tb) COMMENT = false /\ tkind_eqb (tk tb) NEWLINE = false).
    { destruct Hs0 as [E|E]; rewrite E in Hbk; rewrite Hbk; repeat split. }
    repeat rewrite (is_hd _ _ _ _ Hpb). destruct HK as (-> & -> & -> & -> & ->). cbn [orb]. cbv zeta.
    destruct (all_P_node_len c Hcc Hnc lc (vfuel stb + fuel_of stb)%nat (lead_of c) stb (tb :: tm') (ts2 ++ tE :: tail))
      as (st1 & tl1 & Hp & Hst1 & Htl1 & W1); [exact Hlay| |exact Htm|rewrite <- app_comm_cons; exact Hpb|exact Hdb|destruct ts2; discriminate| |].
    { unfold vfuel. rewrite (fuel_of_toks _ _ Hpb). cbn [length]. rewrite app_length. lia. }
    { intros Hcont. rewrite Hcont in Htop'. exact (ends_after_top_len _ cs lr tls trl ts2 tE tail Htop' Hccs Hlen Hts2 HE). }
    rewrite set_lead_id in Hp. rewrite Hp. cbn [bind].
    set (dl := match node_key_line c (tline (cur stb)) with Some (k, l) => track_dup k l dups st1 | None => (dups, st1) end).
    assert (Hdl : ptoks (snd dl) = tl1 ++ ts2 ++ tE :: tail).
    { subst dl. destruct (node_key_line c _) as [[k l]|]; [rewrite track_dup_toks|]; exact Hst1. }
    assert (Wdl : sext st (snd dl)).
    { eapply sext_trans; [exact Wab|]. eapply sext_trans; [exact W1|].
      subst dl. destruct (node_key_line c _) as [[k l]|]; [apply sext_track_dup|apply sext_refl]. }
    destruct dl as [dups' st2] eqn:Edl. cbn [snd] in Hdl, Wdl.
    pose proof (sext_depth0 _ _ Wdl Hdep) as Hd2.
    destruct c as [k v lead tr|k tg chn lead|i k a chn lead|]; cbn [core2_node] in Hcc; try discriminate Hcc.
    + cbn [tail_len] in Htl1. destruct (eol_kinds _ _ Htl1) as (t0 & ter & -> & Hk0 & Hker).
      assert (Hmlen : (length (t0 :: ter) + 3 <= length (tb :: tm'))%nat).
      { pose proof (F2_length _ _ _ Htm) as HL. rewrite HL. cbn [main_len]. rewrite !app_length.
        rewrite (F2_length _ _ _ Htl1). cbn [length]. destruct (n_vl lc), v; cbn [val_len length]; lia. }
      replace f2 with (length (t0 :: ter) + (f2 - length (t0 :: ter)))%nat by (cbn [length] in *; lia).
      destruct (dloop_nl_run (t0 :: ter) (Forall_cons _ Hk0 Hker) (f2 - length (t0 :: ter))%nat [] (NAssign k v lead tr :: acc) dups' st2 (ts2 ++ tE :: tail) Hdl)
        as (stc & Ec & Hpc & Wc); [destruct ts2; discriminate|].
      rewrite Ec. clear Ec.
      destruct (IH Hccs Hncs Hlen lr None (f2 - length (t0 :: ter))%nat (NAssign k v lead tr :: acc) dups' stc ts2 tE tail) as (st' & Hl & Hst' & W');
        [exact Htop'|cbn [length] in *; lia|exact Hts2|exact Hpc|exact HE|exact (sext_depth0 _ _ Wc Hd2)|].
      exists st'. split; [|split; [exact Hst'|eapply sext_trans; [exact Wdl|eapply sext_trans; [exact Wc|exact W']]]].
      rewrite Hl. cbn [rev]. rewrite <- app_assoc. reflexivity.
    + cbn [tail_len] in Htl1. subst tl1. cbn [app] in Hdl.
      destruct (IH Hccs Hncs Hlen lr (Some (body_ci lc)) f2 (NBlock k tg chn lead :: acc) dups' st2 ts2 tE tail) as (st' & Hl & Hst' & W');
        [exact Htop'|lia|exact Hts2|exact Hdl|exact HE|exact Hd2|].
      exists st'. split; [|split; [exact Hst'|eapply sext_trans; [exact Wdl|exact W']]].
      rewrite Hl. cbn [rev]. rewrite <- app_assoc. reflexivity.
    + cbn [tail_len] in Htl1. subst tl1. cbn [app] in Hdl.
      destruct (IH Hccs Hncs Hlen lr (Some (body_ci lc)) f2 (NSection i k a chn lead :: acc) dups' st2 ts2 tE tail) as (st' & Hl & Hst' & W');
        [exact Htop'|lia|exact Hts2|exact Hdl|exact HE|exact Hd2|].
      exists st'. split; [|split; [exact Hst'|eapply sext_trans; [exact Wdl|exact W']]].
      rewrite Hl. cbn [rev]. rewrite <- app_assoc. reflexivity.
Qed.

(* ---- META block under a layout ---------------------------------------------------------------------------------------------------------- *)
Lemma mloop_nl_run il tn : Forall (fun t => tk t = NEWLINE) tn ->
  forall hi f m dups st rest, ptoks st = tn ++ rest -> rest <> [] -> tn <> [] ->
  exists st', mloop (length tn + f) il hi m dups st = mloop f il false m dups st' /\ ptoks st' = rest /\ sext st st'.
Proof.
  induction 1 as [|t tr Hk _ IH]; intros hi f m dups st rest Hst Hr Hne; [congruence|].
  cbn [app] in Hst. assert (E : exists t1 r1, tr ++ rest = t1 :: r1) by (destruct rest; [congruence|]; destruct tr; cbn [app]; eauto).
  destruct E as (t1 & r1 & E). rewrite E in Hst. cbn [length Nat.add]. rewrite mloop_eq. is_step Hst Hk.
  pose proof (adv_toks _ _ _ _ Hst) as H1. rewrite <- E in H1.
  destruct tr as [|t2 tr'].
  - cbn [app length Nat.add] in *. exists (adv st). split; [reflexivity|]. split; [exact H1|apply sext_adv].
  - destruct (IH false f m dups (adv st) rest H1 Hr) as (st' & He & Hp & W); [discriminate|].
    exists st'. split; [exact He|]. split; [exact Hp|]. eapply sext_trans; [apply sext_adv|exact W].
Qed.

Definition field_num_ok' := field_num_ok numcanon.
Definition mline_ok (il : N) (lv : lline * vlay) : Prop := (exists n, l_ind (fst lv) = Some n /\ il <= n) /\ vlay_ok (snd lv) = true.
(* the token after the META block: not NEWLINE, and an INDENT only below the field indent *)
Definition meta_end_len (il : N) (rest : list token) : Prop :=
  match rest with t :: _ => tk t <> NEWLINE /\ (tk t = INDENT -> count_of t < il) | [] => False end.

Lemma mloop_fields_len il : 0 < il -> forall fields ls m1 f hi dups st ts rest,
  forallb meta_field_ok fields = true -> Forall field_num_ok' fields ->
  nodupb (map fst m1 ++ map fst fields) = true ->
  length ls = length fields -> Forall (mline_ok il) ls ->
  (length ts + 1 <= f)%nat ->
  Forall2 tmatch ts (meta_len fields ls) -> ptoks st = ts ++ rest -> pbdepth st = 0 -> meta_end_len il rest ->
  (fields = [] -> hi = false) ->
  exists st', mloop f il hi m1 dups st = POk (m1 ++ fields) st' /\ ptoks st' = rest /\ sext st st'.
Proof.
  intros Hil. assert (Hil' : (0 <? il) = true) by (apply N.ltb_lt; exact Hil).
  induction fields as [|[k mv] fs IH]; intros ls m1 f hi dups st ts rest Hok Hnum Hnd Hlen Hls Hf Hts Hst Hdep Hend Hhi.
  - destruct ls; [|discriminate Hlen]. inversion Hts; subst. cbn [app] in Hst. rewrite (Hhi eq_refl). destruct f as [|f]; [cbn in Hf; lia|].
    destruct rest as [|t r]; [destruct Hend|]. destruct Hend as [HnN HnI].
    rewrite mloop_eq. repeat rewrite (is_hd _ _ _ _ Hst). rewrite (cur_hd _ _ _ Hst). rewrite Hil'. cbn [andb negb]. rewrite app_nil_r.
    exists st. split; [|split; [exact Hst|apply sext_refl]].
    destruct (tk t) eqn:Ek; cbn [tkind_eqb tkind_code N.eqb Pos.eqb orb]; try reflexivity; try congruence.
    specialize (HnI eq_refl). apply N.ltb_lt in HnI. rewrite HnI. reflexivity.
  - destruct ls as [|[l vl] lr]; [discriminate Hlen|]. cbn [length] in Hlen. injection Hlen as Hlen.
    inversion Hls as [|? ? [(n & Hn & Hnge) Hvl] Hlsr]; subst. cbn [fst snd] in Hn, Hvl.
    cbn [forallb] in Hok. apply andb_prop in Hok. destruct Hok as [Hk Hoks].
    inversion Hnum as [|? ? Hn1 Hns]; subst.
    unfold meta_field_ok in Hk. unfold field_num_ok', field_num_ok in Hn1. cbn [snd] in Hk, Hn1. destruct mv as [v|]; [|discriminate Hk].
    cbn [meta_len fst snd] in Hts. rewrite Hn in Hts. cbn [ind_sh app] in Hts.
    inversion Hts as [|tI ? ? ? [HIk HIv] Hb1]; subst. inversion Hb1 as [|ti ? ? ? [Hik Hiv] Hb2]; subst.
    inversion Hb2 as [|ta ? ts3 ? [Hak _] Hb3]; subst. cbn [fst snd] in HIk, HIv, Hik, Hiv, Hak.
    apply Forall2_app_inv_r in Hb3. destruct Hb3 as (tsv & ts4 & Htsv & Hb4 & ->).
    change ((NEWLINE, None) :: nls (l_blank l) ++ meta_len fs lr) with (eol l ++ meta_len fs lr) in Hb4.
    apply Forall2_app_inv_r in Hb4. destruct Hb4 as (te & ts2 & Hte & Hts2 & ->).
    destruct (eol_kinds _ _ Hte) as (t0 & ter & -> & Hk0 & Hker).
    assert (Hst' : ptoks st = tI :: ti :: ta :: tsv ++ t0 :: ter ++ ts2 ++ rest).
    { rewrite Hst. cbn [app]. rewrite <- !app_assoc. cbn [app]. rewrite <- !app_assoc. reflexivity. }
    clear Hst. rename Hst' into Hst.
    cbn [length] in Hf. rewrite !app_length in Hf. cbn [length] in Hf.
    assert (Hne : exists t1 r1, tsv ++ t0 :: ter ++ ts2 ++ rest = t1 :: r1) by (destruct tsv; cbn [app]; eauto).
    destruct Hne as (t1 & r1 & E1). rewrite E1 in Hst.
    pose proof (adv_toks _ _ _ _ Hst) as H1. pose proof (adv_toks _ _ _ _ H1) as H2. pose proof (adv_toks _ _ _ _ H2) as H3.
    rewrite <- E1 in H3.
    destruct f as [|[|f]]; try lia.
    (* INDENT *)
    rewrite mloop_eq. is_step Hst HIk. rewrite (cur_hd _ _ _ Hst).
    assert (HIc : count_of tI = n) by (unfold count_of; rewrite HIv; reflexivity). rewrite HIc.
    assert (Hlt : (n <? il) = false) by (apply N.ltb_ge; exact Hnge). rewrite Hlt.
    (* KEY ASSIGN value *)
    rewrite mloop_eq. is_step H1 Hik. rewrite Hil'. cbn [andb negb]. cbv zeta.
    is_step H2 Hak. rewrite (cur_hd _ _ _ H1).
    assert (Hkey : text_of ti = k) by (unfold text_of; rewrite Hiv; reflexivity). rewrite Hkey.
    destruct (pv_cval_len v vl (vfuel (adv (adv st))) (adv (adv (adv st))) tsv t0 (ter ++ ts2 ++ rest) Hk Hn1 Hvl) as (st5 & Hv & Hp5 & Hm5);
      [unfold vfuel; rewrite (fuel_of_toks _ _ H2); cbn [length]; pose proof (f_equal (@length _) E1) as EL; rewrite app_length in EL; cbn [length] in EL; lia
      |exact Htsv|exact H3|rewrite Hk0; reflexivity|rewrite !adv_depth; exact Hdep|].
    rewrite Hv. cbn [bind].
    pose proof (track_dup_toks k (tline ti) dups st5) as Htd. pose proof (sext_track_dup k (tline ti) dups st5) as Wtd.
    destruct (track_dup k (tline ti) dups st5) as [dups' st6]. cbn [snd] in Htd, Wtd. rewrite Hp5 in Htd.
    cbn [map fst] in Hnd. apply nodupb_mid in Hnd. destruct Hnd as [Hfresh Hnd'].
    rewrite (dict_set_fresh m1 k (MV v) Hfresh).
    assert (W6 : sext st st6).
    { eapply sext_trans; [|exact Wtd]. eapply sext_trans; [|exact (moved_sext _ _ _ Hm5)]. sadv. }
    (* NEWLINE run *)
    assert (Hrne : ts2 ++ rest <> []) by (destruct rest; [destruct Hend|]; destruct ts2; discriminate).
    replace f with (length (t0 :: ter) + (f - length (t0 :: ter)))%nat by (cbn [length] in *; lia).
    destruct (mloop_nl_run il (t0 :: ter) (Forall_cons _ Hk0 Hker) true (f - length (t0 :: ter))%nat (m1 ++ [(k, MV v)]) dups' st6 (ts2 ++ rest) Htd Hrne)
      as (st7 & E7 & Hp7 & W7); [discriminate|].
    rewrite E7. clear E7.
    destruct (IH lr (m1 ++ [(k, MV v)]) (f - length (t0 :: ter))%nat false dups' st7 ts2 rest Hoks Hns) as (st' & Hl & Hp' & W');
      [rewrite map_app; exact Hnd'|exact Hlen|exact Hlsr|cbn [length] in *; lia|exact Hts2|exact Hp7|exact (sext_depth0 _ _ (sext_trans _ _ _ W6 W7) Hdep)|exact Hend|reflexivity|].
    rewrite Hl, <- app_assoc. exists st'. split; [reflexivity|]. split; [exact Hp'|].
    eapply sext_trans; [exact W6|]. eapply sext_trans; [exact W7|exact W'].
Qed.

Lemma meta_lay_facts m ls : m <> [] -> meta_lay_ok m ls = true ->
  length ls = length m /\ 0 < meta_il ls /\ Forall (mline_ok (meta_il ls)) ls /\
  exists l vl lr, ls = (l, vl) :: lr /\ l_ind l = Some (meta_il ls).
Proof.
  intros Hne H. unfold meta_lay_ok in H. apply andb_prop in H. destruct H as [Hlen Hall]. apply Nat.eqb_eq in Hlen.
  split; [exact Hlen|]. destruct ls as [|[l vl] lr]; [destruct m; [congruence|discriminate Hlen]|].
  assert (HF : Forall (fun lv => exists n, l_ind (fst lv) = Some n /\ 0 < meta_il ((l, vl) :: lr) /\ meta_il ((l, vl) :: lr) <= n /\ vlay_ok (snd lv) = true) ((l, vl) :: lr)).
  { rewrite forallb_forall in Hall. apply Forall_forall. intros lv Hin. specialize (Hall lv Hin).
    apply andb_prop in Hall. destruct Hall as [H1 H2]. destruct (l_ind (fst lv)) as [n|]; [|discriminate H1].
    apply andb_prop in H1. destruct H1 as [H0 H1]. exists n. split; [reflexivity|]. split; [apply N.ltb_lt; exact H0|]. split; [apply N.leb_le; exact H1|exact H2]. }
  inversion HF as [|? ? (n & Hn & H0 & _ & _) _]; subst. cbn [fst] in Hn.
  split; [exact H0|]. split.
  - eapply Forall_impl; [|exact HF]. intros lv (n' & Hn' & _ & Hge & Hv). split; [exists n'; split; [exact Hn'|exact Hge]|exact Hv].
  - exists l, vl, lr. split; [reflexivity|]. cbn [meta_il]. rewrite Hn. reflexivity.
Qed.

Lemma pmeta_read_len m ls k st ts rest :
  m <> [] -> forallb meta_field_ok m = true -> Forall field_num_ok' m -> nodupb (map fst m) = true ->
  meta_lay_ok m ls = true ->
  Forall2 tmatch ts ((IDENTIFIER, Some (TVText (lit "META"))) :: (BLOCK, None) :: (NEWLINE, None) :: nls k ++ meta_len m ls) ->
  ptoks st = ts ++ rest -> pbdepth st = 0 -> meta_end_len (meta_il ls) rest ->
  exists st', pmeta st = POk m st' /\ ptoks st' = rest /\ sext st st'.
Proof.
  intros Hne Hok Hnum Hnd Hlay Hts Hst Hdep Hend.
  destruct (meta_lay_facts m ls Hne Hlay) as (Hlen & Hil & Hlines & l & vl & lr & Els & Hl). remember (meta_il ls) as il eqn:Eil. clear Eil. subst ls.
  inversion Hts as [|tM ? ? ? [HMk _] Hb1]; subst. inversion Hb1 as [|tB ? ? ? [HBk _] Hb2]; subst.
  inversion Hb2 as [|tN ? ts3 ? [HNk _] Hb3]; subst. cbn [fst] in HMk, HBk, HNk.
  apply Forall2_app_inv_r in Hb3. destruct Hb3 as (tnl & tsf & Htnl & Hb4 & ->).
  pose proof (nls_kinds _ _ Htnl) as Hknl.
  assert (HI : exists tI r0, tsf = tI :: r0 /\ tk tI = INDENT /\ count_of tI = il).
  { destruct m as [|kv m']; [congruence|]. cbn [meta_len] in Hb4. rewrite Hl in Hb4. cbn [ind_sh app] in Hb4.
    inversion Hb4 as [|tI ? r1 ? [HIk HIv] _]; subst tsf. cbn [fst snd] in HIk, HIv.
    exists tI, r1. split; [reflexivity|]. split; [exact HIk|]. unfold count_of. rewrite HIv. reflexivity. }
  destruct HI as (tI & r0 & Etsf & HIk & HIc).
  assert (Hst' : ptoks st = tM :: tB :: (tN :: tnl) ++ tI :: r0 ++ rest).
  { rewrite Hst, Etsf. cbn [app]. rewrite <- !app_assoc. reflexivity. }
  pose proof (adv_toks _ _ _ _ Hst') as H1. pose proof (adv_toks _ _ _ _ H1) as H2.
  unfold parse_meta_block, expect. is_step Hst' HMk. cbn [bind]. is_step H1 HBk. cbn [bind].
  destruct (skip_many [NEWLINE; COMMENT] (tN :: tnl) (adv (adv st)) tI (r0 ++ rest) (fuel_of (adv (adv st))) H2
              (nl_skippable [NEWLINE; COMMENT] _ eq_refl (Forall_cons _ HNk Hknl))) as (st3 & Hs3 & Hp3 & Hm3);
    [rewrite HIk; reflexivity|exact (fuel_of_ge _ (tN :: tnl) _ H2)|].
  rewrite Hs3. clear Hs3.
  is_step Hp3 HIk. rewrite (cur_hd _ _ _ Hp3), HIc.
  set (F := (fuel_of st3 + fuel_of st3)%nat).
  assert (Hfold : mloop F (il) true [] [] (adv st3) = mloop (S F) (il) true [] [] st3).
  { rewrite mloop_eq. is_step Hp3 HIk. rewrite (cur_hd _ _ _ Hp3), HIc, N.ltb_irrefl. reflexivity. }
  rewrite Hfold.
  assert (W3 : sext st st3) by (eapply sext_trans; [|exact (moved_sext _ _ _ Hm3)]; sadv).
  destruct (mloop_fields_len il Hil m ((l, vl) :: lr) [] (S F) true [] st3 tsf rest Hok Hnum Hnd Hlen Hlines) as (st' & Hl' & Hp' & W');
    [|exact Hb4|rewrite Hp3, Etsf; reflexivity|exact (sext_depth0 _ _ W3 Hdep)|exact Hend|intros E; congruence|].
  { subst F. rewrite (fuel_of_toks _ _ Hp3). rewrite Etsf. cbn [length]. rewrite app_length. lia. }
  exists st'. split; [exact Hl'|]. split; [exact Hp'|]. eapply sext_trans; [exact W3|exact W'].
Qed.

(* ---- the document ------------------------------------------------------------------------------------------------------------------------ *)
Definition bfirst_len (t : token) : Prop := kin (tk t) [ENVELOPE_END; EOF; COMMENT; SECTION; IDENTIFIER; INDENT] = true.

Lemma body_first_len ns ls tls trl bound tsb tE tail :
  forallb core2_node ns = true -> top_lay_ok ns ls tls bound = true -> length tls = length trl ->
  Forall2 tmatch tsb (nodes_len idnum ns ls ++ lead_len tls trl) -> is_end tE ->
  exists t r, tsb ++ tE :: tail = t :: r /\ bfirst_len t /\
    (first_key_not_meta2 ns = true -> (tkind_eqb (tk t) IDENTIFIER && str_eqb (text_of t) (lit "META")) = false) /\
    (tk t = INDENT -> exists n, first_top_ind ls tls = Some n /\ count_of t = n).
Proof.
  intros Hcc Htop Hlen Hts HE. unfold bfirst_len.
  assert (Hind : forall n body, Forall2 tmatch tsb ((INDENT, Some (TVCount n)) :: body) -> first_top_ind ls tls = Some n ->
            exists t r, tsb ++ tE :: tail = t :: r /\ kin (tk t) [ENVELOPE_END; EOF; COMMENT; SECTION; IDENTIFIER; INDENT] = true /\
              (first_key_not_meta2 ns = true -> (tkind_eqb (tk t) IDENTIFIER && str_eqb (text_of t) (lit "META")) = false) /\
              (tk t = INDENT -> exists n, first_top_ind ls tls = Some n /\ count_of t = n)).
  { intros n body H Hf. inversion H as [|t ? r1 ? [Hk Hv] _]; subst. cbn [fst snd] in Hk, Hv. exists t, (r1 ++ tE :: tail).
    split; [reflexivity|]. rewrite Hk. split; [reflexivity|]. split; [intros _; reflexivity|]. intros _. exists n. split; [exact Hf|].
    unfold count_of. rewrite Hv. reflexivity. }
  assert (Hcom : forall c body, Forall2 tmatch tsb ((COMMENT, Some (TVText c)) :: body) ->
            exists t r, tsb ++ tE :: tail = t :: r /\ kin (tk t) [ENVELOPE_END; EOF; COMMENT; SECTION; IDENTIFIER; INDENT] = true /\
              (first_key_not_meta2 ns = true -> (tkind_eqb (tk t) IDENTIFIER && str_eqb (text_of t) (lit "META")) = false) /\
              (tk t = INDENT -> exists n, first_top_ind ls tls = Some n /\ count_of t = n)).
  { intros c body H. inversion H as [|t ? r1 ? [Hk _] _]; subst. cbn [fst] in Hk. exists t, (r1 ++ tE :: tail).
    split; [reflexivity|]. rewrite Hk. split; [reflexivity|]. split; [intros _; reflexivity|]. intros E; discriminate E. }
  destruct ns as [|c cs]; destruct ls as [|lc lr]; try discriminate Htop.
  - cbn [nodes_len app] in Hts. destruct tls as [|l tlr].
    + cbn [lead_len] in Hts. inversion Hts; subst. exists tE, tail. split; [reflexivity|].
      split; [destruct HE as [E|E]; rewrite E; reflexivity|]. split; [intros _; destruct HE as [E|E]; rewrite E; reflexivity|].
      intros E; destruct HE as [E'|E']; rewrite E' in E; discriminate E.
    + destruct trl as [|x xr]; [discriminate Hlen|]. cbn [lead_len] in Hts. destruct (l_ind l) as [n|] eqn:El; cbn [ind_sh app] in Hts.
      * apply (Hind n _ Hts). cbn [first_top_ind]. exact El.
      * exact (Hcom x _ Hts).
  - cbn [top_lay_ok] in Htop. apply andb_prop in Htop. destruct Htop as [Htop _]. apply andb_prop in Htop. destruct Htop as [_ Hlay].
    cbn [forallb] in Hcc. apply andb_prop in Hcc. destruct Hcc as [Hc _].
    pose proof (lay_ok_leads _ _ Hlay) as Hll.
    cbn [nodes_len] in Hts. rewrite <- app_assoc in Hts. unfold node_len in Hts.
    destruct (n_leads lc) as [|l llr] eqn:Enl.
    + cbn [lead_len app] in Hts. destruct (l_ind (n_hdr lc)) as [n|] eqn:El; cbn [ind_sh app] in Hts.
      { apply (Hind n _ Hts). cbn [first_top_ind]. unfold first_ind. rewrite Enl. exact El. }
      destruct (lead_of c) as [|? ?] eqn:Elo; [|discriminate Hll].
      destruct c as [k v lead tr|k tg chn lead|i k a chn lead|]; cbn [core2_node] in Hc; try discriminate Hc; cbn [lead_of] in Elo; subst lead;
        cbn [main_len app] in Hts; rewrite <- ?app_comm_cons in Hts; inversion Hts as [|t ? r1 ? [Hk Hv] _]; subst; cbn [fst snd] in Hk, Hv;
        exists t, (r1 ++ tE :: tail); rewrite Hk; (split; [reflexivity|]); (split; [reflexivity|]);
        (split; [|intros E; discriminate E]); cbn [first_key_not_meta2]; intros Hm; try reflexivity;
        unfold text_of; rewrite Hv; apply Bool.negb_true_iff; exact Hm.
    + destruct (lead_of c) as [|x xr]; [discriminate Hll|]. cbn [lead_len] in Hts. destruct (l_ind l) as [n|] eqn:El; cbn [ind_sh app] in Hts.
      * rewrite <- ?app_comm_cons in Hts. apply (Hind n _ Hts). cbn [first_top_ind]. unfold first_ind. rewrite Enl. exact El.
      * rewrite <- ?app_comm_cons in Hts. exact (Hcom x _ Hts).
Qed.


Lemma after_meta_len name g meta sep k secs ls tls trl st3 tsp tsb tE tail :
  forallb core2_node secs = true -> nums_ok2_l secs -> length tls = length trl -> top_lay_ok secs ls tls None = true ->
  Forall2 tmatch tsp (sep_len sep k) -> Forall2 tmatch tsb (nodes_len idnum secs ls ++ lead_len tls trl) ->
  is_end tE -> ptoks st3 = tsp ++ tsb ++ tE :: tail -> pbdepth st3 = 0 ->
  exists st', doc_after_meta numcanon holo_ok strict sp alpha name g meta st3 = POk (mkDoc name g None sep meta secs trl) st' /\ sext st3 st'.
Proof.
  intros Hcc Hnum Hlen Htop Htsp Htsb HE Hst Hdep.
  destruct (body_first_len secs ls tls trl None tsb tE tail Hcc Htop Hlen Htsb HE) as (tb & rb & Ebody & Hbf & _ & _).
  assert (Hb1 : kin (tk tb) [NEWLINE] = false /\ tkind_eqb (tk tb) SEPARATOR = false).
  { unfold bfirst_len in Hbf. destruct (tk tb); try discriminate Hbf; split; reflexivity. }
  destruct Hb1 as [Hb1 Hb2].
  pose proof (F2_length _ _ _ Htsb) as HL.
  unfold doc_after_meta. destruct sep; cbn [sep_len] in Htsp.
  - inversion Htsp as [|tP ? ? ? [HPk _] Hp1]; subst. inversion Hp1 as [|tN2 ? tnl ? [HN2k _] Hp2]; subst.
    cbn [fst] in HPk, HN2k. pose proof (nls_kinds _ _ Hp2) as Hknl.
    assert (Hst' : ptoks st3 = tP :: (tN2 :: tnl) ++ tb :: rb) by (rewrite Hst, <- Ebody; reflexivity).
    is_step Hst' HPk. pose proof (adv_toks _ _ _ _ Hst') as H1.
    destruct (skip_many [NEWLINE] (tN2 :: tnl) (adv st3) tb rb (fuel_of st3) H1 (nl_skippable [NEWLINE] _ eq_refl (Forall_cons _ HN2k Hknl)) Hb1)
      as (st4 & Hs4 & Hp4 & Hm4); [rewrite (fuel_of_toks _ _ Hst'); cbn [length]; rewrite app_length; cbn [length]; lia|].
    rewrite Hs4. clear Hs4. rewrite <- Ebody in Hp4.
    assert (W4 : sext st3 st4) by (eapply sext_trans; [apply sext_adv|exact (moved_sext _ _ _ Hm4)]).
    destruct (dloop_nodes_len trl tls secs Hcc Hnum Hlen ls None (fuel_of st4 + fuel_of st4)%nat [] [] st4 tsb tE tail Htop)
      as (st5 & Hl & Hst5 & W5); [rewrite (fuel_of_toks _ _ Hp4), app_length; lia|exact Htsb|exact Hp4|exact HE|exact (sext_depth0 _ _ W4 Hdep)|].
    rewrite Hl. cbn [bind rev app]. eexists. split; [reflexivity|].
    eapply sext_trans; [|destruct (is ENVELOPE_END st5); [apply sext_adv|apply sext_refl]].
    eapply sext_trans; [exact W4|exact W5].
  - inversion Htsp; subst. cbn [app] in Hst.
    assert (Hs : is SEPARATOR st3 = false) by (rewrite Ebody in Hst; rewrite (is_hd _ _ _ _ Hst); exact Hb2).
    rewrite Hs.
    destruct (dloop_nodes_len trl tls secs Hcc Hnum Hlen ls None (fuel_of st3 + fuel_of st3)%nat [] [] st3 tsb tE tail Htop)
      as (st5 & Hl & Hst5 & W5); [rewrite (fuel_of_toks _ _ Hst), app_length; lia|exact Htsb|exact Hst|exact HE|exact Hdep|].
    rewrite Hl. cbn [bind rev app]. eexists. split; [reflexivity|].
    eapply sext_trans; [exact W5|destruct (is ENVELOPE_END st5); [apply sext_adv|apply sext_refl]].
Qed.


Lemma after_grammar_len g name meta sep secs trl kenv kmh mls ksep ls tls st1 tS tenv tsm tsp tsb tE tail :
  forallb core2_node secs = true -> nums_ok2_l secs ->
  forallb meta_field_ok meta = true -> Forall field_num_ok' meta -> nodupb (map fst meta) = true ->
  (negb (is_nil meta) || sep || first_key_not_meta2 secs) = true ->
  meta_lay_ok meta mls = true ->
  (meta <> [] -> sep = true \/ match first_top_ind ls tls with Some n => n < meta_il mls | None => True end) ->
  length tls = length trl -> top_lay_ok secs ls tls None = true ->
  tmatch tS (ENVELOPE_START, Some (TVText name)) -> Forall2 tmatch tenv ((NEWLINE, None) :: nls kenv) ->
  Forall2 tmatch tsm (meta_part meta kmh mls) -> Forall2 tmatch tsp (sep_len sep ksep) ->
  Forall2 tmatch tsb (nodes_len idnum secs ls ++ lead_len tls trl) -> is_end tE ->
  ptoks st1 = tS :: tenv ++ tsm ++ tsp ++ tsb ++ tE :: tail -> pbdepth st1 = 0 ->
  exists st', doc_after_grammar numcanon holo_ok strict sp alpha g st1 = POk (mkDoc name g None sep meta secs trl) st' /\ sext st1 st'.
Proof.
  intros Hcc Hnum Hmok Hmnum Hmnd Hfirst Hmlay Hafter Hlen Htop [HSk HSv] Htenv Htsm Htsp Htsb HE Hst Hdep. cbn [fst snd] in HSk, HSv.
  destruct (body_first_len secs ls tls trl None tsb tE tail Hcc Htop Hlen Htsb HE) as (tb & rb & Ebody & Hbf & Hnm & Hbi).
  inversion Htenv as [|tN ? tnl ? [HNk _] Hnl]; subst. cbn [fst] in HNk. pose proof (nls_kinds _ _ Hnl) as Hknl.
  (* the rest after the META block: SEPARATOR or the first body token *)
  assert (Hrest : exists tx rx, tsp ++ tsb ++ tE :: tail = tx :: rx /\ kin (tk tx) [NEWLINE] = false /\
                                ((sep = true \/ first_key_not_meta2 secs = true) ->
                                 (tkind_eqb (tk tx) IDENTIFIER && str_eqb (text_of tx) (lit "META")) = false) /\
                                (meta <> [] -> meta_end_len (meta_il mls) (tx :: rx))).
  { destruct sep; cbn [sep_len] in Htsp.
    - inversion Htsp as [|tP ? ? ? [HPk _] Hp1]; subst. cbn [fst] in HPk. eexists; eexists. split; [reflexivity|].
      rewrite HPk. split; [reflexivity|]. split; [intros _; reflexivity|]. intros _. cbn [meta_end_len]. rewrite HPk. split; intros E; discriminate E.
    - inversion Htsp; subst. cbn [app]. rewrite Ebody. exists tb, rb. split; [reflexivity|].
      split; [unfold bfirst_len in Hbf; destruct (tk tb); try discriminate Hbf; reflexivity|].
      split; [intros [E|E]; [discriminate E|exact (Hnm E)]|].
      intros Hne. cbn [meta_end_len]. split; [unfold bfirst_len in Hbf; intros E; rewrite E in Hbf; discriminate Hbf|].
      intros Ei. destruct (Hbi Ei) as (n & Hfn & Hcn). destruct (Hafter Hne) as [E|Ha]; [discriminate E|]. rewrite Hfn in Ha. rewrite Hcn. exact Ha. }
  destruct Hrest as (tx & rx & Erest & Hkx & Hxm & Hmend).
  unfold doc_after_grammar. is_step Hst HSk. rewrite (cur_hd _ _ _ Hst).
  assert (Hn : text_of tS = name) by (unfold text_of; rewrite HSv; reflexivity). rewrite Hn. clear Hn.
  pose proof (adv_toks _ _ _ _ Hst) as H1.
  destruct meta as [|kv0 meta'].
  - cbn [meta_part] in Htsm. inversion Htsm; subst tsm. cbn [app] in H1. rewrite Erest in H1.
    destruct (skip_many [NEWLINE] (tN :: tnl) (adv st1) tx rx (fuel_of st1) H1 (nl_skippable [NEWLINE] _ eq_refl (Forall_cons _ HNk Hknl)) Hkx)
      as (st2 & Hs2 & Hp2 & Hm2); [rewrite (fuel_of_toks _ _ Hst); cbn [length]; rewrite app_length; cbn [length]; lia|].
    rewrite Hs2. clear Hs2.
    rewrite (is_hd _ _ _ IDENTIFIER Hp2), (cur_hd _ _ _ Hp2).
    rewrite Hxm; [|cbn [is_nil negb orb] in Hfirst; apply Bool.orb_true_iff in Hfirst; exact Hfirst].
    cbn [bind]. rewrite <- Erest in Hp2.
    assert (W2 : sext st1 st2) by (eapply sext_trans; [apply sext_adv|exact (moved_sext _ _ _ Hm2)]).
    destruct (after_meta_len name g [] sep ksep secs ls tls trl st2 tsp tsb tE tail Hcc Hnum Hlen Htop Htsp Htsb HE Hp2 (sext_depth0 _ _ W2 Hdep)) as (st' & Hr & W').
    exists st'. split; [exact Hr|]. eapply sext_trans; [exact W2|exact W'].
  - set (meta := kv0 :: meta') in *.
    assert (Hne : meta <> []) by discriminate.
    assert (Htsm' : exists tM tsm', tsm = tM :: tsm' /\ tk tM = IDENTIFIER /\ tv tM = TVText (lit "META")).
    { subst meta. cbn [meta_part] in Htsm. inversion Htsm as [|tM ? tsm' ? [HMk HMv] _]; subst. exists tM, tsm'. repeat split; assumption. }
    destruct Htsm' as (tM & tsm' & Etsm & HMk & HMv).
    assert (H1' : ptoks (adv st1) = (tN :: tnl) ++ tM :: tsm' ++ tsp ++ tsb ++ tE :: tail) by (rewrite H1, Etsm; reflexivity).
    destruct (skip_many [NEWLINE] (tN :: tnl) (adv st1) tM (tsm' ++ tsp ++ tsb ++ tE :: tail) (fuel_of st1) H1' (nl_skippable [NEWLINE] _ eq_refl (Forall_cons _ HNk Hknl)))
      as (st2 & Hs2 & Hp2 & Hm2); [rewrite HMk; reflexivity|rewrite (fuel_of_toks _ _ Hst); cbn [length]; rewrite app_length; cbn [length]; lia|].
    rewrite Hs2. clear Hs2.
    rewrite (is_hd _ _ _ IDENTIFIER Hp2), (cur_hd _ _ _ Hp2), HMk. unfold text_of at 1. rewrite HMv.
    change (tkind_eqb IDENTIFIER IDENTIFIER && str_eqb (lit "META") (lit "META")) with true. cbv iota.
    assert (W2 : sext st1 st2) by (eapply sext_trans; [apply sext_adv|exact (moved_sext _ _ _ Hm2)]).
    destruct (pmeta_read_len meta mls kmh st2 tsm (tsp ++ tsb ++ tE :: tail) Hne Hmok Hmnum Hmnd Hmlay Htsm) as (s' & Hpm & Hps' & Ws');
      [rewrite Hp2, Etsm; reflexivity|exact (sext_depth0 _ _ W2 Hdep)|rewrite Erest; exact (Hmend Hne)|].
    rewrite Hpm. cbn [bind].
    rewrite Erest in Hps'. rewrite (skip_stop _ _ _ _ _ Hps' Hkx).
    rewrite <- Erest in Hps'.
    assert (W3 : sext st1 s') by (eapply sext_trans; [exact W2|exact Ws']).
    destruct (after_meta_len name g meta sep ksep secs ls tls trl s' tsp tsb tE tail Hcc Hnum Hlen Htop Htsp Htsb HE Hps' (sext_depth0 _ _ W3 Hdep)) as (st' & Hr & W').
    exists st'. split; [exact Hr|]. eapply sext_trans; [exact W3|exact W'].
Qed.

Theorem parse_core2_doc_len d lay :
  core2_doc_l d = true -> nums_ok2_l (dsections d) -> Forall field_num_ok' (dmeta d) -> layout_ok lay d = true ->
  forall st0 ts tail, pbdepth st0 = 0 ->
    Forall2 tmatch ts (doc2_sh_len idnum lay d) -> ptoks st0 = ts ++ tail ->
    exists st', parse_document numcanon holo_ok strict sp alpha st0 = POk d st' /\ wext2 st0 st'.
Proof.
  destruct d as [name gr fr sep meta secs trl]. destruct lay as [kstart kgram kenv kmh mls ksep ls tls lend].
  unfold core2_doc_l, layout_ok, after_meta_ok. cbn [dfront dmeta dtrailing dsections dsep dl_meta dl_nodes dl_trail].
  destruct fr; [discriminate|].
  intros Hcore Hnum Hmnum Hlay st0 ts tail Hdep Hts Hst0.
  apply andb_prop in Hcore. destruct Hcore as [Hcore Hfirst]. apply andb_prop in Hcore. destruct Hcore as [Hcore Hmnd].
  apply andb_prop in Hcore. destruct Hcore as [Hcc Hmok].
  apply andb_prop in Hlay. destruct Hlay as [Hlay Htop]. apply andb_prop in Hlay. destruct Hlay as [Hlay Hlen]. apply andb_prop in Hlay. destruct Hlay as [Hmlay Hafter].
  apply Nat.eqb_eq in Hlen.
  assert (Hafter' : meta <> [] -> sep = true \/ match first_top_ind ls tls with Some n => n < meta_il mls | None => True end).
  { intros Hne. destruct meta; [congruence|]. apply Bool.orb_true_iff in Hafter. destruct Hafter as [E|E]; [left; exact E|right].
    destruct (first_top_ind ls tls); [apply N.ltb_lt; exact E|exact I]. }
  unfold doc2_sh_len in Hts. cbn [dgrammar dname dsep dsections dmeta dtrailing dl_start dl_gram dl_env dl_mhdr dl_meta dl_sep dl_nodes dl_trail dl_end] in Hts.
  apply Forall2_app_inv_r in Hts. destruct Hts as (tstart & ts1 & Htstart & Hts1 & ->).
  apply Forall2_app_inv_r in Hts1. destruct Hts1 as (tsg & ts2 & Htsg & Hts2 & ->).
  inversion Hts2 as [|tS ? ts3 ? HS Hts3]; subst.
  inversion Hts3 as [|tN ? ts3' ? HN Hts3']; subst.
  apply Forall2_app_inv_r in Hts3'. destruct Hts3' as (tnl & ts4 & Htnl & Hts4 & ->).
  assert (Htenv : Forall2 tmatch (tN :: tnl) ((NEWLINE, None) :: nls kenv)) by (constructor; assumption).
  apply Forall2_app_inv_r in Hts4. destruct Hts4 as (tsm & ts5 & Htsm & Hts5 & ->).
  apply Forall2_app_inv_r in Hts5. destruct Hts5 as (tsp & ts6 & Htsp & Hts6 & ->).
  rewrite app_assoc in Hts6.
  apply Forall2_app_inv_r in Hts6. destruct Hts6 as (tsb & tse & Htsb & Htse & ->).
  inversion Htse as [|tE ? ? ? [HEk _] Hnil]; subst. inversion Hnil; subst. cbn [fst] in HEk.
  assert (HE : is_end tE) by (unfold is_end; destruct lend; cbn [fst] in HEk; auto).
  pose proof (nls_kinds _ _ Htstart) as Hkstart.
  assert (Hst0' : ptoks st0 = tstart ++ tsg ++ tS :: (tN :: tnl) ++ tsm ++ tsp ++ tsb ++ tE :: tail).
  { rewrite Hst0. rewrite <- !app_assoc. cbn [app]. rewrite <- !app_assoc. reflexivity. }
  clear Hst0. rename Hst0' into Hst0.
  assert (Hmain : forall st1 g, ptoks st1 = tS :: (tN :: tnl) ++ tsm ++ tsp ++ tsb ++ tE :: tail -> pbdepth st1 = 0 ->
            exists st', doc_after_grammar numcanon holo_ok strict sp alpha g st1 = POk (mkDoc name g None sep meta secs trl) st' /\ sext st1 st').
  { intros st1 g Hst1 Hd1.
    exact (after_grammar_len g name meta sep secs trl kenv kmh mls ksep ls tls st1 tS (tN :: tnl) tsm tsp tsb tE tail
             Hcc Hnum Hmok Hmnum Hmnd Hfirst Hmlay Hafter' Hlen Htop HS Htenv Htsm Htsp Htsb HE Hst1 Hd1). }
  rewrite parse_document_eq. cbv zeta.
  destruct HS as [HSk _]. cbn [fst] in HSk.
  destruct gr as [g|].
  - inversion Htsg as [|tG ? ? ? [HGk HGv] Hg1]; subst. inversion Hg1 as [|tGn ? tgnl ? [HGnk _] Hg2]; subst.
    cbn [fst snd] in HGk, HGv, HGnk. pose proof (nls_kinds _ _ Hg2) as Hkg.
    cbn [app] in Hst0.
    destruct (skip_many [NEWLINE; COMMENT] tstart st0 tG _ (fuel_of st0) Hst0 (nl_skippable [NEWLINE; COMMENT] _ eq_refl Hkstart))
      as (sta & Hsa & Hpa & Hma); [rewrite HGk; reflexivity|exact (fuel_of_ge _ _ _ Hst0)|].
    rewrite Hsa. clear Hsa.
    is_step Hpa HGk. rewrite (cur_hd _ _ _ Hpa).
    assert (Hg : text_of tG = g) by (unfold text_of; rewrite HGv; reflexivity). rewrite Hg.
    pose proof (adv_toks _ _ _ _ Hpa) as H1.
    assert (H1' : ptoks (adv sta) = (tGn :: tgnl) ++ tS :: (tN :: tnl) ++ tsm ++ tsp ++ tsb ++ tE :: tail) by (rewrite H1; reflexivity).
    destruct (skip_many [NEWLINE; COMMENT] (tGn :: tgnl) (adv sta) tS _ (fuel_of sta) H1' (nl_skippable [NEWLINE; COMMENT] _ eq_refl (Forall_cons _ HGnk Hkg)))
      as (stb & Hsb & Hpb & Hmb); [rewrite HSk; reflexivity|rewrite (fuel_of_toks _ _ Hpa); cbn [length]; rewrite app_length; cbn [length]; lia|].
    rewrite Hsb. clear Hsb.
    assert (Wb : sext st0 stb).
    { eapply sext_trans; [exact (moved_sext _ _ _ Hma)|]. eapply sext_trans; [apply sext_adv|exact (moved_sext _ _ _ Hmb)]. }
    destruct (Hmain _ (Some g) Hpb (sext_depth0 _ _ Wb Hdep)) as (st' & Hr & W').
    exists st'. split; [exact Hr|]. eapply sext_trans; [exact Wb|exact W'].
  - inversion Htsg; subst. cbn [app] in Hst0.
    destruct (skip_many [NEWLINE; COMMENT] tstart st0 tS _ (fuel_of st0) Hst0 (nl_skippable [NEWLINE; COMMENT] _ eq_refl Hkstart))
      as (sta & Hsa & Hpa & Hma); [rewrite HSk; reflexivity|exact (fuel_of_ge _ _ _ Hst0)|].
    rewrite Hsa. clear Hsa.
    is_step Hpa HSk.
    destruct (Hmain _ None Hpa (sext_depth0 _ _ (moved_sext _ _ _ Hma) Hdep)) as (st' & Hr & W').
    exists st'. split; [exact Hr|]. eapply sext_trans; [exact (moved_sext _ _ _ Hma)|exact W'].
Qed.

End Len.

(* ---- the canonical layout is an instance ---------------------------------------------------------------------------------------------- *)
Section CanonFacts.
Variable ml : list value -> bool.
Variable idnum : str -> bool.

Lemma cline_ind D : ind_sh (l_ind (cline D)) = indent_sh D.
Proof. destruct D; reflexivity. Qed.
Lemma lead_len_canon D cs : lead_len (map (fun _ => cline D) cs) cs = lead_sh D cs.
Proof.
  induction cs as [|c cs IH]; [reflexivity|]. cbn [map lead_len]. rewrite lead_sh_cons, cline_ind, IH. reflexivity.
Qed.
Lemma val_len_canon D v : val_len (cvlay ml D v) v = val_sh ml D v.
Proof.
  destruct v as [|b|isf c|s|items| | | |]; try reflexivity.
  destruct items as [|x xs]; [reflexivity|]. cbn [cvlay val_sh]. destruct (ml (x :: xs)); reflexivity.
Qed.
Lemma cnlay_leads D n : n_leads (cnlay ml D n) = map (fun _ => cline D) (lead_of n).
Proof. destruct n; reflexivity. Qed.
Lemma cnlay_hdr D n : n_hdr (cnlay ml D n) = cline D.
Proof. destruct n; reflexivity. Qed.

Lemma nodes_len_canon D ch :
  Forall (fun n => forall D, main_len idnum n (cnlay ml D n) = main_sh ml idnum D n) ch ->
  nodes_len idnum ch (map (cnlay ml D) ch) = nodes_sh2 ml idnum D ch.
Proof.
  induction 1 as [|c cs Hc _ IH]; [reflexivity|]. cbn [map nodes_len nodes_sh2 flat_map]. unfold nodes_sh2 in IH. rewrite IH.
  unfold node_len, node_sh2. rewrite cnlay_leads, cnlay_hdr, lead_len_canon, cline_ind, Hc. reflexivity.
Qed.

Lemma main_len_canon n : forall D, main_len idnum n (cnlay ml D n) = main_sh ml idnum D n.
Proof.
  induction n using node_ind2; intros D.
  - cbn [cnlay main_len main_sh n_vl n_hdr]. rewrite val_len_canon. reflexivity.
  - rewrite main_len_block, main_sh_block. cbn [cnlay n_hdr n_ch]. rewrite (nodes_len_canon (S D) ch H). reflexivity.
  - rewrite main_len_section, main_sh_section. cbn [cnlay n_hdr n_ch]. rewrite (nodes_len_canon (S D) ch H). reflexivity.
  - reflexivity.
Qed.

Lemma meta_len_canon m :
  meta_len m (map (fun kv => (cline 1, match snd kv with MV v => cvlay ml 1 v | MD _ => VLay [] [] [] end)) m) =
  flat_map (fun kv => indent_sh 1 ++ [(IDENTIFIER, Some (TVText (fst kv))); (ASSIGN, None)] ++
                      (match snd kv with MV v => val_sh ml 1 v | MD _ => [] end) ++ [(NEWLINE, None)]) m.
Proof.
  induction m as [|[k mv] m IH]; [reflexivity|]. cbn [map meta_len flat_map fst snd]. rewrite IH.
  destruct mv as [v|]; [rewrite val_len_canon|]; cbn [cline l_ind ind_sh indent_sh eol l_blank nls repeat app]; rewrite <- ?app_assoc; reflexivity.
Qed.

Lemma meta_part_canon m :
  meta_part m 0 (map (fun kv => (cline 1, match snd kv with MV v => cvlay ml 1 v | MD _ => VLay [] [] [] end)) m) = meta_sh ml m.
Proof. unfold meta_part, meta_sh. destruct m as [|kv m]; [reflexivity|]. rewrite meta_len_canon. reflexivity. Qed.
Lemma sep_len_canon b : sep_len b 0 = if b then [(SEPARATOR, None); (NEWLINE, None)] else [].
Proof. destruct b; reflexivity. Qed.

Theorem doc2_sh_len_canonical d : doc2_sh_len idnum (canonical_lay ml d) d = doc2_sh ml idnum d.
Proof.
  unfold doc2_sh_len, doc2_sh, canonical_lay. cbn [dl_start dl_gram dl_env dl_mhdr dl_meta dl_sep dl_nodes dl_trail dl_end nls repeat app].
  rewrite (nodes_len_canon 0 (dsections d)); [|apply Forall_forall; intros n _; apply main_len_canon].
  rewrite lead_len_canon, meta_part_canon, sep_len_canon.
  destruct (dgrammar d); reflexivity.
Qed.

Lemma first_ind_canon D c : first_ind (cnlay ml D c) = l_ind (cline D).
Proof. unfold first_ind. rewrite cnlay_leads, cnlay_hdr. destruct (lead_of c); reflexivity. Qed.
Lemma body_ci_canon D n : core2_node n = true -> is_container n = true -> body_ci (cnlay ml D n) = ind_count (S D).
Proof.
  destruct n as [| k tg ch ld | i k a ch ld |]; try discriminate; cbn [core2_node]; intros Hc _.
  - destruct tg; [discriminate|]. destruct ch as [|c cs]; [discriminate Hc|]. unfold body_ci. cbn [cnlay n_ch map]. rewrite first_ind_canon. reflexivity.
  - apply andb_prop in Hc. destruct Hc as [_ Hc]. destruct ch as [|c cs]; [discriminate Hc|]. unfold body_ci. cbn [cnlay n_ch map]. rewrite first_ind_canon. reflexivity.
Qed.

Lemma line_ok_canon D bound col0 : bound = None \/ bound = Some (ind_count (S (S D))) ->
  line_ok (ind_count (S D)) bound col0 (Some (ind_count (S D))) = true.
Proof.
  intros [->| ->]; cbn [line_ok]; rewrite N.leb_refl; [reflexivity|]. cbn [andb]. apply N.ltb_lt. rewrite (ind_count_S (S D)). lia.
Qed.

Lemma child_lines_ok_canon D bound first c : bound = None \/ bound = Some (ind_count (S (S D))) ->
  child_lines_ok (ind_count (S D)) bound first (cnlay ml (S D) c) = true.
Proof.
  intros Hb. unfold child_lines_ok. rewrite cnlay_leads, cnlay_hdr. destruct (lead_of c) as [|x xs]; cbn [map cline l_ind].
  - apply line_ok_canon; exact Hb.
  - rewrite (line_ok_canon D bound _ Hb), (line_ok_canon D None false (or_introl eq_refl)). cbn [andb]. rewrite Bool.andb_true_r.
    apply forallb_forall. intros l Hl. apply in_map_iff in Hl. destruct Hl as (? & <- & _). cbn [l_ind]. apply line_ok_canon. left; reflexivity.
Qed.

Lemma body_ok_canon D ch :
  Forall (fun n => forall D, core2_node n = true -> lay_ok n (cnlay ml D n) = true) ch -> forallb core2_node ch = true ->
  forall bound first, bound = None \/ bound = Some (ind_count (S (S D))) ->
  body_ok (ind_count (S D)) ch (map (cnlay ml (S D)) ch) bound first = true.
Proof.
  induction 1 as [|c cs Hc _ IH]; intros Hcc bound first Hb; [reflexivity|].
  cbn [forallb] in Hcc. apply andb_prop in Hcc. destruct Hcc as [Hcc Hccs].
  cbn [map]. rewrite body_ok_cons, (child_lines_ok_canon D bound first c Hb), (Hc (S D) Hcc). cbn [andb].
  apply (IH Hccs). destruct (is_container c) eqn:Ec; [right; rewrite (body_ci_canon (S D) c Hcc Ec); reflexivity|left; reflexivity].
Qed.

Lemma vlay_ok_canon D v : vlay_ok (cvlay ml D v) = true.
Proof.
  destruct v as [|b|isf c|s|items| | | |]; try reflexivity. destruct items as [|x xs]; [reflexivity|]. cbn [cvlay].
  destruct (ml (x :: xs)); [|reflexivity]. cbn [vlay_ok]. rewrite !skip_sh_app, !skip_indent. reflexivity.
Qed.

Lemma lay_ok_canon n : forall D, core2_node n = true -> lay_ok n (cnlay ml D n) = true.
Proof.
  induction n using node_ind2; intros D Hc.
  - cbn [lay_ok cnlay n_leads n_vl lead_of]. rewrite map_length, Nat.eqb_refl, vlay_ok_canon. reflexivity.
  - rewrite lay_ok_block. pose proof (body_ci_canon D _ Hc eq_refl) as Hci. rewrite Hci.
    cbn [core2_node] in Hc. destruct t; [discriminate|]. apply andb_prop in Hc. destruct Hc as [_ Hcc].
    cbn [cnlay n_leads n_hdr n_ch]. rewrite map_length, Nat.eqb_refl. cbn [andb].
    rewrite (body_ok_canon D ch H Hcc None true (or_introl eq_refl)), Bool.andb_true_r.
    apply N.ltb_lt. destruct D; cbn [cline l_ind icount]; [unfold ind_count; lia|rewrite (ind_count_S (S D)); lia].
  - rewrite lay_ok_section. pose proof (body_ci_canon D _ Hc eq_refl) as Hci. rewrite Hci.
    cbn [core2_node] in Hc. apply andb_prop in Hc. destruct Hc as [_ Hc]. apply andb_prop in Hc. destruct Hc as [_ Hcc].
    cbn [cnlay n_leads n_hdr n_ch]. rewrite map_length, Nat.eqb_refl. cbn [andb].
    rewrite (body_ok_canon D ch H Hcc None true (or_introl eq_refl)), Bool.andb_true_r.
    apply N.ltb_lt. destruct D; cbn [cline l_ind icount]; [unfold ind_count; lia|rewrite (ind_count_S (S D)); lia].
  - discriminate Hc.
Qed.

Lemma top_lay_ok_canon trl secs : forallb core2_node secs = true -> top_ok secs trl = true ->
  forall prev : bool, (prev = true -> match secs with b :: _ => is_nil (lead_of b) | [] => is_nil trl end = true) ->
  top_lay_ok secs (map (cnlay ml 0) secs) (map (fun _ => cline 0) trl) (if prev then Some (ind_count 1) else None) = true.
Proof.
  induction secs as [|c cs IH]; intros Hcc Htop prev Hprev.
  - cbn [map top_lay_ok]. destruct trl as [|x xr]; [reflexivity|]. cbn [map cline l_ind]. destruct prev; [|reflexivity]. discriminate (Hprev eq_refl).
  - cbn [forallb] in Hcc. apply andb_prop in Hcc. destruct Hcc as [Hc Hccs].
    cbn [top_ok] in Htop. apply andb_prop in Htop. destruct Htop as [Hnext Htop].
    cbn [map top_lay_ok]. rewrite (lay_ok_canon c 0 Hc), Bool.andb_true_r.
    assert (Hch : top_child_ok (if prev then Some (ind_count 1) else None) (cnlay ml 0 c) = true).
    { unfold top_child_ok. rewrite cnlay_leads, cnlay_hdr. destruct (lead_of c) as [|x xs] eqn:El; cbn [map cline l_ind].
      - destruct prev; reflexivity.
      - destruct prev; [|reflexivity]. specialize (Hprev eq_refl). cbn in Hprev. discriminate Hprev. }
    rewrite Hch. cbn [andb].
    destruct (is_container c) eqn:Ec.
    + rewrite (body_ci_canon 0 c Hc Ec). apply (IH Hccs Htop true). intros _. exact Hnext.
    + apply (IH Hccs Htop false). intros E; discriminate E.
Qed.

Theorem layout_ok_canonical d : core2_doc d = true -> layout_ok (canonical_lay ml d) d = true.
Proof.
  unfold core2_doc, layout_ok, canonical_lay, after_meta_ok. destruct (dfront d); [discriminate|]. intros H.
  apply andb_prop in H. destruct H as [H _]. apply andb_prop in H. destruct H as [H _]. apply andb_prop in H. destruct H as [H _].
  apply andb_prop in H. destruct H as [Hcc Htop].
  cbn [dl_meta dl_nodes dl_trail]. rewrite map_length, Nat.eqb_refl.
  rewrite (top_lay_ok_canon (dtrailing d) (dsections d) Hcc Htop false); [|intros E; discriminate E].
  rewrite !Bool.andb_true_r. apply andb_true_intro. split.
  - unfold meta_lay_ok. rewrite map_length, Nat.eqb_refl. cbn [andb]. destruct (dmeta d) as [|kv m]; [reflexivity|].
    apply forallb_forall. intros lv Hl. apply in_map_iff in Hl. destruct Hl as (kv' & <- & _). cbn [fst snd cline l_ind map meta_il icount].
    destruct (snd kv'); [rewrite vlay_ok_canon|]; reflexivity.
  - destruct (dmeta d) as [|kv m]; [reflexivity|]. apply Bool.orb_true_iff. right.
    unfold first_top_ind. destruct (dsections d) as [|c cs]; cbn [map].
    + destruct (dtrailing d); reflexivity.
    + rewrite first_ind_canon. reflexivity.
Qed.
End CanonFacts.

(* ---- corollaries --------------------------------------------------------------------------------------------------------------------------- *)
Section Converge.
Variable numcanon : str -> option (bool * str).
Variable holo_ok : str -> bool.
Variable strict : bool.
Variable sp alpha : N -> bool.
Variable idnum : str -> bool.
Notation pdoc := (parse_document numcanon holo_ok strict sp alpha).

(* two layouts of one document are read as the SAME document *)
Theorem lenient_layouts_converge d lay1 lay2 :
  core2_doc_l d = true -> nums_ok2_l numcanon idnum (dsections d) -> Forall (field_num_ok numcanon) (dmeta d) ->
  layout_ok lay1 d = true -> layout_ok lay2 d = true ->
  forall st1 ts1 tail1 st2 ts2 tail2,
    pbdepth st1 = 0 -> Forall2 tmatch ts1 (doc2_sh_len idnum lay1 d) -> ptoks st1 = ts1 ++ tail1 ->
    pbdepth st2 = 0 -> Forall2 tmatch ts2 (doc2_sh_len idnum lay2 d) -> ptoks st2 = ts2 ++ tail2 ->
    exists st1' st2', pdoc st1 = POk d st1' /\ pdoc st2 = POk d st2' /\ wext2 st1 st1' /\ wext2 st2 st2'.
Proof.
  intros Hc Hn Hm Hl1 Hl2 st1 ts1 tail1 st2 ts2 tail2 Hd1 Ht1 Hp1 Hd2 Ht2 Hp2.
  destruct (parse_core2_doc_len numcanon holo_ok strict sp alpha idnum d lay1 Hc Hn Hm Hl1 st1 ts1 tail1 Hd1 Ht1 Hp1) as (s1 & E1 & W1).
  destruct (parse_core2_doc_len numcanon holo_ok strict sp alpha idnum d lay2 Hc Hn Hm Hl2 st2 ts2 tail2 Hd2 Ht2 Hp2) as (s2 & E2 & W2).
  exists s1, s2. split; [exact E1|]. split; [exact E2|]. split; assumption.
Qed.

(* ... hence canonicalise to identical text, whatever the (functional) emitter is *)
Corollary lenient_layouts_same_canonical (canon : doc -> str) d lay1 lay2 :
  core2_doc_l d = true -> nums_ok2_l numcanon idnum (dsections d) -> Forall (field_num_ok numcanon) (dmeta d) ->
  layout_ok lay1 d = true -> layout_ok lay2 d = true ->
  forall st1 ts1 tail1 st2 ts2 tail2,
    pbdepth st1 = 0 -> Forall2 tmatch ts1 (doc2_sh_len idnum lay1 d) -> ptoks st1 = ts1 ++ tail1 ->
    pbdepth st2 = 0 -> Forall2 tmatch ts2 (doc2_sh_len idnum lay2 d) -> ptoks st2 = ts2 ++ tail2 ->
    forall d1 d2 s1 s2, pdoc st1 = POk d1 s1 -> pdoc st2 = POk d2 s2 -> canon d1 = canon d2.
Proof.
  intros Hc Hn Hm Hl1 Hl2 st1 ts1 tail1 st2 ts2 tail2 Hd1 Ht1 Hp1 Hd2 Ht2 Hp2 d1 d2 s1 s2 E1 E2.
  destruct (lenient_layouts_converge d lay1 lay2 Hc Hn Hm Hl1 Hl2 st1 ts1 tail1 st2 ts2 tail2 Hd1 Ht1 Hp1 Hd2 Ht2 Hp2) as (s1' & s2' & F1 & F2 & _).
  rewrite F1 in E1. rewrite F2 in E2. injection E1 as <- _. injection E2 as <- _. reflexivity.
Qed.

(* Rt.TokRound2.parse_core2_doc is the canonical-layout instance *)
Corollary parse_core2_doc_canonical ml d :
  core2_doc d = true -> nums_ok2_l numcanon idnum (dsections d) -> Forall (field_num_ok numcanon) (dmeta d) ->
  forall st0 ts tail, pbdepth st0 = 0 ->
    Forall2 tmatch ts (doc2_sh ml idnum d) -> ptoks st0 = ts ++ tail ->
    exists st', pdoc st0 = POk d st' /\ wext2 st0 st'.
Proof.
  intros Hc Hn Hm st0 ts tail Hd Ht Hp. rewrite <- (doc2_sh_len_canonical ml idnum d) in Ht.
  exact (parse_core2_doc_len numcanon holo_ok strict sp alpha idnum d (canonical_lay ml d) (core2_doc_l_of d Hc) Hn Hm
           (layout_ok_canonical ml d Hc) st0 ts tail Hd Ht Hp).
Qed.
End Converge.
