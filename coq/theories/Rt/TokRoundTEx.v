(* Non-vacuity of Rt/TokRoundT.v + Rt/TokRoundTHolo.v (block targets, holographic values), the checked composition with the lexer model, the
   executable shape check for the harness, and refutation Examples for the side conditions. *)
From OV Require Import Base.Strs Lex.Lexer Syn.Ast Syn.Emitter Syn.Parser Syn.Wf
     Rt.TokRound Rt.TokRoundEx Rt.LexLinkBase Rt.TokRound2 Rt.TokRound2Ex Rt.TokRoundT Rt.TokRoundTHolo.
From Coq Require Import Lia.
Require Coq.Strings.String.
Import Coq.Strings.String.StringSyntax.
Open Scope N_scope.

(* ---- the shape oracle of a holographic raw text: what the model LEXER makes of the text (kinds and payloads) ----------------------------- *)
Definition sh_of_tok (t : token) : sh := (tk t, Some (tv t)).
Definition hsh_lex (cls : N -> N) (raw : str) : list sh :=
  match tokenize cls false (lines_of raw) with
  | LexOk toks _ => map sh_of_tok (removelast toks)       (* without the final EOF *)
  | _ => []
  end.

Definition AND : str := [8743].
Definition ARROW : str := [8594; 167].
Definition h1 : str := lit "[""x""" ++ AND ++ lit "REQ" ++ AND ++ lit "ENUM[a,b]" ++ ARROW ++ lit "SELF]".
Definition h2 : str := lit "[""x""" ++ AND ++ lit "REGEX[""^a$""]]".
Definition h3 : str := lit "[1" ++ AND ++ lit "OPT" ++ ARROW ++ lit "INDEXER]".
Definition h6 : str := lit "[null" ++ AND ++ lit "REQ]".
(* a concrete pattern oracle *)
Definition holo_ex (s : str) : bool := str_in s [h1; h2; h3; h6].
Definition hsh_ex : str -> list sh := hsh_lex ex_cls.

(* ---- (5) non-vacuity: depth 3, two targeted blocks, four holographic values ------------------------------------------------------------------ *)
Definition ext : doc :=
  mkDoc (lit "DOC") (Some (lit "6.0.0")) None true [(lit "TYPE", MV (VStr (lit "x y")))]
    [ NBlock (lit "FIELDS") (Some (lit "T1"))
        [ NAssign (lit "F1") (VHolo h1) [lit "a flow chain with a call and a target"] (Some (lit "t"));
          NBlock (lit "C") (Some (lit "INDEXER"))
            [ NSection (lit "1") (lit "S") None
                [ NAssign (lit "F2") (VHolo h2) [] None;            (* REGEX["^a$"] : one call *)
                  NAssign (lit "A") n1 [] None ] [];
              NAssign (lit "F6") (VHolo h6) [] None ] [lit "a targeted block inside a targeted block"];
          NAssign (lit "F3") (VHolo h3) [] None;                  (* ->§INDEXER *)
          NAssign (lit "L") (VList [n1; n2]) [] None ] [];
      NAssign (lit "H") (VStr []) [] None ]
    [].

Example ext_core : coret_doc ext = true.
Proof. vm_compute. reflexivity. Qed.
(* the oracle side conditions: numbers, and for every holographic site the boolean test of Rt/TokRoundTHolo.v *)
Example ext_sides : nodes_side ex2_numcanon holo_ex ex_idnum hsh_ex (dsections ext) /\ Forall (field_num_ok ex2_numcanon) (dmeta ext).
Proof.
  split; [|repeat constructor]. cbn [nodes_side node_side val_side dsections ext].
  repeat split; try (intros _; eexists; reflexivity); try (vm_compute; reflexivity); try exact I.
  all: repeat constructor.
Qed.

Definition sht (d : doc) : list sh := doct_sh ex_ml ex_idnum hsh_ex d.
Example ext_roundtrip : parse_model ex_cls ex2_numcanon holo_ex true (lines_of (emit (u_space ex_cls) ext)) = PRDoc ext [] [].
Proof. vm_compute. reflexivity. Qed.
Example ext_lexes :
  match tokenize ex_cls false (lines_of (emit (u_space ex_cls) ext)) with
  | LexOk toks reps => all2 tmatchb toks (sht ext ++ [(NEWLINE, None); (EOF, None)]) = true /\ reps = []
  | _ => False
  end.
Proof. vm_compute. split; reflexivity. Qed.

(* ---- composition with the lexer model ------------------------------------------------------------------------------------------------------- *)
Theorem text_roundtrip_coret_checked cls numcanon holo_ok strict ml idnum hsh d text toks reps :
  coret_doc d = true -> nodes_side numcanon holo_ok idnum hsh (dsections d) -> Forall (field_num_ok numcanon) (dmeta d) ->
  strip_frontmatter (u_space cls) (lines_of text) = (lines_of text, None) ->
  tokenize cls false (lines_of text) = LexOk toks reps ->
  all2 tmatchb toks (doct_sh ml idnum hsh d ++ [(NEWLINE, None); (EOF, None)]) = true ->
  exists warns, parse_model cls numcanon holo_ok strict (lines_of text) = PRDoc d reps warns /\ Forall advisory warns.
Proof.
  intros Hc Hside Hmnum Hfm Htok Hsh. apply all2_F2 in Hsh. apply Forall2_app_inv_r in Hsh. destruct Hsh as (ts & tl & Hts & Htl & ->).
  unfold parse_model. rewrite Hfm, Htok.
  destruct (parse_coret_doc numcanon holo_ok strict (u_space cls) (u_alpha cls) ml idnum hsh d Hc
              (nodes_side_nums numcanon holo_ok strict (u_space cls) idnum hsh _ Hside) Hmnum
              (mkPS (ts ++ tl) None 0 [] 0 []) ts tl) as (st' & Hp & (l & Hw & Hadv) & _);
    [inversion Htl; discriminate|reflexivity|exact Hts|reflexivity|].
  rewrite Hp. exists (rev (pwarns st')). split.
  - f_equal. destruct d as [name gr fr sep meta secs trl]. unfold coret_doc in Hc. cbn [dfront] in Hc.
    destruct fr; [discriminate Hc|]. reflexivity.
  - rewrite Hw. cbn [pwarns]. rewrite app_nil_r. apply Forall_rev. exact Hadv.
Qed.

(* executable form, for the harness.  The holographic sites are tested too (hsite_okb: the group is in the proved class, the text
   reconstructed from its tokens is the raw text, the oracle accepts it): 0 = not a coret document or a site outside the class,
   1 = ok, 2 = shape mismatch or lexer repair, 3 = lexer error *)
Fixpoint sites_okb (numcanon : str -> option (bool * str)) (holo_ok : str -> bool) (hsh : str -> list sh) (n : node) : bool :=
  match n with
  | NAssign _ (VHolo raw) _ _ => hsite_okb numcanon holo_ok hsh raw
  | NBlock _ _ ch _ => forallb (sites_okb numcanon holo_ok hsh) ch
  | NSection _ _ _ ch _ => forallb (sites_okb numcanon holo_ok hsh) ch
  | _ => true
  end.
Definition coret_shape_check (cls : N -> N) (numcanon : str -> option (bool * str)) (holo_ok : str -> bool) (d : doc) (lines : list (str * str)) : N :=
  if coret_doc d && forallb (sites_okb numcanon holo_ok (hsh_lex cls)) (dsections d) then
    match tokenize cls false lines with
    | LexOk toks reps =>
        if all2 tmatchb toks (doct_sh needs_multiline ex_idnum (hsh_lex cls) d ++ [(NEWLINE, None); (EOF, None)]) && is_nil reps then 1 else 2
    | _ => 3
    end
  else 0.
Example ext_shape_check : coret_shape_check ex_cls ex2_numcanon holo_ex ext (lines_of (emit (u_space ex_cls) ext)) = 1.
Proof. vm_compute. reflexivity. Qed.
Example ext_by_theorem :
  exists warns, parse_model ex_cls ex2_numcanon holo_ex true (lines_of (emit (u_space ex_cls) ext)) = PRDoc ext [] warns /\ Forall advisory warns.
Proof.
  pose (toks := match tokenize ex_cls false (lines_of (emit (u_space ex_cls) ext)) with LexOk t _ => t | _ => [] end).
  assert (E : tokenize ex_cls false (lines_of (emit (u_space ex_cls) ext)) = LexOk toks []) by (vm_compute; reflexivity).
  apply (text_roundtrip_coret_checked ex_cls ex2_numcanon holo_ex true ex_ml ex_idnum hsh_ex ext _ toks []
           ext_core (proj1 ext_sides) (proj2 ext_sides)); [vm_compute; reflexivity|exact E|vm_compute; reflexivity].
Qed.

(* ---- (4) side conditions ------------------------------------------------------------------------------------------------------------------------ *)
Definition reads (hl : str -> bool) (d : doc) : option doc :=
  match parse_model ex_cls ex2_numcanon hl true (lines_of (emit (u_space ex_cls) d)) with PRDoc d' _ _ => Some d' | _ => None end.
Definition rdt (ls : list str) : option (list node * list N) :=
  match parse_model ex_cls ex2_numcanon holo_ex true (lines_of (flat_map (fun l => l ++ [c_nl]) ([lit "===D==="] ++ ls ++ [lit "===END==="]))) with
  | PRDoc d' _ w => Some (dsections d', map wsub w) | _ => None end.
Definition a1 : node := NAssign (lit "A") n1 [] None.

(* (a) a target on a block WITHOUT children, followed by a sibling: the sibling becomes its child (the empty-body class of Rt/TokRound2Ex.v,
   wf_doc = true); empty bodies are outside coret_doc like outside core2_doc *)
Example coret_refuted_target_no_children :
  let d := dd [NBlock (lit "P") None [NBlock (lit "B") (Some (lit "T")) [] []; a1] []] [] in
  coret_doc d = false /\ wf_doc d = true /\ reads holo_ex d = Some (dd [NBlock (lit "P") None [NBlock (lit "B") (Some (lit "T")) [a1] []] []] []).
Proof. repeat split; vm_compute; reflexivity. Qed.
(* (b) a present-but-empty target is not written [wf_doc = true] *)
Example coret_refuted_target_empty :
  let d := dd [NBlock (lit "B") (Some []) [a1] []] [] in coret_doc d = false /\ wf_doc d = true /\ reads holo_ex d = Some (dd [NBlock (lit "B") None [a1] []] []).
Proof. repeat split; vm_compute; reflexivity. Qed.
(* (c) a target that does not lex as an IDENTIFIER (all digits): parse_block_target finds no name, the header is dropped as a bare line
   (warning 4) and the children are orphaned [wf_doc = true].  At token level: the shape asks for an IDENTIFIER token -- the shape check fails *)
Example coret_refuted_numeric_target :
  let d := dd [NBlock (lit "B") (Some (lit "1")) [a1] []] [] in
  coret_doc d = true /\ wf_doc d = true /\ reads holo_ex d = Some (dd [a1] []) /\
  coret_shape_check ex_cls ex2_numcanon holo_ex d (lines_of (emit (u_space ex_cls) d)) = 2.
Proof. repeat split; vm_compute; reflexivity. Qed.
(* (d) a target followed by an annotation (never written by the emitter): the header is dropped as a bare line, two warnings 4 *)
Example target_then_annotation : rdt [lit "B[" ++ ARROW ++ lit "T][ann]:"; lit "  A::1"] = Some ([a1], [4; 4]).
Proof. vm_compute. reflexivity. Qed.
(* ... while the ASCII arrow and a target without the section sign are read as the same block (non-canonical spellings) *)
Example target_spellings :
  rdt [lit "B[->" ++ [167] ++ lit "T]:"; lit "  A::1"] = Some ([NBlock (lit "B") (Some (lit "T")) [a1] []], []) /\
  rdt [lit "B[" ++ [8594] ++ lit "T]:"; lit "  A::1"] = Some ([NBlock (lit "B") (Some (lit "T")) [a1] []], []).
Proof. split; vm_compute; reflexivity. Qed.

(* (e) the oracle hypothesis: the SAME text with an oracle that rejects the pattern is read as a LIST (list vs holographic, the clause-18
   pair of Rt/TokRound4Ex.v seen from the other side) *)
Example coret_refuted_oracle_rejects :
  let d := dd [NAssign (lit "F") (VHolo h3) [] None] [] in
  coret_doc d = true /\ reads (fun _ => false) d = Some (dd [NAssign (lit "F") (VList [n1; VStr AND; VStr (lit "OPT" ++ ARROW ++ lit "INDEXER")]) [] None] []).
Proof. split; vm_compute; reflexivity. Qed.

(* (f) accepted by the model but OUTSIDE the proved fragment / class (no theorem, no refutation): a holographic value in META, as a list item
   (wf clause 20 flags it), nested brackets inside the pattern, a call as the last element of a longer chain *)
Definition h4 : str := lit "[""x""" ++ AND ++ lit "REQ" ++ AND ++ lit "REGEX[""^a$""]]".
Definition h5 : str := lit "[""x""" ++ AND ++ lit "ENUM[a,[b]]" ++ ARROW ++ lit "SELF]".
Definition holo_all (s : str) : bool := str_in s [h1; h2; h3; h4; h5; h6].
Example holo_in_meta_accepted :
  let d := mkDoc (lit "D") None None false [(lit "K", MV (VHolo h3))] [] [] in coret_doc d = false /\ reads holo_all d = Some d.
Proof. split; vm_compute; reflexivity. Qed.
Example holo_in_list_accepted :
  let d := dd [NAssign (lit "L") (VList [VHolo h3; n1]) [] None] [] in coret_doc d = false /\ doc_clauses d = [20] /\ reads holo_all d = Some d.
Proof. repeat split; vm_compute; reflexivity. Qed.
Example nested_brackets_accepted_outside_class :
  let d := dd [NAssign (lit "F") (VHolo h5) [] None] [] in
  coret_doc d = true /\ reads holo_all d = Some d /\ hsite_okb ex2_numcanon holo_all hsh_ex h5 = false.
Proof. repeat split; vm_compute; reflexivity. Qed.
Example call_last_in_chain_accepted_outside_class :
  let d := dd [NAssign (lit "F") (VHolo h4) [] None] [] in
  coret_doc d = true /\ reads holo_all d = Some d /\ hsite_okb ex2_numcanon holo_all hsh_ex h4 = false.
Proof. repeat split; vm_compute; reflexivity. Qed.
(* the class test on the four example patterns *)
Example class_members : forallb (hsite_okb ex2_numcanon holo_ex hsh_ex) [h1; h2; h3; h6] = true.
Proof. vm_compute. reflexivity. Qed.
