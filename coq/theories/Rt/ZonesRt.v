(* C05 (6): emit -> split lines -> fence pre-pass -> tab check -> lexer -> parser is the identity on a
   document  ===NAME=== / KEY:: <literal zone> / ===END===,  for every zone content accepted by zone_ok,
   and for every NFC oracle that is the identity on the five non-zone lines. *)
From OV Require Import Base.Strs Lex.Lexer Lex.Progress Syn.Ast Syn.Parser Syn.Emitter Rt.Zones.
From Coq Require Import Lia.
Require Coq.Strings.String.
Import Coq.Strings.String.StringSyntax.
Open Scope N_scope.

(* ---- the fragment --------------------------------------------------------------------------------- *)
Definition zone_doc (name key content : str) (tag : option str) (marker : str) : doc :=
  mkDoc name None None false [] [NAssign key (VZone content tag marker) [] None] [].

(* marker: three or more backticks *)
Definition marker_ok (m : str) : bool := (3 <=? length m)%nat && forallb (N.eqb c_bt) m.
(* a content line must not be fence-shaped with a backtick run of the marker's length or longer: such a line
   either closes the zone early (equal length, blank tail) or is rejected with E007 *)
Definition line_ok (m l : str) : bool :=
  match fence_match l with None => true | Some (bt, _) => (length bt <? length m)%nat end.
(* the lines the emitter's single content element occupies in the text: none for the empty content *)
Definition content_lines (content : str) : list str :=
  match content with [] => [] | _ => split_on c_nl content end.
Definition zone_ok (marker content : str) : bool :=
  marker_ok marker && forallb (line_ok marker) (content_lines content).

Definition name_ok (name : str) : bool :=
  match name with
  | c :: r => is_upper c && forallb env_id_char r && negb (str_eqb name (lit "END"))
  | [] => false
  end.
Definition key_char (x : N) : bool := is_alnum x || N.eqb x c_us.
Definition key_ok (key : str) : bool :=
  match key with
  | c :: r => is_upper c && forallb key_char r && negb (str_eqb key (lit "META"))
  | [] => false
  end.

Definition zone_doc_lines (name key content : str) (tag : option str) (marker : str) : list str :=
  [s_env ++ name ++ s_env; key ++ s_assign; marker ++ tag_str tag] ++ content_lines content ++ [marker; s_end; []].

Lemma join_content_lines content : join [c_nl] (content_lines content) = content.
Proof. destruct content; [reflexivity|]. unfold content_lines. apply join_split. Qed.

Lemma join_doc_lines (a b o : str) (CL : list str) (c e : str) :
  CL <> [] ->
  join [c_nl] ([a; b; o] ++ CL ++ [c; e; []]) =
  a ++ c_nl :: b ++ c_nl :: o ++ c_nl :: join [c_nl] CL ++ c_nl :: c ++ c_nl :: e ++ [c_nl].
Proof.
  intros Hne. rewrite (join_nlcat [a; b; o]) by (destruct CL; [congruence|discriminate]).
  rewrite join_app2 by (congruence || discriminate).
  rewrite !join_cons2. cbn [join nlcat flat_map].
  repeat (progress (rewrite <- ?app_assoc; cbn [app])). reflexivity.
Qed.

Lemma emit_zone_doc sp name key content tag marker :
  emit sp (zone_doc name key content tag marker) = join [c_nl] (zone_doc_lines name key content tag marker).
Proof.
  unfold emit, emit_lines, zone_doc.
  cbn [dfront dgrammar truthy dname dmeta dsep dsections dtrailing flat_map emit_node_lines is_absent app emit_leading map].
  rewrite emit_zone_lines_verbatim. cbn [emit_leading map app]. change (ind 0) with (@nil N). cbn [app].
  destruct content as [|c0 cr].
  - unfold zone_doc_lines. cbn [content_lines app]. rewrite !join_cons2. cbn [join].
    repeat (progress (rewrite <- ?app_assoc; cbn [app])). reflexivity.
  - cbn [app]. set (content := c0 :: cr). unfold zone_doc_lines.
    assert (Hne : content_lines content <> []) by (unfold content_lines, content; apply split_on_nonempty).
    rewrite (join_doc_lines _ _ _ _ _ _ Hne), join_content_lines.
    rewrite !join_cons2. cbn [join].
    repeat (progress (rewrite <- ?app_assoc; cbn [app])). reflexivity.
Qed.

(* ---- character facts ---------------------------------------------------------------------------------- *)
Lemma memb_forallb_false (p : N -> bool) c l : p c = false -> forallb p l = true -> memb c l = false.
Proof.
  intros Hc. unfold memb. induction l as [|x l IH]; [reflexivity|]. cbn [forallb existsb]. intros H.
  apply andb_prop in H. destruct H as [Hx Hl]. rewrite (IH Hl), orb_false_r.
  destruct (N.eqb_spec c x) as [->|]; [congruence|reflexivity].
Qed.

Lemma upper_range c : is_upper c = true -> 65 <= c /\ c <= 90.
Proof. unfold is_upper. intros H. apply andb_prop in H. destruct H as [H1 H2]. apply N.leb_le in H1, H2. lia. Qed.

Lemma upper_cases c : is_upper c = true ->
  In c [65;66;67;68;69;70;71;72;73;74;75;76;77;78;79;80;81;82;83;84;85;86;87;88;89;90].
Proof.
  intros H. apply upper_range in H. destruct H as [H1 H2].
  assert (E : c = N.of_nat (N.to_nat c)) by (symmetry; apply N2Nat.id).
  assert (Hin : In (N.to_nat c) (seq 65 26)) by (apply in_seq; lia).
  rewrite E. apply (in_map N.of_nat) in Hin. exact Hin.
Qed.

Lemma upper_env_id_char c : is_upper c = true -> env_id_char c = true.
Proof. intros H. unfold env_id_char, is_alnum, is_alpha. rewrite H. reflexivity. Qed.
Lemma upper_key_char c : is_upper c = true -> key_char c = true.
Proof. intros H. unfold key_char, is_alnum, is_alpha. rewrite H. reflexivity. Qed.

Lemma name_ok_inv name : name_ok name = true ->
  exists c r, name = c :: r /\ is_upper c = true /\ forallb env_id_char r = true /\ str_eqb name (lit "END") = false.
Proof.
  destruct name as [|c r]; [discriminate|]. unfold name_ok. intros H.
  apply andb_prop in H. destruct H as [H H3]. apply andb_prop in H. destruct H as [H1 H2].
  exists c, r. apply negb_true_iff in H3. auto.
Qed.
Lemma key_ok_inv key : key_ok key = true ->
  exists c r, key = c :: r /\ is_upper c = true /\ forallb key_char r = true /\ str_eqb key (lit "META") = false.
Proof.
  destruct key as [|c r]; [discriminate|]. unfold key_ok. intros H.
  apply andb_prop in H. destruct H as [H H3]. apply andb_prop in H. destruct H as [H1 H2].
  exists c, r. apply negb_true_iff in H3. auto.
Qed.

Lemma name_chars name : name_ok name = true -> forallb env_id_char name = true.
Proof. intros H. destruct (name_ok_inv _ H) as (c & r & -> & Hc & Hr & _). cbn [forallb]. rewrite (upper_env_id_char _ Hc). exact Hr. Qed.
Lemma key_chars key : key_ok key = true -> forallb key_char key = true.
Proof. intros H. destruct (key_ok_inv _ H) as (c & r & -> & Hc & Hr & _). cbn [forallb]. rewrite (upper_key_char _ Hc). exact Hr. Qed.

Lemma marker_ok_inv m : marker_ok m = true -> (3 <= length m)%nat /\ forallb (N.eqb c_bt) m = true.
Proof. unfold marker_ok. intros H. apply andb_prop in H. destruct H as [H1 H2]. apply Nat.leb_le in H1. auto. Qed.
Lemma marker_is_repeat m : forallb (N.eqb c_bt) m = true -> m = repeat c_bt (length m).
Proof.
  induction m as [|x m IH]; [reflexivity|]. cbn [forallb length repeat]. intros H. apply andb_prop in H. destruct H as [H1 H2].
  apply N.eqb_eq in H1. subst x. f_equal. exact (IH H2).
Qed.

Lemma memb_app c a b : memb c (a ++ b) = memb c a || memb c b.
Proof. unfold memb. apply existsb_app. Qed.

(* ---- takeb / dropb on a concatenation ------------------------------------------------------------------ *)
Lemma takeb_dropb_app p a b :
  forallb p a = true -> match b with [] => true | x :: _ => negb (p x) end = true ->
  takeb p (a ++ b) = a /\ dropb p (a ++ b) = b.
Proof.
  intros Ha Hb. induction a as [|x a IH].
  - cbn [app]. destruct b as [|y b]; [split; reflexivity|]. apply negb_true_iff in Hb. cbn [takeb dropb]. rewrite Hb. split; reflexivity.
  - cbn [forallb] in Ha. apply andb_prop in Ha. destruct Ha as [Hx Ha]. destruct (IH Ha) as [I1 I2].
    cbn [app takeb dropb]. rewrite Hx, I1, I2. split; reflexivity.
Qed.

Lemma memb_head_false c x b : memb c (x :: b) = false -> N.eqb c x = false.
Proof. cbn [memb existsb]. intros H. apply orb_false_iff in H. apply H. Qed.

(* ---- fence_match on the five fixed lines --------------------------------------------------------------- *)
Lemma fence_match_nonfence c r : N.eqb c_sp c = false -> N.eqb c_bt c = false -> fence_match (c :: r) = None.
Proof. intros H1 H2. unfold fence_match. cbn [dropb]. rewrite H1. cbn [takeb]. rewrite H2. reflexivity. Qed.

Lemma fence_match_marker m t : marker_ok m = true -> memb c_bt t = false -> fence_match (m ++ t) = Some (m, t).
Proof.
  intros Hm Ht. destruct (marker_ok_inv _ Hm) as [Hl Hb].
  assert (Hh : match t with [] => true | x :: _ => negb (N.eqb c_bt x) end = true).
  { destruct t as [|x t']; [reflexivity|]. rewrite (memb_head_false _ _ _ Ht). reflexivity. }
  destruct (takeb_dropb_app (N.eqb c_bt) m t Hb Hh) as [T D].
  unfold fence_match.
  assert (Hd : dropb (N.eqb c_sp) (m ++ t) = m ++ t).
  { destruct m as [|b m']; [cbn in Hl; lia|]. cbn [forallb] in Hb. apply andb_prop in Hb. destruct Hb as [Hb _].
    apply N.eqb_eq in Hb. subst b. reflexivity. }
  rewrite Hd, T, D, Ht. apply Nat.leb_le in Hl. rewrite Hl. reflexivity.
Qed.

Section Pipeline.
Variable cls : N -> N.

Definition tag_ok (tag : option str) : bool :=
  match tag with
  | None => true
  | Some t => negb (memb c_bt t) && negb (memb c_nl t) && str_eqb (strip cls t) t &&
              match t with [] => false | _ => true end
  end.

Lemma tag_ok_inv tag : tag_ok tag = true ->
  memb c_bt (tag_str tag) = false /\ memb c_nl (tag_str tag) = false /\ tag_of cls (tag_str tag) = tag /\
  norm_tag (u_space cls) tag = tag.
Proof.
  destruct tag as [t|]; cbn [tag_ok tag_str].
  - intros H. apply andb_prop in H. destruct H as [H H4]. apply andb_prop in H. destruct H as [H H3].
    apply andb_prop in H. destruct H as [H1 H2]. apply negb_true_iff in H1, H2. apply str_eqb_eq in H3.
    split; [exact H1|]. split; [exact H2|]. unfold tag_of, norm_tag.
    change (strip_sp (u_space cls) t) with (strip cls t). rewrite H3.
    destruct t; [discriminate|]. split; reflexivity.
  - intros _. repeat split; reflexivity.
Qed.

(* ---- fence_scan, one line at a time ---------------------------------------------------------------------- *)
Lemma fs_outside raw nfc ls ln off out spans :
  fence_match raw = None ->
  fence_scan cls ((raw, nfc) :: ls) ln off None out spans =
  fence_scan cls ls (ln + 1) (off + len nfc + 1) None (nfc :: out) spans.
Proof. intros H. cbn [fence_scan]. rewrite H. reflexivity. Qed.

Lemma fs_open raw nfc ls ln off out spans bt tr :
  fence_match raw = Some (bt, tr) ->
  fence_scan cls ((raw, nfc) :: ls) ln off None out spans =
  fence_scan cls ls (ln + 1) (off + len nfc + 1) (Some (bt, tag_of cls tr, ln, off)) (nfc :: out) spans.
Proof. intros H. cbn [fence_scan]. rewrite H. reflexivity. Qed.

Lemma fs_close raw nfc ls ln off out spans bt tr m t ol st :
  fence_match raw = Some (bt, tr) -> closes cls bt tr m = true ->
  fence_scan cls ((raw, nfc) :: ls) ln off (Some (m, t, ol, st)) out spans =
  fence_scan cls ls (ln + 1) (off + len nfc + 1) None (nfc :: out) (mkSpan st (off + len nfc + 1 - 1) m t :: spans).
Proof. intros H Hc. cbn [fence_scan]. rewrite H. fold (closes cls bt tr m). rewrite Hc. reflexivity. Qed.

(* zone content lines: kept RAW whatever the oracle says about them *)
Lemma fs_content (nfcf : str -> str) m t ol st spans rest : forall mids ln off out,
  forallb (line_ok m) mids = true ->
  fence_scan cls (map (fun l => (l, nfcf l)) mids ++ rest) ln off (Some (m, t, ol, st)) out spans =
  fence_scan cls rest (ln + N.of_nat (length mids)) (off + len (nlcat mids)) (Some (m, t, ol, st)) (rev mids ++ out) spans.
Proof.
  induction mids as [|l mids IH]; intros ln off out H.
  - cbn [map app length rev nlcat flat_map]. rewrite len_nil, !N.add_0_r. reflexivity.
  - cbn [forallb] in H. apply andb_prop in H. destruct H as [Hl Hm].
    cbn [map app]. 
    assert (Hstep : fence_scan cls ((l, nfcf l) :: map (fun l0 => (l0, nfcf l0)) mids ++ rest) ln off (Some (m, t, ol, st)) out spans =
                    fence_scan cls (map (fun l0 => (l0, nfcf l0)) mids ++ rest) (ln + 1) (off + len l + 1) (Some (m, t, ol, st)) (l :: out) spans).
    { cbn [fence_scan]. unfold line_ok in Hl. destruct (fence_match l) as [[bt tr]|]; [|reflexivity].
      apply Nat.ltb_lt in Hl.
      assert (E1 : (length bt =? length m)%nat = false) by (apply Nat.eqb_neq; lia).
      assert (E2 : (length m <=? length bt)%nat = false) by (apply Nat.leb_gt; lia).
      rewrite E1, E2. reflexivity. }
    rewrite Hstep, (IH _ _ _ Hm). cbn [length rev]. rewrite nlcat_cons, len_app, len_cons, <- app_assoc. cbn [app].
    f_equal; lia.
Qed.
End Pipeline.

(* ---- lexer: fuel bookkeeping ---------------------------------------------------------------------------- *)
Section Run.
Variable cls : N -> N.

Lemma run_fuel_indep lenient : forall f1 f2 st,
  (length (ls_in st) < f1)%nat -> (length (ls_in st) < f2)%nat -> run cls lenient f1 st = run cls lenient f2 st.
Proof.
  induction f1 as [|f1 IH]; intros f2 st H1 H2; [lia|]. destruct f2 as [|f2]; [lia|].
  cbn [run]. destruct (ls_in st) as [|c s'] eqn:E; [reflexivity|].
  destruct (step cls lenient st) as [st'|r] eqn:Hs; [|reflexivity].
  pose proof (step_progress cls lenient st st' Hs) as Hp. rewrite E in Hp. cbn [length] in *.
  apply IH; lia.
Qed.

Lemma run_S lenient f st :
  run cls lenient (S f) st =
  match ls_in st with
  | [] => finish st
  | _ => match step cls lenient st with Continue st' => run cls lenient f st' | Stop r => r end
  end.
Proof. reflexivity. Qed.

Lemma run_step lenient F st st' :
  step cls lenient st = Continue st' -> (length (ls_in st) < F)%nat ->
  run cls lenient F st = run cls lenient F st' /\ (length (ls_in st') < F)%nat.
Proof.
  intros Hs HF. pose proof (step_progress cls lenient st st' Hs) as Hp.
  split; [|lia]. destruct F as [|f]; [lia|].
  rewrite (run_S lenient f st). destruct (ls_in st) as [|c s'] eqn:E.
  - unfold step in Hs. rewrite E in Hs. discriminate.
  - rewrite Hs. cbn [length] in *. apply run_fuel_indep; lia.
Qed.

(* no fence span starts at the current offset *)
Definition no_fence_here (st : lstate) : Prop :=
  forall sp rest, ls_spans st = sp :: rest -> ls_pos st <> sp_start sp.

Lemma step_plain_of lenient st c s' :
  ls_in st = c :: s' -> no_fence_here st -> step cls lenient st = step_plain cls lenient st c s'.
Proof.
  intros Hin Hnf. unfold step. rewrite Hin. destruct (ls_spans st) as [|sp rest] eqn:E; [reflexivity|].
  specialize (Hnf sp rest E). apply N.eqb_neq in Hnf. rewrite Hnf. reflexivity.
Qed.

Lemma count_nl_zero s : memb c_nl s = false -> count_nl s = 0.
Proof.
  induction s as [|c s IH]; [reflexivity|]. cbn [memb existsb count_nl]. intros H. apply orb_false_iff in H. destruct H as [H1 H2].
  rewrite N.eqb_sym, H1. rewrite (IH H2). reflexivity.
Qed.

(* emit_pat for a token that is no alias, no bracket, and has no newline in its text *)
Lemma emit_pat_plain st k v m rest :
  alias_of m = None -> tkind_eqb k LIST_START = false -> tkind_eqb k LIST_END = false -> memb c_nl m = false ->
  emit_pat st k v m rest None =
  Continue (mkLS rest (last_chr m) (ls_pos st + len m) (ls_line st) (ls_col st + len m)
                 (mkTok k v (ls_line st) (ls_col st) None :: ls_toks st) (ls_reps st) (ls_brk st) (ls_spans st)).
Proof.
  intros Ha H1 H2 Hn. unfold emit_pat. rewrite Ha, H1, H2, (count_nl_zero _ Hn). reflexivity.
Qed.

(* ---- the individual lexer steps ---------------------------------------------------------------------------- *)
Lemma step_newline st r :
  ls_in st = c_nl :: r -> no_fence_here st ->
  step cls false st =
  Continue (mkLS r (Some c_nl) (ls_pos st + 1) (ls_line st + 1) 1
                 (mkTok NEWLINE (TVText [c_nl]) (ls_line st) (ls_col st) None :: ls_toks st)
                 (ls_reps st) (ls_brk st) (ls_spans st)).
Proof.
  intros Hin Hnf. rewrite (step_plain_of _ _ _ _ Hin Hnf). unfold step_plain. cbv zeta.
  destruct (N.eqb (ls_pos st) 0); cbn; reflexivity.
Qed.

Lemma step_assign st r :
  ls_in st = c_colon :: c_colon :: r -> no_fence_here st ->
  step cls false st =
  Continue (mkLS r (Some c_colon) (ls_pos st + 2) (ls_line st) (ls_col st + 2)
                 (mkTok ASSIGN (TVText [c_colon; c_colon]) (ls_line st) (ls_col st) None :: ls_toks st)
                 (ls_reps st) (ls_brk st) (ls_spans st)).
Proof.
  intros Hin Hnf. rewrite (step_plain_of _ _ _ _ Hin Hnf). unfold step_plain. cbv zeta.
  destruct (N.eqb (ls_pos st) 0); cbn; reflexivity.
Qed.

Lemma step_envelope_end st r :
  ls_in st = s_end_env ++ r -> no_fence_here st ->
  step cls false st =
  Continue (mkLS r (Some c_eq) (ls_pos st + 9) (ls_line st) (ls_col st + 9)
                 (mkTok ENVELOPE_END (TVText [69; 78; 68]) (ls_line st) (ls_col st) None :: ls_toks st)
                 (ls_reps st) (ls_brk st) (ls_spans st)).
Proof.
  intros Hin Hnf. cbn [s_end_env app] in Hin. rewrite (step_plain_of _ _ _ _ Hin Hnf). unfold step_plain. cbv zeta.
  destruct (N.eqb (ls_pos st) 0); cbn; reflexivity.
Qed.
End Run.

Section Steps2.
Variable cls : N -> N.

(* ===NAME=== *)
Lemma prefix_end_name name r :
  forallb env_id_char name = true -> str_eqb name (lit "END") = false ->
  prefixb s_end_env (s_eq3 ++ name ++ s_eq3 ++ r) = false.
Proof.
  intros Hc Hne. change (lit "END") with [69;78;68] in Hne.
  change (prefixb s_end_env (s_eq3 ++ name ++ s_eq3 ++ r)) with (prefixb [69;78;68;61;61;61] (name ++ 61 :: 61 :: 61 :: r)).
  destruct name as [|a [|b [|c [|d n]]]]; cbn [str_eqb] in Hne; cbn [prefixb app].
  - reflexivity.
  - change (N.eqb 78 61) with false. rewrite andb_false_r. reflexivity.
  - change (N.eqb 68 61) with false. rewrite !andb_false_r. reflexivity.
  - change (N.eqb 61 61) with true. cbn [andb]. rewrite (N.eqb_sym 69 a), (N.eqb_sym 78 b), (N.eqb_sym 68 c). exact Hne.
  - cbn [forallb] in Hc. repeat (apply andb_prop in Hc; destruct Hc as [? Hc]).
    destruct (N.eqb_spec 61 d) as [<-|]; [discriminate|]. rewrite !andb_false_r. reflexivity.
Qed.

Lemma scan_envelope_start_name name r :
  name_ok name = true ->
  scan_envelope_start (s_eq3 ++ name ++ s_eq3 ++ r) = Some (name, r).
Proof.
  intros H. destruct (name_ok_inv _ H) as (c & n & -> & Hc & Hn & _).
  unfold scan_envelope_start. cbn [s_eq3 app prefixb N.eqb Pos.eqb andb skipn].
  assert (Hs : env_id_start c = true) by (unfold env_id_start, is_alpha; rewrite Hc; reflexivity).
  rewrite Hs.
  destruct (takeb_dropb_app env_id_char n (61 :: 61 :: 61 :: r) Hn eq_refl) as [T D].
  rewrite T, D. reflexivity.
Qed.

Lemma step_envelope_start st name r :
  ls_in st = s_eq3 ++ name ++ s_eq3 ++ r -> name_ok name = true -> no_fence_here st ->
  step cls false st =
  Continue (mkLS r (Some c_eq) (ls_pos st + len (s_eq3 ++ name ++ s_eq3)) (ls_line st) (ls_col st + len (s_eq3 ++ name ++ s_eq3))
                 (mkTok ENVELOPE_START (TVText name) (ls_line st) (ls_col st) None :: ls_toks st)
                 (ls_reps st) (ls_brk st) (ls_spans st)).
Proof.
  intros Hin Hok Hnf.
  pose proof (prefix_end_name name r (name_chars _ Hok)) as Hend.
  destruct (name_ok_inv _ Hok) as (c0 & n0 & En & Hc0 & Hn0 & Hne). specialize (Hend Hne).
  pose proof (scan_envelope_start_name name r Hok) as Hscan.
  assert (Hin' : ls_in st = c_eq :: (c_eq :: c_eq :: name ++ s_eq3 ++ r)) by exact Hin.
  rewrite (step_plain_of _ _ _ _ _ Hin' Hnf). unfold step_plain. cbv zeta.
  change (c_eq :: c_eq :: c_eq :: name ++ s_eq3 ++ r) with (s_eq3 ++ name ++ s_eq3 ++ r).
  rewrite Hend, Hscan.
  assert (Hsv : scan_version cls (s_eq3 ++ name ++ s_eq3 ++ r) = None) by reflexivity.
  assert (Hss : scan_sentinel cls (s_eq3 ++ name ++ s_eq3 ++ r) = None) by reflexivity.
  rewrite Hsv, Hss.
  replace (if N.eqb (ls_pos st) 0 then @None (str * str * str) else None) with (@None (str * str * str)) by (destruct (N.eqb (ls_pos st) 0); reflexivity).
  change (N.eqb c_eq c_sp) with false. cbv iota.
  rewrite emit_pat_plain; try reflexivity.
  - f_equal. f_equal. unfold last_chr. rewrite !rev_app_distr. reflexivity.
  - rewrite !memb_app. rewrite (memb_forallb_false env_id_char c_nl name eq_refl (name_chars _ Hok)). reflexivity.
Qed.

(* KEY *)
Lemma key_char_id_char x : key_char x = true -> id_char cls x = true /\ N.eqb x c_dash = false.
Proof.
  unfold key_char, id_char. intros H. apply orb_prop in H. destruct H as [H|H].
  - assert (Ha : is_ascii x = true).
    { unfold is_alnum, is_alpha, is_upper, is_lower, is_digit in H. unfold is_ascii. apply N.ltb_lt.
      repeat (apply orb_prop in H; destruct H as [H|H]); apply andb_prop in H; destruct H as [_ H]; apply N.leb_le in H; lia. }
    rewrite Ha, H. split; [reflexivity|].
    destruct (N.eqb_spec x c_dash) as [->|]; [discriminate|reflexivity].
  - apply N.eqb_eq in H. subst x. split; reflexivity.
Qed.

Lemma strip_trailing_dash_id l : match l with [] => true | x :: _ => negb (N.eqb x c_dash) end = true -> strip_trailing_dash l = l.
Proof. destruct l as [|x l]; [reflexivity|]. cbn [strip_trailing_dash]. intros H. apply negb_true_iff in H. rewrite H. reflexivity. Qed.

Lemma scan_identifier_key c kr r :
  is_upper c = true -> forallb key_char kr = true ->
  scan_identifier cls false (c :: kr ++ c_colon :: r) = Some (c :: kr, c_colon :: r, None).
Proof.
  intros Hc Hk.
  destruct (upper_range _ Hc) as [R1 R2].
  assert (Ha : is_ascii c = true) by (unfold is_ascii; apply N.ltb_lt; lia).
  assert (Hal : is_alpha c = true) by (unfold is_alpha; rewrite Hc; reflexivity).
  assert (Hid : forallb (id_char cls) kr = true).
  { apply forallb_forall. intros x Hx. rewrite forallb_forall in Hk. apply (key_char_id_char x (Hk x Hx)). }
  destruct (takeb_dropb_app (id_char cls) kr (c_colon :: r) Hid eq_refl) as [T _].
  unfold scan_identifier, id_start. rewrite Ha, Hal. cbn [orb].
  unfold scan_ident_core. rewrite T.
  assert (Hst : strip_trailing_dash (rev kr) = rev kr).
  { apply strip_trailing_dash_id. destruct (rev kr) as [|x l] eqn:E; [reflexivity|].
    assert (Hx : In x kr) by (apply in_rev; rewrite E; left; reflexivity).
    rewrite forallb_forall in Hk. destruct (key_char_id_char x (Hk x Hx)) as [_ Hd]. rewrite Hd. reflexivity. }
  rewrite Hst, rev_involutive, skipn_exact. reflexivity.
Qed.

Definition key_reps (key : str) (line col : N) : list repair :=
  rev ((match wrong_case_of key with Some w => [mkRep 1 key w line col] | None => [] end) ++
       (if vs_embedded key then [mkRep 2 key [] line col] else [])).

Lemma step_plain_upper st c s' :
  is_upper c = true -> N.eqb (ls_pos st) 0 = false ->
  step_plain cls false st c s' = step_fallback cls false st c s'.
Proof.
  intros Hc Hpos. unfold step_plain. cbv zeta. rewrite Hpos.
  pose proof (upper_cases c Hc) as Hin.
  repeat (destruct Hin as [<-|Hin]; [reflexivity|]). destruct Hin.
Qed.

Lemma step_key st key r :
  ls_in st = key ++ c_colon :: r -> key_ok key = true -> ls_pos st <> 0 -> no_fence_here st ->
  step cls false st =
  Continue (mkLS (c_colon :: r) (last_chr key) (ls_pos st + len key) (ls_line st) (ls_col st + len key)
                 (mkTok IDENTIFIER (TVText key) (ls_line st) (ls_col st) None :: ls_toks st)
                 (key_reps key (ls_line st) (ls_col st) ++ ls_reps st) (ls_brk st) (ls_spans st)).
Proof.
  intros Hin Hok Hpos Hnf. destruct (key_ok_inv _ Hok) as (c & kr & -> & Hc & Hk & _).
  cbn [app] in Hin. apply N.eqb_neq in Hpos.
  rewrite (step_plain_of _ _ _ _ _ Hin Hnf), (step_plain_upper _ _ _ Hc Hpos).
  destruct (upper_range _ Hc) as [R1 R2].
  unfold step_fallback.
  assert (E1 : prefixb s_eq3 (c :: kr ++ c_colon :: r) = false).
  { cbn [s_eq3 prefixb]. destruct (N.eqb_spec 61 c) as [<-|]; [lia|reflexivity]. }
  assert (E2 : N.eqb c c_plus = false) by (apply N.eqb_neq; unfold c_plus; lia).
  rewrite E1, E2. cbn [andb]. rewrite (scan_identifier_key _ _ _ Hc Hk). reflexivity.
Qed.
End Steps2.

(* ---- the document through the fence pre-pass and the tab check -------------------------------------------- *)
Section Doc.
Variable cls : N -> N.
Variable nfcf : str -> str.      (* the NFC oracle *)

Definition lines_of_raw_nfc (s : str) : list (str * str) := map (fun l => (l, nfcf l)) (split_on c_nl s).

(* the five non-zone lines (and the empty line after the final newline) *)
Definition fixed_lines (name key : str) (tag : option str) (marker : str) : list str :=
  [s_env ++ name ++ s_env; key ++ s_assign; marker ++ tag_str tag; marker; s_end; []].

Definition zone_text (content : str) (tag : option str) (marker : str) : str :=
  join [c_nl] ((marker ++ tag_str tag) :: content_lines content ++ [marker]).
Definition zone_span (name key content : str) (tag : option str) (marker : str) : span :=
  let s := len (nlcat [s_env ++ name ++ s_env; key ++ s_assign]) in
  mkSpan s (s + len (zone_text content tag marker)) marker tag.

Variables (name key content : str) (tag : option str) (marker : str).
Hypothesis Hname : name_ok name = true.
Hypothesis Hkey : key_ok key = true.
Hypothesis Hzone : zone_ok marker content = true.
Hypothesis Htag : tag_ok cls tag = true.
Hypothesis Hnfc : forall l, In l (fixed_lines name key tag marker) -> nfcf l = l.

Let Hmarker : marker_ok marker = true.
Proof. unfold zone_ok in Hzone. apply andb_prop in Hzone. apply Hzone. Qed.
Let Hlines : forallb (line_ok marker) (content_lines content) = true.
Proof. unfold zone_ok in Hzone. apply andb_prop in Hzone. apply Hzone. Qed.

Lemma marker_no_nl : memb c_nl marker = false.
Proof. destruct (marker_ok_inv _ Hmarker) as [_ H]. exact (memb_forallb_false (N.eqb c_bt) c_nl marker eq_refl H). Qed.
Lemma marker_no_tab : memb c_tab marker = false.
Proof. destruct (marker_ok_inv _ Hmarker) as [_ H]. exact (memb_forallb_false (N.eqb c_bt) c_tab marker eq_refl H). Qed.

Lemma doc_lines_nl_free :
  forallb (fun l => negb (memb c_nl l)) (zone_doc_lines name key content tag marker) = true.
Proof.
  destruct (tag_ok_inv cls tag Htag) as (_ & Htn & _).
  unfold zone_doc_lines. rewrite !forallb_app. cbn [forallb].
  rewrite !memb_app, marker_no_nl, Htn.
  rewrite (memb_forallb_false env_id_char c_nl name eq_refl (name_chars _ Hname)).
  rewrite (memb_forallb_false key_char c_nl key eq_refl (key_chars _ Hkey)).
  cbn. rewrite andb_true_r. unfold content_lines. destruct content; [reflexivity|]. apply split_on_lines_nl_free.
Qed.

Lemma lines_of_doc sp :
  lines_of_raw_nfc (emit sp (zone_doc name key content tag marker)) =
  map (fun l => (l, nfcf l)) (zone_doc_lines name key content tag marker).
Proof.
  unfold lines_of_raw_nfc. rewrite emit_zone_doc, split_join; [reflexivity|discriminate|exact doc_lines_nl_free].
Qed.

Lemma fence_scan_doc :
  fence_scan cls (map (fun l => (l, nfcf l)) (zone_doc_lines name key content tag marker)) 1 0 None [] [] =
  inr (zone_doc_lines name key content tag marker, [zone_span name key content tag marker]).
Proof.
  destruct (tag_ok_inv cls tag Htag) as (Htb & Htn & Htof & _).
  destruct (name_ok_inv _ Hname) as (n0 & nr & En & _).
  destruct (key_ok_inv _ Hkey) as (k0 & kr & Ek & Hk0 & _). destruct (upper_range _ Hk0) as [R1 R2].
  set (envl := s_env ++ name ++ s_env). set (keyl := key ++ s_assign). set (openl := marker ++ tag_str tag).
  assert (F1 : fence_match envl = None) by reflexivity.
  assert (F2 : fence_match keyl = None).
  { unfold keyl. rewrite Ek. cbn [app]. apply fence_match_nonfence; apply N.eqb_neq; unfold c_sp, c_bt; lia. }
  assert (F3 : fence_match openl = Some (marker, tag_str tag)) by (apply fence_match_marker; assumption).
  assert (F4 : fence_match marker = Some (marker, [])).
  { rewrite <- (app_nil_r marker) at 1. apply fence_match_marker; [assumption|reflexivity]. }
  assert (F5 : fence_match s_end = None) by reflexivity.
  assert (F6 : fence_match [] = None) by reflexivity.
  assert (C4 : closes cls marker [] marker = true) by (unfold closes; rewrite Nat.eqb_refl; reflexivity).
  assert (N1 : nfcf envl = envl) by (apply Hnfc; cbn; auto).
  assert (N2 : nfcf keyl = keyl) by (apply Hnfc; cbn; auto).
  assert (N3 : nfcf openl = openl) by (apply Hnfc; cbn; auto).
  assert (N4 : nfcf marker = marker) by (apply Hnfc; cbn; auto).
  assert (N5 : nfcf s_end = s_end) by (apply Hnfc; cbn; auto 10).
  assert (N6 : nfcf [] = []) by (apply Hnfc; cbn; auto 10).
  unfold zone_doc_lines. fold envl keyl openl. rewrite !map_app. cbn [map app]. rewrite N1, N2, N3, N4, N5, N6.
  rewrite (fs_outside _ _ _ _ _ _ _ _ F1), (fs_outside _ _ _ _ _ _ _ _ F2), (fs_open _ _ _ _ _ _ _ _ _ _ F3), Htof.
  rewrite fs_content by exact Hlines.
  rewrite (fs_close _ _ _ _ _ _ _ _ _ _ _ _ _ _ F4 C4), (fs_outside _ _ _ _ _ _ _ _ F5), (fs_outside _ _ _ _ _ _ _ _ F6).
  cbn [fence_scan]. f_equal. f_equal.
  - cbn [rev]. rewrite rev_app_distr, rev_involutive. cbn [rev app]. rewrite <- !app_assoc. reflexivity.
  - cbn [rev app]. unfold zone_span, zone_text. fold envl keyl openl. f_equal. f_equal.
    + rewrite !nlcat_cons. cbn [nlcat flat_map]. rewrite !len_app, !len_cons, len_app, len_cons, len_nil. lia.
    + rewrite app_comm_cons, join_snoc, nlcat_cons.
      rewrite !nlcat_cons. cbn [nlcat flat_map]. rewrite !len_app, !len_cons, !len_app, !len_cons, len_nil. lia.
Qed.
End Doc.

(* ---- parser on the token shape of the document ----------------------------------------------------------- *)
Definition zone_doc_shape (name key content : str) (tag : option str) (marker : str) : list (tkind * tvalue) :=
  [ (ENVELOPE_START, TVText name); (NEWLINE, TVText [c_nl]);
    (IDENTIFIER, TVText key); (ASSIGN, TVText [c_colon; c_colon]); (NEWLINE, TVText [c_nl]);
    (FENCE_OPEN, TVFence marker tag); (LITERAL_CONTENT, TVText content); (FENCE_CLOSE, TVText marker); (NEWLINE, TVText [c_nl]);
    (ENVELOPE_END, TVText [69; 78; 68]); (NEWLINE, TVText [c_nl]); (EOF, TVNone) ].

Lemma tok_eta t : t = mkTok (tk t) (tv t) (tline t) (tcol t) (tnorm t).
Proof. destruct t; reflexivity. Qed.

Lemma parse_zone_doc_shape numcanon holo strict sp alpha name key content tag marker toks :
  str_eqb key (lit "META") = false ->
  map (fun t => (tk t, tv t)) toks = zone_doc_shape name key content tag marker ->
  exists st', parse_document numcanon holo strict sp alpha (mkPS toks None 0 [] 0 []) =
              POk (zone_doc name key content (norm_tag sp tag) marker) st' /\ pwarns st' = [].
Proof.
  intros Hmeta Hshape. unfold zone_doc_shape in Hshape.
  do 12 (destruct toks as [|[?k ?v ?l ?c ?n] toks]; [discriminate Hshape|]). destruct toks; [|discriminate Hshape].
  cbn [map tk tv] in Hshape. injection Hshape. clear Hshape. intros. subst.
  unfold parse_document.
  lazy [skip_kinds kin existsb tkind_eqb tkind_code is ck cur ptoks tk fuel_of length N.eqb Pos.eqb negb andb orb
        Parser.adv text_of tv pprev ppos pwarns pbdepth pwarned].
  rewrite Hmeta.
  lazy -[strip_sp norm_tag tline tcol tnorm].
  eexists. split; reflexivity.
Qed.

(* ---- the text, the tab check, the lexer run ---------------------------------------------------------------- *)
Lemma nth_memb_false c (l : str) k : memb c l = false -> (k < length l)%nat -> nth k l 0 <> c.
Proof.
  revert k; induction l as [|x l IH]; intros k Hm Hk; [cbn in Hk; lia|].
  cbn [memb existsb] in Hm. apply orb_false_iff in Hm. destruct Hm as [H1 H2].
  destruct k as [|k]; cbn [nth].
  - intros ->. rewrite N.eqb_refl in H1. discriminate.
  - apply IH; [exact H2|cbn [length] in Hk; lia].
Qed.

Lemma memb_cons c x l : memb c (x :: l) = N.eqb c x || memb c l.
Proof. reflexivity. Qed.

Section Main.
Variable cls : N -> N.
Variable nfcf : str -> str.
Variables (name key content : str) (tag : option str) (marker : str).
Hypothesis Hname : name_ok name = true.
Hypothesis Hkey : key_ok key = true.
Hypothesis Hzone : zone_ok marker content = true.
Hypothesis Htag : tag_ok cls tag = true.
Hypothesis Hnfc : forall l, In l (fixed_lines name key tag marker) -> nfcf l = l.

Let Hmarker : marker_ok marker = true.
Proof. unfold zone_ok in Hzone. apply andb_prop in Hzone. apply Hzone. Qed.

Notation ZT := (zone_text content tag marker).
Notation ZS := (zone_span name key content tag marker).
Notation L := (zone_doc_lines name key content tag marker).

Lemma doc_text :
  join [c_nl] L = nlcat [s_env ++ name ++ s_env; key ++ s_assign] ++ ZT ++ c_nl :: s_end ++ [c_nl].
Proof.
  unfold zone_doc_lines, zone_text.
  set (envl := s_env ++ name ++ s_env). set (keyl := key ++ s_assign). set (openl := marker ++ tag_str tag).
  transitivity (join [c_nl] ([envl; keyl] ++ (openl :: content_lines content ++ [marker]) ++ [s_end; []])).
  - f_equal. cbn [app]. rewrite <- app_assoc. reflexivity.
  - rewrite join_nlcat by discriminate. rewrite join_app2 by discriminate.
    rewrite (join_cons2 _ s_end). cbn [join]. rewrite app_nil_r. reflexivity.
Qed.

Lemma doc_text_lex :
  join [c_nl] L =
  s_eq3 ++ name ++ s_eq3 ++ c_nl :: key ++ c_colon :: c_colon :: c_nl :: ZT ++ c_nl :: s_end_env ++ [c_nl].
Proof.
  rewrite doc_text. rewrite !nlcat_cons. cbn [nlcat flat_map]. rewrite ?app_nil_r.
  change s_env with s_eq3. change s_assign with [c_colon; c_colon]. change s_end with s_end_env.
  repeat (progress (rewrite <- ?app_assoc; cbn [app])). reflexivity.
Qed.

Lemma zone_text_head : exists r, ZT = c_bt :: r.
Proof.
  destruct (marker_ok_inv _ Hmarker) as [Hl Hb].
  unfold zone_text. destruct marker as [|b m']; [cbn in Hl; lia|].
  cbn [forallb] in Hb. apply andb_prop in Hb. destruct Hb as [Hb _]. apply N.eqb_eq in Hb. subst b.
  change (join [c_nl] (((c_bt :: m') ++ tag_str tag) :: content_lines content ++ [c_bt :: m']))
    with (join [c_nl] ([(c_bt :: m') ++ tag_str tag] ++ (content_lines content ++ [c_bt :: m']))).
  rewrite join_nlcat by (destruct (content_lines content); discriminate).
  cbn [nlcat flat_map app]. eexists. reflexivity.
Qed.

Lemma tab_check_doc : tab_check (join [c_nl] L) 0 1 1 [ZS] = None.
Proof.
  rewrite doc_text. set (P := nlcat [s_env ++ name ++ s_env; key ++ s_assign]).
  set (Q := c_nl :: s_end ++ [c_nl]).
  assert (HP : memb c_tab P = false).
  { unfold P. rewrite !nlcat_cons. cbn [nlcat flat_map]. rewrite ?app_nil_r.
    repeat (rewrite memb_app || rewrite memb_cons).
    rewrite (memb_forallb_false env_id_char c_tab name eq_refl (name_chars _ Hname)).
    rewrite (memb_forallb_false key_char c_tab key eq_refl (key_chars _ Hkey)). reflexivity. }
  assert (HQ : memb c_tab Q = false) by reflexivity.
  apply tab_check_none. intros k Hk Hn. rewrite N.add_0_l.
  cbn [in_spans zone_span sp_start sp_end]. fold P. rewrite orb_false_r.
  rewrite !app_length in Hk.
  destruct (lt_dec k (length P)) as [Hlt|Hge].
  - rewrite app_nth1 in Hn by exact Hlt. exfalso. exact (nth_memb_false _ _ _ HP Hlt Hn).
  - rewrite app_nth2 in Hn by lia.
    destruct (lt_dec (k - length P) (length ZT)) as [Hlt2|Hge2].
    + apply andb_true_intro. unfold len. split; [apply N.leb_le|apply N.ltb_lt]; lia.
    + rewrite app_nth2 in Hn by lia. exfalso.
      refine (nth_memb_false _ _ _ HQ _ Hn). lia.
Qed.

Lemma span_start_eq :
  sp_start ZS = 0 + len (s_eq3 ++ name ++ s_eq3) + 1 + len key + 2 + 1.
Proof.
  cbn [zone_span sp_start]. rewrite !nlcat_cons. cbn [nlcat flat_map]. rewrite ?app_nil_r.
  change s_env with s_eq3. change s_assign with [c_colon; c_colon].
  repeat (rewrite len_app || rewrite len_cons || rewrite len_nil). lia.
Qed.

Lemma step_at_fence lenient st sp rest :
  ls_in st <> [] -> ls_spans st = sp :: rest -> ls_pos st = sp_start sp ->
  step cls lenient st = step_fence st sp rest.
Proof.
  intros Hne Hs Hp. unfold step. destruct (ls_in st); [congruence|]. rewrite Hs, Hp, N.eqb_refl. reflexivity.
Qed.

Definition lex_reps : list repair := rev (key_reps key (1 + 1) 1 ++ []).

Lemma lex_doc :
  exists toks,
    run cls false (S (length (join [c_nl] L))) (mkLS (join [c_nl] L) None 0 1 1 [] [] [] [ZS]) = LexOk toks lex_reps /\
    map (fun t => (tk t, tv t)) toks = zone_doc_shape name key content tag marker.
Proof.
  destruct (tag_ok_inv cls tag Htag) as (Htb & Htn & _).
  pose proof span_start_eq as Hstart.
  rewrite doc_text_lex.
  set (m := s_eq3 ++ name ++ s_eq3) in *.
  set (r5 := ZT ++ c_nl :: s_end_env ++ [c_nl]).
  set (T := s_eq3 ++ name ++ s_eq3 ++ c_nl :: key ++ c_colon :: c_colon :: c_nl :: r5).
  set (F := S (length T)).
  (* 1: ===NAME=== *)
  set (st0 := mkLS T None 0 1 1 [] [] [] [ZS]).
  assert (B0 : (length (ls_in st0) < F)%nat) by (cbn [ls_in st0]; unfold F; lia).
  assert (S1 := step_envelope_start cls st0 name _ eq_refl Hname).
  match type of S1 with _ -> _ = Continue ?s => set (st1 := s) in * end.
  destruct (run_step cls false F st0 st1) as [R1 B1]; [apply S1|exact B0|].
  { intros sp0 rest0 E. cbn [ls_spans st0] in E. inversion E; subst sp0 rest0. cbn [ls_pos st0]. rewrite Hstart. lia. }
  (* 2: newline *)
  assert (S2 := step_newline cls st1 _ eq_refl).
  match type of S2 with _ -> _ = Continue ?s => set (st2 := s) in * end.
  destruct (run_step cls false F st1 st2) as [R2 B2]; [apply S2|exact B1|].
  { intros sp0 rest0 E. cbn [ls_spans st1 st0] in E. inversion E; subst sp0 rest0. cbn [ls_pos st1 st0]. rewrite Hstart. fold m. lia. }
  (* 3: KEY *)
  assert (S3 := step_key cls st2 key _ eq_refl Hkey).
  match type of S3 with _ -> _ -> _ = Continue ?s => set (st3 := s) in * end.
  destruct (run_step cls false F st2 st3) as [R3 B3]; [apply S3|exact B2|].
  { cbn [ls_pos st2 st1 st0]. lia. }
  { intros sp0 rest0 E. cbn [ls_spans st2 st1 st0] in E. inversion E; subst sp0 rest0. cbn [ls_pos st2 st1 st0]. rewrite Hstart. fold m. lia. }
  (* 4: :: *)
  assert (S4 := step_assign cls st3 _ eq_refl).
  match type of S4 with _ -> _ = Continue ?s => set (st4 := s) in * end.
  destruct (run_step cls false F st3 st4) as [R4 B4]; [apply S4|exact B3|].
  { intros sp0 rest0 E. cbn [ls_spans st3 st2 st1 st0] in E. inversion E; subst sp0 rest0. cbn [ls_pos st3 st2 st1 st0]. rewrite Hstart. fold m. lia. }
  (* 5: newline *)
  assert (S5 := step_newline cls st4 _ eq_refl).
  match type of S5 with _ -> _ = Continue ?s => set (st5 := s) in * end.
  destruct (run_step cls false F st4 st5) as [R5 B5]; [apply S5|exact B4|].
  { intros sp0 rest0 E. cbn [ls_spans st4 st3 st2 st1 st0] in E. inversion E; subst sp0 rest0. cbn [ls_pos st4 st3 st2 st1 st0]. rewrite Hstart. fold m. lia. }
  (* 6: the zone *)
  assert (S6 : step cls false st5 = step_fence st5 ZS []).
  { apply step_at_fence.
    - cbn [ls_in st5]. unfold r5. destruct zone_text_head as [r ->]. discriminate.
    - reflexivity.
    - cbn [ls_pos st5 st4 st3 st2 st1 st0]. rewrite Hstart. fold m. reflexivity. }
  pose proof (step_fence_content st5 ZS [] (marker ++ tag_str tag) (content_lines content) marker (c_nl :: s_end_env ++ [c_nl])) as S6'.
  rewrite memb_app, Htn, (marker_no_nl _ _ Hzone) in S6'. specialize (S6' eq_refl eq_refl eq_refl).
  assert (Hsp : sp_end ZS - sp_start ZS = len (join [c_nl] ((marker ++ tag_str tag) :: content_lines content ++ [marker]))).
  { cbn [zone_span sp_start sp_end]. unfold zone_text. lia. }
  specialize (S6' Hsp). cbv zeta in S6'. rewrite join_content_lines in S6'. rewrite <- S6 in S6'.
  match type of S6' with _ = Continue ?s => set (st6 := s) in * end.
  destruct (run_step cls false F st5 st6 S6' B5) as [R6 B6].
  (* 7: ===END=== *)
  assert (S7 := step_envelope_end cls st6 _ eq_refl).
  match type of S7 with _ -> _ = Continue ?s => set (st7 := s) in * end.
  destruct (run_step cls false F st6 st7) as [R7 B7]; [apply S7|exact B6|].
  { intros sp0 rest0 E. cbn [ls_spans st6] in E. discriminate. }
  (* 8: newline *)
  assert (S8 := step_newline cls st7 _ eq_refl).
  match type of S8 with _ -> _ = Continue ?s => set (st8 := s) in * end.
  destruct (run_step cls false F st7 st8) as [R8 B8]; [apply S8|exact B7|].
  { intros sp0 rest0 E. cbn [ls_spans st7 st6] in E. discriminate. }
  fold st0. rewrite R1, R2, R3, R4, R5, R6, R7, R8.
  unfold F. rewrite run_S. cbn [ls_in st8]. unfold finish. cbn [ls_brk st8 st7 st6 st5 st4 st3 st2 st1 st0 rev].
  eexists. split; [reflexivity|]. reflexivity.
Qed.

End Main.

(* ================================================================================================= *)
(* 6. the round trip                                                                                   *)
(* ================================================================================================= *)
Section RoundTrip.
Variable cls : N -> N.                                   (* unicodedata classes *)
Variable numcanon : str -> option (bool * str).          (* number canonicaliser *)
Variable holo : str -> bool.                             (* holographic pattern oracle *)
Variable strict : bool.
Variable nfcf : str -> str.                              (* the NFC oracle *)

Lemma tokenize_zone_doc name key content tag marker :
  name_ok name = true -> key_ok key = true -> zone_ok marker content = true -> tag_ok cls tag = true ->
  (forall l, In l (fixed_lines name key tag marker) -> nfcf l = l) ->
  exists toks,
    tokenize cls false (map (fun l => (l, nfcf l)) (zone_doc_lines name key content tag marker)) = LexOk toks (lex_reps key) /\
    map (fun t => (tk t, tv t)) toks = zone_doc_shape name key content tag marker.
Proof.
  intros Hname Hkey Hzone Htag Hnfc. unfold tokenize.
  rewrite (fence_scan_doc cls nfcf name key content tag marker Hname Hkey Hzone Htag Hnfc).
  rewrite (tab_check_doc name key content tag marker Hname Hkey).
  eapply lex_doc; eassumption.
Qed.

(* HEADLINE (6) *)
Theorem zone_roundtrip name key content tag marker :
  name_ok name = true -> key_ok key = true -> zone_ok marker content = true -> tag_ok cls tag = true ->
  (forall l, In l (fixed_lines name key tag marker) -> nfcf l = l) ->
  parse_model cls numcanon holo strict
    (lines_of_raw_nfc nfcf (emit (u_space cls) (zone_doc name key content tag marker))) =
  PRDoc (zone_doc name key content tag marker) (lex_reps key) [].
Proof.
  intros Hname Hkey Hzone Htag Hnfc.
  assert (Hmarker : marker_ok marker = true) by (unfold zone_ok in Hzone; apply andb_prop in Hzone; apply Hzone).
  rewrite (lines_of_doc cls nfcf name key content tag marker Hname Hkey Hzone Htag).
  unfold parse_model.
  assert (Hfm : strip_frontmatter (u_space cls) (map (fun l => (l, nfcf l)) (zone_doc_lines name key content tag marker)) =
                (map (fun l => (l, nfcf l)) (zone_doc_lines name key content tag marker), None)) by reflexivity.
  rewrite Hfm.
  destruct (tokenize_zone_doc name key content tag marker Hname Hkey Hzone Htag Hnfc) as (toks & Htok & Hshape).
  rewrite Htok.
  destruct (key_ok_inv _ Hkey) as (k0 & kr & _ & _ & _ & Hmeta).
  destruct (parse_zone_doc_shape numcanon holo strict (u_space cls) (u_alpha cls) name key content tag marker toks Hmeta Hshape)
    as (st' & Hp & Hw).
  rewrite Hp, Hw. destruct (tag_ok_inv cls tag Htag) as (_ & _ & _ & Hnt). rewrite Hnt. reflexivity.
Qed.

(* ASCII corollary: an oracle that is the identity on ASCII lines (NFC never changes ASCII text) *)
Corollary zone_roundtrip_ascii name key content tag marker :
  name_ok name = true -> key_ok key = true -> zone_ok marker content = true -> tag_ok cls tag = true ->
  forallb is_ascii (tag_str tag) = true ->
  (forall l, forallb is_ascii l = true -> nfcf l = l) ->
  parse_model cls numcanon holo strict
    (lines_of_raw_nfc nfcf (emit (u_space cls) (zone_doc name key content tag marker))) =
  PRDoc (zone_doc name key content tag marker) (lex_reps key) [].
Proof.
  intros Hname Hkey Hzone Htag Hta Hid. apply zone_roundtrip; try assumption.
  assert (Hmarker : marker_ok marker = true) by (unfold zone_ok in Hzone; apply andb_prop in Hzone; apply Hzone).
  assert (An : forallb is_ascii name = true).
  { pose proof (name_chars _ Hname) as H. apply forallb_forall. intros x Hx. rewrite forallb_forall in H. specialize (H x Hx).
    unfold env_id_char in H. apply orb_prop in H. destruct H as [H|H].
    - unfold is_alnum, is_alpha, is_upper, is_lower, is_digit in H. unfold is_ascii. apply N.ltb_lt.
      repeat (apply orb_prop in H; destruct H as [H|H]); apply andb_prop in H; destruct H as [_ H]; apply N.leb_le in H; lia.
    - apply N.eqb_eq in H. subst x. reflexivity. }
  assert (Ak : forallb is_ascii key = true).
  { pose proof (key_chars _ Hkey) as H. apply forallb_forall. intros x Hx. rewrite forallb_forall in H. specialize (H x Hx).
    unfold key_char in H. apply orb_prop in H. destruct H as [H|H].
    - unfold is_alnum, is_alpha, is_upper, is_lower, is_digit in H. unfold is_ascii. apply N.ltb_lt.
      repeat (apply orb_prop in H; destruct H as [H|H]); apply andb_prop in H; destruct H as [_ H]; apply N.leb_le in H; lia.
    - apply N.eqb_eq in H. subst x. reflexivity. }
  assert (Am : forallb is_ascii marker = true).
  { destruct (marker_ok_inv _ Hmarker) as [_ H]. apply forallb_forall. intros x Hx. rewrite forallb_forall in H.
    specialize (H x Hx). apply N.eqb_eq in H. subst x. reflexivity. }
  intros l Hl. apply Hid. unfold fixed_lines in Hl. cbn [In] in Hl.
  repeat (destruct Hl as [<-|Hl]); try (rewrite ?forallb_app, ?An, ?Ak, ?Am, ?Hta; reflexivity). destruct Hl.
Qed.

End RoundTrip.
