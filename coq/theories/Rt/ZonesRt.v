(* C05 (6): emit -> split lines -> fence pre-pass -> tab check -> lexer -> parser is the identity on a
   document  ===NAME=== / KEY:: <literal zone> / ===END===,  for every zone content accepted by zone_ok,
   and for every NFC oracle that is the identity on the five non-zone lines. *)
From OV Require Import Base.Strs Lex.Lexer Lex.Progress Syn.Ast Syn.Parser Syn.Emitter Rt.Zones.
From Coq Require Import Lia.
Require Coq.Strings.String.
Import Coq.Strings.String.StringSyntax.
Open Scope N_scope.

(* ---- the fragment --------------------------------------------------------------------------------- *)
Definition zone_doc (name key content : str) (tag : option str) (marker : str) : doc :=
  mkDoc name None None false [] [NAssign key (VZone content tag marker) [] None] [].

(* marker: three or more backticks *)
Definition marker_ok (m : str) : bool := (3 <=? length m)%nat && forallb (N.eqb c_bt) m.
(* a content line must not be fence-shaped with a backtick run of the marker's length or longer: such a line
   either closes the zone early (equal length, blank tail) or is rejected with E007 *)
Definition line_ok (m l : str) : bool :=
  match fence_match l with None => true | Some (bt, _) => (length bt <? length m)%nat end.
(* the lines the emitter's single content element occupies in the text: none for the empty content *)
Definition content_lines (content : str) : list str :=
  match content with [] => [] | _ => split_on c_nl content end.
Definition zone_ok (marker content : str) : bool :=
  marker_ok marker && forallb (line_ok marker) (content_lines content).

Definition name_ok (name : str) : bool :=
  match name with
  | c :: r => is_upper c && forallb env_id_char r && negb (str_eqb name (lit "END"))
  | [] => false
  end.
Definition key_char (x : N) : bool := is_alnum x || N.eqb x c_us.
Definition key_ok (key : str) : bool :=
  match key with
  | c :: r => is_upper c && forallb key_char r && negb (str_eqb key (lit "META"))
  | [] => false
  end.

Definition zone_doc_lines (name key content : str) (tag : option str) (marker : str) : list str :=
  [s_env ++ name ++ s_env; key ++ s_assign; marker ++ tag_str tag] ++ content_lines content ++ [marker; s_end; []].

Lemma join_content_lines content : join [c_nl] (content_lines content) = content.
Proof. destruct content; [reflexivity|]. unfold content_lines. apply join_split. Qed.

Lemma join_doc_lines (a b o : str) (CL : list str) (c e : str) :
  CL <> [] ->
  join [c_nl] ([a; b; o] ++ CL ++ [c; e; []]) =
  a ++ c_nl :: b ++ c_nl :: o ++ c_nl :: join [c_nl] CL ++ c_nl :: c ++ c_nl :: e ++ [c_nl].
Proof.
  intros Hne. rewrite (join_nlcat [a; b; o]) by (destruct CL; [congruence|discriminate]).
  rewrite join_app2 by (congruence || discriminate).
  rewrite !join_cons2. cbn [join nlcat flat_map].
  repeat (progress (rewrite <- ?app_assoc; cbn [app])). reflexivity.
Qed.

Lemma emit_zone_doc sp name key content tag marker :
  emit sp (zone_doc name key content tag marker) = join [c_nl] (zone_doc_lines name key content tag marker).
Proof.
  unfold emit, emit_lines, zone_doc.
  cbn [dfront dgrammar truthy dname dmeta dsep dsections dtrailing flat_map emit_node_lines is_absent app emit_leading map].
  rewrite emit_zone_lines_verbatim. cbn [emit_leading map app]. change (ind 0) with (@nil N). cbn [app].
  destruct content as [|c0 cr].
  - unfold zone_doc_lines. cbn [content_lines app]. rewrite !join_cons2. cbn [join].
    repeat (progress (rewrite <- ?app_assoc; cbn [app])). reflexivity.
  - cbn [app]. set (content := c0 :: cr). unfold zone_doc_lines.
    assert (Hne : content_lines content <> []) by (unfold content_lines, content; apply split_on_nonempty).
    rewrite (join_doc_lines _ _ _ _ _ _ Hne), join_content_lines.
    rewrite !join_cons2. cbn [join].
    repeat (progress (rewrite <- ?app_assoc; cbn [app])). reflexivity.
Qed.

(* ---- character facts ---------------------------------------------------------------------------------- *)
Lemma memb_forallb_false (p : N -> bool) c l : p c = false -> forallb p l = true -> memb c l = false.
Proof.
  intros Hc. unfold memb. induction l as [|x l IH]; [reflexivity|]. cbn [forallb existsb]. intros H.
  apply andb_prop in H. destruct H as [Hx Hl]. rewrite (IH Hl), orb_false_r.
  destruct (N.eqb_spec c x) as [->|]; [congruence|reflexivity].
Qed.

Lemma upper_range c : is_upper c = true -> 65 <= c /\ c <= 90.
Proof. unfold is_upper. intros H. apply andb_prop in H. destruct H as [H1 H2]. apply N.leb_le in H1, H2. lia. Qed.

Lemma upper_cases c : is_upper c = true ->
  In c [65;66;67;68;69;70;71;72;73;74;75;76;77;78;79;80;81;82;83;84;85;86;87;88;89;90].
Proof.
  intros H. apply upper_range in H. destruct H as [H1 H2].
  assert (E : c = N.of_nat (N.to_nat c)) by (symmetry; apply N2Nat.id).
  assert (Hin : In (N.to_nat c) (seq 65 26)) by (apply in_seq; lia).
  rewrite E. apply (in_map N.of_nat) in Hin. exact Hin.
Qed.

Lemma upper_env_id_char c : is_upper c = true -> env_id_char c = true.
Proof. intros H. unfold env_id_char, is_alnum, is_alpha. rewrite H. reflexivity. Qed.
Lemma upper_key_char c : is_upper c = true -> key_char c = true.
Proof. intros H. unfold key_char, is_alnum, is_alpha. rewrite H. reflexivity. Qed.

Lemma name_ok_inv name : name_ok name = true ->
  exists c r, name = c :: r /\ is_upper c = true /\ forallb env_id_char r = true /\ str_eqb name (lit "END") = false.
Proof.
  destruct name as [|c r]; [discriminate|]. unfold name_ok. intros H.
  apply andb_prop in H. destruct H as [H H3]. apply andb_prop in H. destruct H as [H1 H2].
  exists c, r. apply negb_true_iff in H3. auto.
Qed.
Lemma key_ok_inv key : key_ok key = true ->
  exists c r, key = c :: r /\ is_upper c = true /\ forallb key_char r = true /\ str_eqb key (lit "META") = false.
Proof.
  destruct key as [|c r]; [discriminate|]. unfold key_ok. intros H.
  apply andb_prop in H. destruct H as [H H3]. apply andb_prop in H. destruct H as [H1 H2].
  exists c, r. apply negb_true_iff in H3. auto.
Qed.

Lemma name_chars name : name_ok name = true -> forallb env_id_char name = true.
Proof. intros H. destruct (name_ok_inv _ H) as (c & r & -> & Hc & Hr & _). cbn [forallb]. rewrite (upper_env_id_char _ Hc). exact Hr. Qed.
Lemma key_chars key : key_ok key = true -> forallb key_char key = true.
Proof. intros H. destruct (key_ok_inv _ H) as (c & r & -> & Hc & Hr & _). cbn [forallb]. rewrite (upper_key_char _ Hc). exact Hr. Qed.

Lemma marker_ok_inv m : marker_ok m = true -> (3 <= length m)%nat /\ forallb (N.eqb c_bt) m = true.
Proof. unfold marker_ok. intros H. apply andb_prop in H. destruct H as [H1 H2]. apply Nat.leb_le in H1. auto. Qed.
Lemma marker_is_repeat m : forallb (N.eqb c_bt) m = true -> m = repeat c_bt (length m).
Proof.
  induction m as [|x m IH]; [reflexivity|]. cbn [forallb length repeat]. intros H. apply andb_prop in H. destruct H as [H1 H2].
  apply N.eqb_eq in H1. subst x. f_equal. exact (IH H2).
Qed.

Lemma memb_app c a b : memb c (a ++ b) = memb c a || memb c b.
Proof. unfold memb. apply existsb_app. Qed.

(* ---- takeb / dropb on a concatenation ------------------------------------------------------------------ *)
Lemma takeb_dropb_app p a b :
  forallb p a = true -> match b with [] => true | x :: _ => negb (p x) end = true ->
  takeb p (a ++ b) = a /\ dropb p (a ++ b) = b.
Proof.
  intros Ha Hb. induction a as [|x a IH].
  - cbn [app]. destruct b as [|y b]; [split; reflexivity|]. apply negb_true_iff in Hb. cbn [takeb dropb]. rewrite Hb. split; reflexivity.
  - cbn [forallb] in Ha. apply andb_prop in Ha. destruct Ha as [Hx Ha]. destruct (IH Ha) as [I1 I2].
    cbn [app takeb dropb]. rewrite Hx, I1, I2. split; reflexivity.
Qed.

Lemma memb_head_false c x b : memb c (x :: b) = false -> N.eqb c x = false.
Proof. cbn [memb existsb]. intros H. apply orb_false_iff in H. apply H. Qed.

(* ---- fence_match on the five fixed lines --------------------------------------------------------------- *)
Lemma fence_match_nonfence c r : N.eqb c_sp c = false -> N.eqb c_bt c = false -> fence_match (c :: r) = None.
Proof. intros H1 H2. unfold fence_match. cbn [dropb]. rewrite H1. cbn [takeb]. rewrite H2. reflexivity. Qed.

Lemma fence_match_marker m t : marker_ok m = true -> memb c_bt t = false -> fence_match (m ++ t) = Some (m, t).
Proof.
  intros Hm Ht. destruct (marker_ok_inv _ Hm) as [Hl Hb].
  assert (Hh : match t with [] => true | x :: _ => negb (N.eqb c_bt x) end = true).
  { destruct t as [|x t']; [reflexivity|]. rewrite (memb_head_false _ _ _ Ht). reflexivity. }
  destruct (takeb_dropb_app (N.eqb c_bt) m t Hb Hh) as [T D].
  unfold fence_match.
  assert (Hd : dropb (N.eqb c_sp) (m ++ t) = m ++ t).
  { destruct m as [|b m']; [cbn in Hl; lia|]. cbn [forallb] in Hb. apply andb_prop in Hb. destruct Hb as [Hb _].
    apply N.eqb_eq in Hb. subst b. reflexivity. }
  rewrite Hd, T, D, Ht. apply Nat.leb_le in Hl. rewrite Hl. reflexivity.
Qed.

Section Pipeline.
Variable cls : N -> N.

Definition tag_ok (tag : option str) : bool :=
  match tag with
  | None => true
  | Some t => negb (memb c_bt t) && negb (memb c_nl t) && str_eqb (strip cls t) t &&
              match t with [] => false | _ => true end
  end.

Lemma tag_ok_inv tag : tag_ok tag = true ->
  memb c_bt (tag_str tag) = false /\ memb c_nl (tag_str tag) = false /\ tag_of cls (tag_str tag) = tag /\
  norm_tag (u_space cls) tag = tag.
Proof.
  destruct tag as [t|]; cbn [tag_ok tag_str].
  - intros H. apply andb_prop in H. destruct H as [H H4]. apply andb_prop in H. destruct H as [H H3].
    apply andb_prop in H. destruct H as [H1 H2]. apply negb_true_iff in H1, H2. apply str_eqb_eq in H3.
    split; [exact H1|]. split; [exact H2|]. unfold tag_of, norm_tag.
    change (strip_sp (u_space cls) t) with (strip cls t). rewrite H3.
    destruct t; [discriminate|]. split; reflexivity.
  - intros _. repeat split; reflexivity.
Qed.

(* ---- fence_scan, one line at a time ---------------------------------------------------------------------- *)
Lemma fs_outside raw nfc ls ln off out spans :
  fence_match raw = None ->
  fence_scan cls ((raw, nfc) :: ls) ln off None out spans =
  fence_scan cls ls (ln + 1) (off + len nfc + 1) None (nfc :: out) spans.
Proof. intros H. cbn [fence_scan]. rewrite H. reflexivity. Qed.

Lemma fs_open raw nfc ls ln off out spans bt tr :
  fence_match raw = Some (bt, tr) ->
  fence_scan cls ((raw, nfc) :: ls) ln off None out spans =
  fence_scan cls ls (ln + 1) (off + len nfc + 1) (Some (bt, tag_of cls tr, ln, off)) (nfc :: out) spans.
Proof. intros H. cbn [fence_scan]. rewrite H. reflexivity. Qed.

Lemma fs_close raw nfc ls ln off out spans bt tr m t ol st :
  fence_match raw = Some (bt, tr) -> closes cls bt tr m = true ->
  fence_scan cls ((raw, nfc) :: ls) ln off (Some (m, t, ol, st)) out spans =
  fence_scan cls ls (ln + 1) (off + len nfc + 1) None (nfc :: out) (mkSpan st (off + len nfc + 1 - 1) m t :: spans).
Proof. intros H Hc. cbn [fence_scan]. rewrite H. fold (closes cls bt tr m). rewrite Hc. reflexivity. Qed.

(* zone content lines: kept RAW whatever the oracle says about them *)
Lemma fs_content (nfcf : str -> str) m t ol st spans rest : forall mids ln off out,
  forallb (line_ok m) mids = true ->
  fence_scan cls (map (fun l => (l, nfcf l)) mids ++ rest) ln off (Some (m, t, ol, st)) out spans =
  fence_scan cls rest (ln + N.of_nat (length mids)) (off + len (nlcat mids)) (Some (m, t, ol, st)) (rev mids ++ out) spans.
Proof.
  induction mids as [|l mids IH]; intros ln off out H.
  - cbn [map app length rev nlcat flat_map]. rewrite len_nil, !N.add_0_r. reflexivity.
  - cbn [forallb] in H. apply andb_prop in H. destruct H as [Hl Hm].
    cbn [map app]. 
    assert (Hstep : fence_scan cls ((l, nfcf l) :: map (fun l0 => (l0, nfcf l0)) mids ++ rest) ln off (Some (m, t, ol, st)) out spans =
                    fence_scan cls (map (fun l0 => (l0, nfcf l0)) mids ++ rest) (ln + 1) (off + len l + 1) (Some (m, t, ol, st)) (l :: out) spans).
    { cbn [fence_scan]. unfold line_ok in Hl. destruct (fence_match l) as [[bt tr]|]; [|reflexivity].
      apply Nat.ltb_lt in Hl.
      assert (E1 : (length bt =? length m)%nat = false) by (apply Nat.eqb_neq; lia).
      assert (E2 : (length m <=? length bt)%nat = false) by (apply Nat.leb_gt; lia).
      rewrite E1, E2. reflexivity. }
    rewrite Hstep, (IH _ _ _ Hm). cbn [length rev]. rewrite nlcat_cons, len_app, len_cons, <- app_assoc. cbn [app].
    f_equal; lia.
Qed.
End Pipeline.

(* ---- lexer: fuel bookkeeping ---------------------------------------------------------------------------- *)
Section Run.
Variable cls : N -> N.

Lemma run_fuel_indep lenient : forall f1 f2 st,
  (length (ls_in st) < f1)%nat -> (length (ls_in st) < f2)%nat -> run cls lenient f1 st = run cls lenient f2 st.
Proof.
  induction f1 as [|f1 IH]; intros f2 st H1 H2; [lia|]. destruct f2 as [|f2]; [lia|].
  cbn [run]. destruct (ls_in st) as [|c s'] eqn:E; [reflexivity|].
  destruct (step cls lenient st) as [st'|r] eqn:Hs; [|reflexivity].
  pose proof (step_progress cls lenient st st' Hs) as Hp. rewrite E in Hp. cbn [length] in *.
  apply IH; lia.
Qed.

Lemma run_S lenient f st :
  run cls lenient (S f) st =
  match ls_in st with
  | [] => finish st
  | _ => match step cls lenient st with Continue st' => run cls lenient f st' | Stop r => r end
  end.
Proof. reflexivity. Qed.

Lemma run_step lenient F st st' :
  step cls lenient st = Continue st' -> (length (ls_in st) < F)%nat ->
  run cls lenient F st = run cls lenient F st' /\ (length (ls_in st') < F)%nat.
Proof.
  intros Hs HF. pose proof (step_progress cls lenient st st' Hs) as Hp.
  split; [|lia]. destruct F as [|f]; [lia|].
  rewrite (run_S lenient f st). destruct (ls_in st) as [|c s'] eqn:E.
  - unfold step in Hs. rewrite E in Hs. discriminate.
  - rewrite Hs. cbn [length] in *. apply run_fuel_indep; lia.
Qed.

(* no fence span starts at the current offset *)
Definition no_fence_here (st : lstate) : Prop :=
  forall sp rest, ls_spans st = sp :: rest -> ls_pos st <> sp_start sp.

Lemma step_plain_of lenient st c s' :
  ls_in st = c :: s' -> no_fence_here st -> step cls lenient st = step_plain cls lenient st c s'.
Proof.
  intros Hin Hnf. unfold step. rewrite Hin. destruct (ls_spans st) as [|sp rest] eqn:E; [reflexivity|].
  specialize (Hnf sp rest E). apply N.eqb_neq in Hnf. rewrite Hnf. reflexivity.
Qed.

Lemma count_nl_zero s : memb c_nl s = false -> count_nl s = 0.
Proof.
  induction s as [|c s IH]; [reflexivity|]. cbn [memb existsb count_nl]. intros H. apply orb_false_iff in H. destruct H as [H1 H2].
  rewrite N.eqb_sym, H1. rewrite (IH H2). reflexivity.
Qed.

(* emit_pat for a token that is no alias, no bracket, and has no newline in its text *)
Lemma emit_pat_plain st k v m rest :
  alias_of m = None -> tkind_eqb k LIST_START = false -> tkind_eqb k LIST_END = false -> memb c_nl m = false ->
  emit_pat st k v m rest None =
  Continue (mkLS rest (last_chr m) (ls_pos st + len m) (ls_line st) (ls_col st + len m)
                 (mkTok k v (ls_line st) (ls_col st) None :: ls_toks st) (ls_reps st) (ls_brk st) (ls_spans st)).
Proof.
  intros Ha H1 H2 Hn. unfold emit_pat. rewrite Ha, H1, H2, (count_nl_zero _ Hn). reflexivity.
Qed.

(* ---- the individual lexer steps ---------------------------------------------------------------------------- *)
Lemma step_newline st r :
  ls_in st = c_nl :: r -> no_fence_here st ->
  step cls false st =
  Continue (mkLS r (Some c_nl) (ls_pos st + 1) (ls_line st + 1) 1
                 (mkTok NEWLINE (TVText [c_nl]) (ls_line st) (ls_col st) None :: ls_toks st)
                 (ls_reps st) (ls_brk st) (ls_spans st)).
Proof.
  intros Hin Hnf. rewrite (step_plain_of _ _ _ _ Hin Hnf). unfold step_plain. cbv zeta.
  destruct (N.eqb (ls_pos st) 0); cbn; reflexivity.
Qed.

Lemma step_assign st r :
  ls_in st = c_colon :: c_colon :: r -> no_fence_here st ->
  step cls false st =
  Continue (mkLS r (Some c_colon) (ls_pos st + 2) (ls_line st) (ls_col st + 2)
                 (mkTok ASSIGN (TVText [c_colon; c_colon]) (ls_line st) (ls_col st) None :: ls_toks st)
                 (ls_reps st) (ls_brk st) (ls_spans st)).
Proof.
  intros Hin Hnf. rewrite (step_plain_of _ _ _ _ Hin Hnf). unfold step_plain. cbv zeta.
  destruct (N.eqb (ls_pos st) 0); cbn; reflexivity.
Qed.

Lemma step_envelope_end st r :
  ls_in st = s_end_env ++ r -> no_fence_here st ->
  step cls false st =
  Continue (mkLS r (Some c_eq) (ls_pos st + 9) (ls_line st) (ls_col st + 9)
                 (mkTok ENVELOPE_END (TVText [69; 78; 68]) (ls_line st) (ls_col st) None :: ls_toks st)
                 (ls_reps st) (ls_brk st) (ls_spans st)).
Proof.
  intros Hin Hnf. cbn [s_end_env app] in Hin. rewrite (step_plain_of _ _ _ _ Hin Hnf). unfold step_plain. cbv zeta.
  destruct (N.eqb (ls_pos st) 0); cbn; reflexivity.
Qed.
End Run.

Section Steps2.
Variable cls : N -> N.

(* ===NAME=== *)
Lemma prefix_end_name name r :
  forallb env_id_char name = true -> str_eqb name (lit "END") = false ->
  prefixb s_end_env (s_eq3 ++ name ++ s_eq3 ++ r) = false.
Proof.
  intros Hc Hne. change (lit "END") with [69;78;68] in Hne.
  change (prefixb s_end_env (s_eq3 ++ name ++ s_eq3 ++ r)) with (prefixb [69;78;68;61;61;61] (name ++ 61 :: 61 :: 61 :: r)).
  destruct name as [|a [|b [|c [|d n]]]]; cbn [str_eqb] in Hne; cbn [prefixb app].
  - reflexivity.
  - change (N.eqb 78 61) with false. rewrite andb_false_r. reflexivity.
  - change (N.eqb 68 61) with false. rewrite !andb_false_r. reflexivity.
  - change (N.eqb 61 61) with true. cbn [andb]. rewrite (N.eqb_sym 69 a), (N.eqb_sym 78 b), (N.eqb_sym 68 c). exact Hne.
  - cbn [forallb] in Hc. repeat (apply andb_prop in Hc; destruct Hc as [? Hc]).
    destruct (N.eqb_spec 61 d) as [<-|]; [discriminate|]. rewrite !andb_false_r. reflexivity.
Qed.

Lemma scan_envelope_start_name name r :
  name_ok name = true ->
  scan_envelope_start (s_eq3 ++ name ++ s_eq3 ++ r) = Some (name, r).
Proof.
  intros H. destruct (name_ok_inv _ H) as (c & n & -> & Hc & Hn & _).
  unfold scan_envelope_start. cbn [s_eq3 app prefixb N.eqb Pos.eqb andb skipn].
  assert (Hs : env_id_start c = true) by (unfold env_id_start, is_alpha; rewrite Hc; reflexivity).
  rewrite Hs.
  destruct (takeb_dropb_app env_id_char n (61 :: 61 :: 61 :: r) Hn eq_refl) as [T D].
  rewrite T, D. reflexivity.
Qed.

Lemma step_envelope_start st name r :
  ls_in st = s_eq3 ++ name ++ s_eq3 ++ r -> name_ok name = true -> no_fence_here st ->
  step cls false st =
  Continue (mkLS r (Some c_eq) (ls_pos st + len (s_eq3 ++ name ++ s_eq3)) (ls_line st) (ls_col st + len (s_eq3 ++ name ++ s_eq3))
                 (mkTok ENVELOPE_START (TVText name) (ls_line st) (ls_col st) None :: ls_toks st)
                 (ls_reps st) (ls_brk st) (ls_spans st)).
Proof.
  intros Hin Hok Hnf.
  pose proof (prefix_end_name name r (name_chars _ Hok)) as Hend.
  destruct (name_ok_inv _ Hok) as (c0 & n0 & En & Hc0 & Hn0 & Hne). specialize (Hend Hne).
  pose proof (scan_envelope_start_name name r Hok) as Hscan.
  assert (Hin' : ls_in st = c_eq :: (c_eq :: c_eq :: name ++ s_eq3 ++ r)) by exact Hin.
  rewrite (step_plain_of _ _ _ _ _ Hin' Hnf). unfold step_plain. cbv zeta.
  change (c_eq :: c_eq :: c_eq :: name ++ s_eq3 ++ r) with (s_eq3 ++ name ++ s_eq3 ++ r).
  rewrite Hend, Hscan.
  assert (Hsv : scan_version cls (s_eq3 ++ name ++ s_eq3 ++ r) = None) by reflexivity.
  assert (Hss : scan_sentinel cls (s_eq3 ++ name ++ s_eq3 ++ r) = None) by reflexivity.
  rewrite Hsv, Hss.
  replace (if N.eqb (ls_pos st) 0 then @None (str * str * str) else None) with (@None (str * str * str)) by (destruct (N.eqb (ls_pos st) 0); reflexivity).
  change (N.eqb c_eq c_sp) with false. cbv iota.
  rewrite emit_pat_plain; try reflexivity.
  - f_equal. f_equal. unfold last_chr. rewrite !rev_app_distr. reflexivity.
  - rewrite !memb_app. rewrite (memb_forallb_false env_id_char c_nl name eq_refl (name_chars _ Hok)). reflexivity.
Qed.

(* KEY *)
Lemma key_char_id_char x : key_char x = true -> id_char cls x = true /\ N.eqb x c_dash = false.
Proof.
  unfold key_char, id_char. intros H. apply orb_prop in H. destruct H as [H|H].
  - assert (Ha : is_ascii x = true).
    { unfold is_alnum, is_alpha, is_upper, is_lower, is_digit in H. unfold is_ascii. apply N.ltb_lt.
      repeat (apply orb_prop in H; destruct H as [H|H]); apply andb_prop in H; destruct H as [_ H]; apply N.leb_le in H; lia. }
    rewrite Ha, H. split; [reflexivity|].
    destruct (N.eqb_spec x c_dash) as [->|]; [discriminate|reflexivity].
  - apply N.eqb_eq in H. subst x. split; reflexivity.
Qed.

Lemma strip_trailing_dash_id l : match l with [] => true | x :: _ => negb (N.eqb x c_dash) end = true -> strip_trailing_dash l = l.
Proof. destruct l as [|x l]; [reflexivity|]. cbn [strip_trailing_dash]. intros H. apply negb_true_iff in H. rewrite H. reflexivity. Qed.

Lemma scan_identifier_key c kr r :
  is_upper c = true -> forallb key_char kr = true ->
  scan_identifier cls false (c :: kr ++ c_colon :: r) = Some (c :: kr, c_colon :: r, None).
Proof.
  intros Hc Hk.
  destruct (upper_range _ Hc) as [R1 R2].
  assert (Ha : is_ascii c = true) by (unfold is_ascii; apply N.ltb_lt; lia).
  assert (Hal : is_alpha c = true) by (unfold is_alpha; rewrite Hc; reflexivity).
  assert (Hid : forallb (id_char cls) kr = true).
  { apply forallb_forall. intros x Hx. rewrite forallb_forall in Hk. apply (key_char_id_char x (Hk x Hx)). }
  destruct (takeb_dropb_app (id_char cls) kr (c_colon :: r) Hid eq_refl) as [T _].
  unfold scan_identifier, id_start. rewrite Ha, Hal. cbn [orb].
  unfold scan_ident_core. rewrite T.
  assert (Hst : strip_trailing_dash (rev kr) = rev kr).
  { apply strip_trailing_dash_id. destruct (rev kr) as [|x l] eqn:E; [reflexivity|].
    assert (Hx : In x kr) by (apply in_rev; rewrite E; left; reflexivity).
    rewrite forallb_forall in Hk. destruct (key_char_id_char x (Hk x Hx)) as [_ Hd]. rewrite Hd. reflexivity. }
  rewrite Hst, rev_involutive, skipn_exact. reflexivity.
Qed.

Definition key_reps (key : str) (line col : N) : list repair :=
  rev ((match wrong_case_of key with Some w => [mkRep 1 key w line col] | None => [] end) ++
       (if vs_embedded key then [mkRep 2 key [] line col] else [])).

Lemma step_plain_upper st c s' :
  is_upper c = true -> N.eqb (ls_pos st) 0 = false ->
  step_plain cls false st c s' = step_fallback cls false st c s'.
Proof.
  intros Hc Hpos. unfold step_plain. cbv zeta. rewrite Hpos.
  pose proof (upper_cases c Hc) as Hin.
  repeat (destruct Hin as [<-|Hin]; [reflexivity|]). destruct Hin.
Qed.

Lemma step_key st key r :
  ls_in st = key ++ c_colon :: r -> key_ok key = true -> ls_pos st <> 0 -> no_fence_here st ->
  step cls false st =
  Continue (mkLS (c_colon :: r) (last_chr key) (ls_pos st + len key) (ls_line st) (ls_col st + len key)
                 (mkTok IDENTIFIER (TVText key) (ls_line st) (ls_col st) None :: ls_toks st)
                 (key_reps key (ls_line st) (ls_col st) ++ ls_reps st) (ls_brk st) (ls_spans st)).
Proof.
  intros Hin Hok Hpos Hnf. destruct (key_ok_inv _ Hok) as (c & kr & -> & Hc & Hk & _).
  cbn [app] in Hin. apply N.eqb_neq in Hpos.
  rewrite (step_plain_of _ _ _ _ _ Hin Hnf), (step_plain_upper _ _ _ Hc Hpos).
  destruct (upper_range _ Hc) as [R1 R2].
  unfold step_fallback.
  assert (E1 : prefixb s_eq3 (c :: kr ++ c_colon :: r) = false).
  { cbn [s_eq3 prefixb]. destruct (N.eqb_spec 61 c) as [<-|]; [lia|reflexivity]. }
  assert (E2 : N.eqb c c_plus = false) by (apply N.eqb_neq; unfold c_plus; lia).
  rewrite E1, E2. cbn [andb]. rewrite (scan_identifier_key _ _ _ Hc Hk). reflexivity.
Qed.
End Steps2.
