(* C05 -- literal zones pass through every pipeline stage byte-for-byte.

   Theorems about the faithful models, each for ALL inputs:
     1. fence_scan_verbatim   (Lex.Lexer.fence_scan, for EVERY NFC oracle: the oracle is the second component of
                               each line pair, and it is universally quantified)
     2. tab_exempt            (Lex.Lexer.tab_check)
     3. step_fence_content    (Lex.Lexer.step_fence)
     4. parse_zone_tokens     (Syn.Parser.parse_literal_zone)
     5. emit_zone_lines_verbatim (Syn.Emitter.emit_assignment_lines / emit_node_lines)
   The composition (6) is in Rt/ZonesRt.v, the non-vacuity examples (7) in Rt/ZonesEx.v. *)
From OV Require Import Base.Strs Lex.Lexer Syn.Ast Syn.Parser Syn.Emitter.
From Coq Require Import Lia.
Open Scope N_scope.

(* ---- generic list / string facts -------------------------------------------------------------------- *)
Lemma len_app a b : len (a ++ b) = len a + len b.
Proof. unfold len. rewrite app_length, Nat2N.inj_add. reflexivity. Qed.
Lemma len_cons c a : len (c :: a) = len a + 1.
Proof. unfold len. cbn [length]. lia. Qed.
Lemma len_nil : len [] = 0.
Proof. reflexivity. Qed.
Lemma len_to_nat a : N.to_nat (len a) = length a.
Proof. unfold len. apply Nat2N.id. Qed.

(* every line newline-terminated *)
Definition nlcat (ls : list str) : str := flat_map (fun l => l ++ [c_nl]) ls.

Lemma nlcat_app a b : nlcat (a ++ b) = nlcat a ++ nlcat b.
Proof. unfold nlcat. apply flat_map_app. Qed.
Lemma nlcat_cons x l : nlcat (x :: l) = x ++ c_nl :: nlcat l.
Proof. unfold nlcat. cbn [flat_map]. rewrite <- app_assoc. reflexivity. Qed.
Lemma len_nlcat_snoc l x : len (nlcat (l ++ [x])) = len (nlcat l) + len x + 1.
Proof. rewrite nlcat_app, len_app, nlcat_cons, len_app, len_cons. cbn [nlcat flat_map]. rewrite len_nil. lia. Qed.

Lemma join_cons2 sep x y l : join sep (x :: y :: l) = x ++ sep ++ join sep (y :: l).
Proof. reflexivity. Qed.

Lemma join_nlcat pre post : post <> [] -> join [c_nl] (pre ++ post) = nlcat pre ++ join [c_nl] post.
Proof.
  intros Hp. induction pre as [|x pre IH]; [reflexivity|].
  rewrite nlcat_cons. cbn [app].
  destruct (pre ++ post) as [|y r] eqn:E.
  - destruct pre; [cbn in E; congruence|discriminate].
  - rewrite join_cons2, IH, <- app_assoc. reflexivity.
Qed.

Lemma join_snoc l x : join [c_nl] (l ++ [x]) = nlcat l ++ x.
Proof. rewrite join_nlcat by discriminate. reflexivity. Qed.

Lemma join_app2 a b : a <> [] -> b <> [] -> join [c_nl] (a ++ b) = join [c_nl] a ++ c_nl :: join [c_nl] b.
Proof.
  intros Ha Hb. induction a as [|x a IH]; [congruence|].
  destruct a as [|y a'].
  - cbn [app]. destruct b as [|z b']; [congruence|]. reflexivity.
  - change ((x :: y :: a') ++ b) with (x :: (y :: a') ++ b).
    cbn [app]. rewrite !join_cons2. change ((y :: a') ++ b) with (y :: a' ++ b) in IH.
    rewrite IH by discriminate. rewrite <- !app_assoc. reflexivity.
Qed.

Lemma skipn_exact {A} (a b : list A) : skipn (length a) (a ++ b) = b.
Proof. induction a; [reflexivity|exact IHa]. Qed.
Lemma firstn_exact {A} (a b : list A) : firstn (length a) (a ++ b) = a.
Proof. induction a; cbn; [reflexivity|]. f_equal. exact IHa. Qed.

(* split_on distributes over a separator, and join inverts it *)
Lemma split_on_sep c a b : split_on c (a ++ c :: b) = split_on c a ++ split_on c b.
Proof.
  induction a as [|x a IH]; cbn [app split_on].
  - rewrite N.eqb_refl. reflexivity.
  - destruct (N.eqb x c); [rewrite IH; reflexivity|].
    rewrite IH. pose proof (split_on_nonempty c a) as Hne.
    destruct (split_on c a) as [|h t]; [congruence|reflexivity].
Qed.

Lemma join_split c s : join [c] (split_on c s) = s.
Proof.
  induction s as [|x s IH]; [reflexivity|]. cbn [split_on].
  pose proof (split_on_nonempty c s) as Hne.
  destruct (N.eqb x c) eqn:E.
  - apply N.eqb_eq in E. subst x. destruct (split_on c s) as [|h t]; [congruence|].
    rewrite join_cons2. rewrite IH. reflexivity.
  - destruct (split_on c s) as [|h t]; [congruence|].
    destruct t as [|h2 t2].
    + cbn [join] in *. congruence.
    + rewrite join_cons2 in *. cbn [app] in *. congruence.
Qed.

Lemma split_on_lines_nl_free c s : forallb (fun l => negb (memb c l)) (split_on c s) = true.
Proof.
  induction s as [|x s IH]; [reflexivity|]. cbn [split_on].
  pose proof (split_on_nonempty c s) as Hne.
  destruct (N.eqb x c) eqn:E; [cbn; exact IH|].
  destruct (split_on c s) as [|h t]; [congruence|].
  cbn [forallb] in *. apply andb_true_iff in IH as [H1 H2]. rewrite H2, andb_true_r.
  cbn [memb existsb]. rewrite N.eqb_sym, E. exact H1.
Qed.

Lemma removelast_snoc {A} (l : list A) x : removelast (l ++ [x]) = l.
Proof. apply removelast_last. Qed.
Lemma last_snoc {A} (l : list A) x d : last (l ++ [x]) d = x.
Proof. apply last_last. Qed.

(* ================================================================================================= *)
(* 1. fence_scan: zone lines are the RAW lines, for every NFC oracle                                   *)
(* ================================================================================================= *)
Section Scan.
Variable cls : N -> N.

(* the closing rule of _normalize_with_fence_detection on a fence-shaped line (bt, tr) inside marker *)
Definition closes (bt tr marker : str) : bool :=
  (length bt =? length marker)%nat && (match strip cls tr with [] => true | _ => false end).
Definition tag_of (tr : str) : option str :=
  match strip cls tr with [] => None | _ => Some (strip cls tr) end.

(* a literal zone as read directly off the input lines:
     z_idx    index of the opening fence line,
     z_open   NFC component of the opening line,  z_close  NFC component of the closing line,
     z_raws   the RAW components of the lines strictly between them *)
Record zone := mkZone { z_idx : nat; z_marker : str; z_tag : option str; z_open : str; z_raws : list str; z_close : str }.

(* cur = the zone being read: (open index, marker, tag, nfc of the open line, raw lines so far REVERSED) *)
Fixpoint zones_from (ls : list (str * str)) (idx : nat) (cur : option (nat * str * option str * str * list str)) : list zone :=
  match ls with
  | [] => []
  | (raw, nfc) :: ls' =>
      match fence_match raw, cur with
      | Some (bt, tr), None => zones_from ls' (S idx) (Some (idx, bt, tag_of tr, nfc, []))
      | Some (bt, tr), Some (i, m, t, o, rr) =>
          if closes bt tr m then mkZone i m t o (rev rr) nfc :: zones_from ls' (S idx) None
          else if (length m <=? length bt)%nat then []                       (* E007: no result at all *)
          else zones_from ls' (S idx) (Some (i, m, t, o, raw :: rr))
      | None, Some (i, m, t, o, rr) => zones_from ls' (S idx) (Some (i, m, t, o, raw :: rr))
      | None, None => zones_from ls' (S idx) None
      end
  end.
Definition zones_of_lines (ls : list (str * str)) : list zone := zones_from ls 0 None.

(* the expected output lines: RAW strictly inside a zone, NFC on fence lines and outside *)
Fixpoint scan_lines (ls : list (str * str)) (inf : option str) : list str :=
  match ls with
  | [] => []
  | (raw, nfc) :: ls' =>
      match fence_match raw, inf with
      | Some (bt, _), None => nfc :: scan_lines ls' (Some bt)                (* opening fence line: NFC *)
      | Some (bt, tr), Some m =>
          if closes bt tr m then nfc :: scan_lines ls' None                  (* closing fence line: NFC *)
          else raw :: scan_lines ls' (Some m)                                (* shorter run: content, RAW *)
      | None, Some m => raw :: scan_lines ls' (Some m)                       (* zone content: RAW *)
      | None, None => nfc :: scan_lines ls' None                             (* outside: NFC *)
      end
  end.

Definition span_text (content : str) (sp : span) : str :=
  firstn (N.to_nat (sp_end sp - sp_start sp)) (skipn (N.to_nat (sp_start sp)) content).

(* what a recorded span says about the zone it was made from, relative to the output lines *)
Definition span_ok (outs : list str) (sp : span) (z : zone) : Prop :=
  sp_marker sp = z_marker z /\ sp_tag sp = z_tag z /\
  sp_start sp = len (nlcat (firstn (z_idx z) outs)) /\
  sp_end sp = sp_start sp + len (join [c_nl] (z_open z :: z_raws z ++ [z_close z])) /\
  firstn (2 + length (z_raws z)) (skipn (z_idx z) outs) = z_open z :: z_raws z ++ [z_close z].

Definition cur_rel (inf : option (str * option str * N * N)) (cur : option (nat * str * option str * str * list str))
           (out : list str) : Prop :=
  match inf, cur with
  | None, None => True
  | Some (m, t, _, start), Some (i, m', t', o, rr) =>
      m = m' /\ t = t' /\ exists pre, out = rr ++ o :: pre /\ length pre = i /\ start = len (nlcat (rev pre))
  | _, _ => False
  end.

Definition inf_marker (inf : option (str * option str * N * N)) : option str :=
  match inf with Some (m, _, _, _) => Some m | None => None end.

Lemma fence_scan_gen : forall ls ln off inf out spans cur outs sps,
  fence_scan cls ls ln off inf out spans = inr (outs, sps) ->
  off = len (nlcat (rev out)) -> cur_rel inf cur out ->
  outs = rev out ++ scan_lines ls (inf_marker inf) /\
  exists new, sps = rev spans ++ new /\ Forall2 (span_ok outs) new (zones_from ls (length out) cur).
Proof.
  induction ls as [|[raw nfc] ls IH]; intros ln off inf out spans cur outs sps H Hoff Hrel.
  - cbn [fence_scan] in H. destruct inf as [[[[m t] ol] st]|]; [discriminate|].
    inversion H; subst. cbn [scan_lines zones_from]. rewrite app_nil_r. split; [reflexivity|].
    exists []. rewrite app_nil_r. split; [reflexivity|constructor].
  - cbn [fence_scan] in H. cbn [scan_lines zones_from].
    destruct (fence_match raw) as [[bt tr]|] eqn:Efm; destruct inf as [[[[m t] ol] st]|].
    + (* fence-shaped line inside a zone *)
      destruct cur as [[[[[i m'] t'] o] rr]|]; [|contradiction].
      destruct Hrel as (<- & <- & pre & Hout & Hlen & Hst). cbn [inf_marker].
      fold (closes bt tr m) in H. destruct (closes bt tr m) eqn:Ecl.
      * (* closing line *)
        specialize (IH _ _ None (nfc :: out) (mkSpan st (off + len nfc + 1 - 1) m t :: spans) None outs sps H).
        destruct IH as (Ho & new & Hs & Hf).
        { cbn [rev]. rewrite len_nlcat_snoc. lia. }
        { exact I. }
        cbn [inf_marker] in Ho. cbn [rev] in Ho. rewrite <- app_assoc in Ho. cbn [app] in Ho.
        split; [exact Ho|].
        exists (mkSpan st (off + len nfc + 1 - 1) m t :: new). split.
        { rewrite Hs. cbn [rev]. rewrite <- app_assoc. reflexivity. }
        constructor; [|exact Hf].
        (* the new span against its zone *)
        assert (Houts : outs = rev pre ++ (o :: rev rr ++ [nfc]) ++ scan_lines ls None).
        { rewrite Ho, Hout, rev_app_distr. cbn [rev]. rewrite <- !app_assoc. cbn [app]. rewrite <- app_assoc. reflexivity. }
        assert (Hrl : length (rev pre) = i) by (rewrite rev_length; exact Hlen).
        unfold span_ok. cbn [sp_marker sp_tag sp_start sp_end z_marker z_tag z_idx z_open z_raws z_close].
        split; [reflexivity|]. split; [reflexivity|].
        split.
        { rewrite Houts, <- Hrl, firstn_exact. exact Hst. }
        split.
        { rewrite app_comm_cons, join_snoc, len_app.
          rewrite Hoff, Hout, rev_app_distr. cbn [rev]. rewrite <- app_assoc. cbn [app].
          rewrite nlcat_app, len_app, <- Hst. lia. }
        { rewrite Houts, <- Hrl, skipn_exact.
          replace (2 + length (rev rr))%nat with (length (o :: rev rr ++ [nfc])).
          - apply firstn_exact.
          - cbn [length]. rewrite app_length. cbn [length]. lia. }
      * destruct (length m <=? length bt)%nat; [discriminate|].
        (* shorter backtick run: content *)
        specialize (IH _ _ (Some (m, t, ol, st)) (raw :: out) spans (Some (i, m, t, o, raw :: rr)) outs sps H).
        destruct IH as (Ho & new & Hs & Hf).
        { cbn [rev]. rewrite len_nlcat_snoc. lia. }
        { cbn [cur_rel]. split; [reflexivity|]. split; [reflexivity|]. exists pre. rewrite Hout. auto. }
        cbn [inf_marker rev] in Ho. rewrite <- app_assoc in Ho. cbn [app] in Ho.
        split; [exact Ho|]. exists new. split; [exact Hs|exact Hf].
    + (* opening line *)
      destruct cur as [c|]; [contradiction|]. cbn [inf_marker].
      specialize (IH _ _ (Some (bt, match strip cls tr with [] => None | _ :: _ => Some (strip cls tr) end, ln, off))
                     (nfc :: out) spans (Some (length out, bt, tag_of tr, nfc, [])) outs sps H).
      destruct IH as (Ho & new & Hs & Hf).
      { cbn [rev]. rewrite len_nlcat_snoc. lia. }
      { cbn [cur_rel]. split; [reflexivity|]. split; [reflexivity|]. exists out. auto. }
      cbn [inf_marker rev] in Ho. rewrite <- app_assoc in Ho. cbn [app] in Ho.
      split; [exact Ho|]. exists new. split; [exact Hs|exact Hf].
    + (* content line *)
      destruct cur as [[[[[i m'] t'] o] rr]|]; [|contradiction].
      destruct Hrel as (<- & <- & pre & Hout & Hlen & Hst). cbn [inf_marker].
      specialize (IH _ _ (Some (m, t, ol, st)) (raw :: out) spans (Some (i, m, t, o, raw :: rr)) outs sps H).
      destruct IH as (Ho & new & Hs & Hf).
      { cbn [rev]. rewrite len_nlcat_snoc. lia. }
      { cbn [cur_rel]. split; [reflexivity|]. split; [reflexivity|]. exists pre. rewrite Hout. auto. }
      cbn [inf_marker rev] in Ho. rewrite <- app_assoc in Ho. cbn [app] in Ho.
      split; [exact Ho|]. exists new. split; [exact Hs|exact Hf].
    + (* outside *)
      destruct cur as [c|]; [contradiction|]. cbn [inf_marker].
      specialize (IH _ _ None (nfc :: out) spans None outs sps H).
      destruct IH as (Ho & new & Hs & Hf).
      { cbn [rev]. rewrite len_nlcat_snoc. lia. }
      { exact I. }
      cbn [inf_marker rev] in Ho. rewrite <- app_assoc in Ho. cbn [app] in Ho.
      split; [exact Ho|]. exists new. split; [exact Hs|exact Hf].
Qed.

(* line-index form: output lines, and every span against the zone read off the raw lines *)
Theorem fence_scan_lines (lines : list (str * str)) outs spans :
  fence_scan cls lines 1 0 None [] [] = inr (outs, spans) ->
  outs = scan_lines lines None /\ Forall2 (span_ok outs) spans (zones_of_lines lines).
Proof.
  intros H. destruct (fence_scan_gen _ _ _ _ _ _ None _ _ H eq_refl I) as (Ho & new & Hs & Hf).
  cbn in Ho, Hs. subst spans. split; [exact Ho|exact Hf].
Qed.

(* from line indices to character offsets *)
Lemma span_ok_text outs sp z :
  span_ok outs sp z -> span_text (join [c_nl] outs) sp = join [c_nl] (z_open z :: z_raws z ++ [z_close z]).
Proof.
  intros (_ & _ & Hs & He & Hf). unfold span_text. rewrite He, Hs.
  set (Z := z_open z :: z_raws z ++ [z_close z]) in *.
  replace (len (nlcat (firstn (z_idx z) outs)) + len (join [c_nl] Z) - len (nlcat (firstn (z_idx z) outs)))
    with (len (join [c_nl] Z)) by lia.
  rewrite !len_to_nat.
  assert (HZ : Z <> []) by (subst Z; discriminate).
  assert (Hsk : skipn (z_idx z) outs = Z ++ skipn (2 + length (z_raws z)) (skipn (z_idx z) outs)).
  { rewrite <- Hf. symmetry. apply firstn_skipn. }
  set (R := skipn (2 + length (z_raws z)) (skipn (z_idx z) outs)) in *.
  rewrite <- (firstn_skipn (z_idx z) outs) at 2. rewrite Hsk.
  rewrite join_nlcat by (destruct Z; [congruence|discriminate]).
  rewrite skipn_exact.
  destruct R as [|r0 R'].
  - rewrite app_nil_r. rewrite <- (app_nil_r (join [c_nl] Z)) at 2. apply firstn_exact.
  - rewrite join_app2 by (congruence || discriminate). apply firstn_exact.
Qed.

(* HEADLINE (1): for every list of (raw, nfc) pairs -- that is, for every NFC oracle -- the output lines are
   RAW strictly inside zones and NFC elsewhere, and the text indexed by each recorded span in the joined
   content is: nfc(open line), the RAW zone lines, nfc(close line). *)
Theorem fence_scan_verbatim (lines : list (str * str)) outs spans :
  fence_scan cls lines 1 0 None [] [] = inr (outs, spans) ->
  outs = scan_lines lines None /\
  map (fun sp => (sp_marker sp, sp_tag sp, span_text (join [c_nl] outs) sp)) spans =
  map (fun z => (z_marker z, z_tag z, join [c_nl] (z_open z :: z_raws z ++ [z_close z]))) (zones_of_lines lines).
Proof.
  intros H. destruct (fence_scan_lines _ _ _ H) as [Ho Hf]. split; [exact Ho|].
  clear H Ho. induction Hf as [|sp z sps zs Hz _ IH]; [reflexivity|].
  cbn [map]. rewrite IH, (span_ok_text _ _ _ Hz). destruct Hz as (-> & -> & _). reflexivity.
Qed.

(* the zones of zones_of_lines really are slices of the input: raw components between two fence lines *)
Definition cur_lines (all : list (str * str)) (idx : nat) (cur : option (nat * str * option str * str * list str)) : Prop :=
  match cur with
  | None => True
  | Some (i, m, t, o, rr) =>
      exists ro mids, firstn (idx - i) (skipn i all) = (ro, o) :: mids /\ map fst mids = rev rr /\ (i < idx)%nat
  end.

Lemma firstn_snoc_nth {A} (l : list A) n x rest : skipn n l = x :: rest -> firstn (S n) l = firstn n l ++ [x].
Proof.
  revert n; induction l as [|a l IH]; intros [|n] H; cbn in H; try discriminate.
  - inversion H; reflexivity.
  - change (a :: firstn (S n) l = a :: (firstn n l ++ [x])). f_equal. exact (IH n H).
Qed.

Lemma skipn_skipn' {A} (x y : nat) (l : list A) : skipn x (skipn y l) = skipn (x + y) l.
Proof.
  revert l; induction y as [|y IH]; intros l.
  - rewrite Nat.add_0_r. reflexivity.
  - destruct l as [|a l]; [rewrite !skipn_nil; reflexivity|].
    rewrite Nat.add_succ_r. cbn [skipn]. apply IH.
Qed.

Lemma zones_from_slices all : forall ls idx cur,
  skipn idx all = ls -> cur_lines all idx cur ->
  forall z, In z (zones_from ls idx cur) ->
    exists ro rc mids, firstn (2 + length (z_raws z)) (skipn (z_idx z) all) = (ro, z_open z) :: mids ++ [(rc, z_close z)] /\
                       map fst mids = z_raws z.
Proof.
  induction ls as [|[raw nfc] ls IH]; intros idx cur Hsk Hcur z Hin; [destruct Hin|].
  assert (Hsk' : skipn (S idx) all = ls).
  { clear -Hsk. revert all Hsk. induction idx as [|n IHn]; intros [|a all] H; cbn in *; try discriminate.
    - inversion H; reflexivity.
    - apply IHn. exact H. }
  (* extending the current zone by one raw line *)
  assert (Hext : forall i m t o rr, cur = Some (i, m, t, o, rr) -> cur_lines all (S idx) (Some (i, m, t, o, raw :: rr))).
  { intros i m t o rr ->. destruct Hcur as (ro & mids & Hf & Hm & Hlt).
    exists ro, (mids ++ [(raw, nfc)]). split; [|split; [|lia]].
    - replace (S idx - i)%nat with (S (idx - i)) by lia.
      rewrite (firstn_snoc_nth _ _ (raw, nfc) ls).
      + rewrite Hf. reflexivity.
      + rewrite skipn_skipn'. replace (idx - i + i)%nat with idx by lia. exact Hsk.
    - rewrite map_app, Hm. reflexivity. }
  cbn [zones_from] in Hin.
  destruct (fence_match raw) as [[bt tr]|]; destruct cur as [[[[[i m] t] o] rr]|].
  - destruct (closes bt tr m).
    + destruct Hin as [<-|Hin]; [|exact (IH (S idx) None Hsk' I z Hin)].
      cbn [z_raws z_idx z_open z_close]. destruct Hcur as (ro & mids & Hf & Hm & Hlt).
      exists ro, raw, mids. split; [|exact Hm].
      assert (Hl : length mids = length (rev rr)) by (rewrite <- Hm, map_length; reflexivity).
      assert (Hlen : (idx - i = S (length (rev rr)))%nat).
      { apply (f_equal (@length _)) in Hf. cbn [length] in Hf. rewrite <- Hl, <- Hf.
        rewrite firstn_length, skipn_length. apply (f_equal (@length _)) in Hsk. rewrite skipn_length in Hsk. cbn [length] in Hsk. lia. }
      replace (2 + length (rev rr))%nat with (S (idx - i)) by lia.
      rewrite (firstn_snoc_nth _ _ (raw, nfc) ls).
      * rewrite Hf. reflexivity.
      * rewrite skipn_skipn'. replace (idx - i + i)%nat with idx by lia. exact Hsk.
    + destruct (length m <=? length bt)%nat; [destruct Hin|].
      exact (IH (S idx) _ Hsk' (Hext _ _ _ _ _ eq_refl) z Hin).
  - apply (IH (S idx) _ Hsk') in Hin; [exact Hin|].
    exists raw, []. split; [|split; [reflexivity|lia]].
    replace (S idx - idx)%nat with 1%nat by lia. rewrite Hsk. reflexivity.
  - exact (IH (S idx) _ Hsk' (Hext _ _ _ _ _ eq_refl) z Hin).
  - exact (IH (S idx) None Hsk' I z Hin).
Qed.

Theorem zones_of_lines_are_raw lines z :
  In z (zones_of_lines lines) ->
  exists ro rc mids, firstn (2 + length (z_raws z)) (skipn (z_idx z) lines) = (ro, z_open z) :: mids ++ [(rc, z_close z)] /\
                     map fst mids = z_raws z.
Proof. apply (zones_from_slices lines lines 0%nat None eq_refl I). Qed.

(* ORACLE INDEPENDENCE: two inputs with the same raw lines -- whatever their NFC components are -- have the same
   zones with the same raw content: the zone content is a function of the raw text alone *)
Definition zview (z : zone) : nat * str * option str * list str := (z_idx z, z_marker z, z_tag z, z_raws z).
Definition cview (c : option (nat * str * option str * str * list str)) : option (nat * str * option str * list str) :=
  match c with Some (i, m, t, _, rr) => Some (i, m, t, rr) | None => None end.

Lemma zones_from_oracle_independent : forall ls1 ls2 idx c1 c2,
  map fst ls1 = map fst ls2 -> cview c1 = cview c2 ->
  map zview (zones_from ls1 idx c1) = map zview (zones_from ls2 idx c2).
Proof.
  induction ls1 as [|[raw nfc1] ls1 IH]; intros [|[raw2 nfc2] ls2] idx c1 c2 Hm Hc; try discriminate Hm; [reflexivity|].
  cbn [map fst] in Hm. injection Hm as <- Hm.
  cbn [zones_from].
  destruct c1 as [[[[[i1 m1] t1] o1] rr1]|]; destruct c2 as [[[[[i2 m2] t2] o2] rr2]|]; try discriminate Hc.
  - cbn [cview] in Hc. injection Hc as <- <- <- <-.
    destruct (fence_match raw) as [[bt tr]|].
    + destruct (closes bt tr m1).
      * cbn [map]. f_equal. apply IH; [exact Hm|reflexivity].
      * destruct (length m1 <=? length bt)%nat; [reflexivity|]. apply IH; [exact Hm|reflexivity].
    + apply IH; [exact Hm|reflexivity].
  - destruct (fence_match raw) as [[bt tr]|]; apply IH; try exact Hm; reflexivity.
Qed.

Theorem zones_oracle_independent lines1 lines2 :
  map fst lines1 = map fst lines2 ->
  map zview (zones_of_lines lines1) = map zview (zones_of_lines lines2).
Proof. intros H. apply zones_from_oracle_independent; [exact H|reflexivity]. Qed.

End Scan.

(* ================================================================================================= *)
(* 2. tab_check: tabs inside fence spans are never reported; the first tab outside is                   *)
(* ================================================================================================= *)
(* the (line, col) reached after reading the prefix p from (line, col) *)
Fixpoint pos_after (p : str) (line col : N) : N * N :=
  match p with
  | [] => (line, col)
  | c :: p' => if N.eqb c c_nl then pos_after p' (line + 1) 1 else pos_after p' line (col + 1)
  end.

Theorem tab_check_some s : forall i line col spans l c,
  tab_check s i line col spans = Some (l, c) ->
  exists p r, s = p ++ c_tab :: r /\
              in_spans (i + len p) spans = false /\
              (forall k, (k < length p)%nat -> nth k p 0 = c_tab -> in_spans (i + N.of_nat k) spans = true) /\
              (l, c) = pos_after p line col.
Proof.
  induction s as [|c0 s IH]; intros i line col spans l c H; [discriminate|].
  cbn [tab_check] in H.
  destruct (N.eqb c0 c_tab && negb (in_spans i spans)) eqn:E.
  - apply andb_prop in E. destruct E as [E1 E2]. apply N.eqb_eq in E1. subst c0.
    apply negb_true_iff in E2. inversion H; subst.
    exists [], s. split; [reflexivity|]. split; [rewrite len_nil, N.add_0_r; exact E2|].
    split; [intros k Hk; cbn in Hk; lia|reflexivity].
  - assert (Hrec : exists line' col', tab_check s (i + 1) line' col' spans = Some (l, c) /\
                                      pos_after [c0] line col = (line', col')).
    { cbn [pos_after]. destruct (N.eqb c0 c_nl); eexists; eexists; split; try exact H; reflexivity. }
    destruct Hrec as (line' & col' & Hr & Hp).
    destruct (IH _ _ _ _ _ _ Hr) as (p & r & -> & Hout & Hin & Hpos).
    exists (c0 :: p), r. split; [reflexivity|].
    split; [rewrite len_cons; replace (i + (len p + 1)) with (i + 1 + len p) by lia; exact Hout|].
    split.
    + intros [|k] Hk Hn.
      * cbn [nth] in Hn. subst c0. rewrite N.eqb_refl in E. cbn [andb] in E.
        apply negb_false_iff in E. rewrite N.add_0_r. exact E.
      * cbn [nth] in Hn. cbn [length] in Hk.
        replace (i + N.of_nat (S k)) with (i + 1 + N.of_nat k) by lia. apply Hin; [lia|exact Hn].
    + rewrite Hpos. cbn [pos_after] in *. destruct (N.eqb c0 c_nl); inversion Hp; reflexivity.
Qed.

Theorem tab_check_none s : forall i line col spans,
  tab_check s i line col spans = None <->
  (forall k, (k < length s)%nat -> nth k s 0 = c_tab -> in_spans (i + N.of_nat k) spans = true).
Proof.
  induction s as [|c0 s IH]; intros i line col spans.
  - split; [intros _ k Hk; cbn in Hk; lia|reflexivity].
  - cbn [tab_check]. destruct (N.eqb c0 c_tab && negb (in_spans i spans)) eqn:E.
    + split; [discriminate|]. intros Hall. exfalso.
      apply andb_prop in E. destruct E as [E1 E2]. apply N.eqb_eq in E1. apply negb_true_iff in E2.
      specialize (Hall 0%nat). cbn [length nth] in Hall. rewrite N.add_0_r in Hall. rewrite Hall in E2; [discriminate|lia|exact E1].
    + assert (Hrec : forall line' col', tab_check s (i + 1) line' col' spans = None <->
                      (forall k, (k < length (c0 :: s))%nat -> nth k (c0 :: s) 0 = c_tab -> in_spans (i + N.of_nat k) spans = true)).
      { intros line' col'. rewrite IH. split.
        - intros Hall [|k] Hk Hn.
          + cbn [nth] in Hn. subst c0. rewrite N.eqb_refl in E. cbn [andb] in E.
            apply negb_false_iff in E. rewrite N.add_0_r. exact E.
          + cbn [nth] in Hn. cbn [length] in Hk.
            replace (i + N.of_nat (S k)) with (i + 1 + N.of_nat k) by lia. apply Hall; [lia|exact Hn].
        - intros Hall k Hk Hn. replace (i + 1 + N.of_nat k) with (i + N.of_nat (S k)) by lia.
          apply Hall; [cbn [length]; lia|exact Hn]. }
      destruct (N.eqb c0 c_nl); apply Hrec.
Qed.

(* HEADLINE (2) *)
Theorem tab_exempt s spans :
  (* no error  <->  every tab lies inside a fence span *)
  (tab_check s 0 1 1 spans = None <->
   forall k, (k < length s)%nat -> nth k s 0 = c_tab -> in_spans (N.of_nat k) spans = true) /\
  (* an error is the FIRST tab outside every span, never one inside, reported at its line/column *)
  (forall l c, tab_check s 0 1 1 spans = Some (l, c) ->
     exists p r, s = p ++ c_tab :: r /\ in_spans (len p) spans = false /\
                 (forall k, (k < length p)%nat -> nth k p 0 = c_tab -> in_spans (N.of_nat k) spans = true) /\
                 (l, c) = pos_after p 1 1).
Proof.
  split.
  - rewrite tab_check_none. split; intros H k; specialize (H k); rewrite N.add_0_l in *; exact H.
  - intros l c H. destruct (tab_check_some _ _ _ _ _ _ _ H) as (p & r & Hs & Ho & Hi & Hp).
    exists p, r. rewrite N.add_0_l in Ho. split; [exact Hs|]. split; [exact Ho|]. split; [|exact Hp].
    intros k Hk Hn. specialize (Hi k Hk Hn). rewrite N.add_0_l in Hi. exact Hi.
Qed.

(* ================================================================================================= *)
(* 3. step_fence: the LITERAL_CONTENT text is exactly what lies between the fence lines               *)
(* ================================================================================================= *)
Definition mid_count (mid : list str) : N :=
  match mid with [] => 0 | _ => N.of_nat (length (split_on c_nl (join [c_nl] mid))) end.
Definition mid_split (mid : list str) : list str :=
  match mid with [] => [] | _ => split_on c_nl (join [c_nl] mid) end.

Lemma join_mid_split mid : join [c_nl] (mid_split mid) = join [c_nl] mid.
Proof. destruct mid; [reflexivity|]. unfold mid_split. apply join_split. Qed.

Lemma split_zone o mid c :
  memb c_nl o = false -> memb c_nl c = false ->
  split_on c_nl (join [c_nl] (o :: mid ++ [c])) = o :: mid_split mid ++ [c].
Proof.
  intros Ho Hc. destruct mid as [|m ms].
  - cbn [app mid_split]. rewrite join_cons2. cbn [app join]. rewrite split_on_app by exact Ho.
    rewrite (split_on_no_sep _ _ Hc). reflexivity.
  - change (o :: (m :: ms) ++ [c]) with (o :: m :: ms ++ [c]). rewrite join_cons2. cbn [app].
    rewrite split_on_app by exact Ho. f_equal.
    change (m :: ms ++ [c]) with ((m :: ms) ++ [c]).
    rewrite join_app2 by discriminate. cbn [join]. rewrite split_on_sep, (split_on_no_sep _ _ Hc). reflexivity.
Qed.

(* HEADLINE (3).  o / c are the opening / closing fence lines as they stand in the content (no newline in them),
   mid the lines between them.  An EMPTY zone (mid = []) still yields a LITERAL_CONTENT token, with empty text. *)
Theorem step_fence_content st sp spans' o mid c rest :
  memb c_nl o = false -> memb c_nl c = false ->
  ls_in st = join [c_nl] (o :: mid ++ [c]) ++ rest ->
  sp_end sp - sp_start sp = len (join [c_nl] (o :: mid ++ [c])) ->
  let line := ls_line st in
  let close_line := line + 1 + mid_count mid in
  let t1 := mkTok FENCE_OPEN (TVFence (sp_marker sp) (sp_tag sp)) line (ls_col st) None in
  let t2 := mkTok LITERAL_CONTENT (TVText (join [c_nl] mid)) (line + 1) 1 None in
  let t3 := mkTok FENCE_CLOSE (TVText (sp_marker sp)) close_line 1 None in
  step_fence st sp spans' =
  match rest with
  | nl :: rest' =>
      Continue (mkLS rest' (Some nl) (sp_end sp + 1) (close_line + 1) 1
                     (mkTok NEWLINE (TVText [c_nl]) close_line (len c + 1) None :: t3 :: t2 :: t1 :: ls_toks st)
                     (ls_reps st) (ls_brk st) spans')
  | [] =>
      Continue (mkLS [] (last_chr (join [c_nl] (o :: mid ++ [c]))) (sp_end sp) (close_line + 1) 1
                     (t3 :: t2 :: t1 :: ls_toks st) (ls_reps st) (ls_brk st) spans')
  end.
Proof.
  intros Ho Hc Hin Hsp. cbv zeta. unfold step_fence. cbv zeta.
  rewrite Hin, Hsp, len_to_nat, firstn_exact, skipn_exact.
  rewrite (split_zone _ _ _ Ho Hc). cbn [tl].
  change (last (o :: mid_split mid ++ [c]) []) with (last ((o :: mid_split mid) ++ [c]) []).
  rewrite removelast_snoc, last_snoc, join_mid_split.
  replace (N.of_nat (length (mid_split mid))) with (mid_count mid) by (destruct mid; reflexivity).
  destruct rest; reflexivity.
Qed.

(* the same in terms of the zone CONTENT (any string, newlines included) *)
Corollary step_fence_content_text st sp spans' o content c rest :
  memb c_nl o = false -> memb c_nl c = false ->
  ls_in st = o ++ c_nl :: content ++ c_nl :: c ++ rest ->
  sp_end sp - sp_start sp = len (o ++ c_nl :: content ++ c_nl :: c) ->
  exists st', step_fence st sp spans' = Continue st' /\
    ls_in st' = tl rest /\ ls_spans st' = spans' /\
    exists extra, ls_toks st' = extra ++
      [mkTok FENCE_CLOSE (TVText (sp_marker sp)) (ls_line st + 1 + N.of_nat (length (split_on c_nl content))) 1 None;
       mkTok LITERAL_CONTENT (TVText content) (ls_line st + 1) 1 None;
       mkTok FENCE_OPEN (TVFence (sp_marker sp) (sp_tag sp)) (ls_line st) (ls_col st) None] ++ ls_toks st.
Proof.
  intros Ho Hc Hin Hsp.
  pose proof (step_fence_content st sp spans' o (split_on c_nl content) c rest Ho Hc) as H.
  match type of H with (_ = ?t ++ _) -> _ => assert (Hj : t = o ++ c_nl :: content ++ c_nl :: c) end.
  { pose proof (split_on_nonempty c_nl content) as Hne.
    destruct (split_on c_nl content) as [|h t] eqn:E; [congruence|].
    change (o :: (h :: t) ++ [c]) with (o :: h :: t ++ [c]). rewrite join_cons2. cbn [app]. f_equal. f_equal.
    change (h :: t ++ [c]) with ((h :: t) ++ [c]).
    rewrite join_app2 by discriminate. rewrite <- E, join_split. reflexivity. }
  rewrite Hj in H. rewrite <- app_assoc in H. cbn [app] in H. rewrite <- app_assoc in H. cbn [app] in H.
  specialize (H Hin Hsp). cbv zeta in H. rewrite join_split in H.
  assert (Hmc : mid_count (split_on c_nl content) = N.of_nat (length (split_on c_nl content))).
  { pose proof (split_on_nonempty c_nl content) as Hne. unfold mid_count.
    destruct (split_on c_nl content) as [|h t] eqn:E; [congruence|]. rewrite <- E, join_split. reflexivity. }
  rewrite Hmc in H.
  destruct rest as [|nl rest'].
  - eexists. split; [exact H|]. cbn [ls_in ls_spans ls_toks tl]. split; [reflexivity|]. split; [reflexivity|].
    exists []. reflexivity.
  - eexists. split; [exact H|]. cbn [ls_in ls_spans ls_toks tl]. split; [reflexivity|]. split; [reflexivity|].
    eexists [_]. reflexivity.
Qed.

(* an empty zone: the open line immediately followed by the close line *)
Corollary step_fence_empty_zone st sp spans' o c rest :
  memb c_nl o = false -> memb c_nl c = false ->
  ls_in st = o ++ c_nl :: c ++ rest ->
  sp_end sp - sp_start sp = len (o ++ c_nl :: c) ->
  exists st', step_fence st sp spans' = Continue st' /\ ls_in st' = tl rest /\
    exists extra, ls_toks st' = extra ++
      [mkTok FENCE_CLOSE (TVText (sp_marker sp)) (ls_line st + 1) 1 None;
       mkTok LITERAL_CONTENT (TVText []) (ls_line st + 1) 1 None;
       mkTok FENCE_OPEN (TVFence (sp_marker sp) (sp_tag sp)) (ls_line st) (ls_col st) None] ++ ls_toks st.
Proof.
  intros Ho Hc Hin Hsp.
  pose proof (step_fence_content st sp spans' o [] c rest Ho Hc) as H.
  cbn [app] in H. rewrite join_cons2 in H. cbn [join app] in H. rewrite <- app_assoc in H. cbn [app] in H.
  specialize (H Hin Hsp). cbv zeta in H. cbn [mid_count] in H. rewrite N.add_0_r in H.
  destruct rest as [|nl rest'].
  - eexists. split; [exact H|]. split; [reflexivity|]. exists []. reflexivity.
  - eexists. split; [exact H|]. split; [reflexivity|]. eexists [_]. reflexivity.
Qed.

(* ---- 1 + 3 composed, for ALL inputs: the LITERAL_CONTENT token of every zone is the RAW text of its lines ---- *)
Lemma span_ok_skipn outs sp z :
  span_ok outs sp z ->
  exists rest, skipn (N.to_nat (sp_start sp)) (join [c_nl] outs) = join [c_nl] (z_open z :: z_raws z ++ [z_close z]) ++ rest /\
               sp_end sp - sp_start sp = len (join [c_nl] (z_open z :: z_raws z ++ [z_close z])).
Proof.
  intros (_ & _ & Hs & He & Hf). rewrite He, Hs.
  set (Z := z_open z :: z_raws z ++ [z_close z]) in *.
  assert (HZ : Z <> []) by (subst Z; discriminate).
  assert (Hsk : skipn (z_idx z) outs = Z ++ skipn (2 + length (z_raws z)) (skipn (z_idx z) outs)).
  { rewrite <- Hf. symmetry. apply firstn_skipn. }
  set (R := skipn (2 + length (z_raws z)) (skipn (z_idx z) outs)) in *.
  assert (Hkey : join [c_nl] outs = nlcat (firstn (z_idx z) outs) ++ join [c_nl] (Z ++ R)).
  { rewrite <- (firstn_skipn (z_idx z) outs) at 1. rewrite Hsk.
    apply join_nlcat. destruct Z; [congruence|discriminate]. }
  rewrite Hkey, len_to_nat, skipn_exact.
  destruct R as [|r0 R'].
  - exists []. rewrite !app_nil_r. split; [reflexivity|lia].
  - exists (c_nl :: join [c_nl] (r0 :: R')). rewrite join_app2 by (congruence || discriminate). split; [reflexivity|lia].
Qed.

Theorem lexer_zone_content_raw cls (lines : list (str * str)) outs spans :
  fence_scan cls lines 1 0 None [] [] = inr (outs, spans) ->
  Forall2 (fun sp z =>
    sp_marker sp = z_marker z /\ sp_tag sp = z_tag z /\
    forall st spans',
      ls_in st = skipn (N.to_nat (sp_start sp)) (join [c_nl] outs) ->
      memb c_nl (z_open z) = false -> memb c_nl (z_close z) = false ->
      exists st' extra,
        step_fence st sp spans' = Continue st' /\ ls_spans st' = spans' /\
        ls_toks st' = extra ++
          [mkTok FENCE_CLOSE (TVText (z_marker z)) (ls_line st + 1 + mid_count (z_raws z)) 1 None;
           mkTok LITERAL_CONTENT (TVText (join [c_nl] (z_raws z))) (ls_line st + 1) 1 None;
           mkTok FENCE_OPEN (TVFence (z_marker z) (z_tag z)) (ls_line st) (ls_col st) None] ++ ls_toks st)
    spans (zones_of_lines cls lines).
Proof.
  intros H. destruct (fence_scan_lines cls _ _ _ H) as [_ Hf]. clear H.
  induction Hf as [|sp z sps zs Hz _ IH]; constructor; [|exact IH].
  destruct (span_ok_skipn _ _ _ Hz) as (rest & Hsk & Hlen).
  destruct Hz as (Hm & Ht & _). split; [exact Hm|]. split; [exact Ht|].
  intros st spans' Hin Ho Hc. rewrite Hsk in Hin.
  pose proof (step_fence_content st sp spans' (z_open z) (z_raws z) (z_close z) rest Ho Hc Hin Hlen) as Hstep.
  cbv zeta in Hstep. rewrite Hm, Ht in Hstep.
  destruct rest as [|nl rest'].
  - eexists. exists []. split; [exact Hstep|]. split; reflexivity.
  - eexists. eexists [_]. split; [exact Hstep|]. split; reflexivity.
Qed.

(* ================================================================================================= *)
(* 4. parse_literal_zone: the content token becomes the zone content, unchanged                        *)
(* ================================================================================================= *)
Definition norm_tag (sp : N -> bool) (tag : option str) : option str :=
  match tag with
  | Some t => match strip_sp sp t with [] => None | x => Some x end
  | None => None
  end.

(* HEADLINE (4): FENCE_OPEN(marker, tag) LITERAL_CONTENT(c) FENCE_CLOSE  ->  VZone c tag' marker, three tokens
   consumed (token positions and the FENCE_CLOSE payload are arbitrary). *)
Theorem parse_zone_tokens sp st tO tC tX nxt rest marker tag c :
  ptoks st = tO :: tC :: tX :: nxt :: rest ->
  tk tO = FENCE_OPEN -> tv tO = TVFence marker tag ->
  tk tC = LITERAL_CONTENT -> tv tC = TVText c ->
  tk tX = FENCE_CLOSE ->
  parse_literal_zone sp st = POk (VZone c (norm_tag sp tag) marker) (Parser.adv (Parser.adv (Parser.adv st))) /\
  ptoks (Parser.adv (Parser.adv (Parser.adv st))) = nxt :: rest.
Proof.
  intros Hst HkO HvO HkC HvC HkX.
  unfold parse_literal_zone, cur. rewrite Hst, HkO, HvO.
  assert (H1 : Parser.adv st = mkPS (tC :: tX :: nxt :: rest) (Some tO) (ppos st + 1) (pwarns st) (pbdepth st) (pwarned st)).
  { unfold Parser.adv. rewrite Hst. reflexivity. }
  rewrite H1. unfold is, ck, cur. cbn [ptoks]. rewrite HkC. cbn [tkind_eqb tkind_code N.eqb Pos.eqb].
  unfold text_of. rewrite HvC. unfold Parser.adv at 1 3. cbn [ptoks]. rewrite HkX.
  cbn [tkind_eqb tkind_code N.eqb Pos.eqb]. split; reflexivity.
Qed.

(* no LITERAL_CONTENT token at all: the content is the empty string *)
Theorem parse_zone_tokens_nocontent sp st tO tX nxt rest marker tag :
  ptoks st = tO :: tX :: nxt :: rest ->
  tk tO = FENCE_OPEN -> tv tO = TVFence marker tag -> tk tX = FENCE_CLOSE ->
  parse_literal_zone sp st = POk (VZone [] (norm_tag sp tag) marker) (Parser.adv (Parser.adv st)) /\
  ptoks (Parser.adv (Parser.adv st)) = nxt :: rest.
Proof.
  intros Hst HkO HvO HkX.
  unfold parse_literal_zone, cur. rewrite Hst, HkO, HvO.
  assert (H1 : Parser.adv st = mkPS (tX :: nxt :: rest) (Some tO) (ppos st + 1) (pwarns st) (pbdepth st) (pwarned st)).
  { unfold Parser.adv. rewrite Hst. reflexivity. }
  rewrite H1. unfold is, ck, cur. cbn [ptoks]. rewrite HkX. cbn [tkind_eqb tkind_code N.eqb Pos.eqb].
  cbn [ptoks]. rewrite HkX. cbn [tkind_eqb tkind_code N.eqb Pos.eqb].
  split; reflexivity.
Qed.

(* a LITERAL_CONTENT token with EMPTY text (what the lexer emits for an empty zone): same value *)
Corollary parse_zone_tokens_emptycontent sp st tO tC tX nxt rest marker tag :
  ptoks st = tO :: tC :: tX :: nxt :: rest ->
  tk tO = FENCE_OPEN -> tv tO = TVFence marker tag ->
  tk tC = LITERAL_CONTENT -> tv tC = TVText [] -> tk tX = FENCE_CLOSE ->
  parse_literal_zone sp st = POk (VZone [] (norm_tag sp tag) marker) (Parser.adv (Parser.adv (Parser.adv st))).
Proof. intros. eapply parse_zone_tokens; eassumption. Qed.

(* anything else after FENCE_OPEN [LITERAL_CONTENT] is E006 at the fence token: a zone is never half-read *)
Theorem parse_zone_tokens_unterminated sp st tO marker tag :
  cur st = tO -> tk tO = FENCE_OPEN -> tv tO = TVFence marker tag ->
  (let st1 := Parser.adv st in
   let st2 := if is LITERAL_CONTENT st1 then Parser.adv st1 else st1 in
   is FENCE_CLOSE st2 = false) ->
  parse_literal_zone sp st = PErr e006p (tline tO) (tcol tO).
Proof.
  intros Hc HkO HvO H. cbv zeta in H. unfold parse_literal_zone. rewrite Hc, HkO, HvO.
  destruct (is LITERAL_CONTENT (Parser.adv st)); rewrite H; reflexivity.
Qed.

(* ================================================================================================= *)
(* 5. emitter: the content is ONE unmodified element of the line list, between the two fence lines   *)
(* ================================================================================================= *)
Theorem zone_lines_verbatim n content tag marker :
  zone_lines n content tag marker =
  match content with
  | [] => [ind n ++ marker ++ tag_str tag; ind n ++ marker]
  | _ => [ind n ++ marker ++ tag_str tag; content; ind n ++ marker]
  end.
Proof. destruct content; reflexivity. Qed.

(* HEADLINE (5a): KEY:: zone *)
Theorem emit_zone_lines_verbatim key content tag marker leading trailing n :
  emit_assignment_lines key (VZone content tag marker) leading trailing n =
  emit_leading leading n ++
  (ind n ++ key ++ s_assign) ::
  match content with
  | [] => [ind n ++ marker ++ tag_str tag; ind n ++ marker]
  | _ => [ind n ++ marker ++ tag_str tag; content; ind n ++ marker]
  end.
Proof. unfold emit_assignment_lines. rewrite zone_lines_verbatim. reflexivity. Qed.

Corollary emit_node_zone_lines key content tag marker leading trailing n :
  emit_node_lines (NAssign key (VZone content tag marker) leading trailing) n =
  emit_leading leading n ++
  (ind n ++ key ++ s_assign) ::
  match content with
  | [] => [ind n ++ marker ++ tag_str tag; ind n ++ marker]
  | _ => [ind n ++ marker ++ tag_str tag; content; ind n ++ marker]
  end.
Proof. cbn [emit_node_lines is_absent]. apply emit_zone_lines_verbatim. Qed.

(* HEADLINE (5b): a bare zone child of a block (key = "") *)
Definition child_lines (n : nat) (ch : node) : list str :=
  match ch with
  | NAssign [] (VZone content tag marker) _ _ => zone_lines (S n) content tag marker
  | _ => emit_node_lines ch (S n)
  end.

Theorem emit_bare_zone_lines_verbatim key target pre content tag marker zl zt post leading n :
  emit_node_lines (NBlock key target (pre ++ NAssign [] (VZone content tag marker) zl zt :: post) leading) n =
  (emit_leading leading n ++
   [ind n ++ key ++ (match truthy target with Some t => [c_lbr; 8594; 167] ++ t ++ [c_rbr] | None => [] end) ++ [c_colon]] ++
   flat_map (child_lines n) pre) ++
  match content with
  | [] => [ind (S n) ++ marker ++ tag_str tag; ind (S n) ++ marker]
  | _ => [ind (S n) ++ marker ++ tag_str tag; content; ind (S n) ++ marker]
  end ++ flat_map (child_lines n) post.
Proof.
  cbn [emit_node_lines]. fold (child_lines n). rewrite flat_map_app. cbn [flat_map child_lines].
  rewrite zone_lines_verbatim, <- !app_assoc. reflexivity.
Qed.

(* the joined text: content verbatim, with explicit prefix and suffix *)
Theorem join_zone_verbatim (pre post : list str) (o content c : str) :
  join [c_nl] (pre ++ [o; content; c] ++ post) =
  (nlcat pre ++ o ++ [c_nl]) ++ content ++ (c_nl :: join [c_nl] (c :: post)).
Proof.
  rewrite join_nlcat by discriminate. cbn [app]. rewrite !join_cons2. cbn [app].
  rewrite <- !app_assoc. reflexivity.
Qed.

Corollary emit_zone_text_verbatim key content tag marker leading trailing n (pre post : list str) :
  content <> [] ->
  join [c_nl] (pre ++ emit_assignment_lines key (VZone content tag marker) leading trailing n ++ post) =
  (nlcat (pre ++ emit_leading leading n ++ [ind n ++ key ++ s_assign]) ++ (ind n ++ marker ++ tag_str tag) ++ [c_nl])
  ++ content ++
  (c_nl :: join [c_nl] ((ind n ++ marker) :: post)).
Proof.
  intros Hne. rewrite emit_zone_lines_verbatim. destruct content as [|c0 cr]; [congruence|].
  set (content := c0 :: cr).
  transitivity (join [c_nl] ((pre ++ emit_leading leading n ++ [ind n ++ key ++ s_assign]) ++
                             [ind n ++ marker ++ tag_str tag; content; ind n ++ marker] ++ post)).
  - f_equal. rewrite <- !app_assoc. reflexivity.
  - apply join_zone_verbatim.
Qed.

(* an empty zone: the two fence lines adjacent, nothing between them *)
Corollary emit_zone_text_empty key tag marker leading trailing n (pre post : list str) :
  join [c_nl] (pre ++ emit_assignment_lines key (VZone [] tag marker) leading trailing n ++ post) =
  nlcat (pre ++ emit_leading leading n ++ [ind n ++ key ++ s_assign]) ++ (ind n ++ marker ++ tag_str tag) ++
  c_nl :: join [c_nl] ((ind n ++ marker) :: post).
Proof.
  rewrite emit_zone_lines_verbatim.
  transitivity (join [c_nl] ((pre ++ emit_leading leading n ++ [ind n ++ key ++ s_assign]) ++
                             (ind n ++ marker ++ tag_str tag) :: (ind n ++ marker) :: post)).
  - f_equal. rewrite <- !app_assoc. reflexivity.
  - rewrite join_nlcat by discriminate. rewrite join_cons2. cbn [app]. rewrite <- !app_assoc. reflexivity.
Qed.
