(* Non-vacuity of Rt/LexLink2.v on the five stage examples of Rt/TokRound2Ex.v and on a document that mixes every construct,
   the unrestricted statement, and refutations for the classes lex_safe2_doc excludes. *)
From OV Require Import Base.Strs Lex.Lexer Syn.Ast Syn.Escape Syn.Quote Syn.Emitter Syn.Parser
     Rt.TokRound Rt.TokRoundEx Rt.TokRound2 Rt.TokRound2Ex Rt.LexLinkBase Rt.LexLinkSteps Rt.LexLink Rt.LexLinkEx
     Rt.LexLink2Base Rt.LexLink2Steps Rt.LexLink2Text Rt.LexLink2.
Require Coq.Strings.String.
Import Coq.Strings.String.StringSyntax.
Open Scope N_scope.

Definition lex_emit_core2_concl (cls : N -> N) (sp : N -> bool) (d : doc) : Prop :=
  exists ts tnl teof,
    tokenize cls false (lines_of (emit sp d)) = LexOk (ts ++ [tnl; teof]) [] /\
    Forall2 tmatch ts (doc2_sh needs_multiline ex_idnum d) /\ tk tnl = NEWLINE /\ tk teof = EOF.
Definition rt2_concl (numcanon : str -> option (bool * str)) (d : doc) : Prop :=
  exists warns, parse_model ex_cls numcanon (fun _ => false) true (lines_of (emit (fun _ => false) d)) = PRDoc d [] warns /\
                Forall advisory warns.

(* ---- the five stage examples of TokRound2Ex.v --------------------------------------------------------------------------- *)
Example ex_s1_safe : lex_safe2_doc ex_s1 = true.  Proof. vm_compute. reflexivity. Qed.
Example ex_s2_safe : lex_safe2_doc ex_s2 = true.  Proof. vm_compute. reflexivity. Qed.
Example ex_s3_safe : lex_safe2_doc ex_s3 = true.  Proof. vm_compute. reflexivity. Qed.
Example ex_s4_safe : lex_safe2_doc ex_s4 = true.  Proof. vm_compute. reflexivity. Qed.
Example ex_s4b_safe : lex_safe2_doc ex_s4b = true. Proof. vm_compute. reflexivity. Qed.

Lemma s1_core2 d : core2_doc_s1 d = true -> core2_doc d = true.
Proof. unfold core2_doc_s1. intros H. apply andb_prop in H as [H _]. apply andb_prop in H as [H _]. exact H. Qed.
Lemma s2_core2 d : core2_doc_s2 d = true -> core2_doc d = true.
Proof. unfold core2_doc_s2. intros H. apply andb_prop in H as [H _]. apply andb_prop in H as [H _]. exact H. Qed.
Lemma s3_core2 d : core2_doc_s3 d = true -> core2_doc d = true.
Proof. unfold core2_doc_s3. intros H. apply andb_prop in H as [H _]. exact H. Qed.

Example ex_s1_lexes_thm : lex_emit_core2_concl ex_cls (fun _ => false) ex_s1.
Proof. exact (lex_emit_core2 ex_cls (fun _ => false) ex_s1 (s1_core2 _ ex_s1_core) ex_s1_safe). Qed.
Example ex_s2_lexes_thm : lex_emit_core2_concl ex_cls (fun _ => false) ex_s2.
Proof. exact (lex_emit_core2 ex_cls (fun _ => false) ex_s2 (s2_core2 _ ex_s2_core) ex_s2_safe). Qed.
Example ex_s3_lexes_thm : lex_emit_core2_concl ex_cls (fun _ => false) ex_s3.
Proof. exact (lex_emit_core2 ex_cls (fun _ => false) ex_s3 (s3_core2 _ ex_s3_core) ex_s3_safe). Qed.
Example ex_s4_lexes_thm : lex_emit_core2_concl ex_cls (fun _ => false) ex_s4.
Proof. exact (lex_emit_core2 ex_cls (fun _ => false) ex_s4 ex_s4_core ex_s4_safe). Qed.
Example ex_s4b_lexes_thm : lex_emit_core2_concl ex_cls (fun _ => false) ex_s4b.
Proof. exact (lex_emit_core2 ex_cls (fun _ => false) ex_s4b ex_s4b_core ex_s4b_safe). Qed.

Example ex_s1_rt_thm : rt2_concl ex2_numcanon ex_s1.
Proof. exact (text_roundtrip_core2 ex_cls ex2_numcanon (fun _ => false) true (fun _ => false) ex_s1 (s1_core2 _ ex_s1_core) ex_s1_safe ex_s1_nums (Forall_nil _)). Qed.
Example ex_s2_rt_thm : rt2_concl ex2_numcanon ex_s2.
Proof. exact (text_roundtrip_core2 ex_cls ex2_numcanon (fun _ => false) true (fun _ => false) ex_s2 (s2_core2 _ ex_s2_core) ex_s2_safe ex_s2_nums (Forall_nil _)). Qed.
Example ex_s3_rt_thm : rt2_concl ex2_numcanon ex_s3.
Proof. exact (text_roundtrip_core2 ex_cls ex2_numcanon (fun _ => false) true (fun _ => false) ex_s3 (s3_core2 _ ex_s3_core) ex_s3_safe ex_s3_nums (Forall_nil _)). Qed.
Example ex_s4_rt_thm : rt2_concl ex2_numcanon ex_s4.
Proof. exact (text_roundtrip_core2 ex_cls ex2_numcanon (fun _ => false) true (fun _ => false) ex_s4 ex_s4_core ex_s4_safe (proj1 ex_s4_nums) (proj2 ex_s4_nums)). Qed.

(* ---- one document with everything: comments with inner blanks / slashes / non-ASCII inside, empty comments, trailing comments after
   scalars and after both list layouts, multi-line lists at depth 0 and 3 with negative / exponent numbers and escaped strings,
   numeric and identifier section ids, annotations, a META block with both list layouts, trailing document comments ---------------- *)
Definition ex_all : doc :=
  mkDoc (lit "ALL_1") (Some (lit "6.0.0")) None true
    [ (lit "TYPE", MV (VStr (lit "x y")));
      (lit "IDS", MV (VList [VNum false (lit "-1"); VNum true (lit "2.5e-3"); VStr [c_bs; c_n; 34]]));
      (lit "FLAGS", MV (VList [VBool true; VNull])) ]
    [ NAssign (lit "A") (VList [VStr (lit "a b"); VStr []; VNull; VBool false]) [lit "// nested // slashes"; []; [97; 32; 233; 32; 98]] (Some (lit "t: [1,2]"));
      NSection (lit "007") (lit "INTRO") (Some (lit "draft_2"))
        [ NBlock (lit "OCTAVE") None
            [ NSection (lit "sec_a") (lit "vsx") None
                [ NAssign (lit "L") (VList [VNum false (lit "1"); VNum false (lit "2"); VNum false (lit "3")]) [lit "deep"] (Some (lit "after ]"));
                  NAssign (lit "E") (VList []) [] (Some (lit "empty"));
                  NAssign (lit "PATTERN") (VStr (lit "abc")) [[]] None ] [lit "ls"];
              NAssign (lit "I") (VList [VBool true; VBool false]) [] None ] [lit "lb"] ] [lit "l1"; lit "l2"];
      NAssign (lit "Z") (VNum false (lit "3")) [] (Some (lit "last")) ]
    [lit "bye"; []].

Example ex_all_core : core2_doc ex_all = true.
Proof. vm_compute. reflexivity. Qed.
Example ex_all_safe : lex_safe2_doc ex_all = true.
Proof. vm_compute. reflexivity. Qed.
Example ex_all_lexes_thm : lex_emit_core2_concl ex_cls (fun _ => false) ex_all.
Proof. exact (lex_emit_core2 ex_cls (fun _ => false) ex_all ex_all_core ex_all_safe). Qed.
(* the same fact by evaluation of the model: the two routes agree *)
Example ex_all_lexes_computed :
  match tokenize ex_cls false (lines_of (emit (fun _ => false) ex_all)) with
  | LexOk toks reps => all2 tmatchb toks (doc2_sh needs_multiline ex_idnum ex_all ++ [(NEWLINE, None); (EOF, None)]) = true /\ reps = []
  | _ => False
  end.
Proof. vm_compute. split; reflexivity. Qed.

Definition ex_all_numcanon (raw : str) : option (bool * str) :=
  if str_in raw [lit "-1"; lit "1"; lit "2"; lit "3"; lit "007"] then Some (false, raw)
  else if str_eqb raw (lit "2.5e-3") then Some (true, raw) else None.
Example ex_all_nums : nums_ok2_l ex_all_numcanon ex_idnum (dsections ex_all) /\ Forall (field_num_ok ex_all_numcanon) (dmeta ex_all).
Proof. cbn. repeat split; try (intros _; eexists; reflexivity); try discriminate; repeat constructor. Qed.
Example ex_all_rt_thm : rt2_concl ex_all_numcanon ex_all.
Proof. exact (text_roundtrip_core2 ex_cls ex_all_numcanon (fun _ => false) true (fun _ => false) ex_all ex_all_core ex_all_safe (proj1 ex_all_nums) (proj2 ex_all_nums)). Qed.

(* ---- the unrestricted statement and why the side condition is there ------------------------------------------------------------------- *)
Definition lex_emit_core2_full : Prop :=
  forall cls sp d, core2_doc d = true -> lex_emit_core2_concl cls sp d.

Definition dd2 (secs : list node) (trl : list str) : doc := mkDoc (lit "D") None None false [] secs trl.
Definition n1v := VNum false (lit "1").

(* a comment text with a leading / trailing blank is stripped by the lexer's COMMENT scanner *)
Lemma lex_emit_core2_refuted_comment_lead_blank :
  exists d, core2_doc d = true /\ lex_safe2_doc d = false /\ ~ lex_emit_core2_concl ex_cls (fun _ => false) d.
Proof. exists (dd2 [NAssign (lit "A") n1v [lit " x"] None] []). split; [reflexivity|]. split; [reflexivity|]. refute_shape. Qed.
Lemma lex_emit_core2_refuted_comment_trail_blank :
  exists d, core2_doc d = true /\ lex_safe2_doc d = false /\ ~ lex_emit_core2_concl ex_cls (fun _ => false) d.
Proof. exists (dd2 [NAssign (lit "A") n1v [] (Some (lit "x "))] []). split; [reflexivity|]. split; [reflexivity|]. refute_shape. Qed.
(* a tab in a comment: the lexer rejects the text (E005) *)
Lemma lex_emit_core2_refuted_comment_tab :
  exists d, core2_doc d = true /\ lex_safe2_doc d = false /\ ~ lex_emit_core2_concl ex_cls (fun _ => false) d.
Proof. exists (dd2 [NAssign (lit "A") n1v [] None] [[97; c_tab; 98]]). split; [reflexivity|]. split; [reflexivity|]. refute_shape. Qed.
(* a newline in a comment: the rest of the comment becomes a line of its own *)
Lemma lex_emit_core2_refuted_comment_newline :
  exists d, core2_doc d = true /\ lex_safe2_doc d = false /\ ~ lex_emit_core2_concl ex_cls (fun _ => false) d.
Proof. exists (dd2 [NAssign (lit "A") n1v [[97; c_nl; 98]] None] []). split; [reflexivity|]. split; [reflexivity|]. refute_shape. Qed.
(* a section id that is neither all digits nor an identifier word: read as NUMBER then IDENTIFIER *)
Lemma lex_emit_core2_refuted_section_id :
  exists d, core2_doc d = true /\ lex_safe2_doc d = false /\ ~ lex_emit_core2_concl ex_cls (fun _ => false) d.
Proof. exists (dd2 [NSection (lit "1a") (lit "K") None [NAssign (lit "A") n1v [] None] []] []). split; [reflexivity|]. split; [reflexivity|]. refute_shape. Qed.
(* an annotation that is not one identifier word *)
Lemma lex_emit_core2_refuted_annotation :
  exists d, core2_doc d = true /\ lex_safe2_doc d = false /\ ~ lex_emit_core2_concl ex_cls (fun _ => false) d.
Proof. exists (dd2 [NSection (lit "1") (lit "K") (Some (lit "a b")) [NAssign (lit "A") n1v [] None] []] []). split; [reflexivity|]. split; [reflexivity|]. refute_shape. Qed.
(* a list item the emitter writes bare is an IDENTIFIER token: outside the shape language (vsh maps VStr to STRING), not a defect *)
Lemma lex_emit_core2_refuted_bare_item :
  exists d, core2_doc d = true /\ lex_safe2_doc d = false /\ ~ lex_emit_core2_concl ex_cls (fun _ => false) d.
Proof. exists (dd2 [NAssign (lit "A") (VList [VStr (lit "abc")]) [] None] []). split; [reflexivity|]. split; [reflexivity|]. refute_shape. Qed.
(* META values are emitted without the always-quote rule: PATTERN::abc in META is bare *)
Lemma lex_emit_core2_refuted_meta_bare :
  exists d, core2_doc d = true /\ lex_safe2_doc d = false /\ ~ lex_emit_core2_concl ex_cls (fun _ => false) d.
Proof.
  exists (mkDoc (lit "D") None None false [(lit "PATTERN", MV (VStr (lit "abc")))] [] []). split; [reflexivity|]. split; [reflexivity|]. refute_shape.
Qed.

Theorem lex_emit_core2_full_refuted : ~ lex_emit_core2_full.
Proof.
  intros Hfull. destruct lex_emit_core2_refuted_comment_lead_blank as (d & Hc & _ & Hn). apply Hn. apply Hfull. exact Hc.
Qed.
