(* Lexer half for lenient layouts, part 2: runs of NEWLINE / INDENT / COMMENT inside brackets, list bodies, values, and the
   pieces of a line (indentation, `::` with blanks around it, `:`, section header). *)
From OV Require Import Base.Strs Gen.LexerGen Syn.Escape Syn.Quote Syn.Ast Syn.Emitter Lex.Lexer Lex.Progress
     Rt.TokRound Rt.TokRound2 Rt.TokRound2Ex Rt.LexLinkBase Rt.LexLinkSteps Rt.LexLink Rt.LexLink2Base Rt.LexLink2Steps Rt.LexLink2Text Rt.LexLink2
     Rt.TokLenient Rt.LexLenientBase.
From Coq Require Import Lia.
Open Scope N_scope.

(* ---- runs inside brackets: which token lists of kind NEWLINE / INDENT / COMMENT are the image of a text ----------------------- *)
Inductive rst := RLS | RAI | RMT.     (* at line start (column 1) / right after an INDENT / after a token *)

Definition nlv_ok (v : option tvalue) : bool := match v with None => true | Some (TVText s) => str_eqb s [c_nl] | _ => false end.
Definition indv_ok (v : option tvalue) : bool := match v with None => true | Some (TVCount n) => 0 <? n | _ => false end.
Definition ind_n (v : option tvalue) : nat := match v with Some (TVCount n) => N.to_nat n | _ => 1%nat end.
Definition comv_ok (v : option tvalue) : bool := match v with None => true | Some (TVText c) => comment_ok c | _ => false end.
Definition com_c (v : option tvalue) : str := match v with Some (TVText c) => c | _ => [] end.
Definition next_is_nl (r : list sh) : bool := match r with (NEWLINE, _) :: _ => true | _ => false end.

(* an INDENT needs a line start and something other than a newline after it; a COMMENT runs to the end of its line *)
Fixpoint run_ok (s : rst) (p : list sh) : bool :=
  match p with
  | [] => true
  | (k, v) :: r =>
      match k with
      | NEWLINE => nlv_ok v && run_ok RLS r
      | INDENT => match s with RLS => true | _ => false end && indv_ok v && negb (next_is_nl r) && run_ok RAI r
      | COMMENT => comv_ok v && next_is_nl r && run_ok RMT r
      | _ => false
      end
  end.
Fixpoint run_txt (s : rst) (p : list sh) : str :=
  match p with
  | [] => []
  | (k, v) :: r =>
      match k with
      | NEWLINE => c_nl :: run_txt RLS r
      | INDENT => sp_n (ind_n v) ++ run_txt RAI r
      | COMMENT => match s with RMT => [c_sp] | _ => [] end ++ comment_line (com_c v) ++ run_txt RMT r
      | _ => []
      end
  end.

Definition rst_inv (s : rst) (st : lstate) : Prop := match s with RLS => ls_col st = 1 | _ => 1 < ls_col st end.

Lemma com_c_ok v : comv_ok v = true -> comment_ok (com_c v) = true.
Proof. destruct v as [[c| | | | |]|]; cbn; intros H; try discriminate H; try exact H; reflexivity. Qed.
Lemma ind_n_pos v : indv_ok v = true -> exists m, ind_n v = S m.
Proof.
  destruct v as [[| | | |n|]|]; cbn; intros H; try discriminate H; [|exists O; reflexivity].
  apply N.ltb_lt in H. exists (pred (N.to_nat n)). lia.
Qed.

(* first character after an INDENT inside a run *)
Lemma run_hd_AI r x rr : run_ok RAI r = true -> next_is_nl r = false -> x <> c_sp -> x <> c_nl ->
  exists y t, run_txt RAI r ++ x :: rr = y :: t /\ y <> c_sp /\ y <> c_nl.
Proof.
  intros Hok Hn Hx1 Hx2. destruct r as [|[k v] r']; [exists x, rr; repeat split; assumption|].
  destruct k; cbn [run_ok next_is_nl] in *; try discriminate.
  cbn [run_txt app]. destruct (comment_line_hd (com_c v)) as (t & ->). eexists _, _. split; [reflexivity|]. split; discriminate.
Qed.
(* first character of a run that follows a token *)
Lemma run_hd_MT p x r : run_ok RMT p = true -> vterm x -> exists z t, run_txt RMT p ++ x :: r = z :: t /\ vterm z.
Proof.
  intros Hok Hx. destruct p as [|[k v] p']; [exists x, r; split; [reflexivity|exact Hx]|].
  destruct k; cbn [run_ok] in Hok; try discriminate Hok; cbn [run_txt app]; eexists _, _; (split; [reflexivity|]).
  - right; right; right; left; reflexivity.
  - left; reflexivity.
Qed.

Section Val.
Variable cls : N -> N.
Notation wbb := (word_boundary_before cls).

Lemma indent_step_col st n x r :
  ls_in st = repeat c_sp (S n) ++ x :: r -> x <> c_sp -> x <> c_nl -> ls_col st = 1 -> ls_spans st = [] ->
  forall st', step cls false st = Continue st' -> ls_col st' = 1 + N.of_nat (S n).
Proof.
  intros Hin Hx1 Hx2 Hcol Hsp st' E.
  assert (Hstep : step cls false st =
    Continue (mkLS (x :: r) (Some c_sp) (ls_pos st + N.of_nat (S n)) (ls_line st) (ls_col st + N.of_nat (S n))
                   (mkTok INDENT (TVCount (N.of_nat (S n))) (ls_line st) (ls_col st) None :: ls_toks st)
                   (ls_reps st) (ls_brk st) (ls_spans st))).
  { unfold step. rewrite Hin. cbn [repeat app]. rewrite Hsp. unfold step_plain. cbv zeta.
    rewrite N.eqb_refl, Hcol. change (N.eqb 1 1) with true. cbv iota.
    change (c_sp :: repeat c_sp n ++ x :: r) with (repeat c_sp (S n) ++ x :: r).
    rewrite takeb_app_stop, dropb_app_stop by (first [apply forallb_repeat_sp | apply neqb; congruence]).
    rewrite (neqb x c_nl) by exact Hx2. cbn [negb]. cbv iota. unfold len. rewrite repeat_length, ?Hsp. reflexivity. }
  rewrite Hstep in E. injection E as <-. cbn [ls_col]. rewrite Hcol. reflexivity.
Qed.

Lemma lex_run p : forall s st x r, run_ok s p = true -> ls_in st = run_txt s p ++ x :: r -> x <> c_sp -> x <> c_nl ->
  rst_inv s st -> ls_spans st = [] -> ls_pos st <> 0 ->
  exists st' s', lexto cls st p st' /\ ls_in st' = x :: r /\ ls_pos st' <> 0 /\ rst_inv s' st' /\
                 ((p = [] -> wbb (ls_prev st) = true) -> wbb (ls_prev st') = true).
Proof.
  induction p as [|[k v] p IH]; intros s st x r Hok Hin Hx1 Hx2 Hinv Hsp Hp.
  - exists st, s. split; [apply lexto_refl|]. split; [exact Hin|]. split; [exact Hp|]. split; [exact Hinv|]. intros H; apply H; reflexivity.
  - destruct k; cbn [run_ok] in Hok; try discriminate Hok; cbn [run_txt] in Hin.
    + (* COMMENT *)
      apply andb_true_iff in Hok as [Hok Hr]. apply andb_true_iff in Hok as [Hv Hnl].
      assert (Hmid : exists st1, lexto cls st [] st1 /\ ls_in st1 = comment_line (com_c v) ++ sp_n 0 ++ run_txt RMT p ++ x :: r /\
                                 ls_spans st1 = [] /\ ls_pos st1 <> 0 /\ 1 <= ls_col st1).
      { destruct s.
        - exists st. split; [apply lexto_refl|]. cbn [app] in Hin. rewrite <- app_assoc in Hin. cbn [rst_inv] in Hinv.
          split; [exact Hin|]. split; [exact Hsp|]. split; [exact Hp|lia].
        - exists st. split; [apply lexto_refl|]. cbn [app] in Hin. rewrite <- app_assoc in Hin. cbn [rst_inv] in Hinv.
          split; [exact Hin|]. split; [exact Hsp|]. split; [exact Hp|lia].
        - cbn [app] in Hin. rewrite <- app_assoc in Hin. cbn [rst_inv] in Hinv.
          destruct (skip_spaces cls 1 st _ Hin Hinv Hsp Hp) as (st1 & S1 & I1 & T1 & R1 & B1 & P1 & Q1 & C1 & _).
          exists st1. split; [apply lexto_skip; try assumption; rewrite P1, Hsp; reflexivity|]. split; [exact I1|]. split; [exact P1|]. split; [exact Q1|lia]. }
      destruct Hmid as (st1 & L1 & I1 & S1 & P1 & C1).
      destruct p as [|[k2 v2] p2]; [discriminate Hnl|]. destruct k2; try discriminate Hnl. cbn [run_txt app] in I1.
      destruct (G_comment_tr cls st1 (com_c v) 0 _ (com_c_ok v Hv) I1 S1) as (st2 & G2).
      assert (S2 : ls_spans st2 = []) by (rewrite (gstep_spans cls _ _ _ _ _ _ _ G2); exact S1).
      assert (C2 : 1 < ls_col st2) by (pose proof (gstep_col cls _ _ _ _ _ _ _ G2); lia).
      destruct (IH RMT st2 x r Hr) as (st3 & s3 & L3 & I3 & P3 & V3 & W3);
        [rewrite (gstep_in cls _ _ _ _ _ _ _ G2); reflexivity|exact Hx1|exact Hx2|exact C2|exact S2|exact (gstep_pos cls _ _ _ _ _ _ _ G2)|].
      exists st3, s3. split; [|split; [exact I3|split; [exact P3|split; [exact V3|intros _; apply W3; discriminate]]]].
      change ((COMMENT, v) :: (NEWLINE, v2) :: p2) with ([] ++ [(COMMENT, v)] ++ (NEWLINE, v2) :: p2).
      eapply lexto_trans; [exact L1|]. eapply lexto_trans; [|exact L3].
      eapply lexto_gstep; [exact G2|reflexivity|]. destruct v as [[c| | | | |]|]; cbn in Hv |- *; try discriminate Hv; [right|left]; reflexivity.
    + (* NEWLINE *)
      apply andb_true_iff in Hok as [Hv Hr].
      destruct (T_nl cls st _ Hin Hsp) as (st1 & T1 & C1).
      assert (S1 : ls_spans st1 = []) by (rewrite (tstep_spans _ _ _ _ _ _ _ T1); exact Hsp).
      destruct (IH RLS st1 x r Hr (tstep_in _ _ _ _ _ _ _ T1) Hx1 Hx2 C1 S1 (tstep_pos _ _ _ _ _ _ _ T1)) as (st2 & s2 & L2 & I2 & P2 & V2 & W2).
      exists st2, s2. split; [|split; [exact I2|split; [exact P2|split; [exact V2|]]]].
      * change ((NEWLINE, v) :: p) with ([(NEWLINE, v)] ++ p). eapply lexto_trans; [|exact L2].
        eapply lexto_tstep; [exact T1|reflexivity|]. destruct v as [[s0| | | | |]|]; cbn in Hv |- *; try discriminate Hv; [right|left; reflexivity].
        apply str_eqb_eq in Hv. subst s0. reflexivity.
      * intros _. apply W2. intros _. rewrite (tstep_prev _ _ _ _ _ _ _ T1). apply wbb_of, u_word_false; chr.
    + (* INDENT *)
      apply andb_true_iff in Hok as [Hok Hr]. apply andb_true_iff in Hok as [Hok Hnn]. apply andb_true_iff in Hok as [Hs Hv].
      apply negb_true_iff in Hnn. destruct s; try discriminate Hs. cbn [rst_inv] in Hinv.
      destruct (ind_n_pos v Hv) as (m & Em).
      destruct (run_hd_AI p x r Hr Hnn Hx1 Hx2) as (y & t & Ey & Hy1 & Hy2).
      rewrite <- app_assoc, Ey, Em in Hin.
      destruct (T_indent cls st m y t Hin Hy1 Hy2 Hinv Hsp) as (st1 & T1).
      assert (S1 : ls_spans st1 = []) by (rewrite (tstep_spans _ _ _ _ _ _ _ T1); exact Hsp).
      assert (L1 : lexto cls st [(INDENT, v)] st1).
      { eapply lexto_tstep; [exact T1|reflexivity|]. destruct v as [[| | | |n|]|]; cbn [indv_ok] in Hv; try discriminate Hv; [right|left; reflexivity].
        cbn [snd ind_n] in Em |- *. rewrite <- Em, N2Nat.id. reflexivity. }
      assert (C1 : 1 < ls_col st1).
      { rewrite (indent_step_col st m y t Hin Hy1 Hy2 Hinv Hsp st1 (proj1 T1)). lia. }
      pose proof (tstep_in _ _ _ _ _ _ _ T1) as I1. rewrite <- Ey in I1.
      destruct (IH RAI st1 x r Hr I1 Hx1 Hx2 C1 S1 (tstep_pos _ _ _ _ _ _ _ T1)) as (st2 & s2 & L2 & I2 & P2 & V2 & W2).
      exists st2, s2. split; [|split; [exact I2|split; [exact P2|split; [exact V2|]]]].
      * change ((INDENT, v) :: p) with ([(INDENT, v)] ++ p). eapply lexto_trans; [exact L1|exact L2].
      * intros _. apply W2. intros _. rewrite (tstep_prev _ _ _ _ _ _ _ T1). apply wbb_of, u_word_false; chr.
Qed.

(* ---- list bodies under an arbitrary bracket layout ------------------------------------------------------------------------------ *)
Fixpoint body_txt (p2 pl p : list sh) (sc : nat) (ts : list str) : str :=
  match ts with
  | [] => run_txt RMT p ++ s_rb
  | x :: r => run_txt RMT p ++ x ++
              match r with
              | [] => run_txt RMT pl ++ s_rb
              | _ => c_comma :: sp_n sc ++ body_txt p2 pl p2 sc r
              end
  end.

Lemma rst_inv_ge s st : rst_inv s st -> 1 <= ls_col st.
Proof. destruct s; cbn [rst_inv]; lia. Qed.

Lemma lex_body_len p2 pl sc : run_ok RMT p2 = true -> run_ok RMT pl = true ->
  forall items p st rest b0 b, run_ok RMT p = true -> forallb scalar_ok items = true -> forallb is_scalar items = true ->
  ls_in st = body_txt p2 pl p sc (map sc_text items) ++ rest ->
  ls_brk st = b0 :: b -> ls_spans st = [] -> ls_pos st <> 0 -> wbb (ls_prev st) = true -> 1 < ls_col st ->
  exists st', lextoB cls st (body_sh p2 pl p items) st' /\ ls_in st' = rest /\ ls_brk st' = b /\
              ls_spans st' = [] /\ ls_pos st' <> 0 /\ 1 < ls_col st'.
Proof.
  intros Hp2 Hpl. induction items as [|x xs IH]; intros p st rest b0 b Hpp Hok Hsc Hin Hb Hsp Hp Hw Hcol.
  - cbn [map body_txt body_sh] in Hin |- *. rewrite <- app_assoc in Hin. cbn [s_rb app] in Hin.
    destruct (lex_run p RMT st c_rbr rest Hpp Hin) as (st1 & s1 & L1 & I1 & P1 & V1 & _); [chr|chr|exact Hcol|exact Hsp|exact Hp|].
    assert (S1 : ls_spans st1 = []) by (rewrite (lexto_spans _ _ _ _ L1); exact Hsp).
    assert (B1 : ls_brk st1 = b0 :: b) by (rewrite (lexto_brk cls _ _ _ L1); exact Hb).
    destruct (G_rbr cls st1 rest b0 b I1 S1 B1) as (st2 & G2).
    exists st2. split; [eapply lextoB_trans; [exact (lexto_B cls _ _ _ L1)|eapply lextoB_gstep; [exact G2|reflexivity|left; reflexivity]]|].
    split; [exact (gstep_in cls _ _ _ _ _ _ _ G2)|]. split; [exact (gstep_brk cls _ _ _ _ _ _ _ G2)|].
    split; [rewrite (gstep_spans cls _ _ _ _ _ _ _ G2); exact S1|]. split; [exact (gstep_pos cls _ _ _ _ _ _ _ G2)|].
    pose proof (gstep_col cls _ _ _ _ _ _ _ G2). pose proof (rst_inv_ge _ _ V1). lia.
  - cbn [forallb] in Hok, Hsc. apply andb_true_iff in Hok as [Hx Hxs]. apply andb_true_iff in Hsc as [Sx Sxs].
    destruct (is_scalar_sval _ Sx) as (sv & E).
    assert (Et : sc_text x = sval_text sv) by (unfold sc_text; rewrite E; reflexivity).
    destruct (sval_text_hd x sv Hx E) as (x0 & t0 & Ex0 & Hx0a & Hx0b & _).
    cbn [map body_txt body_sh] in Hin |- *. rewrite Et in Hin. rewrite (vsh_sval _ _ E).
    rewrite <- !app_assoc in Hin.
    pose proof Hin as Hin0. rewrite Ex0 in Hin0. cbn [app] in Hin0.
    destruct (lex_run p RMT st x0 _ Hpp Hin0 Hx0a Hx0b Hcol Hsp Hp) as (st1 & s1 & L1 & I1 & P1 & V1 & W1).
    specialize (W1 (fun _ => Hw)).
    assert (S1 : ls_spans st1 = []) by (rewrite (lexto_spans _ _ _ _ L1); exact Hsp).
    assert (B1 : ls_brk st1 = b0 :: b) by (rewrite (lexto_brk cls _ _ _ L1); exact Hb).
    change (x0 :: t0 ++ ?z) with ((x0 :: t0) ++ z) in I1. rewrite <- Ex0 in I1.
    destruct xs as [|y ys].
    + cbn [map] in I1. rewrite <- app_assoc in I1. cbn [s_rb app] in I1.
      destruct (run_hd_MT pl c_rbr rest Hpl) as (z & t & Ez & Hz); [right; right; left; reflexivity|].
      rewrite Ez in I1.
      destruct (lex_item cls x sv st1 z t Hx E I1 Hz W1 S1) as (st2 & L2 & I2 & C2 & P2).
      assert (S2 : ls_spans st2 = []) by (rewrite (lexto_spans _ _ _ _ L2); exact S1).
      assert (B2 : ls_brk st2 = b0 :: b) by (rewrite (lexto_brk cls _ _ _ L2); exact B1).
      assert (C2' : 1 < ls_col st2) by (pose proof (rst_inv_ge _ _ V1); lia).
      rewrite <- Ez in I2.
      destruct (lex_run pl RMT st2 c_rbr rest Hpl I2) as (st3 & s3 & L3 & I3 & P3 & V3 & _); [chr|chr|exact C2'|exact S2|exact P2|].
      assert (S3 : ls_spans st3 = []) by (rewrite (lexto_spans _ _ _ _ L3); exact S2).
      assert (B3 : ls_brk st3 = b0 :: b) by (rewrite (lexto_brk cls _ _ _ L3); exact B2).
      destruct (G_rbr cls st3 rest b0 b I3 S3 B3) as (st4 & G4).
      exists st4. split; [|split; [exact (gstep_in cls _ _ _ _ _ _ _ G4)|split; [exact (gstep_brk cls _ _ _ _ _ _ _ G4)|]]].
      * eapply lextoB_trans; [exact (lexto_B cls _ _ _ L1)|]. eapply lextoB_trans; [exact (lexto_B cls _ _ _ L2)|].
        eapply lextoB_trans; [exact (lexto_B cls _ _ _ L3)|]. eapply lextoB_gstep; [exact G4|reflexivity|left; reflexivity].
      * split; [rewrite (gstep_spans cls _ _ _ _ _ _ _ G4); exact S3|]. split; [exact (gstep_pos cls _ _ _ _ _ _ _ G4)|].
        pose proof (gstep_col cls _ _ _ _ _ _ _ G4). pose proof (rst_inv_ge _ _ V3). lia.
    + cbn [map] in I1. cbn [app] in I1.
      destruct (lex_item cls x sv st1 c_comma _ Hx E I1) as (st2 & L2 & I2 & C2 & P2); [right; left; reflexivity|exact W1|exact S1|].
      assert (S2 : ls_spans st2 = []) by (rewrite (lexto_spans _ _ _ _ L2); exact S1).
      assert (B2 : ls_brk st2 = b0 :: b) by (rewrite (lexto_brk cls _ _ _ L2); exact B1).
      destruct (G_comma cls st2 _ I2 S2) as (st3 & G3).
      assert (S3 : ls_spans st3 = []) by (rewrite (gstep_spans cls _ _ _ _ _ _ _ G3); exact S2).
      assert (B3 : ls_brk st3 = b0 :: b) by (rewrite (gstep_brk cls _ _ _ _ _ _ _ G3); exact B2).
      assert (C3 : 1 < ls_col st3) by (pose proof (gstep_col cls _ _ _ _ _ _ _ G3); pose proof (rst_inv_ge _ _ V1); lia).
      pose proof (gstep_in cls _ _ _ _ _ _ _ G3) as I3. rewrite <- app_assoc in I3.
      destruct (skip_spaces cls sc st3 _ I3 C3 S3 (gstep_pos cls _ _ _ _ _ _ _ G3))
        as (st4 & S4 & I4 & T4 & R4 & B4 & P4 & Q4 & C4 & V40 & V41).
      assert (L4 : lexto cls st3 [] st4) by (apply lexto_skip; try assumption; rewrite P4, S3; reflexivity).
      assert (W4 : wbb (ls_prev st4) = true).
      { destruct sc as [|sc']; [rewrite (V40 eq_refl), (gstep_prev cls _ _ _ _ _ _ _ G3)|rewrite V41 by discriminate]; apply wbb_of, u_word_false; chr. }
      destruct (IH p2 st4 rest b0 b Hp2 Hxs Sxs I4) as (st5 & L5 & I5 & B5 & S5 & P5 & C5);
        [rewrite B4; exact B3|exact P4|exact Q4|exact W4|exact C4|].
      exists st5. split; [|repeat split; assumption].
      eapply lextoB_trans; [exact (lexto_B cls _ _ _ L1)|]. eapply lextoB_trans; [exact (lexto_B cls _ _ _ L2)|].
      change ((COMMA, None) :: ?l) with ([(COMMA, @None tvalue)] ++ [] ++ l).
      eapply lextoB_trans; [eapply lextoB_gstep; [exact G3|reflexivity|left; reflexivity]|].
      eapply lextoB_trans; [exact (lexto_B cls _ _ _ L4)|exact L5].
Qed.

(* ---- values -------------------------------------------------------------------------------------------------------------------- *)
Definition vl_lex (vl : vlay) : bool := match vl with VLay p2 pl p => run_ok RMT p2 && run_ok RMT pl && run_ok RMT p end.
Definition val_txt (vl : vlay) (sc : nat) (v : value) : str :=
  match v, vl with
  | VList items, VLay p2 pl p => c_lbr :: body_txt p2 pl p sc (map sc_text items)
  | _, _ => sc_text v
  end.

Lemma lex_val_len vl sc v st z r : cval v = true -> val_ok v = true -> vl_lex vl = true ->
  ls_in st = val_txt vl sc v ++ z :: r -> vterm z ->
  wbb (ls_prev st) = true -> ls_spans st = [] -> ls_pos st <> 0 -> 1 <= ls_col st ->
  exists st', lexto cls st (val_len vl v) st' /\ ls_in st' = z :: r /\ 1 < ls_col st' /\ ls_pos st' <> 0.
Proof.
  intros Hc Hok Hvl Hin Hz Hw Hsp Hpos Hcol.
  assert (Hscalar : forall sv, sval_of v = Some sv -> scalar_ok v = true -> val_txt vl sc v = sval_text sv -> val_len vl v = [sval_sh sv] ->
            exists st', lexto cls st (val_len vl v) st' /\ ls_in st' = z :: r /\ 1 < ls_col st' /\ ls_pos st' <> 0).
  { intros sv E Hs Et Esh. rewrite Et in Hin. rewrite Esh.
    destruct (lex_item cls v sv st z r Hs E Hin Hz Hw Hsp) as (st' & L & I & C & P).
    exists st'. split; [exact L|]. split; [exact I|]. split; [lia|exact P]. }
  destruct v; cbn [cval is_scalar sval_of] in Hc; try discriminate Hc.
  - apply (Hscalar SNull); try reflexivity; try exact Hok; destruct vl; reflexivity.
  - apply (Hscalar (SBool b)); try reflexivity; try exact Hok; destruct vl; reflexivity.
  - apply (Hscalar (SNum isfloat canon)); try reflexivity; try exact Hok; destruct vl; reflexivity.
  - apply (Hscalar (SStr s)); try reflexivity; try exact Hok; destruct vl; reflexivity.
  - clear Hscalar. cbn [val_ok] in Hok. destruct vl as [p2 pl p]. cbn [vl_lex] in Hvl.
    apply andb_true_iff in Hvl as [Hvl Hpp]. apply andb_true_iff in Hvl as [Hp2 Hpl].
    cbn [val_txt val_len] in Hin |- *. cbn [app] in Hin.
    destruct (G_lbr cls st _ Hin Hsp) as (st1 & b0 & G1).
    assert (S1 : ls_spans st1 = []) by (rewrite (gstep_spans cls _ _ _ _ _ _ _ G1); exact Hsp).
    assert (W1 : wbb (ls_prev st1) = true) by (rewrite (gstep_prev cls _ _ _ _ _ _ _ G1); apply wbb_of, u_word_false; lia).
    assert (C1 : 1 < ls_col st1) by (pose proof (gstep_col cls _ _ _ _ _ _ _ G1); lia).
    destruct (lex_body_len p2 pl sc Hp2 Hpl items p st1 (z :: r) b0 (ls_brk st) Hpp Hok Hc (gstep_in cls _ _ _ _ _ _ _ G1)
                (gstep_brk cls _ _ _ _ _ _ _ G1) S1 (gstep_pos cls _ _ _ _ _ _ _ G1) W1 C1) as (st2 & L2 & I2 & B2 & S2 & P2 & C2).
    exists st2. split; [|split; [exact I2|split; [exact C2|exact P2]]].
    apply lextoB_lexto; [|exact B2].
    change ((LIST_START, None) :: ?l) with ([(LIST_START, @None tvalue)] ++ l).
    eapply lextoB_trans; [|exact L2]. eapply lextoB_gstep; [exact G1|reflexivity|left; reflexivity].
Qed.

(* ---- `::` and `:` with the exact column -------------------------------------------------------------------------------------------- *)
Lemma G_assign st r : ls_in st = c_colon :: c_colon :: r -> ls_spans st = [] ->
  exists st', gstep cls st st' ASSIGN (TVText [58;58]) r (Some c_colon) (ls_brk st).
Proof.
  intros Hin Hsp.
  destruct (gstep_emit_pat cls st c_colon (c_colon :: r) ASSIGN (TVText [58;58]) [58;58] r Hin Hsp) as (st' & H);
    try reflexivity; [|discriminate|exists st'; exact H].
  apply (sp_ops cls st c_colon (c_colon :: r) [58;58] ASSIGN); reflexivity.
Qed.
Lemma G_block st z r : z <> c_colon -> ls_in st = c_colon :: z :: r -> ls_spans st = [] ->
  exists st', gstep cls st st' BLOCK (TVText [58]) (z :: r) (Some c_colon) (ls_brk st).
Proof.
  intros Hz Hin Hsp.
  destruct (gstep_emit_pat cls st c_colon (z :: r) BLOCK (TVText [58]) [58] (z :: r) Hin Hsp) as (st' & H);
    try reflexivity; [|discriminate|exists st'; exact H].
  apply (sp_ops cls st c_colon (z :: r) [58] BLOCK); [reflexivity|].
  unfold simple_ops. cbn [try_simple prefixb]. rewrite N.eqb_refl, (neqb 58 z) by (unfold c_colon in Hz; congruence). reflexivity.
Qed.

(* ---- indentation of a line ----------------------------------------------------------------------------------------------------------- *)
Definition ind_txt (i : option N) : str := match i with Some n => sp_n (N.to_nat n) | None => [] end.
Definition ind_lex (i : option N) : bool := match i with Some n => 0 <? n | None => true end.

(* the state a line's content starts from: after its (optional) indentation *)
Definition linest (st : lstate) : Prop := 1 <= ls_col st /\ ls_pos st <> 0 /\ ls_spans st = [].

Lemma lex_ind i st x r : ind_lex i = true -> ls_in st = ind_txt i ++ x :: r -> x <> c_sp -> x <> c_nl -> ready st ->
  exists st1, lexto cls st (ind_sh i) st1 /\ ls_in st1 = x :: r /\ linest st1.
Proof.
  intros Hi Hin H1 H2 (Hc & Hp & Hs). destruct i as [n|].
  - cbn [ind_lex ind_txt] in *. apply N.ltb_lt in Hi.
    assert (E : N.to_nat n = S (pred (N.to_nat n))) by lia. rewrite E in Hin.
    destruct (T_indent cls st _ x r Hin H1 H2 Hc Hs) as (st1 & T).
    exists st1. split; [eapply lexto_tstep; [exact T|reflexivity|right; cbn [ind_sh snd]; rewrite <- E, N2Nat.id; reflexivity]|].
    split; [exact (tstep_in _ _ _ _ _ _ _ T)|]. split; [|split; [exact (tstep_pos _ _ _ _ _ _ _ T)|rewrite (tstep_spans _ _ _ _ _ _ _ T); exact Hs]].
    apply (steps_col cls st st1); [apply steps_one; apply T|lia].
  - exists st. split; [apply lexto_refl|]. split; [exact Hin|]. repeat split; try assumption. lia.
Qed.

End Val.
