(* Token-level read-back theorem, parser half, for a WIDER fragment than Rt/TokRound.v ("core2 documents"), at every
   nesting depth and every list length.  Added to the core fragment:
     stage 1  comments: leading comments on assignments / blocks / sections (own lines at the node's indent),
              trailing comments on assignments (same line), trailing document comments before ===END===;
     stage 2  assignment values that are lists of one-token scalars, in the INLINE layout  [a,b]  and in the MULTI-LINE
              layout  [ NL INDENT a , NL INDENT b NL INDENT ]  (the layout is chosen by an ARBITRARY function `ml`; the
              emitter's choice `needs_multiline` is one instance);
     stage 3  section markers  SECTION id ASSIGN key [annotation] NEWLINE children  (read through section_loop);
     stage 4  a META block with scalar / scalar-list fields (read through parse_meta_block / meta_loop).
   Token positions and the payload of structural tokens are arbitrary, as in TokRound.v.

   Excluded layouts (each with a `_refuted` witness in Rt/TokRound2Ex.v): a comment line at column 0 directly after the
   last descendant of a top-level block / section (comment-dedent class: block_loop / section_loop take COMMENT into
   `pending` before looking at the indent and flush it as NComment children), `Some []` trailing comments and
   annotations (emitted as nothing), empty bodies. *)
From OV Require Import Base.Strs Lex.Lexer Syn.Ast Syn.Parser Rt.TokRound.
From Coq Require Import Lia.
Require Coq.Strings.String.
Import Coq.Strings.String.StringSyntax.
Open Scope N_scope.

(* ---- state bookkeeping: what a step may change ---------------------------------------------------------------- *)
(* `moved n st st'`: n tokens were consumed, nothing else changed (no warning, same bracket depth) *)
Definition moved (n : nat) (st st' : pstate) : Prop :=
  pwarns st' = pwarns st /\ pbdepth st' = pbdepth st /\ ppos st' = ppos st + N.of_nat n.
Lemma moved_refl st : moved 0 st st.
Proof. unfold moved. cbn. rewrite N.add_0_r. repeat split. Qed.
Lemma moved_trans n m a b c : moved n a b -> moved m b c -> moved (n + m) a c.
Proof. unfold moved. intros (H1 & H2 & H3) (H4 & H5 & H6). rewrite H4, H5, H6, H1, H2, H3. repeat split. lia. Qed.
Lemma moved_adv st t t2 r : ptoks st = t :: t2 :: r -> moved 1 st (adv st).
Proof. unfold moved, adv. intros ->. cbn. repeat split. Qed.

(* `sext st st'`: warnings grow by advisory records only and the bracket depth is unchanged *)
Definition sext (st st' : pstate) : Prop := wext st st' /\ pbdepth st' = pbdepth st.
Lemma sext_refl st : sext st st.
Proof. split; [apply wext_refl|reflexivity]. Qed.
Lemma sext_trans a b c : sext a b -> sext b c -> sext a c.
Proof. intros [W1 D1] [W2 D2]. split; [eapply wext_trans; eassumption|congruence]. Qed.
Lemma adv_depth st : pbdepth (adv st) = pbdepth st.
Proof. unfold adv. destruct (ptoks st) as [|t [|t2 r]]; reflexivity. Qed.
Lemma sext_adv st : sext st (adv st).
Proof. split; [apply wext_adv|apply adv_depth]. Qed.
Lemma sext_warn w st : advisory w -> sext st (warn w st).
Proof. intros H. split; [apply wext_warn; exact H|reflexivity]. Qed.
Lemma sext_track_dup k l pos st : sext st (snd (track_dup k l pos st)).
Proof. split; [apply wext_track_dup|]. unfold track_dup. destruct (find _ pos) as [[? ?]|]; reflexivity. Qed.
Lemma moved_sext n st st' : moved n st st' -> sext st st'.
Proof. intros (H1 & H2 & _). split; [exists []; split; [exact H1|constructor]|exact H2]. Qed.

Ltac sadv := repeat first [apply sext_refl | apply sext_adv | (eapply sext_trans; [|apply sext_adv])].

(* ---- skipping a run of skippable tokens ------------------------------------------------------------------------- *)
Lemma skip_many ks : forall sk st t r f,
  ptoks st = sk ++ t :: r -> Forall (fun x => kin (tk x) ks = true /\ tk x <> EOF) sk -> kin (tk t) ks = false ->
  (length sk <= f)%nat ->
  exists st', skip_kinds ks f st = st' /\ ptoks st' = t :: r /\ moved (length sk) st st'.
Proof.
  induction sk as [|x sk IH]; intros st t r f Hst Hsk Ht Hf.
  - cbn [app] in Hst. exists st. split; [exact (skip_stop _ _ _ _ _ Hst Ht)|]. split; [exact Hst|apply moved_refl].
  - inversion Hsk as [|? ? [Hx Hne] Hsk']; subst. cbn [length] in Hf. destruct f as [|f]; [lia|].
    assert (Hst2 : exists t2 r2, sk ++ t :: r = t2 :: r2) by (destruct sk; cbn [app]; eauto).
    destruct Hst2 as (t2 & r2 & E). cbn [app] in Hst. rewrite E in Hst.
    rewrite (skip_nl_step _ _ _ _ _ _ Hst Hx Hne).
    pose proof (adv_toks _ _ _ _ Hst) as H1. rewrite <- E in H1.
    destruct (IH (adv st) t r f H1 Hsk' Ht) as (st' & Hs & Hp & Hm); [lia|].
    exists st'. split; [exact Hs|]. split; [exact Hp|].
    change (length (x :: sk)) with (1 + length sk)%nat. eapply moved_trans; [exact (moved_adv _ _ _ _ Hst)|exact Hm].
Qed.

(* ---- values: one-token scalars and lists of one-token scalars --------------------------------------------------- *)
Definition is_scalar (v : value) : bool := match sval_of v with Some _ => true | None => false end.
Definition cval (v : value) : bool :=
  match v with VList items => forallb is_scalar items | _ => is_scalar v end.

Definition vsh (v : value) : sh := match sval_of v with Some s => sval_sh s | None => (EOF, None) end.

Section Shapes.
(* the layout choice for a non-empty list: true = multi-line.  ARBITRARY; Syn.Emitter.needs_multiline is one instance *)
Variable ml : list value -> bool.
(* which section ids reach the parser as a NUMBER token (the others as IDENTIFIER).  ARBITRARY. *)
Variable idnum : str -> bool.

(* tokens of a bracket body read by parse_list_loop, starting with the skippable run `pre`; `pre2` precedes every later
   item, `postlast` follows the last item *)
Fixpoint body_sh (pre2 postlast pre : list sh) (items : list value) : list sh :=
  match items with
  | [] => pre ++ [(LIST_END, None)]
  | x :: r => pre ++ [vsh x] ++
              match r with
              | [] => postlast ++ [(LIST_END, None)]
              | _ => (COMMA, None) :: body_sh pre2 postlast pre2 r
              end
  end.

Definition nl_sh : list sh := [(NEWLINE, None)].
Definition val_sh (D : nat) (v : value) : list sh :=
  match v with
  | VList [] => [(LIST_START, None); (LIST_END, None)]
  | VList items =>
      if ml items then
        (LIST_START, None) :: body_sh (nl_sh ++ indent_sh (S D)) (nl_sh ++ indent_sh D) (nl_sh ++ indent_sh (S D)) items
      else (LIST_START, None) :: body_sh [] [] [] items
  | _ => [vsh v]
  end.

Definition lead_sh (D : nat) (cs : list str) : list sh :=
  flat_map (fun c => indent_sh D ++ [(COMMENT, Some (TVText c)); (NEWLINE, None)]) cs.
Definition trail_sh (t : option str) : list sh :=
  match t with Some c => [(COMMENT, Some (TVText c))] | None => [] end.
Definition annot_sh (a : option str) : list sh :=
  match a with Some x => [(LIST_START, None); (IDENTIFIER, Some (TVText x)); (LIST_END, None)] | None => [] end.
Definition id_sh (i : str) : sh := if idnum i then (NUMBER, Some (TVNum i)) else (IDENTIFIER, Some (TVText i)).

Definition lead_of (n : node) : list str :=
  match n with NAssign _ _ l _ => l | NBlock _ _ _ l => l | NSection _ _ _ _ l => l | NComment _ => [] end.

(* main_sh: the node from its first own token (after the INDENT of its header line) *)
Fixpoint main_sh (D : nat) (n : node) : list sh :=
  match n with
  | NAssign k v _ t => [(IDENTIFIER, Some (TVText k)); (ASSIGN, None)] ++ val_sh D v ++ trail_sh t ++ [(NEWLINE, None)]
  | NBlock k _ ch _ =>
      [(IDENTIFIER, Some (TVText k)); (BLOCK, None); (NEWLINE, None)] ++
      flat_map (fun c => lead_sh (S D) (lead_of c) ++ indent_sh (S D) ++ main_sh (S D) c) ch
  | NSection i k a ch _ =>
      [(SECTION, None); id_sh i; (ASSIGN, None); (IDENTIFIER, Some (TVText k))] ++ annot_sh a ++ [(NEWLINE, None)] ++
      flat_map (fun c => lead_sh (S D) (lead_of c) ++ indent_sh (S D) ++ main_sh (S D) c) ch
  | NComment _ => []
  end.
Definition node_sh2 (D : nat) (n : node) : list sh := lead_sh D (lead_of n) ++ indent_sh D ++ main_sh D n.
Definition nodes_sh2 (D : nat) (ns : list node) : list sh := flat_map (node_sh2 D) ns.

Lemma main_sh_block D k t ch l :
  main_sh D (NBlock k t ch l) = [(IDENTIFIER, Some (TVText k)); (BLOCK, None); (NEWLINE, None)] ++ nodes_sh2 (S D) ch.
Proof. reflexivity. Qed.
Lemma main_sh_section D i k a ch l :
  main_sh D (NSection i k a ch l) =
  [(SECTION, None); id_sh i; (ASSIGN, None); (IDENTIFIER, Some (TVText k))] ++ annot_sh a ++ [(NEWLINE, None)] ++ nodes_sh2 (S D) ch.
Proof. reflexivity. Qed.

(* ---- the fragment ------------------------------------------------------------------------------------------------ *)
Definition is_nil {A} (l : list A) : bool := match l with [] => true | _ => false end.
(* `Some []` (a trailing comment / annotation that is present but empty) is emitted as nothing and read back as None *)
Definition opt_ne (o : option str) : bool := match o with Some [] => false | _ => true end.

Fixpoint core2_node (n : node) : bool :=
  match n with
  | NAssign k v _ t => cval v && opt_ne t
  | NBlock k None ch _ => negb (is_nil ch) && forallb core2_node ch
  | NSection i k a ch _ => opt_ne a && (negb (is_nil ch) && forallb core2_node ch)
  | _ => false
  end.

Definition is_container (n : node) : bool :=
  match n with NBlock _ _ _ _ => true | NSection _ _ _ _ _ => true | _ => false end.
(* comment-dedent: no comment line at column 0 directly after the last descendant of a top-level block / section *)
Fixpoint top_ok (ns : list node) (tr : list str) : bool :=
  match ns with
  | [] => true
  | a :: r => (if is_container a then match r with b :: _ => is_nil (lead_of b) | [] => is_nil tr end else true) && top_ok r tr
  end.

(* the first body token must not be the identifier META when parse_document looks for a META block there *)
Definition first_key_not_meta2 (ns : list node) : bool :=
  match ns with
  | NAssign k _ [] _ :: _ => negb (str_eqb k (lit "META"))
  | NBlock k _ _ [] :: _ => negb (str_eqb k (lit "META"))
  | _ => true
  end.

Definition meta_field_ok (kv : str * metaval) : bool := match snd kv with MV v => cval v | MD _ => false end.
Fixpoint nodupb (l : list str) : bool := match l with [] => true | x :: r => negb (str_in x r) && nodupb r end.

Definition core2_doc (d : doc) : bool :=
  match dfront d with
  | None =>
      forallb core2_node (dsections d) && top_ok (dsections d) (dtrailing d) &&
      forallb meta_field_ok (dmeta d) && nodupb (map fst (dmeta d)) &&
      (negb (is_nil (dmeta d)) || dsep d || first_key_not_meta2 (dsections d))
  | Some _ => false
  end.

Definition meta_sh (m : list (str * metaval)) : list sh :=
  match m with
  | [] => []
  | _ => [(IDENTIFIER, Some (TVText (lit "META"))); (BLOCK, None); (NEWLINE, None)] ++
         flat_map (fun kv => indent_sh 1 ++ [(IDENTIFIER, Some (TVText (fst kv))); (ASSIGN, None)] ++
                             (match snd kv with MV v => val_sh 1 v | MD _ => [] end) ++ [(NEWLINE, None)]) m
  end.

Definition doc2_sh (d : doc) : list sh :=
  (match dgrammar d with Some g => [(GRAMMAR_SENTINEL, Some (TVText g)); (NEWLINE, None)] | None => [] end) ++
  [(ENVELOPE_START, Some (TVText (dname d))); (NEWLINE, None)] ++
  meta_sh (dmeta d) ++
  (if dsep d then [(SEPARATOR, None); (NEWLINE, None)] else []) ++
  nodes_sh2 0 (dsections d) ++ lead_sh 0 (dtrailing d) ++ [(ENVELOPE_END, None)].
End Shapes.

Section Core2.
Variable numcanon : str -> option (bool * str).
Variable holo_ok : str -> bool.
Variable strict : bool.
Variable sp alpha : N -> bool.
Variable ml : list value -> bool.
Variable idnum : str -> bool.

Notation pv := (parse_value numcanon holo_ok strict sp).
Notation plist := (parse_list numcanon holo_ok strict sp).
Notation plloop := (parse_list_loop numcanon holo_ok strict sp).
Notation plitem := (parse_list_item numcanon holo_ok strict sp).
Notation psec := (parse_section numcanon holo_ok strict sp alpha).
Notation bloop := (block_loop numcanon holo_ok strict sp alpha).
Notation sloop := (section_loop numcanon holo_ok strict sp alpha).
Notation pmark := (parse_section_marker numcanon holo_ok strict sp alpha).
Notation dloop := (doc_loop numcanon holo_ok strict sp alpha).
Notation num_ok := (num_ok numcanon).
Notation num_ok_v := (num_ok_v numcanon).

(* ---- scalars ------------------------------------------------------------------------------------------------------ *)
(* token kinds that may follow a one-token scalar in this fragment *)
Definition after_scalar (k : tkind) : bool := kin k [COMMA; LIST_END; NEWLINE; INDENT; COMMENT].

Lemma pv_scalar2 f st t nt r sv :
  ptoks st = t :: nt :: r -> tmatch t (sval_sh sv) -> after_scalar (tk nt) = true -> num_ok sv ->
  pv (S f) st = POk (val_of sv) (adv st).
Proof.
  intros Hts [Hk Hv] Hn Hnum.
  cbn [parse_value].
  rewrite (cur_hd _ _ _ Hts), (peek1_hd _ _ _ _ Hts).
  destruct sv as [|b|isf c|s]; cbn in Hk, Hv; rewrite Hk; cbv beta iota.
  - destruct (tk nt); try discriminate Hn; reflexivity.
  - rewrite Hv. destruct (tk nt); try discriminate Hn; reflexivity.
  - rewrite Hv. cbn in Hnum. rewrite Hnum. destruct (tk nt); try discriminate Hn; reflexivity.
  - unfold text_of; rewrite Hv. destruct (tk nt); try discriminate Hn; reflexivity.
Qed.

Lemma vsh_sval v s : sval_of v = Some s -> vsh v = sval_sh s.
Proof. unfold vsh. intros ->. reflexivity. Qed.

(* ---- lists of scalars ---------------------------------------------------------------------------------------------- *)
Lemma pv_list_eq f st : ck st = LIST_START -> pv (S f) st = plist f st.
Proof. unfold ck. intros H. cbn [parse_value]. rewrite H. reflexivity. Qed.

Lemma plist_eq f st :
  plist (S f) st =
      let start_toks := ptoks st in
      let start_pos := ppos st in
      let bt := cur st in
      do (_, st1) <- expect LIST_START st;
      let depth := pbdepth st1 + 1 in
      let st2 := set_depth depth st1 in
      if max_nesting <=? depth then err_at (lit "E_MAX_NESTING_EXCEEDED") bt
      else
        let st3 :=
          if (nesting_threshold <=? depth) && negb (memb (tline bt) (pwarned st2)) then
            warn (mkW 6 (tline bt) (tcol bt) [] [] [] [depth])
                 (mkPS (ptoks st2) (pprev st2) (ppos st2) (pwarns st2) (pbdepth st2) (tline bt :: pwarned st2))
          else st2 in
        do (items, st4) <- plloop f [] st3;
        do (_, st5) <-
           (if is LIST_END st4 then POk tt (set_depth (pbdepth st4 - 1) (adv st4))
            else
              let st' := set_depth (pbdepth st4 - 1) st4 in
              if strict then err_at e007p (cur st4)
              else POk tt (warn (mkW 3 (tline (cur st4)) (tcol (cur st4)) [] [] [] []) st'));
        let slice := firstn (N.to_nat (ppos st5 - start_pos)) start_toks in
        match try_holographic holo_ok slice with
        | Some raw => POk (VHolo raw) st5
        | None => POk (VList items) st5
        end.
Proof. reflexivity. Qed.

Lemma plloop_eq f acc st :
  plloop (S f) acc st =
      let st1 := skip_kinds [NEWLINE; INDENT; COMMENT] (fuel_of st) st in
      if kin (ck st1) [LIST_END; EOF; ENVELOPE_END] then POk (rev acc) st1
      else
        do (item, st2) <- plitem f st1;
        if is COMMA st2 then plloop f (item :: acc) (adv st2)
        else if is LIST_END st2 then POk (rev (item :: acc)) st2
        else if is EOF st2 then POk (rev (item :: acc)) st2
        else plloop f (item :: acc) st2.
Proof. reflexivity. Qed.

Lemma plitem_scalar f st t nt r :
  ptoks st = t :: nt :: r -> kin (tk t) [NULL; BOOLEAN; NUMBER; STRING] = true -> after_scalar (tk nt) = true ->
  plitem (S f) st = pv f st.
Proof.
  intros Hst Hk Hn. cbn [parse_list_item]. rewrite (is_hd _ _ _ IDENTIFIER Hst), (is_hd _ _ _ NUMBER Hst), (peek1_hd _ _ _ _ Hst).
  destruct (tk t); try discriminate Hk; cbn [tkind_eqb tkind_code N.eqb Pos.eqb andb orb]; try reflexivity.
  destruct (tk nt); try discriminate Hn; reflexivity.
Qed.


Ltac is_step H Hk :=
  repeat rewrite (is_hd _ _ _ _ H); rewrite ?Hk;
  cbn [tkind_eqb tkind_code N.eqb Pos.eqb orb andb negb kin existsb].

Definition skip_sh (l : list sh) : bool := forallb (fun s => kin (fst s) [NEWLINE; INDENT; COMMENT]) l.
Lemma skip_toks ts l : Forall2 tmatch ts l -> skip_sh l = true ->
  Forall (fun x => kin (tk x) [NEWLINE; INDENT; COMMENT] = true /\ tk x <> EOF) ts.
Proof.
  induction 1 as [|t s ts l [Hk _] _ IH]; intros Hs; [constructor|].
  cbn [skip_sh forallb] in Hs. apply andb_prop in Hs. destruct Hs as [H1 H2].
  constructor; [|apply IH; exact H2]. rewrite Hk. split; [exact H1|]. intros E. rewrite E in H1. discriminate H1.
Qed.
Lemma skip_sh_app a b : skip_sh (a ++ b) = skip_sh a && skip_sh b.
Proof. apply forallb_app. Qed.
Lemma skip_indent D : skip_sh (indent_sh D) = true.
Proof. destruct D; reflexivity. Qed.

Lemma scalar_kind v s t : sval_of v = Some s -> tmatch t (sval_sh s) -> kin (tk t) [NULL; BOOLEAN; NUMBER; STRING] = true.
Proof. intros _ [Hk _]. rewrite Hk. destruct s; reflexivity. Qed.

Lemma fuel_of_ge st ts r : ptoks st = ts ++ r -> (length ts <= fuel_of st)%nat.
Proof. intros H. rewrite (fuel_of_toks _ _ H), app_length. lia. Qed.

Lemma plloop_body pre2 postlast : skip_sh pre2 = true -> skip_sh postlast = true ->
  forall items pre f acc st ts r,
  skip_sh pre = true -> forallb is_scalar items = true -> Forall num_ok_v items ->
  (length items + 2 <= f)%nat ->
  Forall2 tmatch ts (body_sh pre2 postlast pre items) -> r <> [] ->
  ptoks st = ts ++ r ->
  exists st' tE ts0, plloop f acc st = POk (rev acc ++ items) st' /\ ts = ts0 ++ [tE] /\ tk tE = LIST_END /\
                     ptoks st' = tE :: r /\ moved (length ts0) st st'.
Proof.
  intros Hpre2 Hpl. induction items as [|x xs IH]; intros pre f acc st ts r Hpre Hsc Hnum Hf Hts Hr Hst.
  - cbn [body_sh] in Hts. apply Forall2_app_inv_r in Hts. destruct Hts as (tsp & tse & Htsp & Htse & ->).
    inversion Htse as [|tE ? ? ? [HEk _] Hnil]; subst. inversion Hnil; subst. cbn [fst] in HEk.
    destruct f as [|f]; [lia|]. rewrite plloop_eq. cbv zeta.
    rewrite <- app_assoc in Hst. cbn [app] in Hst.
    destruct (skip_many [NEWLINE; INDENT; COMMENT] tsp st tE r (fuel_of st) Hst (skip_toks _ _ Htsp Hpre)) as (st1 & Hs & Hp & Hm);
      [rewrite HEk; reflexivity|exact (fuel_of_ge _ _ _ Hst)|].
    rewrite Hs. clear Hs. unfold ck. rewrite (cur_hd _ _ _ Hp), HEk. cbn [kin existsb tkind_eqb tkind_code N.eqb Pos.eqb orb].
    exists st1, tE, tsp. rewrite app_nil_r. repeat split; try assumption; apply Hm.
  - cbn [forallb] in Hsc. apply andb_prop in Hsc. destruct Hsc as [Hx Hxs].
    inversion Hnum as [|? ? Hnx Hnxs]; subst.
    unfold is_scalar in Hx. destruct (sval_of x) as [sv|] eqn:Esv; [|discriminate Hx].
    unfold TokRound.num_ok_v in Hnx. rewrite Esv in Hnx.
    cbn [body_sh] in Hts. apply Forall2_app_inv_r in Hts. destruct Hts as (tsp & ts1 & Htsp & Hts1 & ->).
    rewrite (vsh_sval _ _ Esv) in Hts1. cbn [app] in Hts1. inversion Hts1 as [|tx ? ts2 ? Hx1 Hts2]; subst.
    destruct f as [|[|[|f]]]; cbn [length] in Hf; try lia.
    rewrite plloop_eq. cbv zeta.
    rewrite <- app_assoc in Hst. rewrite <- app_comm_cons in Hst.
    destruct (skip_many [NEWLINE; INDENT; COMMENT] tsp st tx (ts2 ++ r) (fuel_of st) Hst (skip_toks _ _ Htsp Hpre)) as (st1 & Hs & Hp & Hm);
      [pose proof (scalar_kind _ _ _ Esv Hx1) as K; destruct (tk tx); try discriminate K; reflexivity|exact (fuel_of_ge _ _ _ Hst)|].
    rewrite Hs. clear Hs. unfold ck. rewrite (cur_hd _ _ _ Hp).
    assert (K1 : kin (tk tx) [LIST_END; EOF; ENVELOPE_END] = false)
      by (pose proof (scalar_kind _ _ _ Esv Hx1) as K; destruct (tk tx); try discriminate K; reflexivity).
    rewrite K1.
    destruct xs as [|y ys].
    + (* last item *)
      apply Forall2_app_inv_r in Hts2. destruct Hts2 as (tpl & tse & Htpl & Htse & ->).
      inversion Htse as [|tE ? ? ? [HEk _] Hnil]; subst. inversion Hnil; subst. cbn [fst] in HEk.
      rewrite <- app_assoc in Hp. cbn [app] in Hp.
      destruct tpl as [|tp tpl'].
      * cbn [app] in Hp.
        rewrite (plitem_scalar _ _ _ _ _ Hp (scalar_kind _ _ _ Esv Hx1)); [|rewrite HEk; reflexivity].
        rewrite (pv_scalar2 _ _ _ _ _ sv Hp Hx1); [|rewrite HEk; reflexivity|exact Hnx].
        cbn [bind]. pose proof (adv_toks _ _ _ _ Hp) as H2.
        is_step H2 HEk. rewrite (sval_of_val _ _ Esv).
        exists (adv st1), tE, (tsp ++ [tx]). cbn [rev]. rewrite <- !app_assoc. cbn [app].
        split; [reflexivity|]. split; [reflexivity|]. split; [assumption|]. split; [assumption|].
        rewrite app_length. cbn [length]. eapply moved_trans; [exact Hm|exact (moved_adv _ _ _ _ Hp)].
      * assert (Kp : kin (tk tp) [NEWLINE; INDENT; COMMENT] = true).
        { pose proof (skip_toks _ _ Htpl Hpl) as Fp. inversion Fp as [|? ? [Kp _] _]. exact Kp. }
        cbn [app] in Hp.
        rewrite (plitem_scalar _ _ _ _ _ Hp (scalar_kind _ _ _ Esv Hx1)); [|destruct (tk tp); try discriminate Kp; reflexivity].
        rewrite (pv_scalar2 _ _ _ _ _ sv Hp Hx1); [|destruct (tk tp); try discriminate Kp; reflexivity|exact Hnx].
        cbn [bind]. pose proof (adv_toks _ _ _ _ Hp) as H2.
        rewrite (is_hd _ _ _ COMMA H2), (is_hd _ _ _ LIST_END H2), (is_hd _ _ _ EOF H2).
        assert (K2 : tkind_eqb (tk tp) COMMA = false /\ tkind_eqb (tk tp) LIST_END = false /\ tkind_eqb (tk tp) EOF = false)
          by (destruct (tk tp); try discriminate Kp; repeat split).
        destruct K2 as (-> & -> & ->).
        destruct (IH postlast (S (S f)) (x :: acc) (adv st1) ((tp :: tpl') ++ [tE]) r Hpl eq_refl (Forall_nil _)) as (st' & tE' & ts0 & Hl & Ets & HE' & Hp' & Hm');
          [cbn [length]; lia| |exact Hr|rewrite H2, <- app_assoc; reflexivity|].
        { cbn [body_sh]. apply Forall2_app; [exact Htpl|]. constructor; [split; [exact HEk|exact I]|constructor]. }
        apply app_inj_tail in Ets. destruct Ets as [<- <-].
        rewrite (sval_of_val _ _ Esv), Hl.
        exists st', tE, (tsp ++ tx :: tp :: tpl'). cbn [rev]. rewrite <- !app_assoc. cbn [app].
        split; [reflexivity|]. split; [reflexivity|]. split; [assumption|]. split; [assumption|].
        rewrite app_length. cbn [length]. replace (S (S (length tpl'))) with (1 + length (tp :: tpl'))%nat by reflexivity.
        eapply moved_trans; [exact Hm|]. eapply moved_trans; [exact (moved_adv _ _ _ _ Hp)|exact Hm'].
    + (* more items follow: COMMA *)
      inversion Hts2 as [|tc ? ts3 ? [Hck _] Hts3]; subst. cbn [fst] in Hck.
      cbn [app] in Hp.
      rewrite (plitem_scalar _ _ _ _ _ Hp (scalar_kind _ _ _ Esv Hx1)); [|rewrite Hck; reflexivity].
      rewrite (pv_scalar2 _ _ _ _ _ sv Hp Hx1); [|rewrite Hck; reflexivity|exact Hnx].
      cbn [bind]. pose proof (adv_toks _ _ _ _ Hp) as H2.
      is_step H2 Hck.
      assert (Hne : exists t3 r3, ts3 ++ r = t3 :: r3) by (destruct r; [congruence|]; destruct ts3; cbn [app]; eauto).
      destruct Hne as (t3 & r3 & E3). rewrite E3 in H2. pose proof (adv_toks _ _ _ _ H2) as H3. rewrite <- E3 in H3.
      destruct (IH pre2 (S (S f)) (x :: acc) (adv (adv st1)) ts3 r Hpre2 Hxs Hnxs) as (st' & tE & ts0 & Hl & Ets & HE & Hp' & Hm');
        [cbn [length] in *; lia|exact Hts3|exact Hr|exact H3|].
      rewrite (sval_of_val _ _ Esv), Hl. subst ts3.
      exists st', tE, (tsp ++ tx :: tc :: ts0). cbn [rev]. rewrite <- !app_assoc. cbn [app].
      split; [reflexivity|]. split; [reflexivity|]. split; [assumption|]. split; [assumption|].
      rewrite app_length. cbn [length]. replace (S (S (length ts0))) with (1 + (1 + length ts0))%nat by reflexivity.
      eapply moved_trans; [exact Hm|]. eapply moved_trans; [exact (moved_adv _ _ _ _ Hp)|].
      eapply moved_trans; [exact (moved_adv _ _ _ _ H2)|exact Hm'].
Qed.

End Core2.
