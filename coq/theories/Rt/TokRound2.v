(* Token-level read-back theorem, parser half, for a WIDER fragment than Rt/TokRound.v ("core2 documents"), at every
   nesting depth and every list length.  Added to the core fragment:
     stage 1  comments: leading comments on assignments / blocks / sections (own lines at the node's indent),
              trailing comments on assignments (same line), trailing document comments before ===END===;
     stage 2  assignment values that are lists of one-token scalars, in the INLINE layout  [a,b]  and in the MULTI-LINE
              layout  [ NL INDENT a , NL INDENT b NL INDENT ]  (the layout is chosen by an ARBITRARY function `ml`; the
              emitter's choice `needs_multiline` is one instance);
     stage 3  section markers  SECTION id ASSIGN key [annotation] NEWLINE children  (read through section_loop);
     stage 4  a META block with scalar / scalar-list fields (read through parse_meta_block / meta_loop).
   Token positions and the payload of structural tokens are arbitrary, as in TokRound.v.

   Excluded layouts (each with a `_refuted` witness in Rt/TokRound2Ex.v): a comment line at column 0 directly after the
   last descendant of a top-level block / section (comment-dedent class: block_loop / section_loop take COMMENT into
   `pending` before looking at the indent and flush it as NComment children), `Some []` trailing comments and
   annotations (emitted as nothing), empty bodies. *)
From OV Require Import Base.Strs Lex.Lexer Syn.Ast Syn.Parser Rt.TokRound.
From Coq Require Import Lia.
Require Coq.Strings.String.
Import Coq.Strings.String.StringSyntax.
Open Scope N_scope.

(* ---- state bookkeeping: what a step may change ---------------------------------------------------------------- *)
(* `moved n st st'`: n tokens were consumed, nothing else changed (no warning, same bracket depth) *)
Definition moved (n : nat) (st st' : pstate) : Prop :=
  pwarns st' = pwarns st /\ pbdepth st' = pbdepth st /\ ppos st' = ppos st + N.of_nat n.
Lemma moved_refl st : moved 0 st st.
Proof. unfold moved. cbn. rewrite N.add_0_r. repeat split. Qed.
Lemma moved_trans n m a b c : moved n a b -> moved m b c -> moved (n + m) a c.
Proof. unfold moved. intros (H1 & H2 & H3) (H4 & H5 & H6). rewrite H4, H5, H6, H1, H2, H3. repeat split. lia. Qed.
Lemma moved_adv st t t2 r : ptoks st = t :: t2 :: r -> moved 1 st (adv st).
Proof. unfold moved, adv. intros ->. cbn. repeat split. Qed.

(* `sext st st'`: warnings grow by advisory records only and the bracket depth is unchanged *)
Definition sext (st st' : pstate) : Prop := wext st st' /\ pbdepth st' = pbdepth st.
Lemma sext_refl st : sext st st.
Proof. split; [apply wext_refl|reflexivity]. Qed.
Lemma sext_trans a b c : sext a b -> sext b c -> sext a c.
Proof. intros [W1 D1] [W2 D2]. split; [eapply wext_trans; eassumption|congruence]. Qed.
Lemma adv_depth st : pbdepth (adv st) = pbdepth st.
Proof. unfold adv. destruct (ptoks st) as [|t [|t2 r]]; reflexivity. Qed.
Lemma sext_adv st : sext st (adv st).
Proof. split; [apply wext_adv|apply adv_depth]. Qed.
Lemma sext_warn w st : advisory w -> sext st (warn w st).
Proof. intros H. split; [apply wext_warn; exact H|reflexivity]. Qed.
Lemma sext_track_dup k l pos st : sext st (snd (track_dup k l pos st)).
Proof. split; [apply wext_track_dup|]. unfold track_dup. destruct (find _ pos) as [[? ?]|]; reflexivity. Qed.
Lemma moved_sext n st st' : moved n st st' -> sext st st'.
Proof. intros (H1 & H2 & _). split; [exists []; split; [exact H1|constructor]|exact H2]. Qed.

Ltac sadv := repeat first [apply sext_refl | apply sext_adv | (eapply sext_trans; [|apply sext_adv])].

(* ---- skipping a run of skippable tokens ------------------------------------------------------------------------- *)
Lemma skip_many ks : forall sk st t r f,
  ptoks st = sk ++ t :: r -> Forall (fun x => kin (tk x) ks = true /\ tk x <> EOF) sk -> kin (tk t) ks = false ->
  (length sk <= f)%nat ->
  exists st', skip_kinds ks f st = st' /\ ptoks st' = t :: r /\ moved (length sk) st st'.
Proof.
  induction sk as [|x sk IH]; intros st t r f Hst Hsk Ht Hf.
  - cbn [app] in Hst. exists st. split; [exact (skip_stop _ _ _ _ _ Hst Ht)|]. split; [exact Hst|apply moved_refl].
  - inversion Hsk as [|? ? [Hx Hne] Hsk']; subst. cbn [length] in Hf. destruct f as [|f]; [lia|].
    assert (Hst2 : exists t2 r2, sk ++ t :: r = t2 :: r2) by (destruct sk; cbn [app]; eauto).
    destruct Hst2 as (t2 & r2 & E). cbn [app] in Hst. rewrite E in Hst.
    rewrite (skip_nl_step _ _ _ _ _ _ Hst Hx Hne).
    pose proof (adv_toks _ _ _ _ Hst) as H1. rewrite <- E in H1.
    destruct (IH (adv st) t r f H1 Hsk' Ht) as (st' & Hs & Hp & Hm); [lia|].
    exists st'. split; [exact Hs|]. split; [exact Hp|].
    change (length (x :: sk)) with (1 + length sk)%nat. eapply moved_trans; [exact (moved_adv _ _ _ _ Hst)|exact Hm].
Qed.

(* ---- values: one-token scalars and lists of one-token scalars --------------------------------------------------- *)
Definition is_scalar (v : value) : bool := match sval_of v with Some _ => true | None => false end.
Definition cval (v : value) : bool :=
  match v with VList items => forallb is_scalar items | _ => is_scalar v end.

Definition vsh (v : value) : sh := match sval_of v with Some s => sval_sh s | None => (EOF, None) end.

Section Shapes.
(* the layout choice for a non-empty list: true = multi-line.  ARBITRARY; Syn.Emitter.needs_multiline is one instance *)
Variable ml : list value -> bool.
(* which section ids reach the parser as a NUMBER token (the others as IDENTIFIER).  ARBITRARY. *)
Variable idnum : str -> bool.

(* tokens of a bracket body read by parse_list_loop, starting with the skippable run `pre`; `pre2` precedes every later
   item, `postlast` follows the last item *)
Fixpoint body_sh (pre2 postlast pre : list sh) (items : list value) : list sh :=
  match items with
  | [] => pre ++ [(LIST_END, None)]
  | x :: r => pre ++ [vsh x] ++
              match r with
              | [] => postlast ++ [(LIST_END, None)]
              | _ => (COMMA, None) :: body_sh pre2 postlast pre2 r
              end
  end.

Definition nl_sh : list sh := [(NEWLINE, None)].
Definition val_sh (D : nat) (v : value) : list sh :=
  match v with
  | VList [] => [(LIST_START, None); (LIST_END, None)]
  | VList items =>
      if ml items then
        (LIST_START, None) :: body_sh (nl_sh ++ indent_sh (S D)) (nl_sh ++ indent_sh D) (nl_sh ++ indent_sh (S D)) items
      else (LIST_START, None) :: body_sh [] [] [] items
  | _ => [vsh v]
  end.

Definition lead_sh (D : nat) (cs : list str) : list sh :=
  flat_map (fun c => indent_sh D ++ [(COMMENT, Some (TVText c)); (NEWLINE, None)]) cs.
Definition trail_sh (t : option str) : list sh :=
  match t with Some c => [(COMMENT, Some (TVText c))] | None => [] end.
Definition annot_sh (a : option str) : list sh :=
  match a with Some x => [(LIST_START, None); (IDENTIFIER, Some (TVText x)); (LIST_END, None)] | None => [] end.
Definition id_sh (i : str) : sh := if idnum i then (NUMBER, Some (TVNum i)) else (IDENTIFIER, Some (TVText i)).

Definition lead_of (n : node) : list str :=
  match n with NAssign _ _ l _ => l | NBlock _ _ _ l => l | NSection _ _ _ _ l => l | NComment _ => [] end.

(* main_sh: the node from its first own token (after the INDENT of its header line) *)
Fixpoint main_sh (D : nat) (n : node) : list sh :=
  match n with
  | NAssign k v _ t => [(IDENTIFIER, Some (TVText k)); (ASSIGN, None)] ++ val_sh D v ++ trail_sh t ++ [(NEWLINE, None)]
  | NBlock k _ ch _ =>
      [(IDENTIFIER, Some (TVText k)); (BLOCK, None); (NEWLINE, None)] ++
      flat_map (fun c => lead_sh (S D) (lead_of c) ++ indent_sh (S D) ++ main_sh (S D) c) ch
  | NSection i k a ch _ =>
      [(SECTION, None); id_sh i; (ASSIGN, None); (IDENTIFIER, Some (TVText k))] ++ annot_sh a ++ [(NEWLINE, None)] ++
      flat_map (fun c => lead_sh (S D) (lead_of c) ++ indent_sh (S D) ++ main_sh (S D) c) ch
  | NComment _ => []
  end.
Definition node_sh2 (D : nat) (n : node) : list sh := lead_sh D (lead_of n) ++ indent_sh D ++ main_sh D n.
Definition nodes_sh2 (D : nat) (ns : list node) : list sh := flat_map (node_sh2 D) ns.

Lemma main_sh_block D k t ch l :
  main_sh D (NBlock k t ch l) = [(IDENTIFIER, Some (TVText k)); (BLOCK, None); (NEWLINE, None)] ++ nodes_sh2 (S D) ch.
Proof. reflexivity. Qed.
Lemma main_sh_section D i k a ch l :
  main_sh D (NSection i k a ch l) =
  [(SECTION, None); id_sh i; (ASSIGN, None); (IDENTIFIER, Some (TVText k))] ++ annot_sh a ++ [(NEWLINE, None)] ++ nodes_sh2 (S D) ch.
Proof. reflexivity. Qed.

(* ---- the fragment ------------------------------------------------------------------------------------------------ *)
Definition is_nil {A} (l : list A) : bool := match l with [] => true | _ => false end.
(* `Some []` (a trailing comment / annotation that is present but empty) is emitted as nothing and read back as None *)
Definition opt_ne (o : option str) : bool := match o with Some [] => false | _ => true end.

Fixpoint core2_node (n : node) : bool :=
  match n with
  | NAssign k v _ t => cval v && opt_ne t
  | NBlock k None ch _ => negb (is_nil ch) && forallb core2_node ch
  | NSection i k a ch _ => opt_ne a && (negb (is_nil ch) && forallb core2_node ch)
  | _ => false
  end.

Definition is_container (n : node) : bool :=
  match n with NBlock _ _ _ _ => true | NSection _ _ _ _ _ => true | _ => false end.
(* comment-dedent: no comment line at column 0 directly after the last descendant of a top-level block / section *)
Fixpoint top_ok (ns : list node) (tr : list str) : bool :=
  match ns with
  | [] => true
  | a :: r => (if is_container a then match r with b :: _ => is_nil (lead_of b) | [] => is_nil tr end else true) && top_ok r tr
  end.

(* the first body token must not be the identifier META when parse_document looks for a META block there *)
Definition first_key_not_meta2 (ns : list node) : bool :=
  match ns with
  | NAssign k _ [] _ :: _ => negb (str_eqb k (lit "META"))
  | NBlock k _ _ [] :: _ => negb (str_eqb k (lit "META"))
  | _ => true
  end.

Definition meta_field_ok (kv : str * metaval) : bool := match snd kv with MV v => cval v | MD _ => false end.
Fixpoint nodupb (l : list str) : bool := match l with [] => true | x :: r => negb (str_in x r) && nodupb r end.

Definition core2_doc (d : doc) : bool :=
  match dfront d with
  | None =>
      forallb core2_node (dsections d) && top_ok (dsections d) (dtrailing d) &&
      forallb meta_field_ok (dmeta d) && nodupb (map fst (dmeta d)) &&
      (negb (is_nil (dmeta d)) || dsep d || first_key_not_meta2 (dsections d))
  | Some _ => false
  end.

Definition meta_sh (m : list (str * metaval)) : list sh :=
  match m with
  | [] => []
  | _ => [(IDENTIFIER, Some (TVText (lit "META"))); (BLOCK, None); (NEWLINE, None)] ++
         flat_map (fun kv => indent_sh 1 ++ [(IDENTIFIER, Some (TVText (fst kv))); (ASSIGN, None)] ++
                             (match snd kv with MV v => val_sh 1 v | MD _ => [] end) ++ [(NEWLINE, None)]) m
  end.

Definition doc2_sh (d : doc) : list sh :=
  (match dgrammar d with Some g => [(GRAMMAR_SENTINEL, Some (TVText g)); (NEWLINE, None)] | None => [] end) ++
  [(ENVELOPE_START, Some (TVText (dname d))); (NEWLINE, None)] ++
  meta_sh (dmeta d) ++
  (if dsep d then [(SEPARATOR, None); (NEWLINE, None)] else []) ++
  nodes_sh2 0 (dsections d) ++ lead_sh 0 (dtrailing d) ++ [(ENVELOPE_END, None)].
End Shapes.

Section Core2.
Variable numcanon : str -> option (bool * str).
Variable holo_ok : str -> bool.
Variable strict : bool.
Variable sp alpha : N -> bool.
Variable ml : list value -> bool.
Variable idnum : str -> bool.

Notation pv := (parse_value numcanon holo_ok strict sp).
Notation plist := (parse_list numcanon holo_ok strict sp).
Notation plloop := (parse_list_loop numcanon holo_ok strict sp).
Notation plitem := (parse_list_item numcanon holo_ok strict sp).
Notation psec := (parse_section numcanon holo_ok strict sp alpha).
Notation bloop := (block_loop numcanon holo_ok strict sp alpha).
Notation sloop := (section_loop numcanon holo_ok strict sp alpha).
Notation pmark := (parse_section_marker numcanon holo_ok strict sp alpha).
Notation dloop := (doc_loop numcanon holo_ok strict sp alpha).
Notation num_ok := (num_ok numcanon).
Notation num_ok_v := (num_ok_v numcanon).

(* ---- scalars ------------------------------------------------------------------------------------------------------ *)
(* token kinds that may follow a one-token scalar in this fragment *)
Definition after_scalar (k : tkind) : bool := kin k [COMMA; LIST_END; NEWLINE; INDENT; COMMENT].

Lemma pv_scalar2 f st t nt r sv :
  ptoks st = t :: nt :: r -> tmatch t (sval_sh sv) -> after_scalar (tk nt) = true -> num_ok sv ->
  pv (S f) st = POk (val_of sv) (adv st).
Proof.
  intros Hts [Hk Hv] Hn Hnum.
  cbn [parse_value].
  rewrite (cur_hd _ _ _ Hts), (peek1_hd _ _ _ _ Hts).
  destruct sv as [|b|isf c|s]; cbn in Hk, Hv; rewrite Hk; cbv beta iota.
  - destruct (tk nt); try discriminate Hn; reflexivity.
  - rewrite Hv. destruct (tk nt); try discriminate Hn; reflexivity.
  - rewrite Hv. cbn in Hnum. rewrite Hnum. destruct (tk nt); try discriminate Hn; reflexivity.
  - unfold text_of; rewrite Hv. destruct (tk nt); try discriminate Hn; reflexivity.
Qed.

Lemma vsh_sval v s : sval_of v = Some s -> vsh v = sval_sh s.
Proof. unfold vsh. intros ->. reflexivity. Qed.

(* ---- lists of scalars ---------------------------------------------------------------------------------------------- *)
Lemma pv_list_eq f st : ck st = LIST_START -> pv (S f) st = plist f st.
Proof. unfold ck. intros H. cbn [parse_value]. rewrite H. reflexivity. Qed.

Lemma plist_eq f st :
  plist (S f) st =
      let start_toks := ptoks st in
      let start_pos := ppos st in
      let bt := cur st in
      do (_, st1) <- expect LIST_START st;
      let depth := pbdepth st1 + 1 in
      let st2 := set_depth depth st1 in
      if max_nesting <=? depth then err_at (lit "E_MAX_NESTING_EXCEEDED") bt
      else
        let st3 :=
          if (nesting_threshold <=? depth) && negb (memb (tline bt) (pwarned st2)) then
            warn (mkW 6 (tline bt) (tcol bt) [] [] [] [depth])
                 (mkPS (ptoks st2) (pprev st2) (ppos st2) (pwarns st2) (pbdepth st2) (tline bt :: pwarned st2))
          else st2 in
        do (items, st4) <- plloop f [] st3;
        do (_, st5) <-
           (if is LIST_END st4 then POk tt (set_depth (pbdepth st4 - 1) (adv st4))
            else
              let st' := set_depth (pbdepth st4 - 1) st4 in
              if strict then err_at e007p (cur st4)
              else POk tt (warn (mkW 3 (tline (cur st4)) (tcol (cur st4)) [] [] [] []) st'));
        let slice := firstn (N.to_nat (ppos st5 - start_pos)) start_toks in
        match try_holographic holo_ok slice with
        | Some raw => POk (VHolo raw) st5
        | None => POk (VList items) st5
        end.
Proof. reflexivity. Qed.

Lemma plloop_eq f acc st :
  plloop (S f) acc st =
      let st1 := skip_kinds [NEWLINE; INDENT; COMMENT] (fuel_of st) st in
      if kin (ck st1) [LIST_END; EOF; ENVELOPE_END] then POk (rev acc) st1
      else
        do (item, st2) <- plitem f st1;
        if is COMMA st2 then plloop f (item :: acc) (adv st2)
        else if is LIST_END st2 then POk (rev (item :: acc)) st2
        else if is EOF st2 then POk (rev (item :: acc)) st2
        else plloop f (item :: acc) st2.
Proof. reflexivity. Qed.

Lemma plitem_scalar f st t nt r :
  ptoks st = t :: nt :: r -> kin (tk t) [NULL; BOOLEAN; NUMBER; STRING] = true -> after_scalar (tk nt) = true ->
  plitem (S f) st = pv f st.
Proof.
  intros Hst Hk Hn. cbn [parse_list_item]. rewrite (is_hd _ _ _ IDENTIFIER Hst), (is_hd _ _ _ NUMBER Hst), (peek1_hd _ _ _ _ Hst).
  destruct (tk t); try discriminate Hk; cbn [tkind_eqb tkind_code N.eqb Pos.eqb andb orb]; try reflexivity.
  destruct (tk nt); try discriminate Hn; reflexivity.
Qed.


Ltac is_step H Hk :=
  repeat rewrite (is_hd _ _ _ _ H); rewrite ?Hk;
  cbn [tkind_eqb tkind_code N.eqb Pos.eqb orb andb negb kin existsb].

Definition skip_sh (l : list sh) : bool := forallb (fun s => kin (fst s) [NEWLINE; INDENT; COMMENT]) l.
Lemma skip_toks ts l : Forall2 tmatch ts l -> skip_sh l = true ->
  Forall (fun x => kin (tk x) [NEWLINE; INDENT; COMMENT] = true /\ tk x <> EOF) ts.
Proof.
  induction 1 as [|t s ts l [Hk _] _ IH]; intros Hs; [constructor|].
  cbn [skip_sh forallb] in Hs. apply andb_prop in Hs. destruct Hs as [H1 H2].
  constructor; [|apply IH; exact H2]. rewrite Hk. split; [exact H1|]. intros E. rewrite E in H1. discriminate H1.
Qed.
Lemma skip_sh_app a b : skip_sh (a ++ b) = skip_sh a && skip_sh b.
Proof. apply forallb_app. Qed.
Lemma skip_indent D : skip_sh (indent_sh D) = true.
Proof. destruct D; reflexivity. Qed.

Lemma scalar_kind v s t : sval_of v = Some s -> tmatch t (sval_sh s) -> kin (tk t) [NULL; BOOLEAN; NUMBER; STRING] = true.
Proof. intros _ [Hk _]. rewrite Hk. destruct s; reflexivity. Qed.

Lemma fuel_of_ge st ts r : ptoks st = ts ++ r -> (length ts <= fuel_of st)%nat.
Proof. intros H. rewrite (fuel_of_toks _ _ H), app_length. lia. Qed.

Lemma plloop_body pre2 postlast : skip_sh pre2 = true -> skip_sh postlast = true ->
  forall items pre f acc st ts r,
  skip_sh pre = true -> forallb is_scalar items = true -> Forall num_ok_v items ->
  (length items + 2 <= f)%nat ->
  Forall2 tmatch ts (body_sh pre2 postlast pre items) -> r <> [] ->
  ptoks st = ts ++ r ->
  exists st' tE ts0, plloop f acc st = POk (rev acc ++ items) st' /\ ts = ts0 ++ [tE] /\ tk tE = LIST_END /\
                     ptoks st' = tE :: r /\ moved (length ts0) st st'.
Proof.
  intros Hpre2 Hpl. induction items as [|x xs IH]; intros pre f acc st ts r Hpre Hsc Hnum Hf Hts Hr Hst.
  - cbn [body_sh] in Hts. apply Forall2_app_inv_r in Hts. destruct Hts as (tsp & tse & Htsp & Htse & ->).
    inversion Htse as [|tE ? ? ? [HEk _] Hnil]; subst. inversion Hnil; subst. cbn [fst] in HEk.
    destruct f as [|f]; [lia|]. rewrite plloop_eq. cbv zeta.
    rewrite <- app_assoc in Hst. cbn [app] in Hst.
    destruct (skip_many [NEWLINE; INDENT; COMMENT] tsp st tE r (fuel_of st) Hst (skip_toks _ _ Htsp Hpre)) as (st1 & Hs & Hp & Hm);
      [rewrite HEk; reflexivity|exact (fuel_of_ge _ _ _ Hst)|].
    rewrite Hs. clear Hs. unfold ck. rewrite (cur_hd _ _ _ Hp), HEk. cbn [kin existsb tkind_eqb tkind_code N.eqb Pos.eqb orb].
    exists st1, tE, tsp. rewrite app_nil_r. repeat split; try assumption; apply Hm.
  - cbn [forallb] in Hsc. apply andb_prop in Hsc. destruct Hsc as [Hx Hxs].
    inversion Hnum as [|? ? Hnx Hnxs]; subst.
    unfold is_scalar in Hx. destruct (sval_of x) as [sv|] eqn:Esv; [|discriminate Hx].
    unfold TokRound.num_ok_v in Hnx. rewrite Esv in Hnx.
    cbn [body_sh] in Hts. apply Forall2_app_inv_r in Hts. destruct Hts as (tsp & ts1 & Htsp & Hts1 & ->).
    rewrite (vsh_sval _ _ Esv) in Hts1. cbn [app] in Hts1. inversion Hts1 as [|tx ? ts2 ? Hx1 Hts2]; subst.
    destruct f as [|[|[|f]]]; cbn [length] in Hf; try lia.
    rewrite plloop_eq. cbv zeta.
    rewrite <- app_assoc in Hst. rewrite <- app_comm_cons in Hst.
    destruct (skip_many [NEWLINE; INDENT; COMMENT] tsp st tx (ts2 ++ r) (fuel_of st) Hst (skip_toks _ _ Htsp Hpre)) as (st1 & Hs & Hp & Hm);
      [pose proof (scalar_kind _ _ _ Esv Hx1) as K; destruct (tk tx); try discriminate K; reflexivity|exact (fuel_of_ge _ _ _ Hst)|].
    rewrite Hs. clear Hs. unfold ck. rewrite (cur_hd _ _ _ Hp).
    assert (K1 : kin (tk tx) [LIST_END; EOF; ENVELOPE_END] = false)
      by (pose proof (scalar_kind _ _ _ Esv Hx1) as K; destruct (tk tx); try discriminate K; reflexivity).
    rewrite K1.
    destruct xs as [|y ys].
    + (* last item *)
      apply Forall2_app_inv_r in Hts2. destruct Hts2 as (tpl & tse & Htpl & Htse & ->).
      inversion Htse as [|tE ? ? ? [HEk _] Hnil]; subst. inversion Hnil; subst. cbn [fst] in HEk.
      rewrite <- app_assoc in Hp. cbn [app] in Hp.
      destruct tpl as [|tp tpl'].
      * cbn [app] in Hp.
        rewrite (plitem_scalar _ _ _ _ _ Hp (scalar_kind _ _ _ Esv Hx1)); [|rewrite HEk; reflexivity].
        rewrite (pv_scalar2 _ _ _ _ _ sv Hp Hx1); [|rewrite HEk; reflexivity|exact Hnx].
        cbn [bind]. pose proof (adv_toks _ _ _ _ Hp) as H2.
        is_step H2 HEk. rewrite (sval_of_val _ _ Esv).
        exists (adv st1), tE, (tsp ++ [tx]). cbn [rev]. rewrite <- !app_assoc. cbn [app].
        split; [reflexivity|]. split; [reflexivity|]. split; [assumption|]. split; [assumption|].
        rewrite app_length. cbn [length]. eapply moved_trans; [exact Hm|exact (moved_adv _ _ _ _ Hp)].
      * assert (Kp : kin (tk tp) [NEWLINE; INDENT; COMMENT] = true).
        { pose proof (skip_toks _ _ Htpl Hpl) as Fp. inversion Fp as [|? ? [Kp _] _]. exact Kp. }
        cbn [app] in Hp.
        rewrite (plitem_scalar _ _ _ _ _ Hp (scalar_kind _ _ _ Esv Hx1)); [|destruct (tk tp); try discriminate Kp; reflexivity].
        rewrite (pv_scalar2 _ _ _ _ _ sv Hp Hx1); [|destruct (tk tp); try discriminate Kp; reflexivity|exact Hnx].
        cbn [bind]. pose proof (adv_toks _ _ _ _ Hp) as H2.
        rewrite (is_hd _ _ _ COMMA H2), (is_hd _ _ _ LIST_END H2), (is_hd _ _ _ EOF H2).
        assert (K2 : tkind_eqb (tk tp) COMMA = false /\ tkind_eqb (tk tp) LIST_END = false /\ tkind_eqb (tk tp) EOF = false)
          by (destruct (tk tp); try discriminate Kp; repeat split).
        destruct K2 as (-> & -> & ->).
        destruct (IH postlast (S (S f)) (x :: acc) (adv st1) ((tp :: tpl') ++ [tE]) r Hpl eq_refl (Forall_nil _)) as (st' & tE' & ts0 & Hl & Ets & HE' & Hp' & Hm');
          [cbn [length]; lia| |exact Hr|rewrite H2, <- app_assoc; reflexivity|].
        { cbn [body_sh]. apply Forall2_app; [exact Htpl|]. constructor; [split; [exact HEk|exact I]|constructor]. }
        apply app_inj_tail in Ets. destruct Ets as [<- <-].
        rewrite (sval_of_val _ _ Esv), Hl.
        exists st', tE, (tsp ++ tx :: tp :: tpl'). cbn [rev]. rewrite <- !app_assoc. cbn [app].
        split; [reflexivity|]. split; [reflexivity|]. split; [assumption|]. split; [assumption|].
        rewrite app_length. cbn [length]. replace (S (S (length tpl'))) with (1 + length (tp :: tpl'))%nat by reflexivity.
        eapply moved_trans; [exact Hm|]. eapply moved_trans; [exact (moved_adv _ _ _ _ Hp)|exact Hm'].
    + (* more items follow: COMMA *)
      inversion Hts2 as [|tc ? ts3 ? [Hck _] Hts3]; subst. cbn [fst] in Hck.
      cbn [app] in Hp.
      rewrite (plitem_scalar _ _ _ _ _ Hp (scalar_kind _ _ _ Esv Hx1)); [|rewrite Hck; reflexivity].
      rewrite (pv_scalar2 _ _ _ _ _ sv Hp Hx1); [|rewrite Hck; reflexivity|exact Hnx].
      cbn [bind]. pose proof (adv_toks _ _ _ _ Hp) as H2.
      is_step H2 Hck.
      assert (Hne : exists t3 r3, ts3 ++ r = t3 :: r3) by (destruct r; [congruence|]; destruct ts3; cbn [app]; eauto).
      destruct Hne as (t3 & r3 & E3). rewrite E3 in H2. pose proof (adv_toks _ _ _ _ H2) as H3. rewrite <- E3 in H3.
      destruct (IH pre2 (S (S f)) (x :: acc) (adv (adv st1)) ts3 r Hpre2 Hxs Hnxs) as (st' & tE & ts0 & Hl & Ets & HE & Hp' & Hm');
        [cbn [length] in *; lia|exact Hts3|exact Hr|exact H3|].
      rewrite (sval_of_val _ _ Esv), Hl. subst ts3.
      exists st', tE, (tsp ++ tx :: tc :: ts0). cbn [rev]. rewrite <- !app_assoc. cbn [app].
      split; [reflexivity|]. split; [reflexivity|]. split; [assumption|]. split; [assumption|].
      rewrite app_length. cbn [length]. replace (S (S (length ts0))) with (1 + (1 + length ts0))%nat by reflexivity.
      eapply moved_trans; [exact Hm|]. eapply moved_trans; [exact (moved_adv _ _ _ _ Hp)|].
      eapply moved_trans; [exact (moved_adv _ _ _ _ H2)|exact Hm'].
Qed.

Lemma body_len pre2 pl items : forall pre, (length items + 1 <= length (body_sh pre2 pl pre items))%nat.
Proof.
  induction items as [|x xs IH]; intros pre; cbn [body_sh]; rewrite !app_length; cbn [length]; [lia|].
  destruct xs as [|y ys]; [rewrite app_length; cbn [length]; lia|]. cbn [length]. specialize (IH pre2). cbn [length] in IH. lia.
Qed.

Definition nc_sh (l : list sh) : bool := forallb (fun s => negb (tkind_eqb (fst s) CONSTRAINT)) l.
Lemma skip_nc l : skip_sh l = true -> nc_sh l = true.
Proof.
  unfold skip_sh, nc_sh. induction l as [|s l IH]; [reflexivity|]. cbn [forallb]. intros H. apply andb_prop in H. destruct H as [H1 H2].
  rewrite (IH H2), Bool.andb_true_r. destruct (fst s); try discriminate H1; reflexivity.
Qed.
Lemma vsh_nc v : negb (tkind_eqb (fst (vsh v)) CONSTRAINT) = true.
Proof. unfold vsh. destruct (sval_of v) as [[| | |]|]; reflexivity. Qed.
Lemma nc_app a b : nc_sh (a ++ b) = nc_sh a && nc_sh b.
Proof. apply forallb_app. Qed.
Lemma nc_cons s l : nc_sh (s :: l) = negb (tkind_eqb (fst s) CONSTRAINT) && nc_sh l.
Proof. reflexivity. Qed.
Lemma body_nc pre2 pl : skip_sh pre2 = true -> skip_sh pl = true ->
  forall items pre, skip_sh pre = true -> nc_sh (body_sh pre2 pl pre items) = true.
Proof.
  intros H2 Hl. induction items as [|x xs IH]; intros pre Hp; cbn [body_sh]; rewrite !nc_app.
  - rewrite (skip_nc _ Hp). reflexivity.
  - rewrite (skip_nc _ Hp), nc_cons, vsh_nc. cbn [andb nc_sh forallb].
    destruct xs as [|y ys]; [rewrite nc_app, (skip_nc _ Hl); reflexivity|]. rewrite nc_cons, (IH pre2 H2). reflexivity.
Qed.
Lemma no_constraint ts l : Forall2 tmatch ts l -> nc_sh l = true -> existsb (fun t => tkind_eqb (tk t) CONSTRAINT) ts = false.
Proof.
  induction 1 as [|t s ts l [Hk _] _ IH]; intros Hs; [reflexivity|].
  cbn [nc_sh forallb] in Hs. apply andb_prop in Hs. destruct Hs as [H1 H2]. cbn [existsb]. rewrite (IH H2), Hk.
  apply Bool.negb_true_iff in H1. rewrite H1. reflexivity.
Qed.

Lemma val_sh_list D items :
  exists p2 pl p, skip_sh p2 = true /\ skip_sh pl = true /\ skip_sh p = true /\
                  val_sh ml D (VList items) = (LIST_START, None) :: body_sh p2 pl p items.
Proof.
  destruct items as [|x xs].
  - exists [], [], []. repeat split.
  - cbn [val_sh]. destruct (ml (x :: xs)).
    + exists (nl_sh ++ indent_sh (S D)), (nl_sh ++ indent_sh D), (nl_sh ++ indent_sh (S D)).
      rewrite !skip_sh_app, !skip_indent. repeat split.
    + exists [], [], []. repeat split.
Qed.

Definition num_ok_val (v : value) : Prop := match v with VList items => Forall num_ok_v items | _ => num_ok_v v end.
Definition after_val (k : tkind) : bool := kin k [NEWLINE; COMMENT].

Lemma set_depth_toks d st : ptoks (set_depth d st) = ptoks st.
Proof. reflexivity. Qed.

Lemma pv_cval v D f st ts nt r :
  cval v = true -> num_ok_val v -> (length ts + 3 <= f)%nat ->
  Forall2 tmatch ts (val_sh ml D v) -> ptoks st = ts ++ nt :: r -> after_val (tk nt) = true -> pbdepth st = 0 ->
  exists st', pv f st = POk v st' /\ ptoks st' = nt :: r /\ moved (length ts) st st'.
Proof.
  intros Hc Hnum Hf Hts Hst Hnt Hdep.
  assert (Hnt' : after_scalar (tk nt) = true) by (destruct (tk nt); try discriminate Hnt; reflexivity).
  assert (Hscal : forall sv, sval_of v = Some sv -> val_sh ml D v = [vsh v] -> num_ok_v v ->
                  exists st', pv f st = POk v st' /\ ptoks st' = nt :: r /\ moved (length ts) st st').
  { intros sv Esv Esh Hn. rewrite Esh, (vsh_sval _ _ Esv) in Hts. inversion Hts as [|t ? ? ? Ht Hnil]; subst. inversion Hnil; subst.
    cbn [app] in Hst. destruct f as [|f]; [cbn in Hf; lia|].
    unfold TokRound.num_ok_v in Hn. rewrite Esv in Hn.
    rewrite (pv_scalar2 _ _ _ _ _ sv Hst Ht Hnt' Hn), (sval_of_val _ _ Esv).
    exists (adv st). split; [reflexivity|]. split; [exact (adv_toks _ _ _ _ Hst)|exact (moved_adv _ _ _ _ Hst)]. }
  destruct v as [|b|isf c|s|items| | | |]; cbn [cval is_scalar sval_of] in Hc; try discriminate Hc;
    try (eapply Hscal; [reflexivity|reflexivity|exact Hnum]).
  clear Hscal. cbn [num_ok_val] in Hnum.
  destruct (val_sh_list D items) as (p2 & pl & p & Hp2 & Hpl & Hp & Esh). rewrite Esh in Hts.
  inversion Hts as [|tL ? tsb ? [HLk _] Hb]; subst. cbn [fst] in HLk. rewrite <- app_comm_cons in Hst.
  pose proof (F2_length _ _ _ Hb) as Hlen. pose proof (body_len p2 pl items p) as Hbl.
  cbn [length] in Hf. destruct f as [|[|f]]; try lia.
  rewrite pv_list_eq; [|unfold ck; rewrite (cur_hd _ _ _ Hst); exact HLk].
  rewrite plist_eq. cbv zeta. unfold expect. is_step Hst HLk. cbn [bind].
  assert (Hne : exists t1 r1, tsb ++ nt :: r = t1 :: r1) by (destruct tsb; cbn [app]; eauto).
  destruct Hne as (t1 & r1 & E1). rewrite E1 in Hst. pose proof (adv_toks _ _ _ _ Hst) as H1. rewrite <- E1 in H1.
  rewrite adv_depth, Hdep.
  change (max_nesting <=? 0 + 1) with false. change (nesting_threshold <=? 0 + 1) with false. cbv iota. cbn [andb].
  destruct (plloop_body p2 pl Hp2 Hpl items p f [] (set_depth (0 + 1) (adv st)) tsb (nt :: r) Hp Hc Hnum) as (st4 & tE & ts0 & Hl & Ets & HEk & Hp4 & Hm4);
    [unfold sh in *; lia|exact Hb|discriminate|rewrite set_depth_toks; exact H1|].
  rewrite Hl. cbn [bind rev app]. is_step Hp4 HEk. cbn [bind].
  pose proof (adv_toks _ _ _ _ Hp4) as H5.
  destruct Hm4 as (Hw4 & Hd4 & Hpos4). cbn [set_depth pwarns pbdepth ppos] in Hw4, Hd4, Hpos4.
  pose proof (moved_adv _ _ _ _ Hst) as (Hw1 & Hd1 & Hpos1).
  pose proof (moved_adv _ _ _ _ Hp4) as (Hw5 & Hd5 & Hpos5).
  assert (Hslice : firstn (N.to_nat (ppos (set_depth (pbdepth st4 - 1) (adv st4)) - ppos st)) (ptoks st) = tL :: tsb).
  { rewrite Hst. cbn [set_depth ppos]. rewrite Hpos5, Hpos4, Hpos1.
    replace (N.to_nat (ppos st + N.of_nat 1 + N.of_nat (length ts0) + N.of_nat 1 - ppos st)) with (length (tL :: tsb)) by (subst tsb; cbn [length]; rewrite app_length; cbn [length]; lia).
    rewrite <- E1. rewrite app_comm_cons. rewrite firstn_app, Nat.sub_diag, firstn_all. cbn [firstn]. apply app_nil_r. }
  rewrite Hslice.
  assert (Hnc : try_holographic holo_ok (tL :: tsb) = None).
  { unfold try_holographic. rewrite (no_constraint (tL :: tsb) ((LIST_START, None) :: body_sh p2 pl p items)); [reflexivity|exact Hts|].
    cbn [nc_sh forallb]. apply (body_nc p2 pl Hp2 Hpl items p Hp). }
  rewrite Hnc.
  eexists. split; [reflexivity|]. split; [rewrite set_depth_toks; exact H5|].
  unfold moved. cbn [set_depth pwarns pbdepth ppos]. rewrite Hw5, Hw4, Hw1. split; [reflexivity|].
  rewrite Hd4, Hdep. split; [reflexivity|]. rewrite Hpos5, Hpos4, Hpos1. subst tsb. cbn [length]. rewrite app_length. cbn [length]. lia.
Qed.

(* ---- assignments ---------------------------------------------------------------------------------------------------- *)
Lemma psec_assign_eq f leading st :
  is SECTION st = false -> is IDENTIFIER st = true -> is LIST_START (adv st) = false ->
  is ASSIGN (adv st) = true -> is FLOW (adv st) = false ->
  psec (S f) leading st =
        let it := cur st in
        let key := text_of it in
        let st4 := adv (adv st) in
        let quoted := is STRING st4 in
        do (v, st5) <- pv (fuel_of st4 + fuel_of st4 + fuel_of st4) st4;
        let st6 := match is_vstr v with
                   | Some s => if str_in key pattern_keys && negb quoted
                               then warn (mkW 9 (tline it) (tcol it) key s [] []) st5 else st5
                   | None => st5
                   end in
        let '(trailing, st7) := if is COMMENT st6 then (Some (text_of (cur st6)), adv st6) else (None, st6) in
        POk (Some (NAssign key v leading trailing)) st7.
Proof. intros H1 H2 H3 H4 H5. cbn [parse_section]. rewrite H1, H2, H3. cbn [negb]. rewrite H4, H5. reflexivity. Qed.

Lemma psec_assign2 f leading st ts rest k v l0 trl D :
  cval v = true -> num_ok_val v -> opt_ne trl = true ->
  Forall2 tmatch ts (main_sh ml idnum D (NAssign k v l0 trl)) -> ptoks st = ts ++ rest -> pbdepth st = 0 ->
  exists st' tn, psec (S f) leading st = POk (Some (NAssign k v leading trl)) st' /\ ptoks st' = tn :: rest /\
                 tk tn = NEWLINE /\ sext st st'.
Proof.
  intros Hc Hnum Htr Hts Hst Hdep.
  cbn [main_sh] in Hts. cbn [app] in Hts.
  inversion Hts as [|ti ? ? ? [Hik Hiv] Hts1]; subst. inversion Hts1 as [|ta ? ts2 ? [Hak _] Hts2]; subst.
  cbn [fst snd] in Hik, Hiv, Hak.
  apply Forall2_app_inv_r in Hts2. destruct Hts2 as (tsv & ts3 & Htsv & Hts3 & ->).
  apply Forall2_app_inv_r in Hts3. destruct Hts3 as (tst & tsn & Htst & Htsn & ->).
  inversion Htsn as [|tn ? ? ? [Hnk _] Hnil]; subst. inversion Hnil; subst. cbn [fst] in Hnk.
  rewrite <- !app_comm_cons in Hst. rewrite <- !app_assoc in Hst. cbn [app] in Hst.
  assert (Hne : exists t1 r1, tsv ++ tst ++ tn :: rest = t1 :: r1) by (destruct tsv; [destruct tst|]; cbn [app]; eauto).
  destruct Hne as (t1 & r1 & E1). rewrite E1 in Hst.
  pose proof (adv_toks _ _ _ _ Hst) as H1. pose proof (adv_toks _ _ _ _ H1) as H2. rewrite <- E1 in H2.
  rewrite psec_assign_eq.
  2:{ rewrite (is_hd _ _ _ _ Hst), Hik. reflexivity. }
  2:{ rewrite (is_hd _ _ _ _ Hst), Hik. reflexivity. }
  2:{ rewrite (is_hd _ _ _ _ H1), Hak. reflexivity. }
  2:{ rewrite (is_hd _ _ _ _ H1), Hak. reflexivity. }
  2:{ rewrite (is_hd _ _ _ _ H1), Hak. reflexivity. }
  cbv zeta. rewrite (cur_hd _ _ _ Hst).
  assert (Hk : text_of ti = k) by (unfold text_of; rewrite Hiv; reflexivity). rewrite !Hk.
  assert (Hd2 : pbdepth (adv (adv st)) = 0) by (rewrite !adv_depth; exact Hdep).
  assert (W2 : sext st (adv (adv st))) by sadv.
  (* what follows the value *)
  assert (Hnt : exists nt r2, tst ++ tn :: rest = nt :: r2 /\ after_val (tk nt) = true).
  { destruct trl as [c|]; cbn [trail_sh] in Htst.
    - inversion Htst as [|tc ? ? ? [Hck _] Hnil']; subst. inversion Hnil'; subst. exists tc, (tn :: rest). split; [reflexivity|]. rewrite Hck. reflexivity.
    - inversion Htst; subst. exists tn, rest. split; [reflexivity|]. rewrite Hnk. reflexivity. }
  destruct Hnt as (nt & r2 & E2 & Hnt). rewrite E2 in H2.
  destruct (pv_cval v D (fuel_of (adv (adv st)) + fuel_of (adv (adv st)) + fuel_of (adv (adv st)))%nat (adv (adv st)) tsv nt r2 Hc Hnum)
    as (st5 & Hv & Hp5 & Hm5); [rewrite (fuel_of_toks _ _ H2), app_length; lia|exact Htsv|exact H2|exact Hnt|exact Hd2|].
  rewrite Hv. cbn [bind].
  set (st6 := match is_vstr v with Some s => _ | None => _ end).
  assert (H6 : ptoks st6 = nt :: r2).
  { subst st6. destruct (is_vstr v); [destruct (_ && _)|]; [rewrite warn_toks| |]; exact Hp5. }
  assert (W6 : sext st st6).
  { eapply sext_trans; [exact W2|]. eapply sext_trans; [exact (moved_sext _ _ _ Hm5)|].
    subst st6. destruct (is_vstr v); [destruct (_ && _)|]; try apply sext_refl. apply sext_warn; right; reflexivity. }
  clearbody st6.
  destruct trl as [c|]; cbn [trail_sh] in Htst.
  - inversion Htst as [|tc ? ? ? [Hck Hcv] Hnil']; subst. inversion Hnil'; subst. cbn [fst snd] in Hck, Hcv.
    cbn [app] in E2. inversion E2; subst nt r2.
    is_step H6 Hck. rewrite (cur_hd _ _ _ H6).
    assert (Hc' : text_of tc = c) by (unfold text_of; rewrite Hcv; reflexivity). rewrite Hc'.
    exists (adv st6), tn. split; [reflexivity|]. split; [exact (adv_toks _ _ _ _ H6)|]. split; [exact Hnk|].
    eapply sext_trans; [exact W6|apply sext_adv].
  - inversion Htst; subst. cbn [app] in E2. inversion E2; subst nt r2.
    is_step H6 Hnk.
    exists st6, tn. split; [reflexivity|]. split; [exact H6|]. split; [exact Hnk|exact W6].
Qed.

(* ---- loops: one-step equations ---------------------------------------------------------------------------------------- *)
Lemma sloop_eq f ci cli pending acc dups st :
  sloop (S f) ci cli pending acc dups st =
      let fin (st' : pstate) := POk (rev acc ++ comments_as_nodes pending) st' in
      if is EOF st || is ENVELOPE_END st then fin st
      else if is INDENT st then
        let n := count_of (cur st) in
        if n <? ci then fin st else sloop f ci n pending acc dups (adv st)
      else if is COMMENT st then sloop f ci cli (pending ++ [text_of (cur st)]) acc dups (adv st)
      else if is SECTION st && (cli <? ci) then fin st
      else if is NEWLINE st then sloop f ci 0 pending acc dups (adv st)
      else if cli <? ci then fin st
      else
        let line := tline (cur st) in
        do (child, st1) <- psec f pending st;
        match child with
        | Some n =>
            let '(dups', st2) := match node_key_line n line with
                                 | Some (k, l) => track_dup k l dups st1
                                 | None => (dups, st1)
                                 end in
            sloop f ci 0 [] (n :: acc) dups' st2
        | None => POk (rev acc) st1
        end.
Proof. reflexivity. Qed.

Lemma pmark_eq f st :
  pmark (S f) st =
      let st1 := adv st in
      do (sid, st2) <-
         (if is NUMBER st1 then
            match tv (cur st1) with
            | TVNum raw =>
                match numcanon raw with
                | Some (_, c) =>
                    let st' := adv st1 in
                    if is IDENTIFIER st' then
                      match text_of (cur st') with
                      | [x] => if alpha x then POk (c ++ [x]) (adv st') else POk c st'
                      | _ => POk c st'
                      end
                    else POk c st'
                | None => POut 5
                end
            | _ => POut 5
            end
          else if is IDENTIFIER st1 then POk (text_of (cur st1)) (adv st1)
          else err_at e006p (cur st1));
      if negb (is ASSIGN st2) then err_at e006p (cur st2)
      else
        let st3 := adv st2 in
        do (name, st4) <-
           (if is IDENTIFIER st3 then POk (text_of (cur st3)) (adv st3)
            else if kin (ck st3) [NEWLINE; INDENT; LIST_START] then POk sid st3
            else err_at e006p (cur st3));
        do (annot, st5) <- consume_annotation true st4;
        let st6 := skip_kinds [NEWLINE] (fuel_of st5) st5 in
        let '(pre, st7) := collect_pre (fuel_of st6) [] st6 in
        if is INDENT st7 then
          let ci := count_of (cur st7) in
          do (children, st8) <- sloop f ci ci pre [] [] (adv st7);
          POk (NSection sid name annot children []) st8
        else POk (NSection sid name annot (comments_as_nodes pre) []) st7.
Proof. reflexivity. Qed.

Lemma psec_section_eq f leading st :
  is SECTION st = true ->
  psec (S f) leading st =
        do (n, st1) <- pmark f st;
        POk (Some (match n, leading with
                   | NSection i k a ch _, _ :: _ => NSection i k a ch leading
                   | x, _ => x
                   end)) st1.
Proof. intros H. cbn [parse_section]. rewrite H. reflexivity. Qed.

(* ---- leading comment lines, consumed by the enclosing loop ------------------------------------------------------------- *)
Lemma lead_sh_cons D c cs : lead_sh D (c :: cs) = indent_sh D ++ [(COMMENT, Some (TVText c)); (NEWLINE, None)] ++ lead_sh D cs.
Proof. unfold lead_sh. cbn [flat_map]. rewrite <- app_assoc. reflexivity. Qed.

Lemma bloop_lead d cs : forall pending cli f acc dups st ts rest,
  Forall2 tmatch ts (lead_sh (S d) cs) -> ptoks st = ts ++ rest -> rest <> [] ->
  exists st' cli', bloop (3 * length cs + f) (ind_count (S d)) cli pending acc dups st =
                   bloop f (ind_count (S d)) cli' (pending ++ cs) acc dups st' /\ ptoks st' = rest /\ sext st st'.
Proof.
  induction cs as [|c cs IH]; intros pending cli f acc dups st ts rest Hts Hst Hr.
  - inversion Hts; subst. cbn [app] in Hst. exists st, cli. rewrite app_nil_r. split; [reflexivity|]. split; [exact Hst|apply sext_refl].
  - rewrite lead_sh_cons in Hts. cbn [indent_sh app] in Hts.
    inversion Hts as [|tI ? ? ? [HIk HIv] Hts1]; subst. inversion Hts1 as [|tC ? ? ? [HCk HCv] Hts2]; subst.
    inversion Hts2 as [|tN ? ts3 ? [HNk _] Hts3]; subst. cbn [fst snd] in HIk, HIv, HCk, HCv, HNk.
    rewrite <- !app_comm_cons in Hst.
    assert (Hne : exists t1 r1, ts3 ++ rest = t1 :: r1) by (destruct rest; [congruence|]; destruct ts3; cbn [app]; eauto).
    destruct Hne as (t1 & r1 & E1). rewrite E1 in Hst.
    replace (3 * length (c :: cs) + f)%nat with (S (S (S (3 * length cs + f)))) by (cbn [length]; lia).
    rewrite bloop_eq. cbv zeta. is_step Hst HIk. rewrite (cur_hd _ _ _ Hst).
    assert (HIc : count_of tI = ind_count (S d)) by (unfold count_of; rewrite HIv; reflexivity). rewrite !HIc, N.ltb_irrefl.
    pose proof (adv_toks _ _ _ _ Hst) as H1.
    rewrite bloop_eq. cbv zeta. is_step H1 HCk. rewrite (cur_hd _ _ _ H1).
    assert (Hc : text_of tC = c) by (unfold text_of; rewrite HCv; reflexivity). rewrite Hc.
    pose proof (adv_toks _ _ _ _ H1) as H2.
    rewrite bloop_eq. cbv zeta. is_step H2 HNk.
    pose proof (adv_toks _ _ _ _ H2) as H3. rewrite <- E1 in H3.
    destruct (IH (pending ++ [c]) 0 f acc dups (adv (adv (adv st))) ts3 rest Hts3 H3 Hr) as (st' & cli' & He & Hp & W).
    exists st', cli'. rewrite He, <- app_assoc. split; [reflexivity|]. split; [exact Hp|].
    eapply sext_trans; [|exact W]. sadv.
Qed.

Lemma sloop_lead d cs : forall pending cli f acc dups st ts rest,
  Forall2 tmatch ts (lead_sh (S d) cs) -> ptoks st = ts ++ rest -> rest <> [] ->
  exists st' cli', sloop (3 * length cs + f) (ind_count (S d)) cli pending acc dups st =
                   sloop f (ind_count (S d)) cli' (pending ++ cs) acc dups st' /\ ptoks st' = rest /\ sext st st'.
Proof.
  induction cs as [|c cs IH]; intros pending cli f acc dups st ts rest Hts Hst Hr.
  - inversion Hts; subst. cbn [app] in Hst. exists st, cli. rewrite app_nil_r. split; [reflexivity|]. split; [exact Hst|apply sext_refl].
  - rewrite lead_sh_cons in Hts. cbn [indent_sh app] in Hts.
    inversion Hts as [|tI ? ? ? [HIk HIv] Hts1]; subst. inversion Hts1 as [|tC ? ? ? [HCk HCv] Hts2]; subst.
    inversion Hts2 as [|tN ? ts3 ? [HNk _] Hts3]; subst. cbn [fst snd] in HIk, HIv, HCk, HCv, HNk.
    rewrite <- !app_comm_cons in Hst.
    assert (Hne : exists t1 r1, ts3 ++ rest = t1 :: r1) by (destruct rest; [congruence|]; destruct ts3; cbn [app]; eauto).
    destruct Hne as (t1 & r1 & E1). rewrite E1 in Hst.
    replace (3 * length (c :: cs) + f)%nat with (S (S (S (3 * length cs + f)))) by (cbn [length]; lia).
    rewrite sloop_eq. cbv zeta. is_step Hst HIk. rewrite (cur_hd _ _ _ Hst).
    assert (HIc : count_of tI = ind_count (S d)) by (unfold count_of; rewrite HIv; reflexivity). rewrite !HIc, N.ltb_irrefl.
    pose proof (adv_toks _ _ _ _ Hst) as H1.
    rewrite sloop_eq. cbv zeta. is_step H1 HCk. rewrite (cur_hd _ _ _ H1).
    assert (Hc : text_of tC = c) by (unfold text_of; rewrite HCv; reflexivity). rewrite Hc.
    pose proof (adv_toks _ _ _ _ H1) as H2.
    rewrite sloop_eq. cbv zeta. is_step H2 HNk.
    pose proof (adv_toks _ _ _ _ H2) as H3. rewrite <- E1 in H3.
    destruct (IH (pending ++ [c]) 0 f acc dups (adv (adv (adv st))) ts3 rest Hts3 H3 Hr) as (st' & cli' & He & Hp & W).
    exists st', cli'. rewrite He, <- app_assoc. split; [reflexivity|]. split; [exact Hp|].
    eapply sext_trans; [|exact W]. sadv.
Qed.

Lemma dloop_lead cs : forall pending f acc dups st ts rest,
  Forall2 tmatch ts (lead_sh 0 cs) -> ptoks st = ts ++ rest -> rest <> [] ->
  exists st', dloop (2 * length cs + f) pending acc dups st = dloop f (pending ++ cs) acc dups st' /\ ptoks st' = rest /\ sext st st'.
Proof.
  induction cs as [|c cs IH]; intros pending f acc dups st ts rest Hts Hst Hr.
  - inversion Hts; subst. cbn [app] in Hst. exists st. rewrite app_nil_r. split; [reflexivity|]. split; [exact Hst|apply sext_refl].
  - rewrite lead_sh_cons in Hts. cbn [indent_sh app] in Hts.
    inversion Hts as [|tC ? ? ? [HCk HCv] Hts2]; subst.
    inversion Hts2 as [|tN ? ts3 ? [HNk _] Hts3]; subst. cbn [fst snd] in HCk, HCv, HNk.
    rewrite <- !app_comm_cons in Hst.
    assert (Hne : exists t1 r1, ts3 ++ rest = t1 :: r1) by (destruct rest; [congruence|]; destruct ts3; cbn [app]; eauto).
    destruct Hne as (t1 & r1 & E1). rewrite E1 in Hst.
    replace (2 * length (c :: cs) + f)%nat with (S (S (2 * length cs + f))) by (cbn [length]; lia).
    rewrite dloop_eq. is_step Hst HCk. rewrite (cur_hd _ _ _ Hst).
    assert (Hc : text_of tC = c) by (unfold text_of; rewrite HCv; reflexivity). rewrite Hc.
    pose proof (adv_toks _ _ _ _ Hst) as H2.
    rewrite dloop_eq. is_step H2 HNk.
    pose proof (adv_toks _ _ _ _ H2) as H3. rewrite <- E1 in H3.
    destruct (IH (pending ++ [c]) f acc dups (adv (adv st)) ts3 rest Hts3 H3 Hr) as (st' & He & Hp & W).
    exists st'. rewrite He, <- app_assoc. split; [reflexivity|]. split; [exact Hp|].
    eapply sext_trans; [|exact W]. sadv.
Qed.

(* ---- oracle side conditions, fuel measure ------------------------------------------------------------------------------- *)
(* a section id that reaches the parser as a NUMBER token is read back through the number oracle *)
Definition id_ok (i : str) : Prop := idnum i = true -> exists isf, numcanon i = Some (isf, i).
Fixpoint nums_ok2 (n : node) : Prop :=
  match n with
  | NAssign _ v _ _ => num_ok_val v
  | NBlock _ _ ch _ => (fix go (l : list node) : Prop := match l with [] => True | c :: r => nums_ok2 c /\ go r end) ch
  | NSection i _ _ ch _ =>
      id_ok i /\ (fix go (l : list node) : Prop := match l with [] => True | c :: r => nums_ok2 c /\ go r end) ch
  | NComment _ => True
  end.
Fixpoint nums_ok2_l (l : list node) : Prop := match l with [] => True | c :: r => nums_ok2 c /\ nums_ok2_l r end.
Lemma nums_ok2_block k t ch l : nums_ok2 (NBlock k t ch l) = nums_ok2_l ch.
Proof. cbn [nums_ok2]. induction ch as [|c r IH]; [reflexivity|]. cbn [nums_ok2_l]. rewrite <- IH. reflexivity. Qed.
Lemma nums_ok2_section i k a ch l : nums_ok2 (NSection i k a ch l) = (id_ok i /\ nums_ok2_l ch).
Proof. reflexivity. Qed.

Fixpoint sz2 (n : node) : nat :=
  match n with
  | NBlock _ _ ch _ =>
      (2 + (fix go (l : list node) : nat :=
              match l with [] => 1 | c :: r => 3 * length (lead_of c) + 3 + sz2 c + go r end) ch)%nat
  | NSection _ _ _ ch _ =>
      (3 + (fix go (l : list node) : nat :=
              match l with [] => 1 | c :: r => 3 * length (lead_of c) + 3 + sz2 c + go r end) ch)%nat
  | _ => 1%nat
  end.
Fixpoint lsz2 (l : list node) : nat :=
  match l with [] => 1%nat | c :: r => (3 * length (lead_of c) + 3 + sz2 c + lsz2 r)%nat end.
Lemma sz2_block k t ch l : sz2 (NBlock k t ch l) = (2 + lsz2 ch)%nat.
Proof. reflexivity. Qed.
Lemma sz2_section i k a ch l : sz2 (NSection i k a ch l) = (3 + lsz2 ch)%nat.
Proof. reflexivity. Qed.

Definition set_lead (n : node) (l : list str) : node :=
  match n with
  | NAssign k v _ t => NAssign k v l t
  | NBlock k t ch _ => NBlock k t ch l
  | NSection i k a ch _ => NSection i k a ch l
  | NComment t => NComment t
  end.
Lemma set_lead_id n : set_lead n (lead_of n) = n.
Proof. destruct n; reflexivity. Qed.

(* the statement proved by nested induction: parse_section, started on the node's first own token with the pending
   comments `leading`, returns the node carrying `leading` *)
Definition P_node2 (n : node) : Prop :=
  core2_node n = true -> nums_ok2 n ->
  forall D f leading st ts rest,
    (sz2 n <= f)%nat ->
    Forall2 tmatch ts (main_sh ml idnum D n) ->
    ptoks st = ts ++ rest -> pbdepth st = 0 ->
    ends_block (ind_count (S D)) rest ->
    exists st' tail, psec f leading st = POk (Some (set_lead n leading)) st' /\ ptoks st' = tail ++ rest /\
                     tail_ok n tail /\ sext st st'.

Lemma node_sh2_first D c : exists body,
  node_sh2 ml idnum (S D) c = (INDENT, Some (TVCount (ind_count (S D)))) :: body.
Proof.
  unfold node_sh2. destruct (lead_of c) as [|x xs].
  - cbn [lead_sh flat_map indent_sh app]. eexists. reflexivity.
  - rewrite lead_sh_cons. cbn [indent_sh app]. eexists. reflexivity.
Qed.

Lemma main_first n D : core2_node n = true ->
  exists s body, main_sh ml idnum D n = s :: body /\ (fst s = IDENTIFIER \/ fst s = SECTION).
Proof.
  destruct n; cbn [core2_node]; try discriminate; intros _; cbn [main_sh app]; eexists; eexists; (split; [reflexivity|]); cbn [fst]; auto.
Qed.

(* what follows a child at depth S d: the next sibling (its first token is INDENT(2(S d))) or the end of the block *)
Lemma ends_after_child d cs ts2 rest :
  Forall2 tmatch ts2 (nodes_sh2 ml idnum (S d) cs) -> ends_block (ind_count (S d)) rest ->
  ends_block (ind_count (S (S d))) (ts2 ++ rest).
Proof.
  intros Hts2 Hend. destruct cs as [|c2 cs'].
  - inversion Hts2; subst. cbn [app]. eapply (ends_block_mono sp alpha); [|exact Hend]. rewrite (ind_count_S (S d)). lia.
  - cbn [nodes_sh2 flat_map] in Hts2. apply Forall2_app_inv_r in Hts2. destruct Hts2 as (u1 & u2 & Hu1 & _ & ->).
    destruct (node_sh2_first d c2) as (body2 & Hsh2). rewrite Hsh2 in Hu1.
    inversion Hu1 as [|tJ ? ? ? [HJk HJv] _]; subst. cbn [fst snd] in HJk, HJv.
    cbn [app ends_block]. unfold ends_blockb. rewrite HJk. unfold count_of. rewrite HJv.
    cbn [tkind_eqb tkind_code N.eqb Pos.eqb orb andb].
    assert (Hlt : (ind_count (S d) <? ind_count (S (S d))) = true) by (apply N.ltb_lt; rewrite (ind_count_S (S d)); lia).
    rewrite Hlt. reflexivity.
Qed.

Lemma sext_depth0 st st' : sext st st' -> pbdepth st = 0 -> pbdepth st' = 0.
Proof. intros [_ H] H0. congruence. Qed.

Lemma bloop_children2 ch :
  Forall P_node2 ch -> forallb core2_node ch = true -> nums_ok2_l ch ->
  forall d f cli acc dups st ts rest,
    (lsz2 ch <= f)%nat ->
    Forall2 tmatch ts (nodes_sh2 ml idnum (S d) ch) ->
    ptoks st = ts ++ rest -> pbdepth st = 0 ->
    ends_block (ind_count (S d)) rest ->
    (ch = [] -> cli = 0) ->
    exists st', bloop f (ind_count (S d)) cli [] acc dups st = POk (rev acc ++ ch) st' /\ ptoks st' = rest /\ sext st st'.
Proof.
  induction ch as [|c cs IHl]; intros HP Hcore Hnum d f cli acc dups st ts rest Hf Hts Hst Hdep Hend Hcli.
  - inversion Hts; subst ts. cbn [app] in Hst. destruct rest as [|t r]; [destruct Hend|].
    cbn [lsz2] in Hf. destruct f as [|f]; [lia|]. rewrite (Hcli eq_refl).
    rewrite bloop_eq. cbv zeta. cbn [ends_block] in Hend. unfold ends_blockb in Hend.
    repeat rewrite (is_hd _ _ _ _ Hst). rewrite (cur_hd _ _ _ Hst).
    assert (H0 : (0 <? ind_count (S d)) = true) by (apply N.ltb_lt; unfold ind_count; lia).
    rewrite H0.
    destruct (tk t); cbn in Hend |- *; rewrite ?app_nil_r; try discriminate Hend;
      rewrite ?Bool.orb_false_r in Hend; rewrite ?Hend; eexists; (split; [reflexivity|split; [exact Hst|apply sext_refl]]).
  - inversion HP as [|? ? HPc HPcs]; subst.
    cbn [forallb] in Hcore. apply andb_prop in Hcore. destruct Hcore as [Hcc Hccs].
    destruct Hnum as [Hnc Hncs].
    cbn [nodes_sh2 flat_map] in Hts. apply Forall2_app_inv_r in Hts.
    destruct Hts as (ts1 & ts2 & Hts1 & Hts2 & ->).
    unfold node_sh2 in Hts1. apply Forall2_app_inv_r in Hts1. destruct Hts1 as (tl & ts1' & Htl & Hts1' & ->).
    cbn [indent_sh app] in Hts1'. inversion Hts1' as [|tI ? tm ? [HIk HIv] Htm]; subst. cbn [fst snd] in HIk, HIv.
    destruct (main_first c (S d) Hcc) as (s0 & body & Emain & Hs0). pose proof Htm as Htm'. rewrite Emain in Htm'.
    inversion Htm' as [|tb ? tm' ? [Hbk _] _]; subst. clear Htm'.
    cbn [lsz2] in Hf.
    replace f with (3 * length (lead_of c) + (f - 3 * length (lead_of c)))%nat by lia.
    remember (f - 3 * length (lead_of c))%nat as f1 eqn:Ef1.
    assert (Hf1 : (3 + sz2 c + lsz2 cs <= f1)%nat) by lia. clear Ef1 Hf.
    rewrite <- !app_assoc in Hst. rewrite <- app_comm_cons in Hst.
    destruct (bloop_lead d (lead_of c) [] cli f1 acc dups st tl (tI :: (tb :: tm') ++ ts2 ++ rest) Htl Hst) as (sta & cla & Ea & Hpa & Wa);
      [discriminate|].
    rewrite Ea. cbn [app] in Hpa |- *. clear Ea.
    pose proof (sext_depth0 _ _ Wa Hdep) as Hda.
    (* the INDENT of the header line *)
    destruct f1 as [|f1]; [lia|]. rewrite bloop_eq. cbv zeta.
    is_step Hpa HIk. rewrite (cur_hd _ _ _ Hpa).
    assert (HIc : count_of tI = ind_count (S d)) by (unfold count_of; rewrite HIv; reflexivity). rewrite !HIc. rewrite N.ltb_irrefl.
    pose proof (adv_toks _ _ _ _ Hpa) as H1.
    (* the child *)
    destruct f1 as [|f1]; [lia|].
    pose proof (ends_after_child d cs ts2 rest Hts2 Hend) as Hend'.
    assert (Hd1 : pbdepth (adv sta) = 0) by (rewrite adv_depth; exact Hda).
    destruct (HPc Hcc Hnc (S d) f1 (lead_of c) (adv sta) (tb :: tm') (ts2 ++ rest)) as (st1 & tail & Hp & Hst1 & Htail & W1);
      [lia|exact Htm|rewrite <- app_comm_cons; exact H1|exact Hd1|exact Hend'|].
    rewrite set_lead_id in Hp.
    rewrite bloop_eq. cbv zeta.
    assert (HK : tkind_eqb (tk tb) EOF = false /\ tkind_eqb (tk tb) ENVELOPE_END = false /\ tkind_eqb (tk tb) INDENT = false /\
                 tkind_eqb (tk tb) COMMENT = false /\ tkind_eqb (tk tb) NEWLINE = false /\ tkind_eqb (tk tb) FENCE_OPEN = false).
    { cbn [fst] in Hbk. destruct Hs0 as [E|E]; rewrite E in Hbk; rewrite Hbk; repeat split. }
    repeat rewrite (is_hd _ _ _ _ H1). destruct HK as (-> & -> & -> & -> & -> & ->). cbn [orb].
    rewrite N.ltb_irrefl. rewrite Hp. cbn [bind].
    (* after the child *)
    set (dl := match node_key_line c (tline (cur (adv sta))) with Some (k, l) => track_dup k l dups st1 | None => (dups, st1) end).
    assert (Hdl : ptoks (snd dl) = tail ++ ts2 ++ rest).
    { subst dl. destruct (node_key_line c _) as [[k l]|]; [rewrite track_dup_toks|]; exact Hst1. }
    assert (Wdl : sext st (snd dl)).
    { eapply sext_trans; [exact Wa|]. eapply sext_trans; [apply sext_adv|]. eapply sext_trans; [exact W1|].
      subst dl. destruct (node_key_line c _) as [[k l]|]; [apply sext_track_dup|apply sext_refl]. }
    destruct dl as [dups' st2] eqn:Edl. cbn [snd] in Hdl, Wdl.
    pose proof (sext_depth0 _ _ Wdl Hdep) as Hd2.
    assert (Hrest : exists t0 r0, ts2 ++ rest = t0 :: r0).
    { destruct rest as [|t0 r0]; [destruct Hend|]. destruct ts2; cbn [app]; eauto. }
    destruct c as [k v lead tr|k tg chn lead|i k a chn lead|]; cbn [core2_node] in Hcc; try discriminate Hcc.
    + (* assignment: one more iteration for its NEWLINE *)
      destruct Htail as (tn & -> & Htn). cbn [app] in Hdl.
      destruct Hrest as (t0 & r0 & Hr). rewrite Hr in Hdl.
      destruct f1 as [|f1]; [cbn [sz2] in Hf1; lia|]. rewrite bloop_eq. cbv zeta. is_step Hdl Htn.
      pose proof (adv_toks _ _ _ _ Hdl) as H2. rewrite <- Hr in H2.
      destruct (IHl HPcs Hccs Hncs d f1 0 (NAssign k v lead tr :: acc) dups' (adv st2) ts2 rest) as (st' & Hl & Hst' & W');
        [cbn [sz2] in Hf1; lia|exact Hts2|exact H2|rewrite adv_depth; exact Hd2|exact Hend|reflexivity|].
      exists st'. split; [|split; [exact Hst'|eapply sext_trans; [exact Wdl|eapply sext_trans; [apply sext_adv|exact W']]]].
      rewrite Hl. cbn [rev]. rewrite <- app_assoc. reflexivity.
    + cbn [tail_ok] in Htail. subst tail. cbn [app] in Hdl.
      destruct (IHl HPcs Hccs Hncs d f1 0 (NBlock k tg chn lead :: acc) dups' st2 ts2 rest) as (st' & Hl & Hst' & W');
        [lia|exact Hts2|exact Hdl|exact Hd2|exact Hend|reflexivity|].
      exists st'. split; [|split; [exact Hst'|eapply sext_trans; [exact Wdl|exact W']]].
      rewrite Hl. cbn [rev]. rewrite <- app_assoc. reflexivity.
    + cbn [tail_ok] in Htail. subst tail. cbn [app] in Hdl.
      destruct (IHl HPcs Hccs Hncs d f1 0 (NSection i k a chn lead :: acc) dups' st2 ts2 rest) as (st' & Hl & Hst' & W');
        [lia|exact Hts2|exact Hdl|exact Hd2|exact Hend|reflexivity|].
      exists st'. split; [|split; [exact Hst'|eapply sext_trans; [exact Wdl|exact W']]].
      rewrite Hl. cbn [rev]. rewrite <- app_assoc. reflexivity.
Qed.

Lemma sloop_children2 ch :
  Forall P_node2 ch -> forallb core2_node ch = true -> nums_ok2_l ch ->
  forall d f cli acc dups st ts rest,
    (lsz2 ch <= f)%nat ->
    Forall2 tmatch ts (nodes_sh2 ml idnum (S d) ch) ->
    ptoks st = ts ++ rest -> pbdepth st = 0 ->
    ends_block (ind_count (S d)) rest ->
    (ch = [] -> cli = 0) ->
    exists st', sloop f (ind_count (S d)) cli [] acc dups st = POk (rev acc ++ ch) st' /\ ptoks st' = rest /\ sext st st'.
Proof.
  induction ch as [|c cs IHl]; intros HP Hcore Hnum d f cli acc dups st ts rest Hf Hts Hst Hdep Hend Hcli.
  - inversion Hts; subst ts. cbn [app] in Hst. destruct rest as [|t r]; [destruct Hend|].
    cbn [lsz2] in Hf. destruct f as [|f]; [lia|]. rewrite (Hcli eq_refl).
    rewrite sloop_eq. cbv zeta. cbn [ends_block] in Hend. unfold ends_blockb in Hend.
    repeat rewrite (is_hd _ _ _ _ Hst). rewrite (cur_hd _ _ _ Hst).
    assert (H0 : (0 <? ind_count (S d)) = true) by (apply N.ltb_lt; unfold ind_count; lia).
    rewrite H0.
    destruct (tk t); cbn in Hend |- *; rewrite ?app_nil_r; try discriminate Hend;
      rewrite ?Bool.orb_false_r in Hend; rewrite ?Hend; eexists; (split; [reflexivity|split; [exact Hst|apply sext_refl]]).
  - inversion HP as [|? ? HPc HPcs]; subst.
    cbn [forallb] in Hcore. apply andb_prop in Hcore. destruct Hcore as [Hcc Hccs].
    destruct Hnum as [Hnc Hncs].
    cbn [nodes_sh2 flat_map] in Hts. apply Forall2_app_inv_r in Hts.
    destruct Hts as (ts1 & ts2 & Hts1 & Hts2 & ->).
    unfold node_sh2 in Hts1. apply Forall2_app_inv_r in Hts1. destruct Hts1 as (tl & ts1' & Htl & Hts1' & ->).
    cbn [indent_sh app] in Hts1'. inversion Hts1' as [|tI ? tm ? [HIk HIv] Htm]; subst. cbn [fst snd] in HIk, HIv.
    destruct (main_first c (S d) Hcc) as (s0 & body & Emain & Hs0). pose proof Htm as Htm'. rewrite Emain in Htm'.
    inversion Htm' as [|tb ? tm' ? [Hbk _] _]; subst. clear Htm'.
    cbn [lsz2] in Hf.
    replace f with (3 * length (lead_of c) + (f - 3 * length (lead_of c)))%nat by lia.
    remember (f - 3 * length (lead_of c))%nat as f1 eqn:Ef1.
    assert (Hf1 : (3 + sz2 c + lsz2 cs <= f1)%nat) by lia. clear Ef1 Hf.
    rewrite <- !app_assoc in Hst. rewrite <- app_comm_cons in Hst.
    destruct (sloop_lead d (lead_of c) [] cli f1 acc dups st tl (tI :: (tb :: tm') ++ ts2 ++ rest) Htl Hst) as (sta & cla & Ea & Hpa & Wa);
      [discriminate|].
    rewrite Ea. cbn [app] in Hpa |- *. clear Ea.
    pose proof (sext_depth0 _ _ Wa Hdep) as Hda.
    (* the INDENT of the header line *)
    destruct f1 as [|f1]; [lia|]. rewrite sloop_eq. cbv zeta.
    is_step Hpa HIk. rewrite (cur_hd _ _ _ Hpa).
    assert (HIc : count_of tI = ind_count (S d)) by (unfold count_of; rewrite HIv; reflexivity). rewrite !HIc. rewrite N.ltb_irrefl.
    pose proof (adv_toks _ _ _ _ Hpa) as H1.
    (* the child *)
    destruct f1 as [|f1]; [lia|].
    pose proof (ends_after_child d cs ts2 rest Hts2 Hend) as Hend'.
    assert (Hd1 : pbdepth (adv sta) = 0) by (rewrite adv_depth; exact Hda).
    destruct (HPc Hcc Hnc (S d) f1 (lead_of c) (adv sta) (tb :: tm') (ts2 ++ rest)) as (st1 & tail & Hp & Hst1 & Htail & W1);
      [lia|exact Htm|rewrite <- app_comm_cons; exact H1|exact Hd1|exact Hend'|].
    rewrite set_lead_id in Hp.
    rewrite sloop_eq. cbv zeta.
    assert (HK : tkind_eqb (tk tb) EOF = false /\ tkind_eqb (tk tb) ENVELOPE_END = false /\ tkind_eqb (tk tb) INDENT = false /\
                 tkind_eqb (tk tb) COMMENT = false /\ tkind_eqb (tk tb) NEWLINE = false).
    { cbn [fst] in Hbk. destruct Hs0 as [E|E]; rewrite E in Hbk; rewrite Hbk; repeat split. }
    repeat rewrite (is_hd _ _ _ _ H1). rewrite N.ltb_irrefl, Bool.andb_false_r. destruct HK as (-> & -> & -> & -> & ->). cbn [orb].
    rewrite Hp. cbn [bind].
    (* after the child *)
    set (dl := match node_key_line c (tline (cur (adv sta))) with Some (k, l) => track_dup k l dups st1 | None => (dups, st1) end).
    assert (Hdl : ptoks (snd dl) = tail ++ ts2 ++ rest).
    { subst dl. destruct (node_key_line c _) as [[k l]|]; [rewrite track_dup_toks|]; exact Hst1. }
    assert (Wdl : sext st (snd dl)).
    { eapply sext_trans; [exact Wa|]. eapply sext_trans; [apply sext_adv|]. eapply sext_trans; [exact W1|].
      subst dl. destruct (node_key_line c _) as [[k l]|]; [apply sext_track_dup|apply sext_refl]. }
    destruct dl as [dups' st2] eqn:Edl. cbn [snd] in Hdl, Wdl.
    pose proof (sext_depth0 _ _ Wdl Hdep) as Hd2.
    assert (Hrest : exists t0 r0, ts2 ++ rest = t0 :: r0).
    { destruct rest as [|t0 r0]; [destruct Hend|]. destruct ts2; cbn [app]; eauto. }
    destruct c as [k v lead tr|k tg chn lead|i k a chn lead|]; cbn [core2_node] in Hcc; try discriminate Hcc.
    + (* assignment: one more iteration for its NEWLINE *)
      destruct Htail as (tn & -> & Htn). cbn [app] in Hdl.
      destruct Hrest as (t0 & r0 & Hr). rewrite Hr in Hdl.
      destruct f1 as [|f1]; [cbn [sz2] in Hf1; lia|]. rewrite sloop_eq. cbv zeta. is_step Hdl Htn.
      pose proof (adv_toks _ _ _ _ Hdl) as H2. rewrite <- Hr in H2.
      destruct (IHl HPcs Hccs Hncs d f1 0 (NAssign k v lead tr :: acc) dups' (adv st2) ts2 rest) as (st' & Hl & Hst' & W');
        [cbn [sz2] in Hf1; lia|exact Hts2|exact H2|rewrite adv_depth; exact Hd2|exact Hend|reflexivity|].
      exists st'. split; [|split; [exact Hst'|eapply sext_trans; [exact Wdl|eapply sext_trans; [apply sext_adv|exact W']]]].
      rewrite Hl. cbn [rev]. rewrite <- app_assoc. reflexivity.
    + cbn [tail_ok] in Htail. subst tail. cbn [app] in Hdl.
      destruct (IHl HPcs Hccs Hncs d f1 0 (NBlock k tg chn lead :: acc) dups' st2 ts2 rest) as (st' & Hl & Hst' & W');
        [lia|exact Hts2|exact Hdl|exact Hd2|exact Hend|reflexivity|].
      exists st'. split; [|split; [exact Hst'|eapply sext_trans; [exact Wdl|exact W']]].
      rewrite Hl. cbn [rev]. rewrite <- app_assoc. reflexivity.
    + cbn [tail_ok] in Htail. subst tail. cbn [app] in Hdl.
      destruct (IHl HPcs Hccs Hncs d f1 0 (NSection i k a chn lead :: acc) dups' st2 ts2 rest) as (st' & Hl & Hst' & W');
        [lia|exact Hts2|exact Hdl|exact Hd2|exact Hend|reflexivity|].
      exists st'. split; [|split; [exact Hst'|eapply sext_trans; [exact Wdl|exact W']]].
      rewrite Hl. cbn [rev]. rewrite <- app_assoc. reflexivity.
Qed.

Lemma first_indent D c cs tsc :
  Forall2 tmatch tsc (nodes_sh2 ml idnum (S D) (c :: cs)) ->
  exists tI r0, tsc = tI :: r0 /\ tk tI = INDENT /\ count_of tI = ind_count (S D).
Proof.
  intros Hb3. cbn [nodes_sh2 flat_map] in Hb3. apply Forall2_app_inv_r in Hb3. destruct Hb3 as (u1 & u2 & Hu1 & _ & ->).
  destruct (node_sh2_first D c) as (body & Hsh). rewrite Hsh in Hu1.
  inversion Hu1 as [|tI ? r1 ? [HIk HIv] _]; subst. cbn [fst snd] in HIk, HIv.
  exists tI, (r1 ++ u2). split; [reflexivity|]. split; [exact HIk|]. unfold count_of. rewrite HIv. reflexivity.
Qed.

Lemma P_assign k v l t : P_node2 (NAssign k v l t).
Proof.
  unfold P_node2. intros Hcore Hnum D f leading st ts rest Hf Hts Hst Hdep _.
  cbn [core2_node] in Hcore. apply andb_prop in Hcore. destruct Hcore as [Hc Ht].
  cbn [sz2] in Hf. destruct f as [|f]; [lia|]. cbn [nums_ok2] in Hnum.
  destruct (psec_assign2 f leading st ts rest k v l t D Hc Hnum Ht Hts Hst Hdep) as (st' & tn & Hp & Hp' & Hn & W).
  exists st', [tn]. split; [exact Hp|]. split; [exact Hp'|]. split; [|exact W]. exists tn. split; [reflexivity|exact Hn].
Qed.

Lemma P_block k tg ch l : Forall P_node2 ch -> P_node2 (NBlock k tg ch l).
Proof.
  unfold P_node2 at 2. intros IH Hcore Hnum D f leading st ts rest Hf Hts Hst Hdep Hend.
  cbn [core2_node] in Hcore. destruct tg; [discriminate|].
  apply andb_prop in Hcore. destruct Hcore as [Hne Hcc].
  rewrite nums_ok2_block in Hnum. rewrite sz2_block in Hf.
  rewrite main_sh_block in Hts. cbn [app] in Hts.
  inversion Hts as [|ti ? ? ? [Hik Hiv] Hb1]; subst. inversion Hb1 as [|tb ? ? ? [Hbk _] Hb2]; subst.
  inversion Hb2 as [|tn ? tsc ? [Hnk _] Hb3]; subst. cbn [fst snd] in Hik, Hiv, Hbk, Hnk.
  rewrite <- !app_comm_cons in Hst.
  destruct ch as [|c cs]; [discriminate Hne|].
  destruct (first_indent D c cs tsc Hb3) as (tI & r0 & Etsc & HIk & HIc).
  pose proof (adv_toks _ _ _ _ Hst) as H1. pose proof (adv_toks _ _ _ _ H1) as H2.
  destruct f as [|f]; [lia|].
  rewrite psec_block_eq.
  2:{ rewrite (is_hd _ _ _ _ Hst), Hik. reflexivity. }
  2:{ rewrite (is_hd _ _ _ _ Hst), Hik. reflexivity. }
  2:{ rewrite (is_hd _ _ _ _ H1), Hbk. reflexivity. }
  2:{ rewrite (is_hd _ _ _ _ H1), Hbk. reflexivity. }
  2:{ rewrite (is_hd _ _ _ _ H1), Hbk. reflexivity. }
  2:{ rewrite (is_hd _ _ _ _ H1), Hbk. reflexivity. }
  cbv zeta. is_step H2 Hnk.
  rewrite (cur_hd _ _ _ Hst). assert (Hk : text_of ti = k) by (unfold text_of; rewrite Hiv; reflexivity). rewrite Hk.
  assert (H2' : ptoks (adv (adv st)) = tn :: tI :: r0 ++ rest) by (rewrite H2, Etsc; reflexivity).
  rewrite (fuel_of_toks _ _ H2'). cbn [length].
  rewrite (skip_nl_step _ _ _ _ _ _ H2'); [|rewrite Hnk; reflexivity|rewrite Hnk; discriminate].
  pose proof (adv_toks _ _ _ _ H2') as H3.
  rewrite (skip_stop _ _ _ _ _ H3); [|rewrite HIk; reflexivity].
  is_step H3 HIk. rewrite (cur_hd _ _ _ H3), HIc.
  assert (Hfold : bloop f (ind_count (S D)) (ind_count (S D)) [] [] [] (adv (adv (adv (adv st)))) =
                  bloop (S f) (ind_count (S D)) (ind_count (S D)) [] [] [] (adv (adv (adv st)))).
  { rewrite bloop_eq. cbv zeta. is_step H3 HIk. rewrite (cur_hd _ _ _ H3), HIc, N.ltb_irrefl. reflexivity. }
  rewrite Hfold.
  destruct (bloop_children2 (c :: cs) IH Hcc Hnum D (S f) (ind_count (S D)) [] [] (adv (adv (adv st))) tsc rest)
    as (st' & Hl & Hst' & W'); [lia|exact Hb3|rewrite H3, Etsc; reflexivity|rewrite !adv_depth; exact Hdep|exact Hend|discriminate|].
  rewrite Hl. cbn [bind rev app set_lead].
  exists st', []. split; [reflexivity|]. split; [exact Hst'|]. split; [reflexivity|].
  eapply sext_trans; [|exact W']. sadv.
Qed.

(* ---- section markers ------------------------------------------------------------------------------------------------------ *)
Lemma annot_read a st ts tn r :
  Forall2 tmatch ts (annot_sh a) -> ptoks st = ts ++ tn :: r -> tk tn = NEWLINE -> r <> [] ->
  exists st', consume_annotation true st = POk a st' /\ ptoks st' = tn :: r /\ sext st st'.
Proof.
  intros Hts Hst Hn Hr. unfold consume_annotation. destruct a as [x|]; cbn [annot_sh] in Hts.
  - inversion Hts as [|tL ? ? ? [HLk _] Hts1]; subst. inversion Hts1 as [|tX ? ? ? [HXk HXv] Hts2]; subst.
    inversion Hts2 as [|tR ? ? ? [HRk _] Hts3]; subst. inversion Hts3; subst. cbn [fst snd] in HLk, HXk, HXv, HRk.
    cbn [app] in Hst. is_step Hst HLk.
    pose proof (adv_toks _ _ _ _ Hst) as H1. pose proof (adv_toks _ _ _ _ H1) as H2.
    destruct r as [|t0 r0]; [congruence|]. pose proof (adv_toks _ _ _ _ H2) as H3.
    rewrite (fuel_of_toks _ _ Hst). cbn [length].
    cbn [capture_brackets]. change (0 <? 1) with true. is_step H1 HXk. unfold ck. rewrite (cur_hd _ _ _ H1), HXk.
    cbn [tkind_eqb tkind_code N.eqb Pos.eqb kin existsb orb]. unfold tok_to_str. rewrite HXk, HXv.
    cbn [capture_brackets]. change (0 <? 1) with true. is_step H2 HRk. unfold ck. rewrite (cur_hd _ _ _ H2), HRk.
    cbn [tkind_eqb tkind_code N.eqb Pos.eqb kin existsb orb]. change (1 - 1) with 0. change (0 <? 0) with false. cbv iota.
    cbn [capture_brackets]. change (0 <? 0) with false. cbn [andb bind rev app concat]. rewrite app_nil_r.
    eexists. split; [reflexivity|]. split; [exact H3|]. sadv.
  - inversion Hts; subst. cbn [app] in Hst. is_step Hst Hn. exists st. split; [reflexivity|]. split; [exact Hst|apply sext_refl].
Qed.

Lemma sid_read i st tid ta r :
  ptoks st = tid :: ta :: r -> tmatch tid (id_sh idnum i) -> tk ta = ASSIGN -> id_ok i ->
  (if is NUMBER st then
     match tv (cur st) with
     | TVNum raw =>
         match numcanon raw with
         | Some (_, c) =>
             if is IDENTIFIER (adv st) then
               match text_of (cur (adv st)) with
               | [x] => if alpha x then POk (c ++ [x]) (adv (adv st)) else POk c (adv st)
               | _ => POk c (adv st)
               end
             else POk c (adv st)
         | None => POut 5
         end
     | _ => POut 5
     end
   else if is IDENTIFIER st then POk (text_of (cur st)) (adv st)
   else err_at e006p (cur st)) = POk i (adv st).
Proof.
  intros Hst [Hk Hv] Ha Hid. unfold id_sh in Hk, Hv. unfold id_ok in Hid.
  pose proof (adv_toks _ _ _ _ Hst) as H1.
  destruct (idnum i); cbn [fst snd] in Hk, Hv.
  - destruct (Hid eq_refl) as (isf & Hnc). is_step Hst Hk. rewrite (cur_hd _ _ _ Hst), Hv, Hnc.
    is_step H1 Ha. reflexivity.
  - is_step Hst Hk. rewrite (cur_hd _ _ _ Hst). unfold text_of. rewrite Hv. reflexivity.
Qed.

Lemma P_section i k a ch l : Forall P_node2 ch -> P_node2 (NSection i k a ch l).
Proof.
  unfold P_node2 at 2. intros IH Hcore Hnum D f leading st ts rest Hf Hts Hst Hdep Hend.
  cbn [core2_node] in Hcore. apply andb_prop in Hcore. destruct Hcore as [Han Hcore].
  apply andb_prop in Hcore. destruct Hcore as [Hne Hcc].
  rewrite nums_ok2_section in Hnum. destruct Hnum as [Hid Hnum]. rewrite sz2_section in Hf.
  rewrite main_sh_section in Hts. cbn [app] in Hts.
  inversion Hts as [|tS ? ? ? [HSk _] Hb1]; subst. inversion Hb1 as [|tid ? ? ? Hidm Hb2]; subst.
  inversion Hb2 as [|ta ? ? ? [Hak _] Hb3]; subst. inversion Hb3 as [|tkey ? ts4 ? [Hkk Hkv] Hb4]; subst.
  cbn [fst snd] in HSk, Hak, Hkk, Hkv.
  apply Forall2_app_inv_r in Hb4. destruct Hb4 as (tsa & ts5 & Htsa & Hb5 & ->).
  inversion Hb5 as [|tn ? tsc ? [Hnk _] Hb6]; subst. cbn [fst] in Hnk.
  destruct ch as [|c cs]; [discriminate Hne|].
  destruct (first_indent D c cs tsc Hb6) as (tI & r0 & Etsc & HIk & HIc).
  rewrite <- !app_comm_cons in Hst. rewrite <- app_assoc in Hst. rewrite <- app_comm_cons in Hst. rewrite Etsc in Hst.
  rewrite <- app_comm_cons in Hst.
  assert (Hne4 : exists t4 r4, tsa ++ tn :: tI :: r0 ++ rest = t4 :: r4) by (destruct tsa; cbn [app]; eauto).
  destruct Hne4 as (t4 & r4 & E4). rewrite E4 in Hst.
  pose proof (adv_toks _ _ _ _ Hst) as H1. pose proof (adv_toks _ _ _ _ H1) as H2. pose proof (adv_toks _ _ _ _ H2) as H3.
  pose proof (adv_toks _ _ _ _ H3) as H4. rewrite <- E4 in H4.
  destruct f as [|[|f]]; try lia.
  rewrite psec_section_eq; [|rewrite (is_hd _ _ _ _ Hst), HSk; reflexivity].
  rewrite pmark_eq. cbv zeta.
  rewrite (sid_read i (adv st) tid ta _ H1 Hidm Hak Hid). cbn [bind].
  is_step H2 Hak. is_step H3 Hkk. rewrite (cur_hd _ _ _ H3).
  assert (Hk : text_of tkey = k) by (unfold text_of; rewrite Hkv; reflexivity). rewrite Hk. cbn [bind].
  destruct (annot_read a (adv (adv (adv (adv st)))) tsa tn (tI :: r0 ++ rest) Htsa H4 Hnk) as (st5 & Han5 & Hp5 & W5); [discriminate|].
  rewrite Han5. cbn [bind].
  rewrite (skip_one_nl [NEWLINE] _ _ _ _ (fuel_of st5) Hp5 Hnk eq_refl); [|rewrite HIk; reflexivity|rewrite (fuel_of_toks _ _ Hp5); cbn [length]; lia].
  pose proof (adv_toks _ _ _ _ Hp5) as H6.
  rewrite (fuel_of_toks _ _ H6). cbn [length collect_pre]. is_step H6 HIk. cbn [rev].
  is_step H6 HIk. rewrite (cur_hd _ _ _ H6), HIc.
  assert (Hfold : sloop f (ind_count (S D)) (ind_count (S D)) [] [] [] (adv (adv st5)) =
                  sloop (S f) (ind_count (S D)) (ind_count (S D)) [] [] [] (adv st5)).
  { rewrite sloop_eq. cbv zeta. is_step H6 HIk. rewrite (cur_hd _ _ _ H6), HIc, N.ltb_irrefl. reflexivity. }
  rewrite Hfold.
  assert (W6 : sext st (adv st5)) by (eapply sext_trans; [|apply sext_adv]; eapply sext_trans; [|exact W5]; sadv).
  destruct (sloop_children2 (c :: cs) IH Hcc Hnum D (S f) (ind_count (S D)) [] [] (adv st5) tsc rest)
    as (st' & Hl & Hst' & W'); [lia|exact Hb6|rewrite H6, Etsc; reflexivity|exact (sext_depth0 _ _ W6 Hdep)|exact Hend|discriminate|].
  rewrite Hl. cbn [bind rev app set_lead].
  exists st', []. split; [destruct leading; reflexivity|]. split; [exact Hst'|]. split; [reflexivity|].
  eapply sext_trans; [exact W6|exact W'].
Qed.

Theorem all_P_node2 : forall n, P_node2 n.
Proof.
  apply node_ind2.
  - apply P_assign.
  - apply P_block.
  - apply P_section.
  - intros t Hcore; discriminate Hcore.
Qed.

End Core2.
