(* C14 -- projections only remove, and say so: no invention, honest lossy flag.
   ONLY theorem statements closed by `exact`.  Models: Proj/Projector.v, Proj/Convert.v (consume Gen/ProjectorGen.v);
   proofs: Proj/ProjFacts.v.  "items" = key/container positions and scalar leaves with their paths (Proj/Ast.v). *)
From OV Require Import Proj.Ast Gen.ProjectorGen Proj.Projector Proj.Convert Proj.ProjFacts Proj.Pins_Projector.
From Coq Require Import ZArith.
Open Scope N_scope.

(* filtering never invents: every item of the filtered document is an item of the source at the same path *)
Theorem C14_filter_no_invention : forall keep d, incl (items_doc (filter_fields keep d)) (items_doc d).
Proof. exact filter_no_invention. Qed.
Theorem C14_project_no_invention : forall mode d, incl (items_doc (fst (fst (project mode d)))) (items_doc d).
Proof. exact project_no_invention. Qed.

(* kept keys keep their whole subtree, at top level and nested under blocks that are not kept *)
Theorem C14_filter_keeps_kept_assign : forall keep k v, str_in k keep = true -> filter_node keep (NAssign k v) = [NAssign k v].
Proof. exact filter_keeps_kept_assign. Qed.
Theorem C14_filter_keeps_kept_block : forall keep k t ch, str_in k keep = true -> filter_node keep (NBlock k t ch) = [NBlock k t ch].
Proof. exact filter_keeps_kept_block. Qed.
Theorem C14_filter_keeps_kept : forall keep d, incl (flat_map (kept_items keep) (d_sections d)) (items_doc (filter_fields keep d)).
Proof. exact filter_keeps_kept. Qed.

(* honest flag: whenever the projected AST differs from the source (any mode string) lossy = true *)
Theorem C14_project_lossy_flag : forall mode d, fst (fst (project mode d)) <> d -> snd (fst (project mode d)) = true.
Proof. exact project_lossy_flag. Qed.
(* canonical / authoring (and every unknown mode): the AST itself, lossy = false *)
Theorem C14_project_canonical : forall d, project m_canonical d = (d, false, []).
Proof. exact project_canonical. Qed.
Theorem C14_project_authoring : forall d, project m_authoring d = (d, false, []).
Proof. exact project_authoring. Qed.
Theorem C14_project_unknown_mode : forall mode d,
  forallb (fun e => negb (str_eqb mode (fst e))) projector_modes = true -> project mode d = (d, false, []).
Proof. exact project_unknown_mode. Qed.
Theorem C14_project_executive : forall d, project m_executive d = (filter_fields k_exec d, true, k_dev).
Proof. exact project_executive. Qed.
Theorem C14_project_developer : forall d, project m_developer d = (filter_fields k_dev d, true, k_exec).
Proof. exact project_developer. Qed.
Theorem C14_eject_formats_pass_lossy :
  eject_format_lossy = [([106; 115; 111; 110], 1); ([121; 97; 109; 108], 1); ([109; 97; 114; 107; 100; 111; 119; 110], 1); ([103; 98; 110; 102], 0)].
Proof. exact eject_formats_pass_lossy. Qed.

(* JSON / YAML: the dict handed to the (trusted) serialisers contains exactly the source's items -- PARTIAL:
   wf_doc = no section marker, no block target, no duplicate sibling key (incl. inline-map keys, META clash).
   Holographic values are INSIDE the domain (there is no holographic clause): since repair 88905cd they are exported as
   their pattern text, which is what items_doc says a holographic value contains (a string leaf); nested META blocks too. *)
Definition C14_dict_complete_full : Prop := dict_complete_full.
Theorem C14_dict_complete_partial : forall d, wf_doc d = true -> items_dict (ast_to_dict d) = items_doc d.
Proof. exact dict_complete_partial. Qed.
Theorem C14_wf_doc_nonvacuous : wf_doc wf_example = true.
Proof. exact wf_doc_nonvacuous. Qed.
(* UNCONDITIONAL (every document, also outside wf_doc): no AST object survives _ast_to_dict -- the tree is made of
   dict / list / str / number / bool / None only, so json.dumps cannot refuse it and yaml.dump emits no !!python/object.
   False before repair 88905cd (HolographicValue objects and unconverted nested META dicts reached the serialisers). *)
Theorem C14_dict_native : forall d, native_dict (ast_to_dict d) = true.
Proof. exact dict_native. Qed.
(* the former witnesses of C14-holographic-python-dump / C20-eject-json-holographic / C20-eject-json-nested-meta *)
Theorem C14_regression_holo_exported_as_text :
  ast_to_dict wit_holo = [([72], JStr raw_holo)] /\
  items_dict (ast_to_dict wit_holo) = items_doc wit_holo /\
  md_pairs (md_struct wit_holo) = [([72], raw_holo)].
Proof. exact regression_holo_exported_as_text. Qed.
Theorem C14_regression_nested_meta_converted :
  ast_to_dict wit_nested_meta =
    [(s_META, JMap [([78], JMap [([76], JList [JStr [97]; JStr [98]]); ([72], JStr raw_holo)])]);
     (s_K, JList [JStr raw_holo; JMap [([107], JStr raw_holo)]])] /\
  wf_doc wit_nested_meta = true /\
  items_dict (ast_to_dict wit_nested_meta) = items_doc wit_nested_meta /\
  native_dict (ast_to_dict wit_nested_meta) = true.
Proof. exact regression_nested_meta_converted. Qed.
Theorem C14_dict_complete_full_refuted : ~ dict_complete_full.
Proof. exact dict_complete_full_refuted. Qed.
Theorem C14_refuted_section_dropped :
  project m_canonical wit_section = (wit_section, false, []) /\
  In ([PSec [49] s_S; PKey s_K], CLeaf (LfStr s_v)) (items_doc wit_section) /\
  items_dict (ast_to_dict wit_section) = [] /\
  md_pairs (md_struct wit_section) = [].
Proof. exact dict_complete_refuted_section_dropped. Qed.
Theorem C14_refuted_duplicate_key :
  project m_canonical wit_dup = (wit_dup, false, []) /\
  In ([PKey s_K], CLeaf (LfInt 1%Z)) (items_doc wit_dup) /\
  ~ In ([PKey s_K], CLeaf (LfInt 1%Z)) (items_dict (ast_to_dict wit_dup)).
Proof. exact dict_complete_refuted_duplicate_key. Qed.
Theorem C14_refuted_block_target_dropped :
  project m_canonical wit_target = (wit_target, false, []) /\
  In ([PKey [66]; PTarget], CLeaf (LfStr [84])) (items_doc wit_target) /\
  ~ In ([PKey [66]; PTarget], CLeaf (LfStr [84])) (items_dict (ast_to_dict wit_target)).
Proof. exact dict_complete_refuted_block_target_dropped. Qed.

(* Markdown (structured lines of the eject.py writer; NO oracle any more: a holographic value is shown as its pattern
   text, a nested META block as `k: v, k: v`): shows exactly every META entry and every assignment reachable through
   blocks, in order, duplicates included; nothing under a section marker (full completeness refuted) *)
Theorem C14_markdown_pairs : forall d, md_pairs (md_struct d) = doc_pairs d.
Proof. exact markdown_pairs. Qed.
Definition C14_markdown_complete_full : Prop := markdown_complete_full.
Theorem C14_markdown_complete_full_refuted : ~ markdown_complete_full.
Proof. exact markdown_complete_full_refuted. Qed.

(* formats agree -- PARTIAL: JSON and YAML serialise ONE dict (ast_to_dict), so they agree by construction modulo the
   trusted serialisers; on wf documents dict and markdown are both complete w.r.t. the same source *)
Theorem C14_formats_agree_partial : forall d, wf_doc d = true ->
  items_dict (ast_to_dict d) = items_doc d /\ md_pairs (md_struct d) = doc_pairs d.
Proof. exact (fun d H => conj (dict_complete_partial d H) (markdown_pairs d)). Qed.

(* the CLI copy of the dict converter passes literal-zone objects through unconverted *)
Theorem C14_cli_zone_not_exported : forall c t f,
  cli_ast_to_dict (mk_doc [68] [] [NAssign s_K (VZone c t f)]) = [(s_K, JZoneObj c t f)].
Proof. exact cli_zone_not_exported. Qed.
(* ... nor holographic values (cli/main.py is NOT repaired): the object reaches the serialiser; the CLI dict is neither
   native nor complete *)
Theorem C14_cli_holo_not_exported : forall r,
  cli_ast_to_dict (mk_doc [68] [] [NAssign s_K (VHolo r)]) = [(s_K, JHolo r)] /\
  native_dict (cli_ast_to_dict (mk_doc [68] [] [NAssign s_K (VHolo r)])) = false /\
  ~ In ([PKey s_K], CLeaf (LfStr r)) (items_dict (cli_ast_to_dict (mk_doc [68] [] [NAssign s_K (VHolo r)]))).
Proof. exact cli_holo_not_exported. Qed.

(* ---- ties to the current source text ---- *)
Theorem C14_consumed_tables :
  convert_value_classes = [1; 2; 3; 4; 5] /\ format_markdown_value_classes = [1; 2; 3; 4; 5] /\
  convert_node_classes = [1; 2] /\ cli_convert_value_classes = [2; 3].
Proof.
  exact (conj convert_value_classes_pin (conj format_markdown_value_classes_pin
        (conj convert_node_classes_pin cli_convert_value_classes_pin))).
Qed.
Theorem C14_pin_sources :
  projector_src_filter_fields = pinned_projector_src_filter_fields /\
  projector_src_ast_to_dict = pinned_projector_src_ast_to_dict /\
  projector_src_convert_value = pinned_projector_src_convert_value /\
  projector_src_convert_block = pinned_projector_src_convert_block /\
  projector_src_format_markdown_value = pinned_projector_src_format_markdown_value /\
  projector_src_ast_to_markdown = pinned_projector_src_ast_to_markdown /\
  projector_src_block_to_markdown = pinned_projector_src_block_to_markdown /\
  projector_src_eject_execute_tail = pinned_projector_src_eject_execute_tail.
Proof.
  exact (conj pin_projector_src_filter_fields (conj pin_projector_src_ast_to_dict (conj pin_projector_src_convert_value
        (conj pin_projector_src_convert_block (conj pin_projector_src_format_markdown_value (conj pin_projector_src_ast_to_markdown
        (conj pin_projector_src_block_to_markdown pin_projector_src_eject_execute_tail))))))).
Qed.
Theorem C14_pin_cli_sources :
  projector_src_cli_ast_to_dict = pinned_projector_src_cli_ast_to_dict /\
  projector_src_cli_ast_to_markdown = pinned_projector_src_cli_ast_to_markdown /\
  projector_src_cli_block_to_markdown = pinned_projector_src_cli_block_to_markdown /\
  projector_src_cli_eject = pinned_projector_src_cli_eject.
Proof.
  exact (conj pin_projector_src_cli_ast_to_dict (conj pin_projector_src_cli_ast_to_markdown
        (conj pin_projector_src_cli_block_to_markdown pin_projector_src_cli_eject))).
Qed.

(* ---- source-text pins (generated by harness/pinsets.py) ---- *)
(* every function of these modules is, text for text (comments and docstrings excluded), the one the models of this
   property were written against and validated against: harness/translate/srcdigest_t.py, Src/Pin_*.v *)
From OV Require Import Gen.SrcDigestGen Src.Pin_core_projector Src.Pin_mcp_eject Src.Pin_cli_main Src.Pin_core_emitter.
Theorem C14_pin_source_text :
  src_core_projector_pinned /\ src_mcp_eject_pinned /\ src_cli_main_pinned /\ src_core_emitter_pinned.
Proof. exact (conj src_core_projector_pinned_ok (conj src_mcp_eject_pinned_ok (conj src_cli_main_pinned_ok src_core_emitter_pinned_ok))). Qed.
