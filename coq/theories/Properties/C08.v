(* C08 -- validator verdicts follow the documented constraint semantics.
   ONLY theorem statements closed by `exact` (+ Definitions of the `_full` statements). *)
From OV Require Import Base.Strs Cst.Lits Cst.PyVal Cst.Constraints Cst.Chain Cst.Spec Cst.SpecFacts Cst.Validator
  Cst.ChainParse Cst.Pins_Constraints Gen.ConstraintsGen.
From Coq Require Import ZArith QArith Permutation.
Close Scope Q_scope.
Open Scope N_scope.

(* ---- chain level: for ALL chains, values, oracles ---- *)
Theorem C08_chain_conjunction : forall o ch v,
  conflicts ch = [] -> valid (chain_eval o ch v) = forallb (accepts o v) ch.
Proof. exact chain_conjunction. Qed.

Theorem C08_chain_accepts_iff : forall o ch v,
  valid (chain_eval o ch v) = true <-> (conflicts ch = [] /\ forall k, In k ch -> accepts o v k = true).
Proof. exact chain_accepts_iff. Qed.

Theorem C08_chain_failfast : forall o pre k post v,
  conflicts (pre ++ k :: post) = [] -> forallb (accepts o v) pre = true -> accepts o v k = false ->
  chain_eval o (pre ++ k :: post) v = eval o k v.
Proof. exact chain_failfast. Qed.

Theorem C08_chain_failfast_exists : forall o ch v,
  forallb (accepts o v) ch = false ->
  exists pre k post, ch = pre ++ k :: post /\ forallb (accepts o v) pre = true /\ accepts o v k = false.
Proof. exact first_fail_exists. Qed.

Theorem C08_chain_conflict_first : forall o ch v,
  conflicts ch <> [] ->
  valid (chain_eval o ch v) = false /\
  codes (chain_eval o ch v) = repeat cst_conflict_code (length (conflicts ch)) /\ (0 < length (conflicts ch))%nat.
Proof. exact chain_conflict_first. Qed.

Theorem C08_conflict_order_independent : forall ch ch', Permutation ch ch' -> has_conflict ch = has_conflict ch'.
Proof. exact conflict_order_independent. Qed.

Theorem C08_chain_order_independent : forall o ch ch' v,
  Permutation ch ch' -> valid (chain_eval o ch v) = valid (chain_eval o ch' v).
Proof. exact chain_order_independent. Qed.

(* only the NUMBER of E999 entries depends on the order (adjacent CONST pairs); not a property violation *)
Theorem C08_conflict_count_order_dependent :
  exists ch ch', Permutation ch ch' /\ length (conflicts ch) <> length (conflicts ch').
Proof. exact conflict_count_order_dependent. Qed.

Theorem C08_python_eq_symmetric : forall a b, atom_eqb a b = atom_eqb b a.
Proof. exact atom_eqb_sym. Qed.
Theorem C08_python_eq_transitive : forall a b c, atom_eqb a b = true -> atom_eqb b c = true -> atom_eqb a c = true.
Proof. exact atom_eqb_trans. Qed.

(* ---- each kind against its declarative meaning (Cst/Spec.v) ---- *)
Theorem C08_eval_REQ_spec : forall o v, valid (eval o CReq v) = true <-> spec_REQ v.
Proof. exact eval_REQ_spec. Qed.
Theorem C08_eval_OPT_spec : forall o v, eval o COpt v = ok.
Proof. exact eval_OPT_spec. Qed.
Theorem C08_eval_CONST_spec : forall o a v, valid (eval o (CConst a) v) = true <-> spec_CONST a v.
Proof. exact eval_CONST_spec. Qed.
Theorem C08_eval_ENUM_spec : forall o vals v,
  valid (eval o (CEnum vals) v) = true <-> spec_ENUM vals (py_str (o_str o) v).
Proof. exact eval_ENUM_spec. Qed.
Theorem C08_eval_ENUM_ambiguous : forall o vals v,
  spec_ENUM_ambiguous vals (py_str (o_str o) v) -> eval o (CEnum vals) v = fail s_E006.
Proof. exact eval_ENUM_ambiguous. Qed.
Theorem C08_eval_ENUM_nomatch : forall o vals v,
  spec_ENUM_nomatch vals (py_str (o_str o) v) -> eval o (CEnum vals) v = fail s_E005.
Proof. exact eval_ENUM_nomatch. Qed.
Theorem C08_eval_ENUM_exact_wins : forall o vals v, In (py_str (o_str o) v) vals -> eval o (CEnum vals) v = ok.
Proof. exact eval_ENUM_exact_wins. Qed.
Theorem C08_eval_TYPE_spec : forall o t v, valid (eval o (CType t) v) = true <-> spec_TYPE t v.
Proof. exact eval_TYPE_spec. Qed.
Theorem C08_eval_TYPE_unknown : forall o t v, assoc t cst_type_map = None -> eval o (CType t) v = fail s_E999.
Proof. exact eval_TYPE_unknown. Qed.
Theorem C08_eval_REGEX_spec : forall o p v, valid (eval o (CRegex p) v) = o_re o p.
Proof. exact eval_REGEX_spec. Qed.
Theorem C08_eval_DIR_spec : forall o v, valid (eval o CDir v) = true <-> ~ In 0 (py_str (o_str o) v).
Proof. exact eval_DIR_spec. Qed.
Theorem C08_eval_APPEND_spec : forall o v, valid (eval o CAppend v) = true <-> exists l, v = PList l.
Proof. exact eval_APPEND_spec. Qed.
Theorem C08_eval_MAXLEN_spec : forall o n v, valid (eval o (CMaxLen n) v) = true <-> spec_MAXLEN n v.
Proof. exact eval_MAXLEN_spec. Qed.
Theorem C08_eval_MINLEN_spec : forall o n v, valid (eval o (CMinLen n) v) = true <-> spec_MINLEN n v.
Proof. exact eval_MINLEN_spec. Qed.
Theorem C08_eval_DATE_oracle : forall o v, valid (eval o CDate v) = date_shape (py_str (o_str o) v) && o_fromiso o.
Proof. exact eval_DATE_oracle. Qed.
(* hypothesis = oracle honesty (fromisoformat agrees with the Gregorian check on DATE-shaped text), checked per case *)
Theorem C08_eval_DATE_spec : forall o v, fromiso_is_gregorian o v -> valid (eval o CDate v) = real_date (py_str (o_str o) v).
Proof. exact eval_DATE_spec. Qed.
Theorem C08_eval_DATE_spec_nonvacuous :
  fromiso_is_gregorian (mkorc [] None true true (fun _ => false)) (PA (AStr [50;48;50;52;45;48;50;45;50;57])).
Proof. exact fromiso_is_gregorian_ex. Qed.
Theorem C08_eval_ISO_spec : forall o v, valid (eval o CIso v) = o_fromiso_z o.
Proof. exact eval_ISO_spec. Qed.
Theorem C08_eval_LITERAL_spec : forall o v, valid (eval o CLiteral v) = true <-> exists c t, v = PZone c t.
Proof. exact eval_LITERAL_spec. Qed.

(* RANGE: unconditional -- no hypothesis on nan, on the size of an int, or on the bounds.  (Until repo commit 8e26d46 the
   statement carried `range_nan_free` and had a `_refuted` companion: RANGE[1,10] accepted "nan"; repaired.) *)
Definition C08_eval_RANGE_spec_full : Prop :=
  forall o lo hi v, valid (eval o (CRange lo hi) v) = true <-> spec_RANGE (o_float o) lo hi v.
Theorem C08_eval_RANGE_spec : forall o lo hi v,
  valid (eval o (CRange lo hi) v) = true <-> spec_RANGE (o_float o) lo hi v.
Proof. exact eval_RANGE_spec. Qed.
Theorem C08_eval_RANGE_spec_is_full : C08_eval_RANGE_spec_full.
Proof. exact eval_RANGE_spec. Qed.
Theorem C08_eval_RANGE_reject_code : forall o lo hi v,
  valid (eval o (CRange lo hi) v) = false -> eval o (CRange lo hi) v = fail s_E011.
Proof. exact eval_RANGE_reject_code. Qed.
Theorem C08_eval_RANGE_rejects_nan : forall o lo hi v,
  num_value (o_float o) v = Some FNan -> eval o (CRange lo hi) v = fail s_E011.
Proof. exact eval_RANGE_rejects_nan. Qed.
Theorem C08_eval_RANGE_int_exact : forall o lo hi z,
  valid (eval o (CRange (FFin (inject_Z lo)) (FFin (inject_Z hi))) (PA (AInt z))) = ((lo <=? z)%Z && (z <=? hi)%Z).
Proof. exact eval_RANGE_int_exact. Qed.
Theorem C08_eval_RANGE_spec_nonvacuous :
  valid (eval (orc_fl (Some (FFin (11 # 2)))) (CRange (FFin (inject_Z 1)) (FFin (inject_Z 10))) (PA (AStr [53;46;53]))) = true
  /\ spec_RANGE (Some (FFin (11 # 2))) (FFin (inject_Z 1)) (FFin (inject_Z 10)) (PA (AStr [53;46;53]))
  /\ valid (eval (orc_fl None) (CRange (FFin (inject_Z 0)) (FFin (inject_Z 9007199254740993))) (PA (AInt 9007199254740993))) = true.
Proof. exact range_accepts_ex. Qed.
(* regression: "nan" / float nan rejected by RANGE[1,10]; 2^53+1 rejected and 2^53 accepted by RANGE[0,2^53]; 10^400 -> E011 *)
Theorem C08_eval_RANGE_regression :
  eval (orc_fl (Some FNan)) (CRange (FFin (inject_Z 1)) (FFin (inject_Z 10))) (PA (AStr s_nan)) = fail s_E011
  /\ eval (orc_fl None) (CRange (FFin (inject_Z 1)) (FFin (inject_Z 10))) (PA (AFloat FNan s_nan)) = fail s_E011
  /\ eval (orc_fl None) (CRange (FFin (inject_Z 0)) (FFin (inject_Z 9007199254740992))) (PA (AInt 9007199254740993)) = fail s_E011
  /\ eval (orc_fl None) (CRange (FFin (inject_Z 0)) (FFin (inject_Z 9007199254740992))) (PA (AInt 9007199254740992)) = ok
  /\ eval (orc_fl None) (CRange (FFin (inject_Z 1)) (FFin (inject_Z 10))) (PA (AInt (10 ^ 400))) = fail s_E011.
Proof. exact range_regression_ex. Qed.

(* ---- document level ---- *)
Theorem C08_missing_req_named : forall oof sec sc inst f ch,
  In (f, Some ch) (sc_fields sc) -> existsb is_req ch = true -> ~ In f (map fst inst) ->
  In (mkverr s_E003 (path sec f) sev_error) (validate_section oof sec sc inst).
Proof. exact missing_req_named. Qed.
Theorem C08_unknown_reject_named : forall oof sec sc inst k,
  policy_norm (sc_policy sc) = p_REJECT -> is_unknown sc inst k ->
  In (mkverr s_E007 (path sec k) sev_error) (validate_section oof sec sc inst).
Proof. exact unknown_reject_named. Qed.
Theorem C08_policy_invalid_is_reject : forall p, str_in p [p_REJECT; p_IGNORE; p_WARN] = false -> policy_norm p = p_REJECT.
Proof. exact policy_invalid_is_reject. Qed.
Theorem C08_unknown_warn_only_warning : forall sec sc inst,
  policy_norm (sc_policy sc) = p_WARN ->
  (forall e, In e (unknown_errors sec sc inst) -> ve_sev e = sev_warning /\ ve_code e = s_W001) /\
  (forall k, is_unknown sc inst k -> In (mkverr s_W001 (path sec k) sev_warning) (unknown_errors sec sc inst)).
Proof. exact unknown_warn_only_warning. Qed.
Theorem C08_unknown_ignore_silent : forall sec sc inst,
  policy_norm (sc_policy sc) = p_IGNORE -> unknown_errors sec sc inst = [].
Proof. exact unknown_ignore_silent. Qed.
Theorem C08_unknown_errors_only_unknown : forall sec sc inst e,
  In e (unknown_errors sec sc inst) -> exists k, is_unknown sc inst k /\ ve_path e = path sec k.
Proof. exact unknown_errors_only_unknown. Qed.

(* at the octave_validate surface "WARN produces only a warning" is false: finding C08-warn-invalid *)
Definition C08_tool_warn_only_warning_full : Prop := tool_warn_only_warning_full.
Theorem C08_tool_warn_only_warning_refuted : ~ tool_warn_only_warning_full.
Proof. exact tool_warn_only_warning_refuted. Qed.

(* ---- ties to the current source text ---- *)
Theorem C08_pin_codes :
  code_of k_Required 0 = s_E003 /\ code_of k_Const 0 = s_E004 /\ code_of k_Enum 0 = s_E005 /\ code_of k_Enum 1 = s_E006 /\
  code_of k_Type 0 = s_E999 /\ code_of k_Type 1 = s_E007 /\ code_of k_Type 2 = s_E007 /\ code_of k_Regex 0 = s_E008 /\
  code_of k_Dir 0 = s_E009 /\ code_of k_AppendOnly 0 = s_E010 /\
  code_of k_Range 0 = s_E011 /\ code_of k_Range 1 = s_E011 /\ code_of k_Range 2 = s_E011 /\
  code_of k_MaxLength 0 = s_E012 /\ code_of k_MaxLength 2 = s_E012 /\ code_of k_MinLength 0 = s_E013 /\ code_of k_MinLength 2 = s_E013 /\
  code_of k_Date 0 = s_E014 /\ code_of k_Date 1 = s_E014 /\ code_of k_Iso8601 0 = s_E015 /\
  code_of k_Literal 0 = s_E007 /\ code_of k_Lang 0 = s_E007 /\ code_of k_Lang 1 = s_E007 /\ code_of k_Lang 2 = s_E007 /\ code_of k_Lang 3 = s_E007.
Proof. exact codes_pin. Qed.
Theorem C08_pin_conflict_code : cst_conflict_code = s_E999.
Proof. exact pin_cst_conflict_code. Qed.
Theorem C08_pin_type_map :
  cst_type_map = [(s_STRING, [t_str]); (s_NUMBER, [t_int; t_float]); (s_BOOLEAN, [t_bool]); (s_LIST, [t_list])].
Proof. exact type_map_pin. Qed.
Theorem C08_pin_evaluate_skeletons : cst_eval_skeletons = pinned_cst_eval_skeletons.
Proof. exact pin_cst_eval_skeletons. Qed.
Theorem C08_pin_date_regex : cst_date_regex = pinned_cst_date_regex.
Proof. exact pin_cst_date_regex. Qed.
Theorem C08_pin_chain_skeletons :
  cst_skel_chain_evaluate = pinned_cst_skel_chain_evaluate /\ cst_skel_detect_conflicts = pinned_cst_skel_detect_conflicts /\
  cst_skel_split_parts = pinned_cst_skel_split_parts /\ cst_skel_parse = pinned_cst_skel_parse /\
  cst_skel_parse_atom = pinned_cst_skel_parse_atom /\ cst_parse_table = pinned_cst_parse_table.
Proof.
  exact (conj pin_cst_skel_chain_evaluate (conj pin_cst_skel_detect_conflicts (conj pin_cst_skel_split_parts
        (conj pin_cst_skel_parse (conj pin_cst_skel_parse_atom pin_cst_parse_table))))).
Qed.
Theorem C08_pin_validator :
  val_skel_unknown_fields = pinned_val_skel_unknown_fields /\ val_skel_validate_section = pinned_val_skel_validate_section /\
  missing_code = s_E003 /\ val_default_severity = sev_error /\
  val_unknown_table = [(p_REJECT, s_E007, sev_error); (p_WARN, s_W001, sev_warning)] /\
  tool_reads_severity = false.
Proof.
  exact (conj pin_val_skel_unknown_fields (conj pin_val_skel_validate_section
        (conj (proj1 missing_code_pin) (conj (proj2 missing_code_pin) (conj (proj1 unknown_table_pin) tool_severity_pin))))).
Qed.
Theorem C08_parse_table_offsets :
  forallb (fun r => match r with (kind, pre, _, off, _) => (kind =? 0) || (N.of_nat (length pre) =? off) end) cst_parse_table = true.
Proof. exact parse_table_offsets. Qed.

(* ---- source-text pins (generated by harness/pinsets.py) ---- *)
(* every function of these modules is, text for text (comments and docstrings excluded), the one the models of this
   property were written against and validated against: harness/translate/srcdigest_t.py, Src/Pin_*.v *)
From OV Require Import Gen.SrcDigestGen Src.Pin_core_constraints Src.Pin_core_validator Src.Pin_core_holographic Src.Pin_core_schema_extractor Src.Pin_schemas_loader Src.Pin_mcp_validate.
Theorem C08_pin_source_text :
  src_core_constraints_pinned /\ src_core_validator_pinned /\ src_core_holographic_pinned /\ src_core_schema_extractor_pinned /\ src_schemas_loader_pinned /\ src_mcp_validate_pinned.
Proof. exact (conj src_core_constraints_pinned_ok (conj src_core_validator_pinned_ok (conj src_core_holographic_pinned_ok (conj src_core_schema_extractor_pinned_ok (conj src_schemas_loader_pinned_ok src_mcp_validate_pinned_ok))))). Qed.
