(* C10 -- validation status is always present and never overstated (I5).
   ONLY theorem statements closed by `exact`.  Model: Tools/Envelope.v (the decision functions are the generic
   interpreter `run` applied to the guard table Gen/StatusGen.v, regenerated from /repo on every run by
   harness/translate/status_t.py); proofs: Tools/EnvelopeFacts.v (one vm_compute pass over the whole finite fact
   space of each tool, lifted to universally quantified statements; the domain bound is the wf_* predicate).
   Envelope codes: e_vs 1 VALIDATED / 2 UNVALIDATED / 3 INVALID; e_valid 0 absent / 1 True / 2 False;
   e_verrs 1 empty / 2 non-empty; e_vcount 2 positive; e_status 1 success / 2 error; e_echo = status printed by the CLI. *)
From OV Require Import Base.Strs Tools.EnvelopeSyntax Gen.StatusGen Tools.Envelope Tools.EnvelopeFacts Tools.EnvelopePins.
From Coq Require Import String.
Open Scope N_scope.

(* ---------------------------------------------------------------------------------------------------------- *)
(* octave_validate: 5 x 2^12 = 20480 fact valuations x 2^4 flag values (fix, diff_only, grammar_hint, debug_grammar) *)

(* every valuation yields a response, and its validation_status is one of the three *)
Theorem C10_validate_status_total : forall f fx d gh dg, wf_v f ->
  exists e, validate_env f fx d gh dg = Some e /\ (vs_is VALIDATED e || vs_is UNVALIDATED e || vs_is INVALID e = true).
Proof. exact validate_status_total. Qed.

(* VALIDATED -> parsed, schema found (builtin dict, or loaded definition with fields), no blocking error *)
Theorem C10_validate_validated_sound : forall f fx d gh dg e, wf_v f -> validate_env f fx d gh dg = Some e -> e_vs e = VALIDATED ->
  v_parse_ok f && v_has_schema f && (negb (v_errs f) || v_lenient_profile f) = true.
Proof. exact validate_validated_sound. Qed.

(* tokenise/parse failure, or unknown / malformed / unloadable / field-less schema -> UNVALIDATED *)
Theorem C10_validate_unvalidated_on_failure : forall f fx d gh dg e, wf_v f -> validate_env f fx d gh dg = Some e ->
  negb (v_parse_ok f) || negb (v_has_schema f) = true -> e_vs e = UNVALIDATED.
Proof. exact validate_unvalidated_on_failure. Qed.

(* INVALID -> STRICT/STANDARD, >= 1 reported error (list non-empty, or count positive when compact), name and version *)
Theorem C10_validate_invalid_has_errors : forall f fx d gh dg e, wf_v f -> validate_env f fx d gh dg = Some e -> e_vs e = INVALID ->
  ((v_profile f =? 0) || (v_profile f =? 1)) && ((e_verrs e =? 2) || (e_vcount e =? 2)) && e_name e && e_version e && v_errs f = true.
Proof. exact validate_invalid_has_errors. Qed.

(* valid is present, boolean, and True exactly when VALIDATED *)
Theorem C10_validate_valid_iff_validated : forall f fx d gh dg e, wf_v f -> validate_env f fx d gh dg = Some e ->
  negb (e_valid e =? 0) && Bool.eqb (e_valid e =? 1) (vs_is VALIDATED e) && ((e_valid e =? 1) || (e_valid e =? 2)) = true.
Proof. exact validate_valid_iff_validated. Qed.

(* exact characterisation of VALIDATED; VALIDATED names the schema *)
Theorem C10_validate_validated_iff_cond : forall f fx d gh dg e, wf_v f -> validate_env f fx d gh dg = Some e ->
  vs_is VALIDATED e = v_validated_cond f.
Proof. exact validate_validated_iff_cond. Qed.
Theorem C10_validate_validated_names_schema : forall f fx d gh dg e, wf_v f -> validate_env f fx d gh dg = Some e -> e_vs e = VALIDATED ->
  e_name e && e_version e = true.
Proof. exact validate_validated_names_schema. Qed.

(* re-validation of the returned canonical under the same schema and profile (hypotheses = C01 / C06 / C09 / C11 facts,
   measured on every case by the harness) *)
Theorem C10_validate_revalidate : forall f fx d gh dg e f2 fx2 d2 gh2 dg2 e2,
  wf_v f -> wf_v f2 ->
  validate_env f fx d gh dg = Some e -> e_vs e = VALIDATED ->
  v_content f2 = true -> v_file f2 = false ->
  v_profile f2 = v_profile f ->
  v_builtin f2 = v_builtin f -> v_loaded f2 = v_loaded f -> v_fields f2 = v_fields f ->
  v_parse_ok f2 = true ->
  (v_errs f = false -> v_errs f2 = false) ->
  validate_env f2 fx2 d2 gh2 dg2 = Some e2 -> e_vs e2 = VALIDATED.
Proof. exact validate_revalidate. Qed.
(* ... and the profile matters: LENIENT's VALIDATED is STANDARD's INVALID *)
Theorem C10_validate_revalidate_cross_profile_refuted :
  exists f f2 e e2, wf_v f /\ wf_v f2 /\ validate_env0 f = Some e /\ validate_env0 f2 = Some e2 /\
    v_profile f = 2 /\ v_profile f2 = 1 /\ v_builtin f2 = v_builtin f /\ v_loaded f2 = v_loaded f /\ v_fields f2 = v_fields f /\
    v_errs f2 = v_errs f /\ v_parse_ok f2 = true /\ e_vs e = VALIDATED /\ e_vs e2 = INVALID.
Proof. exact validate_revalidate_cross_profile_refuted. Qed.

(* ---------------------------------------------------------------------------------------------------------- *)
(* octave_write: 1 105 920 fact valuations x 2^2 flag values (grammar_hint, debug_grammar) *)
Theorem C10_write_status_total : forall f gh dg, wf_w f ->
  exists e, write_env f gh dg = Some e /\ (vs_is VALIDATED e || vs_is UNVALIDATED e || vs_is INVALID e = true).
Proof. exact write_status_total. Qed.
Theorem C10_write_validated_sound : forall f gh dg e, wf_w f -> write_env f gh dg = Some e -> e_vs e = VALIDATED ->
  w_schema f && w_has_schema f && negb (w_errs f) = true.
Proof. exact write_validated_sound. Qed.
Theorem C10_write_unvalidated_on_schema_failure : forall f gh dg e, wf_w f -> write_env f gh dg = Some e ->
  negb (w_schema f) || negb (w_has_schema f) = true -> e_vs e = UNVALIDATED.
Proof. exact write_unvalidated_on_schema_failure. Qed.

(* tokenise/parse failure of the text octave_write parses -> UNVALIDATED, unconditionally (since /repo f3e003d; the
   former finding C10-salvage-validated: lenient + parse_error_policy="salvage" answered VALIDATED) *)
Theorem C10_write_unvalidated_on_parse_failure : forall f gh dg e, wf_w f -> write_env f gh dg = Some e ->
  w_parse_fail f = true -> e_vs e = UNVALIDATED.
Proof. exact write_unvalidated_on_parse_failure. Qed.
(* salvaged content stays UNVALIDATED, without schema name / version / validation_errors *)
Theorem C10_write_salvaged_is_unvalidated : forall f gh dg e, wf_w f -> write_env f gh dg = Some e -> w_salvaged f = true ->
  e_vs e = UNVALIDATED /\ e_name e = false /\ e_version e = false /\ e_verrs e = 0.
Proof. exact write_salvaged_is_unvalidated. Qed.
(* the flag local `salvaged` of WriteTool.execute, evaluated from its generated assignment sites, is the fact w_salvaged
   (a revert of the fix removes the flag table and breaks this) *)
Theorem C10_write_salvaged_flag_is_fact : forall f, wf_w f -> write_salvaged_flag f = Some (w_salvaged f).
Proof. exact write_salvaged_flag_is_fact. Qed.
(* regression: the witness of the former finding *)
Theorem C10_write_salvage_regression :
  wf_w salvage_witness /\ w_parse_fail salvage_witness = true /\ w_salvaged salvage_witness = true /\
  w_schema salvage_witness = true /\ w_has_schema salvage_witness = true /\ w_errs salvage_witness = false /\
  exists e, write_env0 salvage_witness = Some e /\ e_vs e = UNVALIDATED /\ e_status e = 1 /\ e_name e = false /\ e_version e = false.
Proof. exact write_salvage_regression. Qed.

(* INVALID -> non-empty validation_errors, schema name and version, a found schema *)
Theorem C10_write_invalid_has_errors : forall f gh dg e, wf_w f -> write_env f gh dg = Some e -> e_vs e = INVALID ->
  (e_verrs e =? 2) && e_name e && e_version e && w_errs f && w_schema f && w_has_schema f = true.
Proof. exact write_invalid_has_errors. Qed.
(* octave_write has no `valid` key *)
Theorem C10_write_valid_absent : forall f gh dg e, wf_w f -> write_env f gh dg = Some e -> e_valid e = 0.
Proof. exact write_valid_absent. Qed.
Theorem C10_write_validated_iff_cond : forall f gh dg e, wf_w f -> write_env f gh dg = Some e -> vs_is VALIDATED e = w_validated_cond f.
Proof. exact write_validated_iff_cond. Qed.
Theorem C10_write_validated_names_schema : forall f gh dg e, wf_w f -> write_env f gh dg = Some e -> e_vs e = VALIDATED ->
  e_name e && e_version e = true.
Proof. exact write_validated_names_schema. Qed.
(* every error envelope is UNVALIDATED *)
Theorem C10_write_error_is_unvalidated : forall f gh dg e, wf_w f -> write_env f gh dg = Some e -> e_status e = 2 -> e_vs e = UNVALIDATED.
Proof. exact write_error_is_unvalidated. Qed.
(* re-validation: normalize-mode octave_write on the written file / octave_validate of the written file *)
Theorem C10_write_revalidate : forall f gh dg e f2 gh2 dg2 e2,
  wf_w f -> wf_w f2 -> write_env f gh dg = Some e -> e_vs e = VALIDATED ->
  w_content f2 = false -> w_changes f2 = false -> w_exists f2 = true -> w_path_ok f2 = true ->
  w_policy f2 < 2 -> w_io f2 = 0 -> w_post f2 < 2 -> w_emit_ok f2 = true ->
  w_pst f2 = 0 ->
  w_schema f2 = w_schema f -> w_builtin f2 = w_builtin f -> w_loaded f2 = w_loaded f -> w_fields f2 = w_fields f ->
  (w_errs f = false -> w_errs f2 = false) ->
  write_env f2 gh2 dg2 = Some e2 -> e_vs e2 = VALIDATED.
Proof. exact write_revalidate. Qed.
Theorem C10_write_then_validate : forall f gh dg e f2 fx2 d2 gh2 dg2 e2,
  wf_w f -> wf_v f2 -> write_env f gh dg = Some e -> e_vs e = VALIDATED ->
  v_input_ok f2 = true -> v_parse_ok f2 = true ->
  v_builtin f2 = w_builtin f -> v_loaded f2 = w_loaded f -> v_fields f2 = w_fields f ->
  (w_errs f = false -> v_errs f2 = false) ->
  validate_env f2 fx2 d2 gh2 dg2 = Some e2 -> e_vs e2 = VALIDATED.
Proof. exact write_then_validate. Qed.

(* ---------------------------------------------------------------------------------------------------------- *)
(* octave_eject (2 x 2 x 5 valuations) and octave_compile_grammar (3 x 2^9): always a response, always UNVALIDATED *)
Theorem C10_eject_always_unvalidated : forall f, wf_j f -> exists e, eject_env f = Some e /\ e_vs e = UNVALIDATED /\ e_valid e = 0.
Proof. exact eject_always_unvalidated. Qed.
Theorem C10_grammar_always_unvalidated : forall f, wf_g f -> exists e, grammar_env f = Some e /\ e_vs e = UNVALIDATED /\ e_valid e = 0.
Proof. exact grammar_always_unvalidated. Qed.

(* ---------------------------------------------------------------------------------------------------------- *)
(* `octave validate` (2^11 x 3) and `octave write` (3 x 2^3 x 3 x 2^4): the `validation_status:` line and the exit code *)
Theorem C10_cli_validate_line_and_exit : forall f, wf_cv f -> exists e, cli_validate_env f = Some e /\
  cvc_line f e && cvc_noline f e && cvc_invalid_exit f e && cvc_exc f e && cvc_invalid_errs f e = true.
Proof. exact cli_validate_line_and_exit. Qed.
(* the VALIDATED line: FULL statement false of the faithful model on a latent path (--fix + unknown schema + an error
   reported by the schema-less validator that repair removes); proved under "the schema-less validator reports nothing" *)
Definition C10_cli_validate_validated_sound_full : Prop := cli_validate_validated_sound_full.
Theorem C10_cli_validate_validated_sound_partial : forall f, wf_cv f -> cv_errs_noschema f = false ->
  exists e, cli_validate_env f = Some e /\ (e_echo e = VALIDATED -> cv_schema f && cv_builtin f && negb (cv_final_errs f) = true).
Proof. exact cli_validate_validated_sound_partial. Qed.
Theorem C10_cli_validate_validated_sound_refuted :
  exists f e, wf_cv f /\ cli_validate_env f = Some e /\ e_echo e = VALIDATED /\ e_exit e = 0 /\ cv_builtin f = false.
Proof. exact cli_validate_validated_sound_refuted. Qed.
Theorem C10_cli_write_line_and_exit : forall f, wf_cw f -> exists e, cli_write_env f = Some e /\
  cwc_line f e && cwc_noline f e && cwc_sound f e && cwc_invalid f e && cwc_exc f e = true.
Proof. exact cli_write_line_and_exit. Qed.

(* ---------------------------------------------------------------------------------------------------------- *)
(* pins: the literals of /repo behind the fact encodings (profiles, formats, schema-name guard, builtin dict schemas),
   and: every regenerated table compiles against the atom dictionary (no source test the model does not know) *)
Theorem C10_pin_valid_profiles : status_valid_profiles = [s2l "LENIENT"; s2l "STANDARD"; s2l "STRICT"; s2l "ULTRA"].
Proof. exact pin_valid_profiles. Qed.
Theorem C10_pin_default_profile : status_default_profile = s2l "STANDARD".
Proof. exact pin_default_profile. Qed.
Theorem C10_pin_valid_formats : status_valid_formats = [s2l "gbnf"; s2l "json_schema"].
Proof. exact pin_valid_formats. Qed.
Theorem C10_pin_schema_name_pattern : status_schema_name_pattern = s2l "^[A-Z][A-Z0-9_]*$".
Proof. exact pin_schema_name_pattern. Qed.
Theorem C10_pin_loader_name_guard : status_loader_name_guard = s2l "not SCHEMA_NAME_PATTERN.match(schema_name)".
Proof. exact pin_loader_name_guard. Qed.
Theorem C10_pin_get_builtin_return : status_get_builtin_return = s2l "BUILTIN_SCHEMA_DEFINITIONS.get(schema_name)".
Proof. exact pin_get_builtin_return. Qed.
Theorem C10_pin_builtin_named : forallb (fun e => snd (fst e) && snd e) status_builtin_dict_schemas = true.
Proof. exact pin_builtin_named. Qed.
Theorem C10_pin_tables_compile :
  (if validate_compiled then true else false) && (if write_compiled then true else false) &&
  (if eject_compiled then true else false) && (if grammar_compiled then true else false) &&
  (if cli_validate_compiled then true else false) && (if cli_write_compiled then true else false) = true.
Proof. exact pin_tables_compile. Qed.

(* schema resolution is re-checked on every call, never remembered: the decision table of resolve_hermetic_standard
   (return the cache slot only when the digest computed from the file IN THIS CALL equals the pinned one), the definitions
   of its locals (no other effect), and: no resolver function is decorated or mentions module-level state other than
   SCHEMA_NAME_PATTERN / BUILTIN_SCHEMA_DEFINITIONS (expected values: Tools/EnvelopePins.v) *)
Theorem C10_pin_hermetic_rows : status_hermetic_rows = hermetic_rows_expected.
Proof. exact pin_hermetic_rows. Qed.
Theorem C10_pin_hermetic_defs : status_hermetic_defs = hermetic_defs_expected.
Proof. exact pin_hermetic_defs. Qed.
Theorem C10_pin_resolver_state : status_resolver_state = resolver_state_expected.
Proof. exact pin_resolver_state. Qed.

(* ---- source-text pins (generated by harness/pinsets.py) ---- *)
(* every function of these modules is, text for text (comments and docstrings excluded), the one the models of this
   property were written against and validated against: harness/translate/srcdigest_t.py, Src/Pin_*.v *)
From OV Require Import Gen.SrcDigestGen Src.Pin_mcp_validate Src.Pin_mcp_write Src.Pin_mcp_eject Src.Pin_mcp_compile_grammar Src.Pin_core_validator Src.Pin_schemas_loader Src.Pin_core_hydrator.
Theorem C10_pin_source_text :
  src_mcp_validate_pinned /\ src_mcp_write_pinned /\ src_mcp_eject_pinned /\ src_mcp_compile_grammar_pinned /\ src_core_validator_pinned /\ src_schemas_loader_pinned /\ src_core_hydrator_pinned.
Proof. exact (conj src_mcp_validate_pinned_ok (conj src_mcp_write_pinned_ok (conj src_mcp_eject_pinned_ok (conj src_mcp_compile_grammar_pinned_ok (conj src_core_validator_pinned_ok (conj src_schemas_loader_pinned_ok src_core_hydrator_pinned_ok)))))). Qed.
