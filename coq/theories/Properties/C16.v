(* C16 -- writes are all-or-nothing at every interruption point.  ONLY statements closed by `exact`.
   Model: Fs/Fs.v (file system), Fs/WriteProto.v (`run` over the GENERATED protocols Gen/WriteGen.v with a
   fault assignment ok | fail errno | crash per op instance), proofs Fs/AbsSound.v + Fs/Atomic.v.
   ASSUMED, not proved (partial): rename(2) is atomic, a killed process leaves the tree as the last completed
   call left it; durability after power loss (what fsync buys) is not modelled at all. *)
From OV Require Import Base.Strs Fs.Fs Fs.ProtoSyntax Fs.WriteProto Fs.Abs Fs.AbsSound Fs.Atomic Gen.WriteGen.

(* for EVERY fault assignment (any number of failures, any errno, crash at any op instance), every oracle and
   every initial file system: the target is its old self (absent included) or the complete new text *)
Theorem C16_atomic_faults : forall H E p s0, wf_env E s0 ->
  let s := fst (run H E p s0) in target_is_old E s0 s \/ target_is_new E s0 s.
Proof. exact atomic_faults. Qed.

Theorem C16_atomic_crash : forall H E p s0, wf_env E s0 -> snd (run H E p s0) = Crashed ->
  let s := fst (run H E p s0) in target_is_old E s0 s \/ target_is_new E s0 s.
Proof. exact atomic_crash. Qed.

(* nothing but target, the temp file and the parent chain is touched *)
Theorem C16_frame : forall H E p s0, wf_env E s0 ->
  forall q, q <> e_target E -> q <> e_tmp E -> ~ In q (e_chain E) -> lookup q (fsys (fst (run H E p s0))) = lookup q s0.
Proof. exact frame. Qed.

(* error returned or raised: target as before; no temp unless the cleanup (os.path.exists(temp)/os.unlink(temp))
   itself failed; no new directories if the parent directory existed *)
Theorem C16_error_clean_partial : forall H E p s0, wf_env E s0 -> is_error (snd (run H E p s0)) = true ->
  let s := fst (run H E p s0) in
  target_is_old E s0 s /\
  (ulfail s = false -> lookup (e_tmp E) (fsys s) = None) /\
  (par_ready E s0 = true -> forall q, In q (e_chain E) -> lookup q (fsys s) = lookup q s0).
Proof. exact error_clean. Qed.

(* success: the installed bytes are the text whose hash is returned; final mode = old permission bits; no temp *)
Theorem C16_success_hash : forall H E p s0 h, wf_env E s0 -> snd (run H E p s0) = Success h ->
  dry_of p (aenv_of H E s0 all_faults) = false ->
  let s := fst (run H E p s0) in
  exists c, cont s = Some c /\ h = H c /\ lookup (e_target E) (fsys s) = Some (File c (fmode E s0)) /\
            lookup (e_tmp E) (fsys s) = None.
Proof. exact success_installed. Qed.

Theorem C16_mode_kept : forall H E p s0 h d m, wf_env E s0 -> snd (run H E p s0) = Success h ->
  dry_of p (aenv_of H E s0 all_faults) = false -> lookup (e_target E) s0 = Some (File d m) ->
  exists c, lookup (e_target E) (fsys (fst (run H E p s0))) = Some (File c m).
Proof. exact mode_kept. Qed.

(* corrections_only: every path unchanged, whatever is returned, under faults and crashes too *)
Theorem C16_dryrun_pure : forall H E m s0, wf_env E s0 -> e_dry E = true ->
  forall q, lookup q (fsys (fst (run H E (PExecute m) s0))) = lookup q s0.
Proof. exact dryrun_pure. Qed.

(* ---- full statements that are FALSE of the faithful model ------------------------------------------------- *)
Definition C16_error_no_temp_full : Prop := error_no_temp_full.
(* write fails (ENOSPC) and the cleanup os.unlink fails too: status=error, temp file left *)
Theorem C16_error_no_temp_refuted : exists H E p s0, wf_env E s0 /\ is_error (snd (run H E p s0)) = true /\
  lookup (e_tmp E) (fsys (fst (run H E p s0))) <> None.
Proof. exact error_no_temp_refuted. Qed.
(* same when the (swallowed) failure is in os.path.exists(temp_path) *)
Theorem C16_error_no_temp_refuted_exists_check : exists H E p s0, wf_env E s0 /\ is_error (snd (run H E p s0)) = true /\
  lookup (e_tmp E) (fsys (fst (run H E p s0))) <> None.
Proof. exact error_no_temp_refuted_exists. Qed.
Definition C16_error_no_residue_full : Prop := error_no_residue_full.
(* missing parent, mkstemp fails: status=error but mkdir(parents=True) already created the directories *)
Theorem C16_error_no_residue_refuted : exists H E p s0, wf_env E s0 /\ is_error (snd (run H E p s0)) = true /\
  exists q, In q (e_chain E) /\ lookup q (fsys (fst (run H E p s0))) <> lookup q s0.
Proof. exact error_no_residue_refuted. Qed.

Theorem C16_nonvacuous :
  snd (run Atomic.Hid (mkenv (fun _ => FOk)) (PExecute MContent) fs_existing) = Success [78; 69; 87]%N /\
  lookup t_target (fsys (fst (run Atomic.Hid (mkenv (fun _ => FOk)) (PExecute MContent) fs_existing))) = Some (File [78; 69; 87]%N 420%N).
Proof. exact success_nonvacuous. Qed.

(* ---- ties to the source ------------------------------------------------------------------------------------- *)
(* the GENERATED protocols pass the abstract check the theorems above rest on (recomputed whenever the source changes) *)
Theorem C16_generated_protocols_checked : check_protos = true.
Proof. exact check_protos_ok. Qed.
(* soundness of that check: invariant preserved by every op + induction over the protocol syntax *)
Theorem C16_abstract_sound : forall H E fs0 X, wfX H E fs0 X -> forall p cur s a, Rc E fs0 s a ->
  Sound E fs0 (fst (exec H E p cur s)) (snd (exec H E p cur s)) (aexec X p (is_perm cur) a).
Proof. exact exec_sound. Qed.
Theorem C16_pin_pre_phase : wt_dry_guard_before_block = true /\ wt_execute_has_await = false.
Proof. exact (conj pin_dry_guard pin_no_await). Qed.

(* ---- source-text pins (generated by harness/pinsets.py) ---- *)
(* every function of these modules is, text for text (comments and docstrings excluded), the one the models of this
   property were written against and validated against: harness/translate/srcdigest_t.py, Src/Pin_*.v *)
From OV Require Import Gen.SrcDigestGen Src.Pin_mcp_write Src.Pin_core_file_ops Src.Pin_cli_main.
Theorem C16_pin_source_text :
  src_mcp_write_pinned /\ src_core_file_ops_pinned /\ src_cli_main_pinned.
Proof. exact (conj src_mcp_write_pinned_ok (conj src_core_file_ops_pinned_ok src_cli_main_pinned_ok)). Qed.
