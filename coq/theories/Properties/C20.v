(* C20 -- any text is either read or cleanly refused; tools never raise.
   ONLY theorem statements closed by `exact`.  What each one rests on is said next to it; the two explicit
   assumption tables are  ExnFlowLoopsObl.consuming_calls  (call contract of three parser methods) and
   ExnFlow.raising / ExnFlow.total  (what each stage called by a tool may raise on well-typed arguments). *)
From OV Require Import Base.Strs Gen.LexerGen Lex.Lexer Lex.Progress.
From OV Require Import Tools.ExnFlowLang Tools.ExnFlowLoops Gen.ParserLoopsGen Gen.ExnFlowGen Tools.ExnFlowPinsParser
  Tools.ExnFlowLoopsObl Tools.ExnFlow.
From OV Require Tools.ExnFlowEject Proj.Ast Proj.Convert.

(* ---- lexer: progress, termination within the fuel, error kinds (faithful model Lex/Lexer.v) ------------ *)
(* every iteration of the scanner loop that continues has consumed at least one character *)
Theorem C20_lexer_step_progress : forall cls lenient st st',
  step cls lenient st = Continue st' -> (length (ls_in st') < length (ls_in st))%nat.
Proof. exact step_progress. Qed.

(* so the fuel S(length content) given by `tokenize` always suffices: the model never answers LexFuel *)
Theorem C20_lexer_never_out_of_fuel : forall cls lenient lines, tokenize cls lenient lines <> LexFuel.
Proof. exact run_never_out_of_fuel. Qed.

(* the result is a token list or an error whose code is one of the codes raised as LexerError in lexer.py *)
Theorem C20_lexer_error_kinds : forall cls lenient lines code l c,
  tokenize cls lenient lines = LexErr code l c -> In code lexer_error_codes.
Proof. exact lexer_error_kinds. Qed.

(* iteration-count linearity of the main loop (NOT a statement about wall time: see design note) *)
Theorem C20_lexer_iterations_linear : forall cls lenient fuel st,
  (iterations cls lenient fuel st <= length (ls_in st))%nat.
Proof. exact run_iterations_bounded. Qed.

(* ---- parser loops (skeletons generated from parser.py) ------------------------------------------------- *)
(* syntactic: no path through any `while` body returns to the loop head without advance/expect/parse call *)
Theorem C20_parser_loops_consume : forallb loop_consumes parser_loops = true.
Proof. exact parser_loops_consume. Qed.

(* all 29 loops are covered *)
Theorem C20_parser_loops_count : length parser_loops = 29%nat.
Proof. exact parser_loops_count. Qed.

(* EOF-aware progress of one iteration, for 25 of the 29 loops WITHOUT any assumption about calls; the four exempted
   loops are named by stable id (method#ordinal: parse_document#0, parse_section_marker#1, parse_section#0,
   parse_list#0), never by source line *)
Theorem C20_parser_loop_progress_no_contract : forall l n pos r,
  In l parser_loops -> ~ In (pl_id l) loops_needing_contract -> (pos < n)%nat ->
  cond_val (is_eof n pos) (pl_guard l) true -> exec_b no_call n (pl_body l) pos r ->
  match r with RExit => True | RFall p | RCont p => (pos < p)%nat /\ (p < n)%nat end.
Proof. exact parser_loop_progress_no_contract. Qed.

(* ... and for all 29 under the call contract of parse_section / parse_list_item / parse_literal_zone
   (ExnFlowLoops.call_contract: an ASSUMPTION, partial) *)
Theorem C20_parser_loop_progress_partial : forall l n pos r,
  In l parser_loops -> (pos < n)%nat ->
  cond_val (is_eof n pos) (pl_guard l) true -> exec_b consuming n (pl_body l) pos r ->
  match r with RExit => True | RFall p | RCont p => (pos < p)%nat /\ (p < n)%nat end.
Proof. exact parser_loop_progress. Qed.

Theorem C20_parser_loop_terminates_partial : forall l n pos k,
  In l parser_loops -> (pos < n)%nat -> iter_chain consuming n l pos k -> (pos + k < n)%nat.
Proof. exact parser_loop_terminates. Qed.

(* bracket recursion depth <= MAX_NESTING_DEPTH, for every sequence of parse_list activations/returns *)
Theorem C20_nesting_bounded : forall evs,
  Forall (fun d => (d <= N.to_nat parser_max_nesting_depth)%nat) (nest_depths (N.to_nat parser_max_nesting_depth) 0 evs).
Proof. exact nesting_bounded. Qed.

(* cursor API / parse_list prologue / _check_deep_nesting head are the texts the model was written against *)
Theorem C20_parser_cursor_pins :
  parser_current_src = pinned_parser_current_src /\ parser_advance_src = pinned_parser_advance_src /\
  parser_expect_src = pinned_parser_expect_src /\
  parser_parse_list_prologue = pinned_parser_parse_list_prologue /\
  parser_check_deep_nesting_head = pinned_parser_check_deep_nesting_head /\
  parser_bracket_depth_writes = pinned_parser_bracket_depth_writes.
Proof. exact parser_cursor_pins. Qed.

(* ---- tools: exception coverage of execute() relative to the may_raise table --------------------------- *)
From Coq Require Import String.
Open Scope string_scope.
(* validate: every content-dependent stage is covered; the single escape is Path.exists() on the file_path *)
Theorem C20_validate_only_escape_is_path_exists :
  escapes (L "validate") (flow_validate_sites ++ flow_validate_raises)%list = [(L "path.exists", 0%N, L "OSError")].
Proof. exact validate_only_escape_is_path_exists. Qed.
Theorem C20_no_escape_helpers_modulo_may_raise :
  no_escape (L "validate") flow_validate_helper_error_envelope_sites [] = true /\
  no_escape (L "write") flow_write_helper_error_envelope_sites [] = true /\
  no_escape (L "compile_grammar") flow_compile_grammar_helper_error_response_sites [] = true.
Proof. exact no_escape_helpers. Qed.

(* the full statement (nothing escapes any tool) is false of the faithful structure: findings
   C20-gbnf-contract-nonstring-type, C20-write-baseline-foreign-exception (through C20-lexer-int-digit-limit),
   C20-path-name-too-long.  (C20-eject-json-holographic / -nested-meta were repaired by 88905cd: see
   C20_eject_json_no_escape below.) *)
Definition C20_no_escape_full : Prop := no_escape_full.
Theorem C20_no_escape_full_refuted : ~ no_escape_full.
Proof. exact no_escape_full_refuted. Qed.
Theorem C20_validate_path_exists_refuted : no_escape (L "validate") flow_validate_sites flow_validate_raises = false.
Proof. exact no_escape_validate_refuted. Qed.
(* eject as a whole is still refuted -- by the META.CONTRACT route of format=gbnf only ... *)
Theorem C20_eject_gbnf_contract_refuted : no_escape (L "eject") flow_eject_sites flow_eject_raises = false.
Proof. exact no_escape_eject_refuted. Qed.
Theorem C20_eject_only_escape_is_gbnf_contract :
  escapes (L "eject") (flow_eject_sites ++ flow_eject_raises)%list =
  [(L "compile_gbnf_from_meta", 0%N, L "TypeError"); (L "compile_gbnf_from_meta", 0%N, L "AttributeError")].
Proof. exact eject_only_escape_is_gbnf_contract. Qed.
(* ... POSITIVE since repair 88905cd (was C20_eject_json_refuted): setting that one call aside, NOTHING escapes
   octave_eject -- in particular not json.dumps(data) *)
Theorem C20_eject_json_no_escape :
  no_escape (L "eject") (filter not_gbnf_contract flow_eject_sites) flow_eject_raises = true.
Proof. exact no_escape_eject_json. Qed.
(* the json.dumps site has no handler; it is benign by its argument: (1) still uncovered syntactically, absent from
   `escapes`; (2) it is the only json.dumps of execute() and is applied to _ast_to_dict(result.filtered_doc) (generated
   provenance); (3) the model of _ast_to_dict yields native values only, for every document (C14_dict_native) *)
Theorem C20_eject_json_dumps_unprotected_but_benign :
  existsb (fun u => str_eqb (fst (fst u)) (L "json.dumps") && N.eqb (snd (fst u)) 0 && str_eqb (snd u) (L "TypeError"))
          (uncovered_of flow_eject_sites) = true /\
  existsb (fun u => str_eqb (fst (fst u)) (L "json.dumps")) (escapes (L "eject") (flow_eject_sites ++ flow_eject_raises)%list) = false.
Proof. exact eject_json_dumps_unprotected_but_benign. Qed.
Theorem C20_eject_json_dumps_argument :
  flow_eject_json_dumps_args = [(0%N, L "_ast_to_dict(result.filtered_doc)")] /\
  List.length (filter (fun s => str_eqb (s_callee s) (L "json.dumps")) flow_eject_sites) = 1%nat.
Proof. exact eject_json_dumps_argument. Qed.
Theorem C20_eject_json_argument_native :
  forall d : OV.Proj.Ast.doc, OV.Proj.Convert.native_dict (OV.Proj.Convert.ast_to_dict d) = true.
Proof. exact OV.Tools.ExnFlowEject.eject_json_argument_native. Qed.
Theorem C20_write_baseline_reparse_refuted : no_escape (L "write") flow_write_sites flow_write_raises = false.
Proof. exact no_escape_write_refuted. Qed.
Theorem C20_compile_grammar_contract_refuted :
  no_escape (L "compile_grammar") flow_compile_grammar_sites flow_compile_grammar_raises = false.
Proof. exact no_escape_compile_grammar_refuted. Qed.

(* what escapes is exactly the list ExnFlow.known_escapes, tool by tool; apart from it nothing escapes *)
Theorem C20_no_escape_partial : no_escape_partial_stmt.
Proof. exact no_escape_partial. Qed.

(* every return of every execute() yields a dict with "status" or "validation_status" *)
Theorem C20_envelopes_have_status :
  forallb (fun t => let '(name, _, returns, dvars) := t in envelope_has_status name returns dvars) flow_tools = true.
Proof. exact envelopes_have_status. Qed.

(* the server wraps nothing: what escapes execute() or json.dumps(result) escapes handle_call_tool *)
Theorem C20_server_adds_no_handler :
  forallb (fun s => match s_stack s with [] => true | _ => false end) flow_server_sites = true.
Proof. exact server_adds_no_handler. Qed.

(* non-vacuity: dropping the handler around the parse stage of a tool flips its obligation *)
Theorem C20_no_escape_detects_unprotected_parse :
  (count_escapes (L "validate") flow_validate_sites
   < count_escapes (L "validate") (strip_handlers (L "parse_with_warnings") flow_validate_sites))%nat /\
  (count_escapes (L "write") flow_write_sites < count_escapes (L "write") (strip_handlers (L "tokenize") flow_write_sites))%nat /\
  (count_escapes (L "compile_grammar") flow_compile_grammar_sites
   < count_escapes (L "compile_grammar") (strip_handlers (L "parse") flow_compile_grammar_sites))%nat.
Proof. exact no_escape_detects_unprotected_parse. Qed.

(* every callee occurring in the four execute() bodies is classified in the assumption table *)
Theorem C20_all_callees_classified :
  forallb (fun t => let '(_, sites, _, _) := t in forallb (fun s => classified (s_callee s)) sites) flow_tools = true.
Proof. exact all_callees_classified. Qed.

(* ---- source-text pins (generated by harness/pinsets.py) ---- *)
(* every function of these modules is, text for text (comments and docstrings excluded), the one the models of this
   property were written against and validated against: harness/translate/srcdigest_t.py, Src/Pin_*.v *)
From OV Require Import Gen.SrcDigestGen Src.Pin_core_lexer Src.Pin_core_parser Src.Pin_core_emitter Src.Pin_core_ast_nodes Src.Pin_core_constraints Src.Pin_core_holographic Src.Pin_core_validator Src.Pin_core_hydrator Src.Pin_core_schema_extractor Src.Pin_core_gbnf_compiler Src.Pin_mcp_write Src.Pin_mcp_validate Src.Pin_mcp_eject Src.Pin_mcp_compile_grammar Src.Pin_mcp_base_tool Src.Pin_schemas_loader.
Theorem C20_pin_source_text :
  src_core_lexer_pinned /\ src_core_parser_pinned /\ src_core_emitter_pinned /\ src_core_ast_nodes_pinned /\ src_core_constraints_pinned /\ src_core_holographic_pinned /\ src_core_validator_pinned /\ src_core_hydrator_pinned /\ src_core_schema_extractor_pinned /\ src_core_gbnf_compiler_pinned /\ src_mcp_write_pinned /\ src_mcp_validate_pinned /\ src_mcp_eject_pinned /\ src_mcp_compile_grammar_pinned /\ src_mcp_base_tool_pinned /\ src_schemas_loader_pinned.
Proof. exact (conj src_core_lexer_pinned_ok (conj src_core_parser_pinned_ok (conj src_core_emitter_pinned_ok (conj src_core_ast_nodes_pinned_ok (conj src_core_constraints_pinned_ok (conj src_core_holographic_pinned_ok (conj src_core_validator_pinned_ok (conj src_core_hydrator_pinned_ok (conj src_core_schema_extractor_pinned_ok (conj src_core_gbnf_compiler_pinned_ok (conj src_mcp_write_pinned_ok (conj src_mcp_validate_pinned_ok (conj src_mcp_eject_pinned_ok (conj src_mcp_compile_grammar_pinned_ok (conj src_mcp_base_tool_pinned_ok src_schemas_loader_pinned_ok))))))))))))))). Qed.
