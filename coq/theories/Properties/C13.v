(* C13 -- what a compiled grammar can generate, the validator accepts.  ONLY statements closed by `exact`. *)
From OV Require Import Base.Strs Gbnf.Syntax Gbnf.Derive Gbnf.Read.

Theorem C13_placeholder_conflict : conflict [KReq; KOpt] = true.
Proof. exact eq_refl. Qed.
