(* C13 -- what a compiled grammar can generate, the validator accepts.  ONLY statements closed by `exact`
   (+ Definitions of the full / open statements). *)
From OV Require Import Base.Strs Lex.Lexer Gbnf.Syntax Gbnf.Compiler Gbnf.Safe Gbnf.Derive Gbnf.Read Gbnf.Agree.

(* the structured fragments are what the recogniser extracts from the compiled rule text *)
Theorem C13_frag_boolean_is_compiled : field_value_alts (field_line (kfield (CType s_BOOLEAN))) = Some frag_bool.
Proof. exact frag_bool_of_text. Qed.
Theorem C13_frag_number_is_compiled : field_value_alts (field_line (kfield (CType s_NUMBER))) = Some frag_number.
Proof. exact frag_number_of_text. Qed.
Theorem C13_frag_date_is_compiled : field_value_alts (field_line (kfield CDate)) = Some frag_date.
Proof. exact frag_date_of_text. Qed.

(* CONST: for ALL constants and chains -- the only derivation is the constant's text, so the decidable check
   `accepted ch txt` (reader model + chain model on that one text) decides every derivation *)
Theorem C13_agree_const : forall cls ch txt, accepted cls ch txt = true ->
  forall w, derives (frag_const txt) w -> accepted cls ch w = true.
Proof. exact agree_const. Qed.

(* ENUM: for ALL member lists -- the derivations are exactly the members *)
Theorem C13_agree_enum : forall cls ch vals, forallb (accepted cls ch) vals = true ->
  forall w, derives (frag_enum vals) w -> accepted cls ch w = true.
Proof. exact agree_enum. Qed.

(* TYPE[BOOLEAN]: every derivation is read as a boolean and accepted, with or without REQ / OPT *)
Theorem C13_agree_boolean : forall cls w, derives frag_bool w ->
  (exists b, read_value cls w = RBool b) /\ forallb (fun ch => accepted cls ch w) bool_chains = true.
Proof. exact agree_boolean. Qed.

(* full statements for CONST / ENUM (no hypothesis) are false of the faithful model *)
Definition C13_agree_const_full : Prop :=
  forall cls c w, derives (frag_const (match c with CVBool true => s_True | CVBool false => s_False | CVNone => s_None
                                                  | CVStr s => s | CVInt t => t | CVFloat r => r end)) w ->
                  accepted cls [KConst c] w = true.
Theorem C13_const_true_refuted : forall cls, accepts [KConst (CVBool true)] (read_value cls s_True) = Some false.
Proof. exact const_true_rejected. Qed.
Theorem C13_enum_true_refuted : forall cls, accepts [KEnum [s_true'; s_false']] (read_value cls s_true') = Some false.
Proof. exact enum_true_rejected. Qed.

(* NUMBER and the universal DATE / ISO8601 refutations: OPEN in this development (the symbolic evaluation of the
   shared lexer model on digit strings was not finished).  They are CHECKED by harness/props/c13.py on every
   enumerated / sampled derivation (model prediction = implementation, every run). *)
Definition int_lexeme (w : str) : bool := negb (existsb (fun c => N.eqb c c_dot) w).
Definition C13_agree_number_OPEN : Prop :=
  forall cls w, derives frag_number w ->
    (int_lexeme w = true -> (count_digits w <= int_max_digits)%nat -> read_value cls w = RInt w) /\
    (int_lexeme w = false -> read_value cls w = RFloat w).
Definition C13_date_refuted_universal_OPEN : Prop :=
  forall cls w, derives frag_date w -> accepts [KDate] (read_value cls w) = Some false.

(* what IS proved about DATE / ISO8601: the witnesses are derivable, mis-read and rejected *)
Theorem C13_date_witness_derivable : derives frag_date w_date.
Proof. exact date_witness_derivable. Qed.
Theorem C13_date_refuted : forall cls,
  read_value cls w_date = RStr [50;48;50;52;32;45;48;49;32;45;49;53] /\ accepts [KDate] (read_value cls w_date) = Some false.
Proof. exact date_witness_rejected. Qed.
Theorem C13_iso8601_refuted : forall cls,
  read_value cls w_iso = RStr [50;48;50;52;32;45;48;49;32;45;49;53;32;84;49;48] /\ accepts [KIso] (read_value cls w_iso) = Some false.
Proof. exact iso_witness_rejected. Qed.

(* non-vacuity of the CONST / ENUM hypotheses *)
Theorem C13_agree_const_nonvacuous : forall cls, accepted cls [KReq; KConst (CVStr [68;79;78;69])] [68;79;78;69] = true.
Proof. exact agree_const_example. Qed.
Theorem C13_agree_enum_nonvacuous : forall cls,
  forallb (accepted cls [KReq; KEnum [[65;67;84]; [65;67;84;73;86;69]; [97;32;98]]]) [[65;67;84]; [65;67;84;73;86;69]; [97;32;98]] = true.
Proof. exact agree_enum_example. Qed.

(* ---- TYPE[NUMBER]: closed in Gbnf/NumberAgree.v (for digit strings of every length) -------------------------- *)
From OV Require Import Gbnf.NumberAgree.

(* the derivations of the NUMBER fragment are exactly the texts  "-"? digits ("." digits)?  (decidable shape) *)
Theorem C13_number_derivations : forall w, derives frag_number w <-> gnum_ok w = true.
Proof. exact derives_number_iff. Qed.

(* every derivation is lexed as IDENTIFIER ASSIGN NUMBER EOF and read as the NUMBER token's value *)
Theorem C13_agree_number_read : forall cls w, derives frag_number w -> read_value cls w = num_value w.
Proof. exact agree_number_read. Qed.

(* the statement kept open above is proved *)
Theorem C13_agree_number_closes_OPEN : C13_agree_number_OPEN.
Proof. exact agree_number_typed. Qed.

(* agreement: a derivation within CPython's 4300-digit integer limit (every float, every integer of at most 4300
   digits) is read as the int / float with that lexeme and accepted under [K] [REQ,K] [OPT,K] [K,REQ] *)
Theorem C13_agree_number : forall cls w, derives frag_number w -> in_limit w = true ->
  (exists v, read_value cls w = v /\ (v = RInt w \/ v = RFloat w) /\ is_number v = true) /\
  forallb (fun ch => accepted cls ch w) num_chains = true.
Proof. exact agree_number. Qed.

(* the excluded class, decided exactly: an integer derivation of more than 4300 digits is refused by the reader
   and rejected by every chain (finding C13-number-int-limit) *)
Theorem C13_agree_number_overlimit : forall cls w, derives frag_number w -> in_limit w = false ->
  read_value cls w = RErr /\ forall ch, accepted cls ch w = false.
Proof. exact agree_number_overlimit. Qed.

(* the full statement (no limit) is false of the faithful model: witness 9 x 4301 *)
Definition C13_agree_number_full : Prop :=
  forall cls w, derives frag_number w -> forallb (fun ch => accepted cls ch w) num_chains = true.
Theorem C13_agree_number_refuted :
  derives frag_number w_overlimit /\
  forall cls, read_value cls w_overlimit = RErr /\ accepted cls [KTypeNum] w_overlimit = false.
Proof. exact agree_number_refuted. Qed.
Theorem C13_agree_number_full_false : ~ C13_agree_number_full.
Proof. exact agree_number_full_false. Qed.

(* non-vacuity: 0  -12  3.14  007  -0.50 are derivable, within the limit, read as numbers and accepted; the boundary *)
Theorem C13_agree_number_nonvacuous : forall cls,
  Forall (fun w => derives frag_number w /\ in_limit w = true /\ is_number (read_value cls w) = true /\
                   forallb (fun ch => accepted cls ch w) num_chains = true) number_examples.
Proof. exact agree_number_nonvacuous. Qed.
Theorem C13_agree_number_values : forall cls,
  map (read_value cls) number_examples =
  [RInt [48]; RInt [45;49;50]; RFloat [51;46;49;52]; RInt [48;48;55]; RFloat [45;48;46;53;48]].
Proof. exact agree_number_values. Qed.
Theorem C13_agree_number_boundary : forall cls,
  in_limit (repeat 57 4300) = true /\ derives frag_number (repeat 57 4300) /\
  read_value cls (repeat 57 4300) = RInt (repeat 57 4300).
Proof. exact agree_number_boundary. Qed.

(* ---- source-text pins (generated by harness/pinsets.py) ---- *)
(* every function of these modules is, text for text (comments and docstrings excluded), the one the models of this
   property were written against and validated against: harness/translate/srcdigest_t.py, Src/Pin_*.v *)
From OV Require Import Gen.SrcDigestGen Src.Pin_core_gbnf_compiler Src.Pin_core_constraints Src.Pin_core_holographic Src.Pin_core_schema_extractor Src.Pin_core_lexer Src.Pin_core_parser.
Theorem C13_pin_source_text :
  src_core_gbnf_compiler_pinned /\ src_core_constraints_pinned /\ src_core_holographic_pinned /\ src_core_schema_extractor_pinned /\ src_core_lexer_pinned /\ src_core_parser_pinned.
Proof. exact (conj src_core_gbnf_compiler_pinned_ok (conj src_core_constraints_pinned_ok (conj src_core_holographic_pinned_ok (conj src_core_schema_extractor_pinned_ok (conj src_core_lexer_pinned_ok src_core_parser_pinned_ok))))). Qed.
