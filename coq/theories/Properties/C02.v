(* C02 -- canonicalisation preserves content.  ONLY statements closed by `exact`. *)
From OV Require Import Base.Strs Syn.Escape Syn.Quote Syn.Ast Syn.Emitter Syn.Wf Lex.Pins_Lexer Gen.LexerGen
     Lex.Lexer Syn.Parser Rt.TokRound Rt.TokRoundEx Rt.LexLinkBase Rt.LexLink Rt.LexLinkEx.

(* the line structure of a text made of newline-free lines is recovered exactly by splitting *)
Theorem C02_lines_recoverable : forall ls : list str, ls <> [] ->
  forallb (fun l => negb (memb c_nl l)) ls = true -> split_on c_nl (join [c_nl] ls) = ls.
Proof. exact (split_join c_nl). Qed.

(* escape processing on read mirrors escaping on write (shared with C04) *)
Theorem C02_escape_mirrors : forall s, unescape (escape s) = s.
Proof. exact unescape_escape_all. Qed.

(* the reader model consumes the alias / operator tables of the current source *)
Theorem C02_pin_lexer_tables :
  lexer_token_patterns = pinned_lexer_token_patterns /\ lexer_ascii_aliases = pinned_lexer_ascii_aliases /\
  lexer_operator_chars = pinned_lexer_operator_chars /\ lexer_wrong_case = pinned_lexer_wrong_case /\
  lexer_fence_pattern = pinned_lexer_fence_pattern.
Proof.
  exact (conj pin_lexer_token_patterns (conj pin_lexer_ascii_aliases (conj pin_lexer_operator_chars
        (conj pin_lexer_wrong_case pin_lexer_fence_pattern)))).
Qed.

(* STRUCTURE AT EVERY DEPTH (parser half of parse(emit d) = d).  For every core document -- envelope, optional
   grammar sentinel and separator, assignments of one-token scalars and non-empty blocks nested to ANY depth --
   every token stream laid out as the emitter lays it out (one node per line, INDENT count 2*depth; positions
   and payloads of structural tokens arbitrary) is read back by the parser model as exactly that document:
   names, keys, nesting, order, values and their kinds.  The lexer half (tokenize (emit d) has that shape) is
   C02_core_example_lexes for a concrete nested document and the per-run correspondence for generated ones. *)
Theorem C02_core_readback_all_depths :
  forall numcanon holo_ok strict sp alpha d,
    core_doc d = true -> nums_ok_l numcanon (dsections d) ->
    forall st0 ts tail, tail <> [] -> Forall2 tmatch ts (doc_sh d) -> ptoks st0 = ts ++ tail ->
    exists st', parse_document numcanon holo_ok strict sp alpha st0 = POk d st' /\ wext st0 st'.
Proof. exact parse_core_doc. Qed.

(* non-vacuity: a 4-level document with a duplicate key, every scalar kind, a sentinel and a separator is core,
   its emitted text lexes (model lexer) to the shape above with no repair, and the full model reads it back *)
Theorem C02_core_example_is_core : core_doc ex_doc = true /\ nums_ok_l ex_numcanon (dsections ex_doc).
Proof. exact (conj ex_core ex_nums_ok). Qed.
Theorem C02_core_example_lexes :
  match tokenize ex_cls false ex_lines with
  | LexOk toks reps => all2 tmatchb toks (doc_sh ex_doc ++ [(NEWLINE, None); (EOF, None)]) = true /\ reps = []
  | _ => False
  end.
Proof. exact ex_lexes_to_shape. Qed.
Theorem C02_core_example_text_roundtrip :
  match parse_model ex_cls ex_numcanon (fun _ => false) true ex_lines with
  | PRDoc d reps warns => d = ex_doc /\ reps = [] /\ map wsub warns = [5]
  | _ => False
  end.
Proof. exact ex_text_roundtrip. Qed.

(* TEXT LEVEL, EVERY DEPTH: for every core document whose keys are plain words and whose scalars are what the emitter
   writes as one token (lex_safe_doc, decidable; each excluded class has a refutation witness in Rt/LexLinkEx.v), the
   full reader model (frontmatter strip, lexer, parser) applied to the EMITTED TEXT returns exactly the document:
   envelope name, keys, nesting, order, values and their kinds -- with no lexer repair and only advisory warnings.
   This is parse(emit d) = d as a theorem, for all cls oracles, all space oracles, strict or lenient. *)
Theorem C02_text_roundtrip_core :
  forall cls numcanon holo_ok strict sp d,
    core_doc d = true -> lex_safe_doc d = true -> nums_ok_l numcanon (dsections d) ->
    exists warns, parse_model cls numcanon holo_ok strict (lines_of (emit sp d)) = PRDoc d [] warns /\ Forall advisory warns.
Proof. exact text_roundtrip_core. Qed.

Theorem C02_lex_emit_core :
  forall cls sp d, core_doc d = true -> lex_safe_doc d = true ->
    exists ts tnl teof,
      tokenize cls false (lines_of (emit sp d)) = LexOk (ts ++ [tnl; teof]) [] /\
      Forall2 tmatch ts (doc_sh d) /\ tk tnl = NEWLINE /\ tk teof = EOF.
Proof. exact lex_emit_core. Qed.

(* the side condition is needed (statement without it is false of the faithful model) and satisfiable on a depth-4
   document with every scalar kind, escapes, a non-ASCII character, exponent numbers and an always-quote key *)
Definition C02_lex_emit_core_full : Prop := lex_emit_core_full.
Theorem C02_lex_emit_core_full_refuted : ~ lex_emit_core_full.
Proof. exact lex_emit_core_full_refuted. Qed.
Theorem C02_text_roundtrip_nonvacuous : core_doc ex_doc2 = true /\ lex_safe_doc ex_doc2 = true.
Proof. exact (conj ex_doc2_core ex_doc2_lex_safe). Qed.

From OV Require Import Rt.TokRound2 Rt.TokRound2Ex.
(* WIDER FRAGMENT (core2), parser half at every depth and every list length: leading / trailing / document comments, lists of
   scalars in the inline and the multi-line layout, section markers with annotations nested with blocks, a META block
   with scalar and list fields.  `ml` (which lists are multi-line) and `idnum` (which section ids are NUMBER tokens) are
   arbitrary.  Each excluded layout has a refutation witness in Rt/TokRound2Ex.v (comment dedent, empty body followed
   by a sibling, first key META, ...). *)
Theorem C02_core2_readback_all_depths :
  forall numcanon holo_ok strict sp alpha ml idnum d,
    core2_doc d = true -> nums_ok2_l numcanon idnum (dsections d) -> Forall (field_num_ok numcanon) (dmeta d) ->
    forall st0 ts tail, tail <> [] -> pbdepth st0 = 0%N -> Forall2 tmatch ts (doc2_sh ml idnum d) -> ptoks st0 = ts ++ tail ->
    exists st', parse_document numcanon holo_ok strict sp alpha st0 = POk d st' /\ wext2 st0 st'.
Proof. exact parse_core2_doc. Qed.

(* the full reader on ANY text whose model-lexer tokens have the shape of a core2 document returns that document, with the
   lexer's repairs and only advisory warnings: reduces the text round trip to an executable shape check (run by the
   harness on every generated core2 document: extracted core2_shape_check) *)
Theorem C02_text_roundtrip_core2_checked :
  forall cls numcanon holo_ok strict ml idnum d text toks reps,
    core2_doc d = true -> nums_ok2_l numcanon idnum (dsections d) -> Forall (field_num_ok numcanon) (dmeta d) ->
    strip_frontmatter (u_space cls) (lines_of text) = (lines_of text, None) ->
    tokenize cls false (lines_of text) = LexOk toks reps ->
    all2 tmatchb toks (doc2_sh ml idnum d ++ [(NEWLINE, None); (EOF, None)]) = true ->
    exists warns, parse_model cls numcanon holo_ok strict (lines_of text) = PRDoc d reps warns /\ Forall advisory warns.
Proof. exact text_roundtrip_core2_checked. Qed.

Definition C02_core2_full : Prop := parse_core2_full.
Theorem C02_core2_full_refuted : ~ parse_core2_full.
Proof. exact parse_core2_full_refuted. Qed.

From OV Require Import Rt.LexLink2Text Rt.LexLink2 Rt.LexLink2Ex.
(* TEXT LEVEL for the core2 fragment, every depth and list length: documents with leading / trailing / document comments,
   lists of scalars (inline and multi-line), section markers with annotations and a META block with scalar and list
   fields are read back from their EMITTED TEXT as themselves by the full reader model, with no lexer repair and only
   advisory warnings -- for every cls oracle, every space oracle, strict or lenient.  lex_safe2_doc is decidable; each
   excluded class has a refutation witness (Rt/LexLink2Ex.v). *)
Theorem C02_text_roundtrip_core2 :
  forall cls numcanon holo_ok strict sp d,
    core2_doc d = true -> lex_safe2_doc d = true ->
    nums_ok2_l numcanon ex_idnum (dsections d) -> Forall (field_num_ok numcanon) (dmeta d) ->
    exists warns, parse_model cls numcanon holo_ok strict (lines_of (emit sp d)) = PRDoc d [] warns /\ Forall advisory warns.
Proof. exact text_roundtrip_core2. Qed.

Theorem C02_lex_emit_core2 :
  forall cls sp d, core2_doc d = true -> lex_safe2_doc d = true ->
    exists ts tnl teof,
      tokenize cls false (lines_of (emit sp d)) = LexOk (ts ++ [tnl; teof]) [] /\
      Forall2 tmatch ts (doc2_sh needs_multiline ex_idnum d) /\ tk tnl = NEWLINE /\ tk teof = EOF.
Proof. exact lex_emit_core2. Qed.

Definition C02_lex_emit_core2_full : Prop := lex_emit_core2_full.
Theorem C02_lex_emit_core2_full_refuted : ~ lex_emit_core2_full.
Proof. exact lex_emit_core2_full_refuted. Qed.
Theorem C02_text_roundtrip_core2_nonvacuous : core2_doc ex_all = true /\ lex_safe2_doc ex_all = true.
Proof. exact (conj ex_all_core ex_all_safe). Qed.

From OV Require Rt.BareWordParse Rt.BareWordLex Rt.BareWord Rt.BareWordEx.
(* TEXT LEVEL with BARE string values (core3): the emitter writes a string bare when needs_quotes is false and the key is
   not an always-quote key; the lexer reads it as one IDENTIFIER / VARIABLE token and the parser returns the same string.
   lex_safe3_doc excludes exactly: reserved-word segments (true.x, null-a, vs.x: the C04 clause-3 finding), wrong-case
   literals and embedded _vs_ (lexer repairs), and multi-token bare strings (annotations, operator expressions). *)
Theorem C02_text_roundtrip_core3 :
  forall cls numcanon holo_ok strict sp d,
    BareWordParse.core3_doc d = true -> BareWord.lex_safe3_doc d = true ->
    TokRound2.nums_ok2_l numcanon TokRound2Ex.ex_idnum (dsections d) -> Forall (TokRound2.field_num_ok numcanon) (dmeta d) ->
    exists warns, parse_model cls numcanon holo_ok strict (lines_of (emit sp d)) = PRDoc d [] warns /\ Forall advisory warns.
Proof. exact BareWord.text_roundtrip_core3. Qed.
Theorem C02_core3_readback_all_depths :
  forall numcanon holo_ok strict sp alpha ml idnum (qa : str -> str -> BareWordParse.strk) (qi : str -> BareWordParse.strk),
    (forall k s, qa k s = BareWordParse.QIdent -> has_annotation s = false) ->
    (forall s, qi s = BareWordParse.QIdent -> has_annotation s = false) ->
    forall d, BareWordParse.core3_doc d = true -> nums_ok2_l numcanon idnum (dsections d) -> Forall (field_num_ok numcanon) (dmeta d) ->
    forall st0 ts tail, tail <> [] -> pbdepth st0 = 0%N -> Forall2 tmatch ts (BareWordParse.doc3_sh ml idnum qa qi d) -> ptoks st0 = ts ++ tail ->
    exists st', parse_document numcanon holo_ok strict sp alpha st0 = POk d st' /\ wext2 st0 st'.
Proof. exact BareWordParse.parse_core3_doc. Qed.
Theorem C02_lex_emit_core3_full_refuted : ~ BareWordEx.lex_emit_core3_full.
Proof. exact BareWordEx.lex_emit_core3_full_refuted. Qed.
Theorem C02_text_roundtrip_core3_nonvacuous :
  BareWordParse.core3_doc BareWordEx.ex_bare = true /\ BareWord.lex_safe3_doc BareWordEx.ex_bare = true.
Proof. exact (conj BareWordEx.ex_bare_core BareWordEx.ex_bare_safe). Qed.

(* the grammar sentinel is tried exactly at the end of the leading blank lines (Lexer.init_state is written against this text) *)
Theorem C02_pin_lexer_sentinel :
  lexer_sentinel_guard = pinned_lexer_sentinel_guard /\ lexer_sentinel_pos = pinned_lexer_sentinel_pos /\
  lexer_leading_blank_pattern = pinned_lexer_leading_blank_pattern.
Proof. exact (conj pin_lexer_sentinel_guard (conj pin_lexer_sentinel_pos pin_lexer_leading_blank_pattern)). Qed.

(* core4 = core3 + NESTED LISTS (any depth up to the parser's bracket limit, in the inline and the multi-line layout exactly
   as the emitter lays them out) + INLINE-MAP items K::v with scalar or list values, in assignment position and in META:
   parser half at every depth; any text whose model-lexer tokens have the shape of a core4 document is read as that
   document (the executable shape check is run by the harness on every generated core4 document).  The warning class
   is {5,6,7,9}: the emitter always quotes PATTERN / REGEX values, which the reader reports as constructor_misuse (7),
   and a list opened at bracket depth >= 5 is reported as deep_nesting (6); the content is unaffected. *)
From OV Require Rt.TokRound4 Rt.TokRound4Ex.
Theorem C02_core4_readback_all_depths :
  forall numcanon holo_ok strict sp alpha ml idnum (qa : str -> str -> BareWordParse.strk) (qi : str -> BareWordParse.strk),
    (forall k s, qa k s = BareWordParse.QIdent -> has_annotation s = false) ->
    (forall s, qi s = BareWordParse.QIdent -> has_annotation s = false) ->
    forall d, TokRound4.core4_doc d = true -> TokRound4.nums_ok4_l numcanon idnum (dsections d) ->
    Forall (TokRound4.field_num_ok4 numcanon idnum) (dmeta d) ->
    forall st0 ts tail, tail <> [] -> pbdepth st0 = 0%N -> Forall2 tmatch ts (TokRound4.doc4_sh ml idnum qa qi d) -> ptoks st0 = ts ++ tail ->
    exists st', parse_document numcanon holo_ok strict sp alpha st0 = POk d st' /\ TokRound4.wext4b st0 st'.
Proof. exact TokRound4.parse_core4_doc. Qed.

Theorem C02_core4_shape_check_sound :
  forall cls numcanon holo_ok strict d text,
    TokRound4Ex.core4_shape_check cls d (lines_of text) = 1%N ->
    TokRound4.nums_ok4_l numcanon TokRound2Ex.ex_idnum (dsections d) ->
    Forall (TokRound4.field_num_ok4 numcanon TokRound2Ex.ex_idnum) (dmeta d) ->
    strip_frontmatter (u_space cls) (lines_of text) = (lines_of text, None) ->
    exists warns, parse_model cls numcanon holo_ok strict (lines_of text) = PRDoc d [] warns /\ Forall TokRound4.advisory4 warns.
Proof. exact TokRound4Ex.core4_shape_check_sound. Qed.

(* a multi-pair inline map, an empty map, a map in value position, a map inside a map value, 100 nested lists ... are
   outside core4: each is read as something else (Rt/TokRound4Ex.v) *)
Theorem C02_core4_full_refuted : ~ TokRound4Ex.parse_core4_concl TokRound4Ex.r_multi.
Proof. exact TokRound4Ex.core4_full_refuted. Qed.
Theorem C02_core4_nonvacuous : TokRound4.core4_doc TokRound4Ex.ex4 = true /\ TokRound4Ex.rt4 TokRound4Ex.ex4 [7%N; 7%N; 7%N].
Proof. exact (conj TokRound4Ex.ex4_core TokRound4Ex.ex4_roundtrip). Qed.

(* TEXT LEVEL for core4 (nested lists at any depth, inline-map items, in assignments and META): lexer half Rt/LexLink4*.v
   + parser half Rt/TokRound4.v.  The warnings are of the classes {5,6,7,9} only (7: the emitter's always-quoted PATTERN /
   REGEX map values are reported as constructor_misuse; 6: lists opened at bracket depth >= 5). *)
From OV Require Rt.LexLink4Text Rt.LexLink4 Rt.LexLink4Ex.
Theorem C02_text_roundtrip_core4 :
  forall cls numcanon holo_ok strict sp d,
    TokRound4.core4_doc d = true -> LexLink4.lex_safe4_doc d = true ->
    TokRound4.nums_ok4_l numcanon TokRound2Ex.ex_idnum (dsections d) ->
    Forall (TokRound4.field_num_ok4 numcanon TokRound2Ex.ex_idnum) (dmeta d) ->
    exists warns, parse_model cls numcanon holo_ok strict (lines_of (emit sp d)) = PRDoc d [] warns /\ Forall TokRound4.advisory4 warns.
Proof. exact LexLink4.text_roundtrip_core4. Qed.
(* the executable shape check the harness runs succeeds on the whole domain *)
Theorem C02_shape_check_core4_complete :
  forall cls sp d, TokRound4.core4_doc d = true -> LexLink4.lex_safe4_doc d = true ->
    TokRound4Ex.core4_shape_check cls d (lines_of (emit sp d)) = 1%N.
Proof. exact LexLink4.shape_check_core4. Qed.
Theorem C02_lex_emit_core4_full_refuted : ~ LexLink4Ex.lex_emit_core4_full.
Proof. exact LexLink4Ex.lex_emit_core4_full_refuted. Qed.
Theorem C02_text_roundtrip_core4_nonvacuous : TokRound4.core4_doc TokRound4Ex.ex4 = true /\ LexLink4.lex_safe4_doc TokRound4Ex.ex4 = true.
Proof. exact (conj TokRound4Ex.ex4_core LexLink4Ex.ex4_safe). Qed.

(* BLOCK TARGETS  KEY[->§T]:  and HOLOGRAPHIC values  KEY::["x"/\REQ->§SELF]  (parser half, every depth, Rt/TokRoundT*.v).
   A holographic value is first read as an ordinary bracket group; its tokens are then turned back into text
   (reconstruct_tok) and offered to the oracle holo_ok.  hsh gives the token shape of each raw text (arbitrary);
   nums_ok2_l carries, per holographic site, the hypothesis holo_site, which C02_holographic_site_class discharges
   for the syntactic class  [ example /\ chain ]  (one-token example; chain = a word, a call WORD[..], or a flow
   expression of words, calls, operators and § references). *)
From OV Require Rt.TokRoundT Rt.TokRoundTHolo Rt.TokRoundTEx.
Theorem C02_targets_and_holographic_readback_all_depths :
  forall numcanon holo_ok strict sp alpha ml idnum (hsh : str -> list sh) d,
    TokRoundT.coret_doc d = true -> TokRoundT.nums_ok2_l numcanon holo_ok strict sp idnum hsh (dsections d) ->
    Forall (TokRoundT.field_num_ok numcanon) (dmeta d) ->
    forall st0 ts tail, tail <> [] -> pbdepth st0 = 0%N -> Forall2 tmatch ts (TokRoundT.doct_sh ml idnum hsh d) -> ptoks st0 = ts ++ tail ->
    exists st', parse_document numcanon holo_ok strict sp alpha st0 = POk d st' /\ TokRoundT.wext2 st0 st'.
Proof. exact TokRoundT.parse_coret_doc. Qed.

Theorem C02_holographic_site_class :
  forall numcanon holo_ok strict sp (hsh : str -> list sh) raw,
    TokRoundTHolo.hgroup_ok numcanon (hsh raw) = true -> forallb TokRoundTHolo.rec_det (hsh raw) = true ->
    flat_map TokRoundTHolo.rec_sh (hsh raw) = raw -> holo_ok raw = true ->
    TokRoundT.holo_site numcanon holo_ok strict sp hsh raw.
Proof. exact TokRoundTHolo.hgroup_site. Qed.

(* non-vacuity: depth 3, two targeted blocks (one nested), a section, four holographic values (a call and ->§SELF,
   REGEX["^a$"], ->§INDEXER, [null /\ REQ]) under a concrete oracle: the reader returns the document from the emitted text *)
Theorem C02_targets_and_holographic_nonvacuous :
  parse_model TokRoundEx.ex_cls ex2_numcanon TokRoundTEx.holo_ex true (lines_of (emit (u_space TokRoundEx.ex_cls) TokRoundTEx.ext)) = PRDoc TokRoundTEx.ext [] [].
Proof. exact TokRoundTEx.ext_roundtrip. Qed.

(* BLOCK TARGETS at TEXT level (lexer half Rt/LexLinkT*.v): coret documents without holographic values -- targeted blocks
   KEY[->§T]: nested to any depth next to every core2 node -- are read back from their emitted text.  (For holographic values
   the lexer half is not proved; the extracted coret_shape_check stands in per document.) *)
From OV Require Rt.LexLinkT Rt.LexLinkTEx.
Theorem C02_text_roundtrip_block_targets :
  forall cls (hsh : str -> list sh) numcanon holo_ok strict sp d,
    LexLinkT.coretb_doc d = true -> LexLinkT.lex_safet_doc d = true ->
    TokRoundTHolo.nodes_side numcanon holo_ok ex_idnum hsh (dsections d) -> Forall (TokRoundT.field_num_ok numcanon) (dmeta d) ->
    exists warns, parse_model cls numcanon holo_ok strict (lines_of (emit sp d)) = PRDoc d [] warns /\ Forall advisory warns.
Proof. exact LexLinkT.text_roundtrip_coretb. Qed.
Theorem C02_text_roundtrip_block_targets_nonvacuous : LexLinkT.coretb_doc LexLinkTEx.extb = true /\ LexLinkT.lex_safet_doc LexLinkTEx.extb = true.
Proof. exact LexLinkTEx.extb_ok. Qed.

(* HOLOGRAPHIC VALUES at TEXT level (lexer half Rt/LexLinkTH*.v): coret documents whose holographic assignment values have the textual frame
   ["s"/\W]  or  ["s"/\W["a1",..,"an"]]  (s any string as written by quote, W one identifier word that is no literal, n >= 1 quoted arguments),
   next to targeted blocks and every core2 node at every depth: the whole reader model applied to the EMITTED TEXT returns the document.
   hsh_lex cls is the shape oracle "lex the raw text alone": C02_holographic_lexed_alone_same_shape shows that lexing the pattern inside the
   document line gives the same tokens (context independence).  Flow chains, non-string examples and bare-word call arguments are not
   covered by this theorem (parser half + extracted coret_shape_check per document). *)
From OV Require Rt.LexLinkTH Rt.LexLinkTHEx.
Theorem C02_text_roundtrip_holographic :
  forall cls numcanon holo_ok strict sp d,
    LexLinkTH.coreth_doc d = true -> LexLinkTH.lex_safeth_doc LexLinkTH.hsh_cls d = true ->
    TokRoundTHolo.nodes_side numcanon holo_ok ex_idnum (TokRoundTEx.hsh_lex cls) (dsections d) -> Forall (TokRoundT.field_num_ok numcanon) (dmeta d) ->
    exists warns, parse_model cls numcanon holo_ok strict (lines_of (emit sp d)) = PRDoc d [] warns /\ Forall advisory warns.
Proof. exact LexLinkTH.text_roundtrip_coreth_lex. Qed.
Theorem C02_holographic_lexed_alone_same_shape :
  forall cls s w, LexLinkTH.wt_ok w = true -> TokRoundTEx.hsh_lex cls (LexLinkTH.holo_text s w) = LexLinkTH.th_shape s w.
Proof. exact LexLinkTH.hsh_lex_class. Qed.
Theorem C02_text_roundtrip_holographic_nonvacuous :
  LexLinkTH.coreth_doc LexLinkTHEx.exth = true /\ LexLinkTH.lex_safeth_doc LexLinkTH.hsh_cls LexLinkTHEx.exth = true.
Proof. exact (conj (proj1 LexLinkTHEx.exth_ok) LexLinkTHEx.exth_ok_cls). Qed.

(* ... and constraint CHAINS of words  ["s"/\W1/\W2 ... /\Wn]  (n >= 1), Rt/LexLinkTH2*.v.  A word directly followed by the non-ASCII operator
   depends on the character-class oracle: the boolean clause cls_and_ok cls (the operator is no identifier / word / digit character) is part of
   the side condition, holds for the example oracle, and is needed (LexLinkTH2Ex.bad_cls_clause). *)
From OV Require Rt.LexLinkTH2 Rt.LexLinkTH2Ex.
Theorem C02_text_roundtrip_holographic_chains :
  forall cls (hsh : str -> list sh) numcanon holo_ok strict sp d,
    LexLinkTH2.coreth2_doc d = true -> LexLinkTH2.lex_safeth2_doc cls hsh d = true ->
    TokRoundTHolo.nodes_side numcanon holo_ok ex_idnum hsh (dsections d) -> Forall (TokRoundT.field_num_ok numcanon) (dmeta d) ->
    exists warns, parse_model cls numcanon holo_ok strict (lines_of (emit sp d)) = PRDoc d [] warns /\ Forall advisory warns.
Proof. exact LexLinkTH2.text_roundtrip_coreth2. Qed.
Theorem C02_holographic_chain_lexed_alone_same_shape :
  forall cls s ws, LexLinkTH2.cls_and_ok cls = true -> LexLinkTH2.chain_ok ws = true ->
    TokRoundTEx.hsh_lex cls (LexLinkTH2.chain_text s ws) = LexLinkTH2.chain_shape s ws.
Proof. exact LexLinkTH2.hsh_lex_chain. Qed.
Theorem C02_holographic_chains_oracle_clause_holds : LexLinkTH2.cls_and_ok ex_cls = true.
Proof. exact LexLinkTH2Ex.ex_cls_and_ok. Qed.

(* ... with the shape oracle "lex the raw text alone" and a purely textual side condition (Rt/LexLinkTH3.v) *)
From OV Require Rt.LexLinkTH3 Rt.LexLinkTH3Ex.
Theorem C02_text_roundtrip_holographic_chains_lex :
  forall cls numcanon holo_ok strict sp d,
    LexLinkTH2.coreth2_doc d = true -> LexLinkTH2.lex_safeth2_doc cls LexLinkTH3.hsh_cls2 d = true ->
    TokRoundTHolo.nodes_side numcanon holo_ok ex_idnum (TokRoundTEx.hsh_lex cls) (dsections d) -> Forall (TokRoundT.field_num_ok numcanon) (dmeta d) ->
    exists warns, parse_model cls numcanon holo_ok strict (lines_of (emit sp d)) = PRDoc d [] warns /\ Forall advisory warns.
Proof. exact LexLinkTH3.text_roundtrip_coreth2_lex. Qed.
(* chains ending in a section target  ["s"/\W1 ... /\Wn->§T] : lexed alone and inside a document line the same tokens *)
Theorem C02_holographic_target_chain_lexed_alone_same_shape :
  forall cls s ws T, LexLinkTH2.cls_and_ok cls = true -> LexLinkTH3.cls_flow_ok cls = true -> LexLinkTH2.chain_ok ws = true -> LexLinkSteps.key_ok T = true ->
    TokRoundTEx.hsh_lex cls (LexLinkTH3.chainT_text s ws T) = LexLinkTH3.chainT_shape s ws T.
Proof. exact LexLinkTH3.hsh_lex_chainT. Qed.

(* ... and the UNION class with chains ending in a section target  ["s"/\W1 ... /\Wn->§T]  at document level (Rt/LexLinkTH4*.v): hsh0 is ANY shape
   oracle for which the textual side condition holds (e.g. LexLinkTH4.hsh_cls4), the semantic side hypotheses use "lex the raw text alone". *)
From OV Require Rt.LexLinkTH4 Rt.LexLinkTH4Ex.
Theorem C02_text_roundtrip_holographic_target_chains :
  forall cls (hsh0 : str -> list sh) numcanon holo_ok strict sp d,
    LexLinkTH4.coreth4_doc d = true -> LexLinkTH4.lex_safeth4_doc cls hsh0 d = true ->
    TokRoundTHolo.nodes_side numcanon holo_ok ex_idnum (TokRoundTEx.hsh_lex cls) (dsections d) -> Forall (TokRoundT.field_num_ok numcanon) (dmeta d) ->
    exists warns, parse_model cls numcanon holo_ok strict (lines_of (emit sp d)) = PRDoc d [] warns /\ Forall advisory warns.
Proof. exact LexLinkTH4.text_roundtrip_coreth4_lex. Qed.

(* ... and the general ELEMENT chains (Rt/LexLinkTH5*.v):  ["s"/\E1 ... /\En[->§T]]  with  Ei = W | W[arg1,..,argm],  arg = bare word | quoted string --
   TokRoundTEx.h1  ["x"/\REQ/\ENUM[a,b]->§SELF]  is a member (LexLinkTH5Ex.h1_text) and is read back by this theorem inside the example document. *)
From OV Require Rt.LexLinkTH5 Rt.LexLinkTH5Ex.
Theorem C02_text_roundtrip_holographic_element_chains :
  forall cls (hsh0 : str -> list sh) numcanon holo_ok strict sp d,
    LexLinkTH5.coreth5_doc d = true -> LexLinkTH5.lex_safeth5_doc cls hsh0 d = true ->
    TokRoundTHolo.nodes_side numcanon holo_ok ex_idnum (TokRoundTEx.hsh_lex cls) (dsections d) -> Forall (TokRoundT.field_num_ok numcanon) (dmeta d) ->
    exists warns, parse_model cls numcanon holo_ok strict (lines_of (emit sp d)) = PRDoc d [] warns /\ Forall advisory warns.
Proof. exact LexLinkTH5.text_roundtrip_coreth5_lex. Qed.
Theorem C02_holographic_element_chain_lexed_alone_same_shape :
  forall cls s es o, LexLinkTH2.cls_and_ok cls = true -> LexLinkTH3.cls_flow_ok cls = true -> LexLinkTH5.chain5_ok es o = true ->
    TokRoundTEx.hsh_lex cls (LexLinkTH5.chain5_text s es o) = LexLinkTH5.chain5_shape s es o.
Proof. exact LexLinkTH5.hsh_lex_chain5. Qed.

(* ---- source-text pins (generated by harness/pinsets.py) ---- *)
(* every function of these modules is, text for text (comments and docstrings excluded), the one the models of this
   property were written against and validated against: harness/translate/srcdigest_t.py, Src/Pin_*.v *)
From OV Require Import Gen.SrcDigestGen Src.Pin_core_lexer Src.Pin_core_parser Src.Pin_core_emitter Src.Pin_core_ast_nodes.
Theorem C02_pin_source_text :
  src_core_lexer_pinned /\ src_core_parser_pinned /\ src_core_emitter_pinned /\ src_core_ast_nodes_pinned.
Proof. exact (conj src_core_lexer_pinned_ok (conj src_core_parser_pinned_ok (conj src_core_emitter_pinned_ok src_core_ast_nodes_pinned_ok))). Qed.
