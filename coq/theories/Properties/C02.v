(* C02 -- canonicalisation preserves content.  ONLY statements closed by `exact`. *)
From OV Require Import Base.Strs Syn.Escape Syn.Quote Syn.Ast Syn.Emitter Syn.Wf Lex.Pins_Lexer Gen.LexerGen.

(* the line structure of a text made of newline-free lines is recovered exactly by splitting *)
Theorem C02_lines_recoverable : forall ls : list str, ls <> [] ->
  forallb (fun l => negb (memb c_nl l)) ls = true -> split_on c_nl (join [c_nl] ls) = ls.
Proof. exact (split_join c_nl). Qed.

(* escape processing on read mirrors escaping on write (shared with C04) *)
Theorem C02_escape_mirrors : forall s, escape_safe s = true -> unescape (escape s) = s.
Proof. exact unescape_escape. Qed.

(* the reader model consumes the alias / operator tables of the current source *)
Theorem C02_pin_lexer_tables :
  lexer_token_patterns = pinned_lexer_token_patterns /\ lexer_ascii_aliases = pinned_lexer_ascii_aliases /\
  lexer_operator_chars = pinned_lexer_operator_chars /\ lexer_wrong_case = pinned_lexer_wrong_case /\
  lexer_fence_pattern = pinned_lexer_fence_pattern.
Proof.
  exact (conj pin_lexer_token_patterns (conj pin_lexer_ascii_aliases (conj pin_lexer_operator_chars
        (conj pin_lexer_wrong_case pin_lexer_fence_pattern)))).
Qed.
