(* C07 -- every lenient rewrite has a receipt. *)
From OV Require Import Base.Strs Lex.Pins_Lexer Gen.LexerGen.

Theorem C07_pin_aliases :
  lexer_ascii_aliases = pinned_lexer_ascii_aliases /\ lexer_token_patterns = pinned_lexer_token_patterns /\
  lexer_wrong_case = pinned_lexer_wrong_case.
Proof. exact (conj pin_lexer_ascii_aliases (conj pin_lexer_token_patterns pin_lexer_wrong_case)). Qed.
