(* C07 -- every lenient rewrite has a receipt. *)
From OV Require Import Base.Strs Lex.Pins_Lexer Gen.LexerGen.

Theorem C07_pin_aliases :
  lexer_ascii_aliases = pinned_lexer_ascii_aliases /\ lexer_token_patterns = pinned_lexer_token_patterns /\
  lexer_wrong_case = pinned_lexer_wrong_case.
Proof. exact (conj pin_lexer_ascii_aliases (conj pin_lexer_token_patterns pin_lexer_wrong_case)). Qed.

From OV Require Import Lex.Lexer Syn.Ast Syn.Emitter Syn.Parser Rt.TokRound Rt.LexLinkBase Rt.LexLink.
(* CANONICAL INPUT IS SILENT (parser half, every depth): reading the token layout of a core document adds no
   rewrite receipt -- every record the parser appends is advisory (5 duplicate_key or 9 pattern_autoquote, which
   report on the content and rewrite nothing); the records present before the call are kept unchanged. *)
Theorem C07_core_canonical_silent :
  forall numcanon holo_ok strict sp alpha d,
    core_doc d = true -> nums_ok_l numcanon (dsections d) ->
    forall st0 ts tail, tail <> [] -> Forall2 tmatch ts (doc_sh d) -> ptoks st0 = ts ++ tail ->
    exists st' l, parse_document numcanon holo_ok strict sp alpha st0 = POk d st' /\
                  pwarns st' = l ++ pwarns st0 /\ Forall (fun w => wsub w = 5%N \/ wsub w = 9%N) l.
Proof.
  exact (fun n h s sp a d Hc Hn st0 ts tail Ht Hts Hst =>
           match parse_core_doc n h s sp a d Hc Hn st0 ts tail Ht Hts Hst with
           | ex_intro _ st' (conj Hp (ex_intro _ l (conj Hw Hf))) => ex_intro _ st' (ex_intro _ l (conj Hp (conj Hw Hf)))
           end).
Qed.

(* CANONICAL TEXT IS SILENT, text level, every depth: reading the emitted text of a core document yields NO lexer
   repair (no normalization, no repair candidate) and only advisory parser records. *)
Theorem C07_text_canonical_silent :
  forall cls numcanon holo_ok strict sp d,
    core_doc d = true -> lex_safe_doc d = true -> nums_ok_l numcanon (dsections d) ->
    exists warns, parse_model cls numcanon holo_ok strict (lines_of (emit sp d)) = PRDoc d [] warns /\
                  Forall (fun w => wsub w = 5%N \/ wsub w = 9%N) warns.
Proof. exact text_roundtrip_core. Qed.

From OV Require Import Rt.Receipts.
(* EVERY LEXER REWRITE HAS EXACTLY ONE RECEIPT, for every input text the lexer accepts (lenient or strict): the
   normalization receipts returned by tokenize are -- record for record, in order -- the tokens that carry a
   `normalized_from` mark (alias operators, `#` for the section marker, `+`, triple quotes), each with the original
   spelling, the replacement value and the token's line and column; and no receipt exists without such a token.
   Invariant of the scanner loop over every branch of step_plain / step_fallback / step_fence. *)
Theorem C07_lexer_receipts_are_marked_tokens :
  forall cls lenient lines toks reps,
    tokenize cls lenient lines = LexOk toks reps -> norm_reps reps = flat_map rec_of_tok toks.
Proof. exact lexer_receipts_are_marked_tokens. Qed.

(* an alias spelling is always read as the Unicode operator and marked with the spelling and its position *)
Theorem C07_alias_token_marked :
  forall st k v m r norm st' u, alias_of m = Some u -> emit_pat st k v m r norm = Continue st' ->
    exists t rest, ls_toks st' = t :: rest /\ rest = ls_toks st /\ tk t = k /\ tv t = TVText u /\ tnorm t = Some m /\
                   tline t = ls_line st /\ tcol t = ls_col st.
Proof. exact emit_pat_alias_marked. Qed.

From OV Require Import Rt.TokRound2 Rt.TokRound2Ex Rt.LexLink2Text Rt.LexLink2.
(* canonical text of the wider core2 fragment is silent as well (comments, lists, sections, META) *)
Theorem C07_text_canonical_silent_core2 :
  forall cls numcanon holo_ok strict sp d,
    core2_doc d = true -> lex_safe2_doc d = true ->
    nums_ok2_l numcanon ex_idnum (dsections d) -> Forall (field_num_ok numcanon) (dmeta d) ->
    exists warns, parse_model cls numcanon holo_ok strict (lines_of (emit sp d)) = PRDoc d [] warns /\
                  Forall (fun w => wsub w = 5%N \/ wsub w = 9%N) warns.
Proof. exact text_roundtrip_core2. Qed.

From OV Require Rt.BareWordParse Rt.BareWordLex Rt.BareWord Rt.BareWordEx.
(* canonical text with bare string values (core3) is silent too: no repair, only advisory warnings *)
Theorem C07_text_canonical_silent_core3 :
  forall cls numcanon holo_ok strict sp d,
    BareWordParse.core3_doc d = true -> BareWord.lex_safe3_doc d = true ->
    TokRound2.nums_ok2_l numcanon TokRound2Ex.ex_idnum (dsections d) -> Forall (TokRound2.field_num_ok numcanon) (dmeta d) ->
    exists warns, parse_model cls numcanon holo_ok strict (lines_of (emit sp d)) = PRDoc d [] warns /\ Forall advisory warns.
Proof. exact BareWord.text_roundtrip_core3. Qed.

(* the grammar sentinel is tried exactly at the end of the leading blank lines (Lexer.init_state is written against this text) *)
Theorem C07_pin_lexer_sentinel :
  lexer_sentinel_guard = pinned_lexer_sentinel_guard /\ lexer_sentinel_pos = pinned_lexer_sentinel_pos /\
  lexer_leading_blank_pattern = pinned_lexer_leading_blank_pattern.
Proof. exact (conj pin_lexer_sentinel_guard (conj pin_lexer_sentinel_pos pin_lexer_leading_blank_pattern)). Qed.

(* canonical text of a core4 document carries no lexer receipt (reps = []) and only warnings of the classes {5,6,7,9};
   none of them is a rewrite receipt *)
From OV Require Rt.TokRound4 Rt.LexLink4Text Rt.LexLink4.
Theorem C07_text_canonical_silent_core4 :
  forall cls numcanon holo_ok strict sp d,
    TokRound4.core4_doc d = true -> LexLink4.lex_safe4_doc d = true ->
    TokRound4.nums_ok4_l numcanon TokRound2Ex.ex_idnum (dsections d) ->
    Forall (TokRound4.field_num_ok4 numcanon TokRound2Ex.ex_idnum) (dmeta d) ->
    exists warns, parse_model cls numcanon holo_ok strict (lines_of (emit sp d)) = PRDoc d [] warns /\ Forall TokRound4.advisory4 warns.
Proof. exact LexLink4.text_roundtrip_core4. Qed.

(* ---- PARSER-SIDE RECEIPTS: multi-word bare values (Rt/MultiWord*.v) -------------------------------------------------------
   A spelling oracle chooses, per assignment / META string site, between the quoted, the bare and the MULTI-WORD spelling
   (w1 w2 ... wn, n >= 2, joined by one blank = the string).  Parsing a token list of that shape returns the same document d
   as the quoted spelling, and the multi_word_coalesce records among the new warnings are EXACTLY (same order, same fields:
   the words as written, the resulting string, line and column of the first word) the sites spelled multi-word: receipts =
   rewrites, at every depth.  A single bare word and a quoted value push no record. *)
From OV Require Rt.MultiWord Rt.MultiWordEx.
Theorem C07_multiword_value_one_receipt :
  forall numcanon holo_ok strict sp f st w1 ws t1 tws nt r,
    ptoks st = t1 :: tws ++ nt :: r -> tmatch t1 (IDENTIFIER, Some (TVText w1)) -> has_annotation w1 = false ->
    ws <> [] -> Forall2 tmatch tws (map MultiWord.wsh ws) -> forallb MultiWord.word_ok ws = true -> MultiWord.mw_stop (tk nt) = true ->
    exists st', parse_value numcanon holo_ok strict sp (S f) st = POk (VStr (join_sp (w1 :: MultiWord.texts ws))) st' /\
                ptoks st' = nt :: r /\ pwarns st' = MultiWord.mw_rec (w1 :: MultiWord.texts ws) t1 :: pwarns st /\
                pbdepth st' = pbdepth st /\ ppos st' = (ppos st + N.of_nat (S (length tws)))%N.
Proof. exact MultiWord.pv_multi. Qed.

Theorem C07_multiword_receipts_are_the_rewrites :
  forall numcanon holo_ok strict sp alpha ml idnum (qa5 : str -> str -> MultiWord.spell) (qm5 : str -> MultiWord.spell)
         (qi : str -> BareWordParse.strk),
    (forall k s, MultiWord.spell_ok s (qa5 k s) = true) -> (forall s, MultiWord.spell_ok s (qm5 s) = true) ->
    (forall s, qi s = BareWordParse.QIdent -> has_annotation s = false) ->
    forall d, core2_doc d = true -> nums_ok2_l numcanon idnum (dsections d) -> Forall (field_num_ok numcanon) (dmeta d) ->
    forall st0 ts tail, tail <> [] -> pbdepth st0 = 0%N ->
      Forall2 tmatch ts (MultiWord.doc5_sh ml idnum qa5 qm5 qi d) -> ptoks st0 = ts ++ tail ->
      exists st', parse_document numcanon holo_ok strict sp alpha st0 = POk d st' /\
                  MultiWord.sx st0 st' (MultiWord.E ts (MultiWord.doc5_mk ml qa5 qm5 qi d)).
Proof. exact MultiWord.parse_core5_doc. Qed.

Theorem C07_multiword_records_shape :
  forall ts ms, Forall (fun w => wsub w = 1%N /\ wb w = [] /\ wa w = join_sp (wparts w) /\ wnums w = []) (MultiWord.E ts ms).
Proof. exact MultiWord.E_records. Qed.

Theorem C07_single_word_and_quoted_no_receipt :
  forall numcanon holo_ok strict sp f st t nt r s,
    ptoks st = t :: nt :: r -> tk t = IDENTIFIER -> tv t = TVText s -> BareWordParse.after_scalar (tk nt) = true -> has_annotation s = false ->
    exists st', parse_value numcanon holo_ok strict sp (S f) st = POk (VStr s) st' /\ pwarns st' = pwarns st.
Proof. exact MultiWord.pv_one_word_no_record. Qed.

(* non-vacuity: a depth-3 text with four multi-word sites (META and body) read through the lexer model and the reader *)
Theorem C07_multiword_nonvacuous :
  exists warns, parse_model TokRoundEx.ex_cls ex2_numcanon (fun _ => false) false (lines_of MultiWordEx.mw_text) = PRDoc MultiWordEx.mw_doc [] warns /\
                Forall MultiWord.advisory5 warns /\
                filter MultiWord.is_mw warns = MultiWord.E (firstn (length MultiWordEx.mw_sh) (MultiWordEx.toks_of MultiWordEx.mw_text)) MultiWordEx.mw_mk.
Proof. exact MultiWordEx.mw_by_theorem. Qed.

(* ---- RECEIPTS = REWRITES, TEXT LEVEL, for triple-quoted and multi-word string sites (Rt/LexSpell*.v) -------------------------
   For the printer render_sp (every string site spelled quoted / bare / $VAR / triple-quoted / multi-word per oracle) the
   whole reader returns d with  reps = RC ts (doc_tq qa qm qi d)  -- exactly one lexer normalization receipt per
   triple-quoted site, in document order, at the token's line and column, and no other repair -- and
   filter is_mw warns = E ts (doc5_mk ..)  -- exactly one multi_word_coalesce record per multi-word site; all other
   warnings are advisory.  The canonical text (the emitter's own spelling) has reps = [] and no multi-word record. *)
From OV Require Rt.LexSpellText Rt.LexSpell Rt.LexSpellEx Rt.BareWord.
Theorem C07_text_receipts_are_the_rewrites :
  forall cls (qa : str -> str -> LexSpellText.spelling) (qm : str -> LexSpellText.spelling) (qi : str -> BareWordParse.strk)
         numcanon holo_ok strict d,
    core2_doc d = true -> LexSpellText.sp_safe_doc qa qm qi d = true -> LexSpell.admissible qa qm qi ->
    MultiWord.nums_ok2_l numcanon ex_idnum (dsections d) -> Forall (MultiWord.field_num_ok numcanon) (dmeta d) ->
    exists ts tnl teof warns,
      tokenize cls false (lines_of (LexSpellText.render_sp qa qm qi d)) = LexOk (ts ++ [tnl; teof]) (LexSpellText.RC ts (LexSpellText.doc_tq qa qm qi d)) /\
      Forall2 tmatch ts (MultiWord.doc5_sh needs_multiline ex_idnum (LexSpellText.qa5 qa) (LexSpellText.qm5 qm) qi d) /\
      length ts = length (LexSpellText.doc_tq qa qm qi d) /\
      parse_model cls numcanon holo_ok strict (lines_of (LexSpellText.render_sp qa qm qi d)) = PRDoc d (LexSpellText.RC ts (LexSpellText.doc_tq qa qm qi d)) warns /\
      Forall MultiWord.advisory5 warns /\
      filter MultiWord.is_mw warns = MultiWord.E ts (MultiWord.doc5_mk needs_multiline (LexSpellText.qa5 qa) (LexSpellText.qm5 qm) qi d).
Proof. exact LexSpell.text_render_sp. Qed.

Theorem C07_text_canonical_no_receipts :
  forall cls numcanon holo_ok strict sp d,
    BareWordParse.core3_doc d = true -> BareWord.lex_safe3_doc d = true ->
    MultiWord.nums_ok2_l numcanon ex_idnum (dsections d) -> Forall (MultiWord.field_num_ok numcanon) (dmeta d) ->
    LexSpellText.render_sp LexSpellText.qa_can LexSpellText.qm_can BareWord.qi_emit d = emit sp d /\
    (exists warns, parse_model cls numcanon holo_ok strict (lines_of (emit sp d)) = PRDoc d [] warns /\
                   Forall MultiWord.advisory5 warns /\ filter MultiWord.is_mw warns = []).
Proof. exact LexSpell.text_canonical_no_receipts. Qed.

(* NUMBER operand of an operator expression (Rt/FlowNumEx.v): the reader model, validated against the implementation on every token sequence of
   length <= 3, reads  K::speed(+)2  as the string  speed(+)  and reports NOTHING about the lost operand, while the mirror text  K::2+speed
   leaves a lenient_parse receipt.  Not one of the four receipt classes C07 enumerates (alias, triple quote, multi-word, brace repair), hence an
   observation and not a finding of C07; pinned here so that a change of this behaviour is seen by the kernel. *)
From OV Require Rt.FlowNumEx Rt.TokRoundTEx.
Require Coq.Strings.String.
Import Coq.Strings.String.StringSyntax.
Theorem C07_observation_number_operand_lost_without_receipt :
  TokRoundTEx.rdt [lit "K::speed" ++ FlowNumEx.OPLUS ++ lit "2"] = Some ([FlowNumEx.kv (VStr (lit "speed" ++ FlowNumEx.OPLUS))], []) /\
  TokRoundTEx.rdt [lit "K::2+speed"] = Some ([FlowNumEx.kv (VNum false (lit "2"))], [4%N]).
Proof. exact (conj FlowNumEx.number_operand_dropped_silently FlowNumEx.number_first_operand_reported). Qed.

(* ---- source-text pins (generated by harness/pinsets.py) ---- *)
(* every function of these modules is, text for text (comments and docstrings excluded), the one the models of this
   property were written against and validated against: harness/translate/srcdigest_t.py, Src/Pin_*.v *)
From OV Require Import Gen.SrcDigestGen Src.Pin_core_lexer Src.Pin_core_parser Src.Pin_core_emitter Src.Pin_core_ast_nodes Src.Pin_mcp_write Src.Pin_mcp_validate.
Theorem C07_pin_source_text :
  src_core_lexer_pinned /\ src_core_parser_pinned /\ src_core_emitter_pinned /\ src_core_ast_nodes_pinned /\ src_mcp_write_pinned /\ src_mcp_validate_pinned.
Proof. exact (conj src_core_lexer_pinned_ok (conj src_core_parser_pinned_ok (conj src_core_emitter_pinned_ok (conj src_core_ast_nodes_pinned_ok (conj src_mcp_write_pinned_ok src_mcp_validate_pinned_ok))))). Qed.
