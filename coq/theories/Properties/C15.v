(* C15 -- a seal verifies on the sealed content and on nothing else.  ONLY statements closed by `exact`.
   Model: Seal/Seal.v (consumes Gen/SealGen.v); proofs: Seal/SealFacts.v; pins: Seal/Pins_Seal.v.
   H = SHA-256 hexdigest oracle, E = the emitter (every statement holds for ALL H and E; the `_m` forms instantiate
   E with the emitter model Syn.Emitter.emit and the reader with the parser model). *)
From OV Require Import Base.Strs Syn.Ast Syn.Emitter Gen.SealGen Seal.Seal Seal.SealFacts Seal.Pins_Seal.
Require Coq.Strings.String.
Import Coq.Strings.String.StringSyntax.
Open Scope N_scope.

(* what verify_seal computes, for every document *)
Theorem C15_verified_iff : forall H E d,
  verify_seal H E d = VERIFIED <-> exists sd, extract_seal d = Some sd /\ stored_hash sd = Some (H (E (remove_seal d))).
Proof. exact verified_iff. Qed.

(* in memory: a sealed document verifies (premise: strip of quotes leaves the digest alone -- true of every hexdigest) *)
Theorem C15_verify_sealed : forall H E d,
  strip_set seal_verify_strip (H (E (remove_seal d))) = H (E (remove_seal d)) ->
  verify_seal H E (seal_document H E d) = VERIFIED.
Proof. exact verify_sealed. Qed.
Theorem C15_verify_sealed_hex : forall H E d,
  hexdigest_shape (H (E (remove_seal d))) = true -> verify_seal H E (seal_document H E d) = VERIFIED.
Proof. exact verify_sealed_hex. Qed.
Theorem C15_verify_sealed_m : forall H sp d,
  hexdigest_shape (H (body_text_m sp d)) = true -> verify_seal_m H sp (seal_document_m H sp d) = VERIFIED.
Proof. exact verify_sealed_m. Qed.
Definition C15_verify_sealed_anyhash_full : Prop := verify_sealed_anyhash_full.
Theorem C15_verify_sealed_anyhash_refuted : ~ verify_sealed_anyhash_full.
Proof. exact verify_sealed_anyhash_refuted. Qed.

(* sealing again gives the same document, hence the same seal; exactly one SEAL-keyed section remains *)
Theorem C15_seal_idempotent : forall H E d, seal_document H E (seal_document H E d) = seal_document H E d.
Proof. exact seal_idempotent. Qed.
Theorem C15_seal_idempotent_m : forall H sp d, seal_document_m H sp (seal_document_m H sp d) = seal_document_m H sp d.
Proof. exact seal_idempotent_m. Qed.
Theorem C15_sealed_has_one_seal : forall H E d, seal_count (seal_document H E d) = 1%nat.
Proof. exact sealed_has_one_seal. Qed.
Theorem C15_body_sealed : forall H E d, remove_seal (seal_document H E d) = remove_seal d.
Proof. exact body_sealed. Qed.

(* no seal *)
Theorem C15_no_seal : forall H E d,
  (forall n, In n (dsections d) -> is_section_keyed seal_extract_key n = false) -> verify_seal H E d = NO_SEAL.
Proof. exact no_seal. Qed.
Theorem C15_no_seal_iff : forall H E d, verify_seal H E d = NO_SEAL <-> extract_seal d = None.
Proof. exact no_seal_iff. Qed.

(* what the hash covers *)
Theorem C15_body_covers_everything : forall d,
  (forall n, In n (dsections d) -> is_section_keyed seal_remove_key n = false) ->
  remove_seal d = mkDoc (dname d) (dgrammar d) (dfront d) (dsep d) (dmeta d) (dsections d) [].
Proof. exact body_covers_everything. Qed.
Theorem C15_body_keeps_non_seal : forall d n,
  In n (dsections (remove_seal d)) <-> In n (dsections d) /\ is_section_keyed seal_remove_key n = false.
Proof. exact body_keeps_non_seal. Qed.

(* stored hash *)
Theorem C15_hash_tamper_detected : forall H E d sd,
  extract_seal d = Some sd -> stored_hash sd <> Some (H (E (remove_seal d))) -> verify_seal H E d = INVALID.
Proof. exact hash_tamper_detected. Qed.
Theorem C15_hash_not_string_invalid : forall H E d sd,
  extract_seal d = Some sd -> stored_hash sd = None -> verify_seal H E d = INVALID.
Proof. exact hash_not_string_invalid. Qed.
Theorem C15_hash_value_change_detected : forall H E d sd s,
  extract_seal d = Some sd -> dict_get sd seal_verify_key = Some (VStr s) ->
  forallb (fun c => negb (memb c seal_verify_strip)) s = true -> s <> H (E (remove_seal d)) -> verify_seal H E d = INVALID.
Proof. exact hash_value_change_detected. Qed.
Definition C15_hash_any_change_full : Prop := hash_any_change_full.
Theorem C15_hash_any_change_refuted : ~ hash_any_change_full.
Proof. exact hash_any_change_refuted. Qed.

(* tampering with the body; collision-freeness for the one pair of texts is a premise *)
Theorem C15_tamper_detected : forall H E d d' sd',
  extract_seal d' = Some sd' -> stored_hash sd' = Some (H (E (remove_seal d))) ->
  E (remove_seal d') <> E (remove_seal d) ->
  (H (E (remove_seal d')) = H (E (remove_seal d)) -> E (remove_seal d') = E (remove_seal d)) ->
  verify_seal H E d' = INVALID.
Proof. exact tamper_detected. Qed.
Theorem C15_tamper_detected_content : forall H E (P : str -> option doc) d d' sd',
  extract_seal d' = Some sd' -> stored_hash sd' = Some (H (E (remove_seal d))) ->
  P (E (remove_seal d)) = Some (remove_seal d) -> P (E (remove_seal d')) = Some (remove_seal d') ->
  remove_seal d' <> remove_seal d ->
  (H (E (remove_seal d')) = H (E (remove_seal d)) -> E (remove_seal d') = E (remove_seal d)) ->
  verify_seal H E d' = INVALID.
Proof. exact tamper_detected_content. Qed.
(* full statement (everything outside the seal section that is read): false, a second SEAL-keyed section is not hashed *)
Definition C15_tamper_detected_full : Prop := tamper_detected_full.
Theorem C15_tamper_detected_full_refuted : ~ tamper_detected_full.
Proof. exact tamper_detected_full_refuted. Qed.
Theorem C15_second_seal_section_verifies :
  emit sp0 (body1 ex_second_seal) <> emit sp0 (body1 ex_sealed) /\ seal_count ex_second_seal = 2%nat /\
  verify_seal_m toyH sp0 ex_second_seal = VERIFIED.
Proof. exact second_seal_section_verifies. Qed.
Theorem C15_tamper_detected_partial : forall H E d d' sd',
  (seal_count d <= 1)%nat -> (seal_count d' <= 1)%nat ->
  extract_seal d' = Some sd' -> stored_hash sd' = Some (H (E (remove_seal d))) ->
  E (body1 d') <> E (body1 d) ->
  (H (E (remove_seal d')) = H (E (remove_seal d)) -> E (remove_seal d') = E (remove_seal d)) ->
  verify_seal H E d' = INVALID.
Proof. exact tamper_detected_partial. Qed.

(* without the reader premises: false, the emitter is not injective (META dictionary vs top-level block keyed META) *)
Definition C15_tamper_content_noreader_full : Prop := tamper_content_noreader_full.
Theorem C15_tamper_content_noreader_refuted : ~ tamper_content_noreader_full.
Proof. exact tamper_content_noreader_refuted. Qed.
Theorem C15_meta_as_block_verifies :
  remove_seal ex_meta_as_block <> remove_seal ex_meta_sealed /\
  emit sp0 (remove_seal ex_meta_as_block) = emit sp0 (remove_seal ex_meta_sealed) /\
  verify_seal_m (fun s => s) sp0 ex_meta_as_block = VERIFIED.
Proof. exact meta_as_block_verifies. Qed.

(* after a text round trip / for a respelled text (the C01/C02/C03 reading result is the premise) *)
Theorem C15_verify_after_text : forall H E (P : str -> option doc) d d',
  strip_set seal_verify_strip (H (E (remove_seal d))) = H (E (remove_seal d)) ->
  P (E (seal_document H E d)) = Some d' -> same_sealed E d' (seal_document H E d) -> verify_seal H E d' = VERIFIED.
Proof. exact verify_after_text. Qed.
Theorem C15_verify_respelled : forall H E (P : str -> option doc) d d' t,
  strip_set seal_verify_strip (H (E (remove_seal d))) = H (E (remove_seal d)) ->
  P t = Some d' -> same_sealed E d' (seal_document H E d) -> verify_seal H E d' = VERIFIED.
Proof. exact verify_respelled. Qed.
Theorem C15_verify_after_text_m : forall H sp cls numcanon holo_ok strict nfc d d',
  hexdigest_shape (H (body_text_m sp d)) = true ->
  read_m cls numcanon holo_ok strict nfc (emit sp (seal_document_m H sp d)) = Some d' ->
  same_sealed (emit sp) d' (seal_document_m H sp d) -> verify_seal_m H sp d' = VERIFIED.
Proof. exact verify_after_text_m. Qed.
Theorem C15_verify_respelled_m : forall H sp cls numcanon holo_ok strict nfc d d' t,
  hexdigest_shape (H (body_text_m sp d)) = true ->
  read_m cls numcanon holo_ok strict nfc t = Some d' ->
  same_sealed (emit sp) d' (seal_document_m H sp d) -> verify_seal_m H sp d' = VERIFIED.
Proof. exact verify_respelled_m. Qed.
Theorem C15_reseal_after_text : forall H E d d',
  E (remove_seal d') = E (remove_seal (seal_document H E d)) -> dgrammar d' = dgrammar d ->
  seal_section_of H E d' = seal_section_of H E d.
Proof. exact reseal_after_text. Qed.

(* CLI: with --require-seal the seal check lets the command succeed exactly on VERIFIED *)
Theorem C15_cli_exit_required : forall status, cli_exit status true = 0 <-> status = VERIFIED.
Proof. exact cli_exit_required. Qed.
Theorem C15_cli_exit_optional : forall status, cli_exit status false = 0 <-> status <> INVALID.
Proof. exact cli_exit_optional. Qed.

(* non-vacuity *)
Theorem C15_ex_verify_sealed : verify_seal_m toyH sp0 ex_sealed = VERIFIED.
Proof. exact ex_verify_sealed. Qed.
Theorem C15_ex_hash_shape : hexdigest_shape (toyH (body_text_m sp0 ex_doc)) = true.
Proof. exact ex_hash_shape. Qed.
Theorem C15_ex_seal_idempotent : seal_document_m toyH sp0 ex_sealed = ex_sealed.
Proof. exact ex_seal_idempotent. Qed.
Theorem C15_ex_no_seal : verify_seal_m toyH sp0 (remove_seal ex_doc) = NO_SEAL.
Proof. exact ex_no_seal. Qed.
Theorem C15_ex_stale_seal_invalid : verify_seal_m toyH sp0 ex_doc = INVALID.
Proof. exact ex_stale_seal_invalid. Qed.
Theorem C15_ex_value_type_change_invalid :
  emit sp0 (remove_seal ex_value_changed) <> emit sp0 (remove_seal ex_sealed) /\
  verify_seal_m toyH sp0 ex_value_changed = INVALID.
Proof. exact ex_value_type_change_invalid. Qed.
Theorem C15_ex_tamper_premises :
  exists sd', extract_seal ex_value_changed = Some sd' /\
              stored_hash sd' = Some (toyH (emit sp0 (remove_seal ex_sealed))) /\
              emit sp0 (remove_seal ex_value_changed) <> emit sp0 (remove_seal ex_sealed) /\
              toyH (emit sp0 (remove_seal ex_value_changed)) <> toyH (emit sp0 (remove_seal ex_sealed)).
Proof. exact ex_tamper_premises. Qed.
Theorem C15_ex_text_round_trip :
  exists d', ex_reader (emit sp0 ex_sealed) = Some d' /\ same_sealed (emit sp0) d' ex_sealed /\
             verify_seal_m toyH sp0 d' = VERIFIED.
Proof. exact ex_text_round_trip. Qed.

Theorem C15_ex_respelled :
  ex_respelled_text <> emit sp0 ex_sealed /\
  exists d', ex_reader ex_respelled_text = Some d' /\ same_sealed (emit sp0) d' ex_sealed /\
             verify_seal_m toyH sp0 d' = VERIFIED.
Proof. exact ex_respelled. Qed.

(* ties to the source: generated tables = what the model was written against *)
Theorem C15_pin_section_shape : forall (H : str -> str) (E : doc -> str) d,
  seal_section_of H E d =
  NSection (lit "SEAL") (lit "SEAL") None
    ([NAssign (lit "SCOPE") (VStr (lit "LINES[1," ++ N_to_dec (line_count (E (remove_seal d))) ++ lit "]")) [] None;
      NAssign (lit "ALGORITHM") (VStr (lit "SHA256")) [] None;
      NAssign (lit "HASH") (VStr (strip_set [c_dq] ([c_dq] ++ H (E (remove_seal d)) ++ [c_dq]))) [] None] ++
     match dgrammar d with Some g => [NAssign (lit "GRAMMAR") (VStr g) [] None] | None => [] end) [].
Proof. exact pin_seal_section_shape. Qed.
Theorem C15_pin_tables :
  seal_new_id = lit "SEAL" /\ seal_new_key = lit "SEAL" /\ seal_extract_key = lit "SEAL" /\ seal_remove_key = lit "SEAL".
Proof. exact pin_seal_section_names. Qed.
Theorem C15_pin_verify : seal_verify_key = lit "HASH" /\ seal_verify_default = [] /\ seal_verify_strip = [c_dq].
Proof. exact pin_seal_verify. Qed.
Theorem C15_pin_statuses : seal_status_missing = 3 /\ seal_status_equal = 1 /\ seal_status_differs = 2.
Proof. exact pin_seal_statuses. Qed.
Theorem C15_pin_cli_exit_rules : seal_cli_exit_rules = [(2, false); (3, true)].
Proof. exact pin_seal_cli_exit_rules. Qed.

(* ---- source-text pins (generated by harness/pinsets.py) ---- *)
(* every function of these modules is, text for text (comments and docstrings excluded), the one the models of this
   property were written against and validated against: harness/translate/srcdigest_t.py, Src/Pin_*.v *)
From OV Require Import Gen.SrcDigestGen Src.Pin_core_sealer Src.Pin_core_emitter Src.Pin_core_lexer Src.Pin_core_parser Src.Pin_cli_main.
Theorem C15_pin_source_text :
  src_core_sealer_pinned /\ src_core_emitter_pinned /\ src_core_lexer_pinned /\ src_core_parser_pinned /\ src_cli_main_pinned.
Proof. exact (conj src_core_sealer_pinned_ok (conj src_core_emitter_pinned_ok (conj src_core_lexer_pinned_ok (conj src_core_parser_pinned_ok src_cli_main_pinned_ok)))). Qed.
