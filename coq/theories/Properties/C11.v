(* C11 -- schema repair changes only what it may, and logs every change.
   ONLY theorem statements closed by `exact`.  Model: Rep/Repair.v (consumes Gen/RepairGen.v); proofs: Rep/RepairFacts.v.
   orc_int / orc_float are the int()/float() oracle (arbitrary functions here: every theorem holds for every oracle). *)
From OV Require Import Base.Strs Rep.Ast Gen.RepairGen Rep.Repair Rep.RepairFacts Rep.Pins_Repair.
From Coq Require Import ZArith.
Open Scope N_scope.

(* fix off (or no schema): nothing changes, nothing is logged *)
Theorem C11_repair_fix_off : forall oi of_ sch d, repair oi of_ false sch d = (d, []).
Proof. exact repair_fix_off. Qed.
Theorem C11_repair_no_schema : forall oi of_ fx d, repair oi of_ fx None d = (d, []).
Proof. exact repair_no_schema. Qed.

(* keys, nesting, order, block targets, section ids/annotations, comments: unchanged *)
Theorem C11_repair_shape : forall oi of_ fx sch d, map shape (fst (repair oi of_ fx sch d)) = map shape d.
Proof. exact repair_shape. Qed.

(* the log is exactly the diff: per assignment, in document order, a chain of entries with the exact before/after
   texts leading from the old to the new value; empty chain <-> identical value (see `explains`, `chain`) *)
Theorem C11_repair_log_is_diff : forall oi of_ fx sch d,
  explains_l d (fst (repair oi of_ fx sch d)) (snd (repair oi of_ fx sch d)).
Proof. exact repair_log_is_diff. Qed.

(* every entry: casefold to THE unique case-insensitive member of an ENUM of a schema field (which then
   satisfies ENUM), or text -> finite number for a TYPE[NUMBER] field (int text re-reads to the same integer) *)
Theorem C11_repair_changes_allowed : forall oi of_ fx sch s d, sch = Some s ->
  Forall (entry_ok oi of_ s) (snd (repair oi of_ fx sch d)).
Proof. exact repair_changes_allowed. Qed.

Theorem C11_tiers_are_REPAIR :
  repair_tier_enum = [82; 69; 80; 65; 73; 82] /\ repair_tier_type = [82; 69; 80; 65; 73; 82].
Proof. exact repair_tiers_are_REPAIR. Qed.

Theorem C11_repair_satisfies_enum : forall v a v' e, attempt_enum v a = Some (v', e) -> exists c, v' = VStr c /\ enum_eval a c = true.
Proof. exact repair_satisfies_enum. Qed.
Theorem C11_repair_satisfies_type : forall oi of_ v t v' e, attempt_type oi of_ v t = Some (v', e) -> is_number v' = true.
Proof. exact repair_satisfies_type. Qed.

(* a null (missing) value is never filled; nothing that is not text is ever changed; zones (deep) are fixed *)
Theorem C11_repair_never_fills : forall oi of_ sch k, repair_node oi of_ sch (NAssign k VNull) = (NAssign k VNull, []).
Proof. exact repair_never_fills. Qed.
Theorem C11_repair_nonstr_fixed : forall oi of_ sch k v, is_str v = false -> repair_node oi of_ sch (NAssign k v) = (NAssign k v, []).
Proof. exact repair_nonstr_fixed. Qed.
Theorem C11_repair_zones_fixed : forall oi of_ fx sch d, flat_map zones_n (fst (repair oi of_ fx sch d)) = flat_map zones_n d.
Proof. exact repair_zones_fixed. Qed.

(* zero or several case-insensitive matches: not replaced *)
Theorem C11_repair_ambiguous_unchanged : forall s a, length (ci_matches s a) <> 1%nat -> attempt_enum (VStr s) a = None.
Proof. exact repair_ambiguous_unchanged. Qed.

(* exact ENUM members / non-text under TYPE[NUMBER]: identity, empty log (used by C10) *)
Theorem C11_repair_noop_when_valid : forall oi of_ fx sch s d, sch = Some s -> forallb (settled_n s) d = true ->
  repair oi of_ fx sch d = (d, []).
Proof. exact repair_noop_when_valid. Qed.
(* with "valid" read as the validator reads ENUM (unique prefix accepted) the statement is false *)
Definition C11_repair_noop_when_prefix_valid_full : Prop := repair_noop_when_prefix_valid_full.
Theorem C11_repair_noop_when_prefix_valid_refuted :
  exists oi of_ k a s, enum_eval a s = true /\
    repair oi of_ true (Some [(k, FChain [CEnum a])]) [NAssign k (VStr s)] <> ([NAssign k (VStr s)], []).
Proof. exact repair_noop_when_prefix_valid_refuted. Qed.

(* idempotence.  Full statement (document AND log) is false for chains with two ENUMs: the second run logs again
   although the document is stable; proved for simple chains *)
Definition C11_repair_idempotent_full : Prop := repair_idempotent_full.
Theorem C11_repair_idempotent_partial : forall oi of_ fx sch s d, sch = Some s -> simple_schema s = true ->
  repair oi of_ fx sch (fst (repair oi of_ fx sch d)) = (fst (repair oi of_ fx sch d), []).
Proof. exact repair_idempotent_partial. Qed.
Theorem C11_repair_idempotent_log_refuted :
  exists oi of_ s d, repair oi of_ true (Some s) (fst (repair oi of_ true (Some s) d)) <> (fst (repair oi of_ true (Some s) d), []).
Proof. exact repair_idempotent_log_refuted. Qed.
Theorem C11_simple_schema_nonvacuous :
  simple_schema [([69], FChain [COther; CEnum [[65; 98]; [97]]; CType repair_number_type]); ([78], FChain [COther; CType repair_number_type])] = true.
Proof. exact simple_schema_nonvacuous. Qed.

(* lossless: finite + re-readable are in entry_ok; "a non-zero literal does not become zero" is FALSE (1e-400 -> 0.0) *)
Definition C11_repair_lossless_full : Prop := repair_lossless_full.
Theorem C11_repair_lossless_underflow_refuted :
  exists oi of_ s d e, In e (snd (repair oi of_ true (Some s) d)) /\ e_rule e = repair_rule_type /\
    zero_text (e_after e) = true /\ nonzero_mantissa (strip (e_before e)) = true.
Proof. exact repair_lossless_underflow_refuted. Qed.
Theorem C11_repair_lossless_partial : forall oi of_,
  (forall st r, of_ st = Some (r, true) -> zero_text r = true -> nonzero_mantissa st = false) ->
  (forall st z, oi st = Some z -> zero_text (Z_to_dec z) = true -> nonzero_mantissa st = false) ->
  forall s d e, In e (snd (repair oi of_ true (Some s) d)) -> e_rule e = repair_rule_type ->
    repair_rule_type <> repair_rule_enum ->
    zero_text (e_after e) = true -> nonzero_mantissa (strip (e_before e)) = false.
Proof. exact repair_lossless_partial. Qed.
Theorem C11_int_text_rereads : forall z, read_dec (Z_to_dec z) = Some z.
Proof. exact read_dec_Z_to_dec. Qed.

(* ---- ties to the current source text ---- *)
Theorem C11_consumed_tables :
  repair_guards = [1; 2; 3; 4; 5; 6; 7] /\ repair_dispatch = [1; 2] /\ repair_int_branch_chars = [(46, 0); (101, 1)] /\
  repair_caught = [[86; 97; 108; 117; 101; 69; 114; 114; 111; 114]; [79; 118; 101; 114; 102; 108; 111; 119; 69; 114; 114; 111; 114]].
Proof. exact (conj repair_guards_pin (conj repair_dispatch_pin (conj repair_int_branch_pin repair_caught_pin))). Qed.

Theorem C11_pin_sources :
  repair_src_attempt_enum_casefold = pinned_repair_src_attempt_enum_casefold /\
  repair_src_attempt_type_coercion = pinned_repair_src_attempt_type_coercion /\
  repair_src_repair_ast_node = pinned_repair_src_repair_ast_node /\
  repair_src_apply_schema_repairs = pinned_repair_src_apply_schema_repairs /\
  repair_src_repair = pinned_repair_src_repair /\
  repair_src_log_add = pinned_repair_src_log_add /\
  repair_src_entry_to_dict = pinned_repair_src_entry_to_dict.
Proof.
  exact (conj pin_repair_src_attempt_enum_casefold (conj pin_repair_src_attempt_type_coercion (conj pin_repair_src_repair_ast_node
        (conj pin_repair_src_apply_schema_repairs (conj pin_repair_src_repair (conj pin_repair_src_log_add pin_repair_src_entry_to_dict)))))).
Qed.

Theorem C11_pin_call_sites :
  repair_src_validate_fix_stage = pinned_repair_src_validate_fix_stage /\
  repair_src_write_repair_stage = pinned_repair_src_write_repair_stage /\
  repair_src_write_meta_repair_stage = pinned_repair_src_write_meta_repair_stage /\
  repair_src_cli_fix_stage = pinned_repair_src_cli_fix_stage.
Proof.
  exact (conj pin_repair_src_validate_fix_stage (conj pin_repair_src_write_repair_stage
        (conj pin_repair_src_write_meta_repair_stage pin_repair_src_cli_fix_stage))).
Qed.
