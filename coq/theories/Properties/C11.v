(* C11 -- schema repair changes only what it may, and logs every change.
   ONLY theorem statements closed by `exact`.  Model: Rep/Repair.v (consumes Gen/RepairGen.v); proofs: Rep/RepairFacts.v.
   orc_int / orc_float are the int()/float() oracle (arbitrary functions here: every theorem holds for every oracle unless
   a hypothesis about the oracle is written out in the statement).  orc_float st = Some (repr x, isfinite x, x == 0);
   od = digit oracle (non-ASCII char -> Some (int(ch)) iff ch.isdecimal(); ASCII digits are computed by the model). *)
From OV Require Import Base.Strs Rep.Ast Gen.RepairGen Rep.Repair Rep.RepairFacts Rep.Pins_Repair.
From Coq Require Import ZArith.
Open Scope N_scope.

(* fix off (or no schema): nothing changes, nothing is logged *)
Theorem C11_repair_fix_off : forall oi of_ od sch d, repair oi of_ od false sch d = (d, []).
Proof. exact repair_fix_off. Qed.
Theorem C11_repair_no_schema : forall oi of_ od fx d, repair oi of_ od fx None d = (d, []).
Proof. exact repair_no_schema. Qed.

(* the switch at a tool surface (1 octave_validate `fix`, 2 octave_write `lenient`, 3 CLI `--fix`): OMITTED = off (default
   read by the translator from the only binding of the switch), explicit value wins; with the switch omitted or false
   nothing changes and nothing is logged.  Profile and the other arguments are not inputs of the model: the translator
   fails closed if anything else binds the switch or a repair() call is not under `if <switch> ...` *)
Theorem C11_switch_omitted_is_off : forall surface, surface_flag surface None = false.
Proof. exact surface_flag_omitted. Qed.
Theorem C11_switch_explicit_wins : forall surface b, surface_flag surface (Some b) = b.
Proof. exact surface_flag_explicit. Qed.
Theorem C11_repair_switch_omitted : forall oi of_ od surface sch d,
  repair oi of_ od (surface_flag surface None) sch d = (d, []).
Proof. exact repair_switch_omitted. Qed.
Theorem C11_repair_switch_false : forall oi of_ od surface sch d,
  repair oi of_ od (surface_flag surface (Some false)) sch d = (d, []).
Proof. exact repair_switch_false. Qed.

(* keys, nesting, order, block targets, section ids/annotations, comments: unchanged *)
Theorem C11_repair_shape : forall oi of_ od fx sch d, map shape (fst (repair oi of_ od fx sch d)) = map shape d.
Proof. exact repair_shape. Qed.

(* the log is exactly the diff: per assignment, in document order, a chain of entries with the exact before/after
   texts leading from the old to the new value; empty chain <-> identical value (see `explains`, `chain`) *)
Theorem C11_repair_log_is_diff : forall oi of_ od fx sch d,
  explains_l d (fst (repair oi of_ od fx sch d)) (snd (repair oi of_ od fx sch d)).
Proof. exact repair_log_is_diff. Qed.

(* every entry: casefold to THE unique case-insensitive member of an ENUM of a schema field (which then
   satisfies ENUM), or text -> finite number for a TYPE[NUMBER] field (int text re-reads to the same integer; a float
   reported == 0 comes from a literal without a digit 1..9 in its mantissa) *)
Theorem C11_repair_changes_allowed : forall oi of_ od fx sch s d, sch = Some s ->
  Forall (entry_ok oi of_ od s) (snd (repair oi of_ od fx sch d)).
Proof. exact repair_changes_allowed. Qed.

Theorem C11_tiers_are_REPAIR :
  repair_tier_enum = [82; 69; 80; 65; 73; 82] /\ repair_tier_type = [82; 69; 80; 65; 73; 82].
Proof. exact repair_tiers_are_REPAIR. Qed.

Theorem C11_repair_satisfies_enum : forall v a v' e, attempt_enum v a = Some (v', e) -> exists c, v' = VStr c /\ enum_eval a c = true.
Proof. exact repair_satisfies_enum. Qed.
Theorem C11_repair_satisfies_type : forall oi of_ od v t v' e, attempt_type oi of_ od v t = Some (v', e) -> is_number v' = true.
Proof. exact repair_satisfies_type. Qed.

(* a null (missing) value is never filled; nothing that is not text is ever changed; zones (deep) are fixed *)
Theorem C11_repair_never_fills : forall oi of_ od sch k, repair_node oi of_ od sch (NAssign k VNull) = (NAssign k VNull, []).
Proof. exact repair_never_fills. Qed.
Theorem C11_repair_nonstr_fixed : forall oi of_ od sch k v, is_str v = false -> repair_node oi of_ od sch (NAssign k v) = (NAssign k v, []).
Proof. exact repair_nonstr_fixed. Qed.
Theorem C11_repair_zones_fixed : forall oi of_ od fx sch d, flat_map zones_n (fst (repair oi of_ od fx sch d)) = flat_map zones_n d.
Proof. exact repair_zones_fixed. Qed.

(* zero or several case-insensitive matches: not replaced *)
Theorem C11_repair_ambiguous_unchanged : forall s a, length (ci_matches s a) <> 1%nat -> attempt_enum (VStr s) a = None.
Proof. exact repair_ambiguous_unchanged. Qed.

(* exact ENUM members / non-text under TYPE[NUMBER]: identity, empty log (used by C10) *)
Theorem C11_repair_noop_when_valid : forall oi of_ od fx sch s d, sch = Some s -> forallb (settled_n s) d = true ->
  repair oi of_ od fx sch d = (d, []).
Proof. exact repair_noop_when_valid. Qed.
(* with "valid" read as the validator reads ENUM (unique prefix accepted) the statement is false *)
Definition C11_repair_noop_when_prefix_valid_full : Prop := repair_noop_when_prefix_valid_full.
Theorem C11_repair_noop_when_prefix_valid_refuted :
  exists oi of_ od k a s, enum_eval a s = true /\
    repair oi of_ od true (Some [(k, FChain [CEnum a])]) [NAssign k (VStr s)] <> ([NAssign k (VStr s)], []).
Proof. exact repair_noop_when_prefix_valid_refuted. Qed.

(* idempotence.  Full statement (document AND log) is false for chains with two ENUMs: the second run logs again
   although the document is stable; proved for simple chains *)
Definition C11_repair_idempotent_full : Prop := repair_idempotent_full.
Theorem C11_repair_idempotent_partial : forall oi of_ od fx sch s d, sch = Some s -> simple_schema s = true ->
  repair oi of_ od fx sch (fst (repair oi of_ od fx sch d)) = (fst (repair oi of_ od fx sch d), []).
Proof. exact repair_idempotent_partial. Qed.
Theorem C11_repair_idempotent_log_refuted :
  exists oi of_ od s d, repair oi of_ od true (Some s) (fst (repair oi of_ od true (Some s) d)) <> (fst (repair oi of_ od true (Some s) d), []).
Proof. exact repair_idempotent_log_refuted. Qed.
Theorem C11_simple_schema_nonvacuous :
  simple_schema [([69], FChain [COther; CEnum [[65; 98]; [97]]; CType repair_number_type]); ([78], FChain [COther; CType repair_number_type])] = true.
Proof. exact simple_schema_nonvacuous. Qed.

(* ---- lossless number coercion (after 80b6126: an underflowing literal is no longer coerced to zero) ----
   C11_repair_lossless: EVERY successful text -> number step, for EVERY oracle, no hypothesis: either the integer that
   int() read (logged text re-reads to exactly it) or a float the oracle reports finite and, when the oracle reports
   it == 0, the literal has no decimal digit of non-zero value in its mantissa (nonzero_mantissa is computed by the model
   from the text: ASCII digits in Gallina, non-ASCII decimal digits through the digit oracle od; closed form:
   C11_nonzero_mantissa_spec) *)
Theorem C11_repair_lossless : forall oi of_ od v t v' e, attempt_type oi of_ od v t = Some (v', e) ->
  exists s, v = VStr s /\ e_before e = s /\
    ((exists z, v' = VInt z /\ use_int (strip s) = true /\ oi (strip s) = Some z /\
                e_after e = Z_to_dec z /\ read_dec (e_after e) = Some z)
     \/ (exists r zero, v' = VFloat r /\ use_int (strip s) = false /\ e_after e = r /\
                        of_ (strip s) = Some (r, true, zero) /\
                        (zero = true -> nonzero_mantissa od (strip s) = false))).
Proof. exact repair_lossless. Qed.
(* the same for every TYPE_COERCION entry in the log of any document under any schema *)
Theorem C11_repair_lossless_log : forall oi of_ od fx sch s d e, sch = Some s -> In e (snd (repair oi of_ od fx sch d)) ->
  e_rule e = repair_rule_type ->
  strip (e_before e) <> [] /\
  ((use_int (strip (e_before e)) = true /\ exists z, oi (strip (e_before e)) = Some z /\ e_after e = Z_to_dec z
       /\ read_dec (e_after e) = Some z)
   \/ (use_int (strip (e_before e)) = false /\ exists zero, of_ (strip (e_before e)) = Some (e_after e, true, zero)
       /\ (zero = true -> nonzero_mantissa od (strip (e_before e)) = false))).
Proof. exact repair_lossless_log. Qed.
(* an underflowing literal (float() == 0, a decimal digit of non-zero value in the mantissa) is not coerced; under a chain without ENUM the
   assignment is returned unchanged with an empty log *)
Theorem C11_repair_underflow_unrepaired : forall oi of_ od s t r fin, use_int (strip s) = false ->
  of_ (strip s) = Some (r, fin, true) -> nonzero_mantissa od (strip s) = true -> attempt_type oi of_ od (VStr s) t = None.
Proof. exact repair_underflow_unrepaired. Qed.
Theorem C11_repair_underflow_node_unrepaired : forall oi of_ od sch k cs s r fin, lookup k sch = Some (FChain cs) ->
  no_enum cs = true -> use_int (strip s) = false -> of_ (strip s) = Some (r, fin, true) ->
  nonzero_mantissa od (strip s) = true ->
  repair_node oi of_ od sch (NAssign k (VStr s)) = (NAssign k (VStr s), []).
Proof. exact repair_underflow_node_unrepaired. Qed.
(* the mantissa test with the generated tables eliminated (od = the digit oracle: non-ASCII char -> Some (int(ch)) iff
   ch.isdecimal()): some character before the first e/E is an ASCII digit 1..9 or a non-ASCII decimal digit of non-zero
   value; on ASCII text the oracle is irrelevant *)
Theorem C11_nonzero_mantissa_spec : forall od st,
  nonzero_mantissa od st = existsb (nonzero_decimal_char od) (takeb (fun c => negb ((c =? 101) || (c =? 69))) st).
Proof. exact nonzero_mantissa_spec. Qed.
Theorem C11_nonzero_mantissa_ascii : forall od st, ascii_str st = true ->
  nonzero_mantissa od st = existsb (fun c => (49 <=? c) && (c <=? 57)) (takeb (fun c => negb ((c =? 101) || (c =? 69))) st).
Proof. exact nonzero_mantissa_ascii. Qed.
(* regression by computation (was C11_repair_lossless_underflow_refuted before the fix): "1e-400", "-1e-400",
   " 2.0E-324" read by float() as +-0.0 stay text with an EMPTY log; "0e5", "-0.0e-999" are coerced and logged *)
Theorem C11_repair_underflow_regression :
  repair_tbl wit_tbl wit_dig true (Some wit_number_schema) [NAssign [78] (VStr wit_underflow_text)]
    = ([NAssign [78] (VStr wit_underflow_text)], [])
  /\ repair_tbl wit_tbl wit_dig true (Some wit_number_schema) [NAssign [78] (VStr wit_underflow_neg_text)]
    = ([NAssign [78] (VStr wit_underflow_neg_text)], [])
  /\ repair_tbl wit_tbl wit_dig true (Some wit_number_schema) [NBlock [66] None [NAssign [78] (VStr wit_underflow_upper_text)]]
    = ([NBlock [66] None [NAssign [78] (VStr wit_underflow_upper_text)]], [])
  /\ repair_tbl wit_tbl wit_dig true (Some wit_number_schema) [NAssign [78] (VStr wit_zero_exp_text)]
    = ([NAssign [78] (VFloat txt_0_0)], [mk_entry repair_rule_type wit_zero_exp_text txt_0_0 repair_tier_type])
  /\ repair_tbl wit_tbl wit_dig true (Some wit_number_schema) [NAssign [78] (VStr wit_zero_neg_text)]
    = ([NAssign [78] (VFloat txt_m0_0)], [mk_entry repair_rule_type wit_zero_neg_text txt_m0_0 repair_tier_type]).
Proof. exact repair_underflow_regression. Qed.
(* regression for 0b7941a (was the known finding C11-underflow-nonascii-digit): U+FF11 e-400 and 0.0 U+0664 E-400, float
   oracle reading 0.0, digit oracle 1 / 4, stay text with an EMPTY log; U+FF10 e5 (fullwidth zero) is coerced and logged;
   and it is the digit oracle that decides (with an empty digit table the first text would be coerced) *)
Theorem C11_repair_underflow_nonascii_regression :
  repair_tbl wit_tbl wit_dig true (Some wit_number_schema) [NAssign [78] (VStr wit_fullwidth_one_text)]
    = ([NAssign [78] (VStr wit_fullwidth_one_text)], [])
  /\ repair_tbl wit_tbl wit_dig true (Some wit_number_schema) [NSection [49] [83] None [NAssign [78] (VStr wit_arabic_four_text)]]
    = ([NSection [49] [83] None [NAssign [78] (VStr wit_arabic_four_text)]], [])
  /\ repair_tbl wit_tbl wit_dig true (Some wit_number_schema) [NAssign [78] (VStr wit_fullwidth_zero_text)]
    = ([NAssign [78] (VFloat txt_0_0)], [mk_entry repair_rule_type wit_fullwidth_zero_text txt_0_0 repair_tier_type]).
Proof. exact repair_underflow_nonascii_regression. Qed.
Theorem C11_repair_nonascii_not_decimal_coerced :
  repair_tbl wit_tbl [] true (Some wit_number_schema) [NAssign [78] (VStr wit_fullwidth_one_text)]
    = ([NAssign [78] (VFloat txt_0_0)], [mk_entry repair_rule_type wit_fullwidth_one_text txt_0_0 repair_tier_type]).
Proof. exact repair_nonascii_not_decimal_coerced. Qed.

(* at the level of the LOGGED TEXTS ("a literal with a non-zero mantissa never becomes a zero text").  Unconditionally
   (for every oracle) this fails only for an oracle that contradicts itself: repr "0.0" with flag "!= 0" *)
Definition C11_repair_lossless_full : Prop := repair_lossless_full.
Theorem C11_repair_lossless_inconsistent_oracle_refuted :
  exists oi of_ od s d e, In e (snd (repair oi of_ od true (Some s) d)) /\ e_rule e = repair_rule_type /\
    zero_text (e_after e) = true /\ nonzero_mantissa od (strip (e_before e)) = true.
Proof. exact repair_lossless_inconsistent_oracle_refuted. Qed.
(* float branch: only self-consistency of the oracle (zero repr text -> flagged == 0) is assumed; NOTHING about which
   literals float() maps to zero *)
Theorem C11_repair_lossless_text_float : forall oi of_ od,
  (forall st r fin zero, of_ st = Some (r, fin, zero) -> zero_text r = true -> zero = true) ->
  forall s d e, In e (snd (repair oi of_ od true (Some s) d)) -> e_rule e = repair_rule_type ->
    use_int (strip (e_before e)) = false ->
    zero_text (e_after e) = true -> nonzero_mantissa od (strip (e_before e)) = false.
Proof. exact repair_lossless_text_float. Qed.
(* both branches (replaces C11_repair_lossless_partial, whose float hypothesis "float() never maps a non-zero literal to
   zero" is no longer needed); the int hypothesis is a fact of CPython int(), the int branch has no guard *)
Theorem C11_repair_lossless_text : forall oi of_ od,
  (forall st r fin zero, of_ st = Some (r, fin, zero) -> zero_text r = true -> zero = true) ->
  (forall st z, oi st = Some z -> zero_text (Z_to_dec z) = true -> nonzero_mantissa od st = false) ->
  forall s d e, In e (snd (repair oi of_ od true (Some s) d)) -> e_rule e = repair_rule_type ->
    zero_text (e_after e) = true -> nonzero_mantissa od (strip (e_before e)) = false.
Proof. exact repair_lossless_text. Qed.
(* both hypotheses are computable on an oracle table (the extracted driver evaluates them on the real tables of every
   run: command `tblok`); they are satisfiable by a non-trivial table *)
Theorem C11_repair_tbl_lossless_text : forall t dt, tbl_float_consistent t = true -> tbl_int_zero_ok t dt = true ->
  forall s d e, In e (snd (repair_tbl t dt true (Some s) d)) -> e_rule e = repair_rule_type ->
    zero_text (e_after e) = true -> nonzero_mantissa (dig_find dt) (strip (e_before e)) = false.
Proof. exact repair_tbl_lossless_text. Qed.
Theorem C11_oracle_hypotheses_nonvacuous : tbl_float_consistent wit_tbl = true /\ tbl_int_zero_ok wit_tbl wit_dig = true.
Proof. exact oracle_hypotheses_nonvacuous. Qed.
Theorem C11_int_text_rereads : forall z, read_dec (Z_to_dec z) = Some z.
Proof. exact read_dec_Z_to_dec. Qed.

(* ---- ties to the current source text ---- *)
Theorem C11_consumed_tables :
  repair_guards = [1; 2; 3; 4; 5; 6; 7] /\ repair_dispatch = [1; 2] /\ repair_int_branch_chars = [(46, 0); (101, 1)] /\
  repair_caught = [[86; 97; 108; 117; 101; 69; 114; 114; 111; 114]; [79; 118; 101; 114; 102; 108; 111; 119; 69; 114; 114; 111; 114]].
Proof. exact (conj repair_guards_pin (conj repair_dispatch_pin (conj repair_int_branch_pin repair_caught_pin))). Qed.
(* float branch: guard ORDER (1 not finite, then 2 zero with non-zero mantissa), split char 'e', on .lower(), per-character
   test 2 = `ch.isdecimal() and int(ch) != 0` (1 would be the ASCII table of 80b6126: a reverted tree breaks this);
   and the source text of the two expressions the translator decomposed *)
Theorem C11_consumed_float_guards :
  repair_float_guards = [1; 2] /\
  (repair_mantissa_split = 101 /\ repair_mantissa_lower = 1 /\ repair_mantissa_digit_test = 2 /\ repair_mantissa_digits = []) /\
  repair_mantissa_expr = pinned_repair_mantissa_expr /\ repair_underflow_guard_test = pinned_repair_underflow_guard_test.
Proof. exact (conj repair_float_guards_pin (conj repair_mantissa_pin (conj pin_repair_mantissa_expr pin_repair_underflow_guard_test))). Qed.

Theorem C11_pin_sources :
  repair_src_attempt_enum_casefold = pinned_repair_src_attempt_enum_casefold /\
  repair_src_attempt_type_coercion = pinned_repair_src_attempt_type_coercion /\
  repair_src_repair_ast_node = pinned_repair_src_repair_ast_node /\
  repair_src_apply_schema_repairs = pinned_repair_src_apply_schema_repairs /\
  repair_src_repair = pinned_repair_src_repair /\
  repair_src_log_add = pinned_repair_src_log_add /\
  repair_src_entry_to_dict = pinned_repair_src_entry_to_dict.
Proof.
  exact (conj pin_repair_src_attempt_enum_casefold (conj pin_repair_src_attempt_type_coercion (conj pin_repair_src_repair_ast_node
        (conj pin_repair_src_apply_schema_repairs (conj pin_repair_src_repair (conj pin_repair_src_log_add pin_repair_src_entry_to_dict)))))).
Qed.

Theorem C11_pin_call_sites :
  repair_src_validate_fix_stage = pinned_repair_src_validate_fix_stage /\
  repair_src_write_repair_stage = pinned_repair_src_write_repair_stage /\
  repair_src_write_meta_repair_stage = pinned_repair_src_write_meta_repair_stage /\
  repair_src_cli_fix_stage = pinned_repair_src_cli_fix_stage.
Proof.
  exact (conj pin_repair_src_validate_fix_stage (conj pin_repair_src_write_repair_stage
        (conj pin_repair_src_write_meta_repair_stage pin_repair_src_cli_fix_stage))).
Qed.

(* what switches repair on: defaults consumed by the model, the single bindings, the gates of every repair() call, the
   CLI option, and BaseTool.validate_parameters (returns the caller's dict unchanged) *)
Theorem C11_pin_switches :
  (repair_validate_fix_default = 0 /\ repair_write_lenient_default = 0 /\ repair_cli_fix_default = 0) /\
  repair_validate_fix_binding = pinned_repair_validate_fix_binding /\
  repair_validate_repair_gates = pinned_repair_validate_repair_gates /\
  repair_write_lenient_binding = pinned_repair_write_lenient_binding /\
  repair_write_repair_gates = pinned_repair_write_repair_gates /\
  repair_cli_fix_option = pinned_repair_cli_fix_option /\
  repair_cli_repair_gates = pinned_repair_cli_repair_gates /\
  repair_src_validate_parameters = pinned_repair_src_validate_parameters.
Proof.
  exact (conj repair_switch_defaults_pin (conj pin_repair_validate_fix_binding (conj pin_repair_validate_repair_gates
        (conj pin_repair_write_lenient_binding (conj pin_repair_write_repair_gates (conj pin_repair_cli_fix_option
        (conj pin_repair_cli_repair_gates pin_repair_src_validate_parameters))))))).
Qed.

(* ---- source-text pins (generated by harness/pinsets.py) ---- *)
(* every function of these modules is, text for text (comments and docstrings excluded), the one the models of this
   property were written against and validated against: harness/translate/srcdigest_t.py, Src/Pin_*.v *)
From OV Require Import Gen.SrcDigestGen Src.Pin_core_repair Src.Pin_core_repair_log Src.Pin_core_constraints Src.Pin_mcp_validate Src.Pin_mcp_write Src.Pin_cli_main.
Theorem C11_pin_source_text :
  src_core_repair_pinned /\ src_core_repair_log_pinned /\ src_core_constraints_pinned /\ src_mcp_validate_pinned /\ src_mcp_write_pinned /\ src_cli_main_pinned.
Proof. exact (conj src_core_repair_pinned_ok (conj src_core_repair_log_pinned_ok (conj src_core_constraints_pinned_ok (conj src_mcp_validate_pinned_ok (conj src_mcp_write_pinned_ok src_cli_main_pinned_ok))))). Qed.
