(* C06 -- results depend only on the input.  ONLY theorem statements closed by `exact`.
   In Gallina every function is a function; the content is where non-determinism can enter a Python program:
   module state, set iteration order, ambient inputs, the schema search path, scheduling.  The lists ms_* and
   schema_search_order are regenerated from /repo on every run (Gen/ModStateGen.v).
   NOT proved here (runtime truth, carried by the cross-configuration comparison of harness/props/c06.py only):
   equality across OS processes, hash seeds and locales of the real interpreter. *)
From OV Require Import Base.Strs Gen.ModStateGen Tools.ModuleState Tools.Server.
From Coq Require Import Sorting.Permutation.
Require Coq.Strings.String.
Import Coq.Strings.String.StringSyntax.

(* ---- module state ---- *)
Theorem C06_no_mutable_module_state : no_mutable_module_state_b = true.
Proof. exact no_mutable_module_state. Qed.

Theorem C06_no_mutable_module_state_forall :
  (forall b, In b ms_bindings -> immutable_kind (b_kind b) = true \/
      forall m, In m ms_mutations -> site_mutates b m = true -> import_time m = true \/ m = absent_cell_write) /\
  (forall m, In m ms_mutations -> import_time m = true \/ m = absent_cell_write).
Proof. exact no_mutable_module_state_forall. Qed.

Theorem C06_inventory_nonvacuous :
  existsb (fun b => negb (immutable_kind (b_kind b))) ms_bindings = true /\
  existsb (fun m => mutation_eqb m absent_cell_write) ms_mutations = true /\
  (20 <=? N.of_nat (length ms_modules))%N = true /\ (100 <=? N.of_nat (length ms_bindings))%N = true.
Proof. exact inventory_nonvacuous. Qed.

(* the one write-once cell: n evaluations of Absent() look the same from every cell state / allocator position *)
Theorem C06_absent_singleton_unobservable : forall n c1 c2,
  identity_profile (snd (absent_gets n c1)) = identity_profile (snd (absent_gets n c2)).
Proof. exact absent_singleton_unobservable. Qed.

(* ---- iteration order ---- *)
Theorem C06_no_unordered_iteration : no_unordered_iteration_b = true.
Proof. exact no_unordered_iteration. Qed.

Theorem C06_unknown_fields_perm : forall p k sf xs ys,
  Permutation xs ys -> report_unknown p k sf xs = report_unknown p k sf ys.
Proof. exact unknown_fields_perm. Qed.

Theorem C06_struct_warning_perm : forall o o' c c',
  Permutation o o' -> Permutation c c' -> struct_warning o c = struct_warning o' c'.
Proof. exact struct_warning_perm. Qed.

Theorem C06_joined_sorted_perm : forall xs ys, Permutation xs ys -> joined_sorted xs = joined_sorted ys.
Proof. exact joined_sorted_perm. Qed.

(* any two correct sorting functions (Python's sorted, the model's insertion sort) return the same list *)
Theorem C06_sorters_agree : forall f g, is_sorter f -> is_sorter g -> forall l, f l = g l.
Proof. exact sorters_agree. Qed.

Theorem C06_py_sorted_is_sorter : is_sorter py_sorted.
Proof. exact py_sorted_is_sorter. Qed.

Theorem C06_pin_sorted_sites :
  sorted_sites_of [lit "core/validator"; lit "mcp/compile_grammar"; lit "mcp/eject"; lit "mcp/validate"; lit "mcp/write";
                   lit "core/projector"; lit "core/routing"; lit "core/sealer"; lit "core/repair"; lit "core/emitter";
                   lit "core/parser"; lit "core/lexer"; lit "core/gbnf_compiler"; lit "core/constraints";
                   lit "core/schema_extractor"; lit "core/holographic"; lit "schemas/loader"]
  = pinned_sorted_sites.
Proof. exact pin_sorted_sites. Qed.

(* ---- ambient inputs ---- *)
Theorem C06_no_ambient_inputs : no_ambient_inputs_b = true.
Proof. exact no_ambient_inputs. Qed.

Theorem C06_no_forbidden_ambient_in_tools :
  forallb (fun s => negb (str_in (snd (fst s)) tool_reachable_modules && str_in (fst (fst s)) forbidden_categories)) ms_ambient = true.
Proof. exact no_forbidden_ambient_in_tools. Qed.

(* ---- server state machine ---- *)
Theorem C06_pin_server_state :
  ms_tool_fields = [] /\ ms_tool_attr_writes = [] /\ ms_server_closure_writes = [] /\ ms_tool_awaits = [].
Proof. exact (conj pin_tool_fields (conj pin_tool_attr_writes (conj pin_server_closure_writes pin_tool_awaits))). Qed.

Theorem C06_history_independent :
  forall (call response : Type) (tool_module : call -> str) (n_absent : call -> nat) (wval : call -> N)
         (handler : call -> list (field_id * N) -> list (list bool) -> response) (s0 : srv) (h : list call) (c : call),
    snd (step call response tool_module n_absent wval handler (run call response tool_module n_absent wval handler h s0) c)
    = snd (step call response tool_module n_absent wval handler s0 c).
Proof. exact history_independent. Qed.

Theorem C06_start_state_independent :
  forall (call response : Type) (tool_module : call -> str) (n_absent : call -> nat) (wval : call -> N)
         (handler : call -> list (field_id * N) -> list (list bool) -> response) cell1 cell2 h1 h2 c,
    snd (step call response tool_module n_absent wval handler (run call response tool_module n_absent wval handler h1 (fresh cell1)) c)
    = snd (step call response tool_module n_absent wval handler (run call response tool_module n_absent wval handler h2 (fresh cell2)) c).
Proof. exact start_state_independent. Qed.

(* cooperative scheduling only (no await inside a tool: C06_pin_server_state); OS threads are not modelled *)
Theorem C06_interleaving_independent_partial :
  forall (call response : Type) (tool_module : call -> str) (n_absent : call -> nat) (wval : call -> N)
         (handler : call -> list (field_id * N) -> list (list bool) -> response) s0 cs p,
    Permutation cs p -> forall c, In c cs ->
    In (c, snd (step call response tool_module n_absent wval handler s0 c))
       (combine p (responses call response tool_module n_absent wval handler s0 p)).
Proof. exact interleaving_independent. Qed.

(* ---- schema lookup and the working directory ---- *)
Theorem C06_pin_schema_search_order : schema_search_order = pinned_schema_search_order.
Proof. exact pin_schema_search_order. Qed.

(* restricted statement 1: found in a package directory before any cwd-relative directory is consulted *)
Theorem C06_lookup_cwd_partial : forall fs pkg name cwd1 cwd2,
  found_before_cwd fs pkg schema_search_order name = true -> lookup fs pkg cwd1 name = lookup fs pkg cwd2 name.
Proof. exact lookup_cwd. Qed.

(* restricted statement 2: neither working directory holds a file for the name in its cwd-relative search directories *)
Theorem C06_lookup_clean_partial : forall fs pkg name cwd1 cwd2,
  cwd_clean fs pkg schema_search_order cwd1 name = true -> cwd_clean fs pkg schema_search_order cwd2 name = true ->
  lookup fs pkg cwd1 name = lookup fs pkg cwd2 name.
Proof. exact lookup_clean. Qed.

(* the full statement is false of the faithful model: finding C06-cwd-schema-shadow *)
Definition C06_lookup_cwd_full : Prop :=
  forall fs pkg name cwd1 cwd2, lookup fs pkg cwd1 name = lookup fs pkg cwd2 name.

Theorem C06_lookup_cwd_refuted : exists fs pkg name cwd1 cwd2, lookup fs pkg cwd1 name <> lookup fs pkg cwd2 name.
Proof. exact lookup_cwd_refuted. Qed.

Theorem C06_lookup_hypotheses_nonvacuous :
  found_before_cwd example_fs witness_pkg schema_search_order (lit "DEBATE_TRANSCRIPT") = true /\
  lookup example_fs witness_pkg (lit "/work") (lit "DEBATE_TRANSCRIPT") = Some (lit "T").
Proof. exact found_before_cwd_example. Qed.

(* ---- source-text pins (generated by harness/pinsets.py) ---- *)
(* every function of these modules is, text for text (comments and docstrings excluded), the one the models of this
   property were written against and validated against: harness/translate/srcdigest_t.py, Src/Pin_*.v *)
From OV Require Import Gen.SrcDigestGen Src.Pin_mcp_write Src.Pin_mcp_validate Src.Pin_mcp_eject Src.Pin_mcp_compile_grammar Src.Pin_mcp_base_tool Src.Pin_core_routing Src.Pin_core_validator Src.Pin_schemas_loader.
Theorem C06_pin_source_text :
  src_mcp_write_pinned /\ src_mcp_validate_pinned /\ src_mcp_eject_pinned /\ src_mcp_compile_grammar_pinned /\ src_mcp_base_tool_pinned /\ src_core_routing_pinned /\ src_core_validator_pinned /\ src_schemas_loader_pinned.
Proof. exact (conj src_mcp_write_pinned_ok (conj src_mcp_validate_pinned_ok (conj src_mcp_eject_pinned_ok (conj src_mcp_compile_grammar_pinned_ok (conj src_mcp_base_tool_pinned_ok (conj src_core_routing_pinned_ok (conj src_core_validator_pinned_ok src_schemas_loader_pinned_ok))))))). Qed.
