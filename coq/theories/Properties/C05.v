(* C05 -- literal zones pass through every pipeline byte-for-byte.  ONLY statements closed by `exact`.
 *)
From OV Require Import Base.Strs Lex.Lexer Syn.Ast Syn.Parser Syn.Emitter Rt.Zones Rt.ZonesRt Rt.ZonesEx.
Require Coq.Strings.String.
Import Coq.Strings.String.StringSyntax.
Open Scope N_scope.

(* 1. fence pre-pass: for EVERY list of (raw, nfc) pairs, i.e. every NFC oracle *)
Theorem C05_fence_scan_verbatim :
  forall cls (lines : list (str * str)) outs spans,
    fence_scan cls lines 1 0 None [] [] = inr (outs, spans) ->
    outs = scan_lines cls lines None /\
    map (fun sp => (sp_marker sp, sp_tag sp, span_text (join [c_nl] outs) sp)) spans =
    map (fun z => (z_marker z, z_tag z, join [c_nl] (z_open z :: z_raws z ++ [z_close z]))) (zones_of_lines cls lines).
Proof. exact fence_scan_verbatim. Qed.

Theorem C05_fence_scan_lines :
  forall cls (lines : list (str * str)) outs spans,
    fence_scan cls lines 1 0 None [] [] = inr (outs, spans) ->
    outs = scan_lines cls lines None /\ Forall2 (span_ok outs) spans (zones_of_lines cls lines).
Proof. exact fence_scan_lines. Qed.

Theorem C05_zones_of_lines_are_raw :
  forall cls lines z, In z (zones_of_lines cls lines) ->
    exists ro rc mids,
      firstn (2 + length (z_raws z)) (skipn (z_idx z) lines) = (ro, z_open z) :: mids ++ [(rc, z_close z)] /\
      map fst mids = z_raws z.
Proof. exact zones_of_lines_are_raw. Qed.

(* the zone contents depend on the RAW lines only: any two oracles give the same zones *)
Theorem C05_zones_oracle_independent :
  forall cls lines1 lines2,
    map fst lines1 = map fst lines2 ->
    map zview (zones_of_lines cls lines1) = map zview (zones_of_lines cls lines2).
Proof. exact zones_oracle_independent. Qed.

(* 2. tabs *)
Theorem C05_tab_exempt :
  forall s spans,
    (tab_check s 0 1 1 spans = None <->
     forall k, (k < length s)%nat -> nth k s 0 = c_tab -> in_spans (N.of_nat k) spans = true) /\
    (forall l c, tab_check s 0 1 1 spans = Some (l, c) ->
       exists p r, s = p ++ c_tab :: r /\ in_spans (len p) spans = false /\
                   (forall k, (k < length p)%nat -> nth k p 0 = c_tab -> in_spans (N.of_nat k) spans = true) /\
                   (l, c) = pos_after p 1 1).
Proof. exact tab_exempt. Qed.

(* 3. the lexer at a span start *)
Theorem C05_step_fence_content :
  forall st sp spans' o mid c rest,
    memb c_nl o = false -> memb c_nl c = false ->
    ls_in st = join [c_nl] (o :: mid ++ [c]) ++ rest ->
    sp_end sp - sp_start sp = len (join [c_nl] (o :: mid ++ [c])) ->
    let line := ls_line st in
    let close_line := line + 1 + mid_count mid in
    let t1 := mkTok FENCE_OPEN (TVFence (sp_marker sp) (sp_tag sp)) line (ls_col st) None in
    let t2 := mkTok LITERAL_CONTENT (TVText (join [c_nl] mid)) (line + 1) 1 None in
    let t3 := mkTok FENCE_CLOSE (TVText (sp_marker sp)) close_line 1 None in
    step_fence st sp spans' =
    match rest with
    | nl :: rest' =>
        Continue (mkLS rest' (Some nl) (sp_end sp + 1) (close_line + 1) 1
                       (mkTok NEWLINE (TVText [c_nl]) close_line (len c + 1) None :: t3 :: t2 :: t1 :: ls_toks st)
                       (ls_reps st) (ls_brk st) spans')
    | [] =>
        Continue (mkLS [] (last_chr (join [c_nl] (o :: mid ++ [c]))) (sp_end sp) (close_line + 1) 1
                       (t3 :: t2 :: t1 :: ls_toks st) (ls_reps st) (ls_brk st) spans')
    end.
Proof. exact step_fence_content. Qed.

Theorem C05_step_fence_content_text :
  forall st sp spans' o content c rest,
    memb c_nl o = false -> memb c_nl c = false ->
    ls_in st = o ++ c_nl :: content ++ c_nl :: c ++ rest ->
    sp_end sp - sp_start sp = len (o ++ c_nl :: content ++ c_nl :: c) ->
    exists st', step_fence st sp spans' = Continue st' /\
      ls_in st' = tl rest /\ ls_spans st' = spans' /\
      exists extra, ls_toks st' = extra ++
        [mkTok FENCE_CLOSE (TVText (sp_marker sp)) (ls_line st + 1 + N.of_nat (length (split_on c_nl content))) 1 None;
         mkTok LITERAL_CONTENT (TVText content) (ls_line st + 1) 1 None;
         mkTok FENCE_OPEN (TVFence (sp_marker sp) (sp_tag sp)) (ls_line st) (ls_col st) None] ++ ls_toks st.
Proof. exact step_fence_content_text. Qed.

Theorem C05_step_fence_empty_zone :
  forall st sp spans' o c rest,
    memb c_nl o = false -> memb c_nl c = false ->
    ls_in st = o ++ c_nl :: c ++ rest ->
    sp_end sp - sp_start sp = len (o ++ c_nl :: c) ->
    exists st', step_fence st sp spans' = Continue st' /\ ls_in st' = tl rest /\
      exists extra, ls_toks st' = extra ++
        [mkTok FENCE_CLOSE (TVText (sp_marker sp)) (ls_line st + 1) 1 None;
         mkTok LITERAL_CONTENT (TVText []) (ls_line st + 1) 1 None;
         mkTok FENCE_OPEN (TVFence (sp_marker sp) (sp_tag sp)) (ls_line st) (ls_col st) None] ++ ls_toks st.
Proof. exact step_fence_empty_zone. Qed.

(* 1 + 3 for ALL inputs: at the start of every recorded span the lexer emits FENCE_OPEN(marker, tag),
   LITERAL_CONTENT(raw zone lines joined by newline), FENCE_CLOSE *)
Theorem C05_lexer_zone_content_raw :
  forall cls (lines : list (str * str)) outs spans,
    fence_scan cls lines 1 0 None [] [] = inr (outs, spans) ->
    Forall2 (fun sp z =>
      sp_marker sp = z_marker z /\ sp_tag sp = z_tag z /\
      forall st spans',
        ls_in st = skipn (N.to_nat (sp_start sp)) (join [c_nl] outs) ->
        memb c_nl (z_open z) = false -> memb c_nl (z_close z) = false ->
        exists st' extra,
          step_fence st sp spans' = Continue st' /\ ls_spans st' = spans' /\
          ls_toks st' = extra ++
            [mkTok FENCE_CLOSE (TVText (z_marker z)) (ls_line st + 1 + mid_count (z_raws z)) 1 None;
             mkTok LITERAL_CONTENT (TVText (join [c_nl] (z_raws z))) (ls_line st + 1) 1 None;
             mkTok FENCE_OPEN (TVFence (z_marker z) (z_tag z)) (ls_line st) (ls_col st) None] ++ ls_toks st)
      spans (zones_of_lines cls lines).
Proof. exact lexer_zone_content_raw. Qed.

(* 4. the parser on the zone tokens *)
Theorem C05_parse_zone_tokens :
  forall sp st tO tC tX nxt rest marker tag c,
    ptoks st = tO :: tC :: tX :: nxt :: rest ->
    tk tO = FENCE_OPEN -> tv tO = TVFence marker tag ->
    tk tC = LITERAL_CONTENT -> tv tC = TVText c ->
    tk tX = FENCE_CLOSE ->
    parse_literal_zone sp st = POk (VZone c (norm_tag sp tag) marker) (Parser.adv (Parser.adv (Parser.adv st))) /\
    ptoks (Parser.adv (Parser.adv (Parser.adv st))) = nxt :: rest.
Proof. exact parse_zone_tokens. Qed.

Theorem C05_parse_zone_tokens_nocontent :
  forall sp st tO tX nxt rest marker tag,
    ptoks st = tO :: tX :: nxt :: rest ->
    tk tO = FENCE_OPEN -> tv tO = TVFence marker tag -> tk tX = FENCE_CLOSE ->
    parse_literal_zone sp st = POk (VZone [] (norm_tag sp tag) marker) (Parser.adv (Parser.adv st)) /\
    ptoks (Parser.adv (Parser.adv st)) = nxt :: rest.
Proof. exact parse_zone_tokens_nocontent. Qed.

Theorem C05_parse_zone_tokens_emptycontent :
  forall sp st tO tC tX nxt rest marker tag,
    ptoks st = tO :: tC :: tX :: nxt :: rest ->
    tk tO = FENCE_OPEN -> tv tO = TVFence marker tag ->
    tk tC = LITERAL_CONTENT -> tv tC = TVText [] -> tk tX = FENCE_CLOSE ->
    parse_literal_zone sp st = POk (VZone [] (norm_tag sp tag) marker) (Parser.adv (Parser.adv (Parser.adv st))).
Proof. exact parse_zone_tokens_emptycontent. Qed.

Theorem C05_parse_zone_tokens_unterminated :
  forall sp st tO marker tag,
    cur st = tO -> tk tO = FENCE_OPEN -> tv tO = TVFence marker tag ->
    (let st1 := Parser.adv st in
     let st2 := if is LITERAL_CONTENT st1 then Parser.adv st1 else st1 in
     is FENCE_CLOSE st2 = false) ->
    parse_literal_zone sp st = PErr e006p (tline tO) (tcol tO).
Proof. exact parse_zone_tokens_unterminated. Qed.

(* 5. the emitter *)
Theorem C05_emit_zone_lines_verbatim :
  forall key content tag marker leading trailing n,
    emit_assignment_lines key (VZone content tag marker) leading trailing n =
    emit_leading leading n ++
    (ind n ++ key ++ s_assign) ::
    match content with
    | [] => [ind n ++ marker ++ tag_str tag; ind n ++ marker]
    | _ => [ind n ++ marker ++ tag_str tag; content; ind n ++ marker]
    end.
Proof. exact emit_zone_lines_verbatim. Qed.

Theorem C05_emit_bare_zone_lines_verbatim :
  forall key target pre content tag marker zl zt post leading n,
    emit_node_lines (NBlock key target (pre ++ NAssign [] (VZone content tag marker) zl zt :: post) leading) n =
    (emit_leading leading n ++
     [ind n ++ key ++ (match truthy target with Some t => [c_lbr; 8594; 167] ++ t ++ [c_rbr] | None => [] end) ++ [c_colon]] ++
     flat_map (child_lines n) pre) ++
    match content with
    | [] => [ind (S n) ++ marker ++ tag_str tag; ind (S n) ++ marker]
    | _ => [ind (S n) ++ marker ++ tag_str tag; content; ind (S n) ++ marker]
    end ++ flat_map (child_lines n) post.
Proof. exact emit_bare_zone_lines_verbatim. Qed.

Theorem C05_emit_zone_text_verbatim :
  forall key content tag marker leading trailing n (pre post : list str),
    content <> [] ->
    join [c_nl] (pre ++ emit_assignment_lines key (VZone content tag marker) leading trailing n ++ post) =
    (nlcat (pre ++ emit_leading leading n ++ [ind n ++ key ++ s_assign]) ++ (ind n ++ marker ++ tag_str tag) ++ [c_nl])
    ++ content ++
    (c_nl :: join [c_nl] ((ind n ++ marker) :: post)).
Proof. exact emit_zone_text_verbatim. Qed.

Theorem C05_emit_zone_text_empty :
  forall key tag marker leading trailing n (pre post : list str),
    join [c_nl] (pre ++ emit_assignment_lines key (VZone [] tag marker) leading trailing n ++ post) =
    nlcat (pre ++ emit_leading leading n ++ [ind n ++ key ++ s_assign]) ++ (ind n ++ marker ++ tag_str tag) ++
    c_nl :: join [c_nl] ((ind n ++ marker) :: post).
Proof. exact emit_zone_text_empty. Qed.

(* 6. the composition: emit -> lines -> fence pre-pass -> tab check -> lexer -> parser *)
Theorem C05_tokenize_zone_doc :
  forall cls nfcf name key content tag marker,
    name_ok name = true -> key_ok key = true -> zone_ok marker content = true -> tag_ok cls tag = true ->
    (forall l, In l (fixed_lines name key tag marker) -> nfcf l = l) ->
    exists toks,
      tokenize cls false (map (fun l => (l, nfcf l)) (zone_doc_lines name key content tag marker)) = LexOk toks (lex_reps key) /\
      map (fun t => (tk t, tv t)) toks = zone_doc_shape name key content tag marker.
Proof. exact tokenize_zone_doc. Qed.

Theorem C05_zone_roundtrip :
  forall cls numcanon holo strict nfcf name key content tag marker,
    name_ok name = true -> key_ok key = true -> zone_ok marker content = true -> tag_ok cls tag = true ->
    (forall l, In l (fixed_lines name key tag marker) -> nfcf l = l) ->
    parse_model cls numcanon holo strict
      (lines_of_raw_nfc nfcf (emit (u_space cls) (zone_doc name key content tag marker))) =
    PRDoc (zone_doc name key content tag marker) (lex_reps key) [].
Proof. exact zone_roundtrip. Qed.

Theorem C05_zone_roundtrip_ascii :
  forall cls numcanon holo strict nfcf name key content tag marker,
    name_ok name = true -> key_ok key = true -> zone_ok marker content = true -> tag_ok cls tag = true ->
    forallb is_ascii (tag_str tag) = true ->
    (forall l, forallb is_ascii l = true -> nfcf l = l) ->
    parse_model cls numcanon holo strict
      (lines_of_raw_nfc nfcf (emit (u_space cls) (zone_doc name key content tag marker))) =
    PRDoc (zone_doc name key content tag marker) (lex_reps key) [].
Proof. exact zone_roundtrip_ascii. Qed.

(* the statement without the content-line condition, and its refutation *)
Definition C05_zone_roundtrip_full : Prop :=
  forall cls numcanon holo strict nfcf name key content tag marker,
    name_ok name = true -> key_ok key = true -> marker_ok marker = true -> tag_ok cls tag = true ->
    (forall l, In l (fixed_lines name key tag marker) -> nfcf l = l) ->
    parse_model cls numcanon holo strict (lines_of_raw_nfc nfcf (emit (u_space cls) (zone_doc name key content tag marker))) =
    PRDoc (zone_doc name key content tag marker) (lex_reps key) [].

Theorem C05_zone_roundtrip_full_refuted : ~ C05_zone_roundtrip_full.
Proof. exact zone_roundtrip_full_refuted. Qed.

Theorem C05_zone_roundtrip_refuted_early_close :
  exists content,
    zone_ok bt3 content = false /\
    pipeline id_oracle (zone_doc (lit "DOC") (lit "KEY") content None bt3) =
    PRDoc (zone_doc (lit "DOC") (lit "KEY") (lit "a") None bt3) [] [].
Proof. exact zone_roundtrip_refuted_early_close. Qed.

Theorem C05_zone_roundtrip_refuted_unterminated :
  exists content,
    zone_ok bt3 content = false /\
    pipeline id_oracle (zone_doc (lit "DOC") (lit "KEY") content None bt3) = PRLexErr (lit "E006") 5 1.
Proof. exact zone_roundtrip_refuted_unterminated. Qed.

Theorem C05_zone_roundtrip_refuted_nested :
  exists content,
    zone_ok bt3 content = false /\
    pipeline id_oracle (zone_doc (lit "DOC") (lit "KEY") content None bt3) = PRLexErr (lit "E007") 4 1.
Proof. exact zone_roundtrip_refuted_nested. Qed.

Theorem C05_tag_ok_refuted_empty :
  tag_ok cls0 (Some []) = false /\
  pipeline id_oracle (zone_doc (lit "DOC") (lit "KEY") (lit "x") (Some []) bt3) =
  PRDoc (zone_doc (lit "DOC") (lit "KEY") (lit "x") None bt3) [] [].
Proof. exact tag_ok_refuted_empty. Qed.

Theorem C05_tag_ok_refuted_padded :
  tag_ok cls0 (Some (lit " py")) = false /\
  pipeline id_oracle (zone_doc (lit "DOC") (lit "KEY") (lit "x") (Some (lit " py")) bt3) =
  PRDoc (zone_doc (lit "DOC") (lit "KEY") (lit "x") (Some (lit "py")) bt3) [] [].
Proof. exact tag_ok_refuted_padded. Qed.

(* the empty zone *)
Theorem C05_empty_zone_roundtrip :
  forall cls numcanon holo strict nfcf name key tag marker,
    name_ok name = true -> key_ok key = true -> marker_ok marker = true -> tag_ok cls tag = true ->
    (forall l, In l (fixed_lines name key tag marker) -> nfcf l = l) ->
    parse_model cls numcanon holo strict (lines_of_raw_nfc nfcf (emit (u_space cls) (zone_doc name key [] tag marker))) =
    PRDoc (zone_doc name key [] tag marker) (lex_reps key) [].
Proof. exact empty_zone_roundtrip. Qed.

Theorem C05_empty_zone_distinct :
  forall cls numcanon holo strict nfcf name key tag marker,
    name_ok name = true -> key_ok key = true -> marker_ok marker = true -> tag_ok cls tag = true ->
    (forall l, In l (fixed_lines name key tag marker) -> nfcf l = l) ->
    forall v, v = VAbsent \/ v = VStr [] ->
      exists d reps warns,
        parse_model cls numcanon holo strict (lines_of_raw_nfc nfcf (emit (u_space cls) (zone_doc name key [] tag marker))) =
        PRDoc d reps warns /\
        dsections d = [NAssign key (VZone [] tag marker) [] None] /\
        dsections d <> [NAssign key v [] None].
Proof. exact empty_zone_distinct. Qed.

Theorem C05_empty_zone_example :
  pipeline id_oracle (doc_with (VZone [] None bt3)) = PRDoc (doc_with (VZone [] None bt3)) [] [] /\
  pipeline id_oracle (doc_with (VStr [])) = PRDoc (doc_with (VStr [])) [] [] /\
  pipeline id_oracle (doc_with VAbsent) = PRDoc (mkDoc (lit "DOC") None None false [] [] []) [] [].
Proof. exact empty_zone_example. Qed.

(* 7. non-vacuity: TAB, NFD pair under an oracle that changes it, ===END===, ::, ->, ---, shorter backtick runs *)
Theorem C05_example_hostile_content :
  zone_ok bt3 ex_content = true /\
  nfc_toy (lit "caf" ++ nfd_e) <> lit "caf" ++ nfd_e /\
  pipeline nfc_toy ex_doc = PRDoc ex_doc [] [].
Proof. exact (conj ex_zone_ok (conj ex_oracle_differs ex_roundtrip_by_theorem)). Qed.

Theorem C05_example_raw_inside_nfc_outside :
  fence_scan cls0 ex_lines 1 0 None [] [] =
  inr ([lit "caf" ++ [233]; bt3; lit "caf" ++ nfd_e; lit "a" ++ [c_tab] ++ lit "b"; bt3], [mkSpan 5 22 bt3 None]).
Proof. exact ex_scan_raw_inside_nfc_outside. Qed.

(* ---- tie to the current source text ---- *)
From OV Require Import Lex.Pins_Lexer Gen.LexerGen.

Theorem C05_pin_fence :
  lexer_fence_pattern = pinned_lexer_fence_pattern /\ lexer_token_patterns = pinned_lexer_token_patterns.
Proof. exact (conj pin_lexer_fence_pattern pin_lexer_token_patterns). Qed.

(* ---- ZONES NEXT TO ANY OTHER NODE, EVERY DEPTH (parser half, Rt/TokRoundZ*.v) ----------------------------------------------
   corez = core2 documents whose assignments may also carry a keyed literal zone, at top level, in blocks and sections, first /
   middle / last child, several per body.  From the token shape the lexer produces for the emitter's text (no INDENT on fence
   lines; FENCE_OPEN with marker and tag, LITERAL_CONTENT with the raw content -- an ARBITRARY string, no condition at parser
   level --, FENCE_CLOSE) the parser returns the document with content, tag and marker verbatim and no warning for the zone.
   The extracted shape check implies the text-level round trip (C05_corez_shape_check_sound). *)
From OV Require Rt.TokRound Rt.TokRound2 Rt.TokRound2Ex Rt.LexLinkBase Rt.TokRoundZ Rt.TokRoundZEx.
Theorem C05_zones_with_siblings_readback_all_depths :
  forall numcanon holo_ok strict sp alpha ml idnum d,
    TokRoundZ.corez_doc d = true -> TokRoundZ.nums_ok2_l numcanon sp idnum (dsections d) -> Forall (TokRoundZ.field_num_ok numcanon) (dmeta d) ->
    forall st0 ts tail, tail <> [] -> pbdepth st0 = 0%N -> Forall2 TokRound.tmatch ts (TokRoundZ.docz_sh ml idnum d) -> ptoks st0 = ts ++ tail ->
    exists st', parse_document numcanon holo_ok strict sp alpha st0 = POk d st' /\ TokRoundZ.wext2 st0 st'.
Proof. exact TokRoundZ.parse_corez_doc. Qed.

Theorem C05_corez_shape_check_sound :
  forall cls numcanon holo_ok strict d text,
    TokRoundZEx.corez_shape_check cls d (LexLinkBase.lines_of text) = 1%N ->
    TokRoundZ.nums_ok2_l numcanon (u_space cls) TokRound2Ex.ex_idnum (dsections d) -> Forall (TokRoundZ.field_num_ok numcanon) (dmeta d) ->
    strip_frontmatter (u_space cls) (LexLinkBase.lines_of text) = (LexLinkBase.lines_of text, None) ->
    exists warns, parse_model cls numcanon holo_ok strict (LexLinkBase.lines_of text) = PRDoc d [] warns /\ Forall TokRound.advisory warns.
Proof. exact TokRoundZEx.corez_shape_check_sound. Qed.

(* non-vacuity: depth 3, five zones (empty, tagged, hostile content with K::v / ===END=== / shorter backtick runs / tabs /
   trailing blanks, a 5-backtick marker, content ending in a newline) next to comments, blocks and a section: the reader
   model returns the document from the emitted text *)
Theorem C05_zones_with_siblings_nonvacuous : TokRoundZEx.rtz TokRoundZEx.exz.
Proof. exact TokRoundZEx.exz_roundtrip. Qed.

(* ---- ZONES NEXT TO SIBLINGS, TEXT LEVEL (lexer half Rt/LexLinkZ*.v) ---------------------------------------------------------
   For every corez document (keyed zones at any depth next to any other core2 node, several per body) with zone_ok markers /
   content (no content line that closes or over-runs the fence) and normalised tags, the whole reader model -- fence
   pre-pass with ANY NFC oracle that fixes the ordinary and the fence lines (arbitrary on zone content), tab check, lexer
   with its span bookkeeping, parser -- returns the document from the emitted text: every zone comes back byte for byte
   (content, tag, marker) together with all its siblings.  Zone content is otherwise arbitrary (tabs, NFD text, operators,
   K::v, ===END===, shorter backtick runs). *)
From OV Require Rt.LexLinkZPos Rt.LexLinkZText Rt.LexLinkZ Rt.LexLinkZEx.
Theorem C05_text_roundtrip_corez :
  forall cls numcanon holo_ok strict sp d,
    TokRoundZ.corez_doc d = true -> LexLinkZText.lex_safez_doc cls d = true ->
    TokRoundZ.nums_ok2_l numcanon (u_space cls) TokRound2Ex.ex_idnum (dsections d) -> Forall (TokRoundZ.field_num_ok numcanon) (dmeta d) ->
    exists warns, parse_model cls numcanon holo_ok strict (LexLinkBase.lines_of (emit sp d)) = PRDoc d [] warns /\ Forall TokRound.advisory warns.
Proof. exact LexLinkZ.text_roundtrip_corez. Qed.

Theorem C05_lex_emit_corez_any_nfc_oracle :
  forall cls (nf : str -> str) sp d,
    TokRoundZ.corez_doc d = true -> LexLinkZText.lex_safez_doc cls d = true ->
    Forall (LexLinkZText.blk_fixed nf) (LexLinkZText.doc_blocks d) -> nf [] = [] ->
    exists ts tnl teof,
      tokenize cls false (map (fun l => (l, nf l)) (split_on c_nl (emit sp d))) = LexOk (ts ++ [tnl; teof]) [] /\
      Forall2 TokRound.tmatch ts (TokRoundZ.docz_sh needs_multiline TokRound2Ex.ex_idnum d) /\ tk tnl = NEWLINE /\ tk teof = EOF.
Proof. exact LexLinkZ.lex_emit_corez_nfc. Qed.

Theorem C05_shape_check_corez_complete :
  forall cls sp d, TokRoundZ.corez_doc d = true -> LexLinkZText.lex_safez_doc cls d = true ->
    TokRoundZEx.corez_shape_check cls d (LexLinkBase.lines_of (emit sp d)) = 1%N.
Proof. exact LexLinkZ.shape_check_corez. Qed.

Theorem C05_lex_emit_corez_full_refuted : ~ LexLinkZEx.lex_emit_corez_full.
Proof. exact LexLinkZEx.lex_emit_corez_full_refuted. Qed.

Theorem C05_text_roundtrip_corez_nonvacuous :
  LexLinkZText.lex_safez_doc TokRoundEx.ex_cls TokRoundZEx.exz = true /\ LexLinkZText.lex_safez_doc TokRoundEx.ex_cls TokRoundZEx.exz2 = true.
Proof. exact LexLinkZEx.exz_safe. Qed.

(* ---- source-text pins (generated by harness/pinsets.py) ---- *)
(* every function of these modules is, text for text (comments and docstrings excluded), the one the models of this
   property were written against and validated against: harness/translate/srcdigest_t.py, Src/Pin_*.v *)
From OV Require Import Gen.SrcDigestGen Src.Pin_core_lexer Src.Pin_core_parser Src.Pin_core_emitter Src.Pin_core_ast_nodes Src.Pin_mcp_write Src.Pin_mcp_eject Src.Pin_mcp_validate Src.Pin_core_projector Src.Pin_core_repair.
Theorem C05_pin_source_text :
  src_core_lexer_pinned /\ src_core_parser_pinned /\ src_core_emitter_pinned /\ src_core_ast_nodes_pinned /\ src_mcp_write_pinned /\ src_mcp_eject_pinned /\ src_mcp_validate_pinned /\ src_core_projector_pinned /\ src_core_repair_pinned.
Proof. exact (conj src_core_lexer_pinned_ok (conj src_core_parser_pinned_ok (conj src_core_emitter_pinned_ok (conj src_core_ast_nodes_pinned_ok (conj src_mcp_write_pinned_ok (conj src_mcp_eject_pinned_ok (conj src_mcp_validate_pinned_ok (conj src_core_projector_pinned_ok src_core_repair_pinned_ok)))))))). Qed.
