(* C05 -- literal zones pass through byte-for-byte. *)
From OV Require Import Base.Strs Lex.Pins_Lexer Gen.LexerGen.

Theorem C05_pin_fence :
  lexer_fence_pattern = pinned_lexer_fence_pattern /\ lexer_token_patterns = pinned_lexer_token_patterns.
Proof. exact (conj pin_lexer_fence_pattern pin_lexer_token_patterns). Qed.
