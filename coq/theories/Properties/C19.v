(* C19 -- tools cannot be steered outside the intended files.  ONLY statements closed by `exact`. *)
From OV Require Import Base.Strs Path.FsTree Path.Realpath Path.PathCheck Path.PathPins Gen.PathsGen.

(* the three validators of the current source have all three checks (orders: translator) and the lstat-only
   link test `current.is_symlink()` (repo fix 039cc0c; which test the source uses is read by the translator) *)
Theorem C19_validators_wf : cfg_wf cfg_write = true /\ cfg_wf cfg_validate = true /\ cfg_wf cfg_fileops = true.
Proof. exact (conj cfg_write_wf (conj cfg_validate_wf cfg_fileops_wf)). Qed.

(* the order of checks / tests / constants the model was written against *)
Theorem C19_pin_orders :
  v_kinds cfg_write = [1; 2; 3]%N /\ v_kinds cfg_validate = [2; 1; 3]%N /\ v_kinds cfg_fileops = [1; 2; 3]%N.
Proof. exact (conj pin_order_write (conj pin_order_validate pin_order_fileops)). Qed.

Theorem C19_pin_tests :
  paths_symlink_inner_write = t_inner /\ paths_symlink_inner_validate = t_inner /\ paths_symlink_inner_fileops = t_inner
  /\ paths_late_recheck_write = t_late /\ paths_late_recheck_fileops = t_late.
Proof. exact pin_inner_tests. Qed.

(* the five link tests (walk of the three validators, late re-check of the two writers) do not require exists() *)
Theorem C19_pin_link_tests_lstat_only :
  v_req_exists cfg_write = false /\ v_req_exists cfg_validate = false /\ v_req_exists cfg_fileops = false /\
  paths_late_requires_exists_write = false /\ paths_late_requires_exists_fileops = false.
Proof. exact pin_link_tests_lstat_only. Qed.

Theorem C19_pin_patterns :
  paths_schema_name_pattern = t_schema_pattern /\ paths_frozen_regex = t_frozen_regex /\ paths_frozen_len = 16%N.
Proof. exact (conj pin_schema_pattern (conj (proj1 pin_frozen) (proj2 (proj2 pin_frozen)))). Qed.

(* for ALL trees, working directories and path strings, for every validator with the three checks: *)
Theorem C19_accepted_no_dotdot : forall cfg fs cwd s, cfg_wf cfg = true ->
  validate_path cfg fs cwd s = VOk -> forall c, In c (ptail (pparse s)) -> c <> s_dotdot.
Proof. exact accepted_no_dotdot. Qed.

Theorem C19_accepted_ext : forall cfg fs cwd s, cfg_wf cfg = true ->
  validate_path cfg fs cwd s = VOk ->
  exists stem e, stem <> [] /\ In e (v_allowed cfg) /\ pname (pparse s) = stem ++ e.
Proof. exact accepted_ext. Qed.

(* resolve() returns a path none of whose prefixes is a link *)
Theorem C19_realpath_real : forall fs fuel acc rest r, real fs acc -> realpath fuel fs acc rest = ROk r -> real fs r.
Proof. exact realpath_real. Qed.

(* EVERY component of an accepted path that lstat reports as a symbolic link -- dangling, un-stat-able or live --
   is a carve-out link (first component, resolving below /private/); no exception for links whose target is absent *)
Theorem C19_accepted_no_symlink : forall cfg fs cwd s, cfg_wf cfg = true ->
  validate_path cfg fs cwd s = VOk ->
  forall q, In q (inits1 (abs_tail cwd s)) -> p_is_symlink fs q = true ->
    exists r, resolve fs q = ResOk r /\ carve_ok cfg q r = true.
Proof. exact accepted_no_symlink. Qed.

(* unconditionally: beyond the carve-out depth (from the second component on) no component is a link *)
Theorem C19_accepted_no_symlink_beyond_depth : forall cfg fs cwd s, cfg_wf cfg = true ->
  validate_path cfg fs cwd s = VOk ->
  forall q, In q (inits1 (abs_tail cwd s)) -> (v_depth cfg < N.of_nat (length q) + 1)%N -> p_is_symlink fs q = false.
Proof. exact accepted_no_symlink_beyond_depth. Qed.

(* the text's conclusion under the single remaining hypothesis (no /private/ carve-out link on the path) *)
Theorem C19_accepted_no_symlink_wf : forall cfg fs cwd s, cfg_wf cfg = true ->
  no_carveout cfg fs (abs_tail cwd s) ->
  validate_path cfg fs cwd s = VOk ->
  forall q, In q (inits1 (abs_tail cwd s)) -> p_is_symlink fs q = false.
Proof. exact accepted_no_symlink_wf. Qed.

(* the statement of the property text, without the carve-out: false of the faithful model -- the carve-out is the only
   refutation left (the dangling-link refutation fell with repo fix 039cc0c) *)
Definition C19_full : Prop := no_symlink_full cfg_write.
Theorem C19_full_refuted_carveout : ~ C19_full.
Proof. exact no_symlink_full_refuted_carveout. Qed.

(* regression for 039cc0c, by computation on the generated configurations: a dangling link as last component, a
   dangling link as directory component and an ENOTDIR link are links for lstat, do not exist for stat, and are
   refused at the symlink check by all three validators; the late re-checks would fire too *)
Theorem C19_dangling_refused :
  p_is_symlink w_fs_dangling [w_sb; w_dang] = true /\ p_exists w_fs_dangling [w_sb; w_dang] = ExFalse /\
  p_is_symlink w_fs_dangling [w_sb; w_dangd] = true /\ p_exists w_fs_dangling [w_sb; w_dangd] = ExFalse /\
  all_refuse_symlink w_fs_dangling w_path_dangling = true /\
  all_refuse_symlink w_fs_dangling w_path_dangling_dir = true /\
  all_refuse_symlink w_fs_dangling w_path_enotdir = true /\
  late_recheck_write w_fs_dangling [] w_path_dangling = ExTrue /\
  late_recheck_fileops w_fs_dangling [] w_path_dangling = ExTrue.
Proof. exact dangling_refused. Qed.

(* the boolean read by the translator matters: the same model with the pre-fix test accepts both dangling paths *)
Theorem C19_old_link_test_accepts_dangling :
  validate_path (cfg_old_test cfg_write) w_fs_dangling [] w_path_dangling = VOk /\
  validate_path (cfg_old_test cfg_write) w_fs_dangling [] w_path_dangling_dir = VOk /\
  p_is_symlink w_fs_dangling [w_sb; w_dang] = true /\ p_exists w_fs_dangling [w_sb; w_dang] = ExFalse /\
  late_recheck_gen true w_fs_dangling [] w_path_dangling = ExFalse.
Proof. exact old_test_accepts_dangling. Qed.

Theorem C19_wf_nonvacuous :
  validate_write w_fs_live [] w_path_live = VOk /\
  forallb (fun q => negb (p_is_symlink w_fs_live q)) (inits1 (abs_tail [] w_path_live)) = true /\
  validate_write w_fs_live [] [47;115;98;47;108;110;107;100;47;120;46;109;100]%N = VRefuse RSymlink.
Proof. exact wf_hypotheses_satisfiable. Qed.

(* the late re-check (with either link test) can only fire on a carve-out link once validation accepted *)
Theorem C19_late_recheck_only_carveout : forall cfg b fs cwd s, cfg_wf cfg = true ->
  validate_path cfg fs cwd s = VOk -> late_recheck_gen b fs cwd s = ExTrue -> abs_tail cwd s <> [] ->
  exists r, resolve fs (abs_tail cwd s) = ResOk r /\ carve_ok cfg (abs_tail cwd s) r = true.
Proof. exact late_recheck_only_carveout. Qed.

(* refusal precedes every file-system call site of the four entry points (call-site order: translator) *)
Theorem C19_refused_before_io : forall fs cwd s,
  (validate_write fs cwd s <> VOk -> trace_write fs cwd s = []) /\
  (validate_validate fs cwd s <> VOk -> trace_validate fs cwd s = []) /\
  (validate_fileops fs cwd s <> VOk -> trace_fileops fs cwd s = [] /\ trace_cli fs cwd s = []).
Proof. exact refused_before_io. Qed.

(* schema names, including NAME"\n" *)
Theorem C19_schema_name_confined : forall name dir f, name_ok name = true -> In f (schema_files name) ->
  schema_candidate dir f = mkpp 1 (dir ++ [f]) /\ memb c_slash f = false /\ f <> s_dotdot /\ f <> s_dot.
Proof. exact schema_name_confined. Qed.
Theorem C19_schema_trailing_newline_accepted :
  name_ok [77;69;84;65;10]%N = true /\ forallb is_name_char [77;69;84;65;10]%N = false.
Proof. exact name_ok_trailing_newline. Qed.

(* frozen@sha256 (H = SHA-256 oracle) *)
Theorem C19_frozen_confined : forall (H : str -> str) fs cache ref p, resolve_frozen H fs cache ref = Some p ->
  exists d f b, parse_frozen ref = Some d /\ p = cache ++ [f] /\ memb c_slash f = false /\ f <> s_dotdot /\
                p_read fs p = Some b /\ H b = map to_lower d.
Proof. exact frozen_confined. Qed.

(* source URIs *)
Theorem C19_source_uri_confined : forall fs base uri p, validate_uri fs base uri = UOk p ->
  exists b rest, resolve fs base = ResOk b /\ p = b ++ rest /\ real fs p.
Proof. exact source_uri_confined. Qed.
