(* C19 -- tools cannot be steered outside the intended files.  ONLY statements closed by `exact`. *)
From OV Require Import Base.Strs Path.FsTree Path.Realpath Path.PyRealpath Path.NoLinks Path.PathCheck Path.PathPins Gen.PathsGen.

(* the three validators of the current source have all three checks (orders: translator) and the lstat-only
   link test `current.is_symlink()` (repo fix 039cc0c; which test the source uses is read by the translator) *)
Theorem C19_validators_wf : cfg_wf cfg_write = true /\ cfg_wf cfg_validate = true /\ cfg_wf cfg_fileops = true.
Proof. exact (conj cfg_write_wf (conj cfg_validate_wf cfg_fileops_wf)). Qed.

(* the order of checks / tests / constants the model was written against *)
Theorem C19_pin_orders :
  v_kinds cfg_write = [1; 2; 3]%N /\ v_kinds cfg_validate = [2; 1; 3]%N /\ v_kinds cfg_fileops = [1; 2; 3]%N.
Proof. exact (conj pin_order_write (conj pin_order_validate pin_order_fileops)). Qed.

Theorem C19_pin_tests :
  paths_symlink_inner_write = t_inner /\ paths_symlink_inner_validate = t_inner /\ paths_symlink_inner_fileops = t_inner
  /\ paths_late_recheck_write = t_late /\ paths_late_recheck_fileops = t_late.
Proof. exact pin_inner_tests. Qed.

(* the five link tests (walk of the three validators, late re-check of the two writers) do not require exists() *)
Theorem C19_pin_link_tests_lstat_only :
  v_req_exists cfg_write = false /\ v_req_exists cfg_validate = false /\ v_req_exists cfg_fileops = false /\
  paths_late_requires_exists_write = false /\ paths_late_requires_exists_fileops = false.
Proof. exact pin_link_tests_lstat_only. Qed.

Theorem C19_pin_patterns :
  paths_schema_name_pattern = t_schema_pattern /\ paths_frozen_regex = t_frozen_regex /\ paths_frozen_len = 16%N.
Proof. exact (conj pin_schema_pattern (conj (proj1 pin_frozen) (proj2 (proj2 pin_frozen)))). Qed.

(* for ALL trees, working directories and path strings, for every validator with the three checks: *)
Theorem C19_accepted_no_dotdot : forall cfg fs cwd s, cfg_wf cfg = true ->
  validate_path cfg fs cwd s = VOk -> forall c, In c (ptail (pparse s)) -> c <> s_dotdot.
Proof. exact accepted_no_dotdot. Qed.

Theorem C19_accepted_ext : forall cfg fs cwd s, cfg_wf cfg = true ->
  validate_path cfg fs cwd s = VOk ->
  exists stem e, stem <> [] /\ In e (v_allowed cfg) /\ pname (pparse s) = stem ++ e.
Proof. exact accepted_ext. Qed.

(* resolve() returns a path none of whose prefixes is a link *)
Theorem C19_realpath_real : forall fs fuel acc rest r, real fs acc -> realpath fuel fs acc rest = ROk r -> real fs r.
Proof. exact realpath_real. Qed.

(* EVERY component of an accepted path that lstat reports as a symbolic link -- dangling, un-stat-able or live --
   is a carve-out link (first component, resolving below /private/); no exception for links whose target is absent *)
Theorem C19_accepted_no_symlink : forall cfg fs cwd s, cfg_wf cfg = true ->
  validate_path cfg fs cwd s = VOk ->
  forall q, In q (inits1 (abs_tail cwd s)) -> p_is_symlink fs q = true ->
    exists r, resolve fs q = ResOk r /\ carve_ok cfg q r = true.
Proof. exact accepted_no_symlink. Qed.

(* unconditionally: beyond the carve-out depth (from the second component on) no component is a link *)
Theorem C19_accepted_no_symlink_beyond_depth : forall cfg fs cwd s, cfg_wf cfg = true ->
  validate_path cfg fs cwd s = VOk ->
  forall q, In q (inits1 (abs_tail cwd s)) -> (v_depth cfg < N.of_nat (length q) + 1)%N -> p_is_symlink fs q = false.
Proof. exact accepted_no_symlink_beyond_depth. Qed.

(* the text's conclusion under the single remaining hypothesis (no /private/ carve-out link on the path) *)
Theorem C19_accepted_no_symlink_wf : forall cfg fs cwd s, cfg_wf cfg = true ->
  no_carveout cfg fs (abs_tail cwd s) ->
  validate_path cfg fs cwd s = VOk ->
  forall q, In q (inits1 (abs_tail cwd s)) -> p_is_symlink fs q = false.
Proof. exact accepted_no_symlink_wf. Qed.

(* the statement of the property text, without the carve-out: false of the faithful model -- the carve-out is the only
   refutation left (the dangling-link refutation fell with repo fix 039cc0c) *)
Definition C19_full : Prop := no_symlink_full cfg_write.
Theorem C19_full_refuted_carveout : ~ C19_full.
Proof. exact no_symlink_full_refuted_carveout. Qed.

(* regression for 039cc0c, by computation on the generated configurations: a dangling link as last component, a
   dangling link as directory component and an ENOTDIR link are links for lstat, do not exist for stat, and are
   refused at the symlink check by all three validators; the late re-checks would fire too *)
Theorem C19_dangling_refused :
  p_is_symlink w_fs_dangling [w_sb; w_dang] = true /\ p_exists w_fs_dangling [w_sb; w_dang] = ExFalse /\
  p_is_symlink w_fs_dangling [w_sb; w_dangd] = true /\ p_exists w_fs_dangling [w_sb; w_dangd] = ExFalse /\
  all_refuse_symlink w_fs_dangling w_path_dangling = true /\
  all_refuse_symlink w_fs_dangling w_path_dangling_dir = true /\
  all_refuse_symlink w_fs_dangling w_path_enotdir = true /\
  late_recheck_write w_fs_dangling [] w_path_dangling = ExTrue /\
  late_recheck_fileops w_fs_dangling [] w_path_dangling = ExTrue.
Proof. exact dangling_refused. Qed.

(* the boolean read by the translator matters: the same model with the pre-fix test accepts both dangling paths *)
Theorem C19_old_link_test_accepts_dangling :
  validate_path (cfg_old_test cfg_write) w_fs_dangling [] w_path_dangling = VOk /\
  validate_path (cfg_old_test cfg_write) w_fs_dangling [] w_path_dangling_dir = VOk /\
  p_is_symlink w_fs_dangling [w_sb; w_dang] = true /\ p_exists w_fs_dangling [w_sb; w_dang] = ExFalse /\
  late_recheck_gen true w_fs_dangling [] w_path_dangling = ExFalse.
Proof. exact old_test_accepts_dangling. Qed.

Theorem C19_wf_nonvacuous :
  validate_write w_fs_live [] w_path_live = VOk /\
  forallb (fun q => negb (p_is_symlink w_fs_live q)) (inits1 (abs_tail [] w_path_live)) = true /\
  validate_write w_fs_live [] [47;115;98;47;108;110;107;100;47;120;46;109;100]%N = VRefuse RSymlink.
Proof. exact wf_hypotheses_satisfiable. Qed.

(* the late re-check (with either link test) can only fire on a carve-out link once validation accepted *)
Theorem C19_late_recheck_only_carveout : forall cfg b fs cwd s, cfg_wf cfg = true ->
  validate_path cfg fs cwd s = VOk -> late_recheck_gen b fs cwd s = ExTrue -> abs_tail cwd s <> [] ->
  exists r, resolve fs (abs_tail cwd s) = ResOk r /\ carve_ok cfg (abs_tail cwd s) r = true.
Proof. exact late_recheck_only_carveout. Qed.

(* refusal precedes every file-system call site of the four entry points (call-site order: translator) *)
Theorem C19_refused_before_io : forall fs cwd s,
  (validate_write fs cwd s <> VOk -> trace_write fs cwd s = []) /\
  (validate_validate fs cwd s <> VOk -> trace_validate fs cwd s = []) /\
  (validate_fileops fs cwd s <> VOk -> trace_fileops fs cwd s = [] /\ trace_cli fs cwd s = []).
Proof. exact refused_before_io. Qed.

(* schema names, including NAME"\n" *)
Theorem C19_schema_name_confined : forall name dir f, name_ok name = true -> In f (schema_files name) ->
  schema_candidate dir f = mkpp 1 (dir ++ [f]) /\ memb c_slash f = false /\ f <> s_dotdot /\ f <> s_dot.
Proof. exact schema_name_confined. Qed.
Theorem C19_schema_trailing_newline_accepted :
  name_ok [77;69;84;65;10]%N = true /\ forallb is_name_char [77;69;84;65;10]%N = false.
Proof. exact name_ok_trailing_newline. Qed.

(* frozen@sha256 (H = SHA-256 oracle) *)
Theorem C19_frozen_confined : forall (H : str -> str) fs cache ref p, resolve_frozen H fs cache ref = Some p ->
  exists d f b, parse_frozen ref = Some d /\ p = cache ++ [f] /\ memb c_slash f = false /\ f <> s_dotdot /\
                p_read fs p = Some b /\ H b = map to_lower d.
Proof. exact frozen_confined. Qed.

(* source URIs.  validate_source_uri / _check_single_snapshot: which resolution step the source performs is read by the
   translator (mode 0 resolve() alone, 1 + os.path.realpath, 2 the helper _resolve_without_links; catches = RuntimeError is a
   refusal).  The current source uses the helper at both call sites. *)
Theorem C19_pin_uri_resolution_steps :
  paths_uri_resolution = 2%N /\ paths_uri_catches_runtime = true /\
  paths_stale_resolution = 2%N /\ paths_stale_catches_runtime = true.
Proof. exact pin_uri_resolution_steps. Qed.

(* UNCONDITIONAL, over ANY resolution function R (nothing assumed about it): what the link-free helper lets through is
   below the base, has no link in any component (the path is real), and no prefix is a link for the kernel's lstat *)
Theorem C19_source_uri_confined : forall (R : node -> path -> option path) fs b uri p, validate_uri_any R fs b uri = UOk p ->
  (exists rest, p = b ++ rest) /\ real fs p /\ forall q, In q (inits1 p) -> p_is_symlink fs q = false.
Proof. exact source_uri_confined_any. Qed.
Theorem C19_staleness_confined : forall (R : node -> path -> option path) fs b root uri p, stale_uri_any R fs b root uri = SHashed p ->
  (exists rest, p = root ++ rest) /\ real fs p /\ forall q, In q (inits1 p) -> p_is_symlink fs q = false.
Proof. exact staleness_confined_any. Qed.
(* the lemma behind it: every prefix passes `not is_symlink()` (lstat) ==> no prefix is a link in the tree *)
Theorem C19_nolinks_real : forall fs p, clean p -> nolinks fs p = true -> real fs p.
Proof. exact nolinks_real. Qed.

(* the same for the model the correspondence runs (CPython's realpath, PyRealpath.v) with the generated flags:
   the text's statement, no side condition *)
Definition C19_uri_full : Prop := uri_full paths_uri_resolution paths_uri_catches_runtime.
Theorem C19_uri_full_holds : C19_uri_full.
Proof. exact uri_full_src. Qed.
Theorem C19_staleness_src_real : forall fs base root uri p, stale_uri_src fs base root uri = SHashed p ->
  real fs p /\ forall q, In q (inits1 p) -> p_is_symlink fs q = false.
Proof. exact stale_src_real. Qed.

(* for every mode: accepted => component-wise below the resolved base; complete last resolution => real *)
Theorem C19_source_uri_confined_modes : forall mode catches fs base uri p, validate_uri mode catches fs base uri = UOk p ->
  exists b c rest, resolve_py fs base = PRok b c /\ p = b ++ rest /\
                   (uri_complete mode catches fs base uri = true -> real fs p).
Proof. exact source_uri_confined. Qed.
Theorem C19_stale_confined_modes : forall mode catches fs base root uri p, stale_uri mode catches fs base root uri = SHashed p ->
  exists rt c rest, resolve_py fs root = PRok rt c /\ p = rt ++ rest.
Proof. exact stale_confined. Qed.

(* a complete realpath (CPython algorithm, seen-table included) returns a path none of whose prefixes is a link *)
Theorem C19_pyrealpath_complete_real : forall fs tail q, pyrealpath fs tail = POk q true -> real fs q /\ clean q.
Proof. exact pyrealpath_complete_real. Qed.

(* regression for ea316ac + 3bf4eb7, by computation on the generated flags: cyclic link + `..` + link to an outside file
   (2-link tree), the same through a third link (3-link tree), a bare cycle -- refused by both entry points *)
Theorem C19_uri_cycles_refused :
  validate_uri_src w_fs_cycle [w_sb] w_uri_cycle = URefused /\
  validate_uri_src w_fs_cycle [w_sb] w_uri_cycle2 = URefused /\
  validate_uri_src w_fs_cycle [w_sb] [108;111;111;112;46;109;100]%N = URefused /\
  stale_uri_src w_fs_cycle [w_sb] [w_sb] w_uri_cycle = SError /\
  stale_uri_src w_fs_cycle [w_sb] [w_sb] w_uri_cycle2 = SError /\
  stale_uri_src w_fs_cycle [w_sb] [w_sb] [108;111;111;112;46;109;100]%N = SError.
Proof. exact src_refuses_cycles. Qed.

(* statements about the PRE-FIX resolutions (closed terms, independent of the source): the text's statement was false of
   the one-step resolution (before ea316ac) and of the two-step resolution (ea316ac alone) *)
Theorem C19_one_step_was_wrong : ~ uri_full 0 false.
Proof. exact uri_full_refuted_one_step. Qed.
Theorem C19_two_step_was_wrong : ~ uri_full 1 true.
Proof. exact two_step_was_wrong. Qed.
Theorem C19_uri_one_step_accepted_cycle_dotdot :
  validate_uri 0 false w_fs_cycle [w_sb] w_uri_cycle = UOk [w_sb; w_lf] /\
  uri_complete 0 false w_fs_cycle [w_sb] w_uri_cycle = false /\
  is_link_o (raw w_fs_cycle [w_sb; w_lf]) = true /\
  kstat w_fs_cycle [w_sb; w_lf] = KFound [w_out; [115;101;99;114;101;116;46;109;100]%N] (NFile [83]%N).
Proof. exact one_step_accepts_cycle_dotdot. Qed.
Theorem C19_uri_two_step_accepted_cycle_via_link :
  validate_uri 1 true w_fs_cycle [w_sb] w_uri_cycle2 = UOk [w_sb; w_lf] /\
  uri_complete 1 true w_fs_cycle [w_sb] w_uri_cycle2 = false /\
  is_link_o (raw w_fs_cycle [w_sb; w_lf]) = true.
Proof. exact two_step_accepts_cycle_via_link. Qed.
Theorem C19_link_free_refuses_cycles :
  validate_uri 2 true w_fs_cycle [w_sb] w_uri_cycle = URefused /\
  validate_uri 2 true w_fs_cycle [w_sb] w_uri_cycle2 = URefused /\
  validate_uri 2 true w_fs_cycle [w_sb] [107;50]%N = URefused /\
  stale_uri 2 true w_fs_cycle [w_sb] [w_sb] w_uri_cycle = SError /\
  stale_uri 2 true w_fs_cycle [w_sb] [w_sb] w_uri_cycle2 = SError /\
  stale_uri 2 true w_fs_cycle [w_sb] [w_sb] [108;111;111;112;46;109;100]%N = SError /\
  stale_uri 0 false w_fs_cycle [w_sb] [w_sb] w_uri_cycle = SHashed [w_sb; w_lf] /\
  stale_uri 0 false w_fs_cycle [w_sb] [w_sb] [108;111;111;112;46;109;100]%N = SRaise.
Proof. exact link_free_refuses_cycles. Qed.
Theorem C19_uri_complete_nonvacuous :
  validate_uri 1 true w_fs_live [w_sb] [100;47;46;46;47;100]%N = UOk [w_sb; [100]%N] /\
  uri_complete 1 true w_fs_live [w_sb] [100;47;46;46;47;100]%N = true /\
  validate_uri 1 true w_fs_live [w_sb] [108;110;107;100]%N = URefused.
Proof. exact uri_complete_nonvacuous. Qed.
(* the link-free mode is not vacuous either: a plain file below a directory is accepted *)
Theorem C19_link_free_nonvacuous :
  validate_uri_src w_fs_live [w_sb] [100;47;46;46;47;100]%N = UOk [w_sb; [100]%N] /\
  validate_uri_src w_fs_live [w_sb] [108;110;107;100]%N = URefused.
Proof. exact src_link_free_nonvacuous. Qed.

(* ---- source-text pins (generated by harness/pinsets.py) ---- *)
(* every function of these modules is, text for text (comments and docstrings excluded), the one the models of this
   property were written against and validated against: harness/translate/srcdigest_t.py, Src/Pin_*.v *)
From OV Require Import Gen.SrcDigestGen Src.Pin_mcp_write Src.Pin_mcp_validate Src.Pin_mcp_eject Src.Pin_core_hydrator Src.Pin_core_file_ops Src.Pin_schemas_loader Src.Pin_cli_main.
Theorem C19_pin_source_text :
  src_mcp_write_pinned /\ src_mcp_validate_pinned /\ src_mcp_eject_pinned /\ src_core_hydrator_pinned /\ src_core_file_ops_pinned /\ src_schemas_loader_pinned /\ src_cli_main_pinned.
Proof. exact (conj src_mcp_write_pinned_ok (conj src_mcp_validate_pinned_ok (conj src_mcp_eject_pinned_ok (conj src_core_hydrator_pinned_ok (conj src_core_file_ops_pinned_ok (conj src_schemas_loader_pinned_ok src_cli_main_pinned_ok)))))). Qed.
