(* C01 -- canonicalisation is idempotent and re-readable.  ONLY statements closed by `exact`. *)
From OV Require Import Base.Strs Syn.Escape Syn.Quote Syn.Ast Syn.Emitter Syn.Wf Lex.Pins_Lexer Gen.LexerGen
     Syn.Pins_Emitter Gen.EmitterGen Lex.Lexer Syn.Parser Rt.TokRound.

Theorem C01_escape_mirrors : forall s, escape_safe s = true -> unescape (escape s) = s.
Proof. exact unescape_escape. Qed.

Theorem C01_needs_quotes_pinned : forall s, needs_quotes s = needs_quotes_pinned s.
Proof. exact needs_quotes_is_pinned. Qed.

Theorem C01_pin_tables :
  lexer_token_patterns = pinned_lexer_token_patterns /\ lexer_ascii_aliases = pinned_lexer_ascii_aliases /\
  emitter_multiline_threshold = pinned_emitter_multiline_threshold /\
  emitter_annotation_pattern = pinned_emitter_annotation_pattern.
Proof.
  exact (conj pin_lexer_token_patterns (conj pin_lexer_ascii_aliases
        (conj pin_emitter_multiline_threshold pin_emitter_annotation_pattern))).
Qed.

(* RE-READABILITY of the structural core at every depth: the strict reader model never refuses, and never runs
   out of fuel on, the token layout of a core document (see Properties/C02.v for the full statement) *)
Theorem C01_core_reparse_all_depths :
  forall numcanon holo_ok sp alpha d,
    core_doc d = true -> nums_ok_l numcanon (dsections d) ->
    forall st0 ts tail, tail <> [] -> Forall2 tmatch ts (doc_sh d) -> ptoks st0 = ts ++ tail ->
    exists st', parse_document numcanon holo_ok true sp alpha st0 = POk d st' /\ wext st0 st'.
Proof. exact (fun n h => parse_core_doc n h true). Qed.
