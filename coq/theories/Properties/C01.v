(* C01 -- canonicalisation is idempotent and re-readable.  ONLY statements closed by `exact`. *)
From OV Require Import Base.Strs Syn.Escape Syn.Quote Syn.Ast Syn.Emitter Syn.Wf Lex.Pins_Lexer Gen.LexerGen
     Syn.Pins_Emitter Gen.EmitterGen Lex.Lexer Syn.Parser Rt.TokRound Rt.LexLinkBase Rt.LexLink.

Theorem C01_escape_mirrors : forall s, unescape (escape s) = s.
Proof. exact unescape_escape_all. Qed.

Theorem C01_needs_quotes_pinned : forall s, needs_quotes s = needs_quotes_pinned s.
Proof. exact needs_quotes_is_pinned. Qed.

Theorem C01_pin_tables :
  lexer_token_patterns = pinned_lexer_token_patterns /\ lexer_ascii_aliases = pinned_lexer_ascii_aliases /\
  emitter_multiline_threshold = pinned_emitter_multiline_threshold /\
  emitter_annotation_pattern = pinned_emitter_annotation_pattern.
Proof.
  exact (conj pin_lexer_token_patterns (conj pin_lexer_ascii_aliases
        (conj pin_emitter_multiline_threshold pin_emitter_annotation_pattern))).
Qed.

(* RE-READABILITY of the structural core at every depth: the strict reader model never refuses, and never runs
   out of fuel on, the token layout of a core document (see Properties/C02.v for the full statement) *)
Theorem C01_core_reparse_all_depths :
  forall numcanon holo_ok sp alpha d,
    core_doc d = true -> nums_ok_l numcanon (dsections d) ->
    forall st0 ts tail, tail <> [] -> Forall2 tmatch ts (doc_sh d) -> ptoks st0 = ts ++ tail ->
    exists st', parse_document numcanon holo_ok true sp alpha st0 = POk d st' /\ wext st0 st'.
Proof. exact (fun n h => parse_core_doc n h true). Qed.

(* RE-READABLE AND A FIXPOINT, text level, every depth: the emitted text of a core document is accepted by the strict
   reader model and reads back as the same document, so canonicalising it again emits the same text. *)
Theorem C01_text_reparse_core :
  forall cls numcanon holo_ok sp d,
    core_doc d = true -> lex_safe_doc d = true -> nums_ok_l numcanon (dsections d) ->
    exists warns, parse_model cls numcanon holo_ok true (lines_of (emit sp d)) = PRDoc d [] warns /\ Forall advisory warns.
Proof. exact (fun cls n h => text_roundtrip_core cls n h true). Qed.

Theorem C01_text_fixpoint_core :
  forall cls numcanon holo_ok strict sp d,
    core_doc d = true -> lex_safe_doc d = true -> nums_ok_l numcanon (dsections d) ->
    exists d' warns, parse_model cls numcanon holo_ok strict (lines_of (emit sp d)) = PRDoc d' [] warns /\ emit sp d' = emit sp d.
Proof.
  exact (fun cls n h s sp d Hc Hl Hn =>
           match text_roundtrip_core cls n h s sp d Hc Hl Hn with
           | ex_intro _ w (conj Hp _) => ex_intro _ d (ex_intro _ w (conj Hp eq_refl))
           end).
Qed.

From OV Require Import Rt.TokRound2 Rt.TokRound2Ex Rt.LexLink2Text Rt.LexLink2.
(* the same for the wider core2 fragment (comments, scalar lists in both layouts, sections, META): re-readable and a
   fixpoint of canonicalisation, text level, every depth *)
Theorem C01_text_fixpoint_core2 :
  forall cls numcanon holo_ok strict sp d,
    core2_doc d = true -> lex_safe2_doc d = true ->
    nums_ok2_l numcanon ex_idnum (dsections d) -> Forall (field_num_ok numcanon) (dmeta d) ->
    exists d' warns, parse_model cls numcanon holo_ok strict (lines_of (emit sp d)) = PRDoc d' [] warns /\ emit sp d' = emit sp d.
Proof.
  exact (fun cls n h s sp d Hc Hl Hn Hm =>
           match text_roundtrip_core2 cls n h s sp d Hc Hl Hn Hm with
           | ex_intro _ w (conj Hp _) => ex_intro _ d (ex_intro _ w (conj Hp eq_refl))
           end).
Qed.

From OV Require Rt.BareWordParse Rt.BareWordLex Rt.BareWord Rt.BareWordEx.
(* core3 = core2 documents whose string values may also be written BARE by the emitter (plain, dotted, dashed words and
   $VAR variables, in assignment position, as list items in both layouts and as META values): re-readable and a fixpoint *)
Theorem C01_text_fixpoint_core3 :
  forall cls numcanon holo_ok strict sp d,
    BareWordParse.core3_doc d = true -> BareWord.lex_safe3_doc d = true ->
    TokRound2.nums_ok2_l numcanon TokRound2Ex.ex_idnum (dsections d) -> Forall (TokRound2.field_num_ok numcanon) (dmeta d) ->
    exists d' warns, parse_model cls numcanon holo_ok strict (lines_of (emit sp d)) = PRDoc d' [] warns /\ emit sp d' = emit sp d.
Proof.
  exact (fun cls n h s sp d Hc Hl Hn Hm =>
           match BareWord.text_roundtrip_core3 cls n h s sp d Hc Hl Hn Hm with
           | ex_intro _ w (conj Hp _) => ex_intro _ d (ex_intro _ w (conj Hp eq_refl))
           end).
Qed.
Theorem C01_text_fixpoint_core3_nonvacuous :
  BareWordParse.core3_doc BareWordEx.ex_bare = true /\ BareWord.lex_safe3_doc BareWordEx.ex_bare = true.
Proof. exact (conj BareWordEx.ex_bare_core BareWordEx.ex_bare_safe). Qed.

(* the grammar sentinel is tried exactly at the end of the leading blank lines (Lexer.init_state is written against this text) *)
Theorem C01_pin_lexer_sentinel :
  lexer_sentinel_guard = pinned_lexer_sentinel_guard /\ lexer_sentinel_pos = pinned_lexer_sentinel_pos /\
  lexer_leading_blank_pattern = pinned_lexer_leading_blank_pattern.
Proof. exact (conj pin_lexer_sentinel_guard (conj pin_lexer_sentinel_pos pin_lexer_leading_blank_pattern)). Qed.

(* core4 = core3 + nested lists + inline-map items: the canonical text is re-readable and a fixpoint, text level, every depth *)
From OV Require Rt.TokRound4 Rt.LexLink4Text Rt.LexLink4 Rt.LexLink4Ex.
Theorem C01_text_fixpoint_core4 :
  forall cls numcanon holo_ok strict sp d,
    TokRound4.core4_doc d = true -> LexLink4.lex_safe4_doc d = true ->
    TokRound4.nums_ok4_l numcanon TokRound2Ex.ex_idnum (dsections d) ->
    Forall (TokRound4.field_num_ok4 numcanon TokRound2Ex.ex_idnum) (dmeta d) ->
    exists d' warns, parse_model cls numcanon holo_ok strict (lines_of (emit sp d)) = PRDoc d' [] warns /\ emit sp d' = emit sp d.
Proof.
  exact (fun cls n h s sp d Hc Hl Hn Hm =>
           match LexLink4.text_roundtrip_core4 cls n h s sp d Hc Hl Hn Hm with
           | ex_intro _ w (conj Hp _) => ex_intro _ d (ex_intro _ w (conj Hp eq_refl))
           end).
Qed.

(* ---- source-text pins (generated by harness/pinsets.py) ---- *)
(* every function of these modules is, text for text (comments and docstrings excluded), the one the models of this
   property were written against and validated against: harness/translate/srcdigest_t.py, Src/Pin_*.v *)
From OV Require Import Gen.SrcDigestGen Src.Pin_core_lexer Src.Pin_core_parser Src.Pin_core_emitter Src.Pin_core_ast_nodes.
Theorem C01_pin_source_text :
  src_core_lexer_pinned /\ src_core_parser_pinned /\ src_core_emitter_pinned /\ src_core_ast_nodes_pinned.
Proof. exact (conj src_core_lexer_pinned_ok (conj src_core_parser_pinned_ok (conj src_core_emitter_pinned_ok src_core_ast_nodes_pinned_ok))). Qed.
