(* C09 -- validity is invariant under respelling; validating never alters content.
   ONLY statements closed by `exact` (+ the `_full` statements kept visible).  Model: Val/ToPy.v; proofs: Val/ToPyFacts.v;
   tie to the source: Gen/ValidateGen.v (regenerated on every run) through Val/Pins_Validate.v. *)
From OV Require Import Base.Strs Cst.Lits Cst.PyVal Cst.Constraints Cst.Chain Cst.Validator Syn.Ast Syn.Emitter
     Gen.ConstraintsGen Gen.ValidateGen Gen.ModStateGen Tools.ModuleState Val.ToPy Val.Pins_Validate Val.ToPyFacts.
Require Coq.Strings.String.
Import Coq.Strings.String.StringSyntax.

(* ---- the verdict reads the CONTENT only (all four profiles are values of p; the three other surfaces likewise) ---- *)
Theorem C09_verdict_of_content : forall o s p d1 d2, content_eq d1 d2 -> verdict o s p d1 = verdict o s p d2.
Proof. exact verdict_of_content. Qed.
Theorem C09_verdict_erase : forall o s p d, verdict o s p (erase_doc d) = verdict o s p d.
Proof. exact verdict_erase. Qed.
Theorem C09_api_errors_of_content : forall o bm strict ss d1 d2,
  content_eq d1 d2 -> validator_errors o bm strict ss d1 = validator_errors o bm strict ss d2.
Proof. exact api_errors_of_content. Qed.
Theorem C09_write_verdict_of_content : forall o s d1 d2, content_eq d1 d2 -> write_verdict o s d1 = write_verdict o s d2.
Proof. exact write_verdict_of_content. Qed.
Theorem C09_cli_verdict_of_content : forall o s d1 d2, content_eq d1 d2 -> cli_verdict o s d1 = cli_verdict o s d2.
Proof. exact cli_verdict_of_content. Qed.
Theorem C09_content_eq_erase : forall d, content_eq (erase_doc d) d.
Proof. exact content_eq_erase. Qed.
Theorem C09_verdict_of_ast : forall parsef o s p x d, parsef x = Some d -> validate_text parsef o s p x = verdict o s p d.
Proof. exact validate_text_of_ast. Qed.

(* ---- respelling: sigma_1, sigma_2 and the canonical text (round trip = explicit hypothesis, C02/C03) ---- *)
Theorem C09_respelling : forall parsef o s p (S : Type) (render : S -> doc -> str) sp d s1 s2 d1 d2 d0,
  parsef (render s1 d) = Some d1 -> parsef (render s2 d) = Some d2 -> parsef (emit sp d) = Some d0 ->
  content_eq d1 d -> content_eq d2 d -> content_eq d0 d ->
  validate_text parsef o s p (render s1 d) = validate_text parsef o s p (render s2 d) /\
  validate_text parsef o s p (render s2 d) = validate_text parsef o s p (emit sp d) /\
  validate_text parsef o s p (emit sp d) = verdict o s p d.
Proof. exact respelling_three. Qed.
Theorem C09_respelling_texts : forall parsef o s p d x1 x2 d1 d2,
  parsef x1 = Some d1 -> parsef x2 = Some d2 -> content_eq d1 d -> content_eq d2 d ->
  validate_text parsef o s p x1 = validate_text parsef o s p x2 /\ validate_text parsef o s p x1 = verdict o s p d.
Proof. exact respelling_same_verdict. Qed.
Theorem C09_canonical : forall parsef o s p sp x d d',
  parsef x = Some d -> parsef (emit sp d) = Some d' -> content_eq d' d ->
  validate_text parsef o s p (emit sp d) = validate_text parsef o s p x.
Proof. exact canonical_same_verdict. Qed.
Theorem C09_canonical_twice : forall parsef o s p sp x d d' d'',
  parsef x = Some d -> parsef (emit sp d) = Some d' -> parsef (emit sp d') = Some d'' ->
  content_eq d' d -> content_eq d'' d' ->
  validate_text parsef o s p (emit sp d') = validate_text parsef o s p x.
Proof. exact canonical_twice_same_verdict. Qed.

(* the hypotheses are satisfiable with the REAL reader model (Syn.Parser.parse_model): two different documents, equal content *)
Theorem C09_respelling_nonvacuous :
  exists d1 d2, ex_parsef ex_text1 = Some d1 /\ ex_parsef ex_text2 = Some d2 /\ d1 <> d2 /\ content_eq d1 d2 /\
    validate_text ex_parsef ex_oracles ex_schema (lit "STANDARD") ex_text1
      = validate_text ex_parsef ex_oracles ex_schema (lit "STANDARD") ex_text2 /\
    validate_text ex_parsef ex_oracles ex_schema (lit "STANDARD") ex_text1
      = Some (mktv (lit "INVALID") [(s_E007, lit "S.X")] [(s_E007, lit "S.X")]) /\
    validate_text ex_parsef ex_oracles ex_schema (lit "STANDARD") (emit (fun c => N.eqb c 32) d2)
      = validate_text ex_parsef ex_oracles ex_schema (lit "STANDARD") ex_text2.
Proof. exact respelling_ex_real_reader. Qed.

(* a blank (whitespace-only, incl. TAB-only) frontmatter block, which the emitter drops, does not change the verdict -- for every
   oracle: validate_frontmatter's absent branch and its test are part of the model, read from the source on every run *)
Theorem C09_blank_frontmatter : forall o s p d, verdict o s p (drop_blank_front (or_sp o) d) = verdict o s p d.
Proof. exact verdict_blank_front. Qed.
Theorem C09_blank_frontmatter_api : forall o bm strict ss d,
  validator_errors o bm strict ss (drop_blank_front (or_sp o) d) = validator_errors o bm strict ss d.
Proof. exact validator_errors_blank_front. Qed.
Theorem C09_blank_frontmatter_same_canonical : forall sp d, emit sp (drop_blank_front sp d) = emit sp d.
Proof. exact emit_drop_blank_front. Qed.
Theorem C09_frontmatter_tables :
  vt_fm_blank_is_absent = true /\ vt_fm_absent_test = lit "raw_frontmatter is None or not raw_frontmatter.strip()" /\
  vt_fm_absent_code = lit "E_FM_REQUIRED" /\ vt_fm_absent_prefix = lit "frontmatter." /\
  vt_src_fm_absent_branch = pinned_vt_src_fm_absent_branch.
Proof. exact fm_tables. Qed.

(* without the round-trip hypothesis: equal canonical text does NOT imply equal verdict (non-finite float, C02 clause 15) *)
Definition C09_canonical_text_full : Prop := verdict_of_canonical_text_full.
Theorem C09_canonical_text_refuted : ~ C09_canonical_text_full.
Proof. exact verdict_of_canonical_text_refuted. Qed.

(* ---- _to_python_value is lossless ---- *)
Theorem C09_to_python_value_lossless_kind : forall ofl v p, to_py ofl v = Some p -> pkind p = vkind v.
Proof. exact to_py_kind. Qed.
Theorem C09_to_python_value_lossless_scalar : forall ofl v1 v2,
  is_scalar v1 = true -> is_scalar v2 = true -> num_canonical v1 = true -> num_canonical v2 = true ->
  to_py ofl v1 = to_py ofl v2 -> v1 = v2.
Proof. exact to_py_scalar_injective. Qed.
Theorem C09_to_python_value_scalar_total : forall ofl v,
  is_scalar v = true -> num_canonical v = true -> exists p, to_py ofl v = Some p.
Proof. exact to_py_scalar_total. Qed.
Theorem C09_to_python_value_scalar_table : forall ofl,
  to_py ofl VNull = Some (PA ANone) /\
  (forall b, to_py ofl (VBool b) = Some (PA (ABool b))) /\
  (forall c, to_py ofl (VNum false c) = option_map (fun z => PA (AInt z)) (Z_of_dec c)) /\
  (forall c, to_py ofl (VNum true c) = Some (PA (AFloat (ofl c) c))) /\
  (forall s, to_py ofl (VStr s) = Some (PA (AStr s))) /\
  (forall c t m, to_py ofl (VZone c t m) = Some (PZone c t)).
Proof. exact to_py_scalar_table. Qed.
Theorem C09_to_python_value_list : forall ofl items p,
  to_py ofl (VList items) = Some p <-> exists ps, p = PList ps /\ Forall2 (fun v q => to_py ofl v = Some q) items ps.
Proof. exact to_py_list. Qed.
Theorem C09_to_python_value_map : forall ofl pairs p,
  to_py ofl (VMap pairs) = Some p <->
  exists qs, p = PDict qs /\ Forall2 (fun kv kq => fst kq = fst kv /\ to_py ofl (snd kv) = Some (snd kq)) pairs qs.
Proof. exact to_py_map. Qed.
Theorem C09_type_verdict_by_kind : forall ofl o v p t,
  to_py ofl v = Some p -> str_in t [s_STRING; s_NUMBER; s_BOOLEAN; s_LIST] = true ->
  valid (eval o (CType t) p) = kind_accepts t (vkind v).
Proof. exact type_verdict_by_kind. Qed.
Definition C09_to_python_value_lossless_scalar_full : Prop := to_py_scalar_injective_full.
Theorem C09_to_python_value_lossless_scalar_refuted : ~ C09_to_python_value_lossless_scalar_full.
Proof. exact to_py_scalar_injective_refuted. Qed.
Definition C09_verdict_total_full : Prop := verdict_total_full.
Theorem C09_verdict_total_refuted : ~ C09_verdict_total_full.
Proof. exact verdict_total_refuted. Qed.

(* ---- read-only: fix off => the canonical text is emit of the parsed document (runs the generated statement list) ---- *)
Theorem C09_readonly : forall parsef repairf sp content,
  tool_canonical parsef repairf sp false content = Some (emit sp (parsef content)).
Proof. exact tool_readonly. Qed.
Theorem C09_readonly_flow : forall (D : Type) (parsef : str -> D) (repairf : D -> D) (emitf : D -> str) content,
  run_flow D parsef repairf emitf vt_doc_flow false content = Some (emitf (parsef content)).
Proof. exact flow_readonly. Qed.
Theorem C09_fix_repairs_flow : forall (D : Type) (parsef : str -> D) (repairf : D -> D) (emitf : D -> str) content,
  run_flow D parsef repairf emitf vt_doc_flow true content = Some (emitf (repairf (parsef content))).
Proof. exact flow_fix_repairs. Qed.
Theorem C09_flow_structure :
  map (fun e => (fst (fst e), snd (fst e))) (filter (fun e => match snd (fst e) with 1 | 2 | 4 => true | _ => false end) vt_doc_flow)
    = [([lit "try"], 1); ([lit "fix"], 2); ([lit "try"], 4)]%N /\
  map snd (filter (fun e => N.eqb (snd (fst e)) 3) vt_doc_flow)
    = [lit "_count_literal_zones"; lit "validator.validate"; lit "validator.validate"; lit "validator_for_repair.validate"] /\
  map (fun e => (fst (fst e), snd e)) (filter (fun e => N.eqb (snd (fst e)) 5) vt_doc_flow)
    = [([lit "except Exception"], lit "None if diff_only else content"); ([lit "try"; lit "diff_only"], lit "None");
       ([lit "try"; lit "not diff_only"], lit "canonical_output")].
Proof. exact flow_structure. Qed.

(* ---- twice = once ---- *)
Theorem C09_idem : forall parsef o s p x n r, In r (validate_n parsef o s p x n) -> r = validate_text parsef o s p x.
Proof. exact validate_n_constant. Qed.
Theorem C09_validator_object_stateless : forall o bm strict ss h1 h2 d,
  validate_obj o bm strict ss h1 d = validate_obj o bm strict ss h2 d /\
  validate_obj o bm strict ss h1 d = validator_errors o bm strict ss d.
Proof. exact validate_obj_stateless. Qed.
Theorem C09_no_validation_state :
  vt_tool_instance_state = false /\
  vt_validator_ctor_sites = pinned_vt_validator_ctor_sites /\
  length vt_validator_ctor_sites = 8%nat /\
  vt_validator_stores = pinned_vt_validator_stores /\
  forallb (fun s => existsb (fun p => existsb (fun q => prefixb (p ++ q) s)
                                      [lit "store self."; lit "call self.errors."; lit "call errors."; lit "store present_fields[";
                                       lit "call registry.register_custom"; lit "call router.route"])
                     [lit "__init__: "; lit "validate: "; lit "_validate_meta: "; lit "_validate_unknown_fields: ";
                      lit "_validate_section: "; lit "_validate_type: "]) vt_validator_stores = true.
Proof. exact no_validation_state. Qed.
Theorem C09_no_mutable_module_state : no_mutable_module_state_b = true.
Proof. exact no_mutable_module_state. Qed.

(* ---- the source the model was written against, the tables it consumes ---- *)
Theorem C09_topy_dispatch_shape :
  vt_topy_dispatch = [(lit "ListValue", lit "[self._to_python_value(item) for item in value.items]");
                      (lit "InlineMap", lit "{k: self._to_python_value(v) for k, v in value.pairs.items()}");
                      (lit "LiteralZoneValue", lit "value")] /\
  vt_topy_default = lit "value".
Proof. exact topy_dispatch_shape. Qed.
Theorem C09_profile_tables :
  vt_valid_profiles = [lit "STRICT"; lit "STANDARD"; lit "LENIENT"; lit "ULTRA"] /\
  vt_strict_profile = lit "STRICT" /\ vt_downgrade_profiles = [lit "LENIENT"; lit "ULTRA"] /\
  vt_status_init = lit "UNVALIDATED" /\ vt_status_clean = lit "VALIDATED" /\ vt_status_downgraded = lit "VALIDATED" /\
  vt_status_blocking = lit "INVALID" /\ vt_error_sinks = (false, true, true, true) /\ code_route = s_E009 /\
  vt_meta_type_map = [(s_STRING, t_str); (s_BOOLEAN, t_bool); (s_LIST, t_list)].
Proof. exact profile_tables. Qed.
Theorem C09_profile_semantics : forall o s p d errs,
  has_schema s = true -> str_in p vt_valid_profiles = true ->
  validator_errors o (builtin_meta s) (str_eqb p vt_strict_profile) (active_def s) d = Some errs -> errs <> [] ->
  verdict o s p d = Some (if str_in p [lit "LENIENT"; lit "ULTRA"] then mktv (lit "VALIDATED") [] errs else mktv (lit "INVALID") errs errs).
Proof. exact profile_semantics. Qed.
Theorem C09_model_source_pins :
  vt_topy_dispatch = pinned_vt_topy_dispatch /\ vt_topy_default = pinned_vt_topy_default /\
  vt_src_validator_validate = pinned_vt_src_validator_validate /\
  vt_src_validator_validate_meta = pinned_vt_src_validator_validate_meta /\
  vt_src_validator_validate_type = pinned_vt_src_validator_validate_type /\
  vt_src_validator_validate_section = pinned_vt_src_validator_validate_section /\
  vt_src_router_route = pinned_vt_src_router_route /\ vt_src_router_parse_target_spec = pinned_vt_src_router_parse_target_spec /\
  vt_src_registry_is_valid = pinned_vt_src_registry_is_valid /\ vt_src_extract_block_targets = pinned_vt_src_extract_block_targets /\
  vt_src_resolve_target = pinned_vt_src_resolve_target /\ vt_src_get_builtin_schema = pinned_vt_src_get_builtin_schema /\
  vt_src_count_literal_zones = pinned_vt_src_count_literal_zones /\
  vt_write_validate_calls = pinned_vt_write_validate_calls /\ vt_cli_validate_calls = pinned_vt_cli_validate_calls.
Proof. exact model_source_pins. Qed.

(* ---- source-text pins (generated by harness/pinsets.py) ---- *)
(* every function of these modules is, text for text (comments and docstrings excluded), the one the models of this
   property were written against and validated against: harness/translate/srcdigest_t.py, Src/Pin_*.v *)
From OV Require Import Gen.SrcDigestGen Src.Pin_core_lexer Src.Pin_core_parser Src.Pin_core_emitter Src.Pin_core_ast_nodes Src.Pin_core_validator Src.Pin_core_constraints Src.Pin_core_schema_extractor Src.Pin_schemas_loader Src.Pin_mcp_validate Src.Pin_mcp_write.
Theorem C09_pin_source_text :
  src_core_lexer_pinned /\ src_core_parser_pinned /\ src_core_emitter_pinned /\ src_core_ast_nodes_pinned /\ src_core_validator_pinned /\ src_core_constraints_pinned /\ src_core_schema_extractor_pinned /\ src_schemas_loader_pinned /\ src_mcp_validate_pinned /\ src_mcp_write_pinned.
Proof. exact (conj src_core_lexer_pinned_ok (conj src_core_parser_pinned_ok (conj src_core_emitter_pinned_ok (conj src_core_ast_nodes_pinned_ok (conj src_core_validator_pinned_ok (conj src_core_constraints_pinned_ok (conj src_core_schema_extractor_pinned_ok (conj src_schemas_loader_pinned_ok (conj src_mcp_validate_pinned_ok src_mcp_write_pinned_ok))))))))). Qed.
