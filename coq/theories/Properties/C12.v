(* C12 -- every compiled grammar is well-formed GBNF.  ONLY theorem statements closed by `exact`
   (+ Definitions of the full / open statements). *)
From OV Require Import Base.Strs Gen.GbnfGen Gbnf.Syntax Gbnf.Compiler Gbnf.Safe Gbnf.Facts.

(* ---- for ALL strings: the literal escape is closed under the recogniser's literal scanner ---------- *)
Theorem C12_escape_literal_is_closed_form : forall s, escape_literal s = flat_map gesc s.
Proof. exact escape_literal_spec. Qed.

Theorem C12_escape_literal_closed : forall s rest,
  gbnf_literal (c_dq :: escape_literal s ++ c_dq :: rest) = Some (s, rest).
Proof. exact escape_literal_closed. Qed.

(* ---- for ALL names: characters of a sanitised rule name ------------------------------------------- *)
Theorem C12_sanitize_charset : forall l, no_upper l = true -> forallb san_ok (sanitize_lowered l) = true.
Proof. exact sanitize_charset. Qed.

Theorem C12_lower_has_no_capital : forall s o, no_upper o = true -> no_upper (py_lower s o) = true.
Proof. exact py_lower_no_upper. Qed.

Theorem C12_sanitize_nonempty : forall l, sanitize_lowered l <> [].
Proof. exact sanitize_nonempty. Qed.

(* ---- the full statement, and why it is false of the faithful model ------------------------------------ *)
Definition C12_compile_wf_full : Prop :=
  forall s env, exists g, gbnf_parse (compile_schema s env) = Some g /\ wf g = true.

(* the restriction the design aims at.  OPEN: not proved in this development (the per-line recogniser lemmas
   were not finished); it is CHECKED on every generated schema of every run by harness/props/c12.py
   ("safe_schema holds but the grammar is not well-formed" is reported as a broken obligation). *)
Definition C12_compile_wf_under_safe_schema_OPEN : Prop :=
  forall s env, safe_schema s env = true -> wf_text (compile_schema s env) = true.

(* the hypothesis is satisfiable on a non-trivial schema, and the conclusion holds there *)
Theorem C12_safe_schema_nonvacuous : safe_schema ex_schema true = true /\ wf_text (compile_schema ex_schema true) = true.
Proof. exact safe_schema_example. Qed.

(* field named CONTENT: the rule `content` is defined twice (wf code 4) *)
Theorem C12_refuted_content : wf_text_code (compile_schema (sch [fld w_CONTENT [CReq]]) true) = 4%N.
Proof. exact refuted_content. Qed.

(* WS, FIELD, DOCUMENT, ROOT, CONTENT: each re-defines a structural rule *)
Theorem C12_refuted_structural_name :
  forallb (fun n => N.eqb (wf_text_code (compile_schema (sch [fld n [CReq]]) true)) 4) [w_WS; w_FIELD; w_DOCUMENT; w_ROOT; w_CONTENT] = true.
Proof. exact refuted_structural_names. Qed.

(* REGEX["^abc$"]: reference to the undefined rule abc (wf code 3) *)
Theorem C12_refuted_anchor : wf_text_code (compile_schema (sch [fld w_NAME [CReq; CRegex w_anchor_abc]]) true) = 3%N.
Proof. exact refuted_anchor. Qed.

(* STATUS with Status: one sanitised name, defined twice (no underscore involved) *)
Theorem C12_refuted_collision : wf_text_code (compile_schema (sch [fld w_STATUS [CReq]; fld w_Status [COpt]]) true) = 4%N.
Proof. exact refuted_collision_case. Qed.

(* A-B with A_B: one rule name; unparsable (underscore) and a duplicate in the underscore-tolerant dialect *)
Theorem C12_refuted_collision_dash_underscore :
  rule_name_of (fld w_A_dash_B [CReq]) = rule_name_of (fld w_A_us_B [CReq]) /\
  wf_text_code (compile_schema (sch [fld w_A_dash_B [CReq]; fld w_A_us_B [CReq]]) true) = 1%N /\
  wf_text_code_g true (compile_schema (sch [fld w_A_dash_B [CReq]; fld w_A_us_B [CReq]]) true) = 4%N.
Proof. exact refuted_collision_dash_us. Qed.

(* an underscore in a rule name: does not parse under llama.cpp's syntax; nothing else is wrong with it *)
Theorem C12_refuted_underscore :
  wf_text_code (compile_schema (sch [fld w_A_us_B [CReq]]) true) = 1%N /\
  wf_text_code_g true (compile_schema (sch [fld w_A_us_B [CReq]]) true) = 0%N.
Proof. exact refuted_underscore. Qed.

Theorem C12_compile_wf_refuted : exists s env, wf_text (compile_schema s env) = false.
Proof. exists (sch [fld w_CONTENT [CReq]]), true. exact (f_equal (fun c => N.eqb c 0) refuted_content). Qed.

(* ---- ties to the current source text ---------------------------------------------------------------------- *)
Theorem C12_pin_escape_chain : gbnf_escape_chain = [([c_bs], [c_bs; c_bs]); ([c_dq], [c_bs; c_dq])].
Proof. exact pin_escape_chain. Qed.

Theorem C12_pin_priority :
  gbnf_chain_priority = [[cls_Const]; [cls_Enum]; [cls_Regex]; [cls_Type]; [cls_Date; cls_Iso]].
Proof. exact pin_priority. Qed.

Theorem C12_pin_dispatch :
  map fst gbnf_dispatch = [cls_Required; cls_Optional; cls_Enum; cls_Const; cls_Type; cls_Regex; cls_Dir; cls_Append;
                           cls_Range; cls_MaxLen; cls_MinLen; cls_Date; cls_Iso].
Proof. exact pin_dispatch_classes. Qed.

Theorem C12_pin_schema_templates_closed :
  forallb (fun e : str * list gpart =>
             known_guard (fst e) &&
             forallb (fun p => match p with PLit _ => true | PHole h => known_hole h end) (snd e)) gbnf_schema_prog = true.
Proof. exact pin_schema_prog_closed. Qed.

(* ==== compile_wf: every grammar compiled from a safe schema is well-formed GBNF ================================ *)
From OV Require Import Gbnf.WfAuto Gbnf.WfLines Gbnf.WfText Gbnf.WfMain.

(* the statement with the hypothesis safe_schema only (same Prop as C12_compile_wf_under_safe_schema_OPEN) ... *)
Definition C12_compile_wf_full_under_safe_schema : Prop :=
  forall s env, safe_schema s env = true -> wf_text (compile_schema s env) = true.

(* ... is FALSE: a REGEX member whose character class contains NUL passes clause 5 (Safe.line_rule runs the
   recogniser without the C-string cut) but gbnf_parse cuts the text at the NUL, inside the class (code 1) *)
Theorem C12_compile_wf_under_safe_schema_refuted : ~ C12_compile_wf_under_safe_schema_OPEN.
Proof. exact compile_wf_full_refuted. Qed.

Theorem C12_compile_wf_refuted_nul_witness :
  safe_schema nul_regex_schema true = true /\ regex_nul_free nul_regex_schema = false
  /\ wf_text_code (compile_schema nul_regex_schema true) = 1%N.
Proof. exact compile_wf_full_refuted_witness. Qed.

(* MAIN THEOREM: safe_schema + (the compiled pattern of every picked REGEX member has no NUL) *)
Theorem C12_compile_wf : forall s env,
  safe_schema s env = true -> regex_nul_free s = true -> wf_text (compile_schema s env) = true.
Proof. exact compile_wf_nul_free. Qed.

(* the same with the extra clause on the SOURCE patterns (_compile_regex never introduces a NUL) *)
Theorem C12_compile_wf_src : forall s env,
  safe_schema s env = true -> regex_src_nul_free s = true -> wf_text (compile_schema s env) = true.
Proof. exact compile_wf_src. Qed.

Theorem C12_compile_regex_nul_free : forall p, forallb nz p = true -> forallb nz (compile_regex p) = true.
Proof. exact compile_regex_nz. Qed.

(* the recognised grammar is known explicitly *)
Theorem C12_compile_parse_wf : forall s env,
  safe_schema s env = true -> regex_nul_free s = true ->
  gbnf_parse (compile_schema s env) = Some (grammar_of s env) /\ wf (grammar_of s env) = true.
Proof. exact compile_parse_wf. Qed.

(* if the scope clause of safe_schema is extended by regex_nul_free the design statement holds as written *)
Theorem C12_compile_wf_modulo_nul : forall s env,
  safe_schema s env && regex_nul_free s = true -> wf_text (compile_schema s env) = true.
Proof. exact compile_wf_full_modulo_nul. Qed.

(* stages: no field / no picked REGEX member need no extra clause *)
Theorem C12_compile_wf_partial_no_fields : forall s env,
  safe_schema s env = true -> sc_fields s = [] -> wf_text (compile_schema s env) = true.
Proof. exact compile_wf_no_fields. Qed.

Theorem C12_compile_wf_partial_no_regex : forall s env,
  safe_schema s env = true -> no_regex s = true -> wf_text (compile_schema s env) = true.
Proof. exact compile_wf_no_regex. Qed.

(* ---- the ingredients ----------------------------------------------------------------------------------------------- *)
(* FRAME: the automaton never reads the finished rules ... *)
Theorem C12_step_frame : forall R st c, gbnf_step false (pre R st) c = pre R (gbnf_step false st c).
Proof. exact step_pre. Qed.

(* ... so a line recognised on its own is recognised after any finished rules *)
Theorem C12_line_frame : forall l r R,
  line_rule l = Some r -> run false (top R) (l ++ [c_nl]) = top (R ++ [r]).
Proof. exact line_frame. Qed.

Theorem C12_run_lines : forall ls R G, lines_rules ls = Some G -> run false (top R) (unlines ls) = top (R ++ G).
Proof. exact run_lines. Qed.

(* STRUCTURED VIEW: the lines of every compiled grammar (the generated template list run with abstract holes) *)
Theorem C12_schema_lines : forall s env,
  schema_lines s env = ((L_hdr ++ sc_name s) :: mid_lines s env) ++ [L_root].
Proof. exact schema_lines_eq. Qed.

(* sanitised names are in [A-Za-z0-9_] for EVERY input (no hypothesis on the lowering oracle) *)
Theorem C12_sanitize_okc : forall l, forallb okc (sanitize_lowered l) = true.
Proof. exact sanitize_okc. Qed.

(* every field line of a safe schema is one rule with the expected name, allowed references, no empty alternative *)
Theorem C12_all_fields_ok : forall s env, safe_schema s env = true ->
  forallb (regex_field_ok (rule_names s ++ struct_names env)) (sc_fields s) = true.
Proof. exact all_fields_ok. Qed.

(* every non-REGEX right-hand side completes the rule, for every rule name / field name *)
Theorem C12_constraint_rhs_good : forall c, not_regex c = true -> cst_scope_ok c = true -> pat_good (compile_constraint c).
Proof. exact good_constraint. Qed.

(* the text contains no NUL: the C-string cut is the identity *)
Theorem C12_compile_no_nul : forall s env, safe_schema s env = true -> regex_nul_free s = true ->
  forallb nz (compile_schema s env) = true.
Proof. exact compile_nz. Qed.

Theorem C12_grammar_of_wf : forall s env, safe_schema s env = true -> wf (grammar_of s env) = true.
Proof. exact grammar_of_wf. Qed.

(* non-vacuity: six fields of different kinds; the conclusion by computation and via the theorem *)
Theorem C12_compile_wf_example_hyps :
  safe_schema ex_schema true = true /\ regex_nul_free ex_schema = true /\ safe_schema ex_schema false = true.
Proof. exact wf_example_hyps. Qed.

Theorem C12_compile_wf_example : wf_text (compile_schema ex_schema true) = true.
Proof. exact wf_example_by_theorem. Qed.
