(* C12 -- every compiled grammar is well-formed GBNF.  ONLY theorem statements closed by `exact`. *)
From OV Require Import Base.Strs Gen.GbnfGen Gbnf.Syntax Gbnf.Compiler Gbnf.Safe.

Theorem C12_pin_priority :
  gbnf_chain_priority = [[cls_Const]; [cls_Enum]; [cls_Regex]; [cls_Type]; [cls_Date; cls_Iso]].
Proof. exact pin_priority. Qed.
