(* C12 -- every compiled grammar is well-formed GBNF.  ONLY theorem statements closed by `exact`
   (+ Definitions of the full / open statements). *)
From OV Require Import Base.Strs Gen.GbnfGen Gbnf.Syntax Gbnf.Compiler Gbnf.Safe Gbnf.Facts.
Require Coq.Strings.String.
Import Coq.Strings.String.StringSyntax.

(* ---- for ALL strings: the literal escape is closed under the recogniser's literal scanner ---------- *)
Theorem C12_escape_literal_is_closed_form : forall s, escape_literal s = flat_map gesc s.
Proof. exact escape_literal_spec. Qed.

Theorem C12_escape_literal_closed : forall s rest,
  gbnf_literal (c_dq :: escape_literal s ++ c_dq :: rest) = Some (s, rest).
Proof. exact escape_literal_closed. Qed.

(* ---- for ALL names: characters of a sanitised rule name ------------------------------------------- *)
Theorem C12_sanitize_charset : forall l, no_upper l = true -> forallb san_ok (sanitize_lowered l) = true.
Proof. exact sanitize_charset. Qed.

Theorem C12_lower_has_no_capital : forall s o, no_upper o = true -> no_upper (py_lower s o) = true.
Proof. exact py_lower_no_upper. Qed.

Theorem C12_sanitize_nonempty : forall l, sanitize_lowered l <> [].
Proof. exact sanitize_nonempty. Qed.

(* ---- the full statement, and why it is false of the faithful model ------------------------------------ *)
Definition C12_compile_wf_full : Prop :=
  forall s env, exists g, gbnf_parse (compile_schema s env) = Some g /\ wf g = true.

(* the restriction the design aimed at (hypothesis safe_schema only).  It is REFUTED below
   (C12_compile_wf_under_safe_schema_refuted: a NUL inside a REGEX class); C12_compile_wf adds the missing clause. *)
Definition C12_compile_wf_under_safe_schema_OPEN : Prop :=
  forall s env, safe_schema s env = true -> wf_text (compile_schema s env) = true.

(* the hypothesis is satisfiable on a non-trivial schema, and the conclusion holds there *)
Theorem C12_safe_schema_nonvacuous : safe_schema ex_schema true = true /\ wf_text (compile_schema ex_schema true) = true.
Proof. exact safe_schema_example. Qed.

(* field named CONTENT: the rule `content` is defined twice (wf code 4) *)
Theorem C12_refuted_content : wf_text_code (compile_schema (sch [fld w_CONTENT [CReq]]) true) = 4%N.
Proof. exact refuted_content. Qed.

(* WS, FIELD, DOCUMENT, ROOT, CONTENT: each re-defines a structural rule *)
Theorem C12_refuted_structural_name :
  forallb (fun n => N.eqb (wf_text_code (compile_schema (sch [fld n [CReq]]) true)) 4) [w_WS; w_FIELD; w_DOCUMENT; w_ROOT; w_CONTENT] = true.
Proof. exact refuted_structural_names. Qed.

(* REGEX["^abc$"]: reference to the undefined rule abc (wf code 3) *)
Theorem C12_refuted_anchor : wf_text_code (compile_schema (sch [fld w_NAME [CReq; CRegex w_anchor_abc]]) true) = 3%N.
Proof. exact refuted_anchor. Qed.

(* STATUS with Status: one sanitised name, defined twice (no underscore involved) *)
Theorem C12_refuted_collision : wf_text_code (compile_schema (sch [fld w_STATUS [CReq]; fld w_Status [COpt]]) true) = 4%N.
Proof. exact refuted_collision_case. Qed.

(* A-B with A_B: one rule name; unparsable (underscore) and a duplicate in the underscore-tolerant dialect *)
Theorem C12_refuted_collision_dash_underscore :
  rule_name_of (fld w_A_dash_B [CReq]) = rule_name_of (fld w_A_us_B [CReq]) /\
  wf_text_code (compile_schema (sch [fld w_A_dash_B [CReq]; fld w_A_us_B [CReq]]) true) = 1%N /\
  wf_text_code_g true (compile_schema (sch [fld w_A_dash_B [CReq]; fld w_A_us_B [CReq]]) true) = 4%N.
Proof. exact refuted_collision_dash_us. Qed.

(* an underscore in a rule name: does not parse under llama.cpp's syntax; nothing else is wrong with it *)
Theorem C12_refuted_underscore :
  wf_text_code (compile_schema (sch [fld w_A_us_B [CReq]]) true) = 1%N /\
  wf_text_code_g true (compile_schema (sch [fld w_A_us_B [CReq]]) true) = 0%N.
Proof. exact refuted_underscore. Qed.

Theorem C12_compile_wf_refuted : exists s env, wf_text (compile_schema s env) = false.
Proof. exists (sch [fld w_CONTENT [CReq]]), true. exact (f_equal (fun c => N.eqb c 0) refuted_content). Qed.

(* ---- repo commit 481c8b3: field names and the schema name go through _escape_literal ------------------------- *)
(* regressions: schema named  a dq b backslash c  with a field named  dq q r dq  -- in the safe class and well-formed,
   with and without envelope *)
Theorem C12_regress_escaped_names_wf :
  safe_schema regress_schema true = true /\ safe_schema regress_schema false = true /\
  wf_text (compile_schema regress_schema true) = true /\ wf_text (compile_schema regress_schema false) = true.
Proof. exact regress_escaped_names_wf. Qed.

Theorem C12_regress_quoted_field_name_wf :
  wf_text (compile_schema (sch [fld w_qr [CReq]]) true) = true /\ wf_text (compile_schema (sch [fld w_qr [CReq]]) false) = true.
Proof. exact regress_quoted_field_name_wf. Qed.

Theorem C12_regress_schema_name_wf :
  wf_text (compile_schema (sch_named w_aqbc [fld w_NAME [CReq]]) true) = true /\
  wf_text (compile_schema (sch_named w_aqbc []) true) = true.
Proof. exact regress_schema_name_wf. Qed.

(* the OLD templates (the generated list with the two wrapped holes replaced by the raw ones = the two pre-fix source
   lines) were ill-formed on these witnesses: undefined references q, r (code 3); unparsable envelope literal (code 1) *)
Theorem C12_raw_names_prog_is_pre_fix_template :
  filter (fun e : str * list gpart => tpl_has_hole [e] h_field_name || tpl_has_hole [e] h_schema_upper) raw_names_prog
  = [(g_per_field, [PHole h_rule_name; PLit [32;58;58;61;32;34]; PHole h_field_name; PLit [34;32;34;58;58;34;32;119;115;32];
                    PHole h_pattern]);
     (g_envelope, [PLit [101;110;118;101;108;111;112;101;45;115;116;97;114;116;32;58;58;61;32;34;61;61;61];
                   PHole h_schema_upper; PLit [61;61;61;34]])]
  /\ tpl_has_hole raw_names_prog h_field_name_esc = false /\ tpl_has_hole raw_names_prog h_schema_upper_esc = false.
Proof. exact raw_names_prog_is_pre_fix_template. Qed.

Theorem C12_unescaped_name_was_ill_formed :
  wf_text_code (compile_schema_raw_names (sch [fld w_qr [CReq]]) true) = 3%N /\
  wf_text_code (compile_schema_raw_names (sch [fld w_qr [CReq]]) false) = 3%N /\
  wf_text_code (compile_schema_raw_names (sch_named w_aqbc [fld w_NAME [CReq]]) true) = 1%N /\
  wf_text_code (compile_schema (sch [fld w_qr [CReq]]) true) = 0%N /\
  wf_text_code (compile_schema (sch [fld w_qr [CReq]]) false) = 0%N /\
  wf_text_code (compile_schema (sch_named w_aqbc [fld w_NAME [CReq]]) true) = 0%N.
Proof. exact unescaped_name_was_ill_formed. Qed.

(* ---- repo commit b75eb16: the header comment shows the schema name on one line (join of str.splitlines) --------- *)
Theorem C12_one_line_examples :
  one_line w_lb = [97;32;98] /\ one_line [97;13;10;98] = [97;32;98] /\ one_line [97;10;13;98] = [97;32;32;98]
  /\ one_line [97;10] = [97] /\ one_line [10;97] = [32;97] /\ one_line [] = [] /\ one_line [10] = [] /\ one_line [10;10] = [32]
  /\ one_line [97;13] = [97] /\ one_line [13;10] = [] /\ one_line [97;32;98] = [97;32;98]
  /\ one_line w_all_breaks = [97;32;98;32;99;32;100;32;101;32;102;32;103;32;104;32;105;32;106;32;107;32;108;32;32;109].
Proof. exact one_line_examples. Qed.

(* names with line breaks (LF; every str.splitlines boundary at once; only a break; CR LF first; LS last): in the safe
   class and well-formed, with and without envelope, with and without a field *)
Theorem C12_regress_line_break_name_wf :
  forallb (fun n => forallb (fun env => wf_text (compile_schema (sch_named n [fld w_NAME [CReq]]) env)
                                        && safe_schema (sch_named n [fld w_NAME [CReq]]) env
                                        && wf_text (compile_schema (sch_named n []) env)) [true; false])
          [w_lb; w_all_breaks; [10%N]; [13%N;10%N;97%N]; [97%N;8232%N]] = true.
Proof. exact regress_line_break_name_wf. Qed.

Theorem C12_raw_header_prog_is_pre_fix_template :
  filter (fun e : str * list gpart => tpl_has_hole [e] h_schema_name) raw_header_prog
  = [(g_always, [PLit [35;32;71;66;78;70;32;71;114;97;109;109;97;114;32;102;111;114;32;79;67;84;65;86;69;32;115;99;104;101;109;97;58;32];
                 PHole h_schema_name])]
  /\ tpl_has_hole raw_header_prog h_schema_name_1line = false.
Proof. exact raw_header_prog_is_pre_fix_template. Qed.

Theorem C12_raw_header_was_ill_formed :
  wf_text_code (compile_schema_of raw_header_prog (sch_named w_lb [fld w_NAME [CReq]]) true) = 1%N /\
  wf_text_code (compile_schema_of raw_header_prog (sch_named w_lb [fld w_NAME [CReq]]) false) = 1%N /\
  wf_text_code (compile_schema_of raw_header_prog (sch_named w_all_breaks []) true) = 1%N /\
  wf_text_code (compile_schema (sch_named w_lb [fld w_NAME [CReq]]) true) = 0%N /\
  wf_text_code (compile_schema (sch_named w_lb [fld w_NAME [CReq]]) false) = 0%N /\
  wf_text_code (compile_schema (sch_named w_all_breaks []) true) = 0%N.
Proof. exact raw_header_was_ill_formed. Qed.

(* ---- ties to the current source text ---------------------------------------------------------------------- *)
Theorem C12_pin_escape_chain : gbnf_escape_chain = [([c_bs], [c_bs; c_bs]); ([c_dq], [c_bs; c_dq])].
Proof. exact pin_escape_chain. Qed.

Theorem C12_pin_priority :
  gbnf_chain_priority = [[cls_Const]; [cls_Enum]; [cls_Regex]; [cls_Type]; [cls_Date; cls_Iso]].
Proof. exact pin_priority. Qed.

Theorem C12_pin_dispatch :
  map fst gbnf_dispatch = [cls_Required; cls_Optional; cls_Enum; cls_Const; cls_Type; cls_Regex; cls_Dir; cls_Append;
                           cls_Range; cls_MaxLen; cls_MinLen; cls_Date; cls_Iso].
Proof. exact pin_dispatch_classes. Qed.

(* the templates escape every occurrence of the field name and of the upper-cased schema name *)
Theorem C12_pin_names_escaped : gbnf_field_name_escaped = true /\ gbnf_schema_name_escaped = true.
Proof. exact pin_names_escaped. Qed.

Theorem C12_pin_header_one_line : gbnf_header_name_one_line = true.
Proof. exact pin_header_one_line. Qed.

Theorem C12_pin_header_flag_agrees_with_templates :
  gbnf_header_name_one_line = negb (tpl_has_hole gbnf_schema_prog h_schema_name).
Proof. exact pin_header_flag. Qed.

(* which expression feeds SchemaDefinition.name on each route (read by the translator; any other binding fails closed) *)
Theorem C12_pin_name_sources :
  map fst gbnf_name_sources = [lit "compile_gbnf_from_meta"; lit "extract_schema_from_document"; lit "emit_grammar_for_schema"]
  /\ gbnf_docroute_default_name = lit "UNKNOWN" /\ gbnf_contract_default_type = lit "UNKNOWN"
  /\ gbnf_parser_inferred_name = lit "INFERRED".
Proof. exact pin_name_sources. Qed.

(* repo 61337a1: in compile_gbnf_from_meta a TYPE value that is not a str is replaced by the literal UNKNOWN *)
Theorem C12_pin_meta_type_nonstring :
  gbnf_meta_type_nonstring_is_unknown = true /\ gbnf_meta_type_nonstring_name = lit "UNKNOWN".
Proof. exact pin_meta_type_nonstring. Qed.

(* every META TYPE (absent, str, anything else) names a schema; non-str = absent = UNKNOWN *)
Theorem C12_meta_schema_name_total : forall ty, exists n, meta_schema_name ty = Some n.
Proof. exact meta_schema_name_total. Qed.

Theorem C12_meta_schema_name_cases : forall t,
  meta_schema_name MtAbsent = Some (lit "UNKNOWN") /\ meta_schema_name (MtStr t) = Some t
  /\ meta_schema_name MtOther = Some (lit "UNKNOWN") /\ meta_schema_name MtOther = meta_schema_name MtAbsent.
Proof. exact meta_schema_name_cases. Qed.

(* the pre-fix behaviour (no isinstance guard): a non-str TYPE gave no name -- compile_schema raised on the raw value *)
Theorem C12_meta_schema_name_pre_guard : forall t,
  meta_schema_name_g false MtOther = None /\ meta_schema_name_g false (MtStr t) = Some t
  /\ meta_schema_name_g false MtAbsent = Some (lit "UNKNOWN").
Proof. exact meta_schema_name_pre_guard. Qed.

Theorem C12_regress_nonstring_type_wf :
  match meta_schema_name MtOther with
  | Some n => wf_text (compile_schema (sch_named n [fld w_NAME [CReq]]) true) && wf_text (compile_schema (sch_named n []) true)
  | None => false
  end = true.
Proof. exact regress_nonstring_type_wf. Qed.

Theorem C12_pin_escape_flags_agree_with_templates :
  gbnf_field_name_escaped = negb (tpl_has_hole gbnf_schema_prog h_field_name) /\
  gbnf_schema_name_escaped = negb (tpl_has_hole gbnf_schema_prog h_schema_upper).
Proof. exact pin_escape_flags. Qed.

Theorem C12_pin_schema_templates_closed :
  forallb (fun e : str * list gpart =>
             known_guard (fst e) &&
             forallb (fun p => match p with PLit _ => true | PHole h => known_hole h end) (snd e)) gbnf_schema_prog = true.
Proof. exact pin_schema_prog_closed. Qed.

(* ==== compile_wf: every grammar compiled from a safe schema is well-formed GBNF ================================ *)
From OV Require Import Gbnf.WfAuto Gbnf.WfLines Gbnf.WfText Gbnf.WfMain.

(* the statement with the hypothesis safe_schema only (same Prop as C12_compile_wf_under_safe_schema_OPEN) ... *)
Definition C12_compile_wf_full_under_safe_schema : Prop :=
  forall s env, safe_schema s env = true -> wf_text (compile_schema s env) = true.

(* ... is FALSE: a REGEX member whose character class contains NUL passes clause 5 (Safe.line_rule runs the
   recogniser without the C-string cut) but gbnf_parse cuts the text at the NUL, inside the class (code 1) *)
Theorem C12_compile_wf_under_safe_schema_refuted : ~ C12_compile_wf_under_safe_schema_OPEN.
Proof. exact compile_wf_full_refuted. Qed.

Theorem C12_compile_wf_refuted_nul_witness :
  safe_schema nul_regex_schema true = true /\ regex_nul_free nul_regex_schema = false
  /\ wf_text_code (compile_schema nul_regex_schema true) = 1%N.
Proof. exact compile_wf_full_refuted_witness. Qed.

(* MAIN THEOREM: safe_schema + (the compiled pattern of every picked REGEX member has no NUL) *)
Theorem C12_compile_wf : forall s env,
  safe_schema s env = true -> regex_nul_free s = true -> wf_text (compile_schema s env) = true.
Proof. exact compile_wf_nul_free. Qed.

(* the same with the extra clause on the SOURCE patterns (_compile_regex never introduces a NUL) *)
Theorem C12_compile_wf_src : forall s env,
  safe_schema s env = true -> regex_src_nul_free s = true -> wf_text (compile_schema s env) = true.
Proof. exact compile_wf_src. Qed.

Theorem C12_compile_regex_nul_free : forall p, forallb nz p = true -> forallb nz (compile_regex p) = true.
Proof. exact compile_regex_nz. Qed.

(* the recognised grammar is known explicitly *)
Theorem C12_compile_parse_wf : forall s env,
  safe_schema s env = true -> regex_nul_free s = true ->
  gbnf_parse (compile_schema s env) = Some (grammar_of s env) /\ wf (grammar_of s env) = true.
Proof. exact compile_parse_wf. Qed.

(* if the scope clause of safe_schema is extended by regex_nul_free the design statement holds as written *)
Theorem C12_compile_wf_modulo_nul : forall s env,
  safe_schema s env && regex_nul_free s = true -> wf_text (compile_schema s env) = true.
Proof. exact compile_wf_full_modulo_nul. Qed.

(* the safe class of this development contains the pre-481c8b3 class (names free of quote / backslash) ... *)
Theorem C12_safe_class_grew : forall s env, safe_schema_raw_names s env = true -> safe_schema s env = true.
Proof. exact safe_class_grew. Qed.

(* ... strictly (clauses 3 and 4 of the old class fail on the regression schema: 8 + 16) *)
Theorem C12_safe_class_grew_strictly :
  safe_schema regress_schema true = true /\ safe_schema_raw_names regress_schema true = false
  /\ schema_clauses_raw_names regress_schema true = 24%N.
Proof. exact safe_class_grew_strictly. Qed.

(* so the main theorem also holds, a fortiori, with the old hypothesis *)
Theorem C12_compile_wf_regress_by_theorem :
  wf_text (compile_schema regress_schema true) = true /\ wf_text (compile_schema regress_schema false) = true.
Proof. exact regress_by_theorem. Qed.

(* the field line and the envelope line, for EVERY name: the literal read back is the name itself *)
Theorem C12_field_line_shape : forall f,
  field_line f = rule_name_of f ++ [32;58;58;61;32;34] ++ escape_literal (fd_name f) ++ [34;32;34;58;58;34;32;119;115;32]
                 ++ pattern_of f.
Proof. exact field_line_eq. Qed.

Theorem C12_env_start_line_rule : forall s,
  line_rule (env_start_line s)
  = Some (mkRule n_env_start [[ILit ([61;61;61] ++ py_upper (sc_name s) (sc_upper s) ++ [61;61;61])]]).
Proof. exact env_start_line_rule. Qed.

(* the header name has no CR / LF, for EVERY schema name; NUL-freeness is preserved *)
Theorem C12_one_line_no_line_break : forall s, forallb nonl (one_line s) = true.
Proof. exact one_line_nonl. Qed.

Theorem C12_one_line_no_nul : forall s, forallb nz s = true -> forallb nz (one_line s) = true.
Proof. exact one_line_nz. Qed.

(* stages: no field / no picked REGEX member need no extra clause *)
Theorem C12_compile_wf_partial_no_fields : forall s env,
  safe_schema s env = true -> sc_fields s = [] -> wf_text (compile_schema s env) = true.
Proof. exact compile_wf_no_fields. Qed.

Theorem C12_compile_wf_partial_no_regex : forall s env,
  safe_schema s env = true -> no_regex s = true -> wf_text (compile_schema s env) = true.
Proof. exact compile_wf_no_regex. Qed.

(* ---- the ingredients ----------------------------------------------------------------------------------------------- *)
(* FRAME: the automaton never reads the finished rules ... *)
Theorem C12_step_frame : forall R st c, gbnf_step false (pre R st) c = pre R (gbnf_step false st c).
Proof. exact step_pre. Qed.

(* ... so a line recognised on its own is recognised after any finished rules *)
Theorem C12_line_frame : forall l r R,
  line_rule l = Some r -> run false (top R) (l ++ [c_nl]) = top (R ++ [r]).
Proof. exact line_frame. Qed.

Theorem C12_run_lines : forall ls R G, lines_rules ls = Some G -> run false (top R) (unlines ls) = top (R ++ G).
Proof. exact run_lines. Qed.

(* STRUCTURED VIEW: the lines of every compiled grammar (the generated template list run with abstract holes) *)
Theorem C12_schema_lines : forall s env,
  schema_lines s env = ((L_hdr ++ one_line (sc_name s)) :: mid_lines s env) ++ [L_root].
Proof. exact schema_lines_eq. Qed.

(* sanitised names are in [A-Za-z0-9_] for EVERY input (no hypothesis on the lowering oracle) *)
Theorem C12_sanitize_okc : forall l, forallb okc (sanitize_lowered l) = true.
Proof. exact sanitize_okc. Qed.

(* every field line of a safe schema is one rule with the expected name, allowed references, no empty alternative *)
Theorem C12_all_fields_ok : forall s env, safe_schema s env = true ->
  forallb (regex_field_ok (rule_names s ++ struct_names env)) (sc_fields s) = true.
Proof. exact all_fields_ok. Qed.

(* every non-REGEX right-hand side completes the rule, for every rule name / field name *)
Theorem C12_constraint_rhs_good : forall c, not_regex c = true -> cst_scope_ok c = true -> pat_good (compile_constraint c).
Proof. exact good_constraint. Qed.

(* the text contains no NUL: the C-string cut is the identity *)
Theorem C12_compile_no_nul : forall s env, safe_schema s env = true -> regex_nul_free s = true ->
  forallb nz (compile_schema s env) = true.
Proof. exact compile_nz. Qed.

Theorem C12_grammar_of_wf : forall s env, safe_schema s env = true -> wf (grammar_of s env) = true.
Proof. exact grammar_of_wf. Qed.

(* non-vacuity: six fields of different kinds; the conclusion by computation and via the theorem *)
Theorem C12_compile_wf_example_hyps :
  safe_schema ex_schema true = true /\ regex_nul_free ex_schema = true /\ safe_schema ex_schema false = true.
Proof. exact wf_example_hyps. Qed.

Theorem C12_compile_wf_example : wf_text (compile_schema ex_schema true) = true.
Proof. exact wf_example_by_theorem. Qed.

(* ---- source-text pins (generated by harness/pinsets.py) ---- *)
(* every function of these modules is, text for text (comments and docstrings excluded), the one the models of this
   property were written against and validated against: harness/translate/srcdigest_t.py, Src/Pin_*.v *)
From OV Require Import Gen.SrcDigestGen Src.Pin_core_gbnf_compiler Src.Pin_core_grammar Src.Pin_core_schema_extractor Src.Pin_core_constraints Src.Pin_core_holographic Src.Pin_mcp_compile_grammar Src.Pin_mcp_eject.
Theorem C12_pin_source_text :
  src_core_gbnf_compiler_pinned /\ src_core_grammar_pinned /\ src_core_schema_extractor_pinned /\ src_core_constraints_pinned /\ src_core_holographic_pinned /\ src_mcp_compile_grammar_pinned /\ src_mcp_eject_pinned.
Proof. exact (conj src_core_gbnf_compiler_pinned_ok (conj src_core_grammar_pinned_ok (conj src_core_schema_extractor_pinned_ok (conj src_core_constraints_pinned_ok (conj src_core_holographic_pinned_ok (conj src_mcp_compile_grammar_pinned_ok src_mcp_eject_pinned_ok)))))). Qed.
