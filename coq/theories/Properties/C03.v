(* C03 -- lenient spellings converge; canonical text is in the strict profile. *)
From OV Require Import Base.Strs Syn.Escape Syn.Quote Lex.Pins_Lexer Gen.LexerGen.

(* the alias table the lexer model consumes is the one of the current source *)
Theorem C03_pin_aliases :
  lexer_ascii_aliases = pinned_lexer_ascii_aliases /\ lexer_token_patterns = pinned_lexer_token_patterns.
Proof. exact (conj pin_lexer_ascii_aliases pin_lexer_token_patterns). Qed.

From OV Require Import Syn.Ast Syn.Emitter Syn.StrictProfile Rt.TokRound Rt.StrictEmit.
(* CANONICAL TEXT IS IN THE STRICT PROFILE, for every document of the safe class at every nesting depth: core documents,
   and -- strict_emit_all -- documents with comments, lists (inline and multi-line, nested), META with one nested level,
   section markers, block targets, literal zones (content exempt) and frontmatter.  The recogniser strict_profile is the
   independent transcription of the property text (Syn/StrictProfile.v). *)
Theorem C03_strict_emit_core :
  forall sp d, core_doc d = true -> strict_safe_doc d = true -> strict_profile (emit sp d) = true.
Proof. exact strict_emit_core. Qed.

Theorem C03_strict_emit_all :
  forall sp d, front_safe sp d = true -> strict_safe_doc d = true -> strict_profile (emit sp d) = true.
Proof. exact strict_emit_all. Qed.

(* the unrestricted statement is false of the faithful emitter model; the witnesses are in Rt/StrictEmit.v
   (an EMPTY comment is written as `// ` with a trailing blank: reproduced on the code, see known findings) *)
Definition C03_strict_emit_full : Prop := strict_emit_full.
Theorem C03_strict_emit_full_refuted : ~ strict_emit_full.
Proof. exact strict_emit_full_refuted. Qed.

Theorem C03_strict_emit_nonvacuous :
  (core_doc ex_core = true /\ strict_safe_doc ex_core = true /\ strict_profile (emit sp_ascii ex_core) = true) /\
  (dfront ex_wide = None /\ strict_safe_doc ex_wide = true /\ strict_profile (emit sp_ascii ex_wide) = true).
Proof. exact (conj ex_core_ok ex_wide_ok). Qed.
