(* C03 -- lenient spellings converge; canonical text is in the strict profile. *)
From OV Require Import Base.Strs Syn.Escape Syn.Quote Lex.Pins_Lexer Gen.LexerGen.

(* the alias table the lexer model consumes is the one of the current source *)
Theorem C03_pin_aliases :
  lexer_ascii_aliases = pinned_lexer_ascii_aliases /\ lexer_token_patterns = pinned_lexer_token_patterns.
Proof. exact (conj pin_lexer_ascii_aliases pin_lexer_token_patterns). Qed.

From OV Require Import Syn.Ast Syn.Emitter Syn.StrictProfile Rt.TokRound Rt.StrictEmit.
(* CANONICAL TEXT IS IN THE STRICT PROFILE, for every document of the safe class at every nesting depth: core documents,
   and -- strict_emit_all -- documents with comments, lists (inline and multi-line, nested), META with one nested level,
   section markers, block targets, literal zones (content exempt) and frontmatter.  The recogniser strict_profile is the
   independent transcription of the property text (Syn/StrictProfile.v). *)
Theorem C03_strict_emit_core :
  forall sp d, core_doc d = true -> strict_safe_doc d = true -> strict_profile (emit sp d) = true.
Proof. exact strict_emit_core. Qed.

Theorem C03_strict_emit_all :
  forall sp d, front_safe sp d = true -> strict_safe_doc d = true -> strict_profile (emit sp d) = true.
Proof. exact strict_emit_all. Qed.

(* the unrestricted statement is false of the faithful emitter model; the witnesses are in Rt/StrictEmit.v
   (an EMPTY comment is written as `// ` with a trailing blank: reproduced on the code, see known findings) *)
Definition C03_strict_emit_full : Prop := strict_emit_full.
Theorem C03_strict_emit_full_refuted : ~ strict_emit_full.
Proof. exact strict_emit_full_refuted. Qed.

Theorem C03_strict_emit_nonvacuous :
  (core_doc ex_core = true /\ strict_safe_doc ex_core = true /\ strict_profile (emit sp_ascii ex_core) = true) /\
  (dfront ex_wide = None /\ strict_safe_doc ex_wide = true /\ strict_profile (emit sp_ascii ex_wide) = true).
Proof. exact (conj ex_core_ok ex_wide_ok). Qed.

(* the grammar sentinel is tried exactly at the end of the leading blank lines (Lexer.init_state is written against this text) *)
Theorem C03_pin_lexer_sentinel :
  lexer_sentinel_guard = pinned_lexer_sentinel_guard /\ lexer_sentinel_pos = pinned_lexer_sentinel_pos /\
  lexer_leading_blank_pattern = pinned_lexer_leading_blank_pattern.
Proof. exact (conj pin_lexer_sentinel_guard (conj pin_lexer_sentinel_pos pin_lexer_leading_blank_pattern)). Qed.

(* ---- LENIENT LAYOUTS CONVERGE (parser half, every depth / list length) ------------------------------------------------
   A layout `lay` fixes, for a core2 document d (comments, scalar lists, sections, blocks, META), the indentation count of
   every line, the number of blank lines after every line, the NEWLINE / INDENT / COMMENT runs inside list brackets, leading
   blank lines and whether ===END=== is written.  layout_ok is the class in which indentation still expresses the same
   structure (children deeper than their header, siblings at least at the first child's indent, dedent after a nested body).
   Any two token lists that spell d in two layouts of the class are read as the SAME document, so every canonicaliser
   `canon` gives identical bytes; the canonical emitter layout is one member of the class. *)
From OV Require Import Lex.Lexer Syn.Parser Rt.TokRound2 Rt.TokRound2Ex Rt.TokLenient Rt.TokLenientEx.
Theorem C03_lenient_layouts_converge :
  forall numcanon holo_ok strict sp alpha idnum d lay1 lay2,
    core2_doc_l d = true -> nums_ok2_l numcanon idnum (dsections d) -> Forall (field_num_ok numcanon) (dmeta d) ->
    layout_ok lay1 d = true -> layout_ok lay2 d = true ->
    forall st1 ts1 tail1 st2 ts2 tail2,
      pbdepth st1 = 0%N -> Forall2 tmatch ts1 (doc2_sh_len idnum lay1 d) -> ptoks st1 = ts1 ++ tail1 ->
      pbdepth st2 = 0%N -> Forall2 tmatch ts2 (doc2_sh_len idnum lay2 d) -> ptoks st2 = ts2 ++ tail2 ->
      exists st1' st2',
        parse_document numcanon holo_ok strict sp alpha st1 = POk d st1' /\
        parse_document numcanon holo_ok strict sp alpha st2 = POk d st2' /\ wext2 st1 st1' /\ wext2 st2 st2'.
Proof. exact lenient_layouts_converge. Qed.

Theorem C03_lenient_layouts_same_canonical :
  forall numcanon holo_ok strict sp alpha idnum (canon : doc -> str) d lay1 lay2,
    core2_doc_l d = true -> nums_ok2_l numcanon idnum (dsections d) -> Forall (field_num_ok numcanon) (dmeta d) ->
    layout_ok lay1 d = true -> layout_ok lay2 d = true ->
    forall st1 ts1 tail1 st2 ts2 tail2,
      pbdepth st1 = 0%N -> Forall2 tmatch ts1 (doc2_sh_len idnum lay1 d) -> ptoks st1 = ts1 ++ tail1 ->
      pbdepth st2 = 0%N -> Forall2 tmatch ts2 (doc2_sh_len idnum lay2 d) -> ptoks st2 = ts2 ++ tail2 ->
      forall d1 d2 s1 s2,
        parse_document numcanon holo_ok strict sp alpha st1 = POk d1 s1 ->
        parse_document numcanon holo_ok strict sp alpha st2 = POk d2 s2 -> canon d1 = canon d2.
Proof. exact lenient_layouts_same_canonical. Qed.

(* the emitter's own layout is in the class, and its shape is the canonical shape of C02 *)
Theorem C03_canonical_layout_in_class :
  forall ml idnum d, (core2_doc d = true -> layout_ok (canonical_lay ml d) d = true) /\
                     doc2_sh_len idnum (canonical_lay ml d) d = doc2_sh ml idnum d.
Proof. exact (fun ml idnum d => conj (layout_ok_canonical ml d) (doc2_sh_len_canonical ml idnum d)). Qed.

(* text level, checked form: whenever the model lexer reads a text as a token list of the shape of d in a layout of the
   class, the whole reader returns d (with exactly the lexer's receipts and only advisory warnings) *)
Theorem C03_text_lenient_checked :
  forall cls numcanon holo_ok strict idnum d lay text ts tail reps,
    core2_doc_l d = true -> nums_ok2_l numcanon idnum (dsections d) -> Forall (field_num_ok numcanon) (dmeta d) ->
    layout_ok lay d = true ->
    strip_frontmatter (u_space cls) (LexLinkBase.lines_of text) = (LexLinkBase.lines_of text, None) ->
    tokenize cls false (LexLinkBase.lines_of text) = LexOk (ts ++ tail) reps ->
    TokRoundEx.all2 TokRoundEx.tmatchb ts (doc2_sh_len idnum lay d) = true ->
    exists warns, parse_model cls numcanon holo_ok strict (LexLinkBase.lines_of text) = PRDoc d reps warns /\ Forall advisory warns.
Proof. exact text_lenient_checked. Qed.

(* outside the class indentation MEANS something else (a dedented child leaves its body ...): the statement without layout_ok is false *)
Definition C03_lenient_layouts_full : Prop := parse_core2_doc_len_full.
Theorem C03_lenient_layouts_full_refuted : ~ parse_core2_doc_len_full.
Proof. exact parse_core2_doc_len_full_refuted. Qed.

(* non-vacuity: two hand-written lenient texts (blank lines, odd indents, lists over several lines with comments inside the brackets,
   no ===END===) are in the class, lex to the layout shape and are read as the document *)
Theorem C03_lenient_nonvacuous :
  layout_ok len_lay len_doc = true /\ layout_ok len2_lay len2_doc = true /\
  parse_model TokRoundEx.ex_cls ex2_numcanon (fun _ => false) true (LexLinkBase.lines_of len2_text) = PRDoc len2_doc [] [].
Proof. exact (conj len_layout_ok (conj len2_layout_ok len2_parses)). Qed.

(* ---- LENIENT LAYOUTS CONVERGE, TEXT LEVEL (lexer half Rt/LexLenient*.v + parser half Rt/TokLenient.v) ---------------------
   render_len lay sg d is a printer, written in Gallina, of the lenient spellings of a core2 document d: layout `lay`
   (indentation count of every line, blank lines anywhere incl. before the first line, line breaks / indents / comment
   lines inside list brackets, ===END=== present or not) and extras `sg` (spaces on blank lines, trailing spaces on node,
   comment and META lines, spaces before and after `::`, spaces after commas, extra spaces before a trailing comment).
   Any two such spellings of d are READ AS d by the whole reader model (lexer with its pre-passes + parser), with no
   repair and only advisory warnings; hence every canonicaliser gives identical bytes, and the canonical text `emit sp d`
   is itself one of the spellings (render_len of the canonical layout with no extras). *)
From OV Require Import Rt.LexLinkBase Rt.LexLink2Text Rt.LexLenientBase Rt.LexLenient Rt.LexLenientCanon Rt.LexLenientEx.
Theorem C03_text_lenient_converge :
  forall cls numcanon holo_ok strict d lay1 sg1 lay2 sg2,
    core2_doc_l d = true -> lex_safe2_doc d = true ->
    nums_ok2_l numcanon ex_idnum (dsections d) -> Forall (field_num_ok numcanon) (dmeta d) ->
    lay_lex lay1 = true -> layout_ok lay1 d = true -> text_clean (render_len lay1 sg1 d) = true ->
    lay_lex lay2 = true -> layout_ok lay2 d = true -> text_clean (render_len lay2 sg2 d) = true ->
    exists w1 w2,
      parse_model cls numcanon holo_ok strict (lines_of (render_len lay1 sg1 d)) = PRDoc d [] w1 /\
      parse_model cls numcanon holo_ok strict (lines_of (render_len lay2 sg2 d)) = PRDoc d [] w2 /\
      Forall advisory w1 /\ Forall advisory w2.
Proof. exact text_lenient_converge. Qed.

Theorem C03_text_lenient_same_canonical :
  forall cls numcanon holo_ok strict sp d lay1 sg1 lay2 sg2,
    core2_doc_l d = true -> lex_safe2_doc d = true ->
    nums_ok2_l numcanon ex_idnum (dsections d) -> Forall (field_num_ok numcanon) (dmeta d) ->
    lay_lex lay1 = true -> layout_ok lay1 d = true -> text_clean (render_len lay1 sg1 d) = true ->
    lay_lex lay2 = true -> layout_ok lay2 d = true -> text_clean (render_len lay2 sg2 d) = true ->
    forall d1 d2 r1 r2 w1 w2,
      parse_model cls numcanon holo_ok strict (lines_of (render_len lay1 sg1 d)) = PRDoc d1 r1 w1 ->
      parse_model cls numcanon holo_ok strict (lines_of (render_len lay2 sg2 d)) = PRDoc d2 r2 w2 ->
      emit sp d1 = emit sp d2.
Proof. exact text_lenient_same_canonical. Qed.

(* the canonical text is the spelling with the emitter's layout and no extras *)
Theorem C03_canonical_is_a_lenient_spelling :
  forall sp d, core2_doc d = true -> lex_safe2_doc d = true ->
    render_len (canonical_lay needs_multiline d) sig0 d = emit sp d.
Proof. exact render_len_canonical. Qed.

(* non-vacuity: a document printed plainly and printed with every extra at once (blank lines with spaces, trailing
   spaces, spaces around ::, after commas) are both read as that document *)
Theorem C03_text_lenient_nonvacuous :
  exists w1 w2,
    parse_model TokRoundEx.ex_cls ex2_numcanon (fun _ => false) true (lines_of (render_len len_lay sig0 len_doc)) = PRDoc len_doc [] w1 /\
    parse_model TokRoundEx.ex_cls ex2_numcanon (fun _ => false) true (lines_of (render_len len_lay len_sig_all len_doc)) = PRDoc len_doc [] w2 /\
    Forall advisory w1 /\ Forall advisory w2.
Proof. exact len_converges_thm. Qed.

(* ---- OPTIONAL QUOTES AROUND PLAIN WORDS CONVERGE (parser half, every depth) -------------------------------------------------
   In the core3 shapes every string site carries its own spelling choice (quoted STRING token, bare IDENTIFIER, $VARIABLE),
   given by arbitrary oracles qa (assignment / META sites, per key and string) and qi (list items); the only requirement is
   that a bare spelling is a word without annotation syntax.  Two token lists that spell the same core3 document with two
   different choices at any subset of sites are read as the same document. *)
From OV Require Rt.BareWordParse Rt.QuoteConverge.
Theorem C03_optional_quotes_converge :
  forall numcanon holo_ok strict sp alpha ml idnum
         (qa1 qa2 : str -> str -> BareWordParse.strk) (qi1 qi2 : str -> BareWordParse.strk),
    (forall k s, qa1 k s = BareWordParse.QIdent -> has_annotation s = false) -> (forall s, qi1 s = BareWordParse.QIdent -> has_annotation s = false) ->
    (forall k s, qa2 k s = BareWordParse.QIdent -> has_annotation s = false) -> (forall s, qi2 s = BareWordParse.QIdent -> has_annotation s = false) ->
    forall d, BareWordParse.core3_doc d = true -> nums_ok2_l numcanon idnum (dsections d) -> Forall (field_num_ok numcanon) (dmeta d) ->
    forall st1 ts1 tail1 st2 ts2 tail2,
      tail1 <> [] -> pbdepth st1 = 0%N -> Forall2 tmatch ts1 (BareWordParse.doc3_sh ml idnum qa1 qi1 d) -> ptoks st1 = ts1 ++ tail1 ->
      tail2 <> [] -> pbdepth st2 = 0%N -> Forall2 tmatch ts2 (BareWordParse.doc3_sh ml idnum qa2 qi2 d) -> ptoks st2 = ts2 ++ tail2 ->
      exists st1' st2',
        parse_document numcanon holo_ok strict sp alpha st1 = POk d st1' /\
        parse_document numcanon holo_ok strict sp alpha st2 = POk d st2'.
Proof. exact QuoteConverge.optional_quotes_converge. Qed.

(* ---- SPELLING FREEDOMS OF STRINGS CONVERGE, TEXT LEVEL (Rt/LexSpell*.v + Rt/MultiWord.v) -----------------------------------
   render_sp qa qm qi d writes the canonical layout with every string site spelled per oracle: quoted, bare word, $VAR,
   TRIPLE-QUOTED, or MULTI-WORD (assignment / META sites; any positive number of blanks between the words).  For any two
   admissible oracle families the whole reader model reads both texts as d -- so both canonicalise to `emit sp d` -- and
   the receipts are exactly the rewrites: one lexer normalization receipt per triple-quoted site (reps = RC ts (doc_tq ..))
   and one multi_word_coalesce record per multi-word site (filter is_mw warns = E ts (doc5_mk ..)), every other warning
   advisory.  The canonical text is the instance with the emitter's own spelling and has no receipt at all. *)
From OV Require Rt.MultiWord Rt.LexSpellText Rt.LexSpell Rt.LexSpellEx.
Theorem C03_text_spellings_same_canonical :
  forall cls numcanon holo_ok strict sp d
         (qa1 : str -> str -> LexSpellText.spelling) (qm1 : str -> LexSpellText.spelling) (qi1 : str -> BareWordParse.strk)
         (qa2 : str -> str -> LexSpellText.spelling) (qm2 : str -> LexSpellText.spelling) (qi2 : str -> BareWordParse.strk),
    core2_doc d = true -> MultiWord.nums_ok2_l numcanon ex_idnum (dsections d) -> Forall (MultiWord.field_num_ok numcanon) (dmeta d) ->
    LexSpellText.sp_safe_doc qa1 qm1 qi1 d = true -> LexSpell.admissible qa1 qm1 qi1 ->
    LexSpellText.sp_safe_doc qa2 qm2 qi2 d = true -> LexSpell.admissible qa2 qm2 qi2 ->
    forall d1 d2 r1 r2 w1 w2,
      parse_model cls numcanon holo_ok strict (lines_of (LexSpellText.render_sp qa1 qm1 qi1 d)) = PRDoc d1 r1 w1 ->
      parse_model cls numcanon holo_ok strict (lines_of (LexSpellText.render_sp qa2 qm2 qi2 d)) = PRDoc d2 r2 w2 ->
      emit sp d1 = emit sp d2 /\ emit sp d1 = emit sp d.
Proof. exact LexSpell.text_spellings_same_canonical. Qed.

Theorem C03_text_spellings_converge :
  forall cls numcanon holo_ok strict d qa1 qm1 qi1 qa2 qm2 qi2,
    core2_doc d = true -> MultiWord.nums_ok2_l numcanon ex_idnum (dsections d) -> Forall (MultiWord.field_num_ok numcanon) (dmeta d) ->
    LexSpellText.sp_safe_doc qa1 qm1 qi1 d = true -> LexSpell.admissible qa1 qm1 qi1 ->
    LexSpellText.sp_safe_doc qa2 qm2 qi2 d = true -> LexSpell.admissible qa2 qm2 qi2 ->
    LexSpell.spelled_reading cls numcanon holo_ok strict qa1 qm1 qi1 d /\ LexSpell.spelled_reading cls numcanon holo_ok strict qa2 qm2 qi2 d.
Proof. exact LexSpell.text_spellings_converge. Qed.

Theorem C03_text_spellings_nonvacuous :
  LexSpell.spelled_reading TokRoundEx.ex_cls ex2_numcanon (fun _ => false) false LexSpellEx.qaX LexSpellEx.qmX LexSpellEx.qiX LexSpellEx.sx_doc.
Proof. exact LexSpellEx.sx_by_theorem. Qed.

(* ---- source-text pins (generated by harness/pinsets.py) ---- *)
(* every function of these modules is, text for text (comments and docstrings excluded), the one the models of this
   property were written against and validated against: harness/translate/srcdigest_t.py, Src/Pin_*.v *)
From OV Require Import Gen.SrcDigestGen Src.Pin_core_lexer Src.Pin_core_parser Src.Pin_core_emitter Src.Pin_core_ast_nodes Src.Pin_mcp_write.
Theorem C03_pin_source_text :
  src_core_lexer_pinned /\ src_core_parser_pinned /\ src_core_emitter_pinned /\ src_core_ast_nodes_pinned /\ src_mcp_write_pinned.
Proof. exact (conj src_core_lexer_pinned_ok (conj src_core_parser_pinned_ok (conj src_core_emitter_pinned_ok (conj src_core_ast_nodes_pinned_ok src_mcp_write_pinned_ok)))). Qed.
