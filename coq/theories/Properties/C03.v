(* C03 -- lenient spellings converge; canonical text is in the strict profile. *)
From OV Require Import Base.Strs Syn.Escape Syn.Quote Lex.Pins_Lexer Gen.LexerGen.

(* the alias table the lexer model consumes is the one of the current source *)
Theorem C03_pin_aliases :
  lexer_ascii_aliases = pinned_lexer_ascii_aliases /\ lexer_token_patterns = pinned_lexer_token_patterns.
Proof. exact (conj pin_lexer_ascii_aliases pin_lexer_token_patterns). Qed.
