(* C04 -- every scalar survives write-then-read.  ONLY theorem statements closed by `exact`. *)
From OV Require Import Base.Strs Syn.Escape.

(* the translator-extracted escape chain of emitter.py is the closed-form escape, for every string *)
Theorem C04_emitter_chain_is_escape : forall s, escape_opt s = Some (escape s).
Proof. exact escape_opt_spec. Qed.

(* the translator-extracted un-escape of lexer.py (one regex pass over _UNESCAPE_MAP) is the single-pass scanner *)
Theorem C04_lexer_unescape_is_single_pass : forall s, unescape_opt s = Some (unescape s).
Proof. exact unescape_opt_spec. Qed.

(* un-escape inverts escape on EVERY string (unconditional since the /repo repair 4b61c18; before it the statement
   needed `no backslash directly before n or t` and was refuted without it: former finding C04-escape-order) *)
Theorem C04_unescape_escape : forall s, unescape (escape s) = s.
Proof. exact unescape_escape_all. Qed.

(* regression: the two strings the four-replace reader got wrong, and what that reader did with them *)
Theorem C04_unescape_escape_regression :
  (unescape (escape [c_bs; c_n]) = [c_bs; c_n] /\ unescape (escape [c_bs; c_t]) = [c_bs; c_t]) /\
  unescape_sequential (escape [c_bs; c_n]) = [c_nl].
Proof. exact (conj unescape_escape_bs_n sequential_reader_was_wrong). Qed.

Theorem C04_escape_safe_nonvacuous : escape_safe [c_bs; c_bs; c_dq; c_nl; c_tab; 97; c_bs; c_dq; c_bs] = true.
Proof. exact escape_safe_example. Qed.

(* ---- ties to the current source text (translator output = what the model was written against) ---- *)
From OV Require Import Gen.EmitterGen Gen.LexerGen Syn.Pins_Emitter Lex.Pins_Lexer Syn.Quote.

Theorem C04_pin_emitter_patterns :
  emitter_identifier_pattern = pinned_emitter_identifier_pattern /\
  emitter_annotation_pattern = pinned_emitter_annotation_pattern /\
  emitter_variable_pattern = pinned_emitter_variable_pattern /\
  emitter_expression_pattern = pinned_emitter_expression_pattern /\
  emitter_always_quote_keys = pinned_emitter_always_quote_keys /\
  emitter_needs_quotes_guards = pinned_emitter_needs_quotes_guards.
Proof.
  exact (conj pin_emitter_identifier_pattern (conj pin_emitter_annotation_pattern (conj pin_emitter_variable_pattern
        (conj pin_emitter_expression_pattern (conj pin_emitter_always_quote_keys pin_emitter_needs_quotes_guards))))).
Qed.

Theorem C04_pin_lexer_tables :
  lexer_token_patterns = pinned_lexer_token_patterns /\ lexer_ascii_aliases = pinned_lexer_ascii_aliases /\
  lexer_operator_chars = pinned_lexer_operator_chars /\ lexer_unescape_map = pinned_lexer_unescape_map /\
  lexer_unescape_pattern = pinned_lexer_unescape_pattern.
Proof.
  exact (conj pin_lexer_token_patterns (conj pin_lexer_ascii_aliases (conj pin_lexer_operator_chars (conj pin_lexer_unescape_map pin_lexer_unescape_pattern)))).
Qed.

(* the quoting decision of the current source is the one the finding classes were established against *)
Theorem C04_needs_quotes_pinned : forall s, needs_quotes s = needs_quotes_pinned s.
Proof. exact needs_quotes_is_pinned. Qed.

(* ---- scalars in assignment position, at every nesting depth, through the TEXT ---- *)
From OV Require Import Lex.Lexer Syn.Ast Syn.Emitter Syn.Parser Rt.TokRound Rt.LexLinkBase Rt.LexLinkSteps Rt.LexLink Rt.LexLinkEx.
(* every document made of assignments KEY::scalar and nested blocks, where each scalar is null, a boolean, a number in
   -?d+(.d+)?([eE][+-]?d+)? whose canonical text the number oracle reproduces, or a string the emitter quotes with no
   backslash directly before n/t (any code points, incl. quote, backslash, newline, tab), is read back from its
   emitted text with the same value AND kind at every position *)
Theorem C04_scalars_survive_text_core :
  forall cls numcanon holo_ok strict sp d,
    core_doc d = true -> lex_safe_doc d = true -> nums_ok_l numcanon (dsections d) ->
    exists warns, parse_model cls numcanon holo_ok strict (lines_of (emit sp d)) = PRDoc d [] warns /\ Forall advisory warns.
Proof. exact text_roundtrip_core. Qed.

(* the side condition lex_safe_doc is needed (keys that are literals/operators, bare-emitted strings ...) *)
Theorem C04_scalars_survive_full_refuted : ~ lex_emit_core_full.
Proof. exact lex_emit_core_full_refuted. Qed.

From OV Require Rt.TokRound2 Rt.TokRound2Ex.
From OV Require Rt.BareWordParse Rt.BareWordLex Rt.BareWord Rt.BareWordEx.
(* BARE strings keep value and kind: a string the emitter writes without quotes (bare_ok / var_ok) comes back as the same
   string, never as a literal, number or operator, at every depth, in lists and in META (core3) *)
Theorem C04_bare_strings_survive_text_core3 :
  forall cls numcanon holo_ok strict sp d,
    BareWordParse.core3_doc d = true -> BareWord.lex_safe3_doc d = true ->
    TokRound2.nums_ok2_l numcanon TokRound2Ex.ex_idnum (dsections d) -> Forall (TokRound2.field_num_ok numcanon) (dmeta d) ->
    exists warns, parse_model cls numcanon holo_ok strict (lines_of (emit sp d)) = PRDoc d [] warns /\ Forall advisory warns.
Proof. exact BareWord.text_roundtrip_core3. Qed.
(* ... and the reserved-word-segment strings the emitter leaves bare (true.x) are a genuine counterexample outside lex_safe3 *)
Theorem C04_bare_reserved_segment_refuted :
  exists d, BareWordParse.core3_doc d = true /\ BareWord.lex_safe3_doc d = false /\
            ~ BareWordEx.lex_emit_core3_concl TokRoundEx.ex_cls (fun _ => false) d /\ BareWordEx.rt3_fails d.
Proof. exact BareWordEx.lex_emit_core3_refuted_reserved_segment_true. Qed.

(* scalars in ALL FOUR positions (assignment, META, list item at any nesting depth, inline-map value): whenever the shape
   check accepts the emitted text of a core4 document, the reader returns that document, so every scalar keeps value and kind *)
From OV Require Rt.TokRound4 Rt.TokRound4Ex.
Theorem C04_scalars_in_lists_and_maps_core4 :
  forall cls numcanon holo_ok strict d text,
    TokRound4Ex.core4_shape_check cls d (lines_of text) = 1%N ->
    TokRound4.nums_ok4_l numcanon TokRound2Ex.ex_idnum (dsections d) ->
    Forall (TokRound4.field_num_ok4 numcanon TokRound2Ex.ex_idnum) (dmeta d) ->
    strip_frontmatter (u_space cls) (lines_of text) = (lines_of text, None) ->
    exists warns, parse_model cls numcanon holo_ok strict (lines_of text) = PRDoc d [] warns /\ Forall TokRound4.advisory4 warns.
Proof. exact TokRound4Ex.core4_shape_check_sound. Qed.

(* ALL FOUR POSITIONS, text level: every scalar of a core4 document (assignment, META, list item at any nesting depth,
   inline-map value) keeps value and kind through the emitted text *)
From OV Require Rt.LexLink4Text Rt.LexLink4.
Theorem C04_scalars_survive_text_core4 :
  forall cls numcanon holo_ok strict sp d,
    TokRound4.core4_doc d = true -> LexLink4.lex_safe4_doc d = true ->
    TokRound4.nums_ok4_l numcanon TokRound2Ex.ex_idnum (dsections d) ->
    Forall (TokRound4.field_num_ok4 numcanon TokRound2Ex.ex_idnum) (dmeta d) ->
    exists warns, parse_model cls numcanon holo_ok strict (lines_of (emit sp d)) = PRDoc d [] warns /\ Forall TokRound4.advisory4 warns.
Proof. exact LexLink4.text_roundtrip_core4. Qed.

(* ---- source-text pins (generated by harness/pinsets.py) ---- *)
(* every function of these modules is, text for text (comments and docstrings excluded), the one the models of this
   property were written against and validated against: harness/translate/srcdigest_t.py, Src/Pin_*.v *)
From OV Require Import Gen.SrcDigestGen Src.Pin_core_lexer Src.Pin_core_parser Src.Pin_core_emitter Src.Pin_core_ast_nodes Src.Pin_mcp_write.
Theorem C04_pin_source_text :
  src_core_lexer_pinned /\ src_core_parser_pinned /\ src_core_emitter_pinned /\ src_core_ast_nodes_pinned /\ src_mcp_write_pinned.
Proof. exact (conj src_core_lexer_pinned_ok (conj src_core_parser_pinned_ok (conj src_core_emitter_pinned_ok (conj src_core_ast_nodes_pinned_ok src_mcp_write_pinned_ok)))). Qed.
