(* C18 -- absent, null and value stay distinct; changes touch only named keys (I2).
   ONLY theorem statements closed by `exact` (+ Definitions of the `_full` statements). *)
From OV Require Import Base.Strs Gen.ChangesGen Syn.Ast Syn.Emitter Syn.Parser Chg.Changes Chg.ChangesFacts Chg.Pins_Changes.
Require Coq.Strings.String.
Import Coq.Strings.String.StringSyntax.
Open Scope N_scope.

(* ---- Absent is never written ------------------------------------------------------------------------------------------- *)
(* for every document and every frontmatter whitespace oracle; unconditional since /repo 1d4faf6 (finding
   C18-meta-all-absent-blank-line, fixed: before it a non-empty all-Absent META left an empty line) *)
Theorem C18_absent_never_emitted : forall sp d, emit sp (drop_absent d) = emit sp d.
Proof. exact absent_never_emitted. Qed.
(* regression: the all-Absent META document prints exactly the text of the document without META *)
Theorem C18_all_absent_meta_regression :
  meta_all_absent blank_meta_doc = true /\
  emit (fun _ => false) blank_meta_doc = emit (fun _ => false) no_meta_doc /\
  emit (fun _ => false) blank_meta_doc = lit "===D===" ++ [c_nl] ++ lit "// c" ++ [c_nl] ++ lit "//" ++ [c_nl] ++ lit "K::1" ++ [c_nl] ++ lit "===END===" ++ [c_nl].
Proof. exact all_absent_meta_regression. Qed.
(* drop_absent really leaves no Absent anywhere, so the left-hand side above is the text of an Absent-free document *)
Theorem C18_drop_absent_free : forall d, doc_absent_free (drop_absent d) = true.
Proof. exact drop_absent_free. Qed.
(* value / node level, every indent *)
Theorem C18_absent_value : forall v i, emit_value (drop_value v) i = emit_value v i.
Proof. exact emit_value_drop. Qed.
Theorem C18_absent_nodes : forall ns j,
  flat_map (fun n => emit_node_lines n j) (flat_map drop_node ns) = flat_map (fun n => emit_node_lines n j) ns.
Proof. exact emit_nodes_drop. Qed.
Theorem C18_absent_nonvacuous :
  meta_all_absent absent_doc = false /\ doc_absent_free absent_doc = false /\ drop_absent absent_doc <> absent_doc /\
  emit (fun _ => false) absent_doc = emit (fun _ => false) (drop_absent absent_doc).
Proof. exact ex_absent. Qed.

(* ---- null, "" and [] ------------------------------------------------------------------------------------------------------ *)
Theorem C18_null_empty_distinct : forall k l t j,
  emit_assignment_lines k VNull l t j = emit_leading l j ++ [ind j ++ k ++ s_assign ++ lit "null" ++ emit_trailing t] /\
  emit_assignment_lines k (VStr []) l t j = emit_leading l j ++ [ind j ++ k ++ s_assign ++ [c_dq; c_dq] ++ emit_trailing t] /\
  emit_assignment_lines k (VList []) l t j = emit_leading l j ++ [ind j ++ k ++ s_assign ++ [c_lbr; c_rbr] ++ emit_trailing t] /\
  emit_assignment_lines k VNull l t j <> emit_assignment_lines k (VStr []) l t j /\
  emit_assignment_lines k VNull l t j <> emit_assignment_lines k (VList []) l t j /\
  emit_assignment_lines k (VStr []) l t j <> emit_assignment_lines k (VList []) l t j.
Proof. exact null_empty_distinct_lines. Qed.
(* one concrete document with the three values at every kind of position, read back by the parser model *)
Theorem C18_null_empty_readback :
  parse_model (fun _ => 0) (fun _ => None) (fun _ => false) true (lines_of (emit (fun _ => false) null_empty_doc)) =
  PRDoc null_empty_doc [] [].
Proof. exact null_empty_readback. Qed.

(* ---- emit is compositional -------------------------------------------------------------------------------------------------- *)
Theorem C18_emit_compositional : forall sp d,
  emit_lines sp d = head_lines sp d ++ meta_part (dmeta d) ++ sep_lines d ++ body_lines d ++ foot_lines d.
Proof. exact emit_compositional. Qed.

(* ---- changes: frame ----------------------------------------------------------------------------------------------------------- *)
Theorem C18_changes_frame : forall d ch,
  filter (untouched ch) (dsections (apply_changes d ch)) = filter (untouched ch) (dsections d).
Proof. exact changes_frame. Qed.
Theorem C18_changes_frame_lines : forall d ch,
  flat_map top_lines (filter (untouched ch) (dsections (apply_changes d ch))) =
  flat_map top_lines (filter (untouched ch) (dsections d)).
Proof. exact changes_frame_lines. Qed.
Theorem C18_changes_structural_frame : forall d ch,
  filter is_structural (dsections (apply_changes d ch)) = filter is_structural (dsections d).
Proof. exact changes_structural_frame. Qed.
Theorem C18_changes_header_frame : forall ch d,
  dname (apply_changes d ch) = dname d /\ dgrammar (apply_changes d ch) = dgrammar d /\
  dfront (apply_changes d ch) = dfront d /\ dsep (apply_changes d ch) = dsep d /\
  dtrailing (apply_changes d ch) = dtrailing d.
Proof. exact changes_header_frame. Qed.
Theorem C18_changes_sections_untouched : forall d ch, top_keys ch = [] -> dsections (apply_changes d ch) = dsections d.
Proof. exact changes_sections_untouched. Qed.
Theorem C18_changes_meta_untouched : forall d ch, request_meta_ops ch = [] -> dmeta (apply_changes d ch) = dmeta d.
Proof. exact changes_meta_untouched. Qed.
Theorem C18_changes_text_frame : forall sp d ch, request_meta_ops ch = [] ->
  emit_lines sp (apply_changes d ch) =
  head_lines sp d ++ meta_part (dmeta d) ++ sep_lines d ++ flat_map top_lines (dsections (apply_changes d ch)) ++ foot_lines d.
Proof. exact changes_text_frame. Qed.
Theorem C18_changes_frame_nonvacuous :
  filter (untouched ex_req) (dsections ex_doc) =
  [NBlock (lit "BLK") None [NAssign (lit "A") (VNum false (lit "3")) [] None] [];
   NSection (lit "1") (lit "S") None [NAssign (lit "A") (VNum false (lit "4")) [] None] []] /\
  dsections (apply_changes ex_doc ex_req) <> dsections ex_doc.
Proof. exact ex_frame_nonvacuous. Qed.

(* ---- changes: DELETE / null / value ------------------------------------------------------------------------------------------ *)
Theorem C18_changes_final_top : forall ch d k, top_state k (apply_changes d ch) (top_last ch k) (top_find k d).
Proof. exact changes_final_top. Qed.
Theorem C18_changes_delete : forall d k v, routes_top k v = true -> is_delete_sentinel v = true ->
  dsections (apply_change d k v) = delete_key k (dsections d) /\
  forall n, In n (dsections (apply_change d k v)) -> is_assign_key k n = false.
Proof. exact changes_delete. Qed.
Theorem C18_changes_delete_exact : forall d k v, routes_top k v = true -> is_delete_sentinel v = true ->
  forall n, In n (dsections (apply_change d k v)) <-> In n (dsections d) /\ is_assign_key k n = false.
Proof. exact changes_delete_exact. Qed.
Theorem C18_changes_null : forall d k, prefixb s_meta_dot k = false ->
  exists l t, top_find k (apply_change d k JNull) = Some (NAssign k VNull l t).
Proof. exact changes_null. Qed.
Theorem C18_changes_set_first_or_append : forall d k v, routes_top k v = true -> is_delete_sentinel v = false ->
  let ns := dsections d in let ns' := dsections (apply_change d k v) in
  (existsb (is_assign_key k) ns = false /\ ns' = ns ++ [NAssign k (norm_value v) [] None]) \/
  (exists l1 old l t l2, ns = l1 ++ NAssign k old l t :: l2 /\ existsb (is_assign_key k) l1 = false /\
                         ns' = l1 ++ NAssign k (norm_value v) l t :: l2).
Proof. exact changes_set. Qed.
(* "sets exactly that value" for every assignment of the key: true with at most one occurrence, false with duplicates *)
Definition C18_changes_set_full : Prop := forall d k v, routes_top k v = true -> is_delete_sentinel v = false ->
  forall n, In n (dsections (apply_change d k v)) -> is_assign_key k n = true -> value_of n = Some (norm_value v).
Theorem C18_changes_set_refuted : exists d k v n, routes_top k v = true /\ is_delete_sentinel v = false /\
  In n (dsections (apply_change d k v)) /\ is_assign_key k n = true /\ value_of n <> Some (norm_value v).
Proof. exact changes_set_refuted. Qed.
Theorem C18_changes_set_partial : forall d k v, routes_top k v = true -> is_delete_sentinel v = false ->
  (length (filter (is_assign_key k) (dsections d)) <= 1)%nat ->
  forall n, In n (dsections (apply_change d k v)) -> is_assign_key k n = true -> value_of n = Some (norm_value v).
Proof. exact changes_set_unique. Qed.
Theorem C18_changes_set_nonvacuous : (length (filter (is_assign_key (lit "B")) (dsections ex_doc)) <= 1)%nat /\
  routes_top (lit "B") (JStr (lit "v")) = true.
Proof. exact ex_set_unique_hyp. Qed.
Theorem C18_changes_state_nonvacuous :
  top_last ex_req (lit "A") = Some JNull /\ top_last ex_req (lit "B") = Some sentinel /\ top_last ex_req (lit "ZZ") = None /\
  is_delete_sentinel sentinel = true /\ is_delete_sentinel JNull = false.
Proof. exact ex_top_last. Qed.

(* ---- changes: META ------------------------------------------------------------------------------------------------------------ *)
Theorem C18_meta_merge_frame : forall d ch,
  filter (fun kv => negb (meta_named ch (fst kv))) (dmeta (apply_changes d ch)) =
  filter (fun kv => negb (meta_named ch (fst kv))) (dmeta d).
Proof. exact meta_merge_frame. Qed.
Theorem C18_meta_final : forall ch d k,
  meta_state k (dmeta (apply_changes d ch)) (mop_last (request_meta_ops ch) k) (dict_get (dmeta d) k).
Proof. exact changes_final_meta. Qed.
Theorem C18_meta_dot_set : forall d k v, is_delete_sentinel v = false ->
  dmeta (apply_change d (s_meta_dot ++ k) v) = dict_set (dmeta d) k (MV (norm_value v)) /\
  dsections (apply_change d (s_meta_dot ++ k) v) = dsections d.
Proof. exact meta_dot_set. Qed.
Theorem C18_meta_delete : forall d k v, is_delete_sentinel v = true ->
  dmeta (apply_change d (s_meta_dot ++ k) v) = dict_del (dmeta d) k /\
  dict_get (dmeta (apply_change d (s_meta_dot ++ k) v)) k = None /\
  dsections (apply_change d (s_meta_dot ++ k) v) = dsections d.
Proof. exact meta_delete. Qed.
Theorem C18_meta_dict_delete : forall d ps k,
  is_delete_sentinel (JDict ps) = false -> mop_last (map (fun p => mop_of (fst p) (snd p)) ps) k = Some None ->
  dict_get (dmeta (apply_change d s_meta (JDict ps))) k = None.
Proof. exact meta_dict_delete. Qed.
Theorem C18_meta_position_fresh : forall (m : list (str * metaval)) k x, dict_get m k = None -> dict_set m k x = m ++ [(k, x)].
Proof. exact (@dict_set_fresh metaval). Qed.
Theorem C18_meta_position_kept : forall (m : list (str * metaval)) k x, dict_get m k <> None -> map fst (dict_set m k x) = map fst m.
Proof. exact (@dict_set_keys metaval). Qed.
Theorem C18_meta_keys_nodup : forall d ch, NoDup (map fst (dmeta d)) -> NoDup (map fst (dmeta (apply_changes d ch))).
Proof. exact meta_keys_nodup. Qed.
Theorem C18_meta_nonvacuous :
  (filter (fun kv => negb (meta_named ex_req (fst kv))) (dmeta ex_doc) = [(lit "N", MD [(lit "A", VNum false (lit "1"))])] /\
   dmeta (apply_changes ex_doc ex_req) <> dmeta ex_doc) /\
  mop_last (request_meta_ops ex_req) (lit "TYPE") = Some None /\
  mop_last (request_meta_ops ex_req) (lit "VERSION") = Some (Some JNull) /\
  mop_last (request_meta_ops ex_req) (lit "N") = None.
Proof. exact (conj ex_meta_frame_nonvacuous ex_mop_last). Qed.

(* ---- mutations and sequences ---------------------------------------------------------------------------------------------------- *)
Theorem C18_mutations_as_changes : forall ms d,
  apply_mutations d ms = apply_changes d (map (fun kv => (s_meta_dot ++ fst kv, snd kv)) ms).
Proof. exact mutations_as_changes. Qed.
Theorem C18_apply_seq_concat : forall reqs d, apply_seq d reqs = apply_changes d (concat reqs).
Proof. exact apply_seq_concat. Qed.
Theorem C18_seq_frame : forall d reqs,
  filter (untouched (concat reqs)) (dsections (apply_seq d reqs)) = filter (untouched (concat reqs)) (dsections d).
Proof. exact seq_frame. Qed.
Theorem C18_seq_meta_frame : forall d reqs,
  filter (fun kv => negb (meta_named (concat reqs) (fst kv))) (dmeta (apply_seq d reqs)) =
  filter (fun kv => negb (meta_named (concat reqs) (fst kv))) (dmeta d).
Proof. exact seq_meta_frame. Qed.
Theorem C18_seq_final_top : forall d reqs k, top_state k (apply_seq d reqs) (top_last (concat reqs) k) (top_find k d).
Proof. exact seq_final_top. Qed.
Theorem C18_seq_final_meta : forall d reqs k,
  meta_state k (dmeta (apply_seq d reqs)) (mop_last (request_meta_ops (concat reqs)) k) (dict_get (dmeta d) k).
Proof. exact seq_final_meta. Qed.
Theorem C18_seq_header_frame : forall d reqs,
  dname (apply_seq d reqs) = dname d /\ dgrammar (apply_seq d reqs) = dgrammar d /\ dfront (apply_seq d reqs) = dfront d /\
  dsep (apply_seq d reqs) = dsep d /\ dtrailing (apply_seq d reqs) = dtrailing d.
Proof. exact seq_header_frame. Qed.

(* ---- the CLI loop (`octave write --changes`) ---------------------------------------------------------------------------------- *)
Theorem C18_cli_frame : forall ch d d', cli_apply_changes d ch = Some d' ->
  filter (untouched ch) (dsections d') = filter (untouched ch) (dsections d).
Proof. exact cli_frame. Qed.
Definition C18_cli_meta_merge_full : Prop := forall d ch d', cli_apply_changes d ch = Some d' ->
  filter (fun kv => negb (meta_named ch (fst kv))) (dmeta d') = filter (fun kv => negb (meta_named ch (fst kv))) (dmeta d).
Theorem C18_cli_meta_merge_refuted : exists d ch d' k, cli_apply_changes d ch = Some d' /\
  meta_named ch k = false /\ dict_get (dmeta d) k <> None /\ dict_get (dmeta d') k = None.
Proof. exact cli_meta_merge_refuted. Qed.
Definition C18_cli_meta_delete_full : Prop := forall d k v d', is_delete_sentinel v = true ->
  cli_apply_change d (s_meta_dot ++ k) v = Some d' -> dict_get (dmeta d') k = None.
Theorem C18_cli_meta_delete_refuted : exists d k v d', is_delete_sentinel v = true /\
  cli_apply_change d (s_meta_dot ++ k) v = Some d' /\ dict_get (dmeta d') k <> None.
Proof. exact cli_meta_delete_refuted. Qed.
Theorem C18_cli_top_structured_out_of_model : forall d k v, routes_top k v = true ->
  match v with JList _ | JDict _ => True | _ => False end -> cli_apply_change d k v = None.
Proof. exact cli_top_structured_out_of_model. Qed.

(* ---- ties to the current source text ------------------------------------------------------------------------------------------- *)
Theorem C18_pin_changes_literals :
  changes_sentinel_key = pinned_changes_sentinel_key /\ changes_sentinel_value = pinned_changes_sentinel_value /\
  changes_sentinel_test = pinned_changes_sentinel_test /\ changes_delete_sentinel_literal = pinned_changes_delete_sentinel_literal /\
  changes_meta_dot_prefix = pinned_changes_meta_dot_prefix /\ changes_meta_slice = pinned_changes_meta_slice /\
  changes_meta_key = pinned_changes_meta_key.
Proof.
  exact (conj pin_changes_sentinel_key (conj pin_changes_sentinel_value (conj pin_changes_sentinel_test
        (conj pin_changes_delete_sentinel_literal (conj pin_changes_meta_dot_prefix (conj pin_changes_meta_slice pin_changes_meta_key)))))).
Qed.
Theorem C18_pin_apply_changes :
  changes_guard_chain = pinned_changes_guard_chain /\ changes_branch_src = pinned_changes_branch_src /\
  changes_loop_header = pinned_changes_loop_header /\ changes_mutations_src = pinned_changes_mutations_src /\
  changes_normalize_cases = pinned_changes_normalize_cases /\ changes_normalize_src = pinned_changes_normalize_src /\
  changes_execute_calls = pinned_changes_execute_calls.
Proof.
  exact (conj pin_changes_guard_chain (conj pin_changes_branch_src (conj pin_changes_loop_header (conj pin_changes_mutations_src
        (conj pin_changes_normalize_cases (conj pin_changes_normalize_src pin_changes_execute_calls)))))).
Qed.
Theorem C18_pin_cli_changes :
  changes_cli_guard_chain = pinned_changes_cli_guard_chain /\ changes_cli_branch_src = pinned_changes_cli_branch_src /\
  changes_cli_loop_header = pinned_changes_cli_loop_header.
Proof. exact (conj pin_changes_cli_guard_chain (conj pin_changes_cli_branch_src pin_changes_cli_loop_header)). Qed.
Theorem C18_pin_emitter_absent_filters :
  emitter_absent_sites = pinned_emitter_absent_sites /\ emitter_absent_raise = pinned_emitter_absent_raise /\
  emitter_meta_block_src = pinned_emitter_meta_block_src /\ emitter_comment_src = pinned_emitter_comment_src.
Proof. exact (conj pin_emitter_absent_sites (conj pin_emitter_absent_raise (conj pin_emitter_meta_block_src pin_emitter_comment_src))). Qed.
(* emit() appends the META block only when emit_meta returned something (`if meta_text:`, /repo 1d4faf6) -- the source fact
   the unconditional C18_absent_never_emitted rests on *)
Theorem C18_emitter_meta_guarded : emitter_meta_guarded = true.
Proof. exact pin_emitter_meta_guarded. Qed.

(* ---- source-text pins (generated by harness/pinsets.py) ---- *)
(* every function of these modules is, text for text (comments and docstrings excluded), the one the models of this
   property were written against and validated against: harness/translate/srcdigest_t.py, Src/Pin_*.v *)
From OV Require Import Gen.SrcDigestGen Src.Pin_mcp_write Src.Pin_core_emitter Src.Pin_core_lexer Src.Pin_core_parser Src.Pin_cli_main.
Theorem C18_pin_source_text :
  src_mcp_write_pinned /\ src_core_emitter_pinned /\ src_core_lexer_pinned /\ src_core_parser_pinned /\ src_cli_main_pinned.
Proof. exact (conj src_mcp_write_pinned_ok (conj src_core_emitter_pinned_ok (conj src_core_lexer_pinned_ok (conj src_core_parser_pinned_ok src_cli_main_pinned_ok)))). Qed.
