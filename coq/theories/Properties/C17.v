(* C17 -- base_hash is a real compare-and-swap; failed and dry calls change nothing.
   ONLY statements closed by `exact`.  Model: Fs/Cas.v (register spec vs the generated protocol run without
   faults), Fs/Interleave.v (two writers, any merge of their file operations).
   PARTIAL: interleavings are at file-operation granularity (no preemption inside a CPython call). *)
From OV Require Import Base.Strs Fs.Fs Fs.ProtoSyntax Fs.WriteProto Fs.Atomic Fs.Cas Fs.Interleave.

(* for ALL histories of {content/changes/normalize/corrections_only calls via execute, atomic_write_octave,
   external modification}, any base_hash, any pipeline oracle: outputs and final content = register spec *)
Theorem C17_cas_refines : forall H target parent tmp chain nval orc, paths_ok target tmp chain ->
  forall h s, good target parent tmp chain s ->
  snd (run_impl H target parent tmp chain nval orc s h) = snd (run_spec H (fs_read target s) h) /\
  fs_read target (fst (run_impl H target parent tmp chain nval orc s h)) = fst (run_spec H (fs_read target s) h) /\
  good target parent tmp chain (fst (run_impl H target parent tmp chain nval orc s h)).
Proof. exact cas_refines. Qed.

(* the spec register is a CAS: with a base_hash the content does not hash to, the call is E_HASH and changes nothing *)
Theorem C17_spec_is_cas : forall H cur o d b, cur = Some d -> hash_bad H (Some b) d = true ->
  (forall m pipe dry, o = HExec m pipe (Some b) dry -> spec_step H cur o = (cur, RFail E_HASH)) /\
  (forall c, o = HAtomic c (Some b) -> spec_step H cur o = (cur, RFail E_HASH)).
Proof. exact spec_is_cas. Qed.

(* a call that returns an error leaves EVERY path as it was *)
Theorem C17_error_unchanged : forall H target parent tmp chain nval orc, paths_ok target tmp chain ->
  forall s o c, good target parent tmp chain s -> is_write o = true ->
  snd (impl_step H target parent tmp chain nval orc s o) = RFail c ->
  forall q, lookup q (fst (impl_step H target parent tmp chain nval orc s o)) = lookup q s.
Proof. exact error_unchanged. Qed.

Theorem C17_dryrun_unchanged : forall H target parent tmp chain nval orc, paths_ok target tmp chain ->
  forall s m pipe b, good target parent tmp chain s ->
  forall q, lookup q (fst (impl_step H target parent tmp chain nval orc s (HExec m pipe b true))) = lookup q s.
Proof. exact dryrun_unchanged. Qed.

(* writers holding the same base_hash, run one after the other (execute() has no await): at most one succeeds *)
Theorem C17_serial_at_most_one : forall H target parent tmp chain nval orc, paths_ok target tmp chain ->
  forall b ws s, good target parent tmp chain s -> Forall (holds H b) ws ->
  (count_ok (snd (run_impl H target parent tmp chain nval orc s ws)) <= 1)%nat.
Proof. exact serial_at_most_one. Qed.

(* ---- two concurrent writers: the full statement is FALSE of the faithful model --------------------------- *)
Definition C17_two_writers_full : Prop := two_writers_full.
Theorem C17_two_writers_refuted : exists sch, In sch (merges 6 6) /\ both_succeed (run6 sch) = true /\
  s_file (run6 sch) = c_newB.
Proof. exact two_writers_refuted. Qed.
(* COMPLETE classification, bound = all 924 merges of two 6-step writers: both succeed exactly when each
   writer's re-read precedes the other's replace *)
Theorem C17_interleavings_classified : forall sch, In sch (merges 6 6) -> both_succeed (run6 sch) = in_window sch.
Proof. exact interleavings_classified. Qed.
Theorem C17_interleavings_count : length (merges 6 6) = 924%nat /\ count_window = 756%nat.
Proof. exact (conj merges_6_6_count (proj1 count_window_val)). Qed.
(* what a repair must establish: re-read + compare + replace as ONE atomic step => at most one success, ALL schedules *)
Theorem C17_locked_at_most_one : forall H base newA newB, str_eqb (H newA) base = false -> str_eqb (H newB) base = false ->
  forall old sch, both_succeed (run_locked H base newA newB old sch) = false.
Proof. exact locked_at_most_one. Qed.
Theorem C17_no_await_pin : Gen.WriteGen.wt_execute_has_await = false.
Proof. exact pin_no_await. Qed.
