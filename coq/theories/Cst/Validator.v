(* Document level: Validator._validate_section / _validate_unknown_fields (core/validator.py) on one schema'd
   block, and what mcp/validate.py makes of the resulting list.

   schema   = ordered fields (name, Some chain | None when the field has no parsed constraints) + UNKNOWN_FIELDS text
   instance = the Assignment children of the block, in document order (duplicates allowed: the last one wins,
              as in the `present_fields` dict)
   Scope: field names of the schema are distinct; targets are the builtin SELF (no E009 routing errors).
   The unknown-field errors are produced in document order here, `sorted()` in the source: the harness compares
   them as sets. *)
From OV Require Import Base.Strs Cst.Lits Cst.PyVal Cst.Constraints Cst.Chain Gen.ConstraintsGen.
From Coq Require Import ZArith.
Open Scope N_scope.

Record verr := mkverr { ve_code : str; ve_path : str; ve_sev : str }.

Record schema := mkschema { sc_fields : list (str * option (list cst)); sc_policy : str }.

Definition path (sec f : str) : str := sec ++ [c_dot] ++ f.

Fixpoint lookup_last (k : str) (inst : list (str * pyval)) : option pyval :=
  match inst with
  | [] => None
  | (k', v) :: t =>
      match lookup_last k t with
      | Some x => Some x
      | None => if str_eqb k k' then Some v else None
      end
  end.

Fixpoint dedup (l : list str) : list str :=
  match l with
  | [] => []
  | x :: t => if str_in x t then dedup t else x :: dedup t
  end.

Definition field_names (sc : schema) : list str := map fst (sc_fields sc).
Definition unknown_keys (sc : schema) (inst : list (str * pyval)) : list str :=
  dedup (filter (fun k => negb (str_in k (field_names sc))) (map fst inst)).

(* UnknownFieldPolicy(policy_str), ValueError -> REJECT *)
Definition policy_norm (p : str) : str := if str_in p (map snd val_policy_members) then p else p_REJECT.

Definition unknown_errors (sec : str) (sc : schema) (inst : list (str * pyval)) : list verr :=
  match find (fun r => str_eqb (fst (fst r)) (policy_norm (sc_policy sc))) val_unknown_table with
  | Some (_, code, sv) => map (fun k => mkverr code (path sec k) sv) (unknown_keys sc inst)
  | None => []
  end.

Definition missing_code : str := nth 0 val_section_codes [].

Definition field_errors (oof : str -> orc) (sec : str) (inst : list (str * pyval)) (f : str * option (list cst)) : list verr :=
  match snd f with
  | None => []
  | Some ch =>
      let missing := if existsb is_req ch then [mkverr missing_code (path sec (fst f)) val_default_severity] else [] in
      match lookup_last (fst f) inst with
      | None => missing
      | Some (PA ANone) => missing
      | Some v => map (fun c => mkverr c (path sec (fst f)) val_default_severity) (codes (chain_eval (oof (fst f)) ch v))
      end
  end.

Definition validate_section (oof : str -> orc) (sec : str) (sc : schema) (inst : list (str * pyval)) : list verr :=
  unknown_errors sec sc inst ++ flat_map (field_errors oof sec inst) (sc_fields sc).

(* mcp/validate.py (STANDARD/STRICT profile): any non-empty list => INVALID, every entry copied into
   validation_errors as (code, field) -- the severity is never read (Gen: tool_reads_severity = false) *)
Definition tool_invalid (errs : list verr) : bool := match errs with [] => false | _ => true end.
Definition tool_validation_errors (errs : list verr) : list (str * str) := map (fun e => (ve_code e, ve_path e)) errs.

(* ---- pins on what the model consumes ---- *)
Lemma missing_code_pin : missing_code = s_E003 /\ val_default_severity = sev_error.
Proof. vm_compute. split; reflexivity. Qed.
Lemma unknown_table_pin :
  val_unknown_table = [(p_REJECT, s_E007, sev_error); (p_WARN, s_W001, sev_warning)]
  /\ val_policy_members = [(p_REJECT, p_REJECT); (p_IGNORE, p_IGNORE); (p_WARN, p_WARN)].
Proof. vm_compute. split; reflexivity. Qed.
Lemma tool_severity_pin : tool_reads_severity = false.
Proof. reflexivity. Qed.

(* ---- lemmas ---- *)
Lemma str_in_In' s l : str_in s l = true <-> In s l.
Proof.
  induction l as [|x l IH]; cbn; [split; [discriminate|tauto]|].
  rewrite orb_true_iff, IH, str_eqb_eq. split; intros [H|H]; auto.
Qed.

Lemma dedup_In x l : In x (dedup l) <-> In x l.
Proof.
  induction l as [|y t IH]; cbn; [tauto|]. destruct (str_in y t) eqn:E.
  - rewrite IH. split; [auto|]. intros [<-|H]; [apply str_in_In'; exact E|exact H].
  - cbn. rewrite IH. tauto.
Qed.

Lemma lookup_last_none k inst : ~ In k (map fst inst) -> lookup_last k inst = None.
Proof.
  induction inst as [|[k' v] t IH]; cbn; [reflexivity|]. intro H.
  rewrite IH by tauto. destruct (str_eqb k k') eqn:E; [|reflexivity].
  apply str_eqb_eq in E. subst. tauto.
Qed.

Definition is_unknown (sc : schema) (inst : list (str * pyval)) (k : str) : Prop :=
  In k (map fst inst) /\ str_in k (field_names sc) = false.

Lemma unknown_keys_spec sc inst k : In k (unknown_keys sc inst) <-> is_unknown sc inst k.
Proof.
  unfold unknown_keys, is_unknown. rewrite dedup_In, filter_In, negb_true_iff. tauto.
Qed.

(* a required field that is missing (or present as null) produces an error naming it, whatever else happens *)
Theorem missing_req_named oof sec sc inst f ch :
  In (f, Some ch) (sc_fields sc) -> existsb is_req ch = true -> ~ In f (map fst inst) ->
  In (mkverr s_E003 (path sec f) sev_error) (validate_section oof sec sc inst).
Proof.
  intros Hf Hreq Hmiss. unfold validate_section. apply in_or_app. right.
  apply in_flat_map. exists (f, Some ch). split; [exact Hf|].
  unfold field_errors. cbn [fst snd]. rewrite (lookup_last_none _ _ Hmiss), Hreq.
  destruct missing_code_pin as [-> ->]. left. reflexivity.
Qed.

Theorem unknown_reject_named oof sec sc inst k :
  policy_norm (sc_policy sc) = p_REJECT -> is_unknown sc inst k ->
  In (mkverr s_E007 (path sec k) sev_error) (validate_section oof sec sc inst).
Proof.
  intros Hp Hu. unfold validate_section. apply in_or_app. left.
  unfold unknown_errors. rewrite Hp. destruct unknown_table_pin as [-> _]. cbn [find fst snd].
  replace (str_eqb p_REJECT p_REJECT) with true by (vm_compute; reflexivity).
  apply in_map_iff. exists k. split; [reflexivity|]. apply unknown_keys_spec. exact Hu.
Qed.

(* any UNKNOWN_FIELDS text that is not a policy name behaves as REJECT *)
Lemma policy_invalid_is_reject p : str_in p [p_REJECT; p_IGNORE; p_WARN] = false -> policy_norm p = p_REJECT.
Proof.
  unfold policy_norm. destruct unknown_table_pin as [_ E]. rewrite E. intro H.
  change (map snd [(p_REJECT, p_REJECT); (p_IGNORE, p_IGNORE); (p_WARN, p_WARN)]) with [p_REJECT; p_IGNORE; p_WARN].
  rewrite H. reflexivity.
Qed.

Theorem unknown_warn_only_warning sec sc inst :
  policy_norm (sc_policy sc) = p_WARN ->
  (forall e, In e (unknown_errors sec sc inst) -> ve_sev e = sev_warning /\ ve_code e = s_W001) /\
  (forall k, is_unknown sc inst k -> In (mkverr s_W001 (path sec k) sev_warning) (unknown_errors sec sc inst)).
Proof.
  intro Hp. unfold unknown_errors. rewrite Hp. destruct unknown_table_pin as [-> _]. cbn [find fst snd].
  replace (str_eqb p_REJECT p_WARN) with false by (vm_compute; reflexivity).
  replace (str_eqb p_WARN p_WARN) with true by (vm_compute; reflexivity).
  split.
  - intros e He. apply in_map_iff in He as (k & <- & _). split; reflexivity.
  - intros k Hk. apply in_map_iff. exists k. split; [reflexivity|]. apply unknown_keys_spec. exact Hk.
Qed.

Theorem unknown_ignore_silent sec sc inst :
  policy_norm (sc_policy sc) = p_IGNORE -> unknown_errors sec sc inst = [].
Proof.
  intro Hp. unfold unknown_errors. rewrite Hp. destruct unknown_table_pin as [-> _]. cbn [find fst snd].
  replace (str_eqb p_REJECT p_IGNORE) with false by (vm_compute; reflexivity).
  replace (str_eqb p_WARN p_IGNORE) with false by (vm_compute; reflexivity).
  reflexivity.
Qed.

(* known fields never produce unknown-field entries *)
Theorem unknown_errors_only_unknown sec sc inst e :
  In e (unknown_errors sec sc inst) -> exists k, is_unknown sc inst k /\ ve_path e = path sec k.
Proof.
  unfold unknown_errors.
  destruct (find (fun r => str_eqb (fst (fst r)) (policy_norm (sc_policy sc))) val_unknown_table) as [[[p c] s]|]; [|intros []].
  intro H. apply in_map_iff in H as (k & <- & Hk). exists k. split; [apply unknown_keys_spec; exact Hk|reflexivity].
Qed.

(* ---- tool level: "WARN produces only a warning" is FALSE of octave_validate (finding C08-warn-invalid) ---- *)
Definition tool_warn_only_warning_full : Prop :=
  forall oof sec sc inst,
    policy_norm (sc_policy sc) = p_WARN ->
    (forall e, In e (validate_section oof sec sc inst) -> ve_sev e = sev_warning) ->
    tool_invalid (validate_section oof sec sc inst) = false /\ tool_validation_errors (validate_section oof sec sc inst) = [].

Definition orc0 : orc := mkorc [] None false false (fun _ => false).
Theorem tool_warn_only_warning_refuted : ~ tool_warn_only_warning_full.
Proof.
  intro H.
  specialize (H (fun _ => orc0) [83] (mkschema [([65], Some [COpt])] p_WARN) [([88], PA (AInt 1))] eq_refl).
  assert (Hs : forall e, In e (validate_section (fun _ => orc0) [83] (mkschema [([65], Some [COpt])] p_WARN) [([88], PA (AInt 1))]) -> ve_sev e = sev_warning).
  { vm_compute. intros e [<-|[]]. reflexivity. }
  destruct (H Hs) as [H1 _]. vm_compute in H1. discriminate.
Qed.

(* non-vacuity *)
Example validate_section_ex :
  map (fun e => (ve_code e, ve_sev e))
      (validate_section (fun _ => orc0) [83]
         (mkschema [([65], Some [CReq; CType s_STRING]); ([66], Some [COpt; CType s_NUMBER])] p_REJECT)
         [([66], PA (AStr [120])); ([88], PA (AInt 1)); ([66], PA (ABool true))])
  = [(s_E007, sev_error); (s_E003, sev_error); (s_E007, sev_error)].
Proof. vm_compute. reflexivity. Qed.

Example unknown_ignore_ex :
  policy_norm p_IGNORE = p_IGNORE /\ policy_norm p_WARN = p_WARN /\ policy_norm [66; 79; 71; 85; 83] = p_REJECT /\
  is_unknown (mkschema [([65], Some [COpt])] p_IGNORE) [([88], PA (AInt 1))] [88] /\
  validate_section (fun _ => orc0) [83] (mkschema [([65], Some [COpt])] p_IGNORE) [([88], PA (AInt 1))] = [].
Proof. vm_compute. repeat split. left. reflexivity. Qed.
