(* The fifteen `*Constraint.evaluate` methods of core/constraints.py, transcribed with their error codes.

   Error codes and TYPE's type_map are CONSUMED from Gen/ConstraintsGen.v (regenerated from the source on every
   run); the control flow of every evaluate() is PINNED (Cst/Pins_Constraints.v).

   ORACLES (inputs computed by the real Python, one record per evaluated value -- never axioms):
     o_str       str(v) for non-atomic v (lists, dicts, literal zones)
     o_float     float(v) for strings (None = ValueError); ints and floats are never converted (RANGE compares
                 them as they are, exactly, at any size)
     o_fromiso   datetime.fromisoformat(str(v)) succeeds                     (DATE, after the shape test)
     o_fromiso_z datetime.fromisoformat(str(v).replace("Z","+00:00")) succeeds   (ISO8601)
     o_re p      re.compile(p).match(str(v)) is not None                     (REGEX) *)
From OV Require Import Base.Strs Cst.Lits Cst.PyVal Gen.ConstraintsGen.
From Coq Require Import ZArith QArith.
Close Scope Q_scope.
Open Scope N_scope.

Record orc := mkorc {
  o_str : str;
  o_float : option fl;
  o_fromiso : bool;
  o_fromiso_z : bool;
  o_re : str -> bool
}.

Inductive cst :=
| CReq | COpt
| CConst (a : atom)
| CEnum (vals : list str)            (* allowed_values AFTER __post_init__ (already str()-ed) *)
| CType (t : str)
| CRegex (p : str)
| CDir | CAppend
| CRange (lo hi : fl)                (* int bounds are exact rationals; Python compares float/int exactly *)
| CMaxLen (n : Z) | CMinLen (n : Z)
| CDate | CIso
| CLiteral
| CLang (t : str).                   (* expected_lang AFTER __post_init__ (lower-cased) *)

Record res := mkres { valid : bool; codes : list str }.
Definition ok : res := mkres true [].
Definition fail (c : str) : res := mkres false [c].

Fixpoint assoc {A : Type} (k : str) (l : list (str * A)) : option A :=
  match l with
  | [] => None
  | (k', x) :: l' => if str_eqb k k' then Some x else assoc k l'
  end.

(* i-th error-code literal of class `cls`'s evaluate(), as found in the source now *)
Definition code_of (cls : str) (i : nat) : str :=
  match assoc cls cst_codes with Some cs => nth i cs [] | None => [] end.

(* ^\d{4}-\d{2}-\d{2}$ with re.match: `$` also matches before one trailing newline.  ASCII digits only
   (a non-ASCII \d digit passes the real shape test and then fails fromisoformat: same verdict, same code). *)
Definition date_core (s : str) : bool :=
  match s with
  | [a; b; c; d; e; f; g; h; i; j] =>
      is_digit a && is_digit b && is_digit c && is_digit d && N.eqb e c_dash &&
      is_digit f && is_digit g && N.eqb h c_dash && is_digit i && is_digit j
  | _ => false
  end.
Definition date_shape (s : str) : bool :=
  match s with
  | [a; b; c; d; e; f; g; h; i; j; k] => N.eqb k c_nl && date_core [a; b; c; d; e; f; g; h; i; j]
  | _ => date_core s
  end.

Definition ascii_lower (s : str) : str := map (fun c => if is_upper c then c + 32 else c) s.

Definition eval (o : orc) (k : cst) (v : pyval) : res :=
  match k with
  | CReq =>
      if is_none v || py_eq_atom v (AStr []) then fail (code_of k_Required 0) else ok
  | COpt => ok
  | CConst a =>
      if negb (py_eq_atom v a) then fail (code_of k_Const 0) else ok
  | CEnum vals =>
      let s := py_str (o_str o) v in
      if str_in s vals then ok
      else match filter (prefixb s) vals with
           | [] => fail (code_of k_Enum 0)
           | [_] => ok
           | _ :: _ :: _ => fail (code_of k_Enum 1)
           end
  | CType t =>
      match assoc t cst_type_map with
      | None => fail (code_of k_Type 0)
      | Some tys =>
          if str_eqb t s_NUMBER && is_bool v then fail (code_of k_Type 1)
          else if negb (existsb (isinstance v) tys) then fail (code_of k_Type 2)
          else ok
      end
  | CRegex p =>
      if negb (o_re o p) then fail (code_of k_Regex 0) else ok
  | CDir =>
      if memb 0 (py_str (o_str o) v) then fail (code_of k_Dir 0) else ok
  | CAppend =>
      if negb (is_list v) then fail (code_of k_AppendOnly 0) else ok
  | CRange lo hi =>
      if is_bool v then fail (code_of k_Range 0)
      else match num_value (o_float o) v with
           | None => fail (code_of k_Range 1)        (* ValueError / TypeError / OverflowError of float(value) *)
           | Some x => if negb (fl_leb lo x && fl_leb x hi) then fail (code_of k_Range 2) else ok
           end                                        (* `not (lo <= x <= hi)`: nan fails both comparisons *)
  | CMaxLen n =>
      match py_len v with
      | None => fail (code_of k_MaxLength 0)
      | Some l => if (n <? l)%Z then fail (code_of k_MaxLength 2) else ok
      end
  | CMinLen n =>
      match py_len v with
      | None => fail (code_of k_MinLength 0)
      | Some l => if (l <? n)%Z then fail (code_of k_MinLength 2) else ok
      end
  | CDate =>
      if negb (date_shape (py_str (o_str o) v)) then fail (code_of k_Date 0)
      else if o_fromiso o then ok else fail (code_of k_Date 1)
  | CIso =>
      if o_fromiso_z o then ok else fail (code_of k_Iso8601 0)
  | CLiteral =>
      if negb (is_zone v) then fail (code_of k_Literal 0) else ok
  | CLang t =>
      match v with
      | PZone _ None => fail (code_of k_Lang 1)
      | PZone _ (Some []) => fail (code_of k_Lang 2)
      | PZone _ (Some tag) => if negb (str_eqb (ascii_lower tag) t) then fail (code_of k_Lang 3) else ok
      | _ => fail (code_of k_Lang 0)
      end
  end.

(* every verdict is either (true, []) or (false, [one code]) *)
Lemma eval_shape o k v : (eval o k v = ok) \/ (exists c, eval o k v = fail c).
Proof.
  destruct k; cbn [eval]; try (left; reflexivity);
    repeat match goal with
           | |- context [if ?b then _ else _] => destruct b
           | |- context [match ?x with _ => _ end] => destruct x
           end; try (left; reflexivity); try (right; eexists; reflexivity).
Qed.

Lemma eval_valid_ok o k v : valid (eval o k v) = true -> eval o k v = ok.
Proof. destruct (eval_shape o k v) as [H|[c H]]; rewrite H; cbn; [reflexivity|discriminate]. Qed.

(* the code literals the documented semantics names, as found in the source now (a changed literal breaks this) *)
Lemma codes_pin :
  code_of k_Required 0 = s_E003 /\ code_of k_Const 0 = s_E004 /\ code_of k_Enum 0 = s_E005 /\ code_of k_Enum 1 = s_E006 /\
  code_of k_Type 0 = s_E999 /\ code_of k_Type 1 = s_E007 /\ code_of k_Type 2 = s_E007 /\ code_of k_Regex 0 = s_E008 /\
  code_of k_Dir 0 = s_E009 /\ code_of k_AppendOnly 0 = s_E010 /\
  code_of k_Range 0 = s_E011 /\ code_of k_Range 1 = s_E011 /\ code_of k_Range 2 = s_E011 /\
  code_of k_MaxLength 0 = s_E012 /\ code_of k_MaxLength 2 = s_E012 /\ code_of k_MinLength 0 = s_E013 /\ code_of k_MinLength 2 = s_E013 /\
  code_of k_Date 0 = s_E014 /\ code_of k_Date 1 = s_E014 /\ code_of k_Iso8601 0 = s_E015 /\
  code_of k_Literal 0 = s_E007 /\ code_of k_Lang 0 = s_E007 /\ code_of k_Lang 1 = s_E007 /\ code_of k_Lang 2 = s_E007 /\ code_of k_Lang 3 = s_E007.
Proof. vm_compute. repeat split. Qed.

Lemma type_map_pin :
  cst_type_map = [(s_STRING, [t_str]); (s_NUMBER, [t_int; t_float]); (s_BOOLEAN, [t_bool]); (s_LIST, [t_list])].
Proof. vm_compute. reflexivity. Qed.
