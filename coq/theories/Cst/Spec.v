(* Declarative meaning of each constraint kind, written from the property text and the class docstrings.
   Nothing here mentions `eval`; Cst/SpecFacts.v proves eval against these. *)
From OV Require Import Base.Strs Cst.Lits Cst.PyVal.
From Coq Require Import ZArith QArith.
Close Scope Q_scope.
Open Scope N_scope.

(* REQ: non-empty = neither None nor the empty string *)
Definition spec_REQ (v : pyval) : Prop := v <> PA ANone /\ v <> PA (AStr []).

(* CONST: Python equality (numbers compare by numeric value across bool/int/float; nan equals nothing) *)
Inductive fl_equal : fl -> fl -> Prop :=
| fe_fin p q : (p == q)%Q -> fl_equal (FFin p) (FFin q)
| fe_inf s : fl_equal (FInf s) (FInf s).
Inductive py_equal : atom -> atom -> Prop :=
| pe_none : py_equal ANone ANone
| pe_str s : py_equal (AStr s) (AStr s)
| pe_num a b x y : atom_num a = Some x -> atom_num b = Some y -> fl_equal x y -> py_equal a b.
Definition spec_CONST (a : atom) (v : pyval) : Prop := exists x, v = PA x /\ py_equal x a.

(* ENUM on s = str(v): exact member, or prefix of exactly one entry (entries counted by position) *)
Definition is_prefix (s w : str) : Prop := exists t, w = s ++ t.
Definition two_prefix_matches (vals : list str) (s : str) : Prop :=
  exists a w1 b w2 c, vals = a ++ w1 :: b ++ w2 :: c /\ is_prefix s w1 /\ is_prefix s w2.
Definition spec_ENUM (vals : list str) (s : str) : Prop :=
  In s vals \/ ((exists w, In w vals /\ is_prefix s w) /\ ~ two_prefix_matches vals s).
Definition spec_ENUM_ambiguous (vals : list str) (s : str) : Prop :=
  ~ In s vals /\ two_prefix_matches vals s.
Definition spec_ENUM_nomatch (vals : list str) (s : str) : Prop :=
  ~ In s vals /\ forall w, In w vals -> ~ is_prefix s w.

(* TYPE by value kind; a bool is a BOOLEAN and never a NUMBER *)
Definition spec_TYPE (t : str) (v : pyval) : Prop :=
  (t = s_STRING /\ exists s, v = PA (AStr s)) \/
  (t = s_NUMBER /\ ((exists z, v = PA (AInt z)) \/ (exists f r, v = PA (AFloat f r)))) \/
  (t = s_BOOLEAN /\ exists b, v = PA (ABool b)) \/
  (t = s_LIST /\ exists l, v = PList l).

(* RANGE: the value is not a bool, has a numeric reading x -- an int of ANY size read exactly, a float read as
   itself, or a string that float() parses (oracle `ofl`; may be inf or nan) -- x is not nan, and lo <= x <= hi
   (inclusive, exact comparison of rationals / infinities; nan is <= nothing, so a nan bound lets nothing in). *)
Inductive fl_le : fl -> fl -> Prop :=
| le_fin p q : (p <= q)%Q -> fl_le (FFin p) (FFin q)
| le_ninf x : x <> FNan -> fl_le (FInf true) x
| le_pinf x : x <> FNan -> fl_le x (FInf false).
Definition numeric_reading (ofl : option fl) (v : pyval) (x : fl) : Prop :=
  (exists z, v = PA (AInt z) /\ x = FFin (inject_Z z)) \/
  (exists r, v = PA (AFloat x r)) \/
  (exists s, v = PA (AStr s) /\ ofl = Some x).
Definition spec_RANGE (ofl : option fl) (lo hi : fl) (v : pyval) : Prop :=
  (forall b, v <> PA (ABool b)) /\
  exists x, numeric_reading ofl v x /\ x <> FNan /\ fl_le lo x /\ fl_le x hi.

(* MIN/MAX_LENGTH: strings and lists only *)
Definition has_length (v : pyval) (n : Z) : Prop :=
  (exists s, v = PA (AStr s) /\ n = Z.of_nat (length s)) \/ (exists l, v = PList l /\ n = Z.of_nat (length l)).
Definition spec_MAXLEN (n : Z) (v : pyval) : Prop := exists l, has_length v l /\ (l <= n)%Z.
Definition spec_MINLEN (n : Z) (v : pyval) : Prop := exists l, has_length v l /\ (n <= l)%Z.

(* DATE: a real proleptic-Gregorian YYYY-MM-DD date, year 1..9999 *)
Definition dv (s : str) (i : nat) : N := nth i s 48 - 48.
Definition leap (y : N) : bool := ((y mod 4 =? 0) && negb (y mod 100 =? 0)) || (y mod 400 =? 0).
Definition days_in_month (y m : N) : N :=
  if (m =? 2) then (if leap y then 29 else 28)
  else if (m =? 4) || (m =? 6) || (m =? 9) || (m =? 11) then 30 else 31.
Definition ymd_shape (s : str) : bool :=
  match s with
  | [a; b; c; d; e; f; g; h; i; j] =>
      forallb is_digit [a; b; c; d; f; g; i; j] && N.eqb e c_dash && N.eqb h c_dash
  | _ => false
  end.
Definition real_date (s : str) : bool :=
  ymd_shape s &&
  (let y := 1000 * dv s 0 + 100 * dv s 1 + 10 * dv s 2 + dv s 3 in
   let m := 10 * dv s 5 + dv s 6 in
   let d := 10 * dv s 8 + dv s 9 in
   (1 <=? y) && (1 <=? m) && (m <=? 12) && (1 <=? d) && (d <=? days_in_month y m)).

Example real_date_ex : real_date [50;48;50;52;45;48;50;45;50;57] = true /\ real_date [50;48;50;51;45;48;50;45;50;57] = false
  /\ real_date [49;57;48;48;45;48;50;45;50;57] = false /\ real_date [50;48;48;48;45;48;50;45;50;57] = true
  /\ real_date [48;48;48;48;45;48;49;45;48;49] = false /\ real_date [50;48;50;52;45;49;51;45;48;49] = false.
Proof. vm_compute. repeat split. Qed.
