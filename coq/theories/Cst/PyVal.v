(* Python values as seen by octave_mcp.core.constraints.

   atoms   : what `_parse_atom` can return and what a scalar document value is:
             None | bool | int (Z) | float | str (list N)
   floats  : a finite float is an exact rational (the harness sends float.as_integer_ratio());
             +-inf and nan are separate constructors.  A float atom carries its own `repr` text
             (an ORACLE computed by the real Python, used only by str()).
   pyval   : atoms, lists, dicts, literal zones (LiteralZoneValue).

   Python `==` on atoms (numeric tower bool < int < float, exact int/float comparison) is atom_eqb. *)
From OV Require Import Base.Strs Cst.Lits.
From Coq Require Import ZArith QArith.
Close Scope Q_scope.
Open Scope N_scope.

Inductive fl := FFin (q : Q) | FInf (neg : bool) | FNan.

Definition fl_eqb (a b : fl) : bool :=
  match a, b with
  | FFin p, FFin q => Qeq_bool p q
  | FInf x, FInf y => Bool.eqb x y
  | _, _ => false
  end.

(* Python `a <= b` on floats / exact ints (an int is the exact rational FFin (inject_Z z), and Python compares
   int with float exactly): nan compares false with everything *)
Definition fl_leb (a b : fl) : bool :=
  match a, b with
  | FNan, _ => false
  | _, FNan => false
  | FFin p, FFin q => Qle_bool p q
  | FFin _, FInf neg => negb neg
  | FInf neg, FFin _ => neg
  | FInf x, FInf y => x || negb y
  end.

Definition fl_is_nan (a : fl) : bool := match a with FNan => true | _ => false end.

Lemma fl_eqb_sym a b : fl_eqb a b = fl_eqb b a.
Proof.
  destruct a as [p|x|], b as [q|y|]; cbn; try reflexivity.
  - destruct (Qeq_bool p q) eqn:E1, (Qeq_bool q p) eqn:E2; try reflexivity.
    + apply Qeq_bool_iff in E1. apply Qeq_sym in E1. apply Qeq_bool_iff in E1. congruence.
    + apply Qeq_bool_iff in E2. apply Qeq_sym in E2. apply Qeq_bool_iff in E2. congruence.
  - destruct x, y; reflexivity.
Qed.

Lemma fl_eqb_trans a b c : fl_eqb a b = true -> fl_eqb b c = true -> fl_eqb a c = true.
Proof.
  destruct a as [p|x|], b as [q|y|], c as [r|z|]; cbn; try discriminate; intros H1 H2.
  - apply Qeq_bool_iff in H1, H2. apply Qeq_bool_iff. eapply Qeq_trans; eauto.
  - destruct x, y, z; cbn in *; congruence.
Qed.

Inductive atom :=
| ANone
| ABool (b : bool)
| AInt (z : Z)
| AFloat (f : fl) (repr : str)
| AStr (s : str).

Definition atom_num (a : atom) : option fl :=
  match a with
  | ABool b => Some (FFin (inject_Z (if b then 1 else 0)))
  | AInt z => Some (FFin (inject_Z z))
  | AFloat f _ => Some f
  | _ => None
  end.

(* Python `a == b` for a, b atoms *)
Definition atom_eqb (a b : atom) : bool :=
  match a, b with
  | ANone, ANone => true
  | AStr s, AStr t => str_eqb s t
  | _, _ => match atom_num a, atom_num b with
            | Some x, Some y => fl_eqb x y
            | _, _ => false
            end
  end.

Lemma str_eqb_sym s t : str_eqb s t = str_eqb t s.
Proof.
  destruct (str_eqb s t) eqn:E1, (str_eqb t s) eqn:E2; try reflexivity.
  - apply str_eqb_eq in E1. subst. rewrite str_eqb_refl in E2. discriminate.
  - apply str_eqb_eq in E2. subst. rewrite str_eqb_refl in E1. discriminate.
Qed.

Lemma atom_eqb_sym a b : atom_eqb a b = atom_eqb b a.
Proof.
  destruct a, b; cbn [atom_eqb atom_num]; try reflexivity; try apply fl_eqb_sym; try apply str_eqb_sym.
Qed.

Lemma atom_eqb_trans a b c : atom_eqb a b = true -> atom_eqb b c = true -> atom_eqb a c = true.
Proof.
  destruct a, b, c; cbn [atom_eqb atom_num]; try discriminate; try (intros; reflexivity);
    try (apply fl_eqb_trans);
    try (intros H1 H2; apply str_eqb_eq in H1, H2; subst; apply str_eqb_refl).
Qed.

(* Python == is NOT reflexive on atoms (float nan); it is on every other atom *)
Definition atom_is_nan (a : atom) : bool := match a with AFloat FNan _ => true | _ => false end.
Lemma atom_eqb_refl a : atom_is_nan a = false -> atom_eqb a a = true.
Proof.
  destruct a as [|b|z|f r|s]; cbn; intros H; try reflexivity.
  - apply Qeq_bool_iff. reflexivity.
  - apply Qeq_bool_iff. reflexivity.
  - destruct f as [q|x|]; cbn; [apply Qeq_bool_iff; reflexivity|destruct x; reflexivity|discriminate].
  - apply str_eqb_refl.
Qed.

(* ---- values ---- *)
Inductive pyval :=
| PA (a : atom)
| PList (l : list pyval)
| PDict (l : list (str * pyval))
| PZone (content : str) (tag : option str).

Definition py_eq_atom (v : pyval) (a : atom) : bool :=
  match v with PA x => atom_eqb x a | _ => false end.

Definition is_none (v : pyval) : bool := match v with PA ANone => true | _ => false end.
Definition is_bool (v : pyval) : bool := match v with PA (ABool _) => true | _ => false end.
Definition is_list (v : pyval) : bool := match v with PList _ => true | _ => false end.
Definition is_zone (v : pyval) : bool := match v with PZone _ _ => true | _ => false end.

(* isinstance(v, T) for the Python type names that occur in TYPE's type_map; bool IS an int *)
Definition isinstance (v : pyval) (t : str) : bool :=
  match v with
  | PA (AStr _) => str_eqb t t_str
  | PA (ABool _) => str_eqb t t_bool || str_eqb t t_int
  | PA (AInt _) => str_eqb t t_int
  | PA (AFloat _ _) => str_eqb t t_float
  | PA ANone => false
  | PList _ => str_eqb t t_list
  | PDict _ => str_eqb t t_dict
  | PZone _ _ => false
  end.

(* len(v) for str | list (the only kinds the code asks) *)
Definition py_len (v : pyval) : option Z :=
  match v with
  | PA (AStr s) => Some (Z.of_nat (length s))
  | PList l => Some (Z.of_nat (length l))
  | _ => None
  end.

(* decimal text of an int *)
Definition Z_to_dec (z : Z) : str :=
  match z with
  | Z0 => [48]
  | Zpos p => N_to_dec (Npos p)
  | Zneg p => c_dash :: N_to_dec (Npos p)
  end.

(* str(a) for atoms; the float repr is carried by the value *)
Definition atom_str (a : atom) : str :=
  match a with
  | ANone => s_None
  | ABool true => s_True
  | ABool false => s_False
  | AInt z => Z_to_dec z
  | AFloat _ r => r
  | AStr s => s
  end.

(* str(v): computed for atoms, ORACLE text `ostr` for lists/dicts/zones *)
Definition py_str (ostr : str) (v : pyval) : str :=
  match v with PA a => atom_str a | _ => ostr end.

(* RANGE's `numeric_value = value if isinstance(value, int | float) else float(value)`:
   ints (of ANY size) and floats are kept as they are -- no conversion, no rounding, no OverflowError;
   every other value goes through float(): ORACLE `ofloat` for strings (may be inf / nan; None = ValueError),
   TypeError (None) for None / lists / dicts / literal zones.  (bool is an int; RANGE rejects it before.) *)
Definition num_value (ofloat : option fl) (v : pyval) : option fl :=
  match v with
  | PA (AFloat f _) => Some f
  | PA (AInt z) => Some (FFin (inject_Z z))
  | PA (ABool b) => Some (FFin (inject_Z (if b then 1 else 0)))
  | PA (AStr _) => ofloat
  | _ => None
  end.

Example py_eq_tower : atom_eqb (ABool true) (AInt 1) = true /\ atom_eqb (AInt 1) (AFloat (FFin (2 # 2)) [49;46;48]) = true
  /\ atom_eqb (AStr [49]) (AInt 1) = false /\ atom_eqb ANone (ABool false) = false.
Proof. vm_compute. repeat split. Qed.
Example z_to_dec_ex : Z_to_dec (-120)%Z = [45;49;50;48].
Proof. vm_compute. reflexivity. Qed.
