(* Chain-text parsing, PARTIAL model: the splitting of a chain on the constraint operator and the dispatch of
   ConstraintChain.parse (which branch a part takes and which slice of it is the argument), driven by the
   translator-extracted table cst_parse_table (if-chain order, prefixes, suffixes, slice offsets).
   NOT modelled: `_parse_atom` (int()/float() text parsing), the space-separated form of `_split_parts`,
   the argument checks of RANGE / MIN_LENGTH / MAX_LENGTH / LANG.  The harness therefore takes the PARAMETERS of
   each parsed constraint from the real parsed objects and compares only class + argument slice here. *)
From OV Require Import Base.Strs Cst.Lits Gen.ConstraintsGen.
Open Scope N_scope.

Definition c_and : N := 8743.   (* U+2227 *)

(* str.strip() for ASCII whitespace (scope: no non-ASCII whitespace at the ends of a part) *)
Definition is_ws (c : N) : bool := (c =? 32) || ((9 <=? c) && (c <=? 13)) || ((28 <=? c) && (c <=? 31)).
Definition lstrip (s : str) : str := dropb is_ws s.
Definition strip (s : str) : str := rev (lstrip (rev (lstrip s))).

Definition nonempty (s : str) : bool := match s with [] => false | _ => true end.

(* `[p.strip() for p in s.split(AND) if p.strip()]` -- the branch taken whenever the text contains the operator;
   a text without it and without a depth-0 space is a single part *)
Definition split_parts_and (s : str) : list str := filter nonempty (map strip (split_on c_and s)).

Definition ends_with (suf s : str) : bool := prefixb (rev suf) (rev s).
(* part[off:-1] *)
Definition slice_inner (off : N) (s : str) : str := removelast (skipn (N.to_nat off) s).

Fixpoint classify (tbl : list (N * str * str * N * str)) (part : str) : option (str * str) :=
  match tbl with
  | [] => None                                     (* raise ValueError("Unknown constraint") *)
  | (kind, pre, suf, off, cls) :: t =>
      if kind =? 0 then (if str_eqb part pre then Some (cls, []) else classify t part)
      else if prefixb pre part && ends_with suf part then Some (cls, slice_inner off part)
      else classify t part
  end.

Definition classify_part (part : str) : option (str * str) := classify cst_parse_table (strip part).

(* TYPE[LITERAL] is tested before TYPE[...]; TYPE(LITERAL) is an ordinary (unknown) TYPE *)
Example classify_literal_first :
  classify_part [84;89;80;69;91;76;73;84;69;82;65;76;93] = Some (k_Literal, []) /\
  classify_part [84;89;80;69;40;76;73;84;69;82;65;76;41] = Some (k_Type, [76;73;84;69;82;65;76]) /\
  classify_part [32;69;78;85;77;91;65;44;66;93;32] = Some (k_Enum, [65;44;66]) /\
  classify_part [70;79;79] = None.
Proof. vm_compute. repeat split. Qed.

(* every slice offset of the table is the length of its prefix (so the argument is exactly what is between
   the prefix and the closing bracket) *)
Lemma parse_table_offsets :
  forallb (fun r => match r with (kind, pre, _, off, _) => (kind =? 0) || (N.of_nat (length pre) =? off) end) cst_parse_table = true.
Proof. vm_compute. reflexivity. Qed.
