(* eval_K_spec: every constraint kind's verdict against its declarative meaning (Cst/Spec.v), for ALL values.
   Where the faithful model deviates from the documented meaning the theorem carries an explicit hypothesis,
   the unrestricted statement is kept as a Definition and refuted by a concrete witness. *)
From OV Require Import Base.Strs Cst.Lits Cst.PyVal Cst.Constraints Cst.Spec Gen.ConstraintsGen.
From Coq Require Import ZArith QArith.
Close Scope Q_scope.
Open Scope N_scope.

Lemma str_in_In s l : str_in s l = true <-> In s l.
Proof.
  induction l as [|x l IH]; cbn; [split; [discriminate|tauto]|].
  rewrite orb_true_iff, IH, str_eqb_eq. split; intros [H|H]; auto.
Qed.

Lemma prefixb_spec s w : prefixb s w = true <-> is_prefix s w.
Proof.
  revert w; induction s as [|c s IH]; intro w.
  - destruct w; cbn; (split; [intros _; eexists; reflexivity|reflexivity]).
  - destruct w as [|d w]; cbn.
    + split; [discriminate|intros [t H]; discriminate].
    + rewrite andb_true_iff, N.eqb_eq, IH. split.
      * intros [-> [t ->]]. exists t. reflexivity.
      * intros [t H]. inversion H. split; [reflexivity|exists t; reflexivity].
Qed.

Lemma filter_two {A} (p : A -> bool) l :
  (2 <= length (filter p l))%nat <->
  exists a w1 b w2 c, l = a ++ w1 :: b ++ w2 :: c /\ p w1 = true /\ p w2 = true.
Proof.
  split.
  - induction l as [|h t IH]; cbn; [lia|]. destruct (p h) eqn:E.
    + cbn. intro H. destruct (filter p t) as [|y r] eqn:F; [cbn in H; lia|].
      assert (Hy : In y (filter p t)) by (rewrite F; left; reflexivity).
      apply filter_In in Hy as [Hy Py]. apply in_split in Hy as (b & c & ->).
      exists [], h, b, y, c. auto.
    + intro H. destruct (IH H) as (a & w1 & b & w2 & c & -> & P1 & P2).
      exists (h :: a), w1, b, w2, c. auto.
  - intros (a & w1 & b & w2 & c & -> & P1 & P2).
    rewrite filter_app. cbn. rewrite P1. rewrite filter_app. cbn. rewrite P2.
    rewrite app_length. cbn. rewrite app_length. cbn. lia.
Qed.

Lemma filter_nil {A} (p : A -> bool) l : filter p l = [] <-> forall x, In x l -> p x = false.
Proof.
  induction l as [|h t IH]; cbn; [split; [intros _ x []|reflexivity]|].
  destruct (p h) eqn:E; split; intro H.
  - discriminate.
  - rewrite (H h (or_introl eq_refl)) in E. discriminate.
  - intros x [<-|Hx]; [exact E|]. apply IH; assumption.
  - apply IH. intros x Hx. apply H. right; exact Hx.
Qed.

(* ---- REQ ---- *)
Theorem eval_REQ_spec o v : valid (eval o CReq v) = true <-> spec_REQ v.
Proof.
  unfold spec_REQ. cbn [eval].
  destruct v as [a|l|l|c t]; try (cbn; split; [intros _; split; discriminate|reflexivity]).
  destruct a as [|b|z|f r|s]; cbn; try (split; [intros _; split; discriminate|reflexivity]).
  - split; [discriminate|intros [H _]; congruence].
  - destruct s; cbn; [split; [discriminate|intros [_ H]; congruence]|split; [intros _; split; discriminate|reflexivity]].
Qed.

(* ---- CONST ---- *)
Lemma fl_eqb_equal x y : fl_eqb x y = true <-> fl_equal x y.
Proof.
  destruct x as [p|a|], y as [q|b|]; cbn; split; intro H; try discriminate; try (inversion H; fail).
  - constructor. apply Qeq_bool_iff. exact H.
  - inversion H; subst. apply Qeq_bool_iff. assumption.
  - destruct a, b; try discriminate; constructor.
  - inversion H; subst. destruct b; reflexivity.
Qed.

Lemma atom_eqb_equal a b : atom_eqb a b = true <-> py_equal a b.
Proof.
  split.
  - destruct a, b; cbn [atom_eqb atom_num]; try discriminate; intro H;
      try (apply fl_eqb_equal in H; eapply pe_num; [reflexivity|reflexivity|exact H]).
    + constructor.
    + apply str_eqb_eq in H. subst. constructor.
  - intro H. destruct H as [|s|a b x y Ha Hb Hxy].
    + reflexivity.
    + cbn. apply str_eqb_refl.
    + apply fl_eqb_equal in Hxy. destruct a, b; cbn in Ha, Hb; try discriminate;
        inversion Ha; inversion Hb; subst; cbn [atom_eqb atom_num]; exact Hxy.
Qed.

Theorem eval_CONST_spec o a v : valid (eval o (CConst a) v) = true <-> spec_CONST a v.
Proof.
  unfold spec_CONST. cbn [eval]. destruct v as [x|l|l|c t]; cbn [py_eq_atom].
  - destruct (atom_eqb x a) eqn:E; cbn.
    + split; [intros _; exists x; split; [reflexivity|apply atom_eqb_equal; exact E]|reflexivity].
    + split; [discriminate|]. intros (y & Hy & He). inversion Hy; subst. apply atom_eqb_equal in He. congruence.
  - cbn. split; [discriminate|intros (y & Hy & _); discriminate].
  - cbn. split; [discriminate|intros (y & Hy & _); discriminate].
  - cbn. split; [discriminate|intros (y & Hy & _); discriminate].
Qed.

(* ---- ENUM ---- *)
Lemma two_matches_filter vals s : two_prefix_matches vals s <-> (2 <= length (filter (prefixb s) vals))%nat.
Proof.
  rewrite filter_two. unfold two_prefix_matches. split.
  - intros (a & w1 & b & w2 & c & H & P1 & P2). exists a, w1, b, w2, c. rewrite !prefixb_spec. auto.
  - intros (a & w1 & b & w2 & c & H & P1 & P2). exists a, w1, b, w2, c. rewrite <- !prefixb_spec. auto.
Qed.

Theorem eval_ENUM_spec o vals v :
  valid (eval o (CEnum vals) v) = true <-> spec_ENUM vals (py_str (o_str o) v).
Proof.
  cbn [eval]. set (s := py_str (o_str o) v). unfold spec_ENUM.
  destruct (str_in s vals) eqn:Ein.
  - cbn. split; [intros _; left; apply str_in_In; exact Ein|reflexivity].
  - assert (Hnin : ~ In s vals) by (intro H; apply str_in_In in H; congruence).
    rewrite two_matches_filter.
    destruct (filter (prefixb s) vals) as [|w1 [|w2 r]] eqn:F; cbn [valid fail ok length].
    + split; [discriminate|]. intros [H|[(w & Hw & Hp) _]]; [contradiction|].
      apply prefixb_spec in Hp. rewrite filter_nil in F. rewrite (F w Hw) in Hp. discriminate.
    + split; [|reflexivity]. intros _. right. split; [|lia].
      assert (H : In w1 (filter (prefixb s) vals)) by (rewrite F; left; reflexivity).
      apply filter_In in H as [H1 H2]. exists w1. split; [exact H1|apply prefixb_spec; exact H2].
    + split; [discriminate|]. intros [H|[_ H]]; [contradiction|]. exfalso. apply H. cbn. lia.
Qed.

Theorem eval_ENUM_ambiguous o vals v :
  spec_ENUM_ambiguous vals (py_str (o_str o) v) -> eval o (CEnum vals) v = fail s_E006.
Proof.
  cbn [eval]. set (s := py_str (o_str o) v). intros [Hnin H2]. apply two_matches_filter in H2.
  destruct (str_in s vals) eqn:Ein; [apply str_in_In in Ein; contradiction|].
  destruct (filter (prefixb s) vals) as [|w1 [|w2 r]]; cbn in H2; try lia. reflexivity.
Qed.

Theorem eval_ENUM_nomatch o vals v :
  spec_ENUM_nomatch vals (py_str (o_str o) v) -> eval o (CEnum vals) v = fail s_E005.
Proof.
  cbn [eval]. set (s := py_str (o_str o) v). intros [Hnin Hno].
  destruct (str_in s vals) eqn:Ein; [apply str_in_In in Ein; contradiction|].
  assert (F : filter (prefixb s) vals = []).
  { apply filter_nil. intros w Hw. destruct (prefixb s w) eqn:E; [|reflexivity].
    apply prefixb_spec in E. exfalso. exact (Hno w Hw E). }
  rewrite F. reflexivity.
Qed.

(* exact match wins: a member of the list is accepted whatever else it is a prefix of (no hypothesis on the list) *)
Theorem eval_ENUM_exact_wins o vals v : In (py_str (o_str o) v) vals -> eval o (CEnum vals) v = ok.
Proof. intro H. cbn [eval]. apply str_in_In in H. rewrite H. reflexivity. Qed.

(* ENUM[ACT,ACTIVE,DONE]: "ACT" (member and proper prefix of ACTIVE) ok; "AC" ambiguous E006; "ACTI" unique prefix ok; "X" E005 *)
Example enum_exact_over_prefix_ex :
  let vals := [[65;67;84]; [65;67;84;73;86;69]; [68;79;78;69]] in
  let o := mkorc [] None false false (fun _ => false) in
  eval o (CEnum vals) (PA (AStr [65;67;84])) = ok /\ eval o (CEnum vals) (PA (AStr [65;67])) = fail s_E006
  /\ eval o (CEnum vals) (PA (AStr [65;67;84;73])) = ok /\ eval o (CEnum vals) (PA (AStr [88])) = fail s_E005
  /\ eval o (CEnum [[49]; [49;48]; [49;48;48]]) (PA (AInt 10)) = ok.
Proof. vm_compute. repeat split. Qed.

(* ---- TYPE ---- *)
Ltac lit_neq := match goal with H : ?a = ?b |- _ => (vm_compute in H; discriminate H) end.

Theorem eval_TYPE_spec o t v : valid (eval o (CType t) v) = true <-> spec_TYPE t v.
Proof.
  unfold spec_TYPE. cbn [eval]. rewrite type_map_pin. cbn [assoc].
  destruct (str_eqb t s_STRING) eqn:E1; [apply str_eqb_eq in E1; subst t|].
  { destruct v as [[|b|z|f r|s]|l|l|c tg]; vm_compute; split; intro H; try discriminate; try reflexivity;
      try (left; split; [reflexivity|eexists; reflexivity]);
      destruct H as [[_ (x & H)]|[[H _]|[[H _]|[H _]]]]; try discriminate H. }
  destruct (str_eqb t s_NUMBER) eqn:E2; [apply str_eqb_eq in E2; subst t|].
  { destruct v as [[|b|z|f r|s]|l|l|c tg]; vm_compute; split; intro H; try discriminate; try reflexivity;
      try (right; left; split; [reflexivity|]; (left; eexists; reflexivity) || (right; eexists; eexists; reflexivity));
      destruct H as [[H _]|[[_ [(x & H)|(x & y & H)]]|[[H _]|[H _]]]]; try discriminate H. }
  destruct (str_eqb t s_BOOLEAN) eqn:E3; [apply str_eqb_eq in E3; subst t|].
  { destruct v as [[|b|z|f r|s]|l|l|c tg]; vm_compute; split; intro H; try discriminate; try reflexivity;
      try (right; right; left; split; [reflexivity|eexists; reflexivity]);
      destruct H as [[H _]|[[H _]|[[_ (x & H)]|[H _]]]]; try discriminate H. }
  destruct (str_eqb t s_LIST) eqn:E4; [apply str_eqb_eq in E4; subst t|].
  { destruct v as [[|b|z|f r|s]|l|l|c tg]; vm_compute; split; intro H; try discriminate; try reflexivity;
      try (right; right; right; split; [reflexivity|eexists; reflexivity]);
      destruct H as [[H _]|[[H _]|[[H _]|[_ (x & H)]]]]; try discriminate H. }
  cbn. split; [discriminate|].
  intros [[H _]|[[H _]|[[H _]|[H _]]]]; subst t; rewrite str_eqb_refl in *; discriminate.
Qed.

(* unknown type names are a constraint error, whatever the value *)
Theorem eval_TYPE_unknown o t v : assoc t cst_type_map = None -> eval o (CType t) v = fail s_E999.
Proof. intro H. cbn [eval]. rewrite H. reflexivity. Qed.

(* ---- RANGE ---- *)
(* fl_leb IS Python's <= on exact numbers, nan included: no side condition *)
Lemma fl_leb_le x y : fl_leb x y = true <-> fl_le x y.
Proof.
  destruct x as [p|a|], y as [q|b|]; cbn.
  - rewrite Qle_bool_iff. split; [intro H; constructor; exact H|intro H; inversion H; assumption].
  - destruct b; cbn; split; intro H; try discriminate; try (constructor; discriminate); inversion H.
  - split; [discriminate|intro H; inversion H; congruence].
  - destruct a; cbn; split; intro H; try discriminate; try (constructor; discriminate); inversion H.
  - destruct a, b; cbn; split; intro H; try discriminate; try (constructor; discriminate); inversion H.
  - split; [discriminate|intro H; inversion H; congruence].
  - split; [discriminate|intro H; inversion H; congruence].
  - split; [discriminate|intro H; inversion H; congruence].
  - split; [discriminate|intro H; inversion H; congruence].
Qed.

Lemma fl_le_not_nan x y : fl_le x y -> x <> FNan /\ y <> FNan.
Proof. intro H; destruct H as [p q H|z Hz|z Hz]; split; try discriminate; assumption. Qed.

Lemma is_bool_false v : is_bool v = false <-> forall b, v <> PA (ABool b).
Proof.
  split.
  - intros H b ->. discriminate H.
  - intro H. destruct v as [[|b|z|f r|s]|l|l|c tg]; try reflexivity. exfalso. exact (H b eq_refl).
Qed.

Lemma num_value_reading ofl v x : is_bool v = false -> (num_value ofl v = Some x <-> numeric_reading ofl v x).
Proof.
  unfold numeric_reading. intro Hb.
  destruct v as [[|b|z|f r|s]|l|l|c tg]; cbn [num_value]; cbn in Hb; try discriminate;
    try (split; [discriminate|intros [(z' & H & _)|[(r' & H)|(s' & H & _)]]; discriminate]).
  - split.
    + intro H; inversion H; subst. left. exists z. auto.
    + intros [(z' & H & ->)|[(r' & H)|(s' & H & _)]]; try discriminate. inversion H; subst. reflexivity.
  - split.
    + intro H; inversion H; subst. right; left. exists r. reflexivity.
    + intros [(z' & H & _)|[(r' & H)|(s' & H & _)]]; try discriminate. inversion H; subst. reflexivity.
  - split.
    + intro H. right; right. exists s. auto.
    + intros [(z' & H & _)|[(r' & H)|(s' & H & Ho)]]; try discriminate. exact Ho.
Qed.

(* the unrestricted statement: no hypothesis on nan, on the size of an int, or on the bounds *)
Definition eval_RANGE_spec_full : Prop :=
  forall o lo hi v, valid (eval o (CRange lo hi) v) = true <-> spec_RANGE (o_float o) lo hi v.

Theorem eval_RANGE_spec : eval_RANGE_spec_full.
Proof.
  unfold eval_RANGE_spec_full, spec_RANGE. intros o lo hi v. cbn [eval].
  destruct (is_bool v) eqn:Eb.
  - cbn. split; [discriminate|]. intros [Hnb _]. apply is_bool_false in Hnb. congruence.
  - pose proof (proj1 (is_bool_false v) Eb) as Hnb.
    destruct (num_value (o_float o) v) as [x|] eqn:Ef.
    + destruct (fl_leb lo x) eqn:E1; cbn [andb negb].
      * destruct (fl_leb x hi) eqn:E2; cbn.
        -- split; [|reflexivity]. intros _. split; [exact Hnb|]. exists x.
           apply fl_leb_le in E1, E2. split; [apply num_value_reading; assumption|].
           split; [exact (proj2 (fl_le_not_nan _ _ E1))|split; assumption].
        -- split; [discriminate|]. intros (_ & y & Hr & _ & _ & Hh).
           apply (num_value_reading _ _ _ Eb) in Hr. rewrite Ef in Hr. inversion Hr; subst y.
           apply fl_leb_le in Hh. congruence.
      * cbn. split; [discriminate|]. intros (_ & y & Hr & _ & Hl & _).
        apply (num_value_reading _ _ _ Eb) in Hr. rewrite Ef in Hr. inversion Hr; subst y.
        apply fl_leb_le in Hl. congruence.
    + cbn. split; [discriminate|]. intros (_ & y & Hr & _).
      apply (num_value_reading _ _ _ Eb) in Hr. congruence.
Qed.

(* every rejection of RANGE carries the single code E011 *)
Theorem eval_RANGE_reject_code o lo hi v :
  valid (eval o (CRange lo hi) v) = false -> eval o (CRange lo hi) v = fail s_E011.
Proof.
  destruct codes_pin as (_ & _ & _ & _ & _ & _ & _ & _ & _ & _ & C0 & C1 & C2 & _).
  cbn [eval]. rewrite C0, C1, C2.
  destruct (is_bool v); [reflexivity|]. destruct (num_value (o_float o) v) as [x|]; [|reflexivity].
  destruct (negb (fl_leb lo x && fl_leb x hi)); [reflexivity|discriminate].
Qed.

(* a nan reading (float nan, or a string float() reads as nan) is in no range *)
Theorem eval_RANGE_rejects_nan o lo hi v :
  num_value (o_float o) v = Some FNan -> eval o (CRange lo hi) v = fail s_E011.
Proof.
  intro H. apply eval_RANGE_reject_code. cbn [eval]. destruct (is_bool v); [reflexivity|].
  rewrite H. destruct lo as [p|a|]; reflexivity.
Qed.

(* integers are compared exactly with integer bounds, whatever their size (no float rounding, no overflow) *)
Lemma Qle_bool_inject_Z a b : Qle_bool (inject_Z a) (inject_Z b) = (a <=? b)%Z.
Proof. unfold Qle_bool, inject_Z. cbn [Qnum Qden]. rewrite !Z.mul_1_r. reflexivity. Qed.

Theorem eval_RANGE_int_exact o lo hi z :
  valid (eval o (CRange (FFin (inject_Z lo)) (FFin (inject_Z hi))) (PA (AInt z))) = ((lo <=? z)%Z && (z <=? hi)%Z).
Proof.
  cbn [eval is_bool num_value fl_leb]. rewrite !Qle_bool_inject_Z.
  destruct ((lo <=? z)%Z && (z <=? hi)%Z); reflexivity.
Qed.

(* non-vacuity: RANGE accepts something -- "5.5" in [1,10], and 2^53+1 in [0,2^53+1] *)
Definition orc_fl (f : option fl) : orc := mkorc [] f false false (fun _ => false).
Example range_accepts_ex :
  valid (eval (orc_fl (Some (FFin (11 # 2)))) (CRange (FFin (inject_Z 1)) (FFin (inject_Z 10))) (PA (AStr [53;46;53]))) = true
  /\ spec_RANGE (Some (FFin (11 # 2))) (FFin (inject_Z 1)) (FFin (inject_Z 10)) (PA (AStr [53;46;53]))
  /\ valid (eval (orc_fl None) (CRange (FFin (inject_Z 0)) (FFin (inject_Z 9007199254740993))) (PA (AInt 9007199254740993))) = true.
Proof.
  split; [vm_compute; reflexivity|]. split; [|vm_compute; reflexivity].
  apply (eval_RANGE_spec (orc_fl (Some (FFin (11 # 2))))). vm_compute. reflexivity.
Qed.

(* regression examples for the three repaired defects (repo commit 8e26d46), by computation on the model:
   (1) the string "nan" (oracle reading nan) and the float nan are rejected by RANGE[1,10];
   (2) 2^53+1 is rejected by RANGE[0,2^53] (it used to be rounded to 2^53 before the bound test), 2^53 is accepted;
   (3) 10^400 (above the double range; float() used to raise OverflowError) gets the verdict E011 from RANGE[1,10]. *)
Example range_regression_ex :
  eval (orc_fl (Some FNan)) (CRange (FFin (inject_Z 1)) (FFin (inject_Z 10))) (PA (AStr s_nan)) = fail s_E011
  /\ eval (orc_fl None) (CRange (FFin (inject_Z 1)) (FFin (inject_Z 10))) (PA (AFloat FNan s_nan)) = fail s_E011
  /\ eval (orc_fl None) (CRange (FFin (inject_Z 0)) (FFin (inject_Z 9007199254740992))) (PA (AInt 9007199254740993)) = fail s_E011
  /\ eval (orc_fl None) (CRange (FFin (inject_Z 0)) (FFin (inject_Z 9007199254740992))) (PA (AInt 9007199254740992)) = ok
  /\ eval (orc_fl None) (CRange (FFin (inject_Z 1)) (FFin (inject_Z 10))) (PA (AInt (10 ^ 400))) = fail s_E011.
Proof. vm_compute. repeat split. Qed.

(* ---- MIN/MAX_LENGTH ---- *)
Lemma py_len_has_length v n : py_len v = Some n <-> has_length v n.
Proof.
  unfold has_length. destruct v as [[|b|z|f r|s]|l|l|c tg]; cbn;
    try (split; [discriminate|intros [(x & H & _)|(x & H & _)]; discriminate]).
  - split; [intro H; inversion H; left; exists s; auto|intros [(x & H & ->)|(x & H & _)]; [inversion H; reflexivity|discriminate]].
  - split; [intro H; inversion H; right; exists l; auto|intros [(x & H & _)|(x & H & ->)]; [discriminate|inversion H; reflexivity]].
Qed.

Theorem eval_MAXLEN_spec o n v : valid (eval o (CMaxLen n) v) = true <-> spec_MAXLEN n v.
Proof.
  unfold spec_MAXLEN. cbn [eval]. destruct (py_len v) as [l|] eqn:E.
  - destruct (n <? l)%Z eqn:C; cbn.
    + apply Z.ltb_lt in C. split; [discriminate|]. intros (l' & Hl & Hle). apply py_len_has_length in Hl. rewrite E in Hl. inversion Hl; subst. lia.
    + apply Z.ltb_ge in C. split; [|reflexivity]. intros _. exists l. split; [apply py_len_has_length; exact E|exact C].
  - cbn. split; [discriminate|]. intros (l' & Hl & _). apply py_len_has_length in Hl. congruence.
Qed.

Theorem eval_MINLEN_spec o n v : valid (eval o (CMinLen n) v) = true <-> spec_MINLEN n v.
Proof.
  unfold spec_MINLEN. cbn [eval]. destruct (py_len v) as [l|] eqn:E.
  - destruct (l <? n)%Z eqn:C; cbn.
    + apply Z.ltb_lt in C. split; [discriminate|]. intros (l' & Hl & Hle). apply py_len_has_length in Hl. rewrite E in Hl. inversion Hl; subst. lia.
    + apply Z.ltb_ge in C. split; [|reflexivity]. intros _. exists l. split; [apply py_len_has_length; exact E|exact C].
  - cbn. split; [discriminate|]. intros (l' & Hl & _). apply py_len_has_length in Hl. congruence.
Qed.

(* ---- DATE ---- *)
Lemma ymd_shape_date_shape s : ymd_shape s = true -> date_shape s = true.
Proof.
  intro H. do 11 (destruct s as [|? s]; [try discriminate H|]); [|discriminate H].
  cbn in H. cbn. repeat rewrite andb_true_iff in H. repeat rewrite andb_true_iff. tauto.
Qed.

(* oracle honesty for DATE (checked by the harness on every case): on a string of the DATE shape,
   datetime.fromisoformat succeeds exactly on real Gregorian dates *)
Definition fromiso_is_gregorian (o : orc) (v : pyval) : Prop :=
  date_shape (py_str (o_str o) v) = true -> o_fromiso o = real_date (py_str (o_str o) v).

Theorem eval_DATE_spec o v :
  fromiso_is_gregorian o v -> valid (eval o CDate v) = real_date (py_str (o_str o) v).
Proof.
  unfold fromiso_is_gregorian. cbn [eval]. set (s := py_str (o_str o) v). intro H.
  destruct (date_shape s) eqn:E; cbn [negb].
  - rewrite <- (H eq_refl). destruct (o_fromiso o); reflexivity.
  - cbn. unfold real_date. destruct (ymd_shape s) eqn:Y; [|reflexivity].
    apply ymd_shape_date_shape in Y. congruence.
Qed.

Theorem eval_DATE_oracle o v : valid (eval o CDate v) = date_shape (py_str (o_str o) v) && o_fromiso o.
Proof. cbn [eval]. destruct (date_shape _); cbn; [destruct (o_fromiso o); reflexivity|reflexivity]. Qed.

Example fromiso_is_gregorian_ex :
  fromiso_is_gregorian (mkorc [] None true true (fun _ => false)) (PA (AStr [50;48;50;52;45;48;50;45;50;57])).
Proof. intro H. vm_compute. reflexivity. Qed.

(* ---- the oracle-defined kinds and the simple ones ---- *)
Theorem eval_ISO_spec o v : valid (eval o CIso v) = o_fromiso_z o.
Proof. cbn [eval]. destruct (o_fromiso_z o); reflexivity. Qed.
Theorem eval_REGEX_spec o p v : valid (eval o (CRegex p) v) = o_re o p.
Proof. cbn [eval]. destruct (o_re o p); reflexivity. Qed.
Theorem eval_OPT_spec o v : eval o COpt v = ok.
Proof. reflexivity. Qed.
Theorem eval_DIR_spec o v : valid (eval o CDir v) = true <-> ~ In 0 (py_str (o_str o) v).
Proof.
  cbn [eval]. unfold memb. destruct (existsb (N.eqb 0) (py_str (o_str o) v)) eqn:E; cbn.
  - split; [discriminate|]. intro H. exfalso. apply H. apply existsb_exists in E as (x & Hx & Hz). apply N.eqb_eq in Hz. subst. exact Hx.
  - split; [|reflexivity]. intros _ H. assert (existsb (N.eqb 0) (py_str (o_str o) v) = true) by (apply existsb_exists; exists 0; split; [exact H|reflexivity]). congruence.
Qed.
Theorem eval_APPEND_spec o v : valid (eval o CAppend v) = true <-> exists l, v = PList l.
Proof.
  cbn [eval]. destruct v as [a|l|l|c t]; cbn; try (split; [discriminate|intros (x & H); discriminate]).
  split; [intros _; exists l; reflexivity|reflexivity].
Qed.
Theorem eval_LITERAL_spec o v : valid (eval o CLiteral v) = true <-> exists c t, v = PZone c t.
Proof.
  cbn [eval]. destruct v as [a|l|l|c t]; cbn; try (split; [discriminate|intros (x & y & H); discriminate]).
  split; [intros _; exists c, t; reflexivity|reflexivity].
Qed.

(* ---- documented-meaning observations that are NOT claimed as defects (the property text is silent) ---- *)
Lemma req_accepts_empty_list o : valid (eval o CReq (PList [])) = true.
Proof. reflexivity. Qed.
Lemma const_int_accepts_bool o : valid (eval o (CConst (AInt 1)) (PA (ABool true))) = true.
Proof. vm_compute. reflexivity. Qed.
Lemma enum_empty_string_is_prefix o : valid (eval o (CEnum [[65; 66]]) (PA (AStr []))) = true.
Proof. vm_compute. reflexivity. Qed.

Example type_unknown_ex : assoc [70; 79; 79] cst_type_map = None.
Proof. vm_compute. reflexivity. Qed.
