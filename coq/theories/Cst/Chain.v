(* ConstraintChain.detect_conflicts and ConstraintChain.evaluate (conflicts first, then left-to-right fail-fast),
   and the chain-level theorems of C08 -- for ALL chains, values and oracles. *)
From OV Require Import Base.Strs Cst.Lits Cst.PyVal Cst.Constraints Gen.ConstraintsGen.
From Coq Require Import ZArith QArith Permutation.
Close Scope Q_scope.
Open Scope N_scope.

Inductive conflict :=
| KReqOpt
| KConstConst (a b : atom)
| KEnumConst (e : list str) (a : atom).

Definition is_req (k : cst) : bool := match k with CReq => true | _ => false end.
Definition is_opt (k : cst) : bool := match k with COpt => true | _ => false end.
Definition const_of (k : cst) : list atom := match k with CConst a => [a] | _ => [] end.
Definition enum_of (k : cst) : list (list str) := match k with CEnum e => [e] | _ => [] end.
Definition consts (ch : list cst) : list atom := flat_map const_of ch.
Definition enums (ch : list cst) : list (list str) := flat_map enum_of ch.

(* `for i in range(len(cs) - 1): if cs[i].const_value != cs[i+1].const_value` -- ADJACENT pairs only *)
Fixpoint adj_conflicts (l : list atom) : list conflict :=
  match l with
  | [] => []
  | a :: t =>
      match t with
      | [] => []
      | b :: _ => (if negb (atom_eqb a b) then [KConstConst a b] else []) ++ adj_conflicts t
      end
  end.

(* `for enum_c: for const_c: if str(const) not in enum.allowed_values` -- EXACT membership, no prefix rule *)
Definition enum_const_conflict (e : list str) (a : atom) : list conflict :=
  if negb (str_in (atom_str a) e) then [KEnumConst e a] else [].
Definition enum_conflicts (es : list (list str)) (cs : list atom) : list conflict :=
  flat_map (fun e => flat_map (enum_const_conflict e) cs) es.

Definition conflicts (ch : list cst) : list conflict :=
  (if existsb is_req ch && existsb is_opt ch then [KReqOpt] else [])
    ++ adj_conflicts (consts ch) ++ enum_conflicts (enums ch) (consts ch).

Fixpoint first_fail (o : orc) (ch : list cst) (v : pyval) : res :=
  match ch with
  | [] => ok
  | k :: t => let r := eval o k v in if valid r then first_fail o t v else r
  end.

Definition chain_eval (o : orc) (ch : list cst) (v : pyval) : res :=
  match conflicts ch with
  | [] => first_fail o ch v
  | cs => mkres false (map (fun _ => cst_conflict_code) cs)
  end.

Definition accepts (o : orc) (v : pyval) (k : cst) : bool := valid (eval o k v).

(* ---------------------------------------------------------------------------------------------- *)
(* conjunction / fail-fast / conflicts first                                                        *)

Lemma first_fail_valid o ch v : valid (first_fail o ch v) = forallb (accepts o v) ch.
Proof.
  induction ch as [|k t IH]; cbn; [reflexivity|]. unfold accepts at 1.
  destruct (valid (eval o k v)) eqn:E; cbn; [exact IH|exact E].
Qed.

Theorem chain_conjunction o ch v :
  conflicts ch = [] -> valid (chain_eval o ch v) = forallb (accepts o v) ch.
Proof. intro H. unfold chain_eval. rewrite H. apply first_fail_valid. Qed.

Lemma first_fail_split o pre k post v :
  forallb (accepts o v) pre = true -> accepts o v k = false ->
  first_fail o (pre ++ k :: post) v = eval o k v.
Proof.
  induction pre as [|p pre IH]; cbn; intros Hpre Hk.
  - unfold accepts in Hk. rewrite Hk. reflexivity.
  - apply andb_true_iff in Hpre as [Hp Hpre]. unfold accepts in Hp. rewrite Hp. apply IH; assumption.
Qed.

(* the result of a conflict-free chain that rejects is EXACTLY the result of its first rejecting member *)
Theorem chain_failfast o pre k post v :
  conflicts (pre ++ k :: post) = [] ->
  forallb (accepts o v) pre = true -> accepts o v k = false ->
  chain_eval o (pre ++ k :: post) v = eval o k v.
Proof. intros Hc Hpre Hk. unfold chain_eval. rewrite Hc. apply first_fail_split; assumption. Qed.

(* and a rejecting conflict-free chain always has such a first rejecting member *)
Lemma first_fail_exists o ch v :
  forallb (accepts o v) ch = false ->
  exists pre k post, ch = pre ++ k :: post /\ forallb (accepts o v) pre = true /\ accepts o v k = false.
Proof.
  induction ch as [|k t IH]; cbn; [discriminate|]. intro H.
  destruct (accepts o v k) eqn:E.
  - cbn in H. destruct (IH H) as (pre & k' & post & -> & Hp & Hk).
    exists (k :: pre), k', post. cbn. rewrite E, Hp. repeat split; assumption.
  - exists [], k, t. repeat split; assumption.
Qed.

Theorem chain_conflict_first o ch v :
  conflicts ch <> [] ->
  valid (chain_eval o ch v) = false /\
  codes (chain_eval o ch v) = repeat cst_conflict_code (length (conflicts ch)) /\
  (0 < length (conflicts ch))%nat.
Proof.
  intro H. unfold chain_eval. destruct (conflicts ch) as [|c cs] eqn:E; [congruence|].
  cbn [valid codes]. repeat split; [|cbn; apply Nat.lt_0_succ].
  generalize (c :: cs). intro l. induction l as [|x l IH]; cbn; [reflexivity|]. f_equal. exact IH.
Qed.

(* ---------------------------------------------------------------------------------------------- *)
(* order independence                                                                               *)

Lemma flat_map_nil {A B} (f : A -> list B) l : flat_map f l = [] <-> (forall x, In x l -> f x = []).
Proof.
  induction l as [|a l IH]; cbn; split; intro H.
  - intros x [].
  - reflexivity.
  - apply app_eq_nil in H as [H1 H2]. intros x [<-|Hx]; [exact H1|]. apply IH; assumption.
  - rewrite (H a (or_introl eq_refl)). cbn. apply IH. intros x Hx. apply H. right; exact Hx.
Qed.

Lemma perm_flat_map {A B} (f : A -> list B) l l' : Permutation l l' -> Permutation (flat_map f l) (flat_map f l').
Proof.
  induction 1; cbn.
  - constructor.
  - apply Permutation_app_head. assumption.
  - rewrite !app_assoc. apply Permutation_app_tail. apply Permutation_app_comm.
  - eapply Permutation_trans; eassumption.
Qed.

Lemma perm_existsb {A} (p : A -> bool) l l' : Permutation l l' -> existsb p l = existsb p l'.
Proof.
  intro P. destruct (existsb p l) eqn:E1, (existsb p l') eqn:E2; try reflexivity.
  - apply existsb_exists in E1 as (x & Hx & Hp). assert (existsb p l' = true) by (apply existsb_exists; exists x; split; [eapply Permutation_in; eassumption|assumption]). congruence.
  - apply existsb_exists in E2 as (x & Hx & Hp). assert (existsb p l = true) by (apply existsb_exists; exists x; split; [eapply Permutation_in; [apply Permutation_sym|]; eassumption|assumption]). congruence.
Qed.

Lemma perm_forallb {A} (p : A -> bool) l l' : Permutation l l' -> forallb p l = forallb p l'.
Proof.
  intro P. destruct (forallb p l) eqn:E1, (forallb p l') eqn:E2; try reflexivity.
  - rewrite forallb_forall in E1. assert (forallb p l' = true) by (apply forallb_forall; intros x Hx; apply E1; eapply Permutation_in; [apply Permutation_sym|]; eassumption). congruence.
  - rewrite forallb_forall in E2. assert (forallb p l = true) by (apply forallb_forall; intros x Hx; apply E2; eapply Permutation_in; eassumption). congruence.
Qed.

(* "no ADJACENT pair differs" <-> "fewer than two, or ALL pairs equal": needs only symmetry + transitivity of
   Python == on atoms (so it holds although nan <> nan) *)
Definition all_eq (l : list atom) : Prop := forall x y, In x l -> In y l -> atom_eqb x y = true.

Lemma adj_nil_all_eq l : adj_conflicts l = [] <-> ((length l <= 1)%nat \/ all_eq l).
Proof.
  split.
  - induction l as [|a t IH]; [left; cbn; auto|].
    destruct t as [|b t']; [left; cbn; auto|].
    cbn [adj_conflicts]. intro H. apply app_eq_nil in H as [Hab Ht]. right.
    destruct (atom_eqb a b) eqn:Eab; [|discriminate]. clear Hab.
    assert (Eba : atom_eqb b a = true) by (rewrite atom_eqb_sym; exact Eab).
    assert (Eaa : atom_eqb a a = true) by (eapply atom_eqb_trans; eassumption).
    assert (Hb : forall y, In y (b :: t') -> atom_eqb b y = true).
    { destruct (IH Ht) as [Hlen|Hall].
      - destruct t'; [|cbn in Hlen; lia].
        intros y [<-|[]]. eapply atom_eqb_trans; eassumption.
      - intros y Hy. apply Hall; [left; reflexivity|exact Hy]. }
    intros x y [<-|Hx] [<-|Hy].
    + exact Eaa.
    + eapply atom_eqb_trans; [exact Eab|apply Hb; exact Hy].
    + rewrite atom_eqb_sym. eapply atom_eqb_trans; [exact Eab|apply Hb; exact Hx].
    + eapply atom_eqb_trans; [rewrite atom_eqb_sym; apply Hb; exact Hx|apply Hb; exact Hy].
  - induction l as [|a t IH]; [reflexivity|]. destruct t as [|b t']; [reflexivity|].
    intros [Hlen|Hall]; [cbn in Hlen; lia|].
    cbn [adj_conflicts]. rewrite (Hall a b) by (cbn; auto). cbn [negb app].
    apply IH. right. intros x y Hx Hy. apply Hall; right; assumption.
Qed.

Lemma adj_nil_perm l l' : Permutation l l' -> adj_conflicts l = [] -> adj_conflicts l' = [].
Proof.
  intros P H. apply adj_nil_all_eq in H. apply adj_nil_all_eq. destruct H as [H|H].
  - left. rewrite <- (Permutation_length P). exact H.
  - right. intros x y Hx Hy. apply H; eapply Permutation_in; try eassumption; apply Permutation_sym; assumption.
Qed.

Lemma enum_conflicts_nil es cs :
  enum_conflicts es cs = [] <-> (forall e a, In e es -> In a cs -> str_in (atom_str a) e = true).
Proof.
  unfold enum_conflicts. rewrite flat_map_nil. split.
  - intros H e a He Ha. specialize (H e He). rewrite flat_map_nil in H. specialize (H a Ha).
    unfold enum_const_conflict in H. destruct (str_in (atom_str a) e); [reflexivity|discriminate].
  - intros H e He. apply flat_map_nil. intros a Ha. unfold enum_const_conflict. rewrite (H e a He Ha). reflexivity.
Qed.

Lemma conflicts_nil_perm ch ch' : Permutation ch ch' -> conflicts ch = [] -> conflicts ch' = [].
Proof.
  intros P H. unfold conflicts in *.
  apply app_eq_nil in H as [H1 H]. apply app_eq_nil in H as [H2 H3].
  assert (Pc : Permutation (consts ch) (consts ch')) by (apply perm_flat_map; exact P).
  assert (Pe : Permutation (enums ch) (enums ch')) by (apply perm_flat_map; exact P).
  rewrite <- (perm_existsb is_req _ _ P), <- (perm_existsb is_opt _ _ P), H1. cbn [app].
  rewrite (adj_nil_perm _ _ Pc H2). cbn [app].
  apply enum_conflicts_nil. rewrite enum_conflicts_nil in H3.
  intros e a He Ha. apply H3; eapply Permutation_in; try eassumption; apply Permutation_sym; assumption.
Qed.

Definition has_conflict (ch : list cst) : bool := match conflicts ch with [] => false | _ => true end.

Theorem conflict_order_independent ch ch' : Permutation ch ch' -> has_conflict ch = has_conflict ch'.
Proof.
  intro P. unfold has_conflict.
  destruct (conflicts ch) eqn:E1, (conflicts ch') eqn:E2; try reflexivity.
  - rewrite (conflicts_nil_perm _ _ P E1) in E2. discriminate.
  - rewrite (conflicts_nil_perm _ _ (Permutation_sym P) E2) in E1. discriminate.
Qed.

Theorem chain_order_independent o ch ch' v :
  Permutation ch ch' -> valid (chain_eval o ch v) = valid (chain_eval o ch' v).
Proof.
  intro P. pose proof (conflict_order_independent _ _ P) as HC. unfold has_conflict in HC.
  destruct (conflicts ch) eqn:E1, (conflicts ch') eqn:E2; try discriminate.
  - rewrite !chain_conjunction by assumption. apply perm_forallb. exact P.
  - unfold chain_eval. rewrite E1, E2. reflexivity.
Qed.

(* the property's biconditional, as one statement *)
Theorem chain_accepts_iff o ch v :
  valid (chain_eval o ch v) = true <-> (conflicts ch = [] /\ forall k, In k ch -> accepts o v k = true).
Proof.
  split.
  - intro H. destruct (conflicts ch) eqn:E.
    + split; [reflexivity|]. unfold chain_eval in H; rewrite E in H. rewrite first_fail_valid in H. apply forallb_forall. exact H.
    + unfold chain_eval in H. rewrite E in H. discriminate.
  - intros [Hc Hall]. rewrite chain_conjunction by exact Hc. apply forallb_forall. exact Hall.
Qed.

(* the NUMBER of conflict errors is order dependent (adjacent CONST pairs), validity is not *)
Lemma conflict_count_order_dependent :
  exists ch ch', Permutation ch ch' /\ length (conflicts ch) <> length (conflicts ch').
Proof.
  exists [CConst (AInt 1); CConst (AInt 2); CConst (AInt 1)], [CConst (AInt 1); CConst (AInt 1); CConst (AInt 2)].
  split; [apply perm_skip; apply perm_swap|vm_compute; discriminate].
Qed.

(* non-vacuity *)
Example chain_no_conflict_ex :
  conflicts [CReq; CConst (AInt 1); CEnum [[49]; [50]]; CConst (AFloat (FFin (inject_Z 1)) [49]); CType s_NUMBER] = [].
Proof. vm_compute. reflexivity. Qed.
Example chain_conflict_ex : conflicts [CReq; COpt; CConst (AInt 1); CConst (AInt 2); CEnum [[65]]] <> [].
Proof. vm_compute. discriminate. Qed.
Example chain_failfast_ex :
  let o := mkorc [] None false false (fun _ => false) in
  chain_eval o ([CReq] ++ CType s_NUMBER :: [CMaxLen 0]) (PA (AStr [65])) = fail s_E007.
Proof. vm_compute. reflexivity. Qed.
