(* Small document AST shared by the C11 (repair) and C14 (projection) models.
   Values and nodes mirror octave_mcp/core/ast_nodes.py with positions, comments-on-nodes and token
   slices erased.  Floats are carried as their Python repr text (never computed with). *)
From OV Require Import Base.Strs.
From Coq Require Import ZArith DecimalZ.
Open Scope N_scope.

Inductive value :=
| VNull
| VBool (b : bool)
| VInt (z : Z)
| VFloat (r : str)                                   (* repr(float) *)
| VStr (s : str)
| VList (l : list value)                             (* ListValue.items *)
| VMap (m : list (str * value))                      (* InlineMap.pairs, insertion order *)
| VZone (content : str) (tag : option str) (fence : str)   (* LiteralZoneValue *)
| VHolo (raw : str).                                 (* HolographicValue (raw_pattern) *)

Inductive node :=
| NAssign (k : str) (v : value)
| NBlock (k : str) (tgt : option str) (ch : list node)
| NSection (id k : str) (ann : option str) (ch : list node)
| NComment (t : str).

(* ---- induction principles for the nested types ---------------------------------------- *)
Section value_ind_nested.
  Variable P : value -> Prop.
  Hypothesis Hnull : P VNull.
  Hypothesis Hbool : forall b, P (VBool b).
  Hypothesis Hint : forall z, P (VInt z).
  Hypothesis Hfloat : forall r, P (VFloat r).
  Hypothesis Hstr : forall s, P (VStr s).
  Hypothesis Hlist : forall l, Forall P l -> P (VList l).
  Hypothesis Hmap : forall m, Forall (fun kv => P (snd kv)) m -> P (VMap m).
  Hypothesis Hzone : forall c t f, P (VZone c t f).
  Hypothesis Hholo : forall r, P (VHolo r).
  Fixpoint value_ind' (v : value) : P v :=
    match v with
    | VNull => Hnull | VBool b => Hbool b | VInt z => Hint z | VFloat r => Hfloat r | VStr s => Hstr s
    | VList l => Hlist l ((fix go (l : list value) : Forall P l :=
                             match l with [] => Forall_nil _ | x :: r => Forall_cons _ (value_ind' x) (go r) end) l)
    | VMap m => Hmap m ((fix go (m : list (str * value)) : Forall (fun kv => P (snd kv)) m :=
                           match m with [] => Forall_nil _ | x :: r => Forall_cons _ (value_ind' (snd x)) (go r) end) m)
    | VZone c t f => Hzone c t f
    | VHolo r => Hholo r
    end.
End value_ind_nested.

Section node_ind_nested.
  Variable P : node -> Prop.
  Hypothesis HA : forall k v, P (NAssign k v).
  Hypothesis HB : forall k t ch, Forall P ch -> P (NBlock k t ch).
  Hypothesis HS : forall i k a ch, Forall P ch -> P (NSection i k a ch).
  Hypothesis HC : forall t, P (NComment t).
  Fixpoint node_ind' (n : node) : P n :=
    match n with
    | NAssign k v => HA k v
    | NBlock k t ch => HB k t ch ((fix go (l : list node) : Forall P l :=
                                     match l with [] => Forall_nil _ | x :: r => Forall_cons _ (node_ind' x) (go r) end) ch)
    | NSection i k a ch => HS i k a ch ((fix go (l : list node) : Forall P l :=
                                     match l with [] => Forall_nil _ | x :: r => Forall_cons _ (node_ind' x) (go r) end) ch)
    | NComment t => HC t
    end.
End node_ind_nested.

Lemma nodes_ind' (P : node -> Prop) :
  (forall k v, P (NAssign k v)) -> (forall k t ch, Forall P ch -> P (NBlock k t ch)) ->
  (forall i k a ch, Forall P ch -> P (NSection i k a ch)) -> (forall t, P (NComment t)) ->
  forall l, Forall P l.
Proof. intros HA HB HS HC l. induction l; constructor; auto. apply node_ind'; auto. Qed.

(* ---- decimal text of an integer (Python str(int)) and its reader ----------------------- *)
Fixpoint uint_to_str (u : Decimal.uint) : str :=
  match u with
  | Decimal.Nil => []
  | Decimal.D0 u => 48 :: uint_to_str u | Decimal.D1 u => 49 :: uint_to_str u
  | Decimal.D2 u => 50 :: uint_to_str u | Decimal.D3 u => 51 :: uint_to_str u
  | Decimal.D4 u => 52 :: uint_to_str u | Decimal.D5 u => 53 :: uint_to_str u
  | Decimal.D6 u => 54 :: uint_to_str u | Decimal.D7 u => 55 :: uint_to_str u
  | Decimal.D8 u => 56 :: uint_to_str u | Decimal.D9 u => 57 :: uint_to_str u
  end.
Definition Z_to_dec (z : Z) : str :=
  match Z.to_int z with Decimal.Pos u => uint_to_str u | Decimal.Neg u => c_dash :: uint_to_str u end.

Fixpoint str_to_uint (s : str) : option Decimal.uint :=
  match s with
  | [] => Some Decimal.Nil
  | c :: r =>
      match str_to_uint r with
      | None => None
      | Some u =>
          if c =? 48 then Some (Decimal.D0 u) else if c =? 49 then Some (Decimal.D1 u)
          else if c =? 50 then Some (Decimal.D2 u) else if c =? 51 then Some (Decimal.D3 u)
          else if c =? 52 then Some (Decimal.D4 u) else if c =? 53 then Some (Decimal.D5 u)
          else if c =? 54 then Some (Decimal.D6 u) else if c =? 55 then Some (Decimal.D7 u)
          else if c =? 56 then Some (Decimal.D8 u) else if c =? 57 then Some (Decimal.D9 u)
          else None
      end
  end.
(* plain decimal reader: optional '-' then digits (the texts str(int) produces) *)
Definition read_dec (s : str) : option Z :=
  match s with
  | [] => None
  | c :: r => if c =? c_dash
              then match str_to_uint r with Some u => Some (Z.of_int (Decimal.Neg u)) | None => None end
              else match str_to_uint s with Some u => Some (Z.of_int (Decimal.Pos u)) | None => None end
  end.

Lemma str_to_uint_to_str u : str_to_uint (uint_to_str u) = Some u.
Proof. induction u; cbn [uint_to_str str_to_uint]; try rewrite IHu; reflexivity. Qed.

Lemma uint_to_str_head u : match uint_to_str u with [] => u = Decimal.Nil | c :: _ => (c =? c_dash) = false end.
Proof. destruct u; cbn; reflexivity. Qed.

Lemma to_int_nonnil z : match Z.to_int z with Decimal.Pos u | Decimal.Neg u => u <> Decimal.Nil end.
Proof.
  destruct z as [|p|p]; cbn; try discriminate.
  - pose proof (DecimalPos.Unsigned.to_uint_nonnil p) as H. exact H.
  - pose proof (DecimalPos.Unsigned.to_uint_nonnil p) as H. exact H.
Qed.

Theorem read_dec_Z_to_dec z : read_dec (Z_to_dec z) = Some z.
Proof.
  unfold Z_to_dec. pose proof (DecimalZ.of_to z) as E. pose proof (to_int_nonnil z) as NN.
  destruct (Z.to_int z) as [u|u].
  - unfold read_dec. pose proof (uint_to_str_head u) as H. destruct (uint_to_str u) as [|c r] eqn:Eu.
    + contradiction.
    + rewrite H. rewrite <- Eu, str_to_uint_to_str, E. reflexivity.
  - unfold read_dec. change (c_dash =? c_dash) with true. cbn iota. rewrite str_to_uint_to_str, E. reflexivity.
Qed.

(* ---- ASCII lower / strip (str.lower, str.strip restricted to ASCII; non-ASCII is model scope) --- *)
Definition lower_chr (c : N) : N := if is_upper c then c + 32 else c.
Definition lower (s : str) : str := map lower_chr s.
Definition is_ws (c : N) : bool := ((9 <=? c) && (c <=? 13)) || ((28 <=? c) && (c <=? 32)).
Definition strip (s : str) : str := rev (dropb is_ws (rev (dropb is_ws s))).
Definition ascii_str (s : str) : bool := forallb is_ascii s.

Definition opt_str_eqb (a b : option str) : bool :=
  match a, b with Some x, Some y => str_eqb x y | None, None => true | _, _ => false end.
