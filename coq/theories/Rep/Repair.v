(* Faithful model of octave_mcp/core/repair.py (TIER_REPAIR: enum casefold, type coercion).
   Consumes Gen/RepairGen.v: guard order of repair_value, isinstance dispatch order, rule ids, tier strings,
   the NUMBER type name and the characters that select int() vs float().
   int()/float() themselves are ORACLE inputs (orc_int, orc_float): the harness evaluates the real Python
   functions on every stripped text occurring in a case and passes the table.  orc_float returns
   (repr(x), math.isfinite(x), x == 0) for x = float(text).  A ValueError/OverflowError is None.
   The mantissa test of the underflow guard (80b6126, 0b7941a) is string processing computed HERE: mantissa =
   lower(text) up to the first 'e'; the guard fires iff x == 0 and some character of the mantissa satisfies
   `ch.isdecimal() and int(ch) != 0`.  For ASCII characters that test is computed in Gallina ('1'..'9'); for a
   non-ASCII character the decimal value comes from the third oracle orc_digit (char -> Some (int(ch)) iff
   ch.isdecimal(); a per-case table computed by the harness with the real str.isdecimal / int).
   Split char, lower flag, WHICH per-character test the source uses (repair_mantissa_digit_test: 2 = the one above,
   1 = membership in a literal ASCII table, the test of 80b6126) and the guard ORDER are consumed from Gen/RepairGen.v. *)
From OV Require Import Base.Strs Rep.Ast Gen.RepairGen.
From Coq Require Import ZArith.
Open Scope N_scope.

(* the part of a ConstraintChain that repair looks at *)
Inductive constr :=
| CEnum (allowed : list str)      (* EnumConstraint.allowed_values (already str()-normalised by __post_init__) *)
| CType (t : str)                 (* TypeConstraint.expected_type *)
| COther.                         (* any other constraint class: skipped by the isinstance dispatch *)

(* FieldDefinition as repair_value inspects it *)
Inductive fielddef :=
| FNoPattern                      (* field_def.pattern is None *)
| FNoChain                        (* field_def.pattern.constraints is None *)
| FChain (cs : list constr).      (* field_def.pattern.constraints.constraints *)

Definition schema := list (str * fielddef).      (* SchemaDefinition.fields (dict: keys unique) *)

Record entry := mk_entry { e_rule : str; e_before : str; e_after : str; e_tier : str }.

Fixpoint lookup (k : str) (s : schema) : option fielddef :=
  match s with
  | [] => None
  | (k', fd) :: r => if str_eqb k k' then Some fd else lookup k r
  end.

Definition is_zone (v : value) : bool := match v with VZone _ _ _ => true | _ => false end.
Definition is_null (v : value) : bool := match v with VNull => true | _ => false end.
Definition is_str (v : value) : bool := match v with VStr _ => true | _ => false end.
Definition is_number (v : value) : bool := match v with VInt _ | VFloat _ => true | _ => false end.

(* ---- _attempt_enum_casefold ------------------------------------------------------------ *)
Definition ci_matches (s : str) (allowed : list str) : list str :=
  filter (fun a => str_eqb (lower a) (lower s)) allowed.

Definition attempt_enum (v : value) (allowed : list str) : option (value * entry) :=
  match v with
  | VStr s =>
      if str_in s allowed then None
      else match ci_matches s allowed with
           | [c] => Some (VStr c, mk_entry repair_rule_enum s c repair_tier_enum)
           | _ => None
           end
  | _ => None
  end.

(* ---- _attempt_type_coercion ------------------------------------------------------------ *)
Definition use_int (st : str) : bool :=
  forallb (fun p => negb (memb (fst p) (if snd p =? 1 then lower st else st))) repair_int_branch_chars.

(* value_stripped.lower().split('e')[0] : the text before the first split char *)
Definition mantissa (st : str) : str :=
  takeb (fun c => negb (c =? repair_mantissa_split)) (if repair_mantissa_lower =? 1 then lower st else st).
(* Python's view of one character: Some (int(ch)) iff ch.isdecimal().  ASCII: exactly '0'..'9'; else the oracle *)
Definition decimal_value (orc_digit : N -> option N) (c : N) : option N :=
  if c <? 128 then (if (48 <=? c) && (c <=? 57) then Some (c - 48) else None) else orc_digit c.
(* the per-character test the source applies to the mantissa *)
Definition mantissa_digit_test (orc_digit : N -> option N) (c : N) : bool :=
  if repair_mantissa_digit_test =? 1 then memb c repair_mantissa_digits                     (* ch in '<table>' *)
  else if repair_mantissa_digit_test =? 2                                                   (* ch.isdecimal() and int(ch) != 0 *)
       then match decimal_value orc_digit c with Some v => negb (v =? 0) | None => false end
  else false.
(* any(<test> for ch in mantissa) *)
Definition nonzero_mantissa (orc_digit : N -> option N) (st : str) : bool :=
  existsb (mantissa_digit_test orc_digit) (mantissa st).

(* the rejecting guards after `coerced = float(value_stripped)`; fin = math.isfinite(coerced), zero = (coerced == 0) *)
Definition float_guard_holds (orc_digit : N -> option N) (g : N) (st : str) (fin zero : bool) : bool :=
  if g =? 1 then negb fin
  else if g =? 2 then zero && nonzero_mantissa orc_digit st
  else false.

Section Oracle.
  Variable orc_int : str -> option Z.
  Variable orc_float : str -> option (str * bool * bool).
  Variable orc_digit : N -> option N.

  Definition attempt_type (v : value) (t : str) : option (value * entry) :=
    if negb (str_eqb t repair_number_type) then None
    else match v with
         | VStr s =>
             let st := strip s in
             match st with
             | [] => None
             | _ :: _ =>
                 if use_int st
                 then match orc_int st with
                      | Some z => Some (VInt z, mk_entry repair_rule_type s (Z_to_dec z) repair_tier_type)
                      | None => None
                      end
                 else match orc_float st with
                      | Some (r, fin, zero) =>
                          if existsb (fun g => float_guard_holds orc_digit g st fin zero) repair_float_guards then None
                          else Some (VFloat r, mk_entry repair_rule_type s r repair_tier_type)
                      | None => None
                      end
             end
         | _ => None
         end.

  (* ---- repair_value ---------------------------------------------------------------------- *)
  Definition constr_class (c : constr) : N := match c with CEnum _ => 1 | CType _ => 2 | COther => 0 end.

  Definition attempt (c : constr) (v : value) : option (value * entry) :=
    if negb (memb (constr_class c) repair_dispatch) then None
    else match c with
         | CEnum a => attempt_enum v a
         | CType t => attempt_type v t
         | COther => None
         end.

  (* the `for constraint in constraints` loop; was_repaired <-> the returned log is non-empty *)
  Fixpoint run_chain (cs : list constr) (cur : value) : value * list entry :=
    match cs with
    | [] => (cur, [])
    | c :: r =>
        match attempt c cur with
        | Some (v', e) => let '(w, lg) := run_chain r v' in (w, e :: lg)
        | None => run_chain r cur
        end
    end.

  Definition guard_holds (g : N) (v : value) (fd : option fielddef) (fix_ : bool) : bool :=
    if g =? 1 then is_zone v
    else if g =? 2 then negb fix_
    else if g =? 3 then match fd with None => true | _ => false end
    else if g =? 4 then match fd with Some FNoPattern => true | _ => false end
    else if g =? 5 then match fd with Some FNoChain => true | _ => false end
    else if g =? 6 then match fd with Some (FChain []) => true | _ => false end
    else if g =? 7 then is_null v
    else false.

  Definition repair_value (v : value) (fd : option fielddef) (fix_ : bool) : value * list entry :=
    if existsb (fun g => guard_holds g v fd fix_) repair_guards then (v, [])
    else match fd with
         | Some (FChain cs) => run_chain cs v
         | _ => (v, [])            (* unreachable when the guard list is complete (repair_guards_pin) *)
         end.

  (* ---- _repair_ast_node / _apply_schema_repairs / repair ------------------------------------ *)
  Fixpoint repair_node (sch : schema) (n : node) : node * list entry :=
    match n with
    | NAssign k v =>
        if is_zone v then (n, [])
        else match lookup k sch with
             | None => (n, [])
             | Some fd =>
                 let r := repair_value v (Some fd) true in
                 (match snd r with [] => n | _ :: _ => NAssign k (fst r) end, snd r)
             end
    | NBlock k t ch => let r := map (repair_node sch) ch in (NBlock k t (map fst r), flat_map snd r)
    | NSection i k a ch => let r := map (repair_node sch) ch in (NSection i k a (map fst r), flat_map snd r)
    | NComment _ => (n, [])
    end.

  Definition repair_nodes (sch : schema) (d : list node) : list node * list entry :=
    let r := map (repair_node sch) d in (map fst r, flat_map snd r).

  (* repair(doc, errors, fix, schema): doc.sections only; META, name, frontmatter are not touched *)
  Definition repair (fix_ : bool) (sch : option schema) (d : list node) : list node * list entry :=
    match fix_, sch with
    | true, Some s => repair_nodes s d
    | _, _ => (d, [])
    end.
End Oracle.

(* ---- what switches repair on at a tool surface ------------------------------------------------------------------
   surface 1 = octave_validate (`fix`), 2 = octave_write (`lenient`), 3 = `octave validate` CLI (`--fix`).
   arg = Some b: the caller passed the switch explicitly; None: the caller OMITTED it -> the default the translator read
   from `<switch> = params.get('<switch>', <default>)` (the only binding of the switch; every repair() call is under
   `if <switch> ...`).  Nothing else (profile, other arguments) is an input: that is what the translator checks. *)
Definition surface_default (surface : N) : N :=
  if surface =? 1 then repair_validate_fix_default
  else if surface =? 2 then repair_write_lenient_default
  else if surface =? 3 then repair_cli_fix_default
  else 0.
Definition surface_flag (surface : N) (arg : option bool) : bool :=
  match arg with Some b => b | None => surface_default surface =? 1 end.

(* EnumConstraint.evaluate on a string (exact, else unique prefix): used only to state what "valid" means *)
Definition enum_eval (allowed : list str) (s : str) : bool :=
  str_in s allowed || (N.of_nat (length (filter (prefixb s) allowed)) =? 1).

(* ---- facts about the generated tables the model consumes --------------------------------------- *)
Lemma repair_guards_pin : repair_guards = [1; 2; 3; 4; 5; 6; 7].
Proof. reflexivity. Qed.
Lemma repair_dispatch_pin : repair_dispatch = [1; 2].
Proof. reflexivity. Qed.
Lemma repair_int_branch_pin : repair_int_branch_chars = [(46, 0); (101, 1)].
Proof. reflexivity. Qed.
Lemma repair_float_guards_pin : repair_float_guards = [1; 2].
Proof. reflexivity. Qed.
Lemma repair_mantissa_pin :
  repair_mantissa_split = 101 /\ repair_mantissa_lower = 1 /\ repair_mantissa_digit_test = 2 /\ repair_mantissa_digits = [].
Proof. repeat split; reflexivity. Qed.
Lemma repair_switch_defaults_pin :
  repair_validate_fix_default = 0 /\ repair_write_lenient_default = 0 /\ repair_cli_fix_default = 0.
Proof. repeat split; reflexivity. Qed.
Lemma repair_tiers_are_REPAIR :
  repair_tier_enum = [82; 69; 80; 65; 73; 82] /\ repair_tier_type = [82; 69; 80; 65; 73; 82].
Proof. split; reflexivity. Qed.
Lemma repair_caught_pin : repair_caught = [[86; 97; 108; 117; 101; 69; 114; 114; 111; 114]; [79; 118; 101; 114; 102; 108; 111; 119; 69; 114; 114; 111; 114]].
Proof. reflexivity. Qed.

(* ---- table-driven oracle for the extracted driver ------------------------------------------------- *)
Definition orc_tbl := list (str * (option Z * option (str * bool * bool))).
Fixpoint tbl_find (t : orc_tbl) (s : str) : option (option Z * option (str * bool * bool)) :=
  match t with [] => None | (k, r) :: t' => if str_eqb s k then Some r else tbl_find t' s end.
Definition tbl_int (t : orc_tbl) (s : str) : option Z := match tbl_find t s with Some (i, _) => i | None => None end.
Definition tbl_float (t : orc_tbl) (s : str) : option (str * bool * bool) := match tbl_find t s with Some (_, f) => f | None => None end.
(* strings the oracle is asked about but which are missing from the table: the driver reports them *)
(* digit oracle table: non-ASCII character -> its decimal value (absent = not str.isdecimal()) *)
Definition dig_tbl := list (N * N).
Fixpoint dig_find (t : dig_tbl) (c : N) : option N :=
  match t with [] => None | (k, v) :: t' => if c =? k then Some v else dig_find t' c end.
Definition repair_tbl (t : orc_tbl) (dt : dig_tbl) (fix_ : bool) (sch : option schema) (d : list node) : list node * list entry :=
  repair (tbl_int t) (tbl_float t) (dig_find dt) fix_ sch d.
(* the driver's entry for a tool surface: switch given / omitted *)
Definition repair_surface_tbl (t : orc_tbl) (dt : dig_tbl) (surface : N) (arg : option bool) (sch : option schema) (d : list node)
  : list node * list entry := repair_tbl t dt (surface_flag surface arg) sch d.
