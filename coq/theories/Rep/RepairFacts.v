(* Theorems about the repair model (all documents, all schemas, every oracle). *)
From OV Require Import Base.Strs Rep.Ast Gen.RepairGen Rep.Repair.
From Coq Require Import ZArith.
Open Scope N_scope.

Lemma str_in_In s l : str_in s l = true <-> In s l.
Proof.
  induction l as [|x l IH]; cbn; [split; [discriminate|tauto]|].
  rewrite orb_true_iff, IH, str_eqb_eq. split; intros [H|H]; auto.
Qed.
Lemma str_in_notIn s l : str_in s l = false <-> ~ In s l.
Proof. rewrite <- str_in_In. destruct (str_in s l); split; congruence. Qed.

(* ---- shapes: everything except the values of assignments ------------------------------------ *)
Inductive shp :=
| SA (k : str)
| SB (k : str) (t : option str) (ch : list shp)
| SS (i k : str) (a : option str) (ch : list shp)
| SC (t : str).
Fixpoint shape (n : node) : shp :=
  match n with
  | NAssign k _ => SA k
  | NBlock k t ch => SB k t (map shape ch)
  | NSection i k a ch => SS i k a (map shape ch)
  | NComment t => SC t
  end.

(* all literal zones of a value / node, deep, in order *)
Fixpoint zones_v (v : value) : list value :=
  match v with
  | VZone _ _ _ => [v]
  | VList l => flat_map zones_v l
  | VMap m => flat_map (fun kv => zones_v (snd kv)) m
  | _ => []
  end.
Fixpoint zones_n (n : node) : list value :=
  match n with
  | NAssign _ v => zones_v v
  | NBlock _ _ ch | NSection _ _ _ ch => flat_map zones_n ch
  | NComment _ => []
  end.

(* the text a log entry shows for a value *)
Definition vtext (v : value) : option str :=
  match v with VStr s => Some s | VInt z => Some (Z_to_dec z) | VFloat r => Some r | _ => None end.

(* a chain of log entries leading from value v to value w: consecutive, exact before/after texts *)
Inductive chain : value -> value -> list entry -> Prop :=
| ch_nil v : chain v v []
| ch_cons v m w e lg : vtext v = Some (e_before e) -> vtext m = Some (e_after e) -> v <> m ->
                       chain m w lg -> chain v w (e :: lg).

(* `explains n n' lg`: n' is n with some assignment values replaced, and lg is exactly the concatenation, in
   document order, of the chains of the assignments (empty chain <-> value identical) *)
Inductive explains : node -> node -> list entry -> Prop :=
| ex_assign k v v' lg : chain v v' lg -> explains (NAssign k v) (NAssign k v') lg
| ex_block k t ch ch' lg : explains_l ch ch' lg -> explains (NBlock k t ch) (NBlock k t ch') lg
| ex_section i k a ch ch' lg : explains_l ch ch' lg -> explains (NSection i k a ch) (NSection i k a ch') lg
| ex_comment t : explains (NComment t) (NComment t) []
with explains_l : list node -> list node -> list entry -> Prop :=
| exl_nil : explains_l [] [] []
| exl_cons n n' l l' lg1 lg2 : explains n n' lg1 -> explains_l l l' lg2 -> explains_l (n :: l) (n' :: l') (lg1 ++ lg2).

Section Facts.
  Variable orc_int : str -> option Z.
  Variable orc_float : str -> option (str * bool * bool).
  Variable orc_digit : N -> option N.
  Notation attempt_type := (attempt_type orc_int orc_float orc_digit).
  Notation attempt := (attempt orc_int orc_float orc_digit).
  Notation run_chain := (run_chain orc_int orc_float orc_digit).
  Notation repair_value := (repair_value orc_int orc_float orc_digit).
  Notation repair_node := (repair_node orc_int orc_float orc_digit).
  Notation repair_nodes := (repair_nodes orc_int orc_float orc_digit).
  Notation repair := (repair orc_int orc_float orc_digit).
  Notation nonzero_mantissa := (nonzero_mantissa orc_digit).

  (* ---------- single steps ---------- *)
  Lemma attempt_nonstr c v : is_str v = false -> attempt c v = None.
  Proof.
    intro H. unfold attempt. destruct (negb _); [reflexivity|]. destruct c; [| |reflexivity].
    - destruct v; try reflexivity; discriminate.
    - unfold Repair.attempt_type. destruct (negb _); [reflexivity|]. destruct v; try reflexivity; discriminate.
  Qed.

  Lemma ci_matches_single s a c : ci_matches s a = [c] -> In c a /\ lower c = lower s.
  Proof.
    intro H. assert (In c (ci_matches s a)) as Hin by (rewrite H; left; reflexivity).
    unfold ci_matches in Hin. apply filter_In in Hin as [H1 H2]. apply str_eqb_eq in H2. auto.
  Qed.

  Lemma attempt_enum_spec v a v' e : attempt_enum v a = Some (v', e) ->
    exists s c, v = VStr s /\ v' = VStr c /\ e = mk_entry repair_rule_enum s c repair_tier_enum /\
                ~ In s a /\ In c a /\ lower c = lower s /\ ci_matches s a = [c].
  Proof.
    destruct v; try discriminate. cbn. destruct (str_in s a) eqn:Hin; [discriminate|].
    destruct (ci_matches s a) as [|c [|c2 r]] eqn:Hm; try discriminate.
    intro H; inversion H; subst. apply ci_matches_single in Hm as Hc. destruct Hc.
    exists s, c. repeat split; auto. apply str_in_notIn; exact Hin.
  Qed.

  Lemma attempt_type_spec v t v' e : attempt_type v t = Some (v', e) ->
    t = repair_number_type /\ exists s, v = VStr s /\ strip s <> [] /\
    ((use_int (strip s) = true /\ exists z, orc_int (strip s) = Some z /\ v' = VInt z /\
        e = mk_entry repair_rule_type s (Z_to_dec z) repair_tier_type)
     \/ (use_int (strip s) = false /\ exists r zero, orc_float (strip s) = Some (r, true, zero) /\
        (zero = true -> nonzero_mantissa (strip s) = false) /\ v' = VFloat r /\
        e = mk_entry repair_rule_type s r repair_tier_type)).
  Proof.
    unfold Repair.attempt_type. destruct (str_eqb t repair_number_type) eqn:Ht; cbn [negb]; [|discriminate].
    apply str_eqb_eq in Ht. destruct v; try discriminate.
    destruct (strip s) as [|c0 st] eqn:Hs; [discriminate|].
    intro H. split; [exact Ht|]. exists s. split; [reflexivity|]. rewrite Hs. split; [discriminate|].
    destruct (use_int (c0 :: st)) eqn:Hu.
    - left. split; [reflexivity|]. destruct (orc_int (c0 :: st)) as [z|]; [|discriminate].
      inversion H; subst. exists z. auto.
    - right. split; [reflexivity|]. destruct (orc_float (c0 :: st)) as [[[r fin] zero]|]; [|discriminate].
      rewrite repair_float_guards_pin in H. cbn [existsb] in H. unfold float_guard_holds in H. cbn [N.eqb Pos.eqb] in H.
      destruct fin; cbn [negb orb] in H; [|discriminate].
      destruct (zero && nonzero_mantissa (c0 :: st)) eqn:Hz; cbn [orb] in H; [discriminate|].
      inversion H; subst. exists r, zero. repeat split; auto.
      intros ->. exact Hz.
  Qed.

  (* every successful step: texts, a real change, result kind *)
  Lemma attempt_texts c v v' e : attempt c v = Some (v', e) ->
    vtext v = Some (e_before e) /\ vtext v' = Some (e_after e) /\ v <> v' /\ is_zone v' = false /\ is_null v' = false
    /\ zones_v v = [] /\ zones_v v' = [].
  Proof.
    unfold attempt. destruct (negb _); [discriminate|]. destruct c; [| |discriminate]; intro H.
    - apply attempt_enum_spec in H as (s & c & -> & -> & -> & Hn & Hi & _). cbn. repeat split; auto.
      intro E; inversion E; subst; contradiction.
    - apply attempt_type_spec in H as (_ & s & -> & _ & [(_ & z & _ & -> & ->)|(_ & r & zero & _ & _ & -> & ->)]); cbn;
        repeat split; auto; discriminate.
  Qed.

  (* ---------- the constraint loop ---------- *)
  Lemma run_chain_nonstr cs v : is_str v = false -> run_chain cs v = (v, []).
  Proof. intro H. induction cs as [|c r IH]; cbn; [reflexivity|]. rewrite attempt_nonstr by exact H. exact IH. Qed.

  Lemma run_chain_chain cs : forall v, chain v (fst (run_chain cs v)) (snd (run_chain cs v)).
  Proof.
    induction cs as [|c r IH]; intro v; cbn; [constructor|].
    destruct (attempt c v) as [[v' e]|] eqn:Ha; [|apply IH].
    specialize (IH v'). destruct (run_chain r v') as [w lg]. cbn in *.
    apply attempt_texts in Ha as (H1 & H2 & H3 & _). econstructor; eauto.
  Qed.

  Lemma run_chain_nil cs : forall v, snd (run_chain cs v) = [] -> fst (run_chain cs v) = v.
  Proof.
    induction cs as [|c r IH]; intro v; cbn; [reflexivity|].
    destruct (attempt c v) as [[v' e]|] eqn:Ha; [|apply IH].
    destruct (run_chain r v') as [w lg]. cbn. discriminate.
  Qed.

  Lemma run_chain_kind cs : forall v, is_zone v = false -> is_null v = false ->
    is_zone (fst (run_chain cs v)) = false /\ is_null (fst (run_chain cs v)) = false.
  Proof.
    induction cs as [|c r IH]; intros v Hz Hn; cbn; [auto|].
    destruct (attempt c v) as [[v' e]|] eqn:Ha; [|apply IH; auto].
    apply attempt_texts in Ha as (_ & _ & _ & Hz' & Hn' & _).
    specialize (IH v' Hz' Hn'). destruct (run_chain r v') as [w lg]. exact IH.
  Qed.

  Lemma run_chain_zones cs : forall v, zones_v (fst (run_chain cs v)) = zones_v v.
  Proof.
    induction cs as [|c r IH]; intro v; cbn; [reflexivity|].
    destruct (attempt c v) as [[v' e]|] eqn:Ha; [|apply IH].
    apply attempt_texts in Ha as (_ & _ & _ & _ & _ & Z1 & Z2).
    specialize (IH v'). destruct (run_chain r v') as [w lg]. cbn in *. congruence.
  Qed.

  (* ---------- repair_value ---------- *)
  Lemma repair_value_cases v fd fx :
    repair_value v fd fx =
      if is_zone v || negb fx || is_null v then (v, [])
      else match fd with Some (FChain (c :: cs)) => run_chain (c :: cs) v | _ => (v, []) end.
  Proof.
    unfold Repair.repair_value. rewrite repair_guards_pin. cbn [existsb].
    unfold guard_holds. cbn [N.eqb Pos.eqb].
    destruct (is_zone v); [reflexivity|]. destruct fx; cbn [negb orb]; [|reflexivity].
    destruct fd as [[| |[|c cs]]|]; cbn [orb]; destruct (is_null v); reflexivity.
  Qed.

  Theorem repair_value_fix_off v fd : repair_value v fd false = (v, []).
  Proof. rewrite repair_value_cases. cbn. rewrite orb_true_r. reflexivity. Qed.

  Theorem repair_value_zone c t f fd fx : repair_value (VZone c t f) fd fx = (VZone c t f, []).
  Proof. rewrite repair_value_cases. reflexivity. Qed.

  Theorem repair_value_none fd fx : repair_value VNull fd fx = (VNull, []).
  Proof. rewrite repair_value_cases. cbn. rewrite orb_true_r. reflexivity. Qed.

  Theorem repair_value_nonstr v fd fx : is_str v = false -> repair_value v fd fx = (v, []).
  Proof.
    intro H. rewrite repair_value_cases. destruct (_ || _); [reflexivity|].
    destruct fd as [[| |[|c cs]]|]; try reflexivity. apply run_chain_nonstr; exact H.
  Qed.

  Lemma repair_value_chain v fd fx : chain v (fst (repair_value v fd fx)) (snd (repair_value v fd fx)).
  Proof.
    rewrite repair_value_cases. destruct (_ || _); [constructor|].
    destruct fd as [[| |[|c cs]]|]; try constructor. apply run_chain_chain.
  Qed.

  Lemma repair_value_nil v fd fx : snd (repair_value v fd fx) = [] -> fst (repair_value v fd fx) = v.
  Proof.
    rewrite repair_value_cases. destruct (_ || _); [reflexivity|].
    destruct fd as [[| |[|c cs]]|]; try reflexivity. apply run_chain_nil.
  Qed.

  Lemma repair_value_zones v fd fx : zones_v (fst (repair_value v fd fx)) = zones_v v.
  Proof.
    rewrite repair_value_cases. destruct (_ || _); [reflexivity|].
    destruct fd as [[| |[|c cs]]|]; try reflexivity. apply run_chain_zones.
  Qed.

  (* the node written back: identical to NAssign k (fst r) in every case *)
  Lemma assign_back k v fd :
    (match snd (repair_value v (Some fd) true) with [] => NAssign k v | _ :: _ => NAssign k (fst (repair_value v (Some fd) true)) end)
    = NAssign k (fst (repair_value v (Some fd) true)).
  Proof.
    destruct (snd (repair_value v (Some fd) true)) eqn:E; [|reflexivity]. rewrite repair_value_nil by exact E. reflexivity.
  Qed.

  (* ---------- tree level ---------- *)
  Theorem repair_fix_off sch d : repair false sch d = (d, []).
  Proof. reflexivity. Qed.
  Theorem repair_no_schema fx d : repair fx None d = (d, []).
  Proof. destruct fx; reflexivity. Qed.

  Lemma map_fst_shape sch ch :
    Forall (fun n => shape (fst (repair_node sch n)) = shape n) ch ->
    map shape (map fst (map (repair_node sch) ch)) = map shape ch.
  Proof. induction 1; cbn; [reflexivity|]. congruence. Qed.

  Lemma repair_node_shape sch n : shape (fst (repair_node sch n)) = shape n.
  Proof.
    induction n using node_ind'; cbn [Repair.repair_node].
    - destruct (is_zone v); [reflexivity|]. destruct (lookup k sch); [|reflexivity]. cbn [fst]. rewrite assign_back. reflexivity.
    - cbn. f_equal. apply map_fst_shape; assumption.
    - cbn. f_equal. apply map_fst_shape; assumption.
    - reflexivity.
  Qed.

  Theorem repair_shape fx sch d : map shape (fst (repair fx sch d)) = map shape d.
  Proof.
    destruct fx, sch as [s|]; try reflexivity. cbn. apply map_fst_shape. apply nodes_ind'; intros; apply repair_node_shape.
  Qed.

  Lemma explains_l_map sch ch :
    Forall (fun n => explains n (fst (repair_node sch n)) (snd (repair_node sch n))) ch ->
    explains_l ch (map fst (map (repair_node sch) ch)) (flat_map snd (map (repair_node sch) ch)).
  Proof. induction 1; cbn; constructor; assumption. Qed.

  Lemma repair_node_explains sch n : explains n (fst (repair_node sch n)) (snd (repair_node sch n)).
  Proof.
    induction n using node_ind'; cbn [Repair.repair_node].
    - destruct (is_zone v); [repeat constructor|]. destruct (lookup k sch); [|repeat constructor].
      cbn [fst snd]. rewrite assign_back. constructor. apply repair_value_chain.
    - cbn. constructor. apply explains_l_map; assumption.
    - cbn. constructor. apply explains_l_map; assumption.
    - constructor.
  Qed.

  Theorem repair_log_is_diff fx sch d : explains_l d (fst (repair fx sch d)) (snd (repair fx sch d)).
  Proof.
    assert (forall l, explains_l l l []) as Hrefl.
    { assert (forall n, explains n n []) as Hn.
      { induction n using node_ind'; constructor; try constructor.
        - induction H; [constructor|]. change (@nil entry) with (@nil entry ++ []). constructor; assumption.
        - induction H; [constructor|]. change (@nil entry) with (@nil entry ++ []). constructor; assumption. }
      induction l; [constructor|]. change (@nil entry) with (@nil entry ++ []). constructor; auto. }
    destruct fx, sch as [s|]; try apply Hrefl. cbn. apply explains_l_map. apply nodes_ind'; intros; apply repair_node_explains.
  Qed.

  (* ---------- what an entry may be ---------- *)
  Definition entry_ok (sch : schema) (e : entry) : Prop :=
    (exists k cs allowed, lookup k sch = Some (FChain cs) /\ In (CEnum allowed) cs /\
        e_rule e = repair_rule_enum /\ e_tier e = repair_tier_enum /\
        ~ In (e_before e) allowed /\ In (e_after e) allowed /\ lower (e_after e) = lower (e_before e) /\
        ci_matches (e_before e) allowed = [e_after e] /\ enum_eval allowed (e_after e) = true)
    \/ (exists k cs, lookup k sch = Some (FChain cs) /\ In (CType repair_number_type) cs /\
        e_rule e = repair_rule_type /\ e_tier e = repair_tier_type /\ strip (e_before e) <> [] /\
        ((use_int (strip (e_before e)) = true /\ exists z, orc_int (strip (e_before e)) = Some z /\ e_after e = Z_to_dec z
            /\ read_dec (e_after e) = Some z)
         \/ (use_int (strip (e_before e)) = false /\ exists zero, orc_float (strip (e_before e)) = Some (e_after e, true, zero)
            /\ (zero = true -> nonzero_mantissa (strip (e_before e)) = false)))).

  Lemma run_chain_entries sch k cs0 : lookup k sch = Some (FChain cs0) ->
    forall cs, incl cs cs0 -> forall v, Forall (entry_ok sch) (snd (run_chain cs v)).
  Proof.
    intros Hl. induction cs as [|c r IH]; intros Hi v; cbn; [constructor|].
    assert (incl r cs0) as Hr by (intros x Hx; apply Hi; right; exact Hx).
    destruct (attempt c v) as [[v' e]|] eqn:Ha; [|apply IH; exact Hr].
    specialize (IH Hr v'). destruct (run_chain r v') as [w lg]. cbn in *. constructor; [|exact IH].
    assert (In c cs0) as Hc by (apply Hi; left; reflexivity).
    unfold Repair.attempt in Ha. destruct (negb _); [discriminate|]. destruct c; [| |discriminate].
    - apply attempt_enum_spec in Ha as (s & c & _ & _ & -> & Hn & Hin & Hlow & Hm). left.
      exists k, cs0, allowed. cbn. repeat split; auto. unfold enum_eval.
      apply str_in_In in Hin. rewrite Hin. reflexivity.
    - apply attempt_type_spec in Ha as (-> & s & _ & Hne & [(Hu & z & Ho & _ & ->)|(Hu & rr & zero & Ho & Hz & _ & ->)]); right;
        exists k, cs0; cbn; repeat split; auto.
      + left. split; [exact Hu|]. exists z. repeat split; auto. apply read_dec_Z_to_dec.
      + right. split; [exact Hu|]. exists zero. split; assumption.
  Qed.

  Lemma repair_value_entries sch k fd v : lookup k sch = Some fd -> Forall (entry_ok sch) (snd (repair_value v (Some fd) true)).
  Proof.
    intro Hl. rewrite repair_value_cases. destruct (_ || _); [constructor|].
    destruct fd as [| |[|c cs]]; try constructor. eapply run_chain_entries; eauto. apply incl_refl.
  Qed.

  Lemma Forall_flat_map_snd {A} (P : entry -> Prop) (f : A -> node * list entry) l :
    Forall (fun n => Forall P (snd (f n))) l -> Forall P (flat_map snd (map f l)).
  Proof. induction 1; cbn; [constructor|]. apply Forall_app; auto. Qed.

  Lemma repair_node_entries sch n : Forall (entry_ok sch) (snd (repair_node sch n)).
  Proof.
    induction n using node_ind'; cbn [Repair.repair_node].
    - destruct (is_zone v); [constructor|]. destruct (lookup k sch) eqn:Hl; [|constructor]. cbn [snd].
      eapply repair_value_entries; eauto.
    - cbn. apply Forall_flat_map_snd; assumption.
    - cbn. apply Forall_flat_map_snd; assumption.
    - constructor.
  Qed.

  (* every logged change is a casefold to the unique case-insensitive ENUM member, or text -> number for a
     NUMBER field (finite; for int the logged text re-reads to the same integer); rule id, tier as generated;
     the new value satisfies the motivating constraint *)
  Theorem repair_changes_allowed fx sch s d : sch = Some s -> Forall (entry_ok s) (snd (repair fx sch d)).
  Proof.
    intros ->. destruct fx; [|constructor]. cbn. apply Forall_flat_map_snd. apply nodes_ind'; intros; apply repair_node_entries.
  Qed.

  Theorem repair_satisfies_enum v a v' e : attempt_enum v a = Some (v', e) -> exists c, v' = VStr c /\ enum_eval a c = true.
  Proof.
    intro H. apply attempt_enum_spec in H as (s & c & _ & -> & _ & _ & Hin & _). exists c. split; [reflexivity|].
    unfold enum_eval. apply str_in_In in Hin. rewrite Hin. reflexivity.
  Qed.
  Theorem repair_satisfies_type v t v' e : attempt_type v t = Some (v', e) -> is_number v' = true.
  Proof. intro H. apply attempt_type_spec in H as (_ & s & _ & _ & [(_ & z & _ & -> & _)|(_ & r & zero & _ & _ & -> & _)]); reflexivity. Qed.

  (* ---------- never fills, never touches zones / non-strings, ambiguous stays ---------- *)
  Theorem repair_never_fills sch k : repair_node sch (NAssign k VNull) = (NAssign k VNull, []).
  Proof. cbn. destruct (lookup k sch); [|reflexivity]. rewrite repair_value_none. reflexivity. Qed.

  Theorem repair_nonstr_fixed sch k v : is_str v = false -> repair_node sch (NAssign k v) = (NAssign k v, []).
  Proof.
    intro H. cbn. destruct (is_zone v); [reflexivity|]. destruct (lookup k sch); [|reflexivity].
    rewrite repair_value_nonstr by exact H. reflexivity.
  Qed.

  Lemma flat_map_zones sch ch :
    Forall (fun n => zones_n (fst (repair_node sch n)) = zones_n n) ch ->
    flat_map zones_n (map fst (map (repair_node sch) ch)) = flat_map zones_n ch.
  Proof. induction 1; cbn; [reflexivity|]. congruence. Qed.

  Lemma repair_node_zones sch n : zones_n (fst (repair_node sch n)) = zones_n n.
  Proof.
    induction n using node_ind'; cbn [Repair.repair_node].
    - destruct (is_zone v); [reflexivity|]. destruct (lookup k sch); [|reflexivity]. cbn [fst]. rewrite assign_back.
      cbn. apply repair_value_zones.
    - cbn. apply flat_map_zones; assumption.
    - cbn. apply flat_map_zones; assumption.
    - reflexivity.
  Qed.

  Theorem repair_zones_fixed fx sch d : flat_map zones_n (fst (repair fx sch d)) = flat_map zones_n d.
  Proof.
    destruct fx, sch as [s|]; try reflexivity. cbn. apply flat_map_zones. apply nodes_ind'; intros; apply repair_node_zones.
  Qed.

  Theorem repair_ambiguous_unchanged s a : length (ci_matches s a) <> 1%nat -> attempt_enum (VStr s) a = None.
  Proof.
    intro H. cbn. destruct (str_in s a); [reflexivity|]. destruct (ci_matches s a) as [|c [|c2 r]]; try reflexivity.
    exfalso; apply H; reflexivity.
  Qed.

  (* ---------- no-op on settled values; idempotence ---------- *)
  Definition settled_c (v : value) (c : constr) : bool :=
    match c with
    | CEnum a => match v with VStr s => str_in s a | _ => true end
    | CType t => if str_eqb t repair_number_type then negb (is_str v) else true
    | COther => true
    end.

  Lemma attempt_settled c v : settled_c v c = true -> attempt c v = None.
  Proof.
    unfold attempt. destruct (negb _); [reflexivity|]. destruct c; cbn [settled_c]; [| |reflexivity].
    - destruct v; try reflexivity. cbn [attempt_enum]. intros ->. reflexivity.
    - unfold Repair.attempt_type. destruct (str_eqb t repair_number_type); cbn [negb]; [|reflexivity].
      destruct v; try reflexivity. discriminate.
  Qed.

  Lemma run_chain_settled cs v : forallb (settled_c v) cs = true -> run_chain cs v = (v, []).
  Proof.
    induction cs as [|c r IH]; cbn; [reflexivity|]. intro H. apply andb_true_iff in H as [H1 H2].
    rewrite attempt_settled by exact H1. apply IH; exact H2.
  Qed.

  Definition settled_fd (v : value) (fd : fielddef) : bool :=
    match fd with FChain cs => forallb (settled_c v) cs | _ => true end.
  Fixpoint settled_n (sch : schema) (n : node) : bool :=
    match n with
    | NAssign k v => match lookup k sch with Some fd => settled_fd v fd | None => true end
    | NBlock _ _ ch | NSection _ _ _ ch => forallb (settled_n sch) ch
    | NComment _ => true
    end.

  Lemma repair_value_settled v fd : settled_fd v fd = true -> repair_value v (Some fd) true = (v, []).
  Proof.
    intro H. rewrite repair_value_cases. destruct (_ || _); [reflexivity|].
    destruct fd as [| |[|c cs]]; try reflexivity. apply run_chain_settled; exact H.
  Qed.

  Lemma map_id_nodes sch ch :
    Forall (fun n => settled_n sch n = true -> repair_node sch n = (n, [])) ch -> forallb (settled_n sch) ch = true ->
    map fst (map (repair_node sch) ch) = ch /\ flat_map snd (map (repair_node sch) ch) = [].
  Proof.
    induction 1; cbn; [auto|]. intro Hs. apply andb_true_iff in Hs as [H1 H2].
    rewrite (H H1). cbn. destruct (IHForall H2) as [E1 E2]. rewrite E1, E2. auto.
  Qed.

  Lemma repair_node_settled sch n : settled_n sch n = true -> repair_node sch n = (n, []).
  Proof.
    induction n using node_ind'; cbn [Repair.repair_node settled_n]; intro Hs.
    - destruct (is_zone v); [reflexivity|]. destruct (lookup k sch); [|reflexivity].
      rewrite repair_value_settled by exact Hs. reflexivity.
    - destruct (map_id_nodes sch ch H Hs) as [E1 E2]. cbn. rewrite E1, E2. reflexivity.
    - destruct (map_id_nodes sch ch H Hs) as [E1 E2]. cbn. rewrite E1, E2. reflexivity.
    - reflexivity.
  Qed.

  (* a document whose schema-named fields are exact ENUM members / not text under TYPE[NUMBER] is left alone *)
  Theorem repair_noop_when_valid fx sch s d : sch = Some s -> forallb (settled_n s) d = true -> repair fx sch d = (d, []).
  Proof.
    intros -> Hs. destruct fx; [|reflexivity]. cbn.
    destruct (map_id_nodes s d) as [E1 E2]; auto.
    - apply nodes_ind'; intros; apply repair_node_settled; assumption.
    - unfold Repair.repair_nodes. rewrite E1, E2. reflexivity.
  Qed.

  (* simple chains: at most one ENUM, and no TYPE[NUMBER] before it *)
  Definition no_enum (cs : list constr) : bool := forallb (fun c => match c with CEnum _ => false | _ => true end) cs.
  Fixpoint simple_chain (cs : list constr) : bool :=
    match cs with
    | [] => true
    | CEnum _ :: r => no_enum r
    | CType t :: r => if str_eqb t repair_number_type then no_enum r else simple_chain r
    | COther :: r => simple_chain r
    end.
  Definition simple_schema (sch : schema) : bool :=
    forallb (fun kf => match snd kf with FChain cs => simple_chain cs | _ => true end) sch.

  Lemma no_enum_run r : no_enum r = true -> forall s w lg, run_chain r (VStr s) = (w, lg) ->
    is_str w = false \/ (w = VStr s /\ lg = []).
  Proof.
    induction r as [|c r IH]; cbn; intros Hn s w lg H.
    - inversion H; subst. right; auto.
    - apply andb_true_iff in Hn as [Hc Hr].
      destruct (attempt c (VStr s)) as [[v' e]|] eqn:Ha.
      + unfold Repair.attempt in Ha. destruct (negb _); [discriminate|]. destruct c; try discriminate.
        apply attempt_type_spec in Ha as (_ & s0 & _ & _ & [(_ & z & _ & -> & _)|(_ & rr & zero & _ & _ & -> & _)]);
          rewrite run_chain_nonstr in H by reflexivity; inversion H; subst; left; reflexivity.
      + eapply IH; eauto.
  Qed.

  Lemma simple_chain_idem cs : simple_chain cs = true -> forall v, run_chain cs (fst (run_chain cs v)) = (fst (run_chain cs v), []).
  Proof.
    intros Hs v. destruct (is_str v) eqn:Hv; [|rewrite (run_chain_nonstr cs v Hv); cbn [fst]; apply run_chain_nonstr; exact Hv].
    destruct v; try discriminate. clear Hv. revert s. induction cs as [|c r IH]; intro s; [reflexivity|].
    cbn [simple_chain] in Hs. destruct c as [a|t|].
    - (* ENUM first, no further ENUM *)
      cbn [Repair.run_chain]. destruct (attempt (CEnum a) (VStr s)) as [[v' e]|] eqn:Ha.
      + pose proof Ha as Ha'. unfold Repair.attempt in Ha'. destruct (negb (memb (constr_class (CEnum a)) repair_dispatch)) eqn:Hd; [discriminate|].
        apply attempt_enum_spec in Ha' as (s0 & c & _ & -> & _ & _ & Hin & _).
        destruct (run_chain r (VStr c)) as [w lg] eqn:Hr. cbn [fst].
        destruct (no_enum_run r Hs c w lg Hr) as [Hw|[-> ->]].
        * exact (run_chain_nonstr (CEnum a :: r) w Hw).
        * cbn [Repair.run_chain]. unfold Repair.attempt. rewrite Hd. cbn [attempt_enum].
          apply str_in_In in Hin. rewrite Hin. exact Hr.
      + destruct (run_chain r (VStr s)) as [w lg] eqn:Hr. cbn [fst].
        destruct (no_enum_run r Hs s w lg Hr) as [Hw|[-> ->]].
        * exact (run_chain_nonstr (CEnum a :: r) w Hw).
        * cbn [Repair.run_chain]. rewrite Ha. exact Hr.
    - destruct (str_eqb t repair_number_type) eqn:Ht.
      + cbn [Repair.run_chain]. destruct (attempt (CType t) (VStr s)) as [[v' e]|] eqn:Ha.
        * pose proof Ha as Ha'. unfold Repair.attempt in Ha'. destruct (negb _); [discriminate|].
          assert (is_str v' = false) as Hv'.
          { apply attempt_type_spec in Ha' as (_ & s0 & _ & _ & [(_ & z & _ & -> & _)|(_ & rr & zero & _ & _ & -> & _)]); reflexivity. }
          rewrite (run_chain_nonstr r v' Hv'). cbn [fst]. exact (run_chain_nonstr (CType t :: r) v' Hv').
        * destruct (run_chain r (VStr s)) as [w lg] eqn:Hr. cbn [fst].
          destruct (no_enum_run r Hs s w lg Hr) as [Hw|[-> ->]].
          -- exact (run_chain_nonstr (CType t :: r) w Hw).
          -- cbn [Repair.run_chain]. rewrite Ha. exact Hr.
      + assert (forall x, attempt (CType t) x = None) as Hnone.
        { intro x. unfold Repair.attempt. destruct (negb _); [reflexivity|]. unfold Repair.attempt_type. rewrite Ht. reflexivity. }
        cbn [Repair.run_chain]. rewrite Hnone. specialize (IH Hs s). cbn [Repair.run_chain]. rewrite Hnone. exact IH.
    - cbn [Repair.run_chain]. assert (forall x, attempt COther x = None) as Hnone.
      { intro x. unfold Repair.attempt. destruct (negb _); reflexivity. }
      rewrite Hnone. specialize (IH Hs s). cbn [Repair.run_chain]. rewrite Hnone. exact IH.
  Qed.

  Lemma lookup_simple sch k cs : simple_schema sch = true -> lookup k sch = Some (FChain cs) -> simple_chain cs = true.
  Proof.
    induction sch as [|[k' fd] r IH]; cbn; [discriminate|]. intros H Hl. apply andb_true_iff in H as [H1 H2].
    destruct (str_eqb k k'); [inversion Hl; subst; exact H1|auto].
  Qed.

  Lemma repair_value_idem sch k fd v : simple_schema sch = true -> lookup k sch = Some fd -> is_zone v = false ->
    let v' := fst (repair_value v (Some fd) true) in
    is_zone v' = false /\ repair_value v' (Some fd) true = (v', []).
  Proof.
    intros Hs Hl Hz. cbn zeta. rewrite !repair_value_cases. rewrite Hz. cbn [orb negb].
    destruct (is_null v) eqn:Hn.
    - cbn [fst]. rewrite Hz, Hn. auto.
    - destruct fd as [| |[|c cs]]; cbn [fst]; try (rewrite Hz, Hn; auto).
      destruct (run_chain_kind (c :: cs) v Hz Hn) as [Hz' Hn']. rewrite Hz', Hn'. cbn [orb]. split; [reflexivity|].
      apply simple_chain_idem. eapply lookup_simple; eauto.
  Qed.

  Lemma map_idem_nodes sch ch :
    Forall (fun n => repair_node sch (fst (repair_node sch n)) = (fst (repair_node sch n), [])) ch ->
    let ch' := map fst (map (repair_node sch) ch) in
    map fst (map (repair_node sch) ch') = ch' /\ flat_map snd (map (repair_node sch) ch') = [].
  Proof.
    induction 1; cbn; [auto|]. cbn in IHForall. destruct IHForall as [E1 E2]. rewrite H. cbn. rewrite E1, E2. auto.
  Qed.

  Lemma repair_node_idem sch n : simple_schema sch = true ->
    repair_node sch (fst (repair_node sch n)) = (fst (repair_node sch n), []).
  Proof.
    intro Hs. induction n using node_ind'; cbn [Repair.repair_node].
    - destruct (is_zone v) eqn:Hz; [cbn; rewrite Hz; reflexivity|].
      destruct (lookup k sch) as [fd|] eqn:Hl; [|cbn; rewrite Hz, Hl; reflexivity].
      cbn [fst]. rewrite assign_back. cbn [Repair.repair_node].
      destruct (repair_value_idem sch k fd v Hs Hl Hz) as [Hz' E]. rewrite Hz', Hl, E. reflexivity.
    - cbn [fst]. cbn [Repair.repair_node]. destruct (map_idem_nodes sch ch H) as [E1 E2]. cbn. rewrite E1, E2. reflexivity.
    - cbn [fst]. cbn [Repair.repair_node]. destruct (map_idem_nodes sch ch H) as [E1 E2]. cbn. rewrite E1, E2. reflexivity.
    - reflexivity.
  Qed.

  (* repairing a repaired document changes nothing and logs nothing (chains with at most one ENUM that is not
     preceded by TYPE[NUMBER]; see repair_idempotent_log_refuted for what fails otherwise) *)
  Theorem repair_idempotent_partial fx sch s d : sch = Some s -> simple_schema s = true ->
    repair fx sch (fst (repair fx sch d)) = (fst (repair fx sch d), []).
  Proof.
    intros -> Hs. destruct fx; [|reflexivity]. cbn.
    destruct (map_idem_nodes s d) as [E1 E2].
    - apply nodes_ind'; intros; apply repair_node_idem; exact Hs.
    - unfold Repair.repair_nodes. cbn in E1, E2. rewrite E1, E2. reflexivity.
  Qed.

  (* ---------- the switch omitted at a tool surface = off ---------- *)
  Theorem surface_flag_omitted surface : surface_flag surface None = false.
  Proof.
    unfold surface_flag, surface_default. destruct repair_switch_defaults_pin as (-> & -> & ->).
    destruct (surface =? 1), (surface =? 2), (surface =? 3); reflexivity.
  Qed.
  Theorem surface_flag_explicit surface b : surface_flag surface (Some b) = b.
  Proof. reflexivity. Qed.
  (* octave_validate without `fix`, octave_write without `lenient`, the CLI without --fix (any surface code): nothing
     changes and nothing is logged, whatever else the call carries (profile and the other arguments are not inputs) *)
  Theorem repair_switch_omitted surface sch d : repair (surface_flag surface None) sch d = (d, []).
  Proof. rewrite surface_flag_omitted. apply repair_fix_off. Qed.
  Theorem repair_switch_false surface sch d : repair (surface_flag surface (Some false)) sch d = (d, []).
  Proof. apply repair_fix_off. Qed.

  (* ---------- lossless number coercion (80b6126: underflow to zero is rejected) ---------- *)
  Lemma rules_distinct : repair_rule_type <> repair_rule_enum.
  Proof. vm_compute. discriminate. Qed.

  (* what a successful text -> number step is: EITHER the integer int() read, logged with a text that re-reads to
     exactly that integer, OR a float that the oracle reports finite and -- if the oracle reports it equal to zero --
     whose literal has no digit 1..9 in its mantissa (so no non-zero literal becomes zero). No oracle hypothesis. *)
  Theorem repair_lossless v t v' e : attempt_type v t = Some (v', e) ->
    exists s, v = VStr s /\ e_before e = s /\
      ((exists z, v' = VInt z /\ use_int (strip s) = true /\ orc_int (strip s) = Some z /\
                  e_after e = Z_to_dec z /\ read_dec (e_after e) = Some z)
       \/ (exists r zero, v' = VFloat r /\ use_int (strip s) = false /\ e_after e = r /\
                          orc_float (strip s) = Some (r, true, zero) /\
                          (zero = true -> nonzero_mantissa (strip s) = false))).
  Proof.
    intro H. apply attempt_type_spec in H as (_ & s & -> & _ & [(Hu & z & Ho & -> & ->)|(Hu & r & zero & Ho & Hz & -> & ->)]);
      exists s; (split; [reflexivity|]); (split; [reflexivity|]).
    - left. exists z. cbn [e_after]. repeat split; auto. apply read_dec_Z_to_dec.
    - right. exists r, zero. cbn [e_after]. repeat split; auto.
  Qed.

  (* the same for every TYPE_COERCION entry of the log of a whole document *)
  Theorem repair_lossless_log fx sch s d e : sch = Some s -> In e (snd (repair fx sch d)) -> e_rule e = repair_rule_type ->
    strip (e_before e) <> [] /\
    ((use_int (strip (e_before e)) = true /\ exists z, orc_int (strip (e_before e)) = Some z /\ e_after e = Z_to_dec z
         /\ read_dec (e_after e) = Some z)
     \/ (use_int (strip (e_before e)) = false /\ exists zero, orc_float (strip (e_before e)) = Some (e_after e, true, zero)
         /\ (zero = true -> nonzero_mantissa (strip (e_before e)) = false))).
  Proof.
    intros Hs Hin Hr. pose proof (repair_changes_allowed fx sch s d Hs) as HA.
    rewrite Forall_forall in HA. specialize (HA e Hin).
    destruct HA as [(k & cs & a & _ & _ & Hrule & _)|(k & cs & _ & _ & _ & _ & Hne & Hc)].
    - exfalso. apply rules_distinct. congruence.
    - split; [exact Hne|exact Hc].
  Qed.

  (* an underflowing literal (float() gives zero, mantissa has a digit 1..9) is not coerced ... *)
  Theorem repair_underflow_unrepaired s t r fin : use_int (strip s) = false ->
    orc_float (strip s) = Some (r, fin, true) -> nonzero_mantissa (strip s) = true -> attempt_type (VStr s) t = None.
  Proof.
    intros Hu Ho Hm. destruct (attempt_type (VStr s) t) as [[v' e]|] eqn:Ha; [|reflexivity]. exfalso.
    apply attempt_type_spec in Ha as (_ & s0 & E & _ & [(Hu' & _)|(_ & r' & zero & Ho' & Hz & _)]); inversion E; subst s0.
    - congruence.
    - rewrite Ho in Ho'. inversion Ho'; subst. specialize (Hz eq_refl). congruence.
  Qed.

  Lemma run_chain_all_none cs v : (forall c, In c cs -> attempt c v = None) -> run_chain cs v = (v, []).
  Proof.
    induction cs as [|c r IH]; intro H; cbn; [reflexivity|]. rewrite (H c) by (left; reflexivity).
    apply IH. intros c' Hc'. apply H. right; exact Hc'.
  Qed.

  (* ... and a field whose chain has no ENUM keeps it, with an empty log (for every document position) *)
  Theorem repair_underflow_node_unrepaired sch k cs s r fin : lookup k sch = Some (FChain cs) -> no_enum cs = true ->
    use_int (strip s) = false -> orc_float (strip s) = Some (r, fin, true) -> nonzero_mantissa (strip s) = true ->
    repair_node sch (NAssign k (VStr s)) = (NAssign k (VStr s), []).
  Proof.
    intros Hl Hn Hu Ho Hm. cbn [Repair.repair_node is_zone]. rewrite Hl. rewrite repair_value_cases. cbn [is_zone is_null negb orb].
    assert (run_chain cs (VStr s) = (VStr s, [])) as E.
    { apply run_chain_all_none. intros c Hc. unfold Repair.attempt. destruct (negb _); [reflexivity|].
      unfold no_enum in Hn. rewrite forallb_forall in Hn. specialize (Hn c Hc). destruct c; [discriminate| |reflexivity].
      eapply repair_underflow_unrepaired; eauto. }
    destruct cs as [|c cs']; [reflexivity|]. rewrite E. reflexivity.
  Qed.
End Facts.

(* ---- full statements that are FALSE of the faithful model, with witnesses ------------------------ *)
Definition s_ (l : list N) : str := l.
(* K with chain ENUM[X] /\ ENUM[x]; value "x" *)
Definition wit_two_enum_schema : schema := [([75], FChain [CEnum [[88]]; CEnum [[120]]])].
Definition wit_two_enum_doc : list node := [NAssign [75] (VStr [120])].

Definition repair_idempotent_full : Prop :=
  forall oi of_ od s d, repair oi of_ od true (Some s) (fst (repair oi of_ od true (Some s) d)) = (fst (repair oi of_ od true (Some s) d), []).
Lemma repair_idempotent_log_refuted :
  exists oi of_ od s d, repair oi of_ od true (Some s) (fst (repair oi of_ od true (Some s) d)) <> (fst (repair oi of_ od true (Some s) d), []).
Proof.
  exists (fun _ => None), (fun _ => None), (fun _ => None), wit_two_enum_schema, wit_two_enum_doc. vm_compute. discriminate.
Qed.
(* ... although the document itself is stable on that witness *)
Lemma repair_idempotent_witness_doc_stable :
  fst (repair (fun _ => None) (fun _ => None) (fun _ => None) true (Some wit_two_enum_schema)
         (fst (repair (fun _ => None) (fun _ => None) (fun _ => None) true (Some wit_two_enum_schema) wit_two_enum_doc)))
  = fst (repair (fun _ => None) (fun _ => None) (fun _ => None) true (Some wit_two_enum_schema) wit_two_enum_doc).
Proof. vm_compute. reflexivity. Qed.
Example simple_schema_nonvacuous :
  simple_schema [([69], FChain [COther; CEnum [[65; 98]; [97]]; CType repair_number_type]); ([78], FChain [COther; CType repair_number_type])] = true.
Proof. vm_compute. reflexivity. Qed.

(* no-op on VALID documents in the validator's sense (ENUM accepts a unique prefix) is false: "A" is a unique
   prefix of Ab in ENUM[Ab,a] (valid), and repair rewrites it to the other member "a" *)
Definition repair_noop_when_prefix_valid_full : Prop :=
  forall oi of_ od k a s, enum_eval a s = true ->
    repair oi of_ od true (Some [(k, FChain [CEnum a])]) [NAssign k (VStr s)] = ([NAssign k (VStr s)], []).
Lemma repair_noop_when_prefix_valid_refuted :
  exists oi of_ od k a s, enum_eval a s = true /\
    repair oi of_ od true (Some [(k, FChain [CEnum a])]) [NAssign k (VStr s)] <> ([NAssign k (VStr s)], []).
Proof.
  exists (fun _ => None), (fun _ => None), (fun _ => None), [69], [[65; 98]; [97]], [65]. split; vm_compute; [reflexivity|discriminate].
Qed.

(* ---- the mantissa test in closed form (tables of RepairGen.v eliminated) --------------------------------------- *)
(* one character: an ASCII digit 1..9, or a non-ASCII character the digit oracle gives a non-zero decimal value *)
Definition nonzero_decimal_char (od : N -> option N) (c : N) : bool :=
  if c <? 128 then (49 <=? c) && (c <=? 57) else match od c with Some v => negb (v =? 0) | None => false end.

Lemma mantissa_digit_test_spec od c : mantissa_digit_test od c = nonzero_decimal_char od c.
Proof.
  unfold mantissa_digit_test, nonzero_decimal_char, decimal_value.
  destruct repair_mantissa_pin as (_ & _ & -> & _). cbn [N.eqb Pos.eqb].
  destruct (N.ltb_spec c 128); [|reflexivity].
  destruct (N.leb_spec 48 c), (N.leb_spec c 57), (N.leb_spec 49 c); cbn [andb]; try reflexivity; try lia.
  - destruct (N.eqb_spec (c - 48) 0); [lia|reflexivity].
  - destruct (N.eqb_spec (c - 48) 0); [reflexivity|lia].
Qed.

Lemma lower_chr_e c : (lower_chr c =? 101) = ((c =? 101) || (c =? 69)).
Proof.
  unfold lower_chr, is_upper.
  destruct (N.leb_spec 65 c), (N.leb_spec c 90); cbn [andb];
    destruct (N.eqb_spec c 101), (N.eqb_spec c 69); cbn [orb]; try lia;
    try (apply N.eqb_eq; lia); try (apply N.eqb_neq; lia).
Qed.

(* lower-casing (ASCII A-Z -> a-z, everything else fixed) never changes whether a character passes the test *)
Lemma lower_chr_decimal od c : nonzero_decimal_char od (lower_chr c) = nonzero_decimal_char od c.
Proof.
  unfold lower_chr, is_upper.
  destruct (N.leb_spec 65 c), (N.leb_spec c 90); cbn [andb]; try reflexivity.
  unfold nonzero_decimal_char.
  destruct (N.ltb_spec (c + 32) 128), (N.ltb_spec c 128); try lia.
  destruct (N.leb_spec 49 (c + 32)), (N.leb_spec (c + 32) 57), (N.leb_spec 49 c), (N.leb_spec c 57); cbn [andb]; try reflexivity; lia.
Qed.

Section MantissaSpec.
  Variable od : N -> option N.
  (* "some character before the first e/E is a decimal digit with a non-zero value" *)
  Theorem nonzero_mantissa_spec st :
    nonzero_mantissa od st = existsb (nonzero_decimal_char od) (takeb (fun c => negb ((c =? 101) || (c =? 69))) st).
  Proof.
    unfold nonzero_mantissa, mantissa. destruct repair_mantissa_pin as (-> & -> & _). cbn [N.eqb Pos.eqb]. unfold lower.
    induction st as [|c r IH]; [reflexivity|]. cbn [map takeb]. rewrite lower_chr_e.
    destruct ((c =? 101) || (c =? 69)); cbn [negb]; [reflexivity|]. cbn [existsb].
    rewrite IH, mantissa_digit_test_spec, lower_chr_decimal. reflexivity.
  Qed.
  (* on ASCII text the oracle is irrelevant: a digit 1..9 before the first e/E *)
  Theorem nonzero_mantissa_ascii st : ascii_str st = true ->
    nonzero_mantissa od st = existsb (fun c => (49 <=? c) && (c <=? 57)) (takeb (fun c => negb ((c =? 101) || (c =? 69))) st).
  Proof.
    intro Ha. rewrite nonzero_mantissa_spec. induction st as [|c r IH]; [reflexivity|].
    cbn [ascii_str forallb] in Ha. apply andb_true_iff in Ha as [Hc Hr]. cbn [takeb].
    destruct ((c =? 101) || (c =? 69)); cbn [negb]; [reflexivity|]. cbn [existsb]. rewrite (IH Hr).
    unfold nonzero_decimal_char. unfold is_ascii in Hc. rewrite Hc. reflexivity.
  Qed.
End MantissaSpec.

(* ---- "lossless" at the level of the LOGGED TEXTS: a non-zero literal does not become a zero text -------------------- *)
(* a text made of 0 . - only: what str() prints for 0, 0.0, -0.0 *)
Definition zero_text (r : str) : bool := forallb (fun c => memb c [48; 46; 45]) r.

(* for an arbitrary oracle this is false only because an oracle may contradict ITSELF (repr "0.0" but flag x != 0);
   see repair_lossless_inconsistent_oracle_refuted.  Under a self-consistent oracle it holds: repair_lossless_text. *)
Definition repair_lossless_full : Prop :=
  forall oi of_ od s d e, In e (snd (repair oi of_ od true (Some s) d)) -> e_rule e = repair_rule_type ->
    zero_text (e_after e) = true -> nonzero_mantissa od (strip (e_before e)) = false.

Section OracleSound.
  Variable oi : str -> option Z.
  Variable of_ : str -> option (str * bool * bool).
  Variable od : N -> option N.
  (* the two readings the float oracle gives of ONE number agree: a zero repr text is flagged == 0.
     (NOT assumed: anything about which literals float() maps to zero.) *)
  Hypothesis of_consistent : forall st r fin zero, of_ st = Some (r, fin, zero) -> zero_text r = true -> zero = true.

  Theorem repair_lossless_text_float s d e : In e (snd (repair oi of_ od true (Some s) d)) -> e_rule e = repair_rule_type ->
    use_int (strip (e_before e)) = false ->
    zero_text (e_after e) = true -> nonzero_mantissa od (strip (e_before e)) = false.
  Proof.
    intros Hin Hr Hu Hz.
    destruct (repair_lossless_log oi of_ od true (Some s) s d e eq_refl Hin Hr) as (_ & [(Hu' & _)|(_ & zero & Ho & Hm)]).
    - congruence.
    - apply Hm. eapply of_consistent; eauto.
  Qed.

  (* int(): a text with a decimal digit of non-zero value before any e/E is not read as 0 (a fact of CPython int(),
     checked by the extracted tbl_int_zero_ok on every oracle table of every run; the int branch of repair.py has no guard) *)
  Hypothesis oi_zero : forall st z, oi st = Some z -> zero_text (Z_to_dec z) = true -> nonzero_mantissa od st = false.

  Theorem repair_lossless_text s d e : In e (snd (repair oi of_ od true (Some s) d)) -> e_rule e = repair_rule_type ->
    zero_text (e_after e) = true -> nonzero_mantissa od (strip (e_before e)) = false.
  Proof.
    intros Hin Hr Hz.
    destruct (repair_lossless_log oi of_ od true (Some s) s d e eq_refl Hin Hr) as (_ & [(_ & z & Ho & Ea & _)|(_ & zero & Ho & Hm)]).
    - rewrite Ea in Hz. eapply oi_zero; eauto.
    - apply Hm. eapply of_consistent; eauto.
  Qed.
End OracleSound.

(* the hypotheses as a computable check of an oracle TABLE (run by the extracted driver on the real tables) *)
Definition tbl_float_consistent (t : orc_tbl) : bool :=
  forallb (fun kr => match snd (snd kr) with Some (r, _, zero) => implb (zero_text r) zero | None => true end) t.
Definition tbl_int_zero_ok (t : orc_tbl) (dt : dig_tbl) : bool :=
  forallb (fun kr => match fst (snd kr) with
                     | Some z => implb (zero_text (Z_to_dec z)) (negb (nonzero_mantissa (dig_find dt) (fst kr)))
                     | None => true end) t.

Lemma tbl_find_In t s x : tbl_find t s = Some x -> In (s, x) t.
Proof.
  induction t as [|[k r] t IH]; cbn; [discriminate|]. destruct (str_eqb s k) eqn:E.
  - apply str_eqb_eq in E. subst. intro H; inversion H; subst. left; reflexivity.
  - intro H. right. apply IH; exact H.
Qed.

Lemma tbl_float_consistent_sound t : tbl_float_consistent t = true ->
  forall st r fin zero, tbl_float t st = Some (r, fin, zero) -> zero_text r = true -> zero = true.
Proof.
  intros Hc st r fin zero Hf Hz. unfold tbl_float in Hf. destruct (tbl_find t st) as [[i f]|] eqn:E; [|discriminate].
  apply tbl_find_In in E. unfold tbl_float_consistent in Hc. rewrite forallb_forall in Hc. specialize (Hc _ E).
  cbn [fst snd] in Hc. rewrite Hf in Hc. rewrite Hz in Hc. destruct zero; [reflexivity|discriminate].
Qed.

Lemma tbl_int_zero_ok_sound t dt : tbl_int_zero_ok t dt = true ->
  forall st z, tbl_int t st = Some z -> zero_text (Z_to_dec z) = true -> nonzero_mantissa (dig_find dt) st = false.
Proof.
  intros Hc st z Hi Hz. unfold tbl_int in Hi. destruct (tbl_find t st) as [[i f]|] eqn:E; [|discriminate].
  apply tbl_find_In in E. unfold tbl_int_zero_ok in Hc. rewrite forallb_forall in Hc. specialize (Hc _ E).
  cbn [fst snd] in Hc. rewrite Hi in Hc. rewrite Hz in Hc. cbn [implb] in Hc.
  destruct (nonzero_mantissa (dig_find dt) st); [discriminate|reflexivity].
Qed.

(* for the table oracles the driver runs: if the tables pass the two computable checks, no TYPE_COERCION entry of any
   document under any schema turns a literal with a non-zero mantissa into a zero text *)
Theorem repair_tbl_lossless_text t dt : tbl_float_consistent t = true -> tbl_int_zero_ok t dt = true ->
  forall s d e, In e (snd (repair_tbl t dt true (Some s) d)) -> e_rule e = repair_rule_type ->
    zero_text (e_after e) = true -> nonzero_mantissa (dig_find dt) (strip (e_before e)) = false.
Proof.
  intros Hf Hi s d e. unfold repair_tbl. apply repair_lossless_text.
  - apply tbl_float_consistent_sound; exact Hf.
  - apply tbl_int_zero_ok_sound; exact Hi.
Qed.

(* ---- witnesses ---------------------------------------------------------------------------------------------- *)
Definition wit_number_schema : schema := [([78], FChain [COther; CType repair_number_type])].
Definition wit_underflow_text : str := [49; 101; 45; 52; 48; 48].                  (* 1e-400 *)
Definition wit_underflow_neg_text : str := [45; 49; 101; 45; 52; 48; 48].          (* -1e-400 *)
Definition wit_underflow_upper_text : str := [32; 50; 46; 48; 69; 45; 51; 50; 52].  (* " 2.0E-324" *)
Definition wit_zero_exp_text : str := [48; 101; 53].                               (* 0e5 *)
Definition wit_zero_neg_text : str := [45; 48; 46; 48; 101; 45; 57; 57; 57].       (* -0.0e-999 *)
Definition wit_fullwidth_one_text : str := [65297; 101; 45; 52; 48; 48].           (* U+FF11 e-400 : FULLWIDTH DIGIT ONE *)
Definition wit_arabic_four_text : str := [48; 46; 48; 1636; 69; 45; 52; 48; 48].   (* 0.0 U+0664 E-400 : ARABIC-INDIC FOUR *)
Definition wit_fullwidth_zero_text : str := [65296; 101; 53].                      (* U+FF10 e5 : FULLWIDTH DIGIT ZERO *)
Definition txt_0_0 : str := [48; 46; 48].                                          (* 0.0 *)
Definition txt_m0_0 : str := [45; 48; 46; 48].                                     (* -0.0 *)
(* the real float(): all eight read as +-0.0 (finite, == 0) *)
Definition wit_tbl : orc_tbl :=
  [(wit_underflow_text, (None, Some (txt_0_0, true, true)));
   (wit_underflow_neg_text, (None, Some (txt_m0_0, true, true)));
   ([50; 46; 48; 69; 45; 51; 50; 52], (None, Some (txt_0_0, true, true)));
   (wit_zero_exp_text, (None, Some (txt_0_0, true, true)));
   (wit_zero_neg_text, (None, Some (txt_m0_0, true, true)));
   (wit_fullwidth_one_text, (None, Some (txt_0_0, true, true)));
   (wit_arabic_four_text, (None, Some (txt_0_0, true, true)));
   (wit_fullwidth_zero_text, (None, Some (txt_0_0, true, true)));
   ([49; 46; 53], (None, Some ([49; 46; 53], true, false)));
   ([52; 50], (Some 42%Z, Some ([52; 50; 46; 48], true, false)));
   ([65297; 65298], (Some 12%Z, Some ([49; 50; 46; 48], true, false)));
   ([65296; 65296], (Some 0%Z, Some (txt_0_0, true, true)));
   ([45; 48], (Some 0%Z, Some (txt_m0_0, true, true)))].
(* the real str.isdecimal()/int() on the non-ASCII characters above *)
Definition wit_dig : dig_tbl := [(65297, 1); (65298, 2); (1636, 4); (65296, 0)].

(* REGRESSION (80b6126; before the fix the first three were coerced to 0.0 / -0.0 and logged as REPAIR): underflowing
   literals are left unrepaired with an EMPTY log; zero literals in any notation are still coerced *)
Example repair_underflow_regression :
  repair_tbl wit_tbl wit_dig true (Some wit_number_schema) [NAssign [78] (VStr wit_underflow_text)]
    = ([NAssign [78] (VStr wit_underflow_text)], [])
  /\ repair_tbl wit_tbl wit_dig true (Some wit_number_schema) [NAssign [78] (VStr wit_underflow_neg_text)]
    = ([NAssign [78] (VStr wit_underflow_neg_text)], [])
  /\ repair_tbl wit_tbl wit_dig true (Some wit_number_schema) [NBlock [66] None [NAssign [78] (VStr wit_underflow_upper_text)]]
    = ([NBlock [66] None [NAssign [78] (VStr wit_underflow_upper_text)]], [])
  /\ repair_tbl wit_tbl wit_dig true (Some wit_number_schema) [NAssign [78] (VStr wit_zero_exp_text)]
    = ([NAssign [78] (VFloat txt_0_0)], [mk_entry repair_rule_type wit_zero_exp_text txt_0_0 repair_tier_type])
  /\ repair_tbl wit_tbl wit_dig true (Some wit_number_schema) [NAssign [78] (VStr wit_zero_neg_text)]
    = ([NAssign [78] (VFloat txt_m0_0)], [mk_entry repair_rule_type wit_zero_neg_text txt_m0_0 repair_tier_type]).
Proof. vm_compute. repeat split; reflexivity. Qed.

(* REGRESSION (0b7941a; before it the first two were coerced to 0.0 because the guard looked for ASCII 1..9 only): a
   mantissa whose only non-zero digit is a NON-ASCII decimal digit (digit oracle: value 1 / 4) is left unrepaired with an
   EMPTY log; a fullwidth ZERO mantissa (digit oracle: value 0) is still coerced and logged *)
Example repair_underflow_nonascii_regression :
  repair_tbl wit_tbl wit_dig true (Some wit_number_schema) [NAssign [78] (VStr wit_fullwidth_one_text)]
    = ([NAssign [78] (VStr wit_fullwidth_one_text)], [])
  /\ repair_tbl wit_tbl wit_dig true (Some wit_number_schema) [NSection [49] [83] None [NAssign [78] (VStr wit_arabic_four_text)]]
    = ([NSection [49] [83] None [NAssign [78] (VStr wit_arabic_four_text)]], [])
  /\ repair_tbl wit_tbl wit_dig true (Some wit_number_schema) [NAssign [78] (VStr wit_fullwidth_zero_text)]
    = ([NAssign [78] (VFloat txt_0_0)], [mk_entry repair_rule_type wit_fullwidth_zero_text txt_0_0 repair_tier_type]).
Proof. vm_compute. repeat split; reflexivity. Qed.
(* it is the digit oracle that decides: were U+FF11 not a decimal digit, the same text would be coerced *)
Example repair_nonascii_not_decimal_coerced :
  repair_tbl wit_tbl [] true (Some wit_number_schema) [NAssign [78] (VStr wit_fullwidth_one_text)]
    = ([NAssign [78] (VFloat txt_0_0)], [mk_entry repair_rule_type wit_fullwidth_one_text txt_0_0 repair_tier_type]).
Proof. vm_compute. reflexivity. Qed.

(* the hypotheses of repair_lossless_text are satisfiable by non-trivial oracles (the tables above) *)
Example oracle_hypotheses_nonvacuous : tbl_float_consistent wit_tbl = true /\ tbl_int_zero_ok wit_tbl wit_dig = true.
Proof. vm_compute. split; reflexivity. Qed.

(* an oracle that contradicts itself (repr "0.0", flag "!= 0") falsifies the unconditional text-level statement: the
   hypothesis of_consistent is needed, and it is a statement about the oracle, not about repair.py *)
Definition wit_inconsistent_orc (s : str) : option (str * bool * bool) :=
  if str_eqb s wit_underflow_text then Some (txt_0_0, true, false) else None.
Lemma repair_lossless_inconsistent_oracle_refuted :
  exists oi of_ od s d e, In e (snd (repair oi of_ od true (Some s) d)) /\ e_rule e = repair_rule_type /\
    zero_text (e_after e) = true /\ nonzero_mantissa od (strip (e_before e)) = true.
Proof.
  exists (fun _ => None), wit_inconsistent_orc, (fun _ => None), wit_number_schema, [NAssign [78] (VStr wit_underflow_text)],
    (mk_entry repair_rule_type wit_underflow_text txt_0_0 repair_tier_type).
  vm_compute. repeat split; auto.
Qed.
Lemma repair_rules_distinct : repair_rule_type <> repair_rule_enum.
Proof. vm_compute. discriminate. Qed.
