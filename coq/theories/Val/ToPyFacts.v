(* C09 -- theorems about Val/ToPy.v, for ALL documents, schemas, profiles and oracles.

   A. _to_python_value is lossless (kind-preserving, injective on scalars, element-wise on lists/maps)
   B. the verdict is a function of the document CONTENT: verdict d = verdict (erase_doc d)
   C. respelling / canonical text / canonical of canonical get the same verdict (round trip as explicit hypothesis)
   D. fix off => the canonical text returned is emit(parse(content)) -- by running the GENERATED statement list
   E. no state: the tool keeps none, validators are built per call, validate() resets its error list *)
From OV Require Import Base.Strs Cst.Lits Cst.PyVal Cst.Constraints Cst.Chain Cst.Validator Syn.Ast Syn.Emitter Syn.Parser
     Gen.ConstraintsGen Gen.ValidateGen Val.ToPy Val.Pins_Validate.
From Coq Require Import ZArith QArith Lia.
Close Scope Q_scope.
Require Coq.Strings.String.
Import Coq.Strings.String.StringSyntax.
Open Scope N_scope.

(* ============================================================================================================ *)
(** * A. _to_python_value *)

Lemma all_some_Forall2 {A B : Type} (f : A -> option B) (l : list A) (r : list B) :
  all_some (map f l) = Some r <-> Forall2 (fun x y => f x = Some y) l r.
Proof.
  revert r. induction l as [|x l IH]; intro r; cbn.
  - split; [intro H; inversion H; constructor|intro H; inversion H; reflexivity].
  - destruct (f x) as [y|] eqn:E.
    + destruct (all_some (map f l)) as [r'|] eqn:E'; cbn.
      * split.
        -- intro H. inversion H; subst. constructor; [exact E|apply IH; reflexivity].
        -- intro H. inversion H; subst. rewrite E in H2. inversion H2; subst.
           apply IH in H4. inversion H4; subst. reflexivity.
      * split; [discriminate|]. intro H. inversion H; subst. apply IH in H4. discriminate.
    + split; [discriminate|]. intro H. inversion H; subst. congruence.
Qed.

(* int stays int, float stays float, bool stays bool, str stays str, null stays None, zone stays the zone object *)
Lemma to_py_scalar_table ofl :
  to_py ofl VNull = Some (PA ANone) /\
  (forall b, to_py ofl (VBool b) = Some (PA (ABool b))) /\
  (forall c, to_py ofl (VNum false c) = option_map (fun z => PA (AInt z)) (Z_of_dec c)) /\
  (forall c, to_py ofl (VNum true c) = Some (PA (AFloat (ofl c) c))) /\
  (forall s, to_py ofl (VStr s) = Some (PA (AStr s))) /\
  (forall c t m, to_py ofl (VZone c t m) = Some (PZone c t)).
Proof. repeat split; reflexivity. Qed.

Theorem to_py_kind ofl v p : to_py ofl v = Some p -> pkind p = vkind v.
Proof.
  destruct v as [|b|[|] c|s|items|pairs|raw|c t m|]; cbn [to_py]; intro H; try discriminate;
    try (inversion H; subst; reflexivity).
  - destruct (Z_of_dec c); cbn in H; [inversion H; reflexivity|discriminate].
  - destruct (all_some (map (to_py ofl) items)); cbn in H; [inversion H; reflexivity|discriminate].
  - destruct (all_some _); cbn in H; [inversion H; reflexivity|discriminate].
Qed.

(* lists and inline maps are converted element by element, in order, keys untouched *)
Theorem to_py_list ofl items p :
  to_py ofl (VList items) = Some p <-> exists ps, p = PList ps /\ Forall2 (fun v q => to_py ofl v = Some q) items ps.
Proof.
  cbn [to_py]. split.
  - destruct (all_some (map (to_py ofl) items)) as [ps|] eqn:E; cbn; [|discriminate].
    intro H. inversion H; subst. exists ps. split; [reflexivity|]. apply all_some_Forall2. exact E.
  - intros (ps & -> & H). apply all_some_Forall2 in H. rewrite H. reflexivity.
Qed.

Theorem to_py_map ofl pairs p :
  to_py ofl (VMap pairs) = Some p <->
  exists qs, p = PDict qs /\ Forall2 (fun kv kq => fst kq = fst kv /\ to_py ofl (snd kv) = Some (snd kq)) pairs qs.
Proof.
  cbn [to_py].
  assert (G : forall qs, all_some (map (fun p0 => option_map (pair (fst p0)) (to_py ofl (snd p0))) pairs) = Some qs <->
                         Forall2 (fun kv kq => fst kq = fst kv /\ to_py ofl (snd kv) = Some (snd kq)) pairs qs).
  { intro qs. rewrite all_some_Forall2. split; intro H; induction H; constructor; auto.
    - destruct (to_py ofl (snd x)) as [q|]; cbn in H; [|discriminate]. inversion H; subst. cbn. auto.
    - destruct H as [H1 H2]. rewrite H2. cbn. destruct y as [k q]. cbn in *. subst. reflexivity. }
  split.
  - destruct (all_some _) as [qs|] eqn:E; cbn; [|discriminate].
    intro H. inversion H; subst. exists qs. split; [reflexivity|]. apply G. reflexivity.
  - intros (qs & -> & H). apply G in H. rewrite H. reflexivity.
Qed.

Lemma num_canonical_some c : num_canonical (VNum false c) = true -> exists z, Z_of_dec c = Some z /\ Z_to_dec z = c.
Proof.
  cbn. destruct (Z_of_dec c) as [z|]; [|discriminate]. intro H. apply str_eqb_eq in H. exists z. auto.
Qed.

Theorem to_py_scalar_total ofl v :
  is_scalar v = true -> num_canonical v = true -> exists p, to_py ofl v = Some p.
Proof.
  destruct v as [|b|[|] c|s|items|pairs|raw|c t m|]; cbn [is_scalar]; try discriminate; intros _ Hc; cbn [to_py]; eauto.
  destruct (num_canonical_some c Hc) as (z & -> & _). cbn. eauto.
Qed.

(* distinct scalars never collapse: the Python value determines the AST value (value AND kind) *)
Theorem to_py_scalar_injective ofl v1 v2 :
  is_scalar v1 = true -> is_scalar v2 = true -> num_canonical v1 = true -> num_canonical v2 = true ->
  to_py ofl v1 = to_py ofl v2 -> v1 = v2.
Proof.
  intros S1 S2 C1 C2 H.
  destruct v1 as [|b1|[|] c1|s1|?|?|?|? ? ?|]; cbn [is_scalar] in S1; try discriminate;
    destruct v2 as [|b2|[|] c2|s2|?|?|?|? ? ?|]; cbn [is_scalar] in S2; try discriminate;
    cbn [to_py] in H;
    try (destruct (num_canonical_some _ C1) as (z1 & E1 & D1); rewrite E1 in H; cbn in H);
    try (destruct (num_canonical_some _ C2) as (z2 & E2 & D2); rewrite E2 in H; cbn in H);
    try discriminate; try reflexivity; inversion H; subst; reflexivity.
Qed.

(* without the canonical-text clause the statement is false OF THE MODEL (a parsed document always carries str(int)) *)
Definition to_py_scalar_injective_full : Prop :=
  forall ofl v1 v2, is_scalar v1 = true -> is_scalar v2 = true -> to_py ofl v1 = to_py ofl v2 -> v1 = v2.
Theorem to_py_scalar_injective_refuted : ~ to_py_scalar_injective_full.
Proof.
  intro H. specialize (H (fun _ => FNan) (VNum false (lit "07")) (VNum false (lit "7")) eq_refl eq_refl).
  assert (E : to_py (fun _ => FNan) (VNum false (lit "07")) = to_py (fun _ => FNan) (VNum false (lit "7"))) by (vm_compute; reflexivity).
  specialize (H E). discriminate.
Qed.

(* the text of an int is recovered from the Python int *)
Lemma to_py_int_text ofl c z : num_canonical (VNum false c) = true -> to_py ofl (VNum false c) = Some (PA (AInt z)) -> Z_to_dec z = c.
Proof.
  intros Hc H. destruct (num_canonical_some c Hc) as (z' & E & D). cbn in H. rewrite E in H. cbn in H. inversion H; subst. reflexivity.
Qed.

(* TYPE[..] sees exactly the kind of the AST value *)
Definition kind_accepts (t : str) (k : kind) : bool :=
  if str_eqb t s_STRING then match k with KStr => true | _ => false end
  else if str_eqb t s_NUMBER then match k with KInt | KFloat => true | _ => false end
  else if str_eqb t s_BOOLEAN then match k with KBool => true | _ => false end
  else if str_eqb t s_LIST then match k with KList => true | _ => false end
  else false.

Theorem type_verdict_by_kind ofl o v p t :
  to_py ofl v = Some p -> str_in t [s_STRING; s_NUMBER; s_BOOLEAN; s_LIST] = true ->
  valid (eval o (CType t) p) = kind_accepts t (vkind v).
Proof.
  intros H Ht. rewrite <- (to_py_kind ofl v p H). clear H.
  cbn [eval]. rewrite type_map_pin.
  cbn [str_in] in Ht. repeat rewrite orb_true_iff in Ht.
  destruct Ht as [Ht|[Ht|[Ht|[Ht|Ht]]]]; try discriminate; apply str_eqb_eq in Ht; subst t;
    destruct p as [[|b|z|f r|s]|l|l|c tg]; vm_compute; reflexivity.
Qed.

Example to_py_ex :
  to_py (fun _ => FFin (5 # 2)%Q) (VList [VNum false (lit "-12"); VNum true (lit "2.5"); VStr (lit "12"); VBool true; VNull;
                                       VMap [(lit "k", VNum false (lit "0"))]])
  = Some (PList [PA (AInt (-12)); PA (AFloat (FFin (5 # 2)%Q) (lit "2.5")); PA (AStr (lit "12")); PA (ABool true); PA ANone;
                 PDict [(lit "k", PA (AInt 0))]]).
Proof. vm_compute. reflexivity. Qed.
Example to_py_out_of_model :
  to_py (fun _ => FNan) (VList [VHolo (lit "[x]")]) = None /\ to_py (fun _ => FNan) VAbsent = None /\
  to_py (fun _ => FNan) (VNum false (lit "1e3")) = None.
Proof. vm_compute. repeat split. Qed.

(* ============================================================================================================ *)
(** * B. The verdict is a function of the content *)

Section NodeInd.
  Variable P : node -> Prop.
  Hypothesis Ha : forall k v l t, P (NAssign k v l t).
  Hypothesis Hb : forall k t ch l, Forall P ch -> P (NBlock k t ch l).
  Hypothesis Hs : forall i k a ch l, Forall P ch -> P (NSection i k a ch l).
  Hypothesis Hc : forall t, P (NComment t).
  Fixpoint node_ind' (n : node) : P n :=
    let fix go (l : list node) : Forall P l :=
      match l with
      | [] => Forall_nil P
      | x :: r => Forall_cons x (node_ind' x) (go r)
      end in
    match n with
    | NAssign k v l t => Ha k v l t
    | NBlock k t ch l => Hb k t ch l (go ch)
    | NSection i k a ch l => Hs i k a ch l (go ch)
    | NComment t => Hc t
    end.
End NodeInd.

Lemma flat_map_flat_map {A B C : Type} (f : A -> list B) (g : B -> list C) (l : list A) :
  flat_map g (flat_map f l) = flat_map (fun x => flat_map g (f x)) l.
Proof. induction l as [|x l IH]; cbn; [reflexivity|]. rewrite flat_map_app, IH. reflexivity. Qed.

Lemma flat_map_ext_Forall {A B : Type} (f g : A -> list B) (l : list A) :
  Forall (fun x => f x = g x) l -> flat_map f l = flat_map g l.
Proof. induction 1; cbn; [reflexivity|]. congruence. Qed.

(* present fields do not see comments, nested blocks or sections *)
Lemma inst_of_erase ofl ch : inst_of ofl (flat_map erase_node ch) = inst_of ofl ch.
Proof.
  induction ch as [|n ch IH]; [reflexivity|].
  destruct n as [k v l t|k t c l|i k a c l|t]; cbn [flat_map erase_node app inst_of]; rewrite ?IH; reflexivity.
Qed.

(* block targets: same paths, same targets *)
Lemma bt_node_erase n : forall path, flat_map (bt_node path) (erase_node n) = bt_node path n.
Proof.
  induction n as [k v l t|k t ch l IH|i k a ch l IH|t] using node_ind'; intro path; cbn [erase_node flat_map bt_node app].
  - reflexivity.
  - rewrite app_nil_r. f_equal. rewrite flat_map_flat_map. apply flat_map_ext_Forall.
    eapply Forall_impl; [|exact IH]. intros n Hn. apply Hn.
  - rewrite app_nil_r. rewrite flat_map_flat_map. apply flat_map_ext_Forall.
    eapply Forall_impl; [|exact IH]. intros n Hn. apply Hn.
  - reflexivity.
Qed.

Lemma bt_dict_erase secs : bt_dict (flat_map erase_node secs) = bt_dict secs.
Proof.
  unfold bt_dict, bt_raw. f_equal. rewrite flat_map_flat_map. apply flat_map_ext_Forall.
  apply Forall_forall. intros n _. apply bt_node_erase.
Qed.

Lemma sections_errors_erase ofl oof sp sd bt secs : forall i,
  sections_errors ofl oof sp sd bt (flat_map erase_node secs) i = sections_errors ofl oof sp sd bt secs i.
Proof.
  induction secs as [|n secs IH]; intro i; [reflexivity|].
  destruct n as [k v l t|k t c l|j k a c l|t]; cbn [flat_map erase_node app sections_errors].
  - apply IH.
  - destruct (str_eqb k (sd_name sd)); [|apply IH].
    unfold block_errors. rewrite inst_of_erase, IH. reflexivity.
  - apply IH.
  - apply IH.
Qed.

Theorem validator_errors_erase o bm strict ss d :
  validator_errors o bm strict ss (erase_doc d) = validator_errors o bm strict ss d.
Proof.
  unfold validator_errors, erase_doc. cbn [dmeta dsections dfront].
  rewrite bt_dict_erase. destruct ss as [sd|]; [rewrite sections_errors_erase|]; reflexivity.
Qed.

Theorem verdict_erase o s p d : verdict o s p (erase_doc d) = verdict o s p d.
Proof. unfold verdict. rewrite !validator_errors_erase. reflexivity. Qed.
Theorem write_verdict_erase o s d : write_verdict o s (erase_doc d) = write_verdict o s d.
Proof. unfold write_verdict. rewrite !validator_errors_erase. reflexivity. Qed.
Theorem cli_verdict_erase o s d : cli_verdict o s (erase_doc d) = cli_verdict o s d.
Proof. unfold cli_verdict. destruct (vs_builtin s); [rewrite validator_errors_erase|]; reflexivity. Qed.

(* THE content theorem: comments, section ids/annotations, envelope name, grammar sentinel, separator never matter *)
Theorem verdict_of_content o s p d1 d2 : content_eq d1 d2 -> verdict o s p d1 = verdict o s p d2.
Proof. unfold content_eq. intro H. rewrite <- (verdict_erase o s p d1), <- (verdict_erase o s p d2), H. reflexivity. Qed.
Theorem api_errors_of_content o bm strict ss d1 d2 :
  content_eq d1 d2 -> validator_errors o bm strict ss d1 = validator_errors o bm strict ss d2.
Proof.
  unfold content_eq. intro H.
  rewrite <- (validator_errors_erase o bm strict ss d1), <- (validator_errors_erase o bm strict ss d2), H. reflexivity.
Qed.
Theorem write_verdict_of_content o s d1 d2 : content_eq d1 d2 -> write_verdict o s d1 = write_verdict o s d2.
Proof. unfold content_eq. intro H. rewrite <- (write_verdict_erase o s d1), <- (write_verdict_erase o s d2), H. reflexivity. Qed.
Theorem cli_verdict_of_content o s d1 d2 : content_eq d1 d2 -> cli_verdict o s d1 = cli_verdict o s d2.
Proof. unfold content_eq. intro H. rewrite <- (cli_verdict_erase o s d1), <- (cli_verdict_erase o s d2), H. reflexivity. Qed.

(* content_eq is an equivalence, and the erasure is a canonical representative *)
Lemma erase_node_idem n : flat_map erase_node (erase_node n) = erase_node n.
Proof.
  induction n as [k v l t|k t ch l IH|i k a ch l IH|t] using node_ind'; cbn [erase_node flat_map app]; try reflexivity.
  - do 2 f_equal. rewrite flat_map_flat_map. apply flat_map_ext_Forall. exact IH.
  - do 2 f_equal. rewrite flat_map_flat_map. apply flat_map_ext_Forall. exact IH.
Qed.
Lemma erase_doc_idem d : erase_doc (erase_doc d) = erase_doc d.
Proof.
  unfold erase_doc. cbn [dfront dmeta dsections]. f_equal. rewrite flat_map_flat_map. apply flat_map_ext_Forall.
  apply Forall_forall. intros n _. apply erase_node_idem.
Qed.
Lemma content_eq_refl d : content_eq d d. Proof. reflexivity. Qed.
Lemma content_eq_sym a b : content_eq a b -> content_eq b a. Proof. unfold content_eq. congruence. Qed.
Lemma content_eq_trans a b c : content_eq a b -> content_eq b c -> content_eq a c. Proof. unfold content_eq. congruence. Qed.
Lemma content_eq_erase d : content_eq (erase_doc d) d. Proof. unfold content_eq. apply erase_doc_idem. Qed.

(* the verdict is NOT total: a holographic value inside a validated block is outside the model (returned as-is by
   _to_python_value) -- model-scope clause, not a finding *)
Definition verdict_total_full : Prop := forall o s p d, verdict o s p d <> None.

(* ============================================================================================================ *)
(** * C. Respelling, canonical text, canonical of canonical *)

Section Respelling.
  Variable parsef : str -> option doc.       (* parse_with_warnings(x)[0]; None = lexer/parser error *)

  (* octave_validate on a text: a parse error gives the error envelope (UNVALIDATED, nothing reported) *)
  Definition validate_text (o : oracles) (s : vschema) (p : str) (x : str) : option tverdict :=
    match parsef x with
    | Some d => verdict o s p d
    | None => Some (mktv vt_status_init [] [])
    end.

  Theorem validate_text_of_ast o s p x d : parsef x = Some d -> validate_text o s p x = verdict o s p d.
  Proof. unfold validate_text. intros ->. reflexivity. Qed.

  (* any two texts that read back to the content of d are validated alike -- and like d itself *)
  Theorem respelling_same_verdict o s p d x1 x2 d1 d2 :
    parsef x1 = Some d1 -> parsef x2 = Some d2 -> content_eq d1 d -> content_eq d2 d ->
    validate_text o s p x1 = validate_text o s p x2 /\ validate_text o s p x1 = verdict o s p d.
  Proof.
    intros P1 P2 C1 C2. rewrite (validate_text_of_ast o s p x1 d1 P1), (validate_text_of_ast o s p x2 d2 P2).
    rewrite (verdict_of_content o s p d1 d C1), (verdict_of_content o s p d2 d C2). split; reflexivity.
  Qed.

  (* sigma_1-spelling, sigma_2-spelling and the canonical text: the C02/C03 round trip is the explicit hypothesis *)
  Theorem respelling_three o s p (S : Type) (render : S -> doc -> str) (sp : N -> bool) d s1 s2 d1 d2 d0 :
    parsef (render s1 d) = Some d1 -> parsef (render s2 d) = Some d2 -> parsef (emit sp d) = Some d0 ->
    content_eq d1 d -> content_eq d2 d -> content_eq d0 d ->
    validate_text o s p (render s1 d) = validate_text o s p (render s2 d) /\
    validate_text o s p (render s2 d) = validate_text o s p (emit sp d) /\
    validate_text o s p (emit sp d) = verdict o s p d.
  Proof.
    intros P1 P2 P0 C1 C2 C0.
    destruct (respelling_same_verdict o s p d _ _ d1 d2 P1 P2 C1 C2) as [E12 E1].
    destruct (respelling_same_verdict o s p d _ _ d2 d0 P2 P0 C2 C0) as [E20 _].
    destruct (respelling_same_verdict o s p d _ _ d0 d0 P0 P0 C0 C0) as [_ E0].
    auto.
  Qed.

  (* validating canon(x), and canon(canon(x)), answers as validating x *)
  Theorem canonical_same_verdict o s p sp x d d' :
    parsef x = Some d -> parsef (emit sp d) = Some d' -> content_eq d' d ->
    validate_text o s p (emit sp d) = validate_text o s p x.
  Proof.
    intros P P' C. rewrite (validate_text_of_ast o s p x d P), (validate_text_of_ast o s p _ d' P').
    apply verdict_of_content. exact C.
  Qed.
  Theorem canonical_twice_same_verdict o s p sp x d d' d'' :
    parsef x = Some d -> parsef (emit sp d) = Some d' -> parsef (emit sp d') = Some d'' ->
    content_eq d' d -> content_eq d'' d' ->
    validate_text o s p (emit sp d') = validate_text o s p x.
  Proof.
    intros P P' P'' C C'.
    rewrite (canonical_same_verdict o s p sp (emit sp d) d' d'' P' P'' C').
    apply (canonical_same_verdict o s p sp x d d' P P' C).
  Qed.
End Respelling.

(* A BLANK frontmatter block (whitespace only) is dropped by the emitter, so x and canon x differ in dfront (Some blank / None).
   validate_frontmatter takes its ABSENT branch for such a block (repo fix c9997f1; the decision is read from the source on every
   run: vt_fm_blank_is_absent), so the verdict is the same -- for EVERY oracle.  (Before the fix a TAB-only block went to
   yaml.safe_load and was reported E_FM_PARSE: fixed finding C09-blank-frontmatter-unloadable.) *)
Definition blank_front (sp : N -> bool) (f : option str) : option str :=
  match f with Some t => if forallb sp t then None else Some t | None => None end.
Definition drop_blank_front (sp : N -> bool) (d : doc) : doc :=
  mkDoc (dname d) (dgrammar d) (blank_front sp (dfront d)) (dsep d) (dmeta d) (dsections d) (dtrailing d).

Lemma emit_drop_blank_front sp d : emit sp (drop_blank_front sp d) = emit sp d.
Proof.
  unfold emit, emit_lines, drop_blank_front, blank_front. cbn [dfront dgrammar dname dmeta dsep dsections dtrailing].
  destruct (dfront d) as [t|]; [|reflexivity]. destruct (forallb sp t) eqn:E; [reflexivity|]. rewrite E. reflexivity.
Qed.

Lemma fm_errors_blank o sd f : fm_errors o sd (blank_front (or_sp o) f) = fm_errors o sd f.
Proof.
  unfold fm_errors, blank_front. rewrite pin_vt_fm_blank_is_absent. change pinned_vt_fm_blank_is_absent with true. cbn [andb].
  destruct (sd_has_fm sd); [|reflexivity]. destruct f as [t|]; [|reflexivity].
  destruct (forallb (or_sp o) t) eqn:E; [reflexivity|]. rewrite E. reflexivity.
Qed.

Theorem validator_errors_blank_front o bm strict ss d :
  validator_errors o bm strict ss (drop_blank_front (or_sp o) d) = validator_errors o bm strict ss d.
Proof.
  destruct d as [nm gr fr sepb mt secs tr]. unfold validator_errors, drop_blank_front.
  cbn [dfront dmeta dsections dname dgrammar dsep dtrailing].
  destruct ss as [sd|]; [rewrite fm_errors_blank|]; reflexivity.
Qed.
Theorem verdict_blank_front o s p d : verdict o s p (drop_blank_front (or_sp o) d) = verdict o s p d.
Proof. unfold verdict. rewrite !validator_errors_blank_front. reflexivity. Qed.

(* the absent branch itself, and non-vacuity: a TAB-only block with required fields is reported exactly like no frontmatter,
   a non-blank text goes to the oracle *)
Definition ex_fm_sdef : sdef :=
  mksdef (lit "S") (mkschema [(lit "F", Some [COpt])] p_IGNORE) [(lit "F", Some (lit "SELF"))] None [] true [lit "name"; lit "tools"].
Definition ex_fm_oracles : oracles :=
  mkoracles (fun _ => FNan) (fun _ _ => orc_none) (fun c => N.eqb c 32 || N.eqb c 9) (fun _ => [(lit "E_FM_PARSE", lit "frontmatter")]).
Example fm_errors_ex :
  fm_errors ex_fm_oracles ex_fm_sdef None = [(lit "E_FM_REQUIRED", lit "frontmatter.name"); (lit "E_FM_REQUIRED", lit "frontmatter.tools")] /\
  fm_errors ex_fm_oracles ex_fm_sdef (Some [9]) = fm_errors ex_fm_oracles ex_fm_sdef None /\
  fm_errors ex_fm_oracles ex_fm_sdef (Some []) = fm_errors ex_fm_oracles ex_fm_sdef None /\
  fm_errors ex_fm_oracles ex_fm_sdef (Some (lit "x: [1")) = [(lit "E_FM_PARSE", lit "frontmatter")] /\
  option_map tv_status (verdict ex_fm_oracles (mkvschema None (Some ex_fm_sdef)) (lit "STANDARD")
     (mkDoc (lit "D") None (Some [9]) false [] [NBlock (lit "S") None [NAssign (lit "F") (VNum false (lit "1")) [] None] []] []))
    = Some (lit "INVALID").
Proof. vm_compute. repeat split. Qed.
Theorem fm_tables :
  vt_fm_blank_is_absent = true /\ vt_fm_absent_test = lit "raw_frontmatter is None or not raw_frontmatter.strip()" /\
  vt_fm_absent_code = lit "E_FM_REQUIRED" /\ vt_fm_absent_prefix = lit "frontmatter." /\
  vt_src_fm_absent_branch = pinned_vt_src_fm_absent_branch.
Proof.
  rewrite pin_vt_fm_blank_is_absent, pin_vt_fm_absent_test, pin_vt_fm_absent_code, pin_vt_fm_absent_prefix.
  split; [reflexivity|]. split; [vm_compute; reflexivity|]. split; [vm_compute; reflexivity|]. split; [vm_compute; reflexivity|].
  exact pin_vt_src_fm_absent_branch.
Qed.

(* without the round-trip hypothesis: "equal canonical text => equal verdict" is FALSE of the faithful model, because the
   emitter prints a non-finite float and the string of the same spelling alike (C02 finding nonfinite-float:
   wf clause 15).  TYPE[NUMBER] accepts the float and rejects the string. *)
Definition verdict_of_canonical_text_full : Prop :=
  forall o s p sp d1 d2, emit sp d1 = emit sp d2 -> verdict o s p d1 = verdict o s p d2.

Definition ex_sdef : sdef :=
  mksdef (lit "S") (mkschema [(lit "F", Some [CReq; CType s_NUMBER]); (lit "G", Some [COpt; CEnum [lit "A"; lit "B"]])] p_REJECT)
         [(lit "F", Some (lit "SELF")); (lit "G", None)] None [] false [].
Definition ex_schema : vschema := mkvschema None (Some ex_sdef).
Definition ex_oracles : oracles :=
  mkoracles (fun c => if str_eqb c (lit "inf") then FInf false else FFin (5 # 2)%Q) (fun _ _ => orc_none) (fun c => N.eqb c 32) (fun _ => []).
Definition ex_doc (v : value) (lead : list str) (sid : str) : doc :=
  mkDoc (lit "D") None None false [(lit "TYPE", MV (VStr (lit "T")))]
        [NSection sid (lit "INTRO") None [NAssign (lit "A") (VNum false (lit "1")) [] None] [];
         NBlock (lit "S") None [NAssign (lit "F") v lead None; NComment (lit "c"); NAssign (lit "X") VNull [] (Some (lit "t"))] lead] lead.

Theorem verdict_of_canonical_text_refuted : ~ verdict_of_canonical_text_full.
Proof.
  intro H.
  specialize (H ex_oracles ex_schema (lit "STANDARD") (fun c => N.eqb c 32)
                (ex_doc (VNum true (lit "inf")) [] (lit "1")) (ex_doc (VStr (lit "inf")) [] (lit "1"))).
  assert (E : emit (fun c => N.eqb c 32) (ex_doc (VNum true (lit "inf")) [] (lit "1"))
              = emit (fun c => N.eqb c 32) (ex_doc (VStr (lit "inf")) [] (lit "1"))) by (vm_compute; reflexivity).
  specialize (H E). vm_compute in H. discriminate.
Qed.

(* non-vacuity: an INVALID verdict with two entries, unchanged by comments / section ids; downgraded under LENIENT;
   a clean document; an out-of-model one *)
Example verdict_ex_invalid :
  verdict ex_oracles ex_schema (lit "STANDARD") (ex_doc (VStr (lit "x")) [] (lit "1"))
  = Some (mktv (lit "INVALID") [(s_E007, lit "S.X"); (s_E007, lit "S.F")] [(s_E007, lit "S.X"); (s_E007, lit "S.F")]).
Proof. vm_compute. reflexivity. Qed.
Example verdict_ex_respelled :
  content_eq (ex_doc (VStr (lit "x")) [lit "a comment"] (lit "2b")) (ex_doc (VStr (lit "x")) [] (lit "1")) /\
  ex_doc (VStr (lit "x")) [lit "a comment"] (lit "2b") <> ex_doc (VStr (lit "x")) [] (lit "1").
Proof. split; [vm_compute; reflexivity|discriminate]. Qed.
Example verdict_ex_lenient :
  verdict ex_oracles ex_schema (lit "LENIENT") (ex_doc (VStr (lit "x")) [] (lit "1"))
  = Some (mktv (lit "VALIDATED") [] [(s_E007, lit "S.X"); (s_E007, lit "S.F")]).
Proof. vm_compute. reflexivity. Qed.
Example verdict_ex_profile :
  verdict ex_oracles ex_schema (lit "BOGUS") (ex_doc (VStr (lit "x")) [] (lit "1")) = Some (mktv (lit "UNVALIDATED") [] []).
Proof. vm_compute. reflexivity. Qed.
Example verdict_ex_out_of_model :
  verdict ex_oracles ex_schema (lit "STANDARD") (ex_doc (VHolo (lit "[a]")) [] (lit "1")) = None.
Proof. vm_compute. reflexivity. Qed.
Theorem verdict_total_refuted : ~ verdict_total_full.
Proof. intro H. apply (H ex_oracles ex_schema (lit "STANDARD") (ex_doc (VHolo (lit "[a]")) [] (lit "1"))). exact verdict_ex_out_of_model. Qed.

(* non-vacuity of the round-trip hypothesis WITH THE REAL READER MODEL (Syn.Parser.parse_model, lenient): a canonical text and a
   respelling of it (blank lines, 5-space indent, spaces around ::, a quoted enum value, 10e-1 for 1.0, 07 for 7, comments) are
   read as two DIFFERENT documents with EQUAL content, and are validated alike (INVALID: X is unknown under REJECT) *)
Definition ex_numcanon (raw : str) : option (bool * str) :=
  if str_eqb raw (lit "1.0") || str_eqb raw (lit "10e-1") then Some (true, lit "1.0")
  else if str_eqb raw (lit "7") || str_eqb raw (lit "07") then Some (false, lit "7") else None.
Definition ex_parsef (x : str) : option doc :=
  match parse_model (fun _ => 0) ex_numcanon (fun _ => false) false (map (fun l => (l, l)) (split_on c_nl x)) with
  | PRDoc d _ _ => Some d
  | _ => None
  end.
Definition ex_text1 : str := join [c_nl] [lit "===D==="; lit "S:"; lit "  F::1.0"; lit "  G::A"; lit "  X::7"; lit "===END==="; []].
Definition ex_text2 : str :=
  join [c_nl] [lit "===D===  "; []; lit "// remark"; lit "S:"; lit "     F :: 10e-1   // trailing"; lit "     G :: ""A"""; [];
               lit "     X::07"; []].
Example respelling_ex_real_reader :
  exists d1 d2, ex_parsef ex_text1 = Some d1 /\ ex_parsef ex_text2 = Some d2 /\ d1 <> d2 /\ content_eq d1 d2 /\
    validate_text ex_parsef ex_oracles ex_schema (lit "STANDARD") ex_text1
      = validate_text ex_parsef ex_oracles ex_schema (lit "STANDARD") ex_text2 /\
    validate_text ex_parsef ex_oracles ex_schema (lit "STANDARD") ex_text1
      = Some (mktv (lit "INVALID") [(s_E007, lit "S.X")] [(s_E007, lit "S.X")]) /\
    validate_text ex_parsef ex_oracles ex_schema (lit "STANDARD") (emit (fun c => N.eqb c 32) d2)
      = validate_text ex_parsef ex_oracles ex_schema (lit "STANDARD") ex_text2.
Proof.
  destruct (ex_parsef ex_text1) as [d1|] eqn:E1; [|vm_compute in E1; discriminate].
  destruct (ex_parsef ex_text2) as [d2|] eqn:E2; [|vm_compute in E2; discriminate].
  exists d1, d2. vm_compute in E1, E2. inversion E1; inversion E2; subst.
  repeat split; try (vm_compute; reflexivity). discriminate.
Qed.

(* the builtin META dict schema of the source, against a META block: missing VERSION, STATUS prefix-ambiguous, and the
   STRICT profile rejecting an unknown META key *)
Definition ex_meta_schema : vschema := mkvschema (builtin_lookup (lit "META")) None.
Definition ex_meta_doc : doc :=
  mkDoc (lit "D") None None false [(lit "TYPE", MV (VStr (lit "T"))); (lit "STATUS", MV (VStr (lit "D"))); (lit "OWNER", MV (VNum false (lit "3")))] [] [].
Example verdict_ex_meta :
  verdict ex_oracles ex_meta_schema (lit "STANDARD") ex_meta_doc
    = Some (mktv (lit "INVALID") [(s_E003, lit "META.VERSION"); (s_E006, lit "META.STATUS")] [(s_E003, lit "META.VERSION"); (s_E006, lit "META.STATUS")]) /\
  option_map tv_errors (verdict ex_oracles ex_meta_schema (lit "STRICT") ex_meta_doc)
    = Some [(s_E003, lit "META.VERSION"); (s_E007, lit "META.OWNER"); (s_E006, lit "META.STATUS")] /\
  cli_verdict ex_oracles ex_meta_schema ex_meta_doc = Some (lit "INVALID", [(s_E003, lit "META.VERSION"); (s_E006, lit "META.STATUS")]) /\
  cli_verdict ex_oracles ex_schema ex_meta_doc = Some (lit "UNVALIDATED", []).
Proof. vm_compute. repeat split. Qed.

(* target routing: a field without explicit target inherits the block target; an unknown multi-target part is E009 *)
Example route_ex :
  let sd := mksdef (lit "S") (mkschema [(lit "F", Some [COpt])] p_IGNORE) [(lit "F", None)] None [lit "ARCHIVE"] false [] in
  let d t := mkDoc [] None None false [] [NBlock (lit "S") t [NAssign (lit "F") (VNum false (lit "1")) [] None] []] [] in
  option_map tv_errors (verdict ex_oracles (mkvschema None (Some sd)) (lit "STANDARD") (d (Some (lit "X")))) = Some [] /\
  option_map tv_errors (verdict ex_oracles (mkvschema None (Some sd)) (lit "STANDARD") (d None)) = Some [] /\
  option_map tv_errors (verdict ex_oracles (mkvschema None (Some sd)) (lit "STANDARD") (d (Some [c_sect; 65; c_or; 32; c_sect; 66; 32])))
    = Some [(s_E009, lit "S.F")] /\
  target_names (fun c => N.eqb c 32) [c_sect; c_sect; 65; 32; c_or; 32; 46; 47; 120] = [lit "A"; lit "./x"].
Proof. vm_compute. repeat split. Qed.

(* ============================================================================================================ *)
(** * D. fix off: the tool emits the parsed document untouched *)

Theorem flow_readonly (D : Type) (parsef : str -> D) (repairf : D -> D) (emitf : D -> str) content :
  run_flow D parsef repairf emitf vt_doc_flow false content = Some (emitf (parsef content)).
Proof. rewrite pin_vt_doc_flow. reflexivity. Qed.

(* non-vacuity of the guard: with fix on, the SAME statement list emits the repaired document *)
Theorem flow_fix_repairs (D : Type) (parsef : str -> D) (repairf : D -> D) (emitf : D -> str) content :
  run_flow D parsef repairf emitf vt_doc_flow true content = Some (emitf (repairf (parsef content))).
Proof. rewrite pin_vt_doc_flow. reflexivity. Qed.

Theorem tool_readonly parsef repairf sp content :
  tool_canonical parsef repairf sp false content = Some (emit sp (parsef content)).
Proof. apply flow_readonly. Qed.

(* what the interpreter would answer had the `if fix:` guard been removed: the repaired document even with fix off *)
Example flow_unguarded_repair_detected :
  forall (D : Type) (parsef : str -> D) (repairf : D -> D) (emitf : D -> str) content,
  run_flow D parsef repairf emitf
    [([lit "try"], 1, lit "doc, parse_repairs = parse_with_warnings(content)"); ([], 2, lit "doc, repair_log = repair(doc, ...)");
     ([lit "try"], 4, lit "canonical_output = emit(doc)")] false content
  = Some (emitf (repairf (parsef content))).
Proof. reflexivity. Qed.

(* the structural facts the flow relies on, as found in the source now *)
Theorem flow_structure :
  (* exactly one statement binds doc from the input, one from repair (under `fix` alone), one binds the output from emit(doc) *)
  map (fun e => (fst (fst e), snd (fst e))) (filter (fun e => match snd (fst e) with 1 | 2 | 4 => true | _ => false end) vt_doc_flow)
    = [([lit "try"], 1); ([lit "fix"], 2); ([lit "try"], 4)] /\
  (* the only other uses of doc are read-only calls *)
  map snd (filter (fun e => N.eqb (snd (fst e)) 3) vt_doc_flow)
    = [lit "_count_literal_zones"; lit "validator.validate"; lit "validator.validate"; lit "validator_for_repair.validate"] /\
  (* result["canonical"] is the emitted text (or None under diff_only; the input text on a parse error) *)
  map (fun e => (fst (fst e), snd e)) (filter (fun e => N.eqb (snd (fst e)) 5) vt_doc_flow)
    = [([lit "except Exception"], lit "None if diff_only else content"); ([lit "try"; lit "diff_only"], lit "None");
       ([lit "try"; lit "not diff_only"], lit "canonical_output")].
Proof. rewrite pin_vt_doc_flow. vm_compute. repeat split. Qed.

(* ============================================================================================================ *)
(** * E. No state between two validations *)

(* Validator.validate starts with `self.errors = []`: whatever an instance held before, the list it returns is the list of
   THIS document (the source of validate() is pinned: pin_vt_src_validator_validate) *)
Definition validate_obj (o : oracles) (bm : option mschema) (strict : bool) (ss : option sdef)
           (held : list (str * str)) (d : doc) : option (list (str * str)) :=
  let held0 : list (str * str) := [] in
  option_map (app held0) (validator_errors o bm strict ss d).

Theorem validate_obj_stateless o bm strict ss h1 h2 d :
  validate_obj o bm strict ss h1 d = validate_obj o bm strict ss h2 d /\
  validate_obj o bm strict ss h1 d = validator_errors o bm strict ss d.
Proof. unfold validate_obj. split; [reflexivity|]. destruct (validator_errors o bm strict ss d); reflexivity. Qed.

(* n-th validation of the same text = the first one: the model threads NO state, and the inventory of the source shows
   there is none to thread *)
Fixpoint validate_n (parsef : str -> option doc) (o : oracles) (s : vschema) (p x : str) (n : nat) : list (option tverdict) :=
  match n with
  | O => []
  | S k => validate_text parsef o s p x :: validate_n parsef o s p x k
  end.
Theorem validate_n_constant parsef o s p x n r : In r (validate_n parsef o s p x n) -> r = validate_text parsef o s p x.
Proof. induction n as [|n IH]; cbn; [tauto|]. intros [<-|H]; [reflexivity|apply IH, H]. Qed.

Theorem no_validation_state :
  vt_tool_instance_state = false /\
  (* every Validator is constructed inside the call that uses it *)
  vt_validator_ctor_sites = pinned_vt_validator_ctor_sites /\
  length vt_validator_ctor_sites = 8%nat /\
  (* validation writes to self.* and to locals only (never to the document, never to a module/class attribute) *)
  vt_validator_stores = pinned_vt_validator_stores /\
  forallb (fun s => existsb (fun p => existsb (fun q => prefixb (p ++ q) s)
                                      [lit "store self."; lit "call self.errors."; lit "call errors."; lit "store present_fields[";
                                       lit "call registry.register_custom"; lit "call router.route"])
                     [lit "__init__: "; lit "validate: "; lit "_validate_meta: "; lit "_validate_unknown_fields: ";
                      lit "_validate_section: "; lit "_validate_type: "]) vt_validator_stores = true.
Proof.
  split; [reflexivity|]. split; [exact pin_vt_validator_ctor_sites|]. split; [rewrite pin_vt_validator_ctor_sites; reflexivity|].
  split; [exact pin_vt_validator_stores|]. rewrite pin_vt_validator_stores. vm_compute. reflexivity.
Qed.

(* the source the model of sections 1-4 was written against *)
Theorem model_source_pins :
  vt_topy_dispatch = pinned_vt_topy_dispatch /\ vt_topy_default = pinned_vt_topy_default /\
  vt_src_validator_validate = pinned_vt_src_validator_validate /\
  vt_src_validator_validate_meta = pinned_vt_src_validator_validate_meta /\
  vt_src_validator_validate_type = pinned_vt_src_validator_validate_type /\
  vt_src_validator_validate_section = pinned_vt_src_validator_validate_section /\
  vt_src_router_route = pinned_vt_src_router_route /\ vt_src_router_parse_target_spec = pinned_vt_src_router_parse_target_spec /\
  vt_src_registry_is_valid = pinned_vt_src_registry_is_valid /\ vt_src_extract_block_targets = pinned_vt_src_extract_block_targets /\
  vt_src_resolve_target = pinned_vt_src_resolve_target /\ vt_src_get_builtin_schema = pinned_vt_src_get_builtin_schema /\
  vt_src_count_literal_zones = pinned_vt_src_count_literal_zones /\
  vt_write_validate_calls = pinned_vt_write_validate_calls /\ vt_cli_validate_calls = pinned_vt_cli_validate_calls.
Proof.
  repeat split; first [exact pin_vt_topy_dispatch | exact pin_vt_topy_default | exact pin_vt_src_validator_validate
    | exact pin_vt_src_validator_validate_meta | exact pin_vt_src_validator_validate_type | exact pin_vt_src_validator_validate_section
    | exact pin_vt_src_router_route | exact pin_vt_src_router_parse_target_spec | exact pin_vt_src_registry_is_valid
    | exact pin_vt_src_extract_block_targets | exact pin_vt_src_resolve_target | exact pin_vt_src_get_builtin_schema
    | exact pin_vt_src_count_literal_zones | exact pin_vt_write_validate_calls | exact pin_vt_cli_validate_calls].
Qed.

(* _to_python_value as the model transcribes it: three isinstance tests in this order, everything else returned as is *)
Theorem topy_dispatch_shape :
  vt_topy_dispatch = [(lit "ListValue", lit "[self._to_python_value(item) for item in value.items]");
                      (lit "InlineMap", lit "{k: self._to_python_value(v) for k, v in value.pairs.items()}");
                      (lit "LiteralZoneValue", lit "value")] /\
  vt_topy_default = lit "value".
Proof. rewrite pin_vt_topy_dispatch, pin_vt_topy_default. vm_compute. split; reflexivity. Qed.

(* the tables the verdict consumes, as found in the source now *)
Theorem profile_tables :
  vt_valid_profiles = [lit "STRICT"; lit "STANDARD"; lit "LENIENT"; lit "ULTRA"] /\
  vt_strict_profile = lit "STRICT" /\ vt_downgrade_profiles = [lit "LENIENT"; lit "ULTRA"] /\
  vt_status_init = lit "UNVALIDATED" /\ vt_status_clean = lit "VALIDATED" /\ vt_status_downgraded = lit "VALIDATED" /\
  vt_status_blocking = lit "INVALID" /\ vt_error_sinks = (false, true, true, true) /\ code_route = s_E009 /\
  vt_meta_type_map = [(s_STRING, t_str); (s_BOOLEAN, t_bool); (s_LIST, t_list)].
Proof. vm_compute. repeat split. Qed.

(* per profile: which status a non-empty error list produces, and where the pairs are reported *)
Theorem profile_semantics o s p d errs :
  has_schema s = true -> str_in p vt_valid_profiles = true ->
  validator_errors o (builtin_meta s) (str_eqb p vt_strict_profile) (active_def s) d = Some errs -> errs <> [] ->
  verdict o s p d = Some (if str_in p [lit "LENIENT"; lit "ULTRA"] then mktv (lit "VALIDATED") [] errs else mktv (lit "INVALID") errs errs).
Proof.
  intros Hs Hp He Hne. unfold verdict. rewrite Hp, Hs, He. cbn [negb].
  destruct errs as [|e errs]; [congruence|].
  destruct profile_tables as (_ & _ & -> & _ & _ & -> & -> & -> & _).
  destruct (str_in p [lit "LENIENT"; lit "ULTRA"]); reflexivity.
Qed.
