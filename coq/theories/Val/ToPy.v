(* C09 -- what schema validation reads of a parsed document, and what the validate tool makes of it.

   to_py            Validator._to_python_value (core/validator.py): AST value -> Python value (Cst.PyVal)
   validator_errors Validator.validate(doc, strict, section_schemas): META block against the builtin dict schema,
                    every top-level Block whose key is the schema name against the SchemaDefinition
                    (Cst.Validator.validate_section + target routing E009), YAML frontmatter (oracle)
   verdict          mcp/validate.py execute(): (validation_status, validation_errors, warnings) as (code, field) pairs,
                    per profile -- the tables (valid profiles, the strict profile, the profiles that downgrade errors to
                    warnings, the status literals, where the error dicts go) are CONSUMED from Gen/ValidateGen.v
   write_verdict / cli_verdict   the same list as octave_write(schema=..) / `octave validate` use it
   run_flow         interpreter of the GENERATED list of statements of execute() that bind `doc` / the canonical output

   Faithful, not idealised: errors are produced in model order (unknown fields in document order, then the fields,
   then routing errors; the source interleaves and sorts) -- the harness compares them as sets.
   OUT OF MODEL (verdict = None): a HolographicValue / Absent object as (part of) a value of a validated block
   (returned as-is by _to_python_value: not a Python primitive), an int whose text is not a decimal literal,
   an ENUM field of the dict schema whose allowed values could be a prefix-match of a dataclass repr.
   ORACLES (inputs computed by the real Python, never axioms): float(text) of float literals, the Cst oracles per
   (validated block, field), str.isspace, validate_frontmatter(raw, schema) on frontmatter that is not absent/blank. *)
From OV Require Import Base.Strs Cst.Lits Cst.PyVal Cst.Constraints Cst.Chain Cst.Validator Syn.Ast Syn.Emitter
     Gen.ConstraintsGen Gen.ValidateGen.
From Coq Require Import ZArith.
Require Coq.Strings.String.
Import Coq.Strings.String.StringSyntax.
Open Scope N_scope.

(* ------------------------------------------------------------------------------------------------------------ *)
(** * 1. _to_python_value *)

Fixpoint digits_val (s : str) (acc : N) : option N :=
  match s with
  | [] => Some acc
  | c :: t => if is_digit c then digits_val t (acc * 10 + (c - 48)) else None
  end.

(* the int behind the canonical text str(int) carried by Syn.Ast.VNum false *)
Definition Z_of_dec (s : str) : option Z :=
  match s with
  | [] => None
  | c :: t =>
      if N.eqb c c_dash then
        match t with
        | [] => None
        | _ => option_map (fun n => Z.opp (Z.of_N n)) (digits_val t 0)
        end
      else option_map Z.of_N (digits_val s 0)
  end.

Fixpoint all_some {A : Type} (l : list (option A)) : option (list A) :=
  match l with
  | [] => Some []
  | Some x :: t => option_map (cons x) (all_some t)
  | None :: _ => None
  end.

(* isinstance chain of the source: ListValue -> list comprehension; InlineMap -> dict comprehension;
   LiteralZoneValue -> the object itself; anything else -> the object itself (None, bool, int, float, str are Python
   primitives already; HolographicValue / Absent are not: out of model) *)
Fixpoint to_py (ofl : str -> fl) (v : value) {struct v} : option pyval :=
  match v with
  | VNull => Some (PA ANone)
  | VBool b => Some (PA (ABool b))
  | VNum false c => option_map (fun z => PA (AInt z)) (Z_of_dec c)
  | VNum true c => Some (PA (AFloat (ofl c) c))
  | VStr s => Some (PA (AStr s))
  | VList items => option_map PList (all_some (map (to_py ofl) items))
  | VMap pairs => option_map PDict (all_some (map (fun p => option_map (pair (fst p)) (to_py ofl (snd p))) pairs))
  | VZone content tag _ => Some (PZone content tag)
  | VHolo _ => None
  | VAbsent => None
  end.

(* kinds, for the losslessness statements *)
Inductive kind := KNone | KBool | KInt | KFloat | KStr | KList | KDict | KZone | KOther.
Definition vkind (v : value) : kind :=
  match v with
  | VNull => KNone | VBool _ => KBool | VNum false _ => KInt | VNum true _ => KFloat | VStr _ => KStr
  | VList _ => KList | VMap _ => KDict | VZone _ _ _ => KZone | VHolo _ => KOther | VAbsent => KOther
  end.
Definition pkind (p : pyval) : kind :=
  match p with
  | PA ANone => KNone | PA (ABool _) => KBool | PA (AInt _) => KInt | PA (AFloat _ _) => KFloat | PA (AStr _) => KStr
  | PList _ => KList | PDict _ => KDict | PZone _ _ => KZone
  end.
Definition is_scalar (v : value) : bool :=
  match v with VNull | VBool _ | VNum _ _ | VStr _ => true | _ => false end.
(* the int text is the canonical decimal text of its value (always so for a parsed document: it is str(int)) *)
Definition num_canonical (v : value) : bool :=
  match v with
  | VNum false c => match Z_of_dec c with Some z => str_eqb (Z_to_dec z) c | None => false end
  | _ => true
  end.

(* ------------------------------------------------------------------------------------------------------------ *)
(** * 2. A validated block: present fields, target routing *)

(* present_fields: the Assignment children of the block, in order (the dict keeps the last of duplicates: lookup_last) *)
Fixpoint inst_of (ofl : str -> fl) (children : list node) : option (list (str * pyval)) :=
  match children with
  | [] => Some []
  | NAssign k v _ _ :: t =>
      match to_py ofl v, inst_of ofl t with
      | Some p, Some r => Some ((k, p) :: r)
      | _, _ => None
      end
  | _ :: t => inst_of ofl t
  end.

(* extract_block_targets: path -> target of every Block that has one, Sections contribute their key to the path *)
Fixpoint bt_node (path : list str) (n : node) {struct n} : list (str * str) :=
  match n with
  | NBlock k t ch _ =>
      (match t with Some x => [(join [c_dot] (path ++ [k]), x)] | None => [] end)
        ++ flat_map (bt_node (path ++ [k])) ch
  | NSection _ k _ ch _ => flat_map (bt_node (path ++ [k])) ch
  | _ => []
  end.
Definition bt_raw (secs : list node) : list (str * str) := flat_map (bt_node []) secs.
(* the dict: a later block with the same path replaces the target of an earlier one *)
Definition bt_dict (secs : list node) : list (str * str) :=
  fold_left (fun d kv => dict_set d (fst kv) (snd kv)) (bt_raw secs) [].

(* InheritanceResolver._ancestors: "A.B.C", "A.B", "A" *)
Fixpoint inits {A : Type} (l : list A) : list (list A) :=
  match l with
  | [] => []
  | x :: t => [x] :: map (cons x) (inits t)
  end.
Definition ancestors (field_path : str) : list str := rev (map (join [c_dot]) (inits (split_on c_dot field_path))).
Fixpoint first_assoc {A : Type} (ks : list str) (d : list (str * A)) : option A :=
  match ks with
  | [] => None
  | k :: t => match assoc k d with Some x => Some x | None => first_assoc t d end
  end.
Definition resolve_target (field_path : str) (bt : list (str * str)) : option str := first_assoc (ancestors field_path) bt.

(* TargetRouter.parse_target_spec: split on the disjunction sign, lstrip the section sign, strip whitespace *)
Definition c_or : N := 8744.
Definition c_sect : N := 167.
Definition strip_sp (sp : N -> bool) (s : str) : str := rev (dropb sp (rev (dropb sp s))).
Definition target_names (sp : N -> bool) (spec : str) : list str :=
  map (fun t => strip_sp sp (dropb (N.eqb c_sect) t)) (split_on c_or spec).
(* TargetRegistry.is_valid *)
Definition target_valid (customs : list str) (t : str) : bool :=
  str_in t vt_target_builtins || str_in t customs || prefixb [c_dot; c_slash] t.
Definition route_ok (sp : N -> bool) (customs : list str) (spec : str) : bool :=
  forallb (target_valid customs) (target_names sp spec).

(* one SchemaDefinition as the validator reads it *)
Record sdef := mksdef {
  sd_name : str;
  sd_schema : schema;                          (* Cst.Validator.schema: ordered fields with their chain, UNKNOWN_FIELDS text *)
  sd_routes : list (str * option str);         (* the fields that have a pattern, with the pattern's explicit target *)
  sd_default_target : option str;              (* POLICY.DEFAULT_TARGET *)
  sd_policy_targets : list str;                (* POLICY.TARGETS *)
  sd_has_fm : bool;                            (* the schema defines frontmatter fields *)
  sd_fm_required : list str }.                 (* names of its REQUIRED frontmatter fields, in order *)

Definition not_builtin (t : str) : bool := negb (str_in t vt_target_builtins).
Definition customs_of (sd : sdef) (bt : list (str * str)) : list str :=
  sd_policy_targets sd
    ++ (match sd_default_target sd with Some (c :: r) => if not_builtin (c :: r) then [c :: r] else [] | _ => [] end)
    ++ filter not_builtin (map snd bt).

Definition code_route : str := nth 2 val_section_codes [].

Definition route_errors (sp : N -> bool) (sd : sdef) (bt : list (str * str)) (sec : str) (inst : list (str * pyval))
  : list (str * str) :=
  flat_map (fun r =>
    match lookup_last (fst r) inst with
    | None => []
    | Some (PA ANone) => []
    | Some _ =>
        let fp := path sec (fst r) in
        let target := match snd r with
                      | Some t => Some t
                      | None => match resolve_target fp bt with Some t => Some t | None => sd_default_target sd end
                      end in
        match target with
        | None => []
        | Some spec => if route_ok sp (customs_of sd bt) spec then [] else [(code_route, fp)]
        end
    end) (sd_routes sd).

Definition pair_of (e : verr) : str * str := (ve_code e, ve_path e).

Definition block_errors (ofl : str -> fl) (oof : str -> orc) (sp : N -> bool) (sd : sdef) (bt : list (str * str))
           (key : str) (children : list node) : option (list (str * str)) :=
  match inst_of ofl children with
  | None => None
  | Some inst => Some (map pair_of (validate_section oof key (sd_schema sd) inst) ++ route_errors sp sd bt key inst)
  end.

(* `for section in doc.sections`: the schema is found by the node's key; only Block nodes are validated.
   i = index of the matching block (the Cst oracles are per block) *)
Fixpoint sections_errors (ofl : str -> fl) (oof : N -> str -> orc) (sp : N -> bool) (sd : sdef) (bt : list (str * str))
         (secs : list node) (i : N) : option (list (str * str)) :=
  match secs with
  | [] => Some []
  | NBlock k _ ch _ :: t =>
      if str_eqb k (sd_name sd) then
        match block_errors ofl (oof i) sp sd bt k ch, sections_errors ofl oof sp sd bt t (i + 1) with
        | Some a, Some b => Some (a ++ b)
        | _, _ => None
        end
      else sections_errors ofl oof sp sd bt t i
  | _ :: t => sections_errors ofl oof sp sd bt t i
  end.

(* ------------------------------------------------------------------------------------------------------------ *)
(** * 3. _validate_meta / _validate_type against a builtin dict schema (values are the RAW AST values) *)

Record mfield := mkmfield { mf_type : str; mf_values : list str }.
Record mschema := mkmschema { ms_required : list str; ms_fields : list (str * mfield) }.

Inductive mraw := MAtom (a : atom) | MObj (isdict : bool).
Definition mraw_of (ofl : str -> fl) (mv : metaval) : option mraw :=
  match mv with
  | MV VNull => Some (MAtom ANone)
  | MV (VBool b) => Some (MAtom (ABool b))
  | MV (VNum false c) => option_map (fun z => MAtom (AInt z)) (Z_of_dec c)
  | MV (VNum true c) => Some (MAtom (AFloat (ofl c) c))
  | MV (VStr s) => Some (MAtom (AStr s))
  | MV _ => Some (MObj false)
  | MD _ => Some (MObj true)
  end.

Definition s_ENUM : str := lit "ENUM".
Definition s_META_dot : str := lit "META.".
Definition orc_none : orc := mkorc [] None false false (fun _ => false).

(* str() of a non-primitive object is its dataclass repr / dict display; it can only matter to ENUM if an allowed value
   starts like one *)
Definition obj_prefixes : list str :=
  [lit "ListValue("; lit "InlineMap("; lit "LiteralZoneValue("; lit "HolographicValue("; lit "Absent()"; lit "{"].
Definition enum_obj_safe (vals : list str) : bool :=
  forallb (fun v => negb (existsb (fun p => prefixb p v) obj_prefixes)) vals.

Definition mraw_isinstance (r : mraw) (pyty : str) : bool :=
  match r with
  | MAtom a => isinstance (PA a) pyty
  | MObj isdict => isdict && str_eqb pyty t_dict
  end.

Definition validate_type (k : str) (r : mraw) (f : mfield) : option (list (str * str)) :=
  match mf_type f with
  | [] => Some []
  | ty =>
      if str_eqb ty s_ENUM then
        match r with
        | MAtom a => Some (map (fun c => (c, s_META_dot ++ k)) (codes (eval orc_none (CEnum (mf_values f)) (PA a))))
        | MObj _ => if enum_obj_safe (mf_values f) then Some [(code_of k_Enum 0, s_META_dot ++ k)] else None
        end
      else if str_eqb ty s_NUMBER then
        match r with
        | MAtom (AInt _) => Some []
        | MAtom (AFloat _ _) => Some []
        | _ => Some [(s_E007, k)]
        end
      else
        match assoc ty vt_meta_type_map with
        | None => Some []
        | Some pyty => if mraw_isinstance r pyty then Some [] else Some [(s_E007, k)]
        end
  end.

Fixpoint concat_some {A : Type} (l : list (option (list A))) : option (list A) :=
  match l with
  | [] => Some []
  | Some x :: t => option_map (app x) (concat_some t)
  | None :: _ => None
  end.

Definition meta_errors (ofl : str -> fl) (ms : mschema) (strict : bool) (meta : list (str * metaval)) : option (list (str * str)) :=
  let keys := map fst meta in
  let allowed := map fst (ms_fields ms) in
  let req := flat_map (fun f => if str_in f keys then [] else [(s_E003, s_META_dot ++ f)]) (ms_required ms) in
  let unk := if strict then
               flat_map (fun k => match allowed with
                                  | [] => []
                                  | _ => if str_in k allowed then [] else [(s_E007, s_META_dot ++ k)]
                                  end) keys
             else [] in
  match concat_some (map (fun kv => match assoc (fst kv) (ms_fields ms) with
                                    | None => Some []
                                    | Some f => match mraw_of ofl (snd kv) with
                                                | None => None
                                                | Some r => validate_type (fst kv) r f
                                                end
                                    end) meta) with
  | None => None
  | Some ty => Some (req ++ unk ++ ty)
  end.

(* ------------------------------------------------------------------------------------------------------------ *)
(** * 4. Validator.validate and the three tool surfaces *)

Record oracles := mkoracles {
  or_fl : str -> fl;                              (* float(text) of a float literal, as an exact value *)
  or_field : N -> str -> orc;                     (* Cst oracles of field f in the i-th validated block *)
  or_sp : N -> bool;                              (* str.isspace *)
  or_fm : str -> list (str * str) }.              (* validate_frontmatter(raw, schema) for a raw text that is NOT taken as absent
                                                     (YAML parsing, field types) *)

(* validate_frontmatter: the ABSENT branch is modelled (each required field -> code, prefix ++ name), and so is the decision WHEN it is
   taken: no frontmatter, or -- when the source says so (vt_fm_blank_is_absent, regenerated on every run) -- a whitespace-only block
   (`not raw_frontmatter.strip()`, sp = str.isspace).  Everything else goes to the oracle. *)
Definition fm_absent_errors (sd : sdef) : list (str * str) :=
  map (fun n => (vt_fm_absent_code, vt_fm_absent_prefix ++ n)) (sd_fm_required sd).
Definition fm_errors (o : oracles) (sd : sdef) (front : option str) : list (str * str) :=
  if sd_has_fm sd then
    match front with
    | None => fm_absent_errors sd
    | Some t => if vt_fm_blank_is_absent && forallb (or_sp o) t then fm_absent_errors sd else or_fm o t
    end
  else [].

Definition validator_errors (o : oracles) (bm : option mschema) (strict : bool) (ss : option sdef) (d : doc)
  : option (list (str * str)) :=
  let m := match bm, dmeta d with
           | Some ms, _ :: _ => meta_errors (or_fl o) ms strict (dmeta d)
           | _, _ => Some []
           end in
  let s := match ss with
           | Some sd => sections_errors (or_fl o) (or_field o) (or_sp o) sd (bt_dict (dsections d)) (dsections d) 0
           | None => Some []
           end in
  let f := match ss with
           | Some sd => fm_errors o sd (dfront d)
           | None => []
           end in
  match m, s with
  | Some a, Some b => Some (a ++ b ++ f)
  | _, _ => None
  end.

(* what the tools resolve a schema NAME to *)
Record vschema := mkvschema {
  vs_builtin : option (option mschema);     (* get_builtin_schema(name): None | Some (its "META" entry, if any) *)
  vs_def : option sdef }.                   (* load_schema_by_name(name): None when not found / failed to load *)

(* `schema_definition is not None and schema_definition.fields` *)
Definition active_def (s : vschema) : option sdef :=
  match vs_def s with
  | Some sd => match sc_fields (sd_schema sd) with [] => None | _ => Some sd end
  | None => None
  end.
Definition builtin_meta (s : vschema) : option mschema :=
  match vs_builtin s with Some (Some m) => Some m | _ => None end.
Definition has_schema (s : vschema) : bool :=
  match vs_builtin s, active_def s with None, None => false | _, _ => true end.

Record tverdict := mktv { tv_status : str; tv_errors : list (str * str); tv_warnings : list (str * str) }.

Definition pick {A : Type} (b : bool) (l : list A) : list A := if b then l else [].

(* mcp/validate.py execute(): profile check, has_schema, strict = (profile == STRICT), errors blocking or downgraded *)
Definition verdict (o : oracles) (s : vschema) (p : str) (d : doc) : option tverdict :=
  if negb (str_in p vt_valid_profiles) then Some (mktv vt_status_init [] [])
  else if has_schema s then
    match validator_errors o (builtin_meta s) (str_eqb p vt_strict_profile) (active_def s) d with
    | None => None
    | Some [] => Some (mktv vt_status_clean [] [])
    | Some errs =>
        let '(d_ve, d_w, b_ve, b_w) := vt_error_sinks in
        if str_in p vt_downgrade_profiles
        then Some (mktv vt_status_downgraded (pick d_ve errs) (pick d_w errs))
        else Some (mktv vt_status_blocking (pick b_ve errs) (pick b_w errs))
    end
  else
    match validator_errors o None false None d with
    | None => None
    | Some errs => Some (mktv vt_status_init [] errs)
    end.

(* octave_write(schema=.., lenient=false): no profile, strict=False; INVALID iff the list is non-empty *)
Definition write_verdict (o : oracles) (s : vschema) (d : doc) : option (str * list (str * str)) :=
  if has_schema s then
    match validator_errors o (builtin_meta s) false (active_def s) d with
    | None => None
    | Some [] => Some (vt_status_clean, [])
    | Some errs => Some (vt_status_blocking, errs)
    end
  else Some (vt_status_init, []).

(* `octave validate --schema NAME`: builtin dict schemas only, no section schemas *)
Definition cli_verdict (o : oracles) (s : vschema) (d : doc) : option (str * list (str * str)) :=
  match vs_builtin s with
  | None => Some (vt_status_init, [])
  | Some bm =>
      match validator_errors o bm false None d with
      | None => None
      | Some [] => Some (vt_status_clean, [])
      | Some errs => Some (vt_status_blocking, errs)
      end
  end.

(* ------------------------------------------------------------------------------------------------------------ *)
(** * 5. What validation does NOT read: the erasure *)

(* comments (leading, trailing, orphan), section ids and annotations are dropped; keys, values, block targets and the
   nesting stay.  Values are kept whole: str() of a value (ENUM, REGEX, DIR) reads all of it. *)
Fixpoint erase_node (n : node) : list node :=
  match n with
  | NAssign k v _ _ => [NAssign k v [] None]
  | NBlock k t ch _ => [NBlock k t (flat_map erase_node ch) []]
  | NSection _ k _ ch _ => [NSection [] k None (flat_map erase_node ch) []]
  | NComment _ => []
  end.
(* envelope name, grammar sentinel, separator flag and trailing comments are dropped; META and frontmatter stay *)
Definition erase_doc (d : doc) : doc :=
  mkDoc [] None (dfront d) false (dmeta d) (flat_map erase_node (dsections d)) [].
Definition content_eq (d1 d2 : doc) : Prop := erase_doc d1 = erase_doc d2.

(* ------------------------------------------------------------------------------------------------------------ *)
(** * 6. The statements of execute() that bind the document and the canonical output (success path) *)

Section Flow.
  Variable D : Type.
  Variable parsef : str -> D.
  Variable repairf : D -> D.
  Variable emitf : D -> str.

  (* `fix` is the only test the flow depends on; `except ...` bodies are not on the success path; every other
     enclosing test (try, has_schema, diff_only, ...) is taken as possibly true *)
  Definition guard_holds (fx : bool) (g : str) : bool :=
    if str_eqb g (lit "fix") then fx
    else if str_eqb g (lit "not fix") then negb fx
    else negb (prefixb (lit "except") g).

  Record fstate := mkfs { fs_doc : option D; fs_out : option str }.

  Definition fstep (fx : bool) (content : str) (st : fstate) (ev : list str * N * str) : fstate :=
    let '(g, k, _) := ev in
    if negb (forallb (guard_holds fx) g) then st
    else match k with
         | 1 => mkfs (Some (parsef content)) (fs_out st)
         | 2 => mkfs (option_map repairf (fs_doc st)) (fs_out st)
         | 4 => mkfs (fs_doc st) (option_map emitf (fs_doc st))
         | _ => st
         end.

  Definition run_flow (evs : list (list str * N * str)) (fx : bool) (content : str) : option str :=
    fs_out (fold_left (fstep fx content) evs (mkfs None None)).
End Flow.

(* the canonical text octave_validate returns for `content` (success path) *)
Definition tool_canonical (parsef : str -> doc) (repairf : doc -> doc) (sp : N -> bool) (fx : bool) (content : str) : option str :=
  run_flow doc parsef repairf (emit sp) vt_doc_flow fx content.

(* ------------------------------------------------------------------------------------------------------------ *)
(** * 7. Builtin dict schemas as generated *)

Definition mschema_of (e : str * bool * list str * list (str * str * list str)) : option mschema :=
  let '(_, has_meta, req, fields) := e in
  if has_meta then Some (mkmschema req (map (fun f => let '(n, ty, vals) := f in (n, mkmfield ty vals)) fields)) else None.
Definition builtin_lookup (name : str) : option (option mschema) :=
  match find (fun e => let '(n, _, _, _) := e in str_eqb n name) vt_builtin_schemas with
  | Some e => Some (mschema_of e)
  | None => None
  end.
