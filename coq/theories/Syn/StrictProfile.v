(* An independent line-level recogniser of the strict canonical profile (C03), written from the
   property text, not from the emitter:
     - exactly one final newline; first non-frontmatter, non-sentinel line ===NAME===; last line ===END===
     - outside literal zones: no TAB, no trailing blank, even indentation that rises by at most 2
     - outside strings, comments and zones: no ASCII operator alias (-> <-> + ~ | & # vs), no blank next to ::
       (`vs` counts as an alias only at a token start: not after a word character and not after `$` `.` `-`, where the
        lexer is inside a VARIABLE / IDENTIFIER token; `vs` followed by `.`/`-` is still the alias)
     - a VARIABLE token `$` followed by the maximal run of [A-Za-z0-9_:] (the lexer's \$[A-Za-z0-9_:]+) is an atom:
       nothing inside it is inspected (`$a:vs`, `$KEY::value` are one token each)  *)
From OV Require Import Base.Strs.
Require Coq.Strings.String.
Import Coq.Strings.String.StringSyntax.
Open Scope N_scope.

Definition word_chr (c : N) : bool := is_alnum c || N.eqb c c_us.
(* the characters of a VARIABLE token after its `$` *)
Definition var_chr (c : N) : bool := is_alnum c || N.eqb c c_us || N.eqb c c_colon.

(* scan the code part of one line. prev = previous code character (0 at line start); instr = inside a quoted string;
   esc = the previous string character was a backslash.  The state (instr = false, esc = true), which the string
   machinery never produces, means: INSIDE A VARIABLE TOKEN (entered at `$` followed by a variable character, left at
   the first character that is not a variable character, which is then scanned as code). *)
Fixpoint scan_code (s : str) (prev : N) (instr : bool) (esc : bool) : bool :=
  match s with
  | [] => true
  | c :: r =>
      if instr then
        if esc then scan_code r c true false
        else if N.eqb c c_bs then scan_code r c true true
        else if N.eqb c c_dq then scan_code r c false false
        else scan_code r c true false
      else if esc && var_chr c then scan_code r c false true                          (* inside a VARIABLE token: not inspected *)
      else if N.eqb c c_dq then scan_code r c true false
      else if N.eqb c c_slash && prefixb [c_slash] r then true                       (* comment to end of line *)
      else if N.eqb c 36 && (match r with x :: _ => var_chr x | [] => false end) then
        scan_code r c false true                                                     (* `$` opening a VARIABLE token *)
      else if memb c [126; 124; 38; 35] then false                                    (* ~ | & # *)
      else if N.eqb c c_plus then
        (* only the exponent sign of a number: digit|. e + digit *)
        (N.eqb prev 101 || N.eqb prev 69) && (match r with d :: _ => is_digit d | [] => false end) && scan_code r c false false
      else if N.eqb c c_dash && prefixb [c_gt] r then false                           (* -> and <-> *)
      (* the operator alias `vs`: only where a TOKEN starts at this v.  After a word character, or after `$` `.` `-`,
         the lexer is still inside a VARIABLE / IDENTIFIER token (`$vs`, `a.vs`, `x-vs` are ONE token each), so that is no
         alias.  The test on the character AFTER `vs` stays a plain word-boundary test: in `vs.x` / `vs-x` the lexer reads
         the operator `vs` first and then the rest, so a bare `vs.x` IS an alias occurrence (the known reserved-segment
         finding of C04) and must keep being flagged.  (The `$` exemption is kept although the VARIABLE rule above
         already skips `$vs`: a `$` that is followed by a variable character never leaves a `v` to be scanned here.) *)
      else if N.eqb c 118 && prefixb [115] r && negb (word_chr prev) && negb (memb prev [36; 46; 45]) &&
              (match r with _ :: x :: _ => negb (word_chr x) | _ => true end) then false   (* the word vs *)
      else if N.eqb c c_colon && prefixb [c_colon] r && negb (N.eqb prev c_colon) then
        negb (N.eqb prev c_sp) && scan_code r c false false                          (* first colon of :: *)
      else if N.eqb c c_colon && N.eqb prev c_colon then
        (match r with x :: _ => negb (N.eqb x c_sp) | [] => true end) && scan_code r c false false
      else scan_code r c false false
  end.

Definition leading_spaces (l : str) : nat := length (takeb (N.eqb c_sp) l).
Definition last_is_blank (l : str) : bool :=
  match rev l with c :: _ => N.eqb c c_sp || N.eqb c c_tab | [] => false end.

(* a fence line: spaces then >= 3 backticks; returns the backtick count and the tail *)
Definition fence_of (l : str) : option (nat * str) :=
  let r := dropb (N.eqb c_sp) l in
  let bt := takeb (N.eqb c_bt) r in
  if (3 <=? length bt)%nat then Some (length bt, dropb (N.eqb c_bt) r) else None.

(* body lines; zone = Some n inside a zone opened with n backticks; pind = indent of the previous code line *)
Fixpoint body_ok (ls : list str) (zone : option nat) (pind : nat) : bool :=
  match ls with
  | [] => true
  | l :: r =>
      match zone with
      | Some n =>
          match fence_of l with
          | Some (m, tail) => if (m =? n)%nat && forallb (N.eqb c_sp) tail then body_ok r None pind else body_ok r zone pind
          | None => body_ok r zone pind
          end
      | None =>
          let i := leading_spaces l in
          negb (memb c_tab l) && negb (last_is_blank l) && Nat.even i && (i <=? pind + 2)%nat &&
          match fence_of l with
          | Some (m, _) => body_ok r (Some m) pind
          | None => scan_code (skipn i l) 0 false false && body_ok r None i
          end
      end
  end.

Definition env_name_ok (l : str) : bool :=
  prefixb (lit "===") l &&
  match rev (skipn 3 l) with
  | a :: b :: c :: nm => N.eqb a c_eq && N.eqb b c_eq && N.eqb c c_eq &&
                         match rev nm with x :: t => (is_alpha x || N.eqb x c_us) && forallb word_chr t | [] => false end
  | _ => false
  end.

(* skip frontmatter: ---, lines, ---, blank *)
Fixpoint skip_front (ls : list str) : option (list str) :=
  match ls with
  | l :: r => if str_eqb l (lit "---") then match r with [] :: r' => Some r' | _ => None end else skip_front r
  | [] => None
  end.

Definition strict_profile (text : str) : bool :=
  match rev (split_on c_nl text) with
  | [] :: endl :: revbody =>
      str_eqb endl (lit "===END===") &&
      let ls := rev revbody in
      let ls1 := match ls with
                 | l0 :: r => if str_eqb l0 (lit "---") then skip_front r else Some ls
                 | [] => Some ls
                 end in
      match ls1 with
      | None => false
      | Some ls2 =>
          let ls3 := match ls2 with l :: r => if prefixb (lit "OCTAVE::") l then r else ls2 | [] => ls2 end in
          match ls3 with
          | env :: body => env_name_ok env && negb (str_eqb env (lit "===END===")) && body_ok body None 0
          | [] => false
          end
      end
  | _ => false
  end.
