(* Faithful executable model of octave_mcp.core.parser.Parser over the token stream of Lex/Lexer.v.
   Oracles (inputs): numcanon raw = Some (isfloat, str(value)) for NUMBER lexemes;
                     holo_ok raw  = parse_holographic_pattern(raw) succeeds.
   Fuel bounds the call depth (loops are recursion); POut marks inputs outside the model. *)
From OV Require Import Base.Strs Syn.Escape Lex.Lexer Syn.Ast.
Require Coq.Strings.String.
Import Coq.Strings.String.StringSyntax.
Open Scope N_scope.

Record pwarn := mkW { wsub : N; wline : N; wcol : N; wa : str; wb : str; wparts : list str; wnums : list N }.
(* wsub: 1 multi_word_coalesce 2 source_compile_value 3 unclosed_list 4 bare_line_dropped 5 duplicate_key
         6 deep_nesting 7 constructor_misuse 8 nested_inline_map 9 pattern_autoquote
         10 bare_flow 11 constraint_outside_brackets 12 chained_tension *)

Record pstate := mkPS { ptoks : list token; pprev : option token; ppos : N; pwarns : list pwarn; pbdepth : N; pwarned : list N }.

Inductive pres (A : Type) :=
| POk (a : A) (st : pstate)
| PErr (code : str) (line col : N)
| PFuel
| POut (why : N).
Arguments POk {A}. Arguments PErr {A}. Arguments PFuel {A}. Arguments POut {A}.

Definition bind {A B} (r : pres A) (f : A -> pstate -> pres B) : pres B :=
  match r with POk a st => f a st | PErr c l k => PErr c l k | PFuel => PFuel | POut w => POut w end.
Notation "'do' ( x , s ) <- r ; k" := (bind r (fun x s => k)) (at level 200, x pattern, s pattern, r at level 100, k at level 200).

Section WithOracles.
Variable numcanon : str -> option (bool * str).
Variable holo_ok : str -> bool.
Variable strict : bool.
Variable sp : N -> bool.      (* str.isspace *)
Variable alpha : N -> bool.   (* str.isalpha *)

Definition eof_tok := mkTok EOF TVNone 0 0 None.
Definition cur (st : pstate) : token := match ptoks st with t :: _ => t | [] => eof_tok end.
Definition peek1 (st : pstate) : token := match ptoks st with _ :: t :: _ => t | [t] => t | [] => eof_tok end.
Definition ck (st : pstate) : tkind := tk (cur st).
Definition adv (st : pstate) : pstate :=
  match ptoks st with
  | t :: ((_ :: _) as r) => mkPS r (Some t) (ppos st + 1) (pwarns st) (pbdepth st) (pwarned st)
  | _ => st
  end.
Definition warn (w : pwarn) (st : pstate) : pstate :=
  mkPS (ptoks st) (pprev st) (ppos st) (w :: pwarns st) (pbdepth st) (pwarned st).
Definition set_depth (d : N) (st : pstate) : pstate :=
  mkPS (ptoks st) (pprev st) (ppos st) (pwarns st) d (pwarned st).

Definition is k (st : pstate) : bool := tkind_eqb (ck st) k.
Definition kin (k : tkind) (l : list tkind) : bool := existsb (tkind_eqb k) l.
Definition value_tokens := [IDENTIFIER; NUMBER; VERSION; BOOLEAN; NULL; STRING; VARIABLE].
Definition expr_ops := [FLOW; SYNTHESIS; AT; CONCAT; TENSION; CONSTRAINT; ALTERNATIVE].
Definition is_vtok (k : tkind) := kin k value_tokens.
Definition is_eop (k : tkind) := kin k expr_ops.

Definition err_at {A} (code : str) (t : token) : pres A := PErr code (tline t) (tcol t).
Definition e001 := lit "E001".  Definition e006p := lit "E006".  Definition e007p := lit "E007".

Definition expect (k : tkind) (st : pstate) : pres token :=
  if is k st then POk (cur st) (adv st) else err_at e001 (cur st).

(* _token_to_str *)
Definition tok_to_str (t : token) : option str :=
  match tk t, tv t with
  | NUMBER, TVNum raw => Some raw
  | BOOLEAN, TVBool b => Some (if b then lit "true" else lit "false")
  | NULL, _ => Some (lit "null")
  | STRING, TVText s => Some (c_dq :: s ++ [c_dq])
  | EOF, _ => Some (lit "None")
  | INDENT, TVCount n => Some (N_to_dec n)
  | _, TVText s => Some s
  | _, _ => None
  end.
(* str(token.value) for the kinds that reach the generic branches *)
Definition value_str (t : token) : option str :=
  match tk t, tv t with
  | EOF, _ => Some (lit "None")
  | INDENT, TVCount n => Some (N_to_dec n)
  | NUMBER, _ => None | BOOLEAN, _ => None | NULL, _ => None
  | _, TVText s => Some s
  | _, _ => None
  end.
Definition text_of (t : token) : str := match tv t with TVText s => s | _ => [] end.

(* _is_adjacent_bracket: None = outside the model *)
Definition adjacent (st : pstate) : option bool :=
  match pprev st with
  | None => Some false
  | Some p =>
      let b := cur st in
      if negb (N.eqb (tline p) (tline b)) then Some false
      else
        let plen :=
          match tnorm p, tk p with
          | Some o, STRING => Some (len (text_of p) + 2)
          | Some o, _ => Some (len o)          (* an alias is as long as it was written (/repo fix: adjacency) *)
          | None, _ =>
          match tk p, tv p with
          | NUMBER, TVNum raw => Some (len raw)
          | BOOLEAN, TVBool v => Some (if v then 4 else 5)
          | NULL, _ => Some 4
          | STRING, TVText s => Some (len s + 2)
          | _, _ => match value_str p with Some s => Some (len s) | None => None end
          end
          end in
        match plen with Some n => Some (N.eqb (tcol p + n) (tcol b)) | None => None end
  end.

(* skip a bracket group without capture (current is just after the opening bracket) *)
Fixpoint skip_brackets (fuel : nat) (depth : N) (st : pstate) : pstate :=
  match fuel with
  | O => st
  | S f =>
      if (0 <? depth) && negb (is EOF st) then
        let d := if is LIST_START st then depth + 1 else if is LIST_END st then depth - 1 else depth in
        skip_brackets f d (adv st)
      else st
  end.

(* capture mode of _consume_bracket_annotation (after the opening bracket) *)
Fixpoint capture_brackets (fuel : nat) (depth : N) (acc : list str) (st : pstate) : pres (list str) :=
  match fuel with
  | O => PFuel
  | S f =>
      if (0 <? depth) && negb (is EOF st) then
        let k := ck st in
        if tkind_eqb k LIST_START then capture_brackets f (depth + 1) ([c_lbr] :: acc) (adv st)
        else if tkind_eqb k LIST_END then
          capture_brackets f (depth - 1) (if 0 <? depth - 1 then [c_rbr] :: acc else acc) (adv st)
        else if tkind_eqb k COMMA then capture_brackets f depth ([c_comma] :: acc) (adv st)
        else if kin k [COMMENT; NEWLINE; INDENT] then capture_brackets f depth acc (adv st)
        else match tok_to_str (cur st) with
             | Some s => capture_brackets f depth (s :: acc) (adv st)
             | None => POut 1
             end
      else POk (rev acc) st
  end.

Definition fuel_of (st : pstate) : nat := S (length (ptoks st)).

(* _consume_bracket_annotation(capture): returns None when no bracket; Some "" for empty brackets *)
Definition consume_annotation (capture : bool) (st : pstate) : pres (option str) :=
  if negb (is LIST_START st) then POk None st
  else if capture then
    do (parts, st') <- capture_brackets (fuel_of st) 1 [] (adv st);
    POk (Some (concat parts)) st'
  else POk None (skip_brackets (fuel_of st) 1 (adv st)).

(* trailing bracket handling shared by most parse_value paths *)
Definition trailing_brackets (result : str) (st : pstate) : pres str :=
  if is LIST_START st then
    match adjacent st with
    | None => POut 2
    | Some true => do (_, st') <- consume_annotation false st; POk result st'
    | Some false =>
        do (a, st') <- consume_annotation true st;
        POk (match a with Some x => result ++ lit " [" ++ x ++ lit "]" | None => result end) st'
    end
  else POk result st.

(* _peek_past_brackets_at on the token list starting AT the candidate bracket *)
Fixpoint past_brackets (ts : list token) (depth : N) : tkind :=
  match ts with
  | [] => EOF
  | t :: r =>
      if N.eqb depth 0 then tk t
      else if tkind_eqb (tk t) LIST_START then past_brackets r (depth + 1)
      else if tkind_eqb (tk t) LIST_END then past_brackets r (depth - 1)
      else past_brackets r depth
  end.
Definition peek_past_brackets (ts : list token) : tkind :=
  match ts with
  | t :: r => if tkind_eqb (tk t) LIST_START then past_brackets r 1 else tk t
  | [] => EOF
  end.

Definition has_annotation (s : str) : bool :=
  memb c_lt s && match rev s with c :: _ => N.eqb c c_gt | [] => false end.

Definition join_sp (l : list str) : str := join [c_sp] l.

(* accumulate `while current in VALUE_TOKENS: parts.append(_token_to_str(current)); advance` *)
Fixpoint take_values (fuel : nat) (acc : list str) (st : pstate) : pres (list str) :=
  match fuel with
  | O => PFuel
  | S f =>
      if is_vtok (ck st) then
        match tok_to_str (cur st) with
        | Some s => take_values f (s :: acc) (adv st)
        | None => POut 3
        end
      else POk (rev acc) st
  end.

(* `while current in VALUE_TOKENS or EXPRESSION_OPERATORS: append value / _token_to_str` *)
Fixpoint take_expr (fuel : nat) (acc : list str) (st : pstate) : pres (list str) :=
  match fuel with
  | O => PFuel
  | S f =>
      if is_eop (ck st) then take_expr f (text_of (cur st) :: acc) (adv st)
      else if is_vtok (ck st) then
        match tok_to_str (cur st) with
        | Some s => take_expr f (s :: acc) (adv st)
        | None => POut 3
        end
      else POk (rev acc) st
  end.

Definition mw_warn (ctx : str) (parts : list str) (line col : N) : pwarn :=
  mkW 1 line col (join_sp parts) ctx parts [].

(* STRING / BOOLEAN / NULL / VERSION led multi-word value *)
Definition simple_multiword (ctx : str) (st : pstate) : pres value :=
  let t := cur st in
  do (parts, st1) <- take_values (fuel_of st) [] st;
  let st2 := warn (mw_warn ctx parts (tline t) (tcol t)) st1 in
  do (r, st3) <- trailing_brackets (join_sp parts) st2;
  POk (VStr r) st3.

(* the operator-rich NUMBER[bracket]OP capture loop *)
Fixpoint rich_capture (fuel : nat) (acc : list str) (st : pstate) : pres (list str) :=
  match fuel with
  | O => PFuel
  | S f =>
      let k := ck st in
      if kin k [NEWLINE; EOF; ENVELOPE_END] then POk (rev acc) st
      else if tkind_eqb k LIST_START then rich_capture f ([c_lbr] :: acc) (adv st)
      else if tkind_eqb k LIST_END then rich_capture f ([c_rbr] :: acc) (adv st)
      else if is_eop k then rich_capture f (([c_sp] ++ text_of (cur st) ++ [c_sp]) :: acc) (adv st)
      else if is_vtok k then
        match tok_to_str (cur st) with Some s => rich_capture f (s :: acc) (adv st) | None => POut 3 end
      else if tkind_eqb k COMMA then rich_capture f ([c_comma] :: acc) (adv st)
      else POk (rev acc) st
  end.

(* NUMBER-led / plain IDENTIFIER-led word loop:
   returns inl expression-string (operator met) or inr word_parts *)
Fixpoint word_loop (fuel : nat) (ident_mode : bool) (acc : list str) (st : pstate) : pres (str * list str + list str) :=
  match fuel with
  | O => PFuel
  | S f =>
      if is_vtok (ck st) then
        if is_eop (tk (peek1 st)) then
          match tok_to_str (cur st) with
          | None => POut 3
          | Some s =>
              let words := rev (s :: acc) in
              do (rest, st') <- take_expr (fuel_of st) [] (adv st);
              POk (inl (concat (join_sp words :: rest), words)) st'
          end
        else
          match tok_to_str (cur st) with
          | None => POut 3
          | Some s =>
              let st1 := adv st in
              if ident_mode && is LIST_START st1 then
                match adjacent st1 with
                | None => POut 2
                | Some true =>
                    do (a, st2) <- consume_annotation true st1;
                    word_loop f ident_mode ((match a with Some x => s ++ [c_lt] ++ x ++ [c_gt] | None => s end) :: acc) st2
                | Some false => word_loop f ident_mode (s :: acc) st1
                end
              else word_loop f ident_mode (s :: acc) st1
          end
      else POk (inr (rev acc)) st
  end.

Definition flush (bare items : list str) : list str :=   (* items kept REVERSED *)
  match bare with [] => items | _ => join_sp (rev bare) :: items end.

(* GH#269 unified accumulator (annotated identifiers); bare/items are reversed accumulators *)
Fixpoint annot_loop (fuel : nat) (bare items : list str) (st : pstate) : pres value :=
  match fuel with
  | O => PFuel
  | S f =>
      let k := ck st in
      if is_eop k then
        let items' := flush bare items in
        do (ops, st1) <- take_expr (fuel_of st) [] st;
        let full := match items' with
                    | [] => concat ops
                    | _ => join_sp (rev items') ++ concat ops
                    end in
        do (r, st2) <- trailing_brackets full st1;
        POk (VStr r) st2
      else if is_vtok k then
        match tok_to_str (cur st) with
        | None => POut 3
        | Some s =>
            let st1 := adv st in
            let step (cv : str) (st2 : pstate) :=
              if has_annotation cv then annot_loop f [] (cv :: flush bare items) st2
              else annot_loop f (cv :: bare) items st2 in
            if is LIST_START st1 then
              match adjacent st1 with
              | None => POut 2
              | Some true =>
                  do (a, st2) <- consume_annotation true st1;
                  step (match a with Some x => s ++ [c_lt] ++ x ++ [c_gt] | None => s end) st2
              | Some false => step s st1
              end
            else step s st1
        end
      else
        let items' := flush bare items in
        if is LIST_START st then
          match adjacent st with
          | None => POut 2
          | Some true =>
              do (_, st1) <- consume_annotation false st;
              POk (match items' with [x] => VStr x | l => VList (map VStr (rev l)) end) st1
          | Some false =>
              do (a, st1) <- consume_annotation true st;
              let items2 := match a, items' with
                            | Some x, last :: r => (last ++ lit " [" ++ x ++ lit "]") :: r
                            | Some x, [] => []           (* items[-1] on an empty list: IndexError *)
                            | None, l => l
                            end in
              match a, items' with
              | Some _, [] => POut 4
              | _, _ => POk (match items2 with [x] => VStr x | l => VList (map VStr (rev l)) end) st1
              end
          end
        else POk (match items' with [x] => VStr x | l => VList (map VStr (rev l)) end) st
  end.

(* does any upcoming VALUE token carry an annotation? (lookahead scan from the current position) *)
Fixpoint scan_annotation (ts : list token) : option bool :=
  match ts with
  | t :: r => if is_vtok (tk t) then
                match tok_to_str t with
                | Some s => if has_annotation s then Some true else scan_annotation r
                | None => None
                end
              else Some false
  | [] => Some false
  end.

(* colon path: while current is BLOCK and next is IDENTIFIER *)
Fixpoint colon_path (fuel : nat) (acc : list str) (st : pstate) : list str * pstate :=
  match fuel with
  | O => (rev acc, st)
  | S f =>
      if is BLOCK st && tkind_eqb (tk (peek1 st)) IDENTIFIER then
        let st1 := adv st in colon_path f (text_of (cur st1) :: acc) (adv st1)
      else (rev acc, st)
  end.

(* section marker in value position / flow expression: the marker text followed by IDENTIFIER or NUMBER *)
Definition section_ref (st : pstate) : pres str :=
  let m := text_of (cur st) in
  let st1 := adv st in
  if is IDENTIFIER st1 then POk (m ++ text_of (cur st1)) (adv st1)
  else if is NUMBER st1 then
    match tok_to_str (cur st1) with Some s => POk (m ++ s) (adv st1) | None => POut 3 end
  else POk m st1.

(* embedded bracket group inside a flow expression (blacklist capture, closing bracket re-added) *)
Definition embedded_brackets (st : pstate) : pres str :=
  do (parts, st') <- capture_brackets (fuel_of st) 1 [] (adv st);
  POk ([c_lbr] ++ concat parts ++ [c_rbr]) st'.

Fixpoint flow_loop (fuel : nat) (acc : list str) (tension : N) (first_t : option token) (st : pstate)
  : pres (list str * N * option token) :=
  match fuel with
  | O => PFuel
  | S f =>
      let k := ck st in
      let t := cur st in
      if is_eop k then
        let st1 := if tkind_eqb k FLOW && N.eqb (pbdepth st) 0 then warn (mkW 10 (tline t) (tcol t) (text_of t) [] [] []) st else st in
        let st2 := if tkind_eqb k CONSTRAINT && N.eqb (pbdepth st) 0 then warn (mkW 11 (tline t) (tcol t) (text_of t) [] [] []) st1 else st1 in
        let '(tension', first') := if tkind_eqb k TENSION then (tension + 1, match first_t with None => Some t | x => x end) else (tension, first_t) in
        flow_loop f (text_of t :: acc) tension' first' (adv st2)
      else if tkind_eqb k SECTION then
        do (s, st1) <- section_ref st;
        flow_loop f (s :: acc) tension first_t st1
      else if kin k [IDENTIFIER; STRING; VARIABLE] then
        let st1 := adv st in
        if is LIST_START st1 &&
           negb (kin (peek_past_brackets (ptoks st1)) [COMMA; LIST_END; NEWLINE; EOF; ENVELOPE_END; ENVELOPE_START]) then
          do (b, st2) <- embedded_brackets st1;
          flow_loop f (b :: text_of t :: acc) tension first_t st2
        else flow_loop f (text_of t :: acc) tension first_t st1
      else POk (rev acc, tension, first_t) st
  end.

Definition parse_flow_expression (st : pstate) : pres value :=
  do (r, st1) <- flow_loop (fuel_of st) [] 0 None st;
  let '(parts, tension, first_t) := r in
  do (parts2, st2) <-
     (if is LIST_START st1 then
        match adjacent st1 with
        | None => POut 2
        | Some true => do (_, s') <- consume_annotation false st1; POk parts s'
        | Some false => do (a, s') <- consume_annotation true st1;
                        POk (match a with Some x => parts ++ [[c_lbr] ++ x ++ [c_rbr]] | None => parts end) s'
        end
      else POk parts st1);
  let st3 := match first_t with
             | Some t => if 1 <? tension then warn (mkW 12 (tline t) (tcol t) [] [] [] [tension]) st2 else st2
             | None => st2
             end in
  POk (VStr (concat parts2)) st3.

Definition strip_sp (t : str) : str := rev (dropb sp (rev (dropb sp t))).

(* parse_literal_zone *)
Definition parse_literal_zone (st : pstate) : pres value :=
  let ft := cur st in
  match tk ft, tv ft with
  | FENCE_OPEN, TVFence marker tag =>
      let tag' := match tag with
                  | Some t => match strip_sp t with [] => None | x => Some x end
                  | None => None
                  end in
      let st1 := adv st in
      let '(content, st2) := if is LITERAL_CONTENT st1 then (text_of (cur st1), adv st1) else ([], st1) in
      if is FENCE_CLOSE st2 then POk (VZone content tag' marker) (adv st2)
      else err_at e006p ft
  | _, _ => err_at e001 ft
  end.


(* ---- holographic detection on the token slice of a list ------------------------------- *)
Fixpoint comma_at_depth1 (ts : list token) (depth : N) : bool :=
  match ts with
  | [] => false
  | t :: r =>
      if tkind_eqb (tk t) LIST_START then comma_at_depth1 r (depth + 1)
      else if tkind_eqb (tk t) LIST_END then comma_at_depth1 r (depth - 1)
      else if tkind_eqb (tk t) COMMA && N.eqb depth 1 then true
      else comma_at_depth1 r depth
  end.

(* since /repo fix (holographic pattern text): a STRING is written with the emitter's escaping, and no token kind that
   carries text is dropped (ASSIGN, BLOCK, VERSION, VARIABLE and every operator are written in their canonical spelling);
   only NEWLINE / INDENT / COMMENT (and kinds that cannot occur inside brackets) contribute nothing *)
Definition reconstruct_tok (t : token) : str :=
  match tk t, tv t with
  | LIST_START, _ => [c_lbr] | LIST_END, _ => [c_rbr]
  | STRING, TVText s => c_dq :: escape s ++ [c_dq]
  | NUMBER, TVNum raw => raw
  | BOOLEAN, TVBool b => if b then lit "true" else lit "false"
  | NULL, _ => lit "null"
  | CONSTRAINT, _ => [8743] | FLOW, _ => [8594] | SECTION, _ => [167] | COMMA, _ => [c_comma]
  | ASSIGN, _ => [c_colon; c_colon] | BLOCK, _ => [c_colon]
  | TENSION, _ => [8652] | SYNTHESIS, _ => [8853] | CONCAT, _ => [10746] | ALTERNATIVE, _ => [8744] | AT, _ => [64]
  | IDENTIFIER, TVText s => s | VERSION, TVText s => s | VARIABLE, TVText s => s
  | _, _ => []
  end.

Definition try_holographic (slice : list token) : option str :=
  if existsb (fun t => tkind_eqb (tk t) CONSTRAINT) slice && negb (comma_at_depth1 slice 0) then
    let raw := flat_map reconstruct_tok slice in
    if holo_ok raw then Some raw else None
  else None.

(* nested inline map check (Issue #185): number of warnings in lenient mode *)
Fixpoint nm_list_of (v : value) : N :=
  match v with
  | VList items =>
      (fix go (l : list value) : N :=
         match l with
         | [] => 0
         | x :: r => match x with
                     | VMap _ => 1
                     | VList _ => nm_list_of x + go r
                     | _ => go r
                     end
         end) items
  | _ => 0
  end.
Definition nm_count (v : value) : N :=
  match v with VMap _ => 1 | _ => nm_list_of v end.

Definition known_constructors := [lit "REGEX"; lit "ENUM"; lit "TYPE"; lit "PATTERN"; lit "NEVER"; lit "ALWAYS"].
Definition pattern_keys := [lit "PATTERN"; lit "REGEX"].
Definition is_vstr (v : value) : option str := match v with VStr s => Some s | _ => None end.

Definition max_nesting : N := 100.
Definition nesting_threshold : N := 5.

Fixpoint repeat_warn (n : nat) (w : pwarn) (st : pstate) : pstate :=
  match n with O => st | S k => repeat_warn k w (warn w st) end.

Definition skip_kinds (ks : list tkind) : nat -> pstate -> pstate :=
  fix go (fuel : nat) (st : pstate) : pstate :=
    match fuel with
    | O => st
    | S f => if kin (ck st) ks && negb (is EOF st) then go f (adv st) else st
    end.

(* ---- values ---------------------------------------------------------------------------------- *)
Fixpoint parse_value (fuel : nat) (st : pstate) {struct fuel} : pres value :=
  match fuel with
  | O => PFuel
  | S f =>
    let t := cur st in
    let k := tk t in
    let nk := tk (peek1 st) in
    match k with
    | STRING => if is_vtok nk then simple_multiword (lit "string_multiword") st else POk (VStr (text_of t)) (adv st)
    | BOOLEAN => if is_vtok nk then simple_multiword (lit "boolean_multiword") st
                 else POk (VBool (match tv t with TVBool b => b | _ => false end)) (adv st)
    | NULL => if is_vtok nk then simple_multiword (lit "null_multiword") st else POk VNull (adv st)
    | VERSION => if is_vtok nk then simple_multiword (lit "version_multiword") st else POk (VStr (text_of t)) (adv st)
    | NUMBER =>
        match tv t with
        | TVNum raw =>
            if is_vtok nk then
              do (r, st1) <- word_loop (fuel_of st) false [raw] (adv st);
              match r with
              | inl (expr, words) =>
                  POk (VStr expr) (warn (mw_warn (lit "number_identifier_expression") words (tline t) (tcol t)) st1)
              | inr words =>
                  let st2 := warn (mw_warn (lit "number_identifier") words (tline t) (tcol t)) st1 in
                  do (res, st3) <- trailing_brackets (join_sp words) st2;
                  POk (VStr res) st3
              end
            else if tkind_eqb nk LIST_START && is_eop (peek_past_brackets (tl (ptoks st))) then
              do (parts, st1) <- rich_capture (fuel_of st) [raw] (adv st);
              let res := concat parts in
              POk (VStr res) (warn (mkW 2 (tline t) (tcol t) res [] [] []) st1)
            else
              match numcanon raw with
              | Some (isf, c) => POk (VNum isf c) (adv st)
              | None => POut 5
              end
        | _ => POut 5
        end
    | LIST_START => parse_list f st
    | FENCE_OPEN => parse_literal_zone st
    | NEWLINE =>
        if tkind_eqb nk FENCE_OPEN then parse_literal_zone (adv st)
        else POk (VStr (text_of t)) (adv st)
    | IDENTIFIER =>
        if is_eop nk then parse_flow_expression st
        else if tkind_eqb nk LIST_START && is_eop (peek_past_brackets (tl (ptoks st))) then parse_flow_expression st
        else
          let st1 := adv st in
          do (p0, st2) <-
             (if is LIST_START st1 then
                match adjacent st1 with
                | None => POut 2
                | Some true => do (a, s') <- consume_annotation true st1;
                               POk (match a with Some x => text_of t ++ [c_lt] ++ x ++ [c_gt] | None => text_of t end) s'
                | Some false => POk (text_of t) st1
                end
              else POk (text_of t) st1);
          let '(path, st3) := colon_path (fuel_of st2) [] st2 in
          match path with
          | _ :: _ =>
              let rp := join [c_colon] (p0 :: path) in
              if is LIST_START st3 then
                match adjacent st3 with
                | None => POut 2
                | Some true => do (a, s') <- consume_annotation true st3;
                               POk (VStr (match a with Some x => rp ++ [c_lt] ++ x ++ [c_gt] | None => rp end)) s'
                | Some false => POk (VStr rp) st3
                end
              else POk (VStr rp) st3
          | [] =>
              match (if has_annotation p0 then Some true else scan_annotation (ptoks st3)) with
              | None => POut 3
              | Some true =>
                  if has_annotation p0 then annot_loop (fuel_of st3) [] [p0] st3 else annot_loop (fuel_of st3) [p0] [] st3
              | Some false =>
                  do (r, st4) <- word_loop (fuel_of st3) true [p0] st3;
                  match r with
                  | inl (expr, words) =>
                      POk (VStr expr)
                          (if (1 <? length words)%nat then warn (mw_warn (lit "expression_path") words (tline t) (tcol t)) st4 else st4)
                  | inr words =>
                      let st5 := if (1 <? length words)%nat then warn (mw_warn [] words (tline t) (tcol t)) st4 else st4 in
                      do (res, st6) <- trailing_brackets (join_sp words) st5;
                      POk (VStr res) st6
                  end
              end
          end
    | FLOW => parse_flow_expression st
    | SECTION =>
        do (m, st1) <- section_ref st;
        do (res, st2) <- trailing_brackets m st1;
        POk (VStr res) st2
    | VARIABLE => if is_eop nk then parse_flow_expression st else POk (VStr (text_of t)) (adv st)
    | _ => match value_str t with Some s => POk (VStr s) (adv st) | None => POut 6 end
    end
  end

with parse_list (fuel : nat) (st : pstate) {struct fuel} : pres value :=
  match fuel with
  | O => PFuel
  | S f =>
      let start_toks := ptoks st in
      let start_pos := ppos st in
      let bt := cur st in
      do (_, st1) <- expect LIST_START st;
      let depth := pbdepth st1 + 1 in
      let st2 := set_depth depth st1 in
      if max_nesting <=? depth then err_at (lit "E_MAX_NESTING_EXCEEDED") bt
      else
        let st3 :=
          if (nesting_threshold <=? depth) && negb (memb (tline bt) (pwarned st2)) then
            warn (mkW 6 (tline bt) (tcol bt) [] [] [] [depth])
                 (mkPS (ptoks st2) (pprev st2) (ppos st2) (pwarns st2) (pbdepth st2) (tline bt :: pwarned st2))
          else st2 in
        do (items, st4) <- parse_list_loop f [] st3;
        do (_, st5) <-
           (if is LIST_END st4 then POk tt (set_depth (pbdepth st4 - 1) (adv st4))
            else
              let st' := set_depth (pbdepth st4 - 1) st4 in
              if strict then err_at e007p (cur st4)
              else POk tt (warn (mkW 3 (tline (cur st4)) (tcol (cur st4)) [] [] [] []) st'));
        let slice := firstn (N.to_nat (ppos st5 - start_pos)) start_toks in
        match try_holographic slice with
        | Some raw => POk (VHolo raw) st5
        | None => POk (VList items) st5
        end
  end

with parse_list_loop (fuel : nat) (acc : list value) (st : pstate) {struct fuel} : pres (list value) :=
  match fuel with
  | O => PFuel
  | S f =>
      let st1 := skip_kinds [NEWLINE; INDENT; COMMENT] (fuel_of st) st in
      if kin (ck st1) [LIST_END; EOF; ENVELOPE_END] then POk (rev acc) st1
      else
        do (item, st2) <- parse_list_item f st1;
        if is COMMA st2 then parse_list_loop f (item :: acc) (adv st2)
        else if is LIST_END st2 then POk (rev (item :: acc)) st2
        else if is EOF st2 then POk (rev (item :: acc)) st2
        else parse_list_loop f (item :: acc) st2
  end

with parse_list_item (fuel : nat) (st : pstate) {struct fuel} : pres value :=
  match fuel with
  | O => PFuel
  | S f =>
      let t := cur st in
      let idk := is IDENTIFIER st && tkind_eqb (tk (peek1 st)) ASSIGN in
      let numk := is NUMBER st && tkind_eqb (tk (peek1 st)) ASSIGN in
      if idk || numk then
        match (if numk then match tv t with TVNum raw => match numcanon raw with Some (_, c) => Some c | None => None end | _ => None end
               else Some (text_of t)) with
        | None => POut 5
        | Some key =>
            let st1 := adv (adv st) in
            let quoted := is STRING st1 in
            do (v, st2) <- parse_value f st1;
            let n := nm_count v in
            if strict && (0 <? n) then err_at (lit "E_NESTED_INLINE_MAP") t
            else
              let st3 := repeat_warn (N.to_nat n) (mkW 8 (tline t) (tcol t) key [] [] []) st2 in
              let st4 := match is_vstr v with
                         | Some s => if idk && str_in key pattern_keys && negb quoted
                                     then warn (mkW 9 (tline t) (tcol t) key s [] []) st3 else st3
                         | None => st3
                         end in
              let st5 := if idk && str_in key known_constructors && quoted
                         then warn (mkW 7 (tline t) (tcol t) key (match is_vstr v with Some s => s | None => [] end) [] []) st4
                         else st4 in
              POk (VMap [(key, v)]) st5
        end
      else parse_value f st
  end.


(* comments at column 0 between a section header and its first indented child *)
Fixpoint collect_pre (fuel : nat) (acc : list str) (st : pstate) : list str * pstate :=
  match fuel with
  | O => (rev acc, st)
  | S f =>
      if is COMMENT st then collect_pre f (text_of (cur st) :: acc) (adv st)
      else if is NEWLINE st then collect_pre f acc (adv st)
      else (rev acc, st)
  end.

(* ---- structure --------------------------------------------------------------------------------- *)
Definition count_of (t : token) : N := match tv t with TVCount n => n | _ => 0 end.

(* duplicate-key tracking: association key -> lines (in order) *)
Definition track_dup (key : str) (line : N) (pos : list (str * list N)) (st : pstate) : list (str * list N) * pstate :=
  match find (fun p => str_eqb (fst p) key) pos with
  | Some (_, ls) =>
      let ls' := ls ++ [line] in
      (dict_set pos key ls', warn (mkW 5 0 0 key [] [] ls') st)
  | None => (dict_set pos key [line], st)
  end.

Definition node_key_line (n : node) (line : N) : option (str * N) :=
  match n with NAssign k _ _ _ => Some (k, line) | _ => None end.

(* _parse_block_target_annotation (current is the opening bracket) *)
Definition parse_block_target (st : pstate) : option str * pstate :=
  let st1 := adv st in
  if negb (is FLOW st1) then (None, skip_brackets (fuel_of st1) 1 st1)
  else
    let st2 := adv st1 in
    let '(target, st3) :=
      if is SECTION st2 then
        let st' := adv st2 in
        if is IDENTIFIER st' then (Some (text_of (cur st')), adv st') else (None, st')
      else if is IDENTIFIER st2 then (Some (text_of (cur st2)), adv st2)
      else (None, st2) in
    (target, if is LIST_END st3 then adv st3 else st3).

Definition comments_as_nodes (cs : list str) : list node := map NComment cs.

Fixpoint parse_section (fuel : nat) (leading : list str) (st : pstate) {struct fuel} : pres (option node) :=
  match fuel with
  | O => PFuel
  | S f =>
      if is SECTION st then
        do (n, st1) <- parse_section_marker f st;
        POk (Some (match n, leading with
                   | NSection i k a ch _, _ :: _ => NSection i k a ch leading
                   | x, _ => x
                   end)) st1
      else if negb (is IDENTIFIER st) then POk None st
      else
        let it := cur st in
        let key := text_of it in
        let st1 := adv st in
        let '(target, st2) := if is LIST_START st1 then parse_block_target st1 else (None, st1) in
        if is ASSIGN st2 || is FLOW st2 then
          let ot := cur st2 in
          let st3 := if is FLOW st2 then warn (mkW 10 (tline ot) (tcol ot) (text_of ot) (lit "assign") [] []) st2 else st2 in
          let st4 := adv st3 in
          let quoted := is STRING st4 in
          do (v, st5) <- parse_value (fuel_of st4 + fuel_of st4 + fuel_of st4) st4;
          let st6 := match is_vstr v with
                     | Some s => if str_in key pattern_keys && negb quoted
                                 then warn (mkW 9 (tline it) (tcol it) key s [] []) st5 else st5
                     | None => st5
                     end in
          let '(trailing, st7) := if is COMMENT st6 then (Some (text_of (cur st6)), adv st6) else (None, st6) in
          POk (Some (NAssign key v leading trailing)) st7
        else if is BLOCK st2 then
          let bt := cur st2 in
          let st3 := adv st2 in
          if is IDENTIFIER st3 && N.eqb (tline (cur st3)) (tline bt) then err_at e001 bt
          else
            let st4 := skip_kinds [NEWLINE; COMMENT] (fuel_of st3) st3 in
            if is FENCE_OPEN st4 then
              do (z, st5) <- parse_literal_zone st4;
              POk (Some (NBlock key target [NAssign [] z [] None] leading)) st5
            else if is INDENT st4 then
              let ci := count_of (cur st4) in
              do (children, st5) <- block_loop f ci ci [] [] [] (adv st4);
              POk (Some (NBlock key target children leading)) st5
            else POk (Some (NBlock key target [] leading)) st4
        else
          POk None (warn (mkW 4 (tline it) (tcol it) key [] [] []) st2)
  end

(* children loop of a Block: ci = child_indent, cli = current_line_indent, acc reversed *)
with block_loop (fuel : nat) (ci cli : N) (pending : list str) (acc : list node) (dups : list (str * list N))
                (st : pstate) {struct fuel} : pres (list node) :=
  match fuel with
  | O => PFuel
  | S f =>
      let fin (st' : pstate) := POk (rev acc ++ comments_as_nodes pending) st' in
      if is EOF st || is ENVELOPE_END st then fin st
      else if is INDENT st then
        let n := count_of (cur st) in
        if n <? ci then fin st else block_loop f ci n pending acc dups (adv st)
      else if is COMMENT st then block_loop f ci cli (pending ++ [text_of (cur st)]) acc dups (adv st)
      else if is NEWLINE st then block_loop f ci 0 pending acc dups (adv st)
      else if cli <? ci then fin st
      else if is FENCE_OPEN st then
        do (z, st1) <- parse_literal_zone st;
        block_loop f ci 0 [] (NAssign [] z pending None :: acc) dups st1
      else
        let line := tline (cur st) in
        do (child, st1) <- parse_section f pending st;
        match child with
        | Some n =>
            let '(dups', st2) := match node_key_line n line with
                                 | Some (k, l) => track_dup k l dups st1
                                 | None => (dups, st1)
                                 end in
            block_loop f ci 0 [] (n :: acc) dups' st2
        | None =>
            if kin (ck st1) [NEWLINE; INDENT; COMMENT] then block_loop f ci cli [] acc dups st1
            else POk (rev acc) st1
        end
  end

with parse_section_marker (fuel : nat) (st : pstate) {struct fuel} : pres node :=
  match fuel with
  | O => PFuel
  | S f =>
      let st1 := adv st in
      do (sid, st2) <-
         (if is NUMBER st1 then
            match tv (cur st1) with
            | TVNum raw =>
                match numcanon raw with
                | Some (_, c) =>
                    let st' := adv st1 in
                    if is IDENTIFIER st' then
                      match text_of (cur st') with
                      | [x] => if alpha x then POk (c ++ [x]) (adv st') else POk c st'
                      | _ => POk c st'
                      end
                    else POk c st'
                | None => POut 5
                end
            | _ => POut 5
            end
          else if is IDENTIFIER st1 then POk (text_of (cur st1)) (adv st1)
          else err_at e006p (cur st1));
      if negb (is ASSIGN st2) then err_at e006p (cur st2)
      else
        let st3 := adv st2 in
        do (name, st4) <-
           (if is IDENTIFIER st3 then POk (text_of (cur st3)) (adv st3)
            else if is NUMBER st3 then
              (* a numeric name is read the way the numeric id is (since /repo: numeric section name fix):
                 str(value) plus an optional one-letter suffix *)
              match tv (cur st3) with
              | TVNum raw =>
                  match numcanon raw with
                  | Some (_, c) =>
                      let st' := adv st3 in
                      if is IDENTIFIER st' then
                        match text_of (cur st') with
                        | [x] => if alpha x then POk (c ++ [x]) (adv st') else POk c st'
                        | _ => POk c st'
                        end
                      else POk c st'
                  | None => POut 5
                  end
              | _ => POut 5
              end
            else if kin (ck st3) [NEWLINE; INDENT; LIST_START] then POk sid st3
            else err_at e006p (cur st3));
        do (annot, st5) <- consume_annotation true st4;
        let st6 := skip_kinds [NEWLINE] (fuel_of st5) st5 in
        let '(pre, st7) := collect_pre (fuel_of st6) [] st6 in
        if is INDENT st7 then
          let ci := count_of (cur st7) in
          do (children, st8) <- section_loop f ci ci pre [] [] (adv st7);
          POk (NSection sid name annot children []) st8
        else POk (NSection sid name annot (comments_as_nodes pre) []) st7
  end

with section_loop (fuel : nat) (ci cli : N) (pending : list str) (acc : list node) (dups : list (str * list N))
                  (st : pstate) {struct fuel} : pres (list node) :=
  match fuel with
  | O => PFuel
  | S f =>
      let fin (st' : pstate) := POk (rev acc ++ comments_as_nodes pending) st' in
      if is EOF st || is ENVELOPE_END st then fin st
      else if is INDENT st then
        let n := count_of (cur st) in
        if n <? ci then fin st else section_loop f ci n pending acc dups (adv st)
      else if is COMMENT st then section_loop f ci cli (pending ++ [text_of (cur st)]) acc dups (adv st)
      else if is SECTION st && (cli <? ci) then fin st
      else if is NEWLINE st then section_loop f ci 0 pending acc dups (adv st)
      else if cli <? ci then fin st
      else
        let line := tline (cur st) in
        do (child, st1) <- parse_section f pending st;
        match child with
        | Some n =>
            let '(dups', st2) := match node_key_line n line with
                                 | Some (k, l) => track_dup k l dups st1
                                 | None => (dups, st1)
                                 end in
            section_loop f ci 0 [] (n :: acc) dups' st2
        | None => POk (rev acc) st1
        end
  end.


(* ---- META ------------------------------------------------------------------------------------------ *)
Definition vfuel (st : pstate) : nat := fuel_of st + fuel_of st + fuel_of st.

(* nested META block loop: ni = nested_indent, hi = nested_has_indented *)
Fixpoint meta_nested_loop (fuel : nat) (ni : N) (hi : bool) (d : list (str * value)) (dups : list (str * list N))
                          (st : pstate) : pres (list (str * value)) :=
  match fuel with
  | O => PFuel
  | S f =>
      if is EOF st || is ENVELOPE_END st then POk d st
      else if is INDENT st then
        if count_of (cur st) <? ni then POk d st else meta_nested_loop f ni true d dups (adv st)
      else if is NEWLINE st then meta_nested_loop f ni false d dups (adv st)
      else if is COMMENT st then
        if (0 <? ni) && negb hi then POk d st else meta_nested_loop f ni hi d dups (adv st)
      else if is IDENTIFIER st then
        if (0 <? ni) && negb hi then POk d st
        else
          let kt := cur st in
          let st1 := adv st in
          if is ASSIGN st1 then
            do (v, st2) <- parse_value (vfuel st1) (adv st1);
            let '(dups', st3) := track_dup (text_of kt) (tline kt) dups st2 in
            meta_nested_loop f ni hi (dict_set d (text_of kt) v) dups' st3
          else meta_nested_loop f ni hi d dups st1
      else POk d st
  end.

Fixpoint meta_loop (fuel : nat) (il : N) (hi : bool) (m : list (str * metaval)) (dups : list (str * list N))
                   (st : pstate) : pres (list (str * metaval)) :=
  match fuel with
  | O => PFuel
  | S f =>
      if is EOF st || is ENVELOPE_END st then POk m st
      else if is INDENT st then
        if count_of (cur st) <? il then POk m st else meta_loop f il true m dups (adv st)
      else if is NEWLINE st then meta_loop f il false m dups (adv st)
      else if is COMMENT st then
        if (0 <? il) && negb hi then POk m st else meta_loop f il hi m dups (adv st)
      else if is IDENTIFIER st then
        if (0 <? il) && negb hi then POk m st
        else
          let kt := cur st in
          let key := text_of kt in
          let st1 := adv st in
          if is ASSIGN st1 then
            do (v, st2) <- parse_value (vfuel st1) (adv st1);
            let '(dups', st3) := track_dup key (tline kt) dups st2 in
            meta_loop f il hi (dict_set m key (MV v)) dups' st3
          else if is BLOCK st1 then
            let st2 := skip_kinds [NEWLINE; COMMENT] (fuel_of st1) (adv st1) in
            do (nested, st3) <-
               (if is INDENT st2 then meta_nested_loop (fuel_of st2 + fuel_of st2) (count_of (cur st2)) true [] [] (adv st2)
                else POk [] st2);
            let '(dups', st4) := track_dup key (tline kt) dups st3 in
            meta_loop f il false (dict_set m key (MD nested)) dups' st4
          else meta_loop f il hi m dups st1
      else POk m st
  end.

Definition parse_meta_block (st : pstate) : pres (list (str * metaval)) :=
  do (_, st1) <- expect IDENTIFIER st;
  do (_, st2) <- expect BLOCK st1;
  let st3 := skip_kinds [NEWLINE; COMMENT] (fuel_of st2) st2 in
  if negb (is INDENT st3) then POk [] st3
  else meta_loop (fuel_of st3 + fuel_of st3) (count_of (cur st3)) true [] [] (adv st3).

(* ---- document ---------------------------------------------------------------------------------------- *)
Fixpoint doc_loop (fuel : nat) (pending : list str) (acc : list node) (dups : list (str * list N)) (st : pstate)
  : pres (list node * list str) :=
  match fuel with
  | O => PFuel
  | S f =>
      if is ENVELOPE_END st || is EOF st then POk (rev acc, pending) st
      else if is INDENT st then doc_loop f pending acc dups (adv st)
      else if is COMMENT st then doc_loop f (pending ++ [text_of (cur st)]) acc dups (adv st)
      else if is NEWLINE st then doc_loop f pending acc dups (adv st)
      else
        let line := tline (cur st) in
        do (sec, st1) <- parse_section (vfuel st + fuel_of st) pending st;
        match sec with
        | Some n =>
            let '(dups', st2) := match node_key_line n line with
                                 | Some (k, l) => track_dup k l dups st1
                                 | None => (dups, st1)
                                 end in
            doc_loop f [] (n :: acc) dups' st2
        | None =>
            doc_loop f [] acc dups (if is ENVELOPE_END st1 || is EOF st1 then st1 else adv st1)
        end
  end.

Definition parse_document (st0 : pstate) : pres doc :=
  let st := skip_kinds [NEWLINE; COMMENT] (fuel_of st0) st0 in
  let '(grammar, st1) :=
    if is GRAMMAR_SENTINEL st then (Some (text_of (cur st)), skip_kinds [NEWLINE; COMMENT] (fuel_of st) (adv st))
    else (None, st) in
  let '(name, st2) :=
    if is ENVELOPE_START st1 then (text_of (cur st1), skip_kinds [NEWLINE] (fuel_of st1) (adv st1))
    else (lit "INFERRED", st1) in
  do (meta, st3) <-
     (if is IDENTIFIER st2 && str_eqb (text_of (cur st2)) (lit "META") then
        do (m, s') <- parse_meta_block st2; POk m (skip_kinds [NEWLINE] (fuel_of s') s')
      else POk [] st2);
  let '(sep, st4) :=
    if is SEPARATOR st3 then (true, skip_kinds [NEWLINE] (fuel_of st3) (adv st3)) else (false, st3) in
  do (r, st5) <- doc_loop (fuel_of st4 + fuel_of st4) [] [] [] st4;
  let '(sections, trailing) := r in
  let st6 := if is ENVELOPE_END st5 then adv st5 else st5 in
  POk (mkDoc name grammar None sep meta sections trailing) st6.

End WithOracles.

(* ---- frontmatter + tokenise + parse ----------------------------------------------------------------- *)
Definition s_dashes : str := [45;45;45].

(* _strip_yaml_frontmatter on content.split("\n") given as (raw, nfc) pairs *)
Fixpoint find_close (sp : N -> bool) (ls : list (str * str)) (i : nat) : option nat :=
  match ls with
  | [] => None
  | (raw, _) :: r => if str_eqb (strip_sp sp raw) s_dashes then Some i else find_close sp r (S i)
  end.

Definition strip_frontmatter (sp : N -> bool) (ls : list (str * str)) : list (str * str) * option str :=
  match ls with
  | (l0, _) :: rest =>
      if prefixb s_dashes l0 && str_eqb (strip_sp sp l0) s_dashes then
        match find_close sp rest 1 with
        | Some i =>
            let fm := join [c_nl] (map fst (firstn (i - 1) rest)) in
            let remaining := skipn i rest in
            (repeat ([], []) (S i) ++ (match remaining with [] => [([], [])] | _ => remaining end), Some fm)
        | None => (ls, None)
        end
      else (ls, None)
  | [] => (ls, None)
  end.

Inductive parse_result :=
| PRDoc (d : doc) (lex_reps : list repair) (warns : list pwarn)
| PRLexErr (code : str) (line col : N)
| PRParseErr (code : str) (line col : N)
| PRFuel
| PROut (why : N).

Definition parse_model (cls : N -> N) (numcanon : str -> option (bool * str)) (holo_ok : str -> bool)
           (strict : bool) (lines : list (str * str)) : parse_result :=
  let sp := u_space cls in
  let '(ls, fm) := strip_frontmatter sp lines in
  match tokenize cls false ls with
  | LexErr c l k => PRLexErr c l k
  | LexFuel => PRFuel
  | LexOk toks reps =>
      match parse_document numcanon holo_ok strict sp (u_alpha cls) (mkPS toks None 0 [] 0 []) with
      | POk d st => PRDoc (mkDoc (dname d) (dgrammar d) fm (dsep d) (dmeta d) (dsections d) (dtrailing d)) reps (rev (pwarns st))
      | PErr c l k => PRParseErr c l k
      | PFuel => PRFuel
      | POut w => PROut w
      end
  end.
