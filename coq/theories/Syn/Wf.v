(* wf_doc: the domain on which emit -> parse is the identity, as a list of falsified clauses.
   Each clause is either the negation of one finding class (codes < 20) or a model-scope clause (>= 20).
   Computed against the PINNED tables (Quote.scalar_class). *)
From OV Require Import Base.Strs Syn.Escape Syn.Quote Syn.Ast.
Require Coq.Strings.String.
Import Coq.Strings.String.StringSyntax.
Open Scope N_scope.

(* 1 escape-order | 3 reserved-segment | 4 annotation-qualifier | (10 frontmatter+sentinel: repaired) | 11 bare-zone-sibling
   12 bare-zone-comments | 13 empty-body-comment | 14 comment-dedent | 15 non-finite float
   18 single-item list whose item carries a bare constraint operator (re-read as holographic pattern)
   20 holographic value inside a list/map | 21 outside the content model *)

Definition nonfinite (c : str) : bool := str_in c [lit "inf"; lit "-inf"; lit "nan"].

(* a constraint operator that would reach the token stream un-quoted *)
Fixpoint has_bare_constraint (v : value) : bool :=
  match v with
  | VStr s => negb (needs_quotes_pinned s) && memb 8743 s
  | VList items => existsb has_bare_constraint items
  | VMap pairs => existsb (fun p => has_bare_constraint (snd p)) pairs
  | VHolo _ => true
  | _ => false
  end.

Fixpoint value_clauses (force : bool) (inlist : bool) (v : value) : list N :=
  match v with
  | VStr s => match scalar_class force s with 0 => [] | c => [c] end
  | VNum true c => if nonfinite c then [15] else []
  | VList items =>
      (match filter (fun x => negb (is_absent x)) items with
       | [x] => if has_bare_constraint x then [18] else []     (* no comma at depth 1: re-read as a holographic pattern *)
       | _ => []
       end) ++ flat_map (value_clauses false true) items
  | VMap pairs => flat_map (fun p => value_clauses (always_quote_key (fst p)) true (snd p)) pairs
  | VHolo _ => if inlist then [20] else []
  | VAbsent => [21]
  | _ => []
  end.

Definition is_bare_zone (n : node) : bool :=
  match n with NAssign [] (VZone _ _ _) _ _ => true | _ => false end.
Definition bare_zone_has_comments (n : node) : bool :=
  match n with NAssign [] (VZone _ _ _) (_ :: _) _ => true | _ => false end.

Fixpoint node_clauses (n : node) : list N :=
  match n with
  | NAssign key v _ _ => value_clauses (always_quote_key key) false v
  | NComment _ => []
  | NBlock _ _ children _ =>
      (if existsb is_bare_zone children && (Nat.ltb 1 (length children)) then [11] else []) ++
      (if existsb bare_zone_has_comments children then [12] else []) ++
      flat_map node_clauses children
  | NSection _ _ _ children _ => flat_map node_clauses children
  end.

(* shape of the emitted body: (indent, kind) per line; kind 0 comment | 1 empty-body header | 2 other *)
Fixpoint node_shape (n : node) (indent : nat) : list (nat * N) :=
  match n with
  | NComment _ => [(indent, 0)]
  | NAssign _ _ leading _ => map (fun _ => (indent, 0)) leading ++ [(indent, 2)]
  | NBlock _ _ children leading =>
      map (fun _ => (indent, 0)) leading ++
      [(indent, match children with [] => 1 | _ => 2 end)] ++ flat_map (fun c => node_shape c (S indent)) children
  | NSection _ _ _ children leading =>
      map (fun _ => (indent, 0)) leading ++
      [(indent, match children with [] => 1 | _ => 2 end)] ++ flat_map (fun c => node_shape c (S indent)) children
  end.
Definition doc_shape (d : doc) : list (nat * N) :=
  flat_map (fun n => node_shape n 0) (dsections d) ++ map (fun _ => (O, 0)) (dtrailing d).

Fixpoint shape_clauses (s : list (nat * N)) : list N :=
  match s with
  | a :: ((b :: _) as r) =>
      (if N.eqb (snd a) 1 && N.eqb (snd b) 0 then [13] else []) ++
      (if N.eqb (snd b) 0 && Nat.ltb (fst b) (fst a) then [14] else []) ++ shape_clauses r
  | _ => []
  end.

Definition meta_clauses (m : list (str * metaval)) : list N :=
  flat_map (fun kv => match snd kv with
                      | MV v => value_clauses false false v
                      | MD pairs => flat_map (fun p => value_clauses false false (snd p)) pairs
                      end) m.

Definition doc_clauses (d : doc) : list N :=
  (* clause 10 (frontmatter + grammar sentinel) is gone since /repo fix f2a06dd: the sentinel is read after leading blank lines *)
  meta_clauses (dmeta d) ++ flat_map node_clauses (dsections d) ++ shape_clauses (doc_shape d).

Definition wf_doc (d : doc) : bool := match doc_clauses d with [] => true | _ => false end.
