(* emitter.py: needs_quotes, the four patterns, scalar string emission; plus the wf_scalar clauses
   (negations of the finding classes of C04). *)
From OV Require Import Base.Strs Gen.EmitterGen Syn.Escape Syn.Pins_Emitter.
Open Scope N_scope.

(* [A-Za-z_] and [A-Za-z0-9_.\-] : Python `re` on str patterns with explicit ASCII ranges *)
Definition idp_start (c : N) : bool := is_alpha c || N.eqb c c_us.
Definition idp_char (c : N) : bool := is_alnum c || N.eqb c c_us || N.eqb c c_dot || N.eqb c c_dash.

Definition last_is_dash (s : str) : bool := match rev s with c :: _ => N.eqb c c_dash | [] => false end.

(* ^[A-Za-z_][A-Za-z0-9_.\-]*(?<!-)\Z *)
Definition match_identifier (s : str) : bool :=
  match s with
  | c :: r => idp_start c && forallb idp_char r && negb (last_is_dash s)
  | [] => false
  end.

(* ^\$[A-Za-z0-9_:]+\Z *)
Definition varp_char (c : N) : bool := is_alnum c || N.eqb c c_us || N.eqb c c_colon.
Definition match_variable (s : str) : bool :=
  match s with
  | c :: ((_ :: _) as r) => N.eqb c c_dollar && forallb varp_char r
  | _ => false
  end.

(* qualifier ([A-Za-z_]([A-Za-z0-9_,]*[A-Za-z0-9_])?)? *)
Definition qual_mid (c : N) : bool := is_alnum c || N.eqb c c_us || N.eqb c c_comma.
Definition qual_end (c : N) : bool := is_alnum c || N.eqb c c_us.
Definition match_qualifier (q : str) : bool :=
  match q with
  | [] => true
  | c :: r => idp_start c &&
              match rev r with
              | [] => true
              | l :: m => qual_end l && forallb qual_mid m
              end
  end.

(* ^ID<Q?>\Z : ID contains no '<', so the split at the first '<' is the only candidate *)
Definition match_annotation (s : str) : bool :=
  let name := takeb (fun c => negb (N.eqb c c_lt)) s in
  match skipn (length name) s with
  | lt :: r =>
      match rev r with
      | gt :: qrev => N.eqb gt c_gt && match_identifier name && match_qualifier (rev qrev)
      | [] => false
      end
  | [] => false
  end.

(* split on operator characters (the operator set is a table: generated or pinned) *)
Fixpoint split_ops (ops : list N) (s cur : str) : list str :=
  match s with
  | [] => [rev cur]
  | c :: r => if memb c ops then rev cur :: split_ops ops r [] else split_ops ops r (c :: cur)
  end.

(* ^ID([OPS]ID)+\Z *)
Definition match_expression_with (ops : list N) (s : str) : bool :=
  match split_ops ops s [] with
  | a :: ((_ :: _) as rest) => match_identifier a && forallb match_identifier rest
  | _ => false
  end.
Definition match_expression := match_expression_with emitter_unicode_ops.

Definition needs_quotes_with (reserved : list str) (ops : list N) (s : str) : bool :=
  match s with
  | [] => true
  | _ =>
      if memb c_nl s || memb c_tab s || memb c_cr s then true
      else if str_in s reserved then true
      else if match_variable s then false
      else if match_annotation s then false
      else if match_expression_with ops s then false
      else negb (match_identifier s)
  end.
(* the emitter as it is NOW (tables from the translator) *)
Definition needs_quotes := needs_quotes_with emitter_reserved emitter_unicode_ops.
(* the emitter the finding classes were established against (committed pins) *)
Definition needs_quotes_pinned := needs_quotes_with pinned_emitter_reserved pinned_emitter_unicode_ops.

Definition quote (s : str) : str := c_dq :: escape s ++ [c_dq].

(* emit_value on a str; `force` = key is in _ALWAYS_QUOTE_KEYS *)
Definition emit_str (force : bool) (s : str) : str :=
  if needs_quotes s || force then quote s else s.

Definition always_quote_key (k : str) : bool := str_in k emitter_always_quote_keys.

(* ---- finding-class clauses (C04) ------------------------------------------------------- *)
Definition s_true : str := [116;114;117;101].
Definition s_false : str := [102;97;108;115;101].
Definition s_null : str := [110;117;108;108].
Definition s_vs : str := [118;115].

(* a reserved word followed by '.' or '-' at the start of a segment: re-lexed as literal/operator + rest *)
Definition reserved_prefix (s : str) : bool :=
  existsb (fun w => prefixb w s &&
                    match skipn (length w) s with
                    | c :: _ => N.eqb c c_dot || N.eqb c c_dash
                    | [] => false
                    end) [s_true; s_false; s_null; s_vs].

(* Exactly the reserved word as a whole segment of an expression / annotation name *)
Definition reserved_word (s : str) : bool := str_in s [s_true; s_false; s_null; s_vs].

(* identifier-like segments of a BARE-emitted string: the annotation name, or the operator-separated parts *)
Definition bare_segments (s : str) : list str :=
  if match_annotation s then [takeb (fun c => negb (N.eqb c c_lt)) s] else split_ops pinned_emitter_unicode_ops s [].
Definition bare_reserved (s : str) : bool :=
  existsb (fun g => reserved_word g || reserved_prefix g) (bare_segments s).
(* NAME<> and NAME<A,B>: accepted bare by the emitter's ANNOTATION_PATTERN, rejected by the lexer *)
Definition annotation_bad (s : str) : bool :=
  match_annotation s &&
  (let q := skipn (S (length (takeb (fun c => negb (N.eqb c c_lt)) s))) s in
   match q with
   | [_] => true                        (* just ">" : empty qualifier *)
   | _ => memb c_comma q
   end).

(* 0 = no finding clause falsified; 3 reserved segment; 4 annotation qualifier.
   (class 1, escape-order, is gone: the reader un-escapes in one pass since /repo 4b61c18, see Escape.unescape_escape_all)
   Computed against the PINNED tables: a change of the tables must not move inputs into a known class. *)
Definition scalar_class (force : bool) (s : str) : N :=
  if needs_quotes_pinned s || force then 0
  else if bare_reserved s then 3
  else if annotation_bad s then 4
  else 0.

Lemma needs_quotes_is_pinned s : needs_quotes s = needs_quotes_pinned s.
Proof. unfold needs_quotes, needs_quotes_pinned. rewrite pin_emitter_reserved, pin_emitter_unicode_ops. reflexivity. Qed.
