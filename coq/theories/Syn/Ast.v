(* Neutral AST of octave_mcp.core.ast_nodes (positions and token slices erased). *)
From OV Require Import Base.Strs.
Open Scope N_scope.

Inductive value :=
| VNull
| VBool (b : bool)
| VNum (isfloat : bool) (canon : str)     (* canon = Python str(value): decimal int / repr(float) (oracle) *)
| VStr (s : str)
| VList (items : list value)
| VMap (pairs : list (str * value))       (* InlineMap.pairs: insertion-ordered dict *)
| VHolo (raw : str)
| VZone (content : str) (tag : option str) (marker : str)
| VAbsent.

Inductive node :=
| NAssign (key : str) (v : value) (leading : list str) (trailing : option str)
| NBlock (key : str) (target : option str) (children : list node) (leading : list str)
| NSection (id : str) (key : str) (annot : option str) (children : list node) (leading : list str)
| NComment (text : str).

(* META values: a value or one nested dict level *)
Inductive metaval :=
| MV (v : value)
| MD (pairs : list (str * value)).

Record doc := mkDoc {
  dname : str;
  dgrammar : option str;
  dfront : option str;
  dsep : bool;
  dmeta : list (str * metaval);
  dsections : list node;
  dtrailing : list str }.

(* Python dict assignment d[k] = v on an insertion-ordered association list *)
Fixpoint dict_set {A} (d : list (str * A)) (k : str) (v : A) : list (str * A) :=
  match d with
  | [] => [(k, v)]
  | (k', v') :: d' => if str_eqb k' k then (k', v) :: d' else (k', v') :: dict_set d' k v
  end.

Definition is_absent (v : value) : bool := match v with VAbsent => true | _ => false end.
