(* Faithful model of octave_mcp.core.emitter (default path: format_options=None). *)
From OV Require Import Base.Strs Gen.EmitterGen Syn.Escape Syn.Quote Syn.Ast.
Open Scope N_scope.

Definition ind (n : nat) : str := repeat c_sp (2 * n).
Definition s_null_lit : str := [110;117;108;108].
Definition s_true_lit : str := [116;114;117;101].
Definition s_false_lit : str := [102;97;108;115;101].
Definition s_assign : str := [c_colon; c_colon].
Definition s_comment_pre : str := [c_slash; c_slash; c_sp].
Definition s_lb : str := [c_lbr].
Definition s_rb : str := [c_rbr].
Definition s_empty_list : str := [c_lbr; c_rbr].

(* _needs_multiline *)
Definition map_has_present (pairs : list (str * value)) : bool := existsb (fun p => negb (is_absent (snd p))) pairs.
Definition ml_trigger (v : value) : bool :=
  match v with
  | VMap pairs => map_has_present pairs
  | VList _ => true
  | VStr s => match_annotation s
  | _ => false
  end.
Definition ml_counts (v : value) : bool :=
  match v with VAbsent => false | VMap _ => false | _ => true end.
Definition needs_multiline (items : list value) : bool :=
  existsb ml_trigger items || (emitter_multiline_threshold <=? N.of_nat (length (filter ml_counts items))).

Definition force_quote (key : str) (raw : value) (vstr : str) : str :=
  match raw with
  | VStr s => if always_quote_key key && negb (prefixb [c_dq] vstr) then quote s else vstr
  | _ => vstr
  end.

Fixpoint emit_value (v : value) (indent : nat) {struct v} : str :=
  match v with
  | VAbsent => [60;65;66;83;69;78;84;62]   (* emit_value raises ValueError; never reached from emit *)
  | VNull => s_null_lit
  | VBool b => if b then s_true_lit else s_false_lit
  | VNum _ c => c
  | VStr s => emit_str false s
  | VList items =>
      match items with
      | [] => s_empty_list
      | _ =>
          if needs_multiline items then
            let parts :=
              flat_map (fun it =>
                match it with
                | VAbsent => []
                | VMap pairs =>
                    let ps := flat_map (fun p => if is_absent (snd p) then []
                                                 else [fst p ++ s_assign ++ force_quote (fst p) (snd p) (emit_value (snd p) (S indent))]) pairs in
                    match ps with [] => [] | _ => [join [c_comma] ps] end
                | _ => [emit_value it (S indent)]
                end) items in
            match parts with
            | [] => s_empty_list
            | _ =>
                let n := length parts in
                let fix lines (ps : list str) (i : nat) : list str :=
                  match ps with
                  | [] => []
                  | p :: ps' => (ind (S indent) ++ p ++ (if Nat.ltb (S i) n then [c_comma] else [])) :: lines ps' (S i)
                  end in
                join [c_nl] (s_lb :: lines parts O ++ [ind indent ++ s_rb])
            end
          else
            let parts :=
              flat_map (fun it =>
                match it with
                | VAbsent => []
                | VMap pairs => if map_has_present pairs then [emit_value it indent] else []
                | _ => [emit_value it indent]
                end) items in
            s_lb ++ join [c_comma] parts ++ s_rb
      end
  | VMap pairs =>
      let ps := flat_map (fun p => if is_absent (snd p) then []
                                   else [fst p ++ s_assign ++ force_quote (fst p) (snd p) (emit_value (snd p) indent)]) pairs in
      s_lb ++ join [c_comma] ps ++ s_rb
  | VHolo raw => raw
  | VZone content tag marker =>
      marker ++ (match tag with Some t => t | None => [] end) ++ [c_nl] ++ content ++
      (match content with
       | [] => []
       | _ => if match rev content with c :: _ => N.eqb c c_nl | [] => false end then [] else [c_nl]
       end) ++ marker
  end.

Definition tag_str (tag : option str) : str := match tag with Some t => t | None => [] end.
(* info_tag truthiness: `if lzv.info_tag:` -- an empty tag is falsy *)

(* an empty comment is a bare `//` (no trailing blank) since /repo 3fa2dc1 *)
Definition comment_line (c : str) : str := match c with [] => [c_slash; c_slash] | _ => s_comment_pre ++ c end.
Definition emit_leading (comments : list str) (indent : nat) : list str :=
  map (fun c => ind indent ++ comment_line c) comments.

Definition emit_trailing (c : option str) : str :=
  match c with
  | Some (x :: r) => c_sp :: s_comment_pre ++ (x :: r)
  | _ => []
  end.

Definition zone_lines (indent : nat) (content : str) (tag : option str) (marker : str) : list str :=
  [ind indent ++ marker ++ tag_str tag] ++ (match content with [] => [] | _ => [content] end) ++ [ind indent ++ marker].

Definition emit_assignment_lines (key : str) (v : value) (leading : list str) (trailing : option str) (indent : nat) : list str :=
  emit_leading leading indent ++
  match v with
  | VZone content tag marker => (ind indent ++ key ++ s_assign) :: zone_lines indent content tag marker
  | _ => [ind indent ++ key ++ s_assign ++ force_quote key v (emit_value v indent) ++ emit_trailing trailing]
  end.

Definition truthy (o : option str) : option str := match o with Some (x :: r) => Some (x :: r) | _ => None end.

Fixpoint emit_node_lines (n : node) (indent : nat) {struct n} : list str :=
  match n with
  | NAssign key v leading trailing =>
      if is_absent v then [] else emit_assignment_lines key v leading trailing indent
  | NComment text => [ind indent ++ comment_line text]
  | NBlock key target children leading =>
      emit_leading leading indent ++
      [ind indent ++ key ++ (match truthy target with Some t => [c_lbr; 8594; 167] ++ t ++ [c_rbr] | None => [] end) ++ [c_colon]] ++
      flat_map (fun ch =>
        match ch with
        | NAssign [] (VZone content tag marker) _ _ => zone_lines (S indent) content tag marker
        | _ => emit_node_lines ch (S indent)
        end) children
  | NSection id key annot children leading =>
      emit_leading leading indent ++
      [ind indent ++ [167] ++ id ++ s_assign ++ key ++ (match truthy annot with Some a => [c_lbr] ++ a ++ [c_rbr] | None => [] end)] ++
      flat_map (fun ch => emit_node_lines ch (S indent)) children
  end.

Definition emit_meta_lines (meta : list (str * metaval)) : list str :=
  flat_map (fun kv =>
    match snd kv with
    | MV v => if is_absent v then [] else [ind 1 ++ fst kv ++ s_assign ++ emit_value v 1]
    | MD pairs =>
        (ind 1 ++ fst kv ++ [c_colon]) ::
        flat_map (fun p => if is_absent (snd p) then [] else [ind 2 ++ fst p ++ s_assign ++ emit_value (snd p) 2]) pairs
    end) meta.

Definition s_meta_hdr : str := [77;69;84;65;58].
Definition s_sep : str := [45;45;45].
Definition s_env : str := [61;61;61].
Definition s_end : str := [61;61;61;69;78;68;61;61;61].
Definition s_octave : str := [79;67;84;65;86;69;58;58].

(* `sp` = str.isspace, used only for `raw_frontmatter.strip()` *)
Definition emit_lines (sp : N -> bool) (d : doc) : list str :=
  (match dfront d with
   | Some f => if forallb sp f then [] else [s_sep; f; s_sep; []]
   | None => []
   end) ++
  (match truthy (dgrammar d) with Some g => [s_octave ++ g] | None => [] end) ++
  [s_env ++ dname d ++ s_env] ++
  (match dmeta d with
   | [] => []
   | m => match emit_meta_lines m with
          | [] => []                        (* emit_meta returned "": nothing is appended (since /repo: META fix) *)
          | ls => s_meta_hdr :: ls
          end
   end) ++
  (if dsep d then [s_sep] else []) ++
  flat_map (fun n => match n with NComment _ => [] | _ => emit_node_lines n 0 end) (dsections d) ++
  emit_leading (dtrailing d) 0 ++
  [s_end].

Definition emit (sp : N -> bool) (d : doc) : str := join [c_nl] (emit_lines sp d) ++ [c_nl].
