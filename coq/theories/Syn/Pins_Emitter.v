(* PINS: the text/tables of /repo the hand-written model was written against. Generated once by harness/mkpins.py
   from EmitterGen.v; committed. A source change that alters one of these breaks the pin (a proof obligation). *)
From OV Require Import Gen.EmitterGen.
From Coq Require Import List NArith.
Import ListNotations.
Open Scope N_scope.

Definition pinned_emitter_identifier_pattern : list N :=
  [94; 91; 65; 45; 90; 97; 45; 122; 95; 93; 91; 65; 45; 90; 97; 45; 122; 48; 45; 57; 95; 46; 92; 45; 93; 42; 40; 63; 60; 33; 45; 41; 92; 90]%N.
Lemma pin_emitter_identifier_pattern : emitter_identifier_pattern = pinned_emitter_identifier_pattern.
Proof. reflexivity. Qed.

Definition pinned_emitter_annotation_pattern : list N :=
  [94; 91; 65; 45; 90; 97; 45; 122; 95; 93; 91; 65; 45; 90; 97; 45; 122; 48; 45; 57; 95; 46; 92; 45; 93; 42; 40; 63; 60; 33; 45; 41; 60; 40; 91; 65; 45; 90; 97; 45; 122; 95; 93; 40; 91; 65; 45; 90; 97; 45; 122; 48; 45; 57; 95; 44; 93; 42; 91; 65; 45; 90; 97; 45; 122; 48; 45; 57; 95; 93; 41; 63; 41; 63; 62; 92; 90]%N.
Lemma pin_emitter_annotation_pattern : emitter_annotation_pattern = pinned_emitter_annotation_pattern.
Proof. reflexivity. Qed.

Definition pinned_emitter_variable_pattern : list N :=
  [94; 92; 36; 91; 65; 45; 90; 97; 45; 122; 48; 45; 57; 95; 58; 93; 43; 92; 90]%N.
Lemma pin_emitter_variable_pattern : emitter_variable_pattern = pinned_emitter_variable_pattern.
Proof. reflexivity. Qed.

Definition pinned_emitter_expression_pattern : list N :=
  [94; 91; 65; 45; 90; 97; 45; 122; 95; 93; 91; 65; 45; 90; 97; 45; 122; 48; 45; 57; 95; 46; 92; 45; 93; 42; 40; 63; 60; 33; 45; 41; 40; 91; 8853; 10746; 8652; 8743; 8744; 8594; 64; 93; 91; 65; 45; 90; 97; 45; 122; 95; 93; 91; 65; 45; 90; 97; 45; 122; 48; 45; 57; 95; 46; 92; 45; 93; 42; 40; 63; 60; 33; 45; 41; 41; 43; 92; 90]%N.
Lemma pin_emitter_expression_pattern : emitter_expression_pattern = pinned_emitter_expression_pattern.
Proof. reflexivity. Qed.

Definition pinned_emitter_unicode_ops : list N :=
  [8853; 10746; 8652; 8743; 8744; 8594; 64]%N.
Lemma pin_emitter_unicode_ops : emitter_unicode_ops = pinned_emitter_unicode_ops.
Proof. reflexivity. Qed.

Definition pinned_emitter_reserved : list (list N) :=
  [[116; 114; 117; 101]%N;
   [102; 97; 108; 115; 101]%N;
   [110; 117; 108; 108]%N;
   [118; 115]%N].
Lemma pin_emitter_reserved : emitter_reserved = pinned_emitter_reserved.
Proof. reflexivity. Qed.

Definition pinned_emitter_always_quote_keys : list (list N) :=
  [[80; 65; 84; 84; 69; 82; 78]%N;
   [82; 69; 71; 69; 88]%N].
Lemma pin_emitter_always_quote_keys : emitter_always_quote_keys = pinned_emitter_always_quote_keys.
Proof. reflexivity. Qed.

Definition pinned_emitter_multiline_threshold : N :=
  3.
Lemma pin_emitter_multiline_threshold : emitter_multiline_threshold = pinned_emitter_multiline_threshold.
Proof. reflexivity. Qed.

Definition pinned_emitter_needs_quotes_guards : list (list N * list N) :=
  [([110; 111; 116; 32; 105; 115; 105; 110; 115; 116; 97; 110; 99; 101; 40; 118; 97; 108; 117; 101; 44; 32; 115; 116; 114; 41]%N, [70; 97; 108; 115; 101]%N);
   ([110; 111; 116; 32; 118; 97; 108; 117; 101]%N, [84; 114; 117; 101]%N);
   ([39; 92; 110; 39; 32; 105; 110; 32; 118; 97; 108; 117; 101; 32; 111; 114; 32; 39; 92; 116; 39; 32; 105; 110; 32; 118; 97; 108; 117; 101; 32; 111; 114; 32; 39; 92; 114; 39; 32; 105; 110; 32; 118; 97; 108; 117; 101]%N, [84; 114; 117; 101]%N);
   ([118; 97; 108; 117; 101; 32; 105; 110; 32; 40; 39; 116; 114; 117; 101; 39; 44; 32; 39; 102; 97; 108; 115; 101; 39; 44; 32; 39; 110; 117; 108; 108; 39; 44; 32; 39; 118; 115; 39; 41]%N, [84; 114; 117; 101]%N);
   ([86; 65; 82; 73; 65; 66; 76; 69; 95; 80; 65; 84; 84; 69; 82; 78; 46; 109; 97; 116; 99; 104; 40; 118; 97; 108; 117; 101; 41]%N, [70; 97; 108; 115; 101]%N);
   ([65; 78; 78; 79; 84; 65; 84; 73; 79; 78; 95; 80; 65; 84; 84; 69; 82; 78; 46; 109; 97; 116; 99; 104; 40; 118; 97; 108; 117; 101; 41]%N, [70; 97; 108; 115; 101]%N);
   ([69; 88; 80; 82; 69; 83; 83; 73; 79; 78; 95; 80; 65; 84; 84; 69; 82; 78; 46; 109; 97; 116; 99; 104; 40; 118; 97; 108; 117; 101; 41]%N, [70; 97; 108; 115; 101]%N);
   ([110; 111; 116; 32; 73; 68; 69; 78; 84; 73; 70; 73; 69; 82; 95; 80; 65; 84; 84; 69; 82; 78; 46; 109; 97; 116; 99; 104; 40; 118; 97; 108; 117; 101; 41]%N, [84; 114; 117; 101]%N);
   ([60; 101; 108; 115; 101; 62]%N, [70; 97; 108; 115; 101]%N)].
Lemma pin_emitter_needs_quotes_guards : emitter_needs_quotes_guards = pinned_emitter_needs_quotes_guards.
Proof. reflexivity. Qed.
