(* Escape on write (emitter.py) and un-escape on read (lexer.py STRING branch).
   The emitter's escape is the SEQUENTIAL str.replace chain of the source (Gen/EmitterGen.v); the lexer's un-escape is
   ONE left-to-right regex substitution over the map _UNESCAPE_MAP (Gen/LexerGen.v) since /repo 4b61c18 -- before that
   it was four sequential replaces, which turned backslash+n into a newline (the former finding C04-escape-order). *)
From OV Require Import Base.Strs Gen.EmitterGen Gen.LexerGen.
Open Scope N_scope.

(* Python str.replace(old,new) for |old| = 1 *)
Definition replace1 (a : N) (new : str) (s : str) : str :=
  flat_map (fun x => if N.eqb x a then new else [x]) s.

(* Python str.replace(old,new) for |old| = 2, |new| = 1: leftmost, non-overlapping *)
Fixpoint replace2 (a b c : N) (s : str) : str :=
  match s with
  | x :: s' =>
      match s' with
      | y :: s'' => if N.eqb x a && N.eqb y b then c :: replace2 a b c s'' else x :: replace2 a b c s'
      | [] => [x]
      end
  | [] => []
  end.

(* generic application of a translator-extracted chain; None = a shape the model does not cover *)
Definition apply_replace (p : str * str) (s : str) : option str :=
  match p with
  | ([a], new) => Some (replace1 a new s)
  | ([a; b], [c]) => Some (replace2 a b c s)
  | _ => None
  end.

Fixpoint apply_chain (ch : list (str * str)) (s : str) : option str :=
  match ch with
  | [] => Some s
  | p :: ch' => match apply_replace p s with Some s' => apply_chain ch' s' | None => None end
  end.

(* the emitter's chain: taken from the emit_value site; all sites must agree (escape_sites_agree) *)
Definition emit_value_chain : list (str * str) :=
  match find (fun e => str_eqb (fst e) [101;109;105;116;95;118;97;108;117;101]) emitter_escape_sites with
  | Some e => snd e
  | None => []
  end.

Definition escape_opt (s : str) : option str := apply_chain emit_value_chain s.
(* re.sub(PATTERN, lambda m: MAP[m.group(1)], s) with PATTERN = backslash followed by one of the map keys:
   leftmost non-overlapping matches, one pass *)
Fixpoint assoc_n (k : N) (m : list (N * N)) : option N :=
  match m with [] => None | (a, b) :: r => if N.eqb a k then Some b else assoc_n k r end.
Fixpoint unescape1 (m : list (N * N)) (s : str) : str :=
  match s with
  | x :: s' =>
      match s' with
      | y :: s'' =>
          if N.eqb x c_bs then
            match assoc_n y m with Some c => c :: unescape1 m s'' | None => x :: unescape1 m s' end
          else x :: unescape1 m s'
      | [] => [x]
      end
  | [] => []
  end.
(* None = the generated pattern is not the one the scanner above transcribes *)
Definition unescape_pattern_known : bool := str_eqb lexer_unescape_pattern [92;92;40;91;34;92;92;110;116;93;41].
Definition unescape_opt (s : str) : option str :=
  if unescape_pattern_known then Some (unescape1 lexer_unescape_map s) else None.

(* closed forms the proofs are about *)
Definition esc_chr (c : N) : str :=
  if N.eqb c c_bs then [c_bs; c_bs]
  else if N.eqb c c_dq then [c_bs; c_dq]
  else if N.eqb c c_nl then [c_bs; c_n]
  else if N.eqb c c_tab then [c_bs; c_t]
  else [c].
Definition escape (s : str) : str := flat_map esc_chr s.

Definition unescape_map : list (N * N) := [(c_dq, c_dq); (c_bs, c_bs); (c_n, c_nl); (c_t, c_tab)].
Definition unescape (s : str) : str := unescape1 unescape_map s.

(* ---- the generated chains are the ones the closed forms describe ---------------- *)
Definition pair_eqb (p q : str * str) : bool := str_eqb (fst p) (fst q) && str_eqb (snd p) (snd q).
Fixpoint chain_eqb (a b : list (str * str)) : bool :=
  match a, b with
  | [], [] => true
  | p :: a', q :: b' => pair_eqb p q && chain_eqb a' b'
  | _, _ => false
  end.

(* every escape site of emitter.py uses the same chain as emit_value *)
Lemma escape_sites_agree :
  forallb (fun e => chain_eqb (snd e) emit_value_chain) emitter_escape_sites = true.
Proof. vm_compute. reflexivity. Qed.

Lemma emit_chain_pin :
  emit_value_chain = [([c_bs], [c_bs; c_bs]); ([c_dq], [c_bs; c_dq]); ([c_nl], [c_bs; c_n]); ([c_tab], [c_bs; c_t])].
Proof. vm_compute. reflexivity. Qed.

Lemma lexer_map_pin : lexer_unescape_map = unescape_map /\ unescape_pattern_known = true.
Proof. vm_compute. split; reflexivity. Qed.

Lemma replace1_app a new u v : replace1 a new (u ++ v) = replace1 a new u ++ replace1 a new v.
Proof. unfold replace1. apply flat_map_app. Qed.

Definition chain4 (s : str) : str :=
  replace1 c_tab [c_bs; c_t] (replace1 c_nl [c_bs; c_n] (replace1 c_dq [c_bs; c_dq] (replace1 c_bs [c_bs; c_bs] s))).

Lemma chain4_app u v : chain4 (u ++ v) = chain4 u ++ chain4 v.
Proof. unfold chain4. rewrite !replace1_app. reflexivity. Qed.

Lemma chain4_single c : chain4 [c] = esc_chr c.
Proof.
  unfold chain4, esc_chr.
  destruct (N.eqb_spec c c_bs) as [->|H1]; [vm_compute; reflexivity|].
  destruct (N.eqb_spec c c_dq) as [->|H2]; [vm_compute; reflexivity|].
  destruct (N.eqb_spec c c_nl) as [->|H3]; [vm_compute; reflexivity|].
  destruct (N.eqb_spec c c_tab) as [->|H4]; [vm_compute; reflexivity|].
  unfold replace1. cbn [flat_map app].
  rewrite (proj2 (N.eqb_neq _ _) H1). cbn [flat_map app].
  rewrite (proj2 (N.eqb_neq _ _) H2). cbn [flat_map app].
  rewrite (proj2 (N.eqb_neq _ _) H3). cbn [flat_map app].
  rewrite (proj2 (N.eqb_neq _ _) H4). reflexivity.
Qed.

Lemma chain4_escape s : chain4 s = escape s.
Proof.
  induction s as [|c s IH]; [reflexivity|].
  change (c :: s) with ([c] ++ s). rewrite chain4_app, chain4_single, IH. reflexivity.
Qed.

(* the translator-driven escape IS the closed form, for every string *)
Theorem escape_opt_spec s : escape_opt s = Some (escape s).
Proof. unfold escape_opt. rewrite emit_chain_pin. cbn [apply_chain apply_replace]. rewrite <- chain4_escape. reflexivity. Qed.

Theorem unescape_opt_spec s : unescape_opt s = Some (unescape s).
Proof. unfold unescape_opt, unescape. destruct lexer_map_pin as [-> ->]. reflexivity. Qed.

(* ---- helpers about the escape letters (used by the Rt files) ------------------------------------------------ *)
Definition hd_ne (b : N) (s : str) : Prop := match s with [] => True | y :: _ => y <> b end.

Ltac cases c H1 H2 H3 H4 :=
  destruct (N.eqb_spec c c_bs) as [->|H1]; [|destruct (N.eqb_spec c c_dq) as [->|H2];
    [|destruct (N.eqb_spec c c_nl) as [->|H3]; [|destruct (N.eqb_spec c c_tab) as [->|H4]]]].

Lemma esc_other c : c <> c_bs -> c <> c_dq -> c <> c_nl -> c <> c_tab -> esc_chr c = [c].
Proof.
  intros. unfold esc_chr.
  repeat match goal with H : ?x <> ?y |- _ => rewrite (proj2 (N.eqb_neq x y) H); clear H end. reflexivity.
Qed.

Lemma hd_esc s : hd_ne c_dq (flat_map esc_chr s).
Proof.
  destruct s as [|d s]; cbn [flat_map]; [exact I|].
  cases d H1 H2 H3 H4; try (cbn; discriminate).
  rewrite esc_other by assumption. cbn. assumption.
Qed.

Lemma escape_no_nl s : memb c_nl (escape s) = false.
Proof.
  induction s as [|c s IH]; [reflexivity|]. unfold escape in *. cbn [flat_map].
  unfold memb in *. rewrite existsb_app, IH, orb_false_r.
  cases c H1 H2 H3 H4; try reflexivity.
  rewrite esc_other by assumption. cbn [existsb]. rewrite orb_false_r. apply N.eqb_neq. congruence.
Qed.

(* ---- un-escape inverts escape, for EVERY string ------------------------------------------------- *)
Lemma unescape1_esc c s : unescape (esc_chr c ++ s) = c :: unescape s.
Proof.
  unfold unescape, esc_chr.
  destruct (N.eqb_spec c c_bs) as [->|Hbs]; [reflexivity|].
  destruct (N.eqb_spec c c_dq) as [->|Hdq]; [reflexivity|].
  destruct (N.eqb_spec c c_nl) as [->|Hnl]; [reflexivity|].
  destruct (N.eqb_spec c c_tab) as [->|Htab]; [reflexivity|].
  cbn [app]. destruct s as [|y s'']; cbn [unescape1]; [reflexivity|].
  rewrite (proj2 (N.eqb_neq _ _) Hbs). reflexivity.
Qed.

Theorem unescape_escape_all s : unescape (escape s) = s.
Proof.
  induction s as [|c s IH]; [reflexivity|].
  unfold escape. cbn [flat_map]. fold (escape s). rewrite unescape1_esc, IH. reflexivity.
Qed.

(* kept for the developments written against the four-replace reader, where this side condition was necessary
   (no backslash directly before n or t); it is no longer needed *)
Fixpoint no_bs_before (b : N) (s : str) : bool :=
  match s with
  | x :: s' => (match s' with y :: _ => negb (N.eqb x c_bs && N.eqb y b) | [] => true end) && no_bs_before b s'
  | [] => true
  end.
Definition escape_safe (s : str) : bool := no_bs_before c_n s && no_bs_before c_t s.
Theorem unescape_escape s : escape_safe s = true -> unescape (escape s) = s.
Proof. intros _. apply unescape_escape_all. Qed.

(* regression: the strings the four-replace reader got wrong *)
Example unescape_escape_bs_n : unescape (escape [c_bs; c_n]) = [c_bs; c_n] /\ unescape (escape [c_bs; c_t]) = [c_bs; c_t].
Proof. split; apply unescape_escape_all. Qed.
(* the sequential reader, for the record: it maps the escaped form of backslash+n to a newline *)
Definition unescape_sequential (s : str) : str :=
  replace2 c_bs c_t c_tab (replace2 c_bs c_n c_nl (replace2 c_bs c_bs c_bs (replace2 c_bs c_dq c_dq s))).
Example sequential_reader_was_wrong : unescape_sequential (escape [c_bs; c_n]) = [c_nl].
Proof. vm_compute. reflexivity. Qed.

Example escape_safe_example : escape_safe [c_bs; c_bs; c_dq; c_nl; c_tab; 97; c_bs; c_dq; c_bs] = true.
Proof. vm_compute. reflexivity. Qed.

