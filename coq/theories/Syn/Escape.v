(* Escape on write (emitter.py) and un-escape on read (lexer.py STRING branch).
   Both are transcribed as the SEQUENTIAL str.replace chains of the source; the chains
   themselves come from the translator (Gen/EmitterGen.v, Gen/LexerGen.v). *)
From OV Require Import Base.Strs Gen.EmitterGen Gen.LexerGen.
Open Scope N_scope.

(* Python str.replace(old,new) for |old| = 1 *)
Definition replace1 (a : N) (new : str) (s : str) : str :=
  flat_map (fun x => if N.eqb x a then new else [x]) s.

(* Python str.replace(old,new) for |old| = 2, |new| = 1: leftmost, non-overlapping *)
Fixpoint replace2 (a b c : N) (s : str) : str :=
  match s with
  | x :: s' =>
      match s' with
      | y :: s'' => if N.eqb x a && N.eqb y b then c :: replace2 a b c s'' else x :: replace2 a b c s'
      | [] => [x]
      end
  | [] => []
  end.

(* generic application of a translator-extracted chain; None = a shape the model does not cover *)
Definition apply_replace (p : str * str) (s : str) : option str :=
  match p with
  | ([a], new) => Some (replace1 a new s)
  | ([a; b], [c]) => Some (replace2 a b c s)
  | _ => None
  end.

Fixpoint apply_chain (ch : list (str * str)) (s : str) : option str :=
  match ch with
  | [] => Some s
  | p :: ch' => match apply_replace p s with Some s' => apply_chain ch' s' | None => None end
  end.

(* the emitter's chain: taken from the emit_value site; all sites must agree (escape_sites_agree) *)
Definition emit_value_chain : list (str * str) :=
  match find (fun e => str_eqb (fst e) [101;109;105;116;95;118;97;108;117;101]) emitter_escape_sites with
  | Some e => snd e
  | None => []
  end.

Definition escape_opt (s : str) : option str := apply_chain emit_value_chain s.
Definition unescape_opt (s : str) : option str := apply_chain lexer_unescape_chain s.

(* closed forms the proofs are about *)
Definition esc_chr (c : N) : str :=
  if N.eqb c c_bs then [c_bs; c_bs]
  else if N.eqb c c_dq then [c_bs; c_dq]
  else if N.eqb c c_nl then [c_bs; c_n]
  else if N.eqb c c_tab then [c_bs; c_t]
  else [c].
Definition escape (s : str) : str := flat_map esc_chr s.

Definition unescape (s : str) : str :=
  replace2 c_bs c_t c_tab (replace2 c_bs c_n c_nl (replace2 c_bs c_bs c_bs (replace2 c_bs c_dq c_dq s))).

(* ---- the generated chains are the ones the closed forms describe ---------------- *)
Definition pair_eqb (p q : str * str) : bool := str_eqb (fst p) (fst q) && str_eqb (snd p) (snd q).
Fixpoint chain_eqb (a b : list (str * str)) : bool :=
  match a, b with
  | [], [] => true
  | p :: a', q :: b' => pair_eqb p q && chain_eqb a' b'
  | _, _ => false
  end.

(* every escape site of emitter.py uses the same chain as emit_value *)
Lemma escape_sites_agree :
  forallb (fun e => chain_eqb (snd e) emit_value_chain) emitter_escape_sites = true.
Proof. vm_compute. reflexivity. Qed.

Lemma emit_chain_pin :
  emit_value_chain = [([c_bs], [c_bs; c_bs]); ([c_dq], [c_bs; c_dq]); ([c_nl], [c_bs; c_n]); ([c_tab], [c_bs; c_t])].
Proof. vm_compute. reflexivity. Qed.

Lemma lexer_chain_pin :
  lexer_unescape_chain = [([c_bs; c_dq], [c_dq]); ([c_bs; c_bs], [c_bs]); ([c_bs; c_n], [c_nl]); ([c_bs; c_t], [c_tab])].
Proof. vm_compute. reflexivity. Qed.

Lemma replace1_app a new u v : replace1 a new (u ++ v) = replace1 a new u ++ replace1 a new v.
Proof. unfold replace1. apply flat_map_app. Qed.

Definition chain4 (s : str) : str :=
  replace1 c_tab [c_bs; c_t] (replace1 c_nl [c_bs; c_n] (replace1 c_dq [c_bs; c_dq] (replace1 c_bs [c_bs; c_bs] s))).

Lemma chain4_app u v : chain4 (u ++ v) = chain4 u ++ chain4 v.
Proof. unfold chain4. rewrite !replace1_app. reflexivity. Qed.

Lemma chain4_single c : chain4 [c] = esc_chr c.
Proof.
  unfold chain4, esc_chr.
  destruct (N.eqb_spec c c_bs) as [->|H1]; [vm_compute; reflexivity|].
  destruct (N.eqb_spec c c_dq) as [->|H2]; [vm_compute; reflexivity|].
  destruct (N.eqb_spec c c_nl) as [->|H3]; [vm_compute; reflexivity|].
  destruct (N.eqb_spec c c_tab) as [->|H4]; [vm_compute; reflexivity|].
  unfold replace1. cbn [flat_map app].
  rewrite (proj2 (N.eqb_neq _ _) H1). cbn [flat_map app].
  rewrite (proj2 (N.eqb_neq _ _) H2). cbn [flat_map app].
  rewrite (proj2 (N.eqb_neq _ _) H3). cbn [flat_map app].
  rewrite (proj2 (N.eqb_neq _ _) H4). reflexivity.
Qed.

Lemma chain4_escape s : chain4 s = escape s.
Proof.
  induction s as [|c s IH]; [reflexivity|].
  change (c :: s) with ([c] ++ s). rewrite chain4_app, chain4_single, IH. reflexivity.
Qed.

(* the translator-driven escape IS the closed form, for every string *)
Theorem escape_opt_spec s : escape_opt s = Some (escape s).
Proof. unfold escape_opt. rewrite emit_chain_pin. cbn [apply_chain apply_replace]. rewrite <- chain4_escape. reflexivity. Qed.

Theorem unescape_opt_spec s : unescape_opt s = Some (unescape s).
Proof. unfold unescape_opt. rewrite lexer_chain_pin. reflexivity. Qed.

(* ---- replace2 step lemmas -------------------------------------------------------- *)
Definition hd_ne (b : N) (s : str) : Prop := match s with [] => True | y :: _ => y <> b end.

Lemma replace2_ne a b c x s : x <> a -> replace2 a b c (x :: s) = x :: replace2 a b c s.
Proof.
  intro H. destruct s as [|y s]; cbn [replace2]; [reflexivity|].
  rewrite (proj2 (N.eqb_neq _ _) H). reflexivity.
Qed.

Lemma replace2_skip a b c s : hd_ne b s -> replace2 a b c (a :: s) = a :: replace2 a b c s.
Proof.
  intro H. destruct s as [|y s]; cbn [replace2]; [reflexivity|].
  cbn in H. rewrite (proj2 (N.eqb_neq _ _) H), andb_false_r. reflexivity.
Qed.

Lemma replace2_hit a b c s : replace2 a b c (a :: b :: s) = c :: replace2 a b c s.
Proof. cbn [replace2]. rewrite !N.eqb_refl. reflexivity. Qed.

(* intermediate encodings *)
Definition e1 (c : N) : str :=
  if N.eqb c c_bs then [c_bs; c_bs] else if N.eqb c c_nl then [c_bs; c_n] else if N.eqb c c_tab then [c_bs; c_t] else [c].
Definition e2 (c : N) : str :=
  if N.eqb c c_nl then [c_bs; c_n] else if N.eqb c c_tab then [c_bs; c_t] else [c].
Definition e3 (c : N) : str := if N.eqb c c_tab then [c_bs; c_t] else [c].

Ltac cases c H1 H2 H3 H4 :=
  destruct (N.eqb_spec c c_bs) as [->|H1]; [|destruct (N.eqb_spec c c_dq) as [->|H2];
    [|destruct (N.eqb_spec c c_nl) as [->|H3]; [|destruct (N.eqb_spec c c_tab) as [->|H4]]]].

Ltac other :=
  unfold esc_chr, e1, e2, e3;
  repeat match goal with H : ?x <> ?y |- _ => rewrite (proj2 (N.eqb_neq x y) H); clear H end; reflexivity.

Lemma esc_other c : c <> c_bs -> c <> c_dq -> c <> c_nl -> c <> c_tab -> esc_chr c = [c].
Proof. intros. other. Qed.
Lemma e1_other c : c <> c_bs -> c <> c_nl -> c <> c_tab -> e1 c = [c].
Proof. intros. other. Qed.
Lemma e2_other c : c <> c_nl -> c <> c_tab -> e2 c = [c].
Proof. intros. other. Qed.
Lemma e3_other c : c <> c_tab -> e3 c = [c].
Proof. intros. other. Qed.

Lemma hd_esc s : hd_ne c_dq (flat_map esc_chr s).
Proof.
  destruct s as [|d s]; cbn [flat_map]; [exact I|].
  cases d H1 H2 H3 H4; try (cbn; discriminate).
  rewrite esc_other by assumption. cbn. assumption.
Qed.

Lemma step1 s : replace2 c_bs c_dq c_dq (flat_map esc_chr s) = flat_map e1 s.
Proof.
  induction s as [|c s IH]; [reflexivity|]. cbn [flat_map].
  cases c H1 H2 H3 H4.
  - change (esc_chr c_bs) with [c_bs; c_bs]. change (e1 c_bs) with [c_bs; c_bs]. cbn [app].
    rewrite replace2_skip by (cbn; discriminate).
    rewrite replace2_skip by apply hd_esc. rewrite IH. reflexivity.
  - change (esc_chr c_dq) with [c_bs; c_dq]. change (e1 c_dq) with [c_dq]. cbn [app].
    rewrite replace2_hit, IH. reflexivity.
  - change (esc_chr c_nl) with [c_bs; c_n]. change (e1 c_nl) with [c_bs; c_n]. cbn [app].
    rewrite replace2_skip by (cbn; discriminate). rewrite replace2_ne by discriminate. rewrite IH. reflexivity.
  - change (esc_chr c_tab) with [c_bs; c_t]. change (e1 c_tab) with [c_bs; c_t]. cbn [app].
    rewrite replace2_skip by (cbn; discriminate). rewrite replace2_ne by discriminate. rewrite IH. reflexivity.
  - rewrite esc_other, e1_other by assumption. cbn [app].
    rewrite replace2_ne by assumption. rewrite IH. reflexivity.
Qed.

Lemma step2 s : replace2 c_bs c_bs c_bs (flat_map e1 s) = flat_map e2 s.
Proof.
  induction s as [|c s IH]; [reflexivity|]. cbn [flat_map].
  destruct (N.eqb_spec c c_bs) as [->|H1]; [|destruct (N.eqb_spec c c_nl) as [->|H3]; [|destruct (N.eqb_spec c c_tab) as [->|H4]]].
  - change (e1 c_bs) with [c_bs; c_bs]. change (e2 c_bs) with [c_bs]. cbn [app].
    rewrite replace2_hit, IH. reflexivity.
  - change (e1 c_nl) with [c_bs; c_n]. change (e2 c_nl) with [c_bs; c_n]. cbn [app].
    rewrite replace2_skip by (cbn; discriminate). rewrite replace2_ne by discriminate. rewrite IH. reflexivity.
  - change (e1 c_tab) with [c_bs; c_t]. change (e2 c_tab) with [c_bs; c_t]. cbn [app].
    rewrite replace2_skip by (cbn; discriminate). rewrite replace2_ne by discriminate. rewrite IH. reflexivity.
  - rewrite e1_other, e2_other by assumption. cbn [app].
    rewrite replace2_ne by assumption. rewrite IH. reflexivity.
Qed.

(* the defect class of the sequential un-escape: a backslash directly before `b` *)
Fixpoint no_bs_before (b : N) (s : str) : bool :=
  match s with
  | x :: s' => match s' with
               | y :: _ => negb (N.eqb x c_bs && N.eqb y b) && no_bs_before b s'
               | [] => true
               end
  | [] => true
  end.

Lemma no_bs_before_tl b x s : no_bs_before b (x :: s) = true -> no_bs_before b s = true.
Proof. destruct s as [|y s]; cbn [no_bs_before]; [reflexivity|]. intro H. apply andb_true_iff in H. tauto. Qed.

Lemma hd_e2 s : no_bs_before c_n (c_bs :: s) = true -> hd_ne c_n (flat_map e2 s).
Proof.
  destruct s as [|d s]; cbn [flat_map]; [intros; exact I|]. intro H.
  cbn [no_bs_before] in H. apply andb_true_iff in H as [H _].
  change (N.eqb c_bs c_bs) with true in H. cbn [andb] in H. apply negb_true_iff, N.eqb_neq in H.
  destruct (N.eqb_spec d c_nl) as [->|H3]; [cbn; discriminate|].
  destruct (N.eqb_spec d c_tab) as [->|H4]; [cbn; discriminate|].
  rewrite e2_other by assumption. cbn. assumption.
Qed.

Lemma step3 s : no_bs_before c_n s = true -> replace2 c_bs c_n c_nl (flat_map e2 s) = flat_map e3 s.
Proof.
  induction s as [|c s IH]; [reflexivity|]. intro H. pose proof (no_bs_before_tl _ _ _ H) as Ht.
  cbn [flat_map].
  destruct (N.eqb_spec c c_nl) as [->|H3]; [|destruct (N.eqb_spec c c_tab) as [->|H4]].
  - change (e2 c_nl) with [c_bs; c_n]. change (e3 c_nl) with [c_nl]. cbn [app].
    rewrite replace2_hit, IH by assumption. reflexivity.
  - change (e2 c_tab) with [c_bs; c_t]. change (e3 c_tab) with [c_bs; c_t]. cbn [app].
    rewrite replace2_skip by (cbn; discriminate). rewrite replace2_ne by discriminate.
    rewrite IH by assumption. reflexivity.
  - rewrite e2_other, e3_other by assumption. cbn [app].
    destruct (N.eqb_spec c c_bs) as [->|H1].
    + rewrite replace2_skip by (apply hd_e2; exact H). rewrite IH by assumption. reflexivity.
    + rewrite replace2_ne by assumption. rewrite IH by assumption. reflexivity.
Qed.

Lemma hd_e3 s : no_bs_before c_t (c_bs :: s) = true -> hd_ne c_t (flat_map e3 s).
Proof.
  destruct s as [|d s]; cbn [flat_map]; [intros; exact I|]. intro H.
  cbn [no_bs_before] in H. apply andb_true_iff in H as [H _].
  change (N.eqb c_bs c_bs) with true in H. cbn [andb] in H. apply negb_true_iff, N.eqb_neq in H.
  destruct (N.eqb_spec d c_tab) as [->|H4]; [cbn; discriminate|].
  rewrite e3_other by assumption. cbn. assumption.
Qed.

Lemma step4 s : no_bs_before c_t s = true -> replace2 c_bs c_t c_tab (flat_map e3 s) = s.
Proof.
  induction s as [|c s IH]; [reflexivity|]. intro H. pose proof (no_bs_before_tl _ _ _ H) as Ht.
  cbn [flat_map].
  destruct (N.eqb_spec c c_tab) as [->|H4].
  - change (e3 c_tab) with [c_bs; c_t]. cbn [app]. rewrite replace2_hit, IH by assumption. reflexivity.
  - rewrite e3_other by assumption. cbn [app].
    destruct (N.eqb_spec c c_bs) as [->|H1].
    + rewrite replace2_skip by (apply hd_e3; exact H). rewrite IH by assumption. reflexivity.
    + rewrite replace2_ne by assumption. rewrite IH by assumption. reflexivity.
Qed.

Definition escape_safe (s : str) : bool := no_bs_before c_n s && no_bs_before c_t s.

(* MAIN: un-escape inverts escape on every string without backslash directly before n / t *)
Theorem unescape_escape s : escape_safe s = true -> unescape (escape s) = s.
Proof.
  unfold escape_safe, unescape, escape. intro H. apply andb_true_iff in H as [Hn Ht].
  rewrite step1, step2, step3, step4 by assumption. reflexivity.
Qed.

(* ... and the restriction is necessary: the sequential chain mis-reads backslash+n (finding C04-escape-order) *)
Lemma unescape_escape_refuted : exists s, unescape (escape s) <> s.
Proof. exists [c_bs; c_n]. vm_compute. discriminate. Qed.

(* every string that violates escape_safe by its FIRST such pair is mis-read: the defect class is exact
   on two-character witnesses *)
Lemma unescape_escape_refuted_t : unescape (escape [c_bs; c_t]) = [c_tab].
Proof. vm_compute. reflexivity. Qed.

(* non-vacuity: a string with every escaped character and backslashes satisfies the hypothesis *)
Example escape_safe_example : escape_safe [c_bs; c_bs; c_dq; c_nl; c_tab; 97; c_bs; c_dq; c_bs] = true.
Proof. vm_compute. reflexivity. Qed.

(* escaped text contains no raw newline, tab or unescaped quote: what the single-quote scanner needs *)
Lemma escape_no_nl s : memb c_nl (escape s) = false.
Proof.
  induction s as [|c s IH]; [reflexivity|]. unfold escape in *. cbn [flat_map].
  unfold memb in *. rewrite existsb_app, IH, orb_false_r.
  cases c H1 H2 H3 H4; try reflexivity.
  rewrite esc_other by assumption. cbn [existsb]. rewrite orb_false_r. apply N.eqb_neq. congruence.
Qed.
