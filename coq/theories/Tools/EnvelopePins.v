(* C10 -- pins of the constants the FACT VOCABULARY of Tools/Envelope.v is defined against (regenerated from /repo into
   Gen/StatusGen.v on every run).  The guard table itself is consumed, not pinned; these are the literals behind the
   encodings v_profile (0 STRICT, 1 STANDARD, 2 LENIENT, 3 ULTRA, 4 = not in VALID_PROFILES), g_format (0 gbnf,
   1 json_schema, 2 = not in VALID_FORMATS) and behind "schema name is well-formed / builtin" as measured by the harness. *)
From OV Require Import Base.Strs Tools.EnvelopeSyntax Gen.StatusGen Tools.Envelope.
From Coq Require Import String.
Open Scope N_scope.

Lemma pin_valid_profiles : status_valid_profiles = [s2l "LENIENT"; s2l "STANDARD"; s2l "STRICT"; s2l "ULTRA"].
Proof. reflexivity. Qed.
Lemma pin_default_profile : status_default_profile = s2l "STANDARD".
Proof. reflexivity. Qed.
Lemma pin_valid_formats : status_valid_formats = [s2l "gbnf"; s2l "json_schema"].
Proof. reflexivity. Qed.
(* schema names are resolved from files only when they match this pattern ... *)
Lemma pin_schema_name_pattern : status_schema_name_pattern = s2l "^[A-Z][A-Z0-9_]*$".
Proof. reflexivity. Qed.
(* ... because the first statement of load_schema_by_name is `if <this>: return None` *)
Lemma pin_loader_name_guard : status_loader_name_guard = s2l "not SCHEMA_NAME_PATTERN.match(schema_name)".
Proof. reflexivity. Qed.
Lemma pin_get_builtin_return : status_get_builtin_return = s2l "BUILTIN_SCHEMA_DEFINITIONS.get(schema_name)".
Proof. reflexivity. Qed.
(* every builtin dict schema carries its own name and version *)
Lemma pin_builtin_named : forallb (fun e => snd (fst e) && snd e) status_builtin_dict_schemas = true.
Proof. reflexivity. Qed.
(* all six tables compile against the atom dictionaries (an unknown atom = a source change the model does not cover) *)
Lemma pin_tables_compile :
  (if validate_compiled then true else false) && (if write_compiled then true else false) &&
  (if eject_compiled then true else false) && (if grammar_compiled then true else false) &&
  (if cli_validate_compiled then true else false) && (if cli_write_compiled then true else false) = true.
Proof. vm_compute. reflexivity. Qed.

(* ---- schema resolution is re-checked on every call, never remembered ----
   The decision table of core/hydrator.py resolve_hermetic_standard (route of schema="latest" / "frozen@sha256:<H>" in
   octave_write): the returned path is the cache slot only when the digest COMPUTED FROM THE FILE in this call equals H ... *)
Definition hermetic_rows_expected : list (list str * str) :=
    [([s2l "standard_ref == 'latest'"; s2l "not default_path.exists()"], s2l "raise VocabularyError");
     ([s2l "standard_ref == 'latest'"], s2l "return default_path");
     ([s2l "standard_ref.startswith('frozen@sha256:')"; s2l "m is None"], s2l "raise VocabularyError");
     ([s2l "standard_ref.startswith('frozen@sha256:')"; s2l "not cached_path.exists()"], s2l "raise VocabularyError");
     ([s2l "standard_ref.startswith('frozen@sha256:')"; s2l "actual_hash != expected_hash"], s2l "raise VocabularyError");
     ([s2l "standard_ref.startswith('frozen@sha256:')"], s2l "return cached_path");
     ([], s2l "raise VocabularyError")].
Lemma pin_hermetic_rows : status_hermetic_rows = hermetic_rows_expected.
Proof. reflexivity. Qed.
(* ... with every local defined from the arguments and the file system in this call, and no other effect *)
Definition hermetic_defs_expected : list (list str * str) :=
    [([s2l "cache_dir is None"], s2l "cache_dir = Path.home() / '.octave' / 'standards'");
     ([s2l "standard_ref == 'latest'"], s2l "default_path = cache_dir / 'default.oct.md'");
     ([s2l "standard_ref.startswith('frozen@sha256:')"], s2l "m = re.fullmatch('frozen@sha256:([0-9a-fA-F]{64})', standard_ref)");
     ([s2l "standard_ref.startswith('frozen@sha256:')"], s2l "digest = m.group(1).lower()");
     ([s2l "standard_ref.startswith('frozen@sha256:')"], s2l "expected_hash = f'sha256:{digest}'");
     ([s2l "standard_ref.startswith('frozen@sha256:')"], s2l "cached_path = cache_dir / f'{digest[:16]}.oct.md'");
     ([s2l "standard_ref.startswith('frozen@sha256:')"], s2l "actual_hash = compute_vocabulary_hash(cached_path)")].
Lemma pin_hermetic_defs : status_hermetic_defs = hermetic_defs_expected.
Proof. reflexivity. Qed.
(* no resolver is decorated (memoised) and none mentions module-level state other than the name pattern / the builtin dict *)
Definition resolver_state_expected : list (str * list str * list str) :=
    [(s2l "hydrator.resolve_hermetic_standard", @nil str, @nil str);
     (s2l "hydrator.compute_vocabulary_hash", @nil str, @nil str);
     (s2l "loader.load_schema", @nil str, @nil str);
     (s2l "loader.load_schema_by_name", @nil str, [s2l "SCHEMA_NAME_PATTERN"]);
     (s2l "loader.get_schema_search_paths", @nil str, @nil str);
     (s2l "loader.get_builtin_schema", @nil str, [s2l "BUILTIN_SCHEMA_DEFINITIONS"])].
Lemma pin_resolver_state : status_resolver_state = resolver_state_expected.
Proof. reflexivity. Qed.
