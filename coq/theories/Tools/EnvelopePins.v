(* C10 -- pins of the constants the FACT VOCABULARY of Tools/Envelope.v is defined against (regenerated from /repo into
   Gen/StatusGen.v on every run).  The guard table itself is consumed, not pinned; these are the literals behind the
   encodings v_profile (0 STRICT, 1 STANDARD, 2 LENIENT, 3 ULTRA, 4 = not in VALID_PROFILES), g_format (0 gbnf,
   1 json_schema, 2 = not in VALID_FORMATS) and behind "schema name is well-formed / builtin" as measured by the harness. *)
From OV Require Import Base.Strs Tools.EnvelopeSyntax Gen.StatusGen Tools.Envelope.
From Coq Require Import String.
Open Scope N_scope.

Lemma pin_valid_profiles : status_valid_profiles = [s2l "LENIENT"; s2l "STANDARD"; s2l "STRICT"; s2l "ULTRA"].
Proof. reflexivity. Qed.
Lemma pin_default_profile : status_default_profile = s2l "STANDARD".
Proof. reflexivity. Qed.
Lemma pin_valid_formats : status_valid_formats = [s2l "gbnf"; s2l "json_schema"].
Proof. reflexivity. Qed.
(* schema names are resolved from files only when they match this pattern ... *)
Lemma pin_schema_name_pattern : status_schema_name_pattern = s2l "^[A-Z][A-Z0-9_]*$".
Proof. reflexivity. Qed.
(* ... because the first statement of load_schema_by_name is `if <this>: return None` *)
Lemma pin_loader_name_guard : status_loader_name_guard = s2l "not SCHEMA_NAME_PATTERN.match(schema_name)".
Proof. reflexivity. Qed.
Lemma pin_get_builtin_return : status_get_builtin_return = s2l "BUILTIN_SCHEMA_DEFINITIONS.get(schema_name)".
Proof. reflexivity. Qed.
(* every builtin dict schema carries its own name and version *)
Lemma pin_builtin_named : forallb (fun e => snd (fst e) && snd e) status_builtin_dict_schemas = true.
Proof. reflexivity. Qed.
(* all six tables compile against the atom dictionaries (an unknown atom = a source change the model does not cover) *)
Lemma pin_tables_compile :
  (if validate_compiled then true else false) && (if write_compiled then true else false) &&
  (if eject_compiled then true else false) && (if grammar_compiled then true else false) &&
  (if cli_validate_compiled then true else false) && (if cli_write_compiled then true else false) = true.
Proof. vm_compute. reflexivity. Qed.
